#!/usr/bin/env python3
"""Self-test of the verifier: every mutant under selftest/mutants must be caught by the
named obligation, every benign edit under selftest/benign must stay silent.
Mutants are applied to scratch copies and handed to gocv through VERIF_OVERLAY
(packages.Config.Overlay / go test -overlay); /repo is never modified."""
import json, os, re, subprocess, sys, tempfile, shutil, glob

VERIF = os.path.dirname(os.path.dirname(os.path.abspath(__file__)))
REPO = "/repo"

def files_in_diff(text):
    return sorted(set(re.findall(r'^\+\+\+ b/(\S+)', text, re.M)))

def run_one(path, benign, only_prop=None):
    text = open(path).read()
    name = os.path.basename(path)
    prop = name.split("__")[0]
    if only_prop and prop != only_prop:
        return None
    expect = re.findall(r'^# expect: (.+)$', text, re.M)
    tmp = tempfile.mkdtemp(prefix="gocv-selftest-")
    try:
        repl = {}
        for f in files_in_diff(text):
            dst = os.path.join(tmp, f)
            os.makedirs(os.path.dirname(dst), exist_ok=True)
            src = os.path.join(REPO, f)
            if os.path.exists(src):
                shutil.copy(src, dst)
            repl[src] = dst
        r = subprocess.run(["patch", "-s", "-p1", "-d", tmp, "-i", path], capture_output=True, text=True)
        if r.returncode != 0:
            return (name, False, "patch does not apply: " + r.stdout + r.stderr)
        ov = os.path.join(tmp, "overlay.json")
        json.dump({"Replace": repl}, open(ov, "w"))
        env = dict(os.environ, VERIF_OVERLAY=ov)
        r = subprocess.run([os.path.join(VERIF, "bin", "gocv"), "check", "--property", prop, "--verif", VERIF, "--no-evidence"], capture_output=True, text=True, env=env, cwd=VERIF)
        out = r.stdout + r.stderr
        viol = [l for l in out.splitlines() if l.startswith("VIOLATION")]
        if benign:
            ok = r.returncode == 0 and not viol
            return (name, ok, "silent" if ok else "ALARM on benign edit: " + "; ".join(viol)[:600])
        if r.returncode != 1 or not viol:
            return (name, False, "NOT CAUGHT (exit %d)\n%s" % (r.returncode, out[-800:]))
        missing = [e for e in expect if not any(e.strip() in v for v in viol)]
        if missing:
            return (name, False, "caught, but not by the expected obligation %s: %s" % (missing, "; ".join(viol)[:600]))
        replayed = [v for v in viol if not v.rstrip().endswith("no-failing-input-found")]
        return (name, True, "caught by %d obligation(s), %d with a replayed input: %s" % (len(viol), len(replayed), ", ".join(re.findall(r'obligation=(\S+)', " ".join(viol)))[:300]))
    finally:
        shutil.rmtree(tmp, ignore_errors=True)

def main():
    only = sys.argv[1] if len(sys.argv) > 1 else None
    bad = 0
    for kind, benign in (("mutants", False), ("benign", True)):
        for p in sorted(glob.glob(os.path.join(VERIF, "selftest", kind, "*.diff"))):
            res = run_one(p, benign, only)
            if res is None:
                continue
            name, ok, msg = res
            print("%-8s %-60s %s" % ("ok" if ok else "FAIL", name, msg))
            if not ok:
                bad += 1
    sys.exit(1 if bad else 0)

if __name__ == "__main__":
    main()
