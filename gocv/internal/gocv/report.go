package gocv

import (
	"encoding/json"
	"fmt"
	"os"
	"os/exec"
	"path/filepath"
	"regexp"
	"sort"
	"strings"
)

type Evidence struct {
	PropertyID  string         `json:"property_id"`
	Tier        string         `json:"tier"`
	Seed        int            `json:"seed"`
	Level       string         `json:"level"`
	Coverage    map[string]any `json:"coverage"`
	Assumptions []string       `json:"assumptions"`
	WallS       float64        `json:"wall_s"`
	Violations  int            `json:"violations"`
}

// Replayer tries to turn a failed obligation into a concrete failing input on
// the real code. It returns a description of the failing input, or "".
type Replayer func(opt *Options, o *Obligation, replayDir string) (input string, log string)

var replayers = map[string]Replayer{}

// matchFinding: a finding suppresses exactly one obligation name of one property.
func matchFinding(fs []Finding, prop string, o *Obligation) *Finding {
	for i := range fs {
		f := &fs[i]
		if f.Kind == "finding" && f.Property == prop && f.Obligation == o.Name {
			return f
		}
	}
	return nil
}

// Report prints VIOLATION / KNOWN-FINDING lines, writes evidence and replay files; returns the exit code.
func Report(opt *Options, rep *CheckReport, notCovered []string) int {
	if err := LoadReplayers(opt.VerifDir); err != nil {
		fmt.Println("error:", err)
		return 2
	}
	findings, err := loadFindings(filepath.Join(opt.VerifDir, "known_findings.txt"))
	if err != nil {
		fmt.Println("error:", err)
		return 2
	}
	replayDir := filepath.Join(opt.VerifDir, "replays", opt.Property)
	if opt.NoEvidence {
		replayDir = filepath.Join(opt.VerifDir, ".work", fmt.Sprintf("replays-%s-%d", opt.Property, os.Getpid()))
	}
	os.RemoveAll(replayDir)
	exit := 0
	if rep.Broken != "" {
		// the tree does not build: nothing can be established
		os.MkdirAll(replayDir, 0o755)
		p := filepath.Join(replayDir, "build-broken.json")
		writeJSON(p, map[string]any{"obligation": "build", "detail": rep.Broken})
		fmt.Printf("VIOLATION property=%s replay=%s obligation=build (the tree does not type-check: %s) no-failing-input-found\n", opt.Property, p, firstLine(rep.Broken))
		writeEvidence(opt, rep, notCovered, 1, nil)
		return 1
	}
	discharged, total := 0, 0
	var samples []any
	var canaries, vacuity []any
	usedFinding := map[string]bool{}
	violations := 0
	for _, o := range rep.Obligations {
		switch {
		case o.Canary:
			canaries = append(canaries, map[string]any{"name": o.Name, "result": o.Status})
			if o.Status == "canary-vacuous" {
				violations++
				exit = 1
				os.MkdirAll(replayDir, 0o755)
				p := filepath.Join(replayDir, sanitize(o.Name)+".json")
				writeJSON(p, map[string]any{"obligation": o.Name, "detail": "canary clause was proved: the verification conditions of this function are vacuous"})
				fmt.Printf("VIOLATION property=%s replay=%s obligation=%s (vacuity canary proved) no-failing-input-found\n", opt.Property, p, o.Name)
			}
			continue
		case o.Vacuity:
			vacuity = append(vacuity, map[string]any{"name": o.Name, "result": o.Status})
			if o.Status != "failed" {
				continue
			}
		}
		if !o.Vacuity {
			total++
		}
		if o.Status == "discharged" {
			discharged++
			if len(samples) < 400 {
				samples = append(samples, map[string]any{"name": o.Name, "result": "discharged", "solver": o.Solver, "ms": o.Millis, "path_queries": o.Queries})
			}
			continue
		}
		// failed
		if f := matchFinding(findings, opt.Property, o); f != nil && newInputOutsideFinding(opt, o, f, replayDir) == "" {
			usedFinding[f.Raw] = true
			fmt.Printf("KNOWN-FINDING: property=%s %s %s\n", opt.Property, o.Name, f.Text)
			samples = append(samples, map[string]any{"name": o.Name, "result": "known-finding", "finding": f.Text})
			o.Status = "known-finding"
			total-- // a recorded finding is not counted as an obligation of the proof
			continue
		}
		violations++
		exit = 1
		os.MkdirAll(replayDir, 0o755)
		p := filepath.Join(replayDir, sanitize(o.Name)+".json")
		rec := map[string]any{"obligation": o.Name, "property": opt.Property, "detail": o.Detail, "pos": o.Pos, "solver_attempts": o.Attempts}
		if o.FailRes != nil {
			rec["solver_output"] = truncate(o.FailRes.Output, 8000)
			rec["status"] = o.FailRes.Status
		}
		if o.FailQuery != nil {
			smt := filepath.Join(replayDir, sanitize(o.Name)+".smt2")
			os.WriteFile(smt, []byte(o.FailQuery.Text(true)), 0o644)
			rec["smt"] = smt
		}
		input := ""
		if o.NewInput != "" {
			input = o.NewInput
			rec["failing_input"] = input
			rec["replay_log"] = truncate(o.NewInputLog, 8000)
		} else if rp := replayerFor(opt.Property + ":" + o.Name); rp != nil {
			var log string
			input, log = rp(opt, o, replayDir)
			rec["replay_log"] = truncate(log, 8000)
			if input != "" {
				rec["failing_input"] = input
			}
		}
		writeJSON(p, rec)
		tail := ""
		if input == "" {
			tail = " no-failing-input-found"
		}
		fmt.Printf("VIOLATION property=%s replay=%s obligation=%s (%s)%s\n", opt.Property, p, o.Name, firstLine(o.Detail), tail)
		samples = append(samples, map[string]any{"name": o.Name, "result": "failed", "detail": o.Detail})
	}
	// findings listed for this property that no longer fail are not an error, but are reported
	for _, f := range findings {
		if f.Kind == "finding" && f.Property == opt.Property && !usedFinding[f.Raw] {
			fmt.Printf("note: known finding no longer reproduces: %s\n", f.Raw)
		}
	}
	if total == 0 && exit == 0 {
		fmt.Printf("VIOLATION property=%s replay=%s obligation=none (no obligations were generated: vacuous check) no-failing-input-found\n", opt.Property, filepath.Join(opt.VerifDir, "MANIFEST.json"))
		exit = 1
		violations++
	}
	extra := map[string]any{
		"obligations": total, "discharged": discharged, "samples": samples, "canaries": canaries, "vacuity_probes": vacuity,
	}
	writeEvidence(opt, rep, notCovered, violations, extra)
	if opt.Verbose || exit != 0 {
		for _, o := range rep.Obligations {
			if o.Status == "failed" || o.Status == "canary-vacuous" {
				fmt.Printf("  FAILED %s: %s %v\n", o.Name, o.Detail, o.Attempts)
				if o.Model != "" {
					fmt.Printf("    model: %s\n", truncate(strings.ReplaceAll(o.Model, "\n", " "), 1500))
				}
			} else if opt.Verbose {
				fmt.Printf("  %-16s %s (%s, %d ms, %d queries)\n", o.Status, o.Name, o.Solver, o.Millis, o.Queries)
			}
		}
	}
	fmt.Printf("%s: %d/%d obligations discharged, %d violations, %d path queries, %.1fs wall, %.1fs solver\n", opt.Property, discharged, total, violations, rep.NQueries, rep.Wall, float64(rep.SolverMs)/1000)
	return exit
}

// newInputOutsideFinding: a recorded finding stands for the failing inputs it describes. Where a replay
// harness exists and the finding carries a `match=` pattern, the harness is run and a reported failing
// input that does not match the pattern is a NEW violation of the same obligation (returned, and then
// reported as such); no harness, no pattern or no output leaves the finding as recorded.
var replayCache = map[string]string{}

func newInputOutsideFinding(opt *Options, o *Obligation, f *Finding, replayDir string) string {
	if f.Match == "" || opt.Tier != "thorough" {
		// quick tier: the finding suppresses its obligation by name; the thorough tier also replays
		return ""
	}
	rp := replayerFor(opt.Property + ":" + o.Name)
	if rp == nil {
		return ""
	}
	re, err := regexp.Compile(f.Match)
	if err != nil {
		fmt.Printf("warning: known_findings: bad match pattern %q: %v\n", f.Match, err)
		return ""
	}
	fn := o.Name
	if i := strings.Index(fn, "#"); i >= 0 {
		fn = fn[:i]
	}
	log, ok := replayCache[fn]
	if !ok {
		_, log = rp(opt, o, replayDir)
		replayCache[fn] = log
	}
	for _, l := range strings.Split(log, "\n") {
		i := strings.Index(l, "FAILING-INPUT")
		if i < 0 {
			continue
		}
		in := strings.TrimSpace(l[i+len("FAILING-INPUT"):])
		if !re.MatchString(in) {
			o.Detail = "a failing input outside the recorded finding: " + in
			o.NewInput, o.NewInputLog = in, log
			return in
		}
	}
	return ""
}

func replayerFor(obl string) Replayer {
	var best string
	for prefix := range replayers {
		if strings.HasPrefix(obl, prefix) && len(prefix) > len(best) {
			best = prefix
		}
	}
	if best == "" {
		return nil
	}
	return replayers[best]
}

func firstLine(s string) string {
	if i := strings.Index(s, "\n"); i >= 0 {
		s = s[:i]
	}
	return truncate(s, 300)
}

func truncate(s string, n int) string {
	if len(s) > n {
		return s[:n] + "…"
	}
	return s
}

func writeJSON(path string, v any) {
	data, _ := json.MarshalIndent(v, "", " ")
	os.MkdirAll(filepath.Dir(path), 0o755)
	os.WriteFile(path, append(data, '\n'), 0o644)
}

func writeEvidence(opt *Options, rep *CheckReport, notCovered []string, violations int, extra map[string]any) {
	if opt.NoEvidence {
		return
	}
	cov := map[string]any{
		"obligations": 0, "discharged": 0,
		"checker_cmd":              fmt.Sprintf("./bin/gocv check --property %s --tier %s  (VCs generated from /repo's working tree; each raced on z3 4.8.12 / z3-new 5.1.0 / cvc5 1.0)", opt.Property, opt.Tier),
		"functions_under_contract": rep.Functions,
		"path_queries":             rep.NQueries,
		"solver_time_s":            float64(rep.SolverMs) / 1000,
		"not_covered":              notCovered,
	}
	for k, v := range extra {
		cov[k] = v
	}
	tb := append([]string(nil), rep.Trusted...)
	sort.Strings(tb)
	var unc []string
	for _, u := range rep.Uncontracted {
		unc = append(unc, "uncontracted callee (results and heap havocked): "+u)
	}
	if b := runBounded(opt); b != nil {
		cov["bounded_checks"] = b
	}
	if rep.Cross != nil {
		cov["cross_check"] = map[string]any{
			"what":            "thorough tier: every discharged path query re-submitted to the other two solvers (20 s each)",
			"also_unsat":      rep.Cross["agree"],
			"no_second_verdict": rep.Cross["single"],
			"disagreements":   rep.Cross["disagree"],
		}
	}
	if opt.Tier == "thorough" {
		cov["selftest"] = runSelftest(opt)
	}
	cov["trusted_base"] = append(append([]string{"gocv VC generator (unverified)", "SMT solvers z3 4.8.12, z3-new 5.1.0, cvc5 1.0"}, tb...), unc...)
	if _, ok := cov["samples"]; !ok {
		cov["samples"] = []any{}
	}
	ass := []string{
		"machine integers are modelled as mathematical integers (no overflow obligations)",
		"partial correctness only: termination is not verified; decreases clauses are recorded, not checked",
		"no aliasing of slice backing arrays is modelled; callees are assumed not to write through slice arguments",
		"calls without a contract havoc the heap and their results; goroutines, channels, select, unsafe, reflection are out of fragment",
		"pure methods are functions of receiver and arguments only (immutable-object assumption)",
		"a contracted callee runs no function values other than its arguments (closures stored in the heap earlier are not re-entered by it)",
		"an interface value holding a nil pointer is identified with the nil interface (typed-nil interfaces are not modelled)",
		"a pointer-receiver method promoted through an embedded struct VALUE is called at an address unrelated to the enclosing object (such accessors are not put under contract)",
		"strings.Split/SplitN/SplitAfter/SplitAfterN/Fields/FieldsFunc, slices.Clone and bytes.Clone return newly allocated slices (element writes through their results are alias-free)",
		"a slice variable read from a map element (range value, v := m[k]) is linked to that element only for in-place changes made by contracted callees (sort.*): the changed slice is written back to m[k]",
		"x.(T) with T a type parameter constrained to a union of concrete types is an exact dynamic-type test",
		"every trusted contract listed in coverage.trusted_base",
	}
	ass = append(ass, rep.Assumptions...)
	ev := &Evidence{PropertyID: opt.Property, Tier: opt.Tier, Seed: opt.Seed, Level: "proof", Coverage: cov, Assumptions: ass, WallS: rep.Wall, Violations: violations}
	writeJSON(filepath.Join(opt.VerifDir, "evidence", opt.Property+".json"), ev)
}

// runSelftest (thorough tier): the must-fail corpus of this property (deliberately broken bodies and
// pre-fix canaries, applied through an overlay) must be caught, the benign edits must stay silent.
// It measures the sensitivity of the check; it never changes the verdict about /repo.
func runSelftest(opt *Options) any {
	script := filepath.Join(opt.VerifDir, "selftest", "run.py")
	if _, err := os.Stat(script); err != nil {
		return map[string]any{"error": "selftest/run.py missing"}
	}
	cmd := exec.Command("python3", script, opt.Property)
	cmd.Dir = opt.VerifDir
	cmd.Env = append(os.Environ(), "VERIF_SELFTEST_CHILD=1")
	out, _ := cmd.CombinedOutput()
	var lines []string
	caught, missed, silent := 0, 0, 0
	for _, l := range strings.Split(strings.TrimSpace(string(out)), "\n") {
		if l == "" {
			continue
		}
		lines = append(lines, truncate(l, 300))
		switch {
		case strings.HasPrefix(l, "ok") && strings.Contains(l, "caught by"):
			caught++
		case strings.HasPrefix(l, "ok") && strings.Contains(l, "silent"):
			silent++
		case strings.HasPrefix(l, "FAIL"):
			missed++
			fmt.Printf("warning: self-test regression: %s\n", truncate(l, 300))
		}
	}
	return map[string]any{"mutants_caught": caught, "benign_silent": silent, "regressions": missed, "lines": lines}
}

var boundedProps = map[string]bool{"C13": true, "C14": true, "C08": true, "C19": true, "C06": true, "C11": true, "C18": true}

// runBounded runs the bounded validation of the trusted stdlib contracts (labelled bounded; never
// counted as obligations). A failure there means an ASSUMPTION of the proofs is wrong and is printed loudly.
func runBounded(opt *Options) any {
	if false && !boundedProps[opt.Property] {
		return nil
	}
	bin := filepath.Join(opt.VerifDir, "bin", "bounded")
	if _, err := os.Stat(bin); err != nil {
		return map[string]any{"label": "bounded", "error": "bin/bounded not built"}
	}
	n := "7"
	if opt.Tier == "thorough" {
		n = "9"
	}
	out, err := exec.Command(bin, "--len", n).Output()
	var v any
	if json.Unmarshal(out, &v) != nil {
		return map[string]any{"label": "bounded", "error": fmt.Sprint(err)}
	}
	if err != nil {
		fmt.Printf("warning: bounded validation of trusted stdlib contracts found counterexamples: %s\n", truncate(string(out), 600))
	}
	return v
}
