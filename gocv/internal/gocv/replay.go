package gocv

import (
	"bytes"
	"context"
	"encoding/json"
	"fmt"
	"os"
	"os/exec"
	"path/filepath"
	"strings"
	"time"
)

type replaySpec struct {
	Prefix   string `json:"prefix"`
	Property string `json:"property"`
	Pkg      string `json:"pkg"`
	File     string `json:"file"`
	Test     string `json:"test"`
}

// LoadReplayers registers the go-test replay harnesses listed in replay/replays.json.
func LoadReplayers(verifDir string) error {
	// replay/replays.json and any replay/replays_*.json
	files, _ := filepath.Glob(filepath.Join(verifDir, "replay", "replays*.json"))
	var specs []replaySpec
	for _, f := range files {
		data, err := os.ReadFile(f)
		if err != nil {
			return err
		}
		var part []replaySpec
		if err := json.Unmarshal(data, &part); err != nil {
			return fmt.Errorf("%s: %v", f, err)
		}
		specs = append(specs, part...)
	}
	for _, s := range specs {
		s := s
		replayers[s.Property+":"+s.Prefix] = func(opt *Options, o *Obligation, dir string) (string, string) {
			return goTestReplay(opt, &s, o, dir)
		}
	}
	return nil
}

// goTestReplay injects the harness into the package with -overlay and runs it on the real code.
func goTestReplay(opt *Options, s *replaySpec, o *Obligation, dir string) (string, string) {
	fn := o.Name
	if i := strings.Index(fn, "#"); i >= 0 {
		fn = fn[:i]
	}
	if i := strings.LastIndex(fn, "."); i >= 0 {
		fn = fn[i+1:]
	}
	ov := map[string]string{}
	for k, v := range overlayMap() {
		ov[k] = v
	}
	pkgDir := filepath.Join(opt.RepoDir, s.Pkg)
	ov[filepath.Join(pkgDir, "zz_verif_replay_test.go")] = filepath.Join(opt.VerifDir, "replay", s.File)
	os.MkdirAll(dir, 0o755)
	ovFile := filepath.Join(dir, "overlay_"+sanitize(o.Name)+".json")
	data, _ := json.Marshal(map[string]any{"Replace": ov})
	os.WriteFile(ovFile, data, 0o644)
	ctx, cancel := context.WithTimeout(context.Background(), 180*time.Second)
	defer cancel()
	cmd := exec.CommandContext(ctx, "go", "test", "-v", "-overlay", ovFile, "-vet=off", "-timeout", "60s", "-count=1", "-tags", "verif", "-run", "^"+s.Test+"$", s.Pkg)
	cmd.Dir = opt.RepoDir
	cmd.Env = append(os.Environ(), "GOFLAGS=-mod=mod", "GOPROXY=off", "GOSUMDB=off", "GOTOOLCHAIN=local",
		"VERIF_REPLAY_FUNC="+fn, "VERIF_REPLAY_OBLIGATION="+o.Name, "VERIF_REPLAY_MODEL="+o.Model)
	var buf bytes.Buffer
	cmd.Stdout = &buf
	cmd.Stderr = &buf
	_ = cmd.Run()
	out := buf.String()
	input := ""
	var log []string
	for _, l := range strings.Split(out, "\n") {
		if i := strings.Index(l, "VERIF-REPLAY"); i >= 0 {
			log = append(log, l[i:])
			if input == "" && strings.Contains(l, "FAILING-INPUT") {
				input = strings.TrimSpace(l[strings.Index(l, "FAILING-INPUT")+len("FAILING-INPUT"):])
			}
		}
	}
	if len(log) == 0 {
		log = append(log, truncate(out, 4000))
	}
	log = append(log, "replay command: (cd "+opt.RepoDir+" && VERIF_REPLAY_FUNC="+fn+" go test -v -overlay "+ovFile+" -vet=off -tags verif -run '^"+s.Test+"$' "+s.Pkg+")")
	return input, strings.Join(log, "\n")
}

// ReplayNow runs the harness registered for the obligation against the current tree.
func ReplayNow(opt *Options, obligation string) (string, string, error) {
	if err := LoadReplayers(opt.VerifDir); err != nil {
		return "", "", err
	}
	rp := replayerFor(opt.Property + ":" + obligation)
	if rp == nil {
		return "", "", fmt.Errorf("no replay harness registered for %s:%s", opt.Property, obligation)
	}
	dir := filepath.Join(opt.VerifDir, ".work", fmt.Sprintf("replaynow-%d", os.Getpid()))
	defer os.RemoveAll(dir)
	input, log := rp(opt, &Obligation{Name: obligation}, dir)
	return input, log, nil
}
