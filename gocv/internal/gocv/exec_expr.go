package gocv

import (
	"fmt"
	"go/ast"
	"go/token"
	"go/types"
	"strings"

	"golang.org/x/tools/go/types/typeutil"
)

func (ex *Exec) evalList(st *State, es []ast.Expr, k func(*State, []Val)) {
	vals := make([]Val, 0, len(es))
	var rec func(st *State, i int, acc []Val)
	rec = func(st *State, i int, acc []Val) {
		if i >= len(es) {
			k(st, acc)
			return
		}
		ex.eval(st, es[i], func(st2 *State, v Val) {
			rec(st2, i+1, append(append([]Val(nil), acc...), v))
		})
	}
	rec(st, 0, vals)
}

func (ex *Exec) eval(st *State, e ast.Expr, k func(*State, Val)) {
	if st.dead {
		return
	}
	e = unparen(e)
	if tv, ok := ex.info.Types[e]; ok && tv.Value != nil {
		k(st, ex.constVal(tv.Value, tv.Type))
		return
	}
	switch e := e.(type) {
	case *ast.Ident:
		k(st, ex.evalIdent(st, e))
	case *ast.BasicLit:
		ex.oof(e.Pos(), "literal without constant value")
	case *ast.FuncLit:
		r := ex.fresh("closure", SRef)
		st.assume(not(eq(r, "0")))
		clo := &Closure{Lit: e, Pkg: ex.pkg}
		ex.escaped[e] = true
		if ord, ok := ex.cloOrd[e]; ok && ex.fc != nil {
			if ls := ex.fc.Closures[ord]; ls != nil && len(ls.Ensures) > 0 && ex.closureContextIsNew(st, e) {
				ex.cloHit[ord] = true
				ex.verifyClosure(st.clone(), clo, ord, ls)
			}
		}
		k(st, Val{T: r, S: SRef, GoT: ex.typeOf(e), Clo: clo})
	case *ast.SelectorExpr:
		if sel := ex.info.Selections[e]; sel != nil {
			switch sel.Kind() {
			case types.FieldVal:
				ex.eval(st, e.X, func(st2 *State, x Val) {
					x.GoT = ex.typeOf(e.X)
					k(st2, ex.fieldPath(st2, x, sel.Index()))
				})
			case types.MethodExpr:
				if fn, ok := sel.Obj().(*types.Func); ok {
					v := ex.funcRef(fn)
					v.GoT = ex.typeOf(e)
					k(st, v)
					return
				}
				r := ex.fresh("methodexpr", SRef)
				st.assume(not(eq(r, "0")))
				k(st, Val{T: r, S: SRef, GoT: ex.typeOf(e)})
			default:
				// method value
				ex.eval(st, e.X, func(st2 *State, _ Val) {
					r := ex.fresh("methodval", SRef)
					st2.assume(not(eq(r, "0")))
					k(st2, Val{T: r, S: SRef, GoT: ex.typeOf(e)})
				})
			}
			return
		}
		// qualified identifier
		obj := ex.info.Uses[e.Sel]
		v, ok := ex.valOfPkgObject(st, obj)
		if !ok {
			if fn, isFn := obj.(*types.Func); isFn {
				k(st, ex.funcRef(fn))
				return
			}
			ex.oof(e.Pos(), "qualified identifier %s", e.Sel.Name)
		}
		k(st, v)
	case *ast.IndexExpr:
		if _, isInst := ex.info.Instances[identOf(e.X)]; isInst {
			ex.eval(st, e.X, k)
			return
		}
		xt := ex.typeOf(e.X)
		ex.eval(st, e.X, func(st2 *State, x Val) {
			ex.eval(st2, e.Index, func(st3 *State, i Val) {
				switch u := under(xt).(type) {
				case *types.Map:
					i = ex.convert(st3, i, u.Key())
					in := app("select", app("m-dom", x.T), i.T)
					mv := Val{T: ite(in, app("select", app("m-val", x.T), i.T), zeroOf(x.S.Elem)), S: x.S.Elem, GoT: u.Elem()}
					if x.S.Elem.K == KSlice || x.S.Elem.K == KMap {
						// a slice or map stored in a map is a well-formed value (len >= 0, nil => empty)
						mv = ex.share(st3, mv)
						st3.assume(ex.wf(mv))
					}
					k(st3, mv)
				case *types.Slice, *types.Array:
					ev := Val{T: app("select", app("s-arr", x.T), i.T), S: x.S.Elem, GoT: elemGoType(xt)}
					ex.assumeWf(st3, ev)
					k(st3, ev)
				case *types.Basic:
					k(st3, Val{T: app("str.to_code", app("str.at", x.T, i.T)), S: SInt, GoT: types.Typ[types.Byte]})
				case *types.Pointer:
					ex.oof(e.Pos(), "index through pointer to array")
				default:
					ex.oof(e.Pos(), "index on %s", xt)
				}
			})
		})
	case *ast.IndexListExpr:
		ex.eval(st, e.X, k)
	case *ast.SliceExpr:
		ex.sliceExpr(st, e, k)
	case *ast.StarExpr:
		ex.eval(st, e.X, func(st2 *State, p Val) {
			elem := under(ex.typeOf(e.X)).(*types.Pointer).Elem()
			k(st2, ex.load(st2, p, elem))
		})
	case *ast.UnaryExpr:
		ex.unary(st, e, k)
	case *ast.BinaryExpr:
		if e.Op == token.LAND || e.Op == token.LOR {
			if ex.hasCall(e.Y) {
				// short-circuit with effects: fork
				ex.cond(st, e, func(sT *State) { k(sT, Val{T: "true", S: SBool, GoT: types.Typ[types.Bool]}) },
					func(sF *State) { k(sF, Val{T: "false", S: SBool, GoT: types.Typ[types.Bool]}) })
				return
			}
		}
		ex.eval(st, e.X, func(st2 *State, x Val) {
			ex.eval(st2, e.Y, func(st3 *State, y Val) {
				// nil comparisons against slices/maps
				xt, yt := ex.typeOf(e.X), ex.typeOf(e.Y)
				if e.Op == token.EQL || e.Op == token.NEQ {
					if isUntypedNil(yt) {
						y = ex.nilOf(x)
					} else if isUntypedNil(xt) {
						x = ex.nilOf(y)
					} else {
						// mixed concrete/interface comparison
						if x.S.K != KRef && y.S.K == KRef {
							x = ex.convert(st3, x, yt)
						} else if y.S.K != KRef && x.S.K == KRef {
							y = ex.convert(st3, y, xt)
						}
					}
				}
				v := ex.binop(st3, e.Op.String(), x, y, e.Pos())
				v.GoT = ex.typeOf(e)
				k(st3, v)
			})
		})
	case *ast.CallExpr:
		ex.evalCall(st, e, func(st2 *State, vs []Val) {
			if len(vs) != 1 {
				ex.oof(e.Pos(), "call used as value returns %d results", len(vs))
			}
			k(st2, vs[0])
		})
	case *ast.CompositeLit:
		ex.compositeLit(st, e, k)
	case *ast.TypeAssertExpr:
		ex.eval(st, e.X, func(st2 *State, x Val) {
			v, ok := ex.typeAssert(st2, x, ex.typeOf(e.Type))
			// failing assertion panics: the path ends there
			st2.assume(ok)
			k(st2, v)
		})
	case *ast.KeyValueExpr:
		ex.oof(e.Pos(), "key-value outside composite literal")
	default:
		ex.oof(e.Pos(), "expression %T", e)
	}
}

func identOf(e ast.Expr) *ast.Ident {
	switch e := unparen(e).(type) {
	case *ast.Ident:
		return e
	case *ast.SelectorExpr:
		return e.Sel
	}
	return nil
}

func isUntypedNil(t types.Type) bool {
	b, ok := t.(*types.Basic)
	return ok && b.Kind() == types.UntypedNil
}

func (ex *Exec) nilOf(like Val) Val {
	return Val{T: zeroOf(like.S), S: like.S, GoT: like.GoT}
}

func (ex *Exec) funcRef(fn *types.Func) Val {
	name := "|fn_" + sanitize(funcKey(fn)) + "|"
	ex.declare(fmt.Sprintf("(declare-const %s Ref)", name))
	ex.declare(fmt.Sprintf("(assert (not (= %s 0)))", name))
	return Val{T: name, S: SRef, GoT: fn.Type(), Fn: fn}
}

func (ex *Exec) evalIdent(st *State, id *ast.Ident) Val {
	obj := ex.info.Uses[id]
	if obj == nil {
		obj = ex.info.Defs[id]
	}
	switch o := obj.(type) {
	case *types.Nil:
		return Val{T: "0", S: SRef}
	case *types.Var:
		if o.Pkg() != nil && o.Parent() == o.Pkg().Scope() {
			return ex.globalVar(st, o)
		}
		return ex.readVar(st, o)
	case *types.Func:
		return ex.funcRef(o)
	case *types.Const:
		return ex.constVal(o.Val(), o.Type())
	}
	ex.oof(id.Pos(), "identifier %s (%T)", id.Name, obj)
	return Val{}
}

func (ex *Exec) unary(st *State, e *ast.UnaryExpr, k func(*State, Val)) {
	switch e.Op {
	case token.NOT:
		ex.eval(st, e.X, func(st2 *State, x Val) { k(st2, Val{T: not(x.T), S: SBool, GoT: x.GoT}) })
	case token.SUB:
		ex.eval(st, e.X, func(st2 *State, x Val) { k(st2, Val{T: app("-", x.T), S: x.S, GoT: x.GoT}) })
	case token.ADD:
		ex.eval(st, e.X, k)
	case token.AND:
		switch x := unparen(e.X).(type) {
		case *ast.CompositeLit:
			ex.compositeLit(st, x, func(st2 *State, v Val) {
				p := ex.allocRef(st2, "lit")
				t := ex.typeOf(x)
				ex.store(st2, p, t, v)
				p.GoT = types.NewPointer(t)
				k(st2, p)
			})
		case *ast.Ident:
			obj, _ := ex.info.Uses[x].(*types.Var)
			if obj == nil || !ex.boxed[obj] {
				ex.oof(e.Pos(), "address of unboxed variable %s", x.Name)
			}
			p, ok := st.vars[obj]
			if !ok {
				ex.oof(e.Pos(), "address of undefined variable")
			}
			k(st, p)
		default:
			// &x.f, &a[i]: an unknown non-nil pointer (aliasing with the field is not modelled)
			ex.oof(e.Pos(), "address of %T", x)
		}
	case token.ARROW:
		ex.oof(e.Pos(), "channel receive")
	default:
		ex.eval(st, e.X, func(st2 *State, x Val) { k(st2, ex.freshVal("bitop", ex.typeOf(e))) })
	}
}

func (ex *Exec) binop(st *State, op string, x, y Val, pos token.Pos) Val {
	b := func(t string) Val { return Val{T: t, S: SBool, GoT: types.Typ[types.Bool]} }
	switch op {
	case "&&":
		return b(and(x.T, y.T))
	case "||":
		return b(or(x.T, y.T))
	case "==", "!=":
		if !sameSort(x.S, y.S) {
			ex.oof(pos, "comparison of %s with %s", x.S, y.S)
		}
		var t string
		switch x.S.K {
		case KSlice:
			// only comparisons with nil are legal in Go
			t = app("s-nil", x.T)
			if y.T != zeroOf(y.S) {
				t = app("s-nil", y.T)
			}
		case KMap:
			t = app("m-nil", x.T)
			if y.T != zeroOf(y.S) {
				t = app("m-nil", y.T)
			}
		default:
			t = eq(x.T, y.T)
		}
		if op == "!=" {
			t = not(t)
		}
		return b(t)
	case "<", "<=", ">", ">=":
		if x.S.K == KString {
			switch op {
			case "<":
				return b(app("str.<", x.T, y.T))
			case "<=":
				return b(app("str.<=", x.T, y.T))
			case ">":
				return b(app("str.<", y.T, x.T))
			default:
				return b(app("str.<=", y.T, x.T))
			}
		}
		return b(app(op, x.T, y.T))
	case "+":
		if x.S.K == KString {
			return Val{T: app("str.++", x.T, y.T), S: SString}
		}
		return Val{T: app("+", x.T, y.T), S: x.S}
	case "-", "*":
		return Val{T: app(op, x.T, y.T), S: x.S}
	case "/":
		if x.S.K == KReal {
			return Val{T: app("/", x.T, y.T), S: x.S}
		}
		return Val{T: goDiv(x.T, y.T), S: SInt}
	case "%":
		return Val{T: goMod(x.T, y.T), S: SInt}
	}
	// bit operations: unknown result
	ex.assumptions["bit operations are havocked"] = true
	return Val{T: ex.fresh("bitop", x.S), S: x.S}
}

func (ex *Exec) sliceExpr(st *State, e *ast.SliceExpr, k func(*State, Val)) {
	xt := ex.typeOf(e.X)
	ex.eval(st, e.X, func(st2 *State, x Val) {
		evalOpt := func(st *State, oe ast.Expr, dflt string, kk func(*State, string)) {
			if oe == nil {
				kk(st, dflt)
				return
			}
			ex.eval(st, oe, func(s2 *State, v Val) { kk(s2, v.T) })
		}
		switch x.S.K {
		case KString:
			evalOpt(st2, e.Low, "0", func(st3 *State, lo string) {
				evalOpt(st3, e.High, app("str.len", x.T), func(st4 *State, hi string) {
					// out-of-range slicing panics: path continues only when in range
					st4.assume(and(app("<=", "0", lo), app("<=", lo, hi), app("<=", hi, app("str.len", x.T))))
					k(st4, Val{T: app("str.substr", x.T, lo, app("-", hi, lo)), S: SString, GoT: xt})
				})
			})
		case KSlice:
			evalOpt(st2, e.Low, "0", func(st3 *State, lo string) {
				evalOpt(st3, e.High, app("s-len", x.T), func(st4 *State, hi string) {
					st4.assume(and(app("<=", "0", lo), app("<=", lo, hi)))
					if lo == "0" {
						k(st4, Val{T: mkSlice(x.S, app("s-arr", x.T), hi, "false"), S: x.S, GoT: xt})
						return
					}
					r := ex.freshVal("subslice", xt)
					st4.assume(and(eq(app("s-len", r.T), app("-", hi, lo)), not(app("s-nil", r.T))))
					st4.assume(fmt.Sprintf("(forall ((q_i Int)) (=> (and (<= 0 q_i) (< q_i (- %s %s))) (= (select (s-arr %s) q_i) (select (s-arr %s) (+ q_i %s)))))", hi, lo, r.T, x.T, lo))
					k(st4, r)
				})
			})
		default:
			ex.oof(e.Pos(), "slice expression on %s", xt)
		}
	})
}

func (ex *Exec) compositeLit(st *State, e *ast.CompositeLit, k func(*State, Val)) {
	t := ex.typeOf(e)
	switch u := under(t).(type) {
	case *types.Struct:
		ss := ex.sortOf(t)
		vals := make([]string, u.NumFields())
		for i := 0; i < u.NumFields(); i++ {
			vals[i] = zeroOf(ex.sortOf(u.Field(i).Type()))
		}
		var rec func(st *State, i int, vals []string)
		rec = func(st *State, i int, vals []string) {
			if i >= len(e.Elts) {
				k(st, Val{T: app("mk_"+ss.Name, vals...), S: ss, GoT: t})
				return
			}
			elt := e.Elts[i]
			fi := i
			var ve ast.Expr = elt
			if kv, ok := elt.(*ast.KeyValueExpr); ok {
				name := kv.Key.(*ast.Ident).Name
				fi = -1
				for j := 0; j < u.NumFields(); j++ {
					if u.Field(j).Name() == name {
						fi = j
					}
				}
				ve = kv.Value
			}
			ex.evalMaybeLit(st, ve, u.Field(fi).Type(), func(st2 *State, v Val) {
				nv := append([]string(nil), vals...)
				nv[fi] = ex.convert(st2, v, u.Field(fi).Type()).T
				rec(st2, i+1, nv)
			})
		}
		rec(st, 0, vals)
	case *types.Slice, *types.Array:
		s := ex.sortOf(t)
		elemT := elemGoType(t)
		arr := fmt.Sprintf("((as const (Array Int %s)) %s)", s.Elem.Name, zeroOf(s.Elem))
		var rec func(st *State, i int, arr string)
		rec = func(st *State, i int, arr string) {
			if i >= len(e.Elts) {
				n := intLit(int64(len(e.Elts)))
				if a, ok := u.(*types.Array); ok {
					n = intLit(a.Len())
				}
				k(st, Val{T: mkSlice(s, arr, n, "false"), S: s, GoT: t})
				return
			}
			elt := e.Elts[i]
			if _, ok := elt.(*ast.KeyValueExpr); ok {
				ex.oof(elt.Pos(), "keyed slice literal")
			}
			ex.evalMaybeLit(st, elt, elemT, func(st2 *State, v Val) {
				rec(st2, i+1, app("store", arr, intLit(int64(i)), ex.convert(st2, v, elemT).T))
			})
		}
		rec(st, 0, arr)
	case *types.Map:
		s := ex.sortOf(t)
		m := Val{T: mkMap(s, zeroOf(SetOf(s.Key)), fmt.Sprintf("((as const (Array %s %s)) %s)", s.Key.Name, s.Elem.Name, zeroOf(s.Elem)), "0", "false"), S: s, GoT: t}
		var rec func(st *State, i int, m Val)
		rec = func(st *State, i int, m Val) {
			if i >= len(e.Elts) {
				k(st, m)
				return
			}
			kv := e.Elts[i].(*ast.KeyValueExpr)
			ex.evalMaybeLit(st, kv.Key, u.Key(), func(st2 *State, kk Val) {
				ex.evalMaybeLit(st2, kv.Value, u.Elem(), func(st3 *State, v Val) {
					rec(st3, i+1, ex.share(st3, mapStore(ex.share(st3, m), ex.convert(st3, kk, u.Key()).T, ex.convert(st3, v, u.Elem()).T)))
				})
			})
		}
		rec(st, 0, m)
	default:
		ex.oof(e.Pos(), "composite literal of %s", t)
	}
}

// evalMaybeLit evaluates an element that may be an elided-type composite literal.
func (ex *Exec) evalMaybeLit(st *State, e ast.Expr, t types.Type, k func(*State, Val)) {
	if cl, ok := e.(*ast.CompositeLit); ok && cl.Type == nil {
		// elided type: info.Types has the type recorded
		if p, ok := under(t).(*types.Pointer); ok {
			_ = p
			ex.compositeLit(st, cl, func(st2 *State, v Val) {
				ptr := ex.allocRef(st2, "lit")
				ex.store(st2, ptr, p.Elem(), v)
				ptr.GoT = t
				k(st2, ptr)
			})
			return
		}
	}
	ex.eval(st, e, k)
}

// convert adapts a value to a target Go type (boxing into interfaces, nil to slices/maps).
func (ex *Exec) convert(st *State, v Val, to types.Type) Val {
	if to == nil {
		return v
	}
	ts := ex.sortOf(to)
	if sameSort(v.S, ts) {
		if v.S.K == KRef && v.GoT != nil && v.T != "0" {
			_, toIface := under(to).(*types.Interface)
			_, fromIface := under(v.GoT).(*types.Interface)
			if _, isTP := v.GoT.(*types.TypeParam); toIface && !fromIface && !isTP {
				if _, isPtr := under(v.GoT).(*types.Pointer); isPtr {
					ex.declare("(declare-fun typeOf (Ref) Int)")
					st.assume(implies(not(eq(v.T, "0")), eq(app("typeOf", v.T), ex.typeTag(v.GoT))))
				}
			}
		}
		v.GoT = to
		return v
	}
	if v.T == "0" && v.S.K == KRef && v.GoT == nil {
		return Val{T: zeroOf(ts), S: ts, GoT: to}
	}
	if ts.K == KRef {
		// boxing a non-reference value into an interface
		box := "box_" + sanitize(v.S.Name)
		ex.declare("(declare-fun " + box + " (" + v.S.Name + ") Ref)")
		ex.declare("(declare-fun typeOf (Ref) Int)")
		r := app(box, v.T)
		st.assume(not(eq(r, "0")))
		if v.GoT != nil {
			st.assume(eq(app("typeOf", r), ex.typeTag(v.GoT)))
			unbox := "unbox_" + sanitize(v.S.Name)
			ex.declare("(declare-fun " + unbox + " (Ref) " + v.S.Name + ")")
			st.assume(eq(app(unbox, r), v.T))
		}
		return Val{T: r, S: SRef, GoT: to}
	}
	if ts.K == KReal && v.S.K == KInt {
		return Val{T: app("to_real", v.T), S: SReal, GoT: to}
	}
	if ts.K == KInt && v.S.K == KReal {
		return Val{T: app("to_int", v.T), S: SInt, GoT: to}
	}
	// string <-> []byte: related through the uninterpreted bstr (the string spelled by the bytes of a slice
	// VALUE): []byte(s) is some slice b with bstr(b) == s, string(b) is bstr(b). Lengths and elements are
	// not linked.
	if isByteSlice(to) && v.S.K == KString {
		b := ex.freshWf(st, "bytes", to)
		st.assume(eq(ex.bstr(b), v.T))
		return b
	}
	if ts.K == KString && v.GoT != nil && isByteSlice(v.GoT) {
		return Val{T: ex.bstr(v), S: SString, GoT: to}
	}
	// []rune and similar: unknown value of the target type
	ex.assumptions["string/[]rune conversions are havocked"] = true
	return ex.freshWf(st, "conv", to)
}

// bstr: the string spelled by the bytes of a slice value (uninterpreted function of the value).
func (ex *Exec) bstr(b Val) string {
	ex.declare("(declare-fun bstr (" + b.S.Name + ") String)")
	return app("bstr", b.T)
}

func isByteSlice(t types.Type) bool {
	s, ok := under(t).(*types.Slice)
	if !ok {
		return false
	}
	b, ok := under(s.Elem()).(*types.Basic)
	return ok && b.Kind() == types.Uint8
}

// ---------- calls ----------

type preparedCall struct {
	call    *ast.CallExpr
	callee  types.Object
	fn      *types.Func
	recv    *Val
	recvExp ast.Expr
	args    []Val
	sig     *types.Signature
	clo     *Closure
	funVal  *Val
	builtin string
	conv    types.Type
}

func (ex *Exec) evalCall(st *State, call *ast.CallExpr, k func(*State, []Val)) {
	ex.prepareCall(st, call, func(st2 *State, pc *preparedCall) {
		ex.finishCall(st2, pc, k)
	})
}

// prepareCall evaluates the callee, receiver and arguments.
func (ex *Exec) prepareCall(st *State, call *ast.CallExpr, k func(*State, *preparedCall)) {
	pc := &preparedCall{call: call}
	fun := unparen(call.Fun)
	if tv, ok := ex.info.Types[fun]; ok && tv.IsType() {
		pc.conv = tv.Type
		ex.eval(st, call.Args[0], func(st2 *State, v Val) {
			pc.args = []Val{v}
			k(st2, pc)
		})
		return
	}
	if id, ok := fun.(*ast.Ident); ok {
		if b, ok := ex.info.Uses[id].(*types.Builtin); ok {
			pc.builtin = b.Name()
			ex.prepareBuiltin(st, pc, k)
			return
		}
	}
	pc.callee = typeutil.Callee(ex.info, call)
	sigT, _ := under(ex.typeOf(fun)).(*types.Signature)
	pc.sig = sigT
	evalArgs := func(st *State) {
		if pc.sig == nil {
			ex.oof(call.Pos(), "call of non-function")
		}
		// f(g()) with multi-value g
		if len(call.Args) == 1 && pc.sig.Params().Len() > 1 {
			if inner, ok := unparen(call.Args[0]).(*ast.CallExpr); ok {
				ex.evalCall(st, inner, func(st2 *State, vs []Val) {
					pc.args = ex.packArgs(st2, pc.sig, vs, false)
					k(st2, pc)
				})
				return
			}
		}
		ex.evalList(st, call.Args, func(st2 *State, vs []Val) {
			pc.args = ex.packArgs(st2, pc.sig, vs, call.Ellipsis.IsValid())
			k(st2, pc)
		})
	}
	switch callee := pc.callee.(type) {
	case *types.Func:
		pc.fn = callee
		if sel, ok := fun.(*ast.SelectorExpr); ok {
			if s := ex.info.Selections[sel]; s != nil && s.Kind() == types.MethodVal {
				pc.recvExp = sel.X
				ex.evalReceiver(st, sel, s, func(st2 *State, r Val) {
					pc.recv = &r
					evalArgs(st2)
				})
				return
			}
		}
		evalArgs(st)
	default:
		// function value: local closure variable, field of func type, parameter
		ex.eval(st, fun, func(st2 *State, fv Val) {
			pc.funVal = &fv
			pc.clo = fv.Clo
			evalArgs(st2)
		})
	}
}

func (ex *Exec) evalReceiver(st *State, sel *ast.SelectorExpr, s *types.Selection, k func(*State, Val)) {
	fn := s.Obj().(*types.Func)
	sig := fn.Type().(*types.Signature)
	recvT := sig.Recv().Type()
	_, wantPtr := under(recvT).(*types.Pointer)
	if _, isIface := under(recvT).(*types.Interface); isIface {
		wantPtr = false
	}
	idx := s.Index()
	xt := ex.typeOf(sel.X)
	_, xIsPtr := under(xt).(*types.Pointer)
	// addressable boxed variable with pointer-receiver method: pass its address
	if id, ok := unparen(sel.X).(*ast.Ident); ok && wantPtr && !xIsPtr && len(idx) == 1 {
		if obj, ok := ex.info.Uses[id].(*types.Var); ok && ex.boxed[obj] {
			p, ok := st.vars[obj]
			if !ok {
				ex.oof(sel.Pos(), "method call on undefined variable")
			}
			k(st, p)
			return
		}
		ex.oof(sel.Pos(), "pointer-receiver method on unboxed variable %s", id.Name)
	}
	ex.eval(st, sel.X, func(st2 *State, x Val) {
		x.GoT = xt
		cur := x
		if len(idx) > 1 {
			cur = ex.fieldPath(st2, x, idx[:len(idx)-1])
		}
		_, curIsPtr := under(cur.GoT).(*types.Pointer)
		if curIsPtr && !wantPtr {
			if _, isIface := under(recvT).(*types.Interface); !isIface {
				cur = ex.load(st2, cur, under(cur.GoT).(*types.Pointer).Elem())
			}
		} else if !curIsPtr && wantPtr {
			// pointer-receiver method on an addressable field (b.lock.Lock()): allowed only for
			// contracted callees; the callee's effect on the field itself is not modelled.
			if ex.cs.Funcs[funcKey(fn)] == nil {
				ex.oof(sel.Pos(), "implicit address-of for uncontracted method call on %s", cur.GoT)
			}
			ex.assumptions["pointer-receiver calls on struct-valued fields (mutexes) do not change the modelled state"] = true
			r := ex.fresh("addr", SRef)
			st2.assume(not(eq(r, "0")))
			cur = Val{T: r, S: SRef, GoT: types.NewPointer(cur.GoT)}
		}
		k(st2, cur)
	})
}

// packArgs converts arguments to parameter types and packs variadic tails.
func (ex *Exec) packArgs(st *State, sig *types.Signature, vs []Val, spread bool) []Val {
	n := sig.Params().Len()
	out := make([]Val, 0, n)
	for i := 0; i < n; i++ {
		pt := sig.Params().At(i).Type()
		if sig.Variadic() && i == n-1 {
			if spread {
				out = append(out, ex.convert(st, vs[i], pt))
				break
			}
			s := ex.sortOf(pt)
			elemT := pt.(*types.Slice).Elem()
			arr := fmt.Sprintf("((as const (Array Int %s)) %s)", s.Elem.Name, zeroOf(s.Elem))
			cnt := 0
			for j := i; j < len(vs); j++ {
				arr = app("store", arr, intLit(int64(cnt)), ex.convert(st, vs[j], elemT).T)
				cnt++
			}
			isNil := "false"
			if cnt == 0 {
				isNil = "true"
			}
			out = append(out, Val{T: mkSlice(s, arr, intLit(int64(cnt)), isNil), S: s, GoT: pt})
			break
		}
		if i >= len(vs) {
			ex.oof(token.NoPos, "too few arguments")
		}
		out = append(out, ex.convert(st, vs[i], pt))
	}
	return out
}

func (ex *Exec) finishCall(st *State, pc *preparedCall, k func(*State, []Val)) {
	call := pc.call
	if pc.conv != nil {
		k(st, []Val{ex.convert(st, pc.args[0], pc.conv)})
		return
	}
	if pc.builtin != "" {
		ex.finishBuiltin(st, pc, k)
		return
	}
	if pc.fn != nil {
		key := funcKey(pc.fn)
		if key == "errors.Join" && !call.Ellipsis.IsValid() {
			// intrinsic (trusted): nil iff every argument is nil; expanded over the literal argument list
			ex.intrinsics["errors.Join (intrinsic: nil iff all arguments nil)"] = true
			r := ex.freshVal("join", pc.sig.Results().At(0).Type())
			var all []string
			for _, a := range call.Args {
				_ = a
			}
			n := len(call.Args)
			for i := 0; i < n; i++ {
				all = append(all, eq(app("select", app("s-arr", pc.args[0].T), intLit(int64(i))), "0"))
			}
			st.assume(app("=", eq(r.T, "0"), and(all...)))
			k(st, []Val{r})
			return
		}
		if (key == "sort.Slice" || key == "sort.SliceStable") && len(pc.args) == 2 && pc.args[1].Clo != nil && pc.args[1].Clo.Lit != nil {
			ex.sortSliceIntrinsic(st, pc, k)
			return
		}
		fc := ex.cs.Funcs[key]
		// a contract attached to the STATIC receiver type (e.g. ReadObjectCloser.Close) takes
		// precedence over the one of the interface that declares the method (io.Closer.Close)
		if pc.recvExp != nil {
			if n := namedOf(ex.typeOf(pc.recvExp)); n != nil && n.Obj().Pkg() != nil {
				if sfc := ex.cs.Funcs[n.Obj().Pkg().Path()+"."+n.Obj().Name()+"."+pc.fn.Name()]; sfc != nil {
					fc = sfc
				}
			}
		}
		if fc != nil {
			if fc.Inline {
				ex.inlineCall(st, pc, k)
				return
			}
			ex.applyContract(st, fc, pc, k)
			return
		}
		ex.unknownCall(st, pc, key, k)
		return
	}
	if pc.clo != nil {
		ex.callClosure(st, pc.clo, pc.args, k)
		return
	}
	if sel, ok := unparen(call.Fun).(*ast.SelectorExpr); ok && pc.funVal != nil && ex.pureCallbackField(sel.Sel.Name) {
		if ex.countsCallbacks() && ex.fc.CountedPure[sel.Sel.Name] {
			ex.recordCallbackCall(st, pc)
		}
		k(st, ex.callbackApp(*pc.funVal, sel.Sel.Name, pc.sig, pc.args))
		return
	}
	if id, ok := unparen(call.Fun).(*ast.Ident); ok && pc.funVal != nil && ex.pureCallbackField(id.Name) {
		if ex.countsCallbacks() && ex.fc.CountedPure[id.Name] {
			ex.recordCallbackCall(st, pc)
		}
		k(st, ex.callbackApp(*pc.funVal, id.Name, pc.sig, pc.args))
		return
	}
	if id, ok := unparen(call.Fun).(*ast.Ident); ok && pc.funVal != nil && ex.fc != nil && ex.fc.CallsEffects[id.Name] != nil {
		// calls VAR modifies ...: assumed effects only
		ex.assumptions[fmt.Sprintf("%s: calls through %s have only the effects listed in its `calls` clause (%s)", ex.name, id.Name, strings.Join(ex.fc.CallsEffects[id.Name], ", "))] = true
		for _, m := range ex.fc.CallsEffects[id.Name] {
			switch {
			case strings.HasPrefix(m, "ghost."):
				ex.ghostHavoc(st, strings.TrimPrefix(m, "ghost."))
			case m == "heap":
				ex.heapHavocAll(st)
			case strings.HasPrefix(m, "heap "):
				ex.heapHavocComp(st, ex.qualifyComp(strings.TrimSpace(strings.TrimPrefix(m, "heap ")), ex.fc))
			default:
				ex.fail(call.Pos(), "calls %s modifies %q: only heap / heap T.f / ghost.x effects are supported", id.Name, m)
			}
		}
		ex.advanceAlloc(st)
		k(st, ex.resultVals(st, pc.sig, "call_"+id.Name))
		return
	}
	if id, ok := unparen(call.Fun).(*ast.Ident); ok && pc.funVal != nil && ex.fc != nil && len(ex.fc.Dispatch[id.Name]) > 0 {
		ex.dispatchCall(st, pc, id.Name, k)
		return
	}
	ex.unknownCall(st, pc, "func value "+nodeString(ex.fset, call.Fun), k)
}

// dispatchCall: `dispatch VAR over f1, f2, ...`. One branch per candidate assumes VAR == fi and calls
// fi (through its contract, inlined, or as an unknown call, as for a direct call); that VAR is one of
// them is the obligation #dispatch[VAR].
func (ex *Exec) dispatchCall(st *State, pc *preparedCall, name string, k func(*State, []Val)) {
	var refs []string
	var fns []*types.Func
	for _, cn := range ex.fc.Dispatch[name] {
		fn, _ := ex.pkg.Types.Scope().Lookup(cn).(*types.Func)
		if fn == nil {
			ex.fail(pc.call.Pos(), "dispatch %s: no function %s in package %s", name, cn, ex.pkg.Types.Name())
			continue
		}
		if !types.Identical(fn.Type(), pc.sig) {
			ex.fail(pc.call.Pos(), "dispatch %s: %s has a different signature", name, cn)
			continue
		}
		fns = append(fns, fn)
		refs = append(refs, ex.funcRef(fn).T)
	}
	if len(refs) > 1 {
		ex.declare("(assert (distinct " + strings.Join(refs, " ") + "))")
	}
	ex.intrinsics["distinct named functions have distinct function values (dispatch)"] = true
	for i, fn := range fns {
		stI := st.clone()
		stI.assume(eq(pc.funVal.T, refs[i]))
		if stI.dead {
			continue
		}
		ex.paths++
		pcI := *pc
		pcI.fn, pcI.funVal, pcI.callee = fn, nil, fn
		ex.finishCall(stI, &pcI, k)
	}
	// the variable must be one of the candidates: an obligation of its own (the loop-effect analysis
	// relies on it), so there is no "none of them" branch
	var one []string
	for _, r := range refs {
		one = append(one, eq(pc.funVal.T, r))
	}
	ex.queries = append(ex.queries, &Query{Name: fmt.Sprintf("%s#dispatch[%s]", ex.name, name), Path: ex.paths, Assumes: append([]string(nil), st.pc...), Goal: or(one...), Pos: ex.posStr(pc.call.Pos()), Property: ex.props})
}

func (ex *Exec) resultVals(st *State, sig *types.Signature, hint string) []Val {
	var out []Val
	for i := 0; i < sig.Results().Len(); i++ {
		out = append(out, ex.freshWf(st, fmt.Sprintf("%s.r%d", hint, i), sig.Results().At(i).Type()))
	}
	return out
}

// unknownCall: no contract. Results are arbitrary, the heap and everything
// reachable by the callee is havocked.
func (ex *Exec) unknownCall(st *State, pc *preparedCall, what string, k func(*State, []Val)) {
	if pc.fn == nil && pc.funVal != nil && ex.countsCallbacks() {
		ex.recordCallbackCall(st, pc)
	}
	if pc.fn == nil && funcValueIsSink(pc.sig) {
		// a callback returning error is treated as an I/O sink: it raises ghost.fail iff it reports an error
		ex.intrinsics["calls through function values returning error: ghost.fail == old(ghost.fail) || err != nil (callbacks report their own failures)"] = true
		ex.heapHavocAll(st)
		ex.havocEscaped(st, pc)
		res := ex.resultVals(st, pc.sig, "callback")
		for _, gn := range []string{"fail", "wfail"} {
			if g, ok := ex.cs.Ghost[gn]; ok {
				oldF := ex.ghostGet(st, g)
				ex.ghostHavoc(st, gn)
				newF := ex.ghostGet(st, g)
				st.assume(app("=", newF.T, or(oldF.T, not(eq(res[len(res)-1].T, "0")))))
			}
		}
		k(st, res)
		return
	}
	ex.uncontracted[what] = true
	ex.heapHavocAll(st)
	ex.havocEscaped(st, pc)
	for i, a := range pc.call.Args {
		if i < len(pc.args) && pc.args[i].S.K == KMap {
			ex.havocLvalue(st, a)
		}
	}
	k(st, ex.resultVals(st, pc.sig, shortKey(what)))
}

// recordCallbackCall: opt-in bookkeeping of calls through function values (functions whose contract lists
// ghost.cbCalls in modifies): how often each function value was called, and on which references.
func (ex *Exec) recordCallbackCall(st *State, pc *preparedCall) {
	ex.intrinsics["calls through function values are counted in ghost.cbCalls and their reference arguments recorded in ghost.cbArgs"] = true
	gc, ga := ex.cs.Ghost["cbCalls"], ex.cs.Ghost["cbArgs"]
	if gc == nil || ga == nil {
		return
	}
	oc := ex.ghostGet(st, gc)
	cur := app("select", app("m-val", oc.T), pc.funVal.T)
	st.ghost["cbCalls"] = mapStore(oc, pc.funVal.T, app("+", cur, "1")).T
	oa := ex.ghostGet(st, ga)
	t := oa.T
	for i, a := range pc.args {
		if a.S.K == KRef {
			t = app("store", t, a.T, "true")
			// per-position sets cbArg0, cbArg1, ... where declared
			if gp := ex.cs.Ghost[fmt.Sprintf("cbArg%d", i)]; gp != nil {
				op := ex.ghostGet(st, gp)
				st.ghost[gp.Name] = app("store", op.T, a.T, "true")
			}
		}
	}
	st.ghost["cbArgs"] = t
}

func (ex *Exec) countsCallbacks() bool {
	if ex.fc == nil {
		return false
	}
	for _, m := range ex.fc.Modifies {
		if m == "ghost.cbCalls" {
			return true
		}
	}
	return false
}

func funcValueIsSink(sig *types.Signature) bool {
	if sig == nil || sig.Results().Len() == 0 {
		return false
	}
	return isErrorType(sig.Results().At(sig.Results().Len() - 1).Type())
}

func shortKey(k string) string {
	if i := strings.LastIndex(k, "/"); i >= 0 {
		return k[i+1:]
	}
	return k
}

// havocEscaped havocs variables assigned inside closures that the callee may run.
func (ex *Exec) havocEscaped(st *State, pc *preparedCall) {
	for lit := range ex.escaped {
		for obj := range ex.assignedVars(lit.Body) {
			if _, ok := st.vars[obj]; ok && !ex.declaredWithin(obj, lit) {
				ex.havocVar(st, obj)
			}
		}
	}
}

func (ex *Exec) declaredWithin(obj types.Object, n ast.Node) bool {
	return obj.Pos() >= n.Pos() && obj.Pos() <= n.End()
}

func (ex *Exec) havocVar(st *State, obj types.Object) {
	if ex.boxed[obj] {
		if p, ok := st.vars[obj]; ok {
			ex.store(st, p, obj.Type(), ex.freshWf(st, obj.Name(), obj.Type()))
		}
		return
	}
	old := st.vars[obj]
	nv := ex.freshWf(st, obj.Name(), obj.Type())
	nv.Clo = nil
	_ = old
	st.vars[obj] = nv
}

func (ex *Exec) havocLvalue(st *State, e ast.Expr) {
	switch l := unparen(e).(type) {
	case *ast.Ident:
		if obj, ok := ex.info.Uses[l].(*types.Var); ok {
			if _, ok := st.vars[obj]; ok {
				ex.havocVar(st, obj)
			}
		}
	}
}

// ---------- contract application ----------

func (ex *Exec) calleeEnv(st *State, fc *FuncContract, fn *types.Func, recv *Val, args []Val) *Env {
	env := &Env{ex: ex, names: map[string]Val{}, cur: st, pkg: ex.typesPkgFor(fc.PkgPath, fn.Pkg()), pureCallbacks: fc.PureCallbacks}
	sig := fn.Type().(*types.Signature)
	if recv != nil {
		env.names["this"] = *recv
		if r := sig.Recv(); r != nil && r.Name() != "" && r.Name() != "_" {
			env.names[r.Name()] = *recv
		}
	}
	for i := 0; i < sig.Params().Len() && i < len(args); i++ {
		name := sig.Params().At(i).Name()
		if i < len(fc.ParamNames) && fc.ParamNames[i] != "" && fc.ParamNames[i] != "_" {
			name = fc.ParamNames[i]
		}
		if name == "" || name == "_" {
			name = fmt.Sprintf("p%d", i)
		}
		env.names[name] = args[i]
	}
	return env
}

func resultNames(fc *FuncContract, sig *types.Signature) []string {
	n := sig.Results().Len()
	names := make([]string, n)
	for i := 0; i < n; i++ {
		nm := sig.Results().At(i).Name()
		if i < len(fc.ResultNames) && fc.ResultNames[i] != "" {
			nm = fc.ResultNames[i]
		}
		if nm == "" || nm == "_" {
			if isErrorType(sig.Results().At(i).Type()) && i == n-1 {
				nm = "err"
			} else if n == 1 || (n == 2 && i == 0) {
				nm = "r"
			} else {
				nm = fmt.Sprintf("r%d", i)
			}
		}
		names[i] = nm
	}
	return names
}

func (ex *Exec) applyContract(st *State, fc *FuncContract, pc *preparedCall, k func(*State, []Val)) {
	fn := pc.fn
	sig := fn.Type().(*types.Signature)
	if pc.sig != nil && sig.TypeParams().Len() > 0 {
		sig = pc.sig // instantiated signature of a generic callee
	}
	calleeShort := shortKey(fc.Key)
	savedTP := ex.tparams
	calleeTP := ex.typeArgsOf(pc)
	ex.tparams = calleeTP
	defer func() { ex.tparams = savedTP }()
	kOrig := k
	k = func(st *State, vals []Val) {
		// the continuation is the caller's code: its own type parameters are in scope again
		ex.tparams = savedTP
		kOrig(st, vals)
		ex.tparams = calleeTP
	}
	env := ex.calleeEnv(st, fc, fn, pc.recv, pc.args)
	env.old = st
	for i, rq := range fc.Requires {
		label := rq.Label
		if label == "" {
			label = fmt.Sprint(i)
		}
		if len(rq.Props) > 0 {
			// a property-tagged precondition is an obligation only of callers serving that property
			// (its callee's ensures must not depend on it: used for trusted sinks only)
			var both []string
			for _, p := range rq.Props {
				if hasProp(ex.props, p) {
					both = append(both, p)
				}
			}
			if len(both) == 0 {
				continue
			}
			rq2 := *rq
			rq2.Props = both
			rq = &rq2
		}
		ex.assertClauseNamed(st, env, fmt.Sprintf("%s#pre@%s[%s]", ex.name, calleeShort, label), rq, pc.call.Pos())
	}
	if fc.Iter != nil && (!fc.Iter.Dual || ex.dualIteratorApplies(fc, pc)) {
		if fc.Iter.Dual {
			ex.intrinsics["iterator clauses (yields/where/distinct/complete) of "+shortKey(fc.Key)+": assumed for effectful literal callbacks, not checked against its body (trusted)"] = true
		}
		ex.applyIterator(st, fc, pc, env, k)
		return
	}
	ex.linkClosureContracts(st, fc, pc)
	pre := st.clone()
	preEnv := ex.calleeEnv(pre, fc, fn, pc.recv, pc.args)
	ex.havocModifies(st, fc, pc)
	// ASSUMPTION (listed in every evidence file): a contracted callee runs no function value other than the ones
	// it is handed as arguments; closures stored in the heap earlier are not re-entered by it (an UNcontracted
	// callee havocs the locals assigned by every closure created so far)
	ex.havocCallbackEffects(st, fc, pc)
	if !fc.Pure {
		ex.advanceAlloc(st)
	}
	var results []Val
	if fc.Pure {
		results = ex.pureCall(st, fc, fn, pc.recv, pc.args)
	} else {
		results = ex.resultVals(st, sig, calleeShort)
	}
	// closures passed to a contracted callee may be run by it
	for _, a := range pc.args {
		if a.Clo != nil && a.Clo.Lit != nil {
			for obj := range ex.assignedVars(a.Clo.Lit.Body) {
				if _, ok := st.vars[obj]; ok && !ex.declaredWithin(obj, a.Clo.Lit) {
					ex.havocVar(st, obj)
				}
			}
		}
	}
	post := ex.calleeEnv(st, fc, fn, pc.recv, pc.args)
	post.old = pre
	post.oldNames = preEnv.names
	for i, nm := range resultNames(fc, sig) {
		post.names[nm] = results[i]
	}
	if !fc.Pure {
		for _, en := range fc.Ensures {
			if en.Canary {
				continue
			}
			t, err := post.elabBool(en.Expr)
			if err != nil {
				ex.fail(pc.call.Pos(), "contract of %s: ensures %q: %v", fc.Key, en.Src, err)
				continue
			}
			st.assume(t)
		}
	}
	k(st, results)
}

// typeArgsOf maps the type parameter names of a generic callee to the type arguments of this call.
func (ex *Exec) typeArgsOf(pc *preparedCall) map[string]types.Type {
	if pc.fn == nil {
		return nil
	}
	tps := pc.fn.Type().(*types.Signature).TypeParams()
	if tps.Len() == 0 {
		return nil
	}
	m := map[string]types.Type{}
	if id := identOf(unparenIndex(pc.call.Fun)); id != nil {
		if inst, ok := ex.info.Instances[id]; ok && inst.TypeArgs != nil {
			for i := 0; i < tps.Len() && i < inst.TypeArgs.Len(); i++ {
				m[tps.At(i).Obj().Name()] = inst.TypeArgs.At(i)
			}
			return m
		}
	}
	for i := 0; i < tps.Len(); i++ {
		m[tps.At(i).Obj().Name()] = tps.At(i)
	}
	return m
}

func unparenIndex(e ast.Expr) ast.Expr {
	for {
		switch x := unparen(e).(type) {
		case *ast.IndexExpr:
			e = x.X
		case *ast.IndexListExpr:
			e = x.X
		default:
			return unparen(e)
		}
	}
}

func (ex *Exec) havocModifies(st *State, fc *FuncContract, pc *preparedCall) {
	sig := pc.fn.Type().(*types.Signature)
	for _, m := range fc.Modifies {
		switch {
		case strings.HasPrefix(m, "ghost."):
			ex.ghostHavoc(st, strings.TrimPrefix(m, "ghost."))
		case m == "heap":
			ex.heapHavocAll(st)
		case strings.HasPrefix(m, "heap "):
			comp := strings.TrimSpace(strings.TrimPrefix(m, "heap "))
			ex.heapHavocComp(st, ex.qualifyComp(comp, fc))
		default:
			// parameter (map or slice mutated in place) or receiver
			name := strings.TrimPrefix(m, "param ")
			found := false
			for i := 0; i < sig.Params().Len(); i++ {
				pn := sig.Params().At(i).Name()
				if i < len(fc.ParamNames) && fc.ParamNames[i] != "" {
					pn = fc.ParamNames[i]
				}
				if pn == name && i < len(pc.call.Args) {
					found = true
					fresh := ex.freshWf(st, name, sig.Params().At(i).Type())
					var lk *aliasLink
					var lobj types.Object
					if id, ok := unparen(pc.call.Args[i]).(*ast.Ident); ok {
						lobj = ex.info.Uses[id]
						lk = st.aliasLinks[lobj]
					}
					if sig.Params().At(i).Type() != nil {
						if _, isMap := under(sig.Params().At(i).Type()).(*types.Map); isMap {
							ex.checkMapParamWrite(pc.call.Pos(), pc.call.Args[i])
						}
					}
					if isTemporaryAlloc(ex, pc.call.Args[i]) {
						// make(...) / a composite literal / nil passed directly: the mutated object is
						// unreachable after the call, there is nothing to write back
					} else {
						ex.assignTo(st, pc.call.Args[i], fresh, func(*State) {})
						if _, isSlice := under(sig.Params().At(i).Type()).(*types.Slice); isSlice {
							ex.writeBackContainer(st, pc.call.Args[i], fresh)
						}
					}
					if lk != nil {
						ex.checkMapParamWrite(pc.call.Pos(), lk.base)
						// the callee mutated the map object the variable shares with base[key]
						ex.writeBackLink(st, lobj, lk)
					}
					pc.args[i] = fresh
				}
			}
			if !found {
				ex.fail(pc.call.Pos(), "contract of %s: modifies %q names no parameter", fc.Key, m)
			}
		}
	}
}

func (ex *Exec) qualifyComp(comp string, fc *FuncContract) string {
	// "T.f" -> "pkgname.T.f"
	if strings.Count(comp, ".") == 1 && !strings.HasPrefix(comp, "ptr.") {
		if p, ok := ex.ld.byPath[fc.PkgPath]; ok {
			return p.Name() + "." + comp
		}
	}
	return comp
}

// pureCall applies a pure function as an uninterpreted function of its arguments.
func (ex *Exec) pureCall(st *State, fc *FuncContract, fn *types.Func, recv *Val, args []Val) []Val {
	sig := fn.Type().(*types.Signature)
	base := "pf_" + sanitize(shortKeyFull(fc.Key))
	var argSorts, argTerms []string
	if recv != nil {
		argSorts = append(argSorts, recv.S.Name)
		argTerms = append(argTerms, recv.T)
	}
	for _, a := range args {
		argSorts = append(argSorts, a.S.Name)
		argTerms = append(argTerms, a.T)
	}
	var out []Val
	for i := 0; i < sig.Results().Len(); i++ {
		rt := sig.Results().At(i).Type()
		rs := ex.sortOf(rt)
		name := base
		if sig.Results().Len() > 1 {
			name = fmt.Sprintf("%s_%d", base, i)
		}
		ex.declare(fmt.Sprintf("(declare-fun %s (%s) %s)", name, strings.Join(argSorts, " "), rs.Name))
		rv := Val{T: app(name, argTerms...), S: rs, GoT: rt}
		ex.assumeWf(st, rv)
		out = append(out, rv)
	}
	if len(fc.Ensures) > 0 {
		ground := true
		for _, t := range argTerms {
			if strings.Contains(t, "q_") {
				ground = false
			}
		}
		if ground && st != nil {
			// instantiate the contract for these arguments (keeps queries quantifier-free)
			key := fc.Key + "(" + strings.Join(argTerms, ",") + ")"
			if !st.pureInst[key] && ex.pureDepth < 4 {
				st.pureInst[key] = true
				ex.pureDepth++
				env := ex.calleeEnv(st, fc, fn, recv, args)
				for i, nm := range resultNames(fc, sig) {
					env.names[nm] = out[i]
				}
				var pre []string
				okPre := true
				for _, rq := range fc.Requires {
					t, err := env.elabBool(rq.Expr)
					if err != nil {
						ex.fail(token.NoPos, "pure contract %s requires: %v", fc.Key, err)
						okPre = false
						break
					}
					pre = append(pre, t)
				}
				if okPre {
					for _, en := range fc.Ensures {
						if en.Canary {
							continue
						}
						t, err := env.elabBool(en.Expr)
						if err != nil {
							ex.fail(token.NoPos, "pure contract %s ensures %q: %v", fc.Key, en.Src, err)
							continue
						}
						st.assume(implies(and(pre...), t))
					}
				}
				ex.pureDepth--
			}
		} else if !ex.pureAxiomDone[fc.Key] {
			ex.pureAxiomDone[fc.Key] = true
			ex.addPureAxiom(fc, fn)
		}
	}
	return out
}

func shortKeyFull(k string) string {
	k = strings.TrimPrefix(k, repoModule+"/private/")
	return k
}

// addPureAxiom states the ensures of a pure function for all arguments.
func (ex *Exec) addPureAxiom(fc *FuncContract, fn *types.Func) {
	sig := fn.Type().(*types.Signature)
	var binders []string
	var recv *Val
	var args []Val
	if r := sig.Recv(); r != nil {
		s := ex.sortOf(r.Type())
		v := Val{T: "q_this", S: s, GoT: r.Type()}
		recv = &v
		binders = append(binders, "(q_this "+s.Name+")")
	}
	for i := 0; i < sig.Params().Len(); i++ {
		p := sig.Params().At(i)
		s := ex.sortOf(p.Type())
		name := fmt.Sprintf("q_p%d", i)
		args = append(args, Val{T: name, S: s, GoT: p.Type()})
		binders = append(binders, "("+name+" "+s.Name+")")
	}
	env := ex.calleeEnv(nil, fc, fn, recv, args)
	results := ex.pureCall(nil, fc, fn, recv, args)
	for i, nm := range resultNames(fc, sig) {
		env.names[nm] = results[i]
	}
	var pre []string
	for _, rq := range fc.Requires {
		t, err := env.elabBool(rq.Expr)
		if err != nil {
			ex.fail(token.NoPos, "pure contract %s requires: %v", fc.Key, err)
			return
		}
		pre = append(pre, t)
	}
	for _, p := range args {
		pre = append(pre, ex.wf(p))
	}
	for _, en := range fc.Ensures {
		if en.Canary {
			continue
		}
		t, err := env.elabBool(en.Expr)
		if err != nil {
			if strings.Contains(err.Error(), "heap not available") {
				continue // a clause about heap fields cannot be stated for all arguments: not assumed (sound)
			}
			ex.fail(token.NoPos, "pure contract %s ensures %q: %v", fc.Key, en.Src, err)
			continue
		}
		body := implies(and(pre...), t)
		if len(binders) > 0 {
			body = "(forall (" + strings.Join(binders, " ") + ") " + body + ")"
		}
		ex.axioms = append(ex.axioms, body)
	}
}

// isTemporaryAlloc: the argument expression allocates a new object in place (make, composite literal) or is nil,
// so a callee's in-place mutation of it is not observable by the caller.
func isTemporaryAlloc(ex *Exec, e ast.Expr) bool {
	switch x := unparen(e).(type) {
	case *ast.CompositeLit:
		return true
	case *ast.Ident:
		return x.Name == "nil"
	case *ast.CallExpr:
		if id, ok := unparen(x.Fun).(*ast.Ident); ok {
			if _, ok := ex.info.Uses[id].(*types.Builtin); ok && id.Name == "make" {
				return true
			}
		}
	}
	return false
}

// dualIteratorApplies: the call hands the iterator's callback parameter a function literal for which the contract
// of the function under verification states closure invariants (an effectful callback); every other call of a
// dual contract goes through its plain `callback pure` clauses.
func (ex *Exec) dualIteratorApplies(fc *FuncContract, pc *preparedCall) bool {
	if ex.fc == nil || pc.fn == nil {
		return false
	}
	sig, ok := pc.fn.Type().(*types.Signature)
	if !ok {
		return false
	}
	for i := 0; i < sig.Params().Len() && i < len(pc.args); i++ {
		pn := sig.Params().At(i).Name()
		if i < len(fc.ParamNames) && fc.ParamNames[i] != "" {
			pn = fc.ParamNames[i]
		}
		if pn != fc.Iter.FuncParam {
			continue
		}
		cb := pc.args[i]
		if cb.Clo == nil || cb.Clo.Lit == nil {
			return false
		}
		ord, ok := ex.cloOrd[cb.Clo.Lit]
		if !ok {
			return false
		}
		ls := ex.fc.Closures[ord]
		return ls != nil && len(ls.Invariants) > 0
	}
	return false
}
