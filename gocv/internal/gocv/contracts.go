package gocv

import (
	"fmt"
	"os"
	"regexp"
	"strconv"
	"strings"
)

// Clause is one requires/ensures/invariant/assert line.
type Clause struct {
	Label  string
	Expr   SExpr
	Src    string
	Canary bool     // must fail (vacuity guard)
	Props  []string // property ids this clause serves (defaults to the function's)
	File   string
	Line   int
}

type LoopSpec struct {
	Invariants []*Clause
	Requires   []*Clause // closures verified as functions of their own
	Ensures    []*Clause
}

// GhostUpdate is ghost code: `ghost after|before "stmt" NAME := EXPR` assigns a ghost variable
// before/after every statement whose printed text starts with the anchor.
type GhostUpdate struct {
	Nth    int // 0: every matching statement; N>0: only the N-th match in source order ("stmt"@N)
	Anchor string
	After  bool
	Name   string
	Expr   SExpr
	Src    string
}

type AssertSpec struct {
	Nth    int    // 0: every matching statement; N>0: only the N-th match in source order ("stmt"@N)
	Before string // printed statement prefix to match
	Clause *Clause
	Assume bool
}

// IterSpec is the iterator contract of a higher-order callee (Appendix B).
type IterSpec struct {
	FuncParam string   // name of the callback parameter
	YieldVars []SVar   // names+types of yielded values (callback params)
	Where     []*Clause // facts about each yielded value
	Distinct  SExpr    // key expression that is distinct across yields (optional)
	Complete  []*Clause // facts assumed at normal end (err == nil)
	Begins    []*Clause // facts assumed right after the call starts (after havoc of modifies)
	MayFail   bool
	ErrResult string // name of the error result (default "err")
	Ordered   bool
	// Dual: the iterator clauses sit on a plain (callback pure) contract; they apply only at call sites whose
	// callback is a literal with closure invariants, and are ASSUMED (not checked against the body)
	Dual bool
}

type FuncContract struct {
	Key         string // pkgpath.Func or pkgpath.Recv.Method
	Trusted     bool
	Pure        bool
	ParamNames  []string // optional override
	ResultNames []string // optional names for unnamed results
	Props       []string
	Requires    []*Clause
	Ensures     []*Clause
	Modifies    []string // ghost.x, heap, heap T.f, param p
	Reveal      []string
	Use         []string // axioms to include
	Loops       map[int]*LoopSpec
	Closures    map[int]*LoopSpec // closure n invariants
	Asserts     []*AssertSpec
	GhostUpd    []*GhostUpdate
	Dispatch    map[string][]string // function-typed variable -> candidate named functions
	CountedPure map[string]bool     // `callback pure NAME counted`
	CallsEffects map[string][]string // `calls VAR modifies ...`: assumed effects of calls through VAR
	Iter        *IterSpec
	Inline      bool // callee body is inlined at call sites instead of using a contract
	NoBody      bool // do not verify body even though not trusted (never set silently)
	File        string
	Line        int
	PkgPath     string
	FromPkg     string // package in whose contract/spec context the header was written (resolves short qualifiers)
	Skip        []string // statements (by printed prefix) abstracted by havoc: listed as assumption
	PureCallbacks []string // function-typed fields/params modelled as deterministic functions
}

type SpecFunc struct {
	Name    string
	Params  []SVar
	Result  *SType
	Def     SExpr  // optional definition
	RawDef  string // optional raw SMT definition body with param names
	PkgPath string
	Rec     bool
	// Transparent: always revealed
	Transparent bool
}

type Axiom struct {
	Name    string
	Expr    SExpr
	Src     string
	Lemma   bool // proved, not assumed
	Props   []string
	Reveal  []string
	Use     []string
	PkgPath string
	File    string
	Line    int
	Canary  bool
}

type PureIface struct {
	Pkg, Name, File string
	FromPkg         string
}

type GhostVar struct {
	Name string
	T    *SType
}

type TableSpec struct {
	Name    string // table name
	Var     string // package-level variable (composite literal)
	PkgPath string
	Props   []string
	Clauses []*Clause
	File    string
	Line    int
}

// Contracts is everything parsed from contract/spec files.
type Contracts struct {
	Funcs     map[string]*FuncContract
	SpecFuncs map[string]*SpecFunc
	Axioms    map[string]*Axiom
	AxiomList []*Axiom
	Ghost     map[string]*GhostVar
	Regex     map[string]string // name -> raw SMT regex term
	Tables    []*TableSpec
	PureIfaces []PureIface // `trusted pure interface pkg.Name`: every method is a pure accessor
	Files     []string
	RawLines  map[string][]string // file -> lines (for trusted scan)
}

func NewContracts() *Contracts {
	return &Contracts{
		Funcs:     map[string]*FuncContract{},
		SpecFuncs: map[string]*SpecFunc{},
		Axioms:    map[string]*Axiom{},
		Ghost:     map[string]*GhostVar{},
		Regex:     map[string]string{},
		RawLines:  map[string][]string{},
	}
}

var clauseKeywords = map[string]bool{
	"func": true, "trusted": true, "pure": true, "iterator": true, "requires": true, "ensures": true,
	"modifies": true, "loop": true, "closure": true, "canary": true, "assert": true, "assume": true, "ghost": true,
	"spec": true, "axiom": true, "lemma": true, "regex": true, "property": true, "reveal": true,
	"use": true, "decreases": true, "yields": true, "where": true, "distinct": true, "complete": true,
	"mayfail": true, "begins": true, "callback": true, "inline": true, "table": true, "package": true, "skip": true, "ordered": true, "rec": true, "dispatch": true, "calls": true,
}

type rawLine struct {
	text string
	line int
}

// ParseFile parses a contract file. For .go files only `//@` lines are read;
// for .spec files every line is read (with `#` and `//` comments).
// pkgPath is the default package path for unqualified function names.
func (c *Contracts) ParseFile(path string, pkgPath string) error {
	data, err := os.ReadFile(path)
	if err != nil {
		return err
	}
	return c.ParseText(path, string(data), pkgPath)
}

func (c *Contracts) ParseText(path string, text string, pkgPath string) error {
	c.Files = append(c.Files, path)
	isGo := strings.HasSuffix(path, ".go")
	var lines []rawLine
	for i, l := range strings.Split(text, "\n") {
		t := strings.TrimSpace(l)
		if isGo {
			if !strings.HasPrefix(t, "//@") {
				continue
			}
			t = strings.TrimSpace(strings.TrimPrefix(t, "//@"))
		} else {
			if strings.HasPrefix(t, "#") {
				continue
			}
		}
		// strip trailing // comment outside strings
		t = stripComment(t)
		if t == "" {
			continue
		}
		lines = append(lines, rawLine{t, i + 1})
		c.RawLines[path] = append(c.RawLines[path], t)
	}
	// join continuation lines
	var stmts []rawLine
	for _, l := range lines {
		w := firstWord(l.text)
		if clauseKeywords[w] || len(stmts) == 0 {
			stmts = append(stmts, l)
		} else {
			stmts[len(stmts)-1].text += " " + l.text
		}
	}
	var cur *FuncContract
	var curAx *Axiom
	var curTable *TableSpec
	curPkg := pkgPath
	fail := func(l rawLine, format string, a ...any) error {
		return fmt.Errorf("%s:%d: %s", path, l.line, fmt.Sprintf(format, a...))
	}
	for _, l := range stmts {
		w := firstWord(l.text)
		rest := strings.TrimSpace(l.text[len(w):])
		switch w {
		case "package":
			curPkg = rest
			cur, curAx, curTable = nil, nil, nil
		case "ghost":
			// ghost var name type | ghost after|before "stmt" NAME := EXPR (inside a func contract)
			f := strings.Fields(rest)
			if len(f) >= 1 && (f[0] == "after" || f[0] == "before") {
				if cur == nil {
					return fail(l, "ghost %s outside a func contract", f[0])
				}
				r2 := strings.TrimSpace(rest[len(f[0]):])
				if !strings.HasPrefix(r2, "\"") {
					return fail(l, "ghost %s needs a quoted statement prefix", f[0])
				}
				end := 1
				for end < len(r2) && r2[end] != '"' {
					if r2[end] == '\\' {
						end++
					}
					end++
				}
				anchor, err := strconv.Unquote(r2[:end+1])
				if err != nil {
					return fail(l, "bad statement string: %v", err)
				}
				asg := strings.TrimSpace(r2[end+1:])
				nth := 0
				if strings.HasPrefix(asg, "@") {
					j := 1
					for j < len(asg) && asg[j] >= '0' && asg[j] <= '9' {
						j++
					}
					nth, _ = strconv.Atoi(asg[1:j])
					asg = strings.TrimSpace(asg[j:])
				}
				i := strings.Index(asg, ":=")
				if i < 0 {
					return fail(l, "ghost %s \"stmt\" NAME := EXPR expected", f[0])
				}
				name := strings.TrimPrefix(strings.TrimSpace(asg[:i]), "ghost.")
				e, err := ParseExpr(strings.TrimSpace(asg[i+2:]))
				if err != nil {
					return fail(l, "%v", err)
				}
				cur.GhostUpd = append(cur.GhostUpd, &GhostUpdate{Anchor: anchor, After: f[0] == "after", Name: name, Expr: e, Src: asg, Nth: nth})
				break
			}
			if len(f) < 3 || f[0] != "var" {
				return fail(l, "ghost var NAME TYPE expected")
			}
			ty, err := ParseType(strings.Join(f[2:], " "))
			if err != nil {
				return fail(l, "%v", err)
			}
			c.Ghost[f[1]] = &GhostVar{f[1], ty}
		case "regex":
			i := strings.Index(rest, "=")
			if i < 0 {
				return fail(l, "regex NAME = SMT expected")
			}
			c.Regex[strings.TrimSpace(rest[:i])] = strings.TrimSpace(rest[i+1:])
		case "spec", "rec":
			rec := false
			if w == "rec" {
				rec = true
				rest = strings.TrimSpace(strings.TrimPrefix(rest, "spec"))
			}
			transparent := false
			if strings.HasPrefix(rest, "transparent ") {
				// spec transparent func: the definition is visible everywhere (no reveal needed)
				transparent = true
				rest = strings.TrimSpace(rest[len("transparent "):])
			}
			sf, err := parseSpecFunc(rest)
			if err != nil {
				return fail(l, "%v", err)
			}
			sf.PkgPath = curPkg
			sf.Rec = rec
			sf.Transparent = transparent
			if _, dup := c.SpecFuncs[sf.Name]; dup {
				return fail(l, "duplicate spec func %s", sf.Name)
			}
			c.SpecFuncs[sf.Name] = sf
			cur, curAx, curTable = nil, nil, nil
		case "axiom", "lemma":
			canary := false
			if strings.HasPrefix(rest, "canary ") {
				canary = true
				rest = strings.TrimSpace(rest[7:])
			}
			i := strings.Index(rest, ":")
			if i < 0 {
				return fail(l, "%s NAME [{props}]: EXPR expected", w)
			}
			head := strings.TrimSpace(rest[:i])
			body := strings.TrimSpace(rest[i+1:])
			name, props := splitProps(head)
			e, err := ParseExpr(body)
			if err != nil {
				return fail(l, "%v", err)
			}
			ax := &Axiom{Name: name, Expr: e, Src: body, Lemma: w == "lemma", Props: props, PkgPath: curPkg, File: path, Line: l.line, Canary: canary}
			if _, dup := c.Axioms[name]; dup {
				return fail(l, "duplicate axiom/lemma %s", name)
			}
			c.Axioms[name] = ax
			c.AxiomList = append(c.AxiomList, ax)
			cur, curAx, curTable = nil, ax, nil
		case "table":
			// table NAME {props} of VAR
			head := rest
			name, props := splitProps(head)
			f := strings.Fields(name)
			if len(f) != 3 || f[1] != "of" {
				return fail(l, "table NAME {props} of VAR expected (got %q)", name)
			}
			curTable = &TableSpec{Name: f[0], Var: f[2], PkgPath: curPkg, Props: props, File: path, Line: l.line}
			c.Tables = append(c.Tables, curTable)
			cur, curAx = nil, nil
		case "trusted", "pure", "iterator", "func", "inline":
			if f := strings.Fields(l.text); len(f) == 4 && f[0] == "trusted" && f[1] == "pure" && f[2] == "interface" {
				name, pkg := f[3], curPkg
				if i := strings.LastIndex(name, "."); i >= 0 {
					pkg, name = name[:i], name[i+1:]
				}
				c.PureIfaces = append(c.PureIfaces, PureIface{Pkg: pkg, Name: name, File: path, FromPkg: curPkg})
				cur, curAx, curTable = nil, nil, nil
				continue
			}
			fc := &FuncContract{Loops: map[int]*LoopSpec{}, Closures: map[int]*LoopSpec{}, File: path, Line: l.line}
			text := l.text
			for {
				w2 := firstWord(text)
				if w2 == "trusted" {
					fc.Trusted = true
				} else if w2 == "pure" {
					fc.Pure = true
				} else if w2 == "iterator" {
					fc.Iter = &IterSpec{ErrResult: "err"}
				} else if w2 == "inline" {
					fc.Inline = true
				} else if w2 == "func" {
					text = strings.TrimSpace(text[len(w2):])
					break
				} else {
					return fail(l, "func expected in %q", l.text)
				}
				text = strings.TrimSpace(text[len(w2):])
			}
			fc.FromPkg = curPkg
			if err := parseFuncHeader(fc, text, curPkg); err != nil {
				return fail(l, "%v", err)
			}
			if _, dup := c.Funcs[fc.Key]; dup {
				return fail(l, "duplicate contract for %s", fc.Key)
			}
			c.Funcs[fc.Key] = fc
			cur, curAx, curTable = fc, nil, nil
		case "property":
			ps := strings.FieldsFunc(rest, func(r rune) bool { return r == ',' || r == ' ' })
			if cur != nil {
				cur.Props = append(cur.Props, ps...)
			} else if curAx != nil {
				curAx.Props = append(curAx.Props, ps...)
			} else if curTable != nil {
				curTable.Props = append(curTable.Props, ps...)
			} else {
				return fail(l, "property outside a declaration")
			}
		case "reveal":
			ns := strings.FieldsFunc(rest, func(r rune) bool { return r == ',' || r == ' ' })
			if cur != nil {
				cur.Reveal = append(cur.Reveal, ns...)
			} else if curAx != nil {
				curAx.Reveal = append(curAx.Reveal, ns...)
			} else {
				return fail(l, "reveal outside a declaration")
			}
		case "use":
			ns := strings.FieldsFunc(rest, func(r rune) bool { return r == ',' || r == ' ' })
			if cur != nil {
				cur.Use = append(cur.Use, ns...)
			} else if curAx != nil {
				curAx.Use = append(curAx.Use, ns...)
			} else {
				return fail(l, "use outside a declaration")
			}
		case "callback":
			// callback pure NAME
			// callback pure NAME counted: calls through it are ALSO recorded in ghost.cbCalls / cbArgN
			f := strings.Fields(rest)
			if cur == nil || len(f) < 2 || len(f) > 3 || f[0] != "pure" || (len(f) == 3 && f[2] != "counted") {
				return fail(l, "callback pure NAME [counted] expected inside a func contract")
			}
			cur.PureCallbacks = append(cur.PureCallbacks, f[1])
			if len(f) == 3 {
				if cur.CountedPure == nil {
					cur.CountedPure = map[string]bool{}
				}
				cur.CountedPure[f[1]] = true
			}
		case "calls":
			// calls VAR modifies heap T.f, heap T.*, ghost.x: a call through the function-typed variable VAR has
			// only these effects (functional options write only the record they are given): an ASSUMPTION, listed
			if cur == nil {
				return fail(l, "calls outside func")
			}
			f := strings.SplitN(rest, " modifies", 2)
			if len(f) != 2 || strings.TrimSpace(f[0]) == "" {
				return fail(l, "calls VAR modifies EFFECTS expected")
			}
			if cur.CallsEffects == nil {
				cur.CallsEffects = map[string][]string{}
			}
			name := strings.TrimSpace(f[0])
			cur.CallsEffects[name] = []string{}
			for _, m := range strings.Split(f[1], ",") {
				if m = strings.TrimSpace(m); m != "" {
					cur.CallsEffects[name] = append(cur.CallsEffects[name], m)
				}
			}
		case "dispatch":
			// dispatch VAR over f1, f2, ...: calls through the function-typed variable VAR are resolved
			// case by case over the named functions (a last case covers "none of them")
			if cur == nil {
				return fail(l, "dispatch outside func")
			}
			f := strings.Fields(strings.ReplaceAll(rest, ",", " "))
			if len(f) < 3 || f[1] != "over" {
				return fail(l, "dispatch VAR over f1, f2, ... expected")
			}
			if cur.Dispatch == nil {
				cur.Dispatch = map[string][]string{}
			}
			cur.Dispatch[f[0]] = append(cur.Dispatch[f[0]], f[2:]...)
		case "skip":
			if cur == nil {
				return fail(l, "skip outside func")
			}
			s, err := strconv.Unquote(rest)
			if err != nil {
				return fail(l, "skip needs a quoted statement prefix")
			}
			cur.Skip = append(cur.Skip, s)
		case "modifies":
			if cur == nil {
				return fail(l, "modifies outside func")
			}
			for _, m := range strings.Split(rest, ",") {
				m = strings.TrimSpace(m)
				if m != "" {
					cur.Modifies = append(cur.Modifies, m)
				}
			}
		case "requires", "ensures", "canary":
			if curTable != nil && w == "ensures" {
				cl, err := parseClause(rest, path, l.line)
				if err != nil {
					return fail(l, "%v", err)
				}
				curTable.Clauses = append(curTable.Clauses, cl)
				continue
			}
			if cur == nil {
				return fail(l, "%s outside func", w)
			}
			canary := false
			kind := w
			if w == "canary" {
				canary = true
				kind = firstWord(rest)
				rest = strings.TrimSpace(rest[len(kind):])
				if kind != "ensures" {
					return fail(l, "canary ensures expected")
				}
			}
			cl, err := parseClause(rest, path, l.line)
			if err != nil {
				return fail(l, "%v", err)
			}
			cl.Canary = canary
			if kind == "requires" {
				cur.Requires = append(cur.Requires, cl)
			} else {
				cur.Ensures = append(cur.Ensures, cl)
			}
		case "loop", "closure":
			if cur == nil {
				return fail(l, "%s outside func", w)
			}
			f := strings.Fields(rest)
			if len(f) < 3 {
				return fail(l, "%s N invariant EXPR expected", w)
			}
			n, err := strconv.Atoi(f[0])
			if err != nil {
				return fail(l, "%s ordinal: %v", w, err)
			}
			body := strings.TrimSpace(strings.TrimPrefix(strings.TrimSpace(rest[len(f[0]):]), f[1]))
			switch f[1] {
			case "invariant":
				cl, err := parseClause(body, path, l.line)
				if err != nil {
					return fail(l, "%v", err)
				}
				m := cur.Loops
				if w == "closure" {
					m = cur.Closures
				}
				if m[n] == nil {
					m[n] = &LoopSpec{}
				}
				m[n].Invariants = append(m[n].Invariants, cl)
			case "ensures", "requires":
				if w != "closure" {
					return fail(l, "%s only on closures", f[1])
				}
				cl, err := parseClause(body, path, l.line)
				if err != nil {
					return fail(l, "%v", err)
				}
				if cur.Closures[n] == nil {
					cur.Closures[n] = &LoopSpec{}
				}
				if f[1] == "ensures" {
					cur.Closures[n].Ensures = append(cur.Closures[n].Ensures, cl)
				} else {
					cur.Closures[n].Requires = append(cur.Closures[n].Requires, cl)
				}
			case "decreases":
				// recorded, not verified
			default:
				return fail(l, "unknown loop clause %q", f[1])
			}
		case "decreases":
			// recorded, not verified
		case "assert", "assume":
			if cur == nil {
				return fail(l, "assert outside func")
			}
			// assert before "stmt prefix" [label:] expr
			if !strings.HasPrefix(rest, "before ") {
				return fail(l, "assert before \"stmt\" expr expected")
			}
			rest = strings.TrimSpace(rest[7:])
			if !strings.HasPrefix(rest, "\"") {
				return fail(l, "assert before needs a quoted statement prefix")
			}
			end := 1
			for end < len(rest) && rest[end] != '"' {
				if rest[end] == '\\' {
					end++
				}
				end++
			}
			stmt, err := strconv.Unquote(rest[:end+1])
			if err != nil {
				return fail(l, "bad statement string: %v", err)
			}
			after := rest[end+1:]
			nth := 0
			if strings.HasPrefix(after, "@") {
				j := 1
				for j < len(after) && after[j] >= '0' && after[j] <= '9' {
					j++
				}
				nth, _ = strconv.Atoi(after[1:j])
				after = after[j:]
			}
			cl, err := parseClause(strings.TrimSpace(after), path, l.line)
			if err != nil {
				return fail(l, "%v", err)
			}
			cur.Asserts = append(cur.Asserts, &AssertSpec{Before: stmt, Clause: cl, Assume: w == "assume", Nth: nth})
		case "yields":
			if cur != nil && cur.Iter == nil {
				cur.Iter = &IterSpec{ErrResult: "err", Dual: true}
			}
			if cur == nil || cur.Iter == nil {
				return fail(l, "yields outside iterator func")
			}
			// yields via PARAM (x T, y U)
			f := strings.Fields(rest)
			if len(f) < 3 || f[0] != "via" {
				return fail(l, "yields via PARAM (x T, ...) expected")
			}
			cur.Iter.FuncParam = f[1]
			lp := strings.Index(rest, "(")
			rp := strings.LastIndex(rest, ")")
			if lp < 0 || rp < lp {
				return fail(l, "yields: parameter list expected")
			}
			for _, part := range strings.Split(rest[lp+1:rp], ",") {
				part = strings.TrimSpace(part)
				if part == "" {
					continue
				}
				sp := strings.IndexAny(part, " \t")
				if sp < 0 {
					return fail(l, "yields: NAME TYPE expected in %q", part)
				}
				ty, err := ParseType(strings.TrimSpace(part[sp:]))
				if err != nil {
					return fail(l, "%v", err)
				}
				cur.Iter.YieldVars = append(cur.Iter.YieldVars, SVar{part[:sp], ty})
			}
		case "where", "complete", "begins":
			if cur == nil || cur.Iter == nil {
				return fail(l, "%s outside iterator func", w)
			}
			cl, err := parseClause(rest, path, l.line)
			if err != nil {
				return fail(l, "%v", err)
			}
			if w == "where" {
				cur.Iter.Where = append(cur.Iter.Where, cl)
			} else if w == "begins" {
				cur.Iter.Begins = append(cur.Iter.Begins, cl)
			} else {
				cur.Iter.Complete = append(cur.Iter.Complete, cl)
			}
		case "distinct":
			if cur == nil || cur.Iter == nil {
				return fail(l, "distinct outside iterator func")
			}
			e, err := ParseExpr(rest)
			if err != nil {
				return fail(l, "%v", err)
			}
			cur.Iter.Distinct = e
		case "mayfail":
			if cur == nil || cur.Iter == nil {
				return fail(l, "mayfail outside iterator func")
			}
			cur.Iter.MayFail = true
		case "ordered":
			if cur == nil || cur.Iter == nil {
				return fail(l, "ordered outside iterator func")
			}
			cur.Iter.Ordered = true
		default:
			return fail(l, "unknown directive %q", w)
		}
	}
	return nil
}

func stripComment(t string) string {
	inStr := byte(0)
	for i := 0; i < len(t); i++ {
		c := t[i]
		if inStr != 0 {
			if c == '\\' && inStr == '"' {
				i++
			} else if c == inStr {
				inStr = 0
			}
			continue
		}
		if c == '"' || c == '`' {
			inStr = c
			continue
		}
		if c == '/' && i+1 < len(t) && t[i+1] == '/' {
			return strings.TrimSpace(t[:i])
		}
	}
	return t
}

func firstWord(s string) string {
	s = strings.TrimSpace(s)
	for i, r := range s {
		if !(r == '_' || (r >= 'a' && r <= 'z') || (r >= 'A' && r <= 'Z')) {
			return s[:i]
		}
	}
	return s
}

var propsRe = regexp.MustCompile(`\{([A-Z0-9, ]+)\}`)

func splitProps(head string) (string, []string) {
	m := propsRe.FindStringSubmatchIndex(head)
	if m == nil {
		return strings.TrimSpace(head), nil
	}
	ps := strings.FieldsFunc(head[m[2]:m[3]], func(r rune) bool { return r == ',' || r == ' ' })
	return strings.TrimSpace(head[:m[0]] + head[m[1]:]), ps
}

var labelRe = regexp.MustCompile(`^([A-Za-z][A-Za-z0-9_\-]*)\s*(\{[A-Z0-9, ]+\})?\s*:([^:]|$)`)

func parseClause(s, file string, line int) (*Clause, error) {
	cl := &Clause{File: file, Line: line}
	s = strings.TrimSpace(s)
	if strings.HasPrefix(s, "{") {
		if m := propsRe.FindStringSubmatchIndex(s); m != nil && m[0] == 0 {
			cl.Props = strings.FieldsFunc(s[m[2]:m[3]], func(r rune) bool { return r == ',' || r == ' ' })
			s = strings.TrimSpace(s[m[1]:])
		}
	}
	if m := labelRe.FindStringSubmatchIndex(s); m != nil {
		cl.Label = s[m[2]:m[3]]
		if m[4] >= 0 {
			cl.Props = strings.FieldsFunc(s[m[4]+1:m[5]-1], func(r rune) bool { return r == ',' || r == ' ' })
		}
		// find the colon
		colon := strings.Index(s[m[3]:], ":") + m[3]
		s = strings.TrimSpace(s[colon+1:])
	}
	e, err := ParseExpr(s)
	if err != nil {
		return nil, err
	}
	cl.Expr = e
	cl.Src = s
	return cl, nil
}

// parseSpecFunc: "func name(a T, b U) R [= expr]" (after "spec")
func parseSpecFunc(s string) (*SpecFunc, error) {
	s = strings.TrimSpace(s)
	if !strings.HasPrefix(s, "func ") {
		return nil, fmt.Errorf("spec func expected")
	}
	s = strings.TrimSpace(s[5:])
	lp := strings.Index(s, "(")
	if lp < 0 {
		return nil, fmt.Errorf("spec func: ( expected")
	}
	name := strings.TrimSpace(s[:lp])
	depth := 0
	rp := -1
	for i := lp; i < len(s); i++ {
		if s[i] == '(' {
			depth++
		} else if s[i] == ')' {
			depth--
			if depth == 0 {
				rp = i
				break
			}
		}
	}
	if rp < 0 {
		return nil, fmt.Errorf("spec func: ) expected")
	}
	sf := &SpecFunc{Name: name}
	params := strings.TrimSpace(s[lp+1 : rp])
	if params != "" {
		var pending []string
		for _, part := range splitTop(params, ',') {
			part = strings.TrimSpace(part)
			sp := strings.IndexAny(part, " \t")
			if sp < 0 {
				pending = append(pending, part)
				continue
			}
			ty, err := ParseType(strings.TrimSpace(part[sp:]))
			if err != nil {
				return nil, err
			}
			for _, p := range pending {
				sf.Params = append(sf.Params, SVar{p, ty})
			}
			pending = nil
			sf.Params = append(sf.Params, SVar{part[:sp], ty})
		}
		if len(pending) > 0 {
			return nil, fmt.Errorf("spec func %s: parameter without type", name)
		}
	}
	tail := strings.TrimSpace(s[rp+1:])
	def := ""
	if i := strings.Index(tail, "="); i >= 0 && !strings.HasPrefix(tail[i:], "==") {
		def = strings.TrimSpace(tail[i+1:])
		tail = strings.TrimSpace(tail[:i])
	}
	ty, err := ParseType(tail)
	if err != nil {
		return nil, fmt.Errorf("spec func %s result: %v", name, err)
	}
	sf.Result = ty
	if def != "" {
		if strings.HasPrefix(def, "smt ") || strings.HasPrefix(def, "smt`") || strings.HasPrefix(def, "smt\"") {
			raw := strings.TrimSpace(def[3:])
			u, err := unquoteAny(raw)
			if err != nil {
				return nil, fmt.Errorf("spec func %s: %v", name, err)
			}
			sf.RawDef = u
		} else {
			e, err := ParseExpr(def)
			if err != nil {
				return nil, err
			}
			sf.Def = e
		}
	}
	return sf, nil
}

func unquoteAny(s string) (string, error) {
	s = strings.TrimSpace(s)
	if strings.HasPrefix(s, "`") && strings.HasSuffix(s, "`") && len(s) >= 2 {
		return s[1 : len(s)-1], nil
	}
	return strconv.Unquote(s)
}

func splitTop(s string, sep byte) []string {
	var out []string
	d := 0
	start := 0
	for i := 0; i < len(s); i++ {
		switch s[i] {
		case '(', '[':
			d++
		case ')', ']':
			d--
		default:
			if s[i] == sep && d == 0 {
				out = append(out, s[start:i])
				start = i + 1
			}
		}
	}
	out = append(out, s[start:])
	return out
}

// parseFuncHeader: "[(Recv)] [pkg/path.]Name[(p1, p2, ...)] [(r1, r2)]"
func parseFuncHeader(fc *FuncContract, s string, pkg string) error {
	s = strings.TrimSpace(s)
	recv := ""
	if strings.HasPrefix(s, "(") {
		rp := strings.Index(s, ")")
		if rp < 0 {
			return fmt.Errorf("receiver: ) expected")
		}
		recv = strings.TrimSpace(s[1:rp])
		recv = strings.TrimPrefix(recv, "*")
		// receiver may be "b *bucket" or "*bucket" or "bucket"
		if f := strings.Fields(recv); len(f) == 2 {
			recv = strings.TrimPrefix(f[1], "*")
		}
		s = strings.TrimSpace(s[rp+1:])
	}
	name := s
	rest := ""
	if lp := strings.Index(s, "("); lp >= 0 {
		name = strings.TrimSpace(s[:lp])
		rest = s[lp:]
	}
	if i := strings.LastIndex(name, "."); i >= 0 {
		pkg = name[:i]
		name = name[i+1:]
	}
	if recv != "" {
		if i := strings.LastIndex(recv, "."); i >= 0 {
			pkg = recv[:i]
			recv = recv[i+1:]
		}
		fc.Key = pkg + "." + recv + "." + name
	} else {
		fc.Key = pkg + "." + name
	}
	fc.PkgPath = pkg
	// param and result name lists
	groups := parenGroups(rest)
	if len(groups) >= 1 {
		fc.ParamNames = namesOf(groups[0])
	}
	if len(groups) >= 2 {
		fc.ResultNames = namesOf(groups[1])
	}
	return nil
}

func parenGroups(s string) []string {
	var out []string
	d := 0
	start := -1
	for i := 0; i < len(s); i++ {
		switch s[i] {
		case '(':
			if d == 0 {
				start = i + 1
			}
			d++
		case ')':
			d--
			if d == 0 && start >= 0 {
				out = append(out, s[start:i])
				start = -1
			}
		}
	}
	return out
}

// namesOf extracts names from "a, b string, c ...T" — only the leading identifier of each part.
func namesOf(s string) []string {
	var out []string
	for _, part := range splitTop(s, ',') {
		part = strings.TrimSpace(part)
		if part == "" {
			continue
		}
		out = append(out, firstIdent(part))
	}
	return out
}

func firstIdent(s string) string {
	for i, r := range s {
		if !(r == '_' || (r >= 'a' && r <= 'z') || (r >= 'A' && r <= 'Z') || (i > 0 && r >= '0' && r <= '9')) {
			return s[:i]
		}
	}
	return s
}

// TrustedScan lists every trusted/axiom/assume line in the parsed files.
func (c *Contracts) TrustedScan(props map[string]bool) []string {
	var out []string
	for _, k := range sortedKeys(c.Funcs) {
		f := c.Funcs[k]
		if f.Trusted {
			out = append(out, "trusted contract: "+k)
		}
		for _, a := range f.Asserts {
			if a.Assume {
				out = append(out, "assume in "+k+": "+a.Clause.Src)
			}
		}
		for _, s := range f.Skip {
			out = append(out, "statement abstracted by havoc in "+k+": "+s)
		}
	}
	for _, pi := range c.PureIfaces {
		out = append(out, "trusted: every method of interface "+pi.Pkg+"."+pi.Name+" is a pure accessor (function of receiver and arguments)")
	}
	for _, a := range c.AxiomList {
		if !a.Lemma {
			out = append(out, "axiom: "+a.Name+": "+a.Src)
		}
	}
	return out
}
