package gocv

import (
	"context"
	"encoding/json"
	"fmt"
	"go/ast"
	"go/token"
	"go/types"
	"os"
	"path/filepath"
	"regexp"
	"sort"
	"strings"
	"time"
)

type Options struct {
	RepoDir  string
	VerifDir string
	Property string
	Tier     string
	Seed     int
	Jobs     int
	Verbose  bool
	Only     string // regexp on obligation names (debugging)
	KeepSMT  bool
	NoEvidence bool
}

// Obligation aggregates the per-path queries of one named proof obligation.
type Obligation struct {
	Name      string   `json:"name"`
	Function  string   `json:"function,omitempty"`
	Status    string   `json:"result"` // discharged | failed | canary-ok | canary-vacuous | known-finding
	Solver    string   `json:"solver,omitempty"`
	Millis    int64    `json:"ms"`
	Queries   int      `json:"queries"`
	Detail    string   `json:"detail,omitempty"`
	Model     string   `json:"model,omitempty"`
	Canary    bool     `json:"canary,omitempty"`
	Vacuity   bool     `json:"vacuity,omitempty"`
	FailQuery *Query   `json:"-"`
	FailRes   *Result  `json:"-"`
	Pos       string   `json:"pos,omitempty"`
	Attempts  []string `json:"attempts,omitempty"`
	// NewInput: a replayed failing input that lies outside the recorded finding for this obligation
	NewInput    string `json:"-"`
	NewInputLog string `json:"-"`
}

type Finding struct {
	Kind       string // finding | fixed
	Property   string
	Obligation string
	Input      string
	Match      string // regexp ('.' for blanks): every failing input the replay harness reports must match it
	Text       string
	Raw        string
}

func loadFindings(path string) ([]Finding, error) {
	data, err := os.ReadFile(path)
	if err != nil {
		if os.IsNotExist(err) {
			return nil, nil
		}
		return nil, err
	}
	var out []Finding
	for _, l := range strings.Split(string(data), "\n") {
		l = strings.TrimSpace(l)
		if l == "" || strings.HasPrefix(l, "#") {
			continue
		}
		f := Finding{Raw: l}
		switch {
		case strings.HasPrefix(l, "finding:"):
			f.Kind = "finding"
			l = strings.TrimSpace(l[8:])
		case strings.HasPrefix(l, "fixed:"):
			f.Kind = "fixed"
			l = strings.TrimSpace(l[6:])
		default:
			return nil, fmt.Errorf("known_findings: bad line %q", l)
		}
		if i := strings.Index(l, " -- "); i >= 0 {
			f.Text = strings.TrimSpace(l[i+4:])
			l = l[:i]
		}
		for _, w := range strings.Fields(l) {
			switch {
			case strings.HasPrefix(w, "property="):
				f.Property = w[9:]
			case strings.HasPrefix(w, "obligation="):
				f.Obligation = w[11:]
			case strings.HasPrefix(w, "input="):
				f.Input = w[6:]
			case strings.HasPrefix(w, "match="):
				f.Match = w[6:]
			}
		}
		out = append(out, f)
	}
	return out, nil
}

func contractFilesUnder(repo string) (map[string]string, error) {
	out := map[string]string{}
	err := filepath.Walk(filepath.Join(repo, "private"), func(p string, info os.FileInfo, err error) error {
		if err != nil {
			return nil
		}
		if !info.IsDir() && strings.HasPrefix(info.Name(), "zz_verif_contracts") && strings.HasSuffix(info.Name(), ".go") {
			rel, _ := filepath.Rel(repo, filepath.Dir(p))
			out[p] = repoModule + "/" + filepath.ToSlash(rel)
		}
		return nil
	})
	return out, err
}

func hasProp(ps []string, p string) bool {
	for _, x := range ps {
		if x == p {
			return true
		}
	}
	return false
}

type CheckReport struct {
	Property    string
	Obligations []*Obligation
	Functions   []string
	Trusted     []string
	Assumptions []string
	Uncontracted []string
	Wall        float64
	SolverMs    int64
	Violations  []*Obligation
	Known       []string
	NQueries    int
	Broken      string // build broken etc.
	Cross       map[string]int // thorough tier: second-opinion outcomes per path query
}

// RunCheck generates and discharges every obligation of one property.
func RunCheck(opt *Options) (*CheckReport, error) {
	start := time.Now()
	rep := &CheckReport{Property: opt.Property}
	cs := NewContracts()
	// spec files
	specDir := filepath.Join(opt.VerifDir, "specs")
	var specFiles []string
	_ = filepath.Walk(specDir, func(p string, info os.FileInfo, err error) error {
		if err == nil && !info.IsDir() && strings.HasSuffix(p, ".spec") {
			specFiles = append(specFiles, p)
		}
		return nil
	})
	sort.Strings(specFiles)
	lenient := os.Getenv("VERIF_LENIENT") != ""
	for _, f := range specFiles {
		if err := cs.ParseFile(f, ""); err != nil {
			if lenient {
				fmt.Println("warning (VERIF_LENIENT): skipping rest of spec file:", err)
				continue
			}
			return nil, err
		}
	}
	cfiles, err := contractFilesUnder(opt.RepoDir)
	if err != nil {
		return nil, err
	}
	var cpaths []string
	for p := range cfiles {
		cpaths = append(cpaths, p)
	}
	sort.Strings(cpaths)
	ovl := overlayMap()
	for _, p := range cpaths {
		src := p
		if o, ok := ovl[p]; ok {
			src = o
		}
		data, err := os.ReadFile(src)
		if err != nil {
			return nil, err
		}
		if err := cs.ParseText(p, string(data), cfiles[p]); err != nil {
			if lenient {
				fmt.Println("warning (VERIF_LENIENT): skipping rest of contract file:", err)
				continue
			}
			return nil, err
		}
	}
	// which functions / lemmas / tables serve the property
	var keys []string
	pkgSet := map[string]bool{}
	for _, k := range sortedKeys(cs.Funcs) {
		fc := cs.Funcs[k]
		if fc.Trusted || !hasProp(fc.Props, opt.Property) {
			// a function may serve the property through a clause-level tag
			tagged := false
			for _, en := range fc.Ensures {
				if hasProp(en.Props, opt.Property) {
					tagged = true
				}
			}
			// ... or through a tagged loop/closure invariant, closure clause or assertion
			for _, specs := range []map[int]*LoopSpec{fc.Loops, fc.Closures} {
				for _, ls := range specs {
					for _, cls := range [][]*Clause{ls.Invariants, ls.Ensures} {
						for _, c := range cls {
							if hasProp(c.Props, opt.Property) {
								tagged = true
							}
						}
					}
				}
			}
			for _, a := range fc.Asserts {
				if a.Clause != nil && !a.Assume && hasProp(a.Clause.Props, opt.Property) {
					tagged = true
				}
			}
			if fc.Trusted || !tagged {
				continue
			}
		}
		keys = append(keys, k)
		pkgSet[fc.PkgPath] = true
	}
	var lemmas []*Axiom
	for _, a := range cs.AxiomList {
		if a.Lemma && hasProp(a.Props, opt.Property) {
			lemmas = append(lemmas, a)
			if a.PkgPath != "" {
				pkgSet[a.PkgPath] = true
			}
		}
	}
	var tables []*TableSpec
	for _, t := range cs.Tables {
		if hasProp(t.Props, opt.Property) {
			tables = append(tables, t)
			pkgSet[t.PkgPath] = true
		}
	}
	ld := NewLoader(opt.RepoDir)
	var pkgs []string
	for p := range pkgSet {
		pkgs = append(pkgs, p)
	}
	sort.Strings(pkgs)
	if len(pkgs) > 0 {
		if err := ld.Load(pkgs...); err != nil {
			rep.Broken = err.Error()
			return rep, nil
		}
	}
	// contracts written with a short package name ("bufconfig.T.M") are re-keyed to the import path
	for _, k := range sortedKeys(cs.Funcs) {
		fc := cs.Funcs[k]
		if _, ok := ld.byPath[fc.PkgPath]; ok || fc.PkgPath == "" {
			continue
		}
		if p := ld.resolveShort(fc.PkgPath, fc.FromPkg); p != nil {
			nk := p.Path() + strings.TrimPrefix(k, fc.PkgPath)
			delete(cs.Funcs, k)
			fc.Key, fc.PkgPath = nk, p.Path()
			cs.Funcs[nk] = fc
		}
	}
	for _, pi := range cs.PureIfaces {
		p := ld.byPath[pi.Pkg]
		if p == nil {
			p = ld.resolveShort(pi.Pkg, pi.FromPkg)
		}
		if p == nil {
			continue // package not part of this property's load
		}
		tn, ok := p.Scope().Lookup(pi.Name).(*types.TypeName)
		if !ok {
			if _, full := ld.pkgs[p.Path()]; !full {
				continue // only partially imported (export data): not used by this property's kernel
			}
			// a declaration error in one contract file must not abort the checks of unrelated properties:
			// it is a failure of the properties whose kernel contains the declaring package
			if pkgSet[pi.FromPkg] || pi.FromPkg == "" {
				return nil, fmt.Errorf("%s: trusted pure interface %s.%s: no such type", pi.File, pi.Pkg, pi.Name)
			}
			fmt.Printf("warning: %s: trusted pure interface %s.%s: no such type (ignored: not part of this property's packages)\n", pi.File, pi.Pkg, pi.Name)
			continue
		}
		ms := types.NewMethodSet(tn.Type())
		for i := 0; i < ms.Len(); i++ {
			fn, ok := ms.At(i).Obj().(*types.Func)
			if !ok || !fn.Exported() && fn.Pkg() != p {
				continue
			}
			if fn.Type().(*types.Signature).Results().Len() == 0 {
				continue
			}
			k := funcKey(fn)
			if cs.Funcs[k] == nil {
				cs.Funcs[k] = &FuncContract{Key: k, Trusted: true, Pure: true, PkgPath: fn.Pkg().Path(), Loops: map[int]*LoopSpec{}, Closures: map[int]*LoopSpec{}, File: pi.File}
			}
		}
	}
	var onlyRe *regexp.Regexp
	if opt.Only != "" {
		onlyRe = regexp.MustCompile(opt.Only)
	}
	var queries []*Query
	qFunc := map[*Query]string{}
	type failure struct{ fn, msg string }
	var failures []failure
	assume := map[string]bool{}
	uncon := map[string]bool{}
	for _, k := range keys {
		fr := VerifyFunc(ld, cs, k)
		rep.Functions = append(rep.Functions, k)
		for _, q := range fr.Queries {
			if !hasProp(q.Property, opt.Property) {
				continue
			}
			if onlyRe != nil && !onlyRe.MatchString(q.Name) {
				continue
			}
			queries = append(queries, q)
			qFunc[q] = k
		}
		for _, f := range fr.Failures {
			failures = append(failures, failure{fr.Name, f})
		}
		for _, a := range fr.Assumptions {
			assume[a] = true
		}
		for _, u := range fr.Uncontracted {
			uncon[u] = true
		}
	}
	for _, lm := range lemmas {
		qs, fails := VerifyLemma(ld, cs, lm)
		for _, q := range qs {
			if onlyRe != nil && !onlyRe.MatchString(q.Name) {
				continue
			}
			queries = append(queries, q)
		}
		for _, f := range fails {
			failures = append(failures, failure{"lemma " + lm.Name, f})
		}
	}
	for _, tb := range tables {
		qs, fails := VerifyTable(ld, cs, tb)
		for _, q := range qs {
			if onlyRe != nil && !onlyRe.MatchString(q.Name) {
				continue
			}
			queries = append(queries, q)
		}
		for _, f := range fails {
			failures = append(failures, failure{"table " + tb.Name, f})
		}
	}
	// solve
	work := filepath.Join(opt.VerifDir, ".work", fmt.Sprintf("%s-%d", opt.Property, os.Getpid()))
	if err := os.MkdirAll(work, 0o755); err != nil {
		return nil, err
	}
	defer os.RemoveAll(work)
	timeout := 25000
	if opt.Tier == "thorough" {
		timeout = 90000
	}
	cfg := &SolverCfg{WorkDir: work, TimeoutMs: timeout, Seed: opt.Seed, Jobs: opt.Jobs, CrossCheck: opt.Tier == "thorough"}
	// quick tier: an obligation recorded as a known finding is EXPECTED to stay undecided/refuted: it gets the
	// short budget only (enough to notice that it discharges, i.e. that the finding no longer reproduces); the
	// thorough tier gives it the full budget and replays it against the finding's input pattern
	if opt.Tier != "thorough" {
		if fs, err := loadFindings(filepath.Join(opt.VerifDir, "known_findings.txt")); err == nil {
			known := map[string]bool{}
			for _, f := range fs {
				if f.Kind == "finding" && f.Property == opt.Property {
					known[f.Obligation] = true
				}
			}
			for _, q := range queries {
				if known[q.Name] {
					q.ShortBudget = true
				}
			}
		}
	}
	results := SolveAll(context.Background(), cfg, queries)
	rep.NQueries = len(queries)
	// aggregate
	byName := map[string]*Obligation{}
	var order []string
	for i, q := range queries {
		r := results[i]
		rep.SolverMs += r.Millis
		if r.Cross != "" {
			if rep.Cross == nil {
				rep.Cross = map[string]int{}
			}
			rep.Cross[r.Cross]++
		}
		o := byName[q.Name]
		if o == nil {
			o = &Obligation{Name: q.Name, Function: qFunc[q], Status: "discharged", Canary: q.Expect == "fail", Vacuity: q.Expect == "sat", Pos: q.Pos}
			if o.Canary {
				o.Status = "canary-vacuous"
			}
			byName[q.Name] = o
			order = append(order, q.Name)
		}
		o.Queries++
		o.Millis += r.Millis
		if o.Solver == "" || r.Solver != "simplifier" {
			o.Solver = r.Solver
		}
		switch q.Expect {
		case "fail":
			if r.Status != "unsat" {
				o.Status = "canary-ok"
			}
		case "sat":
			if r.Status == "unsat" {
				o.Status = "failed"
				o.Detail = "vacuous: the assumptions are contradictory"
				o.FailQuery, o.FailRes = q, r
			}
		default:
			if r.Status != "unsat" && o.Status != "failed" {
				o.Status = "failed"
				o.Detail = fmt.Sprintf("path %d at %s: solver says %s", q.Path, q.Pos, r.Status)
				if r.Cross == "disagree" {
					o.Detail += " (solver disagreement, see solver_output)"
				}
				o.Model = r.Model
				o.FailQuery, o.FailRes = q, r
				o.Attempts = r.Attempt
			}
		}
	}
	for _, n := range order {
		rep.Obligations = append(rep.Obligations, byName[n])
	}
	for _, f := range failures {
		rep.Obligations = append(rep.Obligations, &Obligation{Name: f.fn + "#generator", Status: "failed", Detail: f.msg, Queries: 0})
	}
	rep.Trusted = cs.TrustedScan(nil)
	for a := range assume {
		rep.Assumptions = append(rep.Assumptions, a)
	}
	sort.Strings(rep.Assumptions)
	for u := range uncon {
		rep.Uncontracted = append(rep.Uncontracted, u)
	}
	sort.Strings(rep.Uncontracted)
	rep.Wall = time.Since(start).Seconds()
	if opt.KeepSMT {
		dir := filepath.Join(opt.VerifDir, ".smt", opt.Property)
		os.MkdirAll(dir, 0o755)
		for i, q := range queries {
			os.WriteFile(filepath.Join(dir, fmt.Sprintf("%04d_%s_%s.smt2", i, sanitize(q.Name), results[i].Status)), []byte(q.Text(true)), 0o644)
		}
	}
	return rep, nil
}

func overlayMap() map[string]string {
	out := map[string]string{}
	if ov := os.Getenv("VERIF_OVERLAY"); ov != "" {
		data, err := os.ReadFile(ov)
		if err == nil {
			var m struct{ Replace map[string]string }
			if json.Unmarshal(data, &m) == nil {
				return m.Replace
			}
		}
	}
	return out
}

// VerifyLemma: the lemma's formula must be valid under the axioms it uses.
func VerifyLemma(ld *Loader, cs *Contracts, lm *Axiom) (qs []*Query, fails []string) {
	pkg := ld.pkgs[lm.PkgPath]
	if pkg == nil {
		for _, p := range ld.pkgs {
			pkg = p
			break
		}
	}
	if pkg == nil {
		return nil, []string{"lemma " + lm.Name + ": no package context loaded (add a `package` directive)"}
	}
	ex := newExec(ld, cs, pkg)
	ex.name = "lemma"
	for _, r := range lm.Reveal {
		ex.reveal[r] = true
	}
	defer func() {
		if r := recover(); r != nil {
			switch e := r.(type) {
			case *oofError:
				fails = append(fails, e.what)
			case *elabError:
				fails = append(fails, e.msg)
			default:
				panic(r)
			}
		}
	}()
	for _, u := range lm.Use {
		ex.useAxiom(u)
	}
	st := &State{vars: map[types.Object]Val{}, heap: map[string]string{}, ghost: map[string]string{}, extra: map[string]Val{}, compEpoch: map[string]int{}, pureInst: map[string]bool{}}
	env := &Env{ex: ex, names: map[string]Val{}, cur: st, pkg: pkg.Types}
	t, err := env.elabBool(lm.Expr)
	if err != nil {
		return nil, []string{fmt.Sprintf("lemma %s: %v", lm.Name, err)}
	}
	q := &Query{Name: "lemma[" + lm.Name + "]", Goal: t, Property: lm.Props, Pos: fmt.Sprintf("%s:%d", lm.File, lm.Line)}
	if lm.Canary {
		q.Expect = "fail"
	}
	ex.queries = append(ex.queries, q)
	res := &FuncResult{}
	ex.finish(res)
	return res.Queries, append(fails, res.Failures...)
}

// VerifyTable extracts a package-level composite literal from the AST and
// checks facts about it.
func VerifyTable(ld *Loader, cs *Contracts, tb *TableSpec) (qs []*Query, fails []string) {
	pkg := ld.pkgs[tb.PkgPath]
	if pkg == nil {
		return nil, []string{"table " + tb.Name + ": package " + tb.PkgPath + " not loaded"}
	}
	var init ast.Expr
	var obj types.Object
	for _, f := range pkg.Syntax {
		for _, d := range f.Decls {
			gd, ok := d.(*ast.GenDecl)
			if !ok || gd.Tok != token.VAR {
				continue
			}
			for _, sp := range gd.Specs {
				vs := sp.(*ast.ValueSpec)
				for i, n := range vs.Names {
					if n.Name == tb.Var && i < len(vs.Values) {
						init = vs.Values[i]
						obj = pkg.TypesInfo.Defs[n]
					}
				}
			}
		}
	}
	if init == nil {
		return nil, []string{"table " + tb.Name + ": package-level variable " + tb.Var + " with an initializer not found"}
	}
	ex := newExec(ld, cs, pkg)
	ex.name = "table"
	defer func() {
		if r := recover(); r != nil {
			switch e := r.(type) {
			case *oofError:
				fails = append(fails, "table extraction failed: "+e.what+" at "+ex.posStr(e.pos))
			case *elabError:
				fails = append(fails, e.msg)
			default:
				panic(r)
			}
		}
	}()
	st := &State{vars: map[types.Object]Val{}, heap: map[string]string{}, ghost: map[string]string{}, extra: map[string]Val{}, compEpoch: map[string]int{}, pureInst: map[string]bool{}}
	var tv Val
	got := false
	ex.eval(st, init, func(st2 *State, v Val) {
		if got {
			ex.oof(init.Pos(), "table initializer forks")
		}
		got = true
		tv = v
		st = st2
	})
	if !got {
		return nil, []string{"table " + tb.Name + ": initializer could not be evaluated"}
	}
	if len(ex.uncontracted) > 0 {
		var us []string
		for u := range ex.uncontracted {
			us = append(us, u)
		}
		sort.Strings(us)
		return nil, []string{"table " + tb.Name + ": initializer calls functions without contract: " + strings.Join(us, ", ")}
	}
	tv.GoT = obj.Type()
	for i, cl := range tb.Clauses {
		env := &Env{ex: ex, names: map[string]Val{tb.Var: tv}, cur: st, pkg: pkg.Types}
		label := cl.Label
		if label == "" {
			label = fmt.Sprint(i)
		}
		t, err := env.elabBool(cl.Expr)
		if err != nil {
			fails = append(fails, fmt.Sprintf("table %s clause %q: %v", tb.Name, cl.Src, err))
			continue
		}
		q := &Query{Name: fmt.Sprintf("table[%s.%s]", tb.Name, label), Goal: t, Assumes: append([]string(nil), st.pc...), Property: tb.Props, Pos: fmt.Sprintf("%s:%d", cl.File, cl.Line)}
		if cl.Canary {
			q.Expect = "fail"
		}
		ex.queries = append(ex.queries, q)
	}
	res := &FuncResult{}
	ex.finish(res)
	return res.Queries, append(fails, res.Failures...)
}
