package gocv

import (
	"fmt"
	"go/constant"
	"go/token"
	"go/types"
	"strconv"
	"strings"
)

// Val is a symbolic value: an SMT term with its sort and (when known) Go type.
type Val struct {
	T   string
	S   *Sort
	GoT types.Type
	Clo *Closure
	Fn  *types.Func // the value is this named function / method expression
}

// Env is the environment spec expressions are elaborated in.
type Env struct {
	ex    *Exec
	names map[string]Val
	oldNames map[string]Val // values of names inside old(): parameters modified in place
	entryOrd int            // ordinal of the loop whose invariant is elaborated (for $entry), -1 if none
	pureCallbacks []string  // function-typed names callable in specs as deterministic functions
	cur   *State
	old   *State
	pos   token.Pos // position for resolving Go locals by name (0 = none)
	pkg   *types.Package
	quant bool
	strs  bool
}

func (e *Env) child() *Env {
	n := &Env{ex: e.ex, names: map[string]Val{}, cur: e.cur, old: e.old, pos: e.pos, pkg: e.pkg, oldNames: e.oldNames, pureCallbacks: e.pureCallbacks, entryOrd: e.entryOrd}
	for k, v := range e.names {
		n.names[k] = v
	}
	return n
}

type elabError struct{ msg string }

func (e *elabError) Error() string { return e.msg }

func elabFail(format string, a ...any) {
	panic(&elabError{fmt.Sprintf(format, a...)})
}

// Elab elaborates a spec expression to a Val; errors are returned, not panicked.
func (env *Env) Elab(e SExpr) (v Val, err error) {
	defer func() {
		if r := recover(); r != nil {
			if ee, ok := r.(*elabError); ok {
				err = ee
				return
			}
			panic(r)
		}
	}()
	v = env.elab(e)
	return
}

func (env *Env) elabBool(e SExpr) (string, error) {
	v, err := env.Elab(e)
	if err != nil {
		return "", err
	}
	if v.S.K != KBool {
		return "", fmt.Errorf("expected Bool, got %s in %s", v.S, exprString(e))
	}
	return v.T, nil
}

func (env *Env) elab(e SExpr) Val {
	ex := env.ex
	switch e := e.(type) {
	case *SLit:
		switch e.Kind {
		case "int":
			return Val{T: e.Val, S: SInt}
		case "string":
			env.strs = true
			return Val{T: smtString(e.Val), S: SString}
		case "bool":
			return Val{T: e.Val, S: SBool}
		case "nil":
			return Val{T: "0", S: SRef}
		}
	case *SIdent:
		if v, ok := env.names[e.Name]; ok {
			return v
		}
		if env.cur != nil && env.pos != token.NoPos {
			if v, ok := ex.lookupLocalByName(env.cur, e.Name, env.pos); ok {
				return v
			}
		}
		// package-level Go constant or variable
		if env.pkg != nil {
			if obj := env.pkg.Scope().Lookup(e.Name); obj != nil {
				if v, ok := ex.valOfPkgObject(env.cur, obj); ok {
					return v
				}
			}
		}
		if sf, ok := ex.cs.SpecFuncs[e.Name]; ok && len(sf.Params) == 0 {
			return ex.specFuncApp(env, sf, nil)
		}
		elabFail("unknown name %q", e.Name)
	case *SOld:
		if e.Entry {
			// $entry(e): e in the state at entry of this loop (or of enclosing loop N for $entryN)
			ord := env.entryOrd
			if e.Ord >= 0 {
				ord = e.Ord
			}
			var est *State
			if env.cur != nil && env.cur.entries != nil {
				est = env.cur.entries[ord]
			}
			if est == nil {
				if e.Ord >= 0 && e.Ord != env.entryOrd {
					elabFail("$entry%d: loop %d is not an enclosing loop here", e.Ord, e.Ord)
				}
				est = env.cur // the loop is being entered right now
			}
			n := env.child()
			n.cur = est
			v := n.elab(e.X)
			env.quant = env.quant || n.quant
			env.strs = env.strs || n.strs
			return v
		}
		if env.old == nil {
			elabFail("old() not available here")
		}
		n := env.child()
		n.cur = env.old
		for k, v := range env.oldNames {
			n.names[k] = v
		}
		// names bound to parameters keep their entry values; locals resolve in old state
		v := n.elab(e.X)
		env.quant = env.quant || n.quant
		env.strs = env.strs || n.strs
		return v
	case *SUnary:
		x := env.elab(e.X)
		switch e.Op {
		case "!":
			if x.S.K != KBool {
				elabFail("! on %s", x.S)
			}
			return Val{T: not(x.T), S: SBool}
		case "-":
			return Val{T: app("-", x.T), S: SInt}
		}
	case *SBinary:
		return env.elabBinary(e)
	case *SQuant:
		n := env.child()
		var binders []string
		for _, v := range e.Vars {
			s, gt := ex.sortOfSType(v.T, env.pkg)
			name := "q_" + v.Name
			n.names[v.Name] = Val{T: name, S: s, GoT: gt}
			binders = append(binders, "("+name+" "+s.Name+")")
		}
		body := n.elab(e.Body)
		if body.S.K != KBool {
			elabFail("quantifier body must be Bool")
		}
		env.quant = true
		env.strs = env.strs || n.strs
		q := "exists"
		if e.Forall {
			q = "forall"
		}
		return Val{T: "(" + q + " (" + strings.Join(binders, " ") + ") " + body.T + ")", S: SBool}
	case *SIndex:
		x := env.elab(e.X)
		i := env.elab(e.I)
		switch x.S.K {
		case KSlice:
			return Val{T: app("select", app("s-arr", x.T), i.T), S: x.S.Elem, GoT: elemGoType(x.GoT)}
		case KMap:
			return Val{T: app("select", app("m-val", x.T), i.T), S: x.S.Elem, GoT: elemGoType(x.GoT)}
		case KSet:
			return Val{T: app("select", x.T, i.T), S: SBool}
		case KString:
			env.strs = true
			return Val{T: app("str.to_code", app("str.at", x.T, i.T)), S: SInt}
		}
		elabFail("index on %s", x.S)
	case *SSlice:
		x := env.elab(e.X)
		if x.S.K != KString {
			elabFail("slice expression only on strings in specs")
		}
		env.strs = true
		lo := "0"
		if e.Lo != nil {
			lo = env.elab(e.Lo).T
		}
		hi := app("str.len", x.T)
		if e.Hi != nil {
			hi = env.elab(e.Hi).T
		}
		return Val{T: app("str.substr", x.T, lo, app("-", hi, lo)), S: SString}
	case *SSel:
		// ghost.x
		if id, ok := e.X.(*SIdent); ok {
			if id.Name == "ghost" {
				g, ok := ex.cs.Ghost[e.Name]
				if !ok {
					elabFail("unknown ghost var %s", e.Name)
				}
				if env.cur == nil {
					elabFail("ghost state not available")
				}
				return ex.ghostGet(env.cur, g)
			}
			// package-qualified constant (a local variable of that name takes precedence)
			if _, bound := env.names[id.Name]; !bound && !(env.cur != nil && env.pos != token.NoPos && ex.hasLocalByName(env.cur, id.Name, env.pos)) {
				if p := ex.importedPkg(env.pkg, id.Name); p != nil {
					obj := p.Scope().Lookup(e.Name)
					if obj == nil {
						elabFail("%s.%s not found", id.Name, e.Name)
					}
					if v, ok := ex.valOfPkgObject(env.cur, obj); ok {
						return v
					}
					elabFail("%s.%s is not a value", id.Name, e.Name)
				}
			}
		}
		x := env.elab(e.X)
		return ex.fieldGet(env.cur, x, e.Name)
	case *SRaw:
		s, gt := ex.sortOfSType(e.T, env.pkg)
		t := e.Tmpl
		for i, a := range e.Args {
			t = strings.ReplaceAll(t, "{"+strconv.Itoa(i)+"}", env.elab(a).T)
		}
		if strings.Contains(t, "str.") || strings.Contains(t, "re.") {
			env.strs = true
		}
		if strings.Contains(t, "forall") || strings.Contains(t, "exists") {
			env.quant = true
		}
		return Val{T: t, S: s, GoT: gt}
	case *SCall:
		return env.elabCall(e)
	}
	elabFail("cannot elaborate %s", exprString(e))
	return Val{}
}

func elemGoType(t types.Type) types.Type {
	if t == nil {
		return nil
	}
	switch u := under(t).(type) {
	case *types.Slice:
		return u.Elem()
	case *types.Map:
		return u.Elem()
	case *types.Array:
		return u.Elem()
	case *types.Pointer:
		return u.Elem()
	}
	return nil
}

func (env *Env) elabBinary(e *SBinary) Val {
	x := env.elab(e.X)
	y := env.elab(e.Y)
	b := func(t string) Val { return Val{T: t, S: SBool} }
	switch e.Op {
	case "==", "!=", "<", "<=", ">", ">=":
		// an integer-sorted operand next to a Real-sorted one is read as a real number
		if x.S.K == KReal && y.S.K == KInt {
			y = Val{T: app("to_real", y.T), S: SReal}
		} else if y.S.K == KReal && x.S.K == KInt {
			x = Val{T: app("to_real", x.T), S: SReal}
		}
	}
	switch e.Op {
	case "&&":
		return b(and(x.T, y.T))
	case "||":
		return b(or(x.T, y.T))
	case "==>":
		return b(implies(x.T, y.T))
	case "<==>":
		return b(app("=", x.T, y.T))
	case "==", "!=":
		if isNilLit(e.Y) && (x.S.K == KSlice || x.S.K == KMap) {
			y = Val{T: zeroOf(x.S), S: x.S}
		} else if isNilLit(e.X) && (y.S.K == KSlice || y.S.K == KMap) {
			x = Val{T: zeroOf(y.S), S: y.S}
		}
		if !sameSort(x.S, y.S) {
			elabFail("== on different sorts %s vs %s in %s", x.S, y.S, exprString(e))
		}
		if x.S.K == KString {
			env.strs = true
		}
		t := eq(x.T, y.T)
		if x.S.K == KSlice {
			// nil comparison only
			if y.T == zeroOf(y.S) || isNilLit(e.Y) {
				t = app("s-nil", x.T)
			} else if isNilLit(e.X) {
				t = app("s-nil", y.T)
			}
		}
		if x.S.K == KMap {
			if isNilLit(e.Y) {
				t = app("m-nil", x.T)
			} else if isNilLit(e.X) {
				t = app("m-nil", y.T)
			}
		}
		if e.Op == "!=" {
			return b(not(t))
		}
		return b(t)
	case "<", "<=", ">", ">=":
		if x.S.K == KString {
			env.strs = true
			switch e.Op {
			case "<":
				return b(app("str.<", x.T, y.T))
			case "<=":
				return b(app("str.<=", x.T, y.T))
			case ">":
				return b(app("str.<", y.T, x.T))
			default:
				return b(app("str.<=", y.T, x.T))
			}
		}
		return b(app(e.Op, x.T, y.T))
	case "+":
		if x.S.K == KString {
			env.strs = true
			return Val{T: app("str.++", x.T, y.T), S: SString}
		}
		return Val{T: app("+", x.T, y.T), S: SInt}
	case "-", "*":
		return Val{T: app(e.Op, x.T, y.T), S: SInt}
	case "/":
		return Val{T: goDiv(x.T, y.T), S: SInt}
	case "%":
		return Val{T: goMod(x.T, y.T), S: SInt}
	case "in":
		switch y.S.K {
		case KMap:
			return b(app("select", app("m-dom", y.T), x.T))
		case KSet:
			return b(app("select", y.T, x.T))
		}
		elabFail("in on %s", y.S)
	}
	elabFail("bad binary op %s", e.Op)
	return Val{}
}

// Go integer division truncates toward zero; SMT div floors (for positive divisor).
func goDiv(a, b string) string {
	// trunc(a/b) = ite(a>=0, a div b, -((-a) div b))   (valid for b>0; for b<0 SMT div rounds so that remainder non-negative)
	return fmt.Sprintf("(ite (>= %s 0) (div %s %s) (- (div (- %s) %s)))", a, a, b, a, b)
}

func goMod(a, b string) string {
	return fmt.Sprintf("(- %s (* %s %s))", a, b, goDiv(a, b))
}

func isNilLit(e SExpr) bool {
	l, ok := e.(*SLit)
	return ok && l.Kind == "nil"
}

func (env *Env) elabCall(e *SCall) Val {
	ex := env.ex
	args := func() []Val {
		var vs []Val
		for _, a := range e.Args {
			vs = append(vs, env.elab(a))
		}
		return vs
	}
	str := func(f string, vs ...Val) Val {
		env.strs = true
		var ts []string
		for _, v := range vs {
			ts = append(ts, v.T)
		}
		return Val{T: app(f, ts...), S: SString}
	}
	if id, ok := e.Fun.(*SIdent); ok {
		for _, n := range env.pureCallbacks {
			if n == id.Name {
				fv := env.elab(id)
				if fv.GoT != nil {
					if sig, isSig := under(fv.GoT).(*types.Signature); isSig {
						return ex.callbackApp(fv, id.Name, sig, args())[0]
					}
				}
			}
		}
		if _, bound := env.names[id.Name]; !bound {
			switch id.Name {
			case "len":
				a := args()
				if len(a) != 1 {
					elabFail("len arity")
				}
				switch a[0].S.K {
				case KString:
					env.strs = true
					return Val{T: app("str.len", a[0].T), S: SInt}
				case KSlice:
					return Val{T: app("s-len", a[0].T), S: SInt}
				case KMap:
					return Val{T: app("m-size", a[0].T), S: SInt}
				}
				elabFail("len on %s", a[0].S)
			case "hasPrefix":
				a := args()
				env.strs = true
				return Val{T: app("str.prefixof", a[1].T, a[0].T), S: SBool}
			case "hasSuffix":
				a := args()
				env.strs = true
				return Val{T: app("str.suffixof", a[1].T, a[0].T), S: SBool}
			case "contains":
				a := args()
				env.strs = true
				return Val{T: app("str.contains", a[0].T, a[1].T), S: SBool}
			case "indexOf":
				a := args()
				env.strs = true
				from := "0"
				if len(a) == 3 {
					from = a[2].T
				}
				return Val{T: app("str.indexof", a[0].T, a[1].T, from), S: SInt}
			case "substr":
				a := args()
				return str("str.substr", a...)
			case "strAt":
				a := args()
				return str("str.at", a...)
			case "replaceAll":
				a := args()
				return str("str.replace_all", a...)
			case "replaceFirst":
				a := args()
				return str("str.replace", a...)
			case "toCode":
				a := args()
				env.strs = true
				return Val{T: app("str.to_code", a[0].T), S: SInt}
			case "fromCode":
				a := args()
				return str("str.from_code", a...)
			case "itoa":
				a := args()
				return str("str.from_int", a...)
			case "inRe":
				if len(e.Args) != 2 {
					elabFail("inRe(s, regexName)")
				}
				s := env.elab(e.Args[0])
				id2, ok := e.Args[1].(*SIdent)
				if !ok {
					elabFail("inRe: regex name expected")
				}
				re, ok := ex.cs.Regex[id2.Name]
				if !ok {
					elabFail("unknown regex %s", id2.Name)
				}
				env.strs = true
				return Val{T: app("str.in_re", s.T, ex.expandRegex(re)), S: SBool}
			case "ite":
				a := args()
				if len(a) != 3 || !sameSort(a[1].S, a[2].S) {
					elabFail("ite arity/sorts")
				}
				return Val{T: ite(a[0].T, a[1].T, a[2].T), S: a[1].S, GoT: a[1].GoT}
			case "dom":
				a := args()
				if a[0].S.K != KMap {
					elabFail("dom on %s", a[0].S)
				}
				return Val{T: app("m-dom", a[0].T), S: SetOf(a[0].S.Key)}
			case "add":
				a := args()
				return Val{T: app("store", a[0].T, a[1].T, "true"), S: a[0].S}
			case "remove":
				a := args()
				return Val{T: app("store", a[0].T, a[1].T, "false"), S: a[0].S}
			case "put":
				a := args()
				if a[0].S.K != KMap {
					elabFail("put on %s", a[0].S)
				}
				return mapStore(a[0], a[1].T, a[2].T)
			case "del":
				a := args()
				if a[0].S.K != KMap {
					elabFail("del on %s", a[0].S)
				}
				return mapDelete(a[0], a[1].T)
			case "isNilSlice":
				a := args()
				return Val{T: app("s-nil", a[0].T), S: SBool}
			case "typeOf":
				a := args()
				ex.declare("(declare-fun typeOf (Ref) Int)")
				return Val{T: app("typeOf", a[0].T), S: SInt}
			case "implements":
				// implements(typeOf(x), typeId(I)): the predicate behind the interface type assertion x.(I)
				a := args()
				if len(a) != 2 || a[0].S.K != KInt || a[1].S.K != KInt {
					elabFail("implements(typeOf(x), typeId(I))")
				}
				ex.declare("(declare-fun implements (Int Int) Bool)")
				return Val{T: app("implements", a[0].T, a[1].T), S: SBool}
			case "typeId":
				// typeId(TypeName): the tag of a Go type
				if len(e.Args) != 1 {
					elabFail("typeId(T)")
				}
				name := exprString(e.Args[0])
				if l, ok := e.Args[0].(*SLit); ok {
					name = l.Val
				}
				isPtr := strings.HasPrefix(name, "*")
				name = strings.TrimPrefix(name, "*")
				t := ex.lookupGoType(env.pkg, name)
				if t != nil && isPtr {
					t = types.NewPointer(t)
				}
				if t == nil {
					elabFail("typeId: unknown type %s", name)
				}
				return Val{T: ex.typeTag(t), S: SInt}
			case "cast":
				// cast(T, x): x (a reference) viewed at Go type T
				name := e.Args[0].(*SLit).Val
				isPtr := strings.HasPrefix(name, "*")
				t := ex.lookupGoType(env.pkg, strings.TrimPrefix(name, "*"))
				if t == nil {
					elabFail("cast: unknown type %s", name)
				}
				if isPtr {
					t = types.NewPointer(t)
				}
				v := env.elab(e.Args[1])
				if v.S.K != KRef {
					elabFail("cast: the argument must be an interface/reference value")
				}
				if ts := ex.sortOf(t); ts.K != KRef {
					// a value type stored in an interface: the same unboxing term a type assertion uses
					unbox := "unbox_" + sanitize(ts.Name)
					ex.declare("(declare-fun " + unbox + " (Ref) " + ts.Name + ")")
					if ts.K == KString {
						env.strs = true
					}
					return Val{T: app(unbox, v.T), S: ts, GoT: t}
				}
				v.GoT = t
				return v
			case "zero":
				// zero(e): the zero value of e's type (e.g. the dropped key of a generic helper)
				a := args()
				if len(a) != 1 {
					elabFail("zero(e)")
				}
				return Val{T: zeroOf(a[0].S), S: a[0].S, GoT: a[0].GoT}
			case "bstr":
				// bstr(b): the string spelled by the bytes of the []byte value b
				a := args()
				if len(a) != 1 || a[0].S.K != KSlice {
					elabFail("bstr([]byte)")
				}
				env.strs = true
				return Val{T: ex.bstr(a[0]), S: SString}
			case "allocated":
				// allocated(x): the reference x denotes an object that exists in the current state
				a := args()
				if env.cur == nil || env.cur.alloc == "" {
					elabFail("allocated: no state")
				}
				return Val{T: app("<=", a[0].T, env.cur.alloc), S: SBool}
			case "deref":
				// deref(p): *p for a pointer to a basic / named non-struct type (the heap component is chosen
				// from the Go type of p); pointers to structs are read field by field (p.f)
				a := args()
				if env.cur == nil {
					elabFail("deref: no heap")
				}
				if len(a) != 1 || a[0].GoT == nil {
					elabFail("deref(p): the Go type of p is not known here")
				}
				pt, ok := under(a[0].GoT).(*types.Pointer)
				if !ok {
					elabFail("deref(p): %s is not a pointer", a[0].GoT)
				}
				if _, isStruct := under(pt.Elem()).(*types.Struct); isStruct {
					elabFail("deref(p): pointer to struct, read its fields instead")
				}
				es := ex.sortOf(pt.Elem())
				if es.K == KString {
					env.strs = true
				}
				return Val{T: app("select", ex.heapGet(env.cur, "ptr."+sanitize(es.Name), es), a[0].T), S: es, GoT: pt.Elem()}
			case "derefRef":
				a := args()
				if env.cur == nil {
					elabFail("derefRef: no heap")
				}
				return Val{T: app("select", ex.heapGet(env.cur, "ptr.Ref", SRef), a[0].T), S: SRef}
			case "errIs":
				a := args()
				ex.declare("(declare-fun errIs (Ref Ref) Bool)")
				return Val{T: app("errIs", a[0].T, a[1].T), S: SBool}
			case "first", "second", "third":
				if len(e.Args) != 1 {
					elabFail("%s(call)", id.Name)
				}
				idx := map[string]int{"first": 0, "second": 1, "third": 2}[id.Name]
				vals := env.elabCallMulti(e.Args[0])
				if idx >= len(vals) {
					elabFail("%s: call has %d results", id.Name, len(vals))
				}
				return vals[idx]
			case "min":
				a := args()
				return Val{T: ite(app("<=", a[0].T, a[1].T), a[0].T, a[1].T), S: SInt}
			case "max":
				a := args()
				return Val{T: ite(app(">=", a[0].T, a[1].T), a[0].T, a[1].T), S: SInt}
			}
			if sf, ok := ex.cs.SpecFuncs[id.Name]; ok {
				return ex.specFuncApp(env, sf, args())
			}
			// Go function of the current package (must be pure-contracted)
			if env.pkg != nil {
				if obj, ok := env.pkg.Scope().Lookup(id.Name).(*types.Func); ok {
					return ex.pureApp(env, obj, nil, args(), exprString(e))
				}
			}
			// a pure-contracted function of an imported package, by unqualified name
			if env.pkg != nil {
				for _, imp := range env.pkg.Imports() {
					if obj, ok := imp.Scope().Lookup(id.Name).(*types.Func); ok {
						if fc := ex.cs.Funcs[funcKey(obj)]; fc != nil && fc.Pure {
							return ex.pureApp(env, obj, nil, args(), exprString(e))
						}
					}
				}
			}
			for _, fc := range ex.cs.Funcs {
				if fc.Pure && strings.HasSuffix(fc.Key, "."+id.Name) && strings.Count(fc.Key[strings.LastIndex(fc.Key, "/")+1:], ".") == 1 {
					if p := ex.ld.byPath[fc.PkgPath]; p != nil {
						if obj, ok := p.Scope().Lookup(id.Name).(*types.Func); ok {
							return ex.pureApp(env, obj, nil, args(), exprString(e))
						}
					}
				}
			}
			elabFail("unknown function %s", id.Name)
		}
	}
	if sel, ok := e.Fun.(*SSel); ok {
		// pkg.Func(...) ?
		if id, ok := sel.X.(*SIdent); ok {
			if _, bound := env.names[id.Name]; !bound && !(env.cur != nil && env.pos != token.NoPos && ex.hasLocalByName(env.cur, id.Name, env.pos)) {
				if p := ex.importedPkg(env.pkg, id.Name); p != nil {
					obj, ok := ex.ld.lookupFunc(p, sel.Name)
					if !ok {
						elabFail("%s.%s is not a function", id.Name, sel.Name)
					}
					return ex.pureApp(env, obj, nil, args(), exprString(e))
				}
			}
		}
		// method call on a value
		recv := env.elab(sel.X)
		if recv.GoT == nil {
			elabFail("method call %s on value of unknown Go type", exprString(e))
		}
		obj, _, _ := types.LookupFieldOrMethod(recv.GoT, true, env.pkg, sel.Name)
		if fld, isVar := obj.(*types.Var); isVar {
			// a function-typed field declared as a pure callback of the function under verification
			if sig, isSig := under(fld.Type()).(*types.Signature); isSig && ex.pureCallbackField(fld.Name()) {
				fv := ex.fieldGet(env.cur, recv, sel.Name)
				return ex.callbackApp(fv, fld.Name(), sig, args())[0]
			}
		}
		fn, ok := obj.(*types.Func)
		if !ok {
			// field of func type? not supported
			elabFail("no method %s on %s", sel.Name, recv.GoT)
		}
		return ex.pureApp(env, fn, &recv, args(), exprString(e))
	}
	elabFail("cannot call %s", exprString(e.Fun))
	return Val{}
}

// expandRegex replaces {name} references to other named regexes.
func (ex *Exec) expandRegex(re string) string {
	for i := 0; i < 10 && strings.Contains(re, "{"); i++ {
		for name, def := range ex.cs.Regex {
			re = strings.ReplaceAll(re, "{"+name+"}", def)
		}
	}
	return re
}

// specFuncApp declares the spec function (opaque or revealed) and applies it.
func (ex *Exec) specFuncApp(env *Env, sf *SpecFunc, args []Val) Val {
	if len(args) != len(sf.Params) {
		elabFail("spec func %s: arity %d, got %d", sf.Name, len(sf.Params), len(args))
	}
	pkg := ex.typesPkgFor(sf.PkgPath, env.pkg)
	rs, rgt := ex.sortOfSType(sf.Result, pkg)
	name := "sf_" + sf.Name
	if !ex.declared["specfunc:"+sf.Name] {
		ex.declared["specfunc:"+sf.Name] = true
		var ps, pn []string
		n := &Env{ex: ex, names: map[string]Val{}, pkg: pkg}
		for _, p := range sf.Params {
			s, gt := ex.sortOfSType(p.T, pkg)
			ps = append(ps, s.Name)
			pn = append(pn, "("+"a_"+p.Name+" "+s.Name+")")
			n.names[p.Name] = Val{T: "a_" + p.Name, S: s, GoT: gt}
		}
		if (ex.reveal[sf.Name] || sf.Transparent) && (sf.Def != nil || sf.RawDef != "") {
			var body string
			if sf.RawDef != "" {
				body = sf.RawDef
				for _, p := range sf.Params {
					body = strings.ReplaceAll(body, "{"+p.Name+"}", "a_"+p.Name)
				}
				body = ex.expandRegex(body)
			} else {
				if sf.Rec {
					// declare first so that the body may refer to it
					ex.declared["specfunc:"+sf.Name] = true
				}
				b := n.elab(sf.Def)
				if !sameSort(b.S, rs) {
					elabFail("spec func %s: body sort %s, declared %s", sf.Name, b.S, rs)
				}
				body = b.T
				env.quant = env.quant || n.quant
				env.strs = env.strs || n.strs
			}
			kw := "define-fun"
			if sf.Rec {
				kw = "define-fun-rec"
			}
			ex.declare(fmt.Sprintf("(%s %s (%s) %s %s)", kw, name, strings.Join(pn, " "), rs.Name, body))
			ex.specUsesStr[sf.Name] = n.strs || strings.Contains(body, "str.") || strings.Contains(body, "re.")
			ex.specUsesQuant[sf.Name] = n.quant || strings.Contains(body, "forall") || strings.Contains(body, "exists") || sf.Rec
		} else {
			ex.declare(fmt.Sprintf("(declare-fun %s (%s) %s)", name, strings.Join(ps, " "), rs.Name))
		}
	}
	if ex.specUsesStr[sf.Name] {
		env.strs = true
	}
	if ex.specUsesQuant[sf.Name] {
		env.quant = true
	}
	var ts []string
	for i, a := range args {
		ps, _ := ex.sortOfSType(sf.Params[i].T, pkg)
		if !sameSort(ps, a.S) {
			elabFail("spec func %s: argument %d has sort %s, want %s", sf.Name, i, a.S, ps)
		}
		ts = append(ts, a.T)
	}
	return Val{T: app(name, ts...), S: rs, GoT: rgt}
}

// pureApp applies a Go function/method with a `pure` contract as an uninterpreted function.
func (ex *Exec) pureApp(env *Env, fn *types.Func, recv *Val, args []Val, what string) Val {
	key := funcKey(fn)
	// same precedence as at call sites: a contract attached to the static receiver type wins
	if recv != nil && recv.GoT != nil {
		if n := namedOf(recv.GoT); n != nil && n.Obj().Pkg() != nil {
			if sk := n.Obj().Pkg().Path() + "." + n.Obj().Name() + "." + fn.Name(); ex.cs.Funcs[sk] != nil {
				key = sk
			}
		}
	}
	if sig := fn.Type().(*types.Signature); sig.Variadic() {
		n := sig.Params().Len()
		last := sig.Params().At(n - 1).Type()
		ls := ex.sortOf(last)
		if !(len(args) == n && sameSort(args[n-1].S, ls)) && len(args) >= n-1 {
			arr := fmt.Sprintf("((as const (Array Int %s)) %s)", ls.Elem.Name, zeroOf(ls.Elem))
			for j := n - 1; j < len(args); j++ {
				arr = app("store", arr, intLit(int64(j-(n-1))), args[j].T)
			}
			cnt := len(args) - (n - 1)
			isNil := "false"
			if cnt == 0 {
				isNil = "true"
			}
			packed := Val{T: mkSlice(ls, arr, intLit(int64(cnt)), isNil), S: ls, GoT: last}
			args = append(append([]Val(nil), args[:n-1]...), packed)
		}
	}
	fc := ex.cs.Funcs[key]
	if fc == nil || !fc.Pure {
		elabFail("%s: %s has no pure contract and cannot be used in specs", what, key)
	}
	vals := ex.pureCall(env.cur, fc, fn, recv, args)
	if len(vals) == 0 {
		elabFail("%s: pure function without result", what)
	}
	return vals[0]
}

func (ex *Exec) valOfPkgObject(st *State, obj types.Object) (Val, bool) {
	switch o := obj.(type) {
	case *types.Const:
		return ex.constVal(o.Val(), o.Type()), true
	case *types.Var:
		if o.IsField() {
			return Val{}, false
		}
		// package-level variable: treated as immutable unless havocked (errors sentinel etc.)
		return ex.globalVar(st, o), true
	case *types.Nil:
		return Val{T: "0", S: SRef}, true
	case *types.Func:
		// a named function used as a value (function references of distinct functions are made
		// distinct where a `dispatch` clause lists them)
		return ex.funcRef(o), true
	}
	return Val{}, false
}

func (ex *Exec) constVal(cv constant.Value, t types.Type) Val {
	s := ex.sortOf(t)
	switch cv.Kind() {
	case constant.Bool:
		if constant.BoolVal(cv) {
			return Val{T: "true", S: SBool, GoT: t}
		}
		return Val{T: "false", S: SBool, GoT: t}
	case constant.String:
		return Val{T: smtString(constant.StringVal(cv)), S: SString, GoT: t}
	case constant.Int:
		if s.K == KReal {
			f, _ := constant.Float64Val(cv)
			return Val{T: fmt.Sprintf("%f", f), S: SReal, GoT: t}
		}
		n, ok := constant.Int64Val(cv)
		if !ok {
			// large unsigned
			return Val{T: cv.ExactString(), S: SInt, GoT: t}
		}
		return Val{T: intLit(n), S: SInt, GoT: t}
	case constant.Float:
		f, _ := constant.Float64Val(cv)
		return Val{T: fmt.Sprintf("%f", f), S: SReal, GoT: t}
	}
	elabFail("unsupported constant %v", cv)
	return Val{}
}

// sortOfSType resolves spec type syntax to a Sort (and Go type where it names one).
func (ex *Exec) sortOfSType(t *SType, pkg *types.Package) (*Sort, types.Type) {
	switch t.Kind {
	case "slice":
		e, gt := ex.sortOfSType(t.Elem, pkg)
		var g types.Type
		if gt != nil {
			g = types.NewSlice(gt)
		}
		return SliceOf(e), g
	case "map":
		k, kg := ex.sortOfSType(t.Key, pkg)
		v, vg := ex.sortOfSType(t.Elem, pkg)
		var g types.Type
		if kg != nil && vg != nil {
			g = types.NewMap(kg, vg)
		}
		return MapOf(k, v), g
	case "set":
		e, _ := ex.sortOfSType(t.Elem, pkg)
		return SetOf(e), nil
	case "ptr":
		_, gt := ex.sortOfSType(t.Elem, pkg)
		var g types.Type
		if gt != nil {
			g = types.NewPointer(gt)
		}
		return SRef, g
	}
	switch t.Name {
	case "bool":
		return SBool, types.Typ[types.Bool]
	case "int":
		return SInt, types.Typ[types.Int]
	case "string":
		return SString, types.Typ[types.String]
	case "ref", "any":
		return SRef, nil
	case "error":
		return SRef, types.Universe.Lookup("error").Type()
	}
	if tt, ok := ex.tparams[t.Name]; ok {
		return ex.sortOf(tt), tt
	}
	gt := ex.lookupGoType(pkg, t.Name)
	if gt == nil {
		elabFail("unknown type %s", t.Name)
	}
	return ex.sortOf(gt), gt
}

// lookupGoType resolves "Name" or "pkg.Name" relative to pkg.
func (ex *Exec) lookupGoType(pkg *types.Package, name string) types.Type {
	if strings.HasPrefix(name, "[]") {
		if t := ex.lookupGoType(pkg, name[2:]); t != nil {
			return types.NewSlice(t)
		}
		return nil
	}
	if strings.HasPrefix(name, "*") {
		if t := ex.lookupGoType(pkg, name[1:]); t != nil {
			return types.NewPointer(t)
		}
		return nil
	}
	if i := strings.Index(name, "["); i > 0 && strings.HasSuffix(name, "]") {
		// instantiated generic: Name[Arg,...] (arguments split at top-level commas)
		g, _ := ex.lookupGoType(pkg, name[:i]).(*types.Named)
		if g == nil || g.TypeParams().Len() == 0 {
			return nil
		}
		var targs []types.Type
		depth, start := 0, i+1
		inner := name[:len(name)-1]
		for j := i + 1; j <= len(inner); j++ {
			if j == len(inner) || (inner[j] == ',' && depth == 0) {
				a := ex.lookupGoType(pkg, strings.TrimSpace(inner[start:j]))
				if a == nil {
					return nil
				}
				targs = append(targs, a)
				start = j + 1
				continue
			}
			switch inner[j] {
			case '[':
				depth++
			case ']':
				depth--
			}
		}
		if len(targs) != g.TypeParams().Len() {
			return nil
		}
		inst, err := types.Instantiate(nil, g, targs, false)
		if err != nil {
			return nil
		}
		return inst
	}
	if !strings.Contains(name, ".") && ex.fn != nil {
		// a type parameter of the (generic) function under verification or of its receiver
		if sig, ok := ex.fn.Type().(*types.Signature); ok {
			for _, tps := range []*types.TypeParamList{sig.TypeParams(), sig.RecvTypeParams()} {
				for k := 0; tps != nil && k < tps.Len(); k++ {
					if tps.At(k).Obj().Name() == name {
						return tps.At(k)
					}
				}
			}
		}
	}
	if i := strings.LastIndex(name, "."); i >= 0 {
		p := ex.importedPkg(pkg, name[:i])
		if p == nil {
			return nil
		}
		if tn, ok := p.Scope().Lookup(name[i+1:]).(*types.TypeName); ok {
			return tn.Type()
		}
		return nil
	}
	if pkg != nil {
		if tn, ok := pkg.Scope().Lookup(name).(*types.TypeName); ok {
			return tn.Type()
		}
	}
	// predeclared types (string, int, bool, error, ...)
	if tn, ok := types.Universe.Lookup(name).(*types.TypeName); ok {
		return tn.Type()
	}
	return nil
}

// importedPkg finds a package by name or path among pkg's imports (transitively known packages).
func (ex *Exec) importedPkg(pkg *types.Package, name string) *types.Package {
	if pkg != nil {
		if pkg.Name() == name || pkg.Path() == name {
			return pkg
		}
		for _, p := range pkg.Imports() {
			if p.Name() == name || p.Path() == name {
				return p
			}
		}
	}
	if p, ok := ex.ld.byPath[name]; ok {
		return p
	}
	from := ""
	if pkg != nil {
		from = pkg.Path()
	}
	return ex.ld.resolveShort(name, from)
}

func (ex *Exec) typesPkgFor(path string, dflt *types.Package) *types.Package {
	if path == "" {
		return dflt
	}
	if p, ok := ex.ld.byPath[path]; ok {
		return p
	}
	return dflt
}

// elabCallMulti elaborates a call to a pure function and returns all its results.
func (env *Env) elabCallMulti(e SExpr) []Val {
	ex := env.ex
	c, ok := e.(*SCall)
	if !ok {
		elabFail("call expected in %s", exprString(e))
	}
	var args []Val
	for _, a := range c.Args {
		args = append(args, env.elab(a))
	}
	switch f := c.Fun.(type) {
	case *SIdent:
		for _, n := range env.pureCallbacks {
			if n == f.Name {
				fv := env.elab(f)
				if fv.GoT != nil {
					if sig, isSig := under(fv.GoT).(*types.Signature); isSig {
						return ex.callbackApp(fv, f.Name, sig, args)
					}
				}
			}
		}
		var fn *types.Func
		if env.pkg != nil {
			fn, _ = env.pkg.Scope().Lookup(f.Name).(*types.Func)
			if fn == nil {
				for _, imp := range env.pkg.Imports() {
					if o, ok := imp.Scope().Lookup(f.Name).(*types.Func); ok {
						if fc := ex.cs.Funcs[funcKey(o)]; fc != nil && fc.Pure {
							fn = o
						}
					}
				}
			}
		}
		if fn == nil {
			elabFail("unknown function %s", f.Name)
		}
		fc := ex.cs.Funcs[funcKey(fn)]
		if fc == nil || !fc.Pure {
			elabFail("%s has no pure contract", f.Name)
		}
		return ex.pureCall(env.cur, fc, fn, nil, args)
	case *SSel:
		if id, ok := f.X.(*SIdent); ok {
			if _, bound := env.names[id.Name]; !bound {
				if p := ex.importedPkg(env.pkg, id.Name); p != nil {
					fn, ok := ex.ld.lookupFunc(p, f.Name)
					if !ok {
						elabFail("%s.%s is not a function", id.Name, f.Name)
					}
					fc := ex.cs.Funcs[funcKey(fn)]
					if fc == nil || !fc.Pure {
						elabFail("%s.%s has no pure contract", id.Name, f.Name)
					}
					return ex.pureCall(env.cur, fc, fn, nil, args)
				}
			}
		}
		recv := env.elab(f.X)
		if recv.GoT == nil {
			elabFail("method call on value of unknown Go type")
		}
		obj, _, _ := types.LookupFieldOrMethod(recv.GoT, true, env.pkg, f.Name)
		if fld, isVar := obj.(*types.Var); isVar {
			if sig, isSig := under(fld.Type()).(*types.Signature); isSig && ex.pureCallbackField(fld.Name()) {
				fv := ex.fieldGet(env.cur, recv, f.Name)
				return ex.callbackApp(fv, fld.Name(), sig, args)
			}
		}
		fn, ok := obj.(*types.Func)
		if !ok {
			elabFail("no method %s on %s", f.Name, recv.GoT)
		}
		fc := ex.cs.Funcs[funcKey(fn)]
		if n := namedOf(recv.GoT); n != nil && n.Obj().Pkg() != nil {
			if sfc := ex.cs.Funcs[n.Obj().Pkg().Path()+"."+n.Obj().Name()+"."+fn.Name()]; sfc != nil {
				fc = sfc
			}
		}
		if fc == nil || !fc.Pure {
			elabFail("%s has no pure contract", funcKey(fn))
		}
		return ex.pureCall(env.cur, fc, fn, &recv, args)
	}
	elabFail("cannot call %s", exprString(c.Fun))
	return nil
}

func (ex *Exec) pureCallbackField(name string) bool {
	if ex.fc == nil {
		return false
	}
	for _, n := range ex.fc.PureCallbacks {
		if n == name {
			return true
		}
	}
	return false
}

// callbackApp models a call through a function-typed field declared `callback pure`:
// an uninterpreted function of the function value and the arguments.
func (ex *Exec) callbackApp(fv Val, name string, sig *types.Signature, args []Val) []Val {
	sorts := []string{"Ref"}
	terms := []string{fv.T}
	for _, a := range args {
		sorts = append(sorts, a.S.Name)
		terms = append(terms, a.T)
	}
	var out []Val
	for i := 0; i < sig.Results().Len(); i++ {
		rt := sig.Results().At(i).Type()
		rs := ex.sortOf(rt)
		// one symbol per signature: the function VALUE is the first argument, so the same value gives the same
		// function whichever parameter or field it was passed through
		fn := fmt.Sprintf("cb_%d_%s_%s", i, sanitize(strings.Join(sorts[1:], "_")), sanitize(rs.Name))
		ex.declare(fmt.Sprintf("(declare-fun %s (%s) %s)", fn, strings.Join(sorts, " "), rs.Name))
		out = append(out, Val{T: app(fn, terms...), S: rs, GoT: rt})
	}
	ex.assumptions["function-typed field "+name+" is modelled as a deterministic function of its arguments (callback pure)"] = true
	return out
}
