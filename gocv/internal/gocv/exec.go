package gocv

import (
	"bytes"
	"fmt"
	"go/ast"
	"go/printer"
	"go/token"
	"go/types"
	"strings"

	"golang.org/x/tools/go/packages"
)

type Closure struct {
	Lit *ast.FuncLit
	Fn  *ast.FuncDecl // for inlined functions
	Pkg *packages.Package
}

type deferred func(st *State, k func(*State))

type State struct {
	vars      map[types.Object]Val
	heap      map[string]string
	heapEpoch int
	ghost     map[string]string
	pc        []string
	defers    [][]deferred
	alloc     string
	dead      bool
	extra     map[string]Val // ghost per-loop values ($i, $visited, $yielded)
	compEpoch map[string]int
	heapDirty bool // some unknown call havocked the whole heap
	pureInst  map[string]bool
	entries   map[int]*State // state at entry of each enclosing loop (by loop ordinal), for $entry(e)
	// alias links of inner maps: local map variable -> the outer map element it denotes
	aliasLinks map[types.Object]*aliasLink
}

type aliasLink struct {
	base ast.Expr // map-typed lvalue E
	text string   // printed E
	key  Val      // value of k when the link was made
}

func (st *State) clone() *State {
	n := &State{
		vars:      make(map[types.Object]Val, len(st.vars)),
		heap:      make(map[string]string, len(st.heap)),
		heapEpoch: st.heapEpoch,
		ghost:     make(map[string]string, len(st.ghost)),
		pc:        append([]string(nil), st.pc...),
		alloc:     st.alloc,
		extra:     make(map[string]Val, len(st.extra)),
		compEpoch: make(map[string]int, len(st.compEpoch)),
		heapDirty: st.heapDirty,
		pureInst:  make(map[string]bool, len(st.pureInst)),
	}
	for k, v := range st.pureInst {
		n.pureInst[k] = v
	}
	if len(st.entries) > 0 {
		n.entries = make(map[int]*State, len(st.entries))
		for k, v := range st.entries {
			n.entries[k] = v
		}
	}
	if len(st.aliasLinks) > 0 {
		n.aliasLinks = make(map[types.Object]*aliasLink, len(st.aliasLinks))
		for k, v := range st.aliasLinks {
			n.aliasLinks[k] = v
		}
	}
	for k, v := range st.compEpoch {
		n.compEpoch[k] = v
	}
	for k, v := range st.vars {
		n.vars[k] = v
	}
	for k, v := range st.heap {
		n.heap[k] = v
	}
	for k, v := range st.ghost {
		n.ghost[k] = v
	}
	for k, v := range st.extra {
		n.extra[k] = v
	}
	for _, f := range st.defers {
		n.defers = append(n.defers, append([]deferred(nil), f...))
	}
	return n
}

func (st *State) setEntry(ord int, e *State) {
	if st.entries == nil {
		st.entries = map[int]*State{}
	}
	st.entries[ord] = e
}

func (st *State) assume(t string) {
	if t == "true" {
		return
	}
	if t == "false" {
		st.dead = true
	}
	nt := not(t)
	for _, p := range st.pc {
		if p == nt {
			st.dead = true
		}
	}
	st.pc = append(st.pc, t)
}

type oofError struct {
	pos  token.Pos
	what string
}

type ctl struct {
	brk  map[string]func(*State)
	cont map[string]func(*State)
	ret  func(*State, []Val)
	// result variables of the enclosing function/closure (nil entries for unnamed)
	results []*types.Var
	label   string // pending label for the next loop/switch
}

func (c *ctl) with() *ctl {
	n := &ctl{brk: map[string]func(*State){}, cont: map[string]func(*State){}, ret: c.ret, results: c.results}
	for k, v := range c.brk {
		n.brk[k] = v
	}
	for k, v := range c.cont {
		n.cont[k] = v
	}
	return n
}

type Exec struct {
	ld   *Loader
	cs   *Contracts
	pkg  *packages.Package
	info *types.Info
	fn   *types.Func
	decl *ast.FuncDecl
	fc   *FuncContract

	declsList     []string
	declared      map[string]bool
	reveal        map[string]bool
	specUsesStr   map[string]bool
	specUsesQuant map[string]bool
	queries       []*Query
	nfresh        int
	paths         int
	maxPaths      int
	loopOrd       map[ast.Node]int
	cloOrd        map[*ast.FuncLit]int
	boxed         map[types.Object]bool
	axioms        []string
	name          string // short function name for obligations
	old           *State
	props         []string
	structSorts   map[string]*Sort
	typeTags      map[string]int
	inputs        []string
	fset          *token.FileSet
	assumptions   map[string]bool // notes collected for evidence
	inlineDepth   int
	heapComps     map[string]*Sort
	failures      []string // out-of-fragment and contract-mismatch messages
	steps         int
	maxSteps      int
	assertHit     map[int]bool
	ghostUpdHit   map[int]bool
	sortOrd       int // ordinal of sort.Slice calls (obligation names)
	nthCache      map[string]token.Pos
	skipHit       map[string]bool
	loopHit       map[int]bool
	cloHit        map[int]bool
	freshSliceVars map[*types.Var]bool
	escaped       map[*ast.FuncLit]bool
	uncontracted  map[string]bool
	pureAxiomDone map[string]bool
	closureOfVar  map[*types.Var]*ast.FuncLit
	// containerOf: slice-typed variables that share their backing array with a map element (`for k, v := range m`,
	// `v := m[k]`): an in-place change of v through a callee is written back to m[k]
	containerOf map[*types.Var]*containerSrc
	allLits       map[*ast.FuncLit]bool
	usedAxioms    map[string]bool
	intrinsics    map[string]bool
	cloVerified   map[*ast.FuncLit]bool
	cloContexts   map[string]bool
	pureDepth     int
	noLink        int
	reassigned    map[types.Object]bool
	freshPtrVars  map[*types.Var]bool
	freshStructVars map[*types.Var]bool
	aliasMapVars  map[*types.Var]bool // local map variables that may alias another map (read out of a map, field, or copied)
	tparams       map[string]types.Type // spec type names bound to type arguments (generic callees)
}

func newExec(ld *Loader, cs *Contracts, pkg *packages.Package) *Exec {
	return &Exec{
		ld: ld, cs: cs, pkg: pkg, info: pkg.TypesInfo, fset: pkg.Fset,
		declared: map[string]bool{}, reveal: map[string]bool{}, specUsesStr: map[string]bool{}, specUsesQuant: map[string]bool{},
		loopOrd: map[ast.Node]int{}, cloOrd: map[*ast.FuncLit]int{}, boxed: map[types.Object]bool{},
		heapComps: map[string]*Sort{}, structSorts: map[string]*Sort{}, typeTags: map[string]int{}, maxPaths: 20000, assumptions: map[string]bool{},
		maxSteps: 400000, assertHit: map[int]bool{}, nthCache: map[string]token.Pos{}, ghostUpdHit: map[int]bool{}, skipHit: map[string]bool{}, loopHit: map[int]bool{}, cloHit: map[int]bool{},
		freshSliceVars: map[*types.Var]bool{}, escaped: map[*ast.FuncLit]bool{}, uncontracted: map[string]bool{}, pureAxiomDone: map[string]bool{},
		containerOf: map[*types.Var]*containerSrc{}, closureOfVar: map[*types.Var]*ast.FuncLit{}, allLits: map[*ast.FuncLit]bool{}, usedAxioms: map[string]bool{}, intrinsics: map[string]bool{}, cloVerified: map[*ast.FuncLit]bool{}, reassigned: map[types.Object]bool{}, freshPtrVars: map[*types.Var]bool{}, freshStructVars: map[*types.Var]bool{}, aliasMapVars: map[*types.Var]bool{},
	}
}

func (ex *Exec) declare(d string) {
	if ex.declared[d] {
		return
	}
	ex.declared[d] = true
	ex.declsList = append(ex.declsList, d)
}

func (ex *Exec) fresh(hint string, s *Sort) string {
	ex.nfresh++
	name := fmt.Sprintf("%s!%d", sanitize(hint), ex.nfresh)
	name = "|" + name + "|"
	ex.declare(fmt.Sprintf("(declare-const %s %s)", name, s.Name))
	return name
}

func (ex *Exec) freshVal(hint string, t types.Type) Val {
	s := ex.sortOf(t)
	return Val{T: ex.fresh(hint, s), S: s, GoT: t}
}

// wf returns well-formedness facts about a freshly introduced symbolic value.
func (ex *Exec) wf(v Val) string {
	switch v.S.K {
	case KSlice:
		return and(app(">=", app("s-len", v.T), "0"), implies(app("s-nil", v.T), eq(app("s-len", v.T), "0")))
	case KMap:
		return and(app(">=", app("m-size", v.T), "0"),
			app("=", eq(app("m-size", v.T), "0"), eq(app("m-dom", v.T), zeroOf(SetOf(v.S.Key)))),
			implies(app("m-nil", v.T), eq(app("m-size", v.T), "0")))
	case KInt:
		if v.GoT != nil {
			if b, ok := under(v.GoT).(*types.Basic); ok && b.Info()&types.IsUnsigned != 0 {
				return app(">=", v.T, "0")
			}
		}
	}
	return "true"
}

func (ex *Exec) freshWf(st *State, hint string, t types.Type) Val {
	v := ex.freshVal(hint, t)
	st.assume(ex.wf(v))
	return v
}

func sanitize(s string) string {
	var b strings.Builder
	for _, r := range s {
		if r == '_' || r == '.' || r == '$' || (r >= 'a' && r <= 'z') || (r >= 'A' && r <= 'Z') || (r >= '0' && r <= '9') {
			b.WriteRune(r)
		} else {
			b.WriteByte('_')
		}
	}
	return b.String()
}

func (ex *Exec) oof(pos token.Pos, format string, a ...any) {
	panic(&oofError{pos, fmt.Sprintf(format, a...)})
}

func (ex *Exec) posStr(p token.Pos) string {
	if !p.IsValid() {
		return ""
	}
	pp := ex.fset.Position(p)
	return fmt.Sprintf("%s:%d", pp.Filename, pp.Line)
}

// ---------- sorts from Go types ----------

func (ex *Exec) sortOf(t types.Type) *Sort {
	switch u := t.(type) {
	case *types.Alias:
		return ex.sortOf(types.Unalias(u))
	case *types.TypeParam:
		if c := coreOfTypeParam(u); c != nil {
			return ex.sortOf(c)
		}
		return SRef
	}
	switch u := under(t).(type) {
	case *types.Basic:
		switch {
		case u.Info()&types.IsBoolean != 0:
			return SBool
		case u.Info()&types.IsInteger != 0:
			return SInt
		case u.Info()&types.IsString != 0:
			return SString
		case u.Info()&types.IsFloat != 0:
			return SReal
		case u.Kind() == types.UntypedNil, u.Kind() == types.UnsafePointer:
			return SRef
		}
	case *types.Slice:
		return SliceOf(ex.sortOf(u.Elem()))
	case *types.Array:
		return SliceOf(ex.sortOf(u.Elem()))
	case *types.Map:
		return MapOf(ex.sortOf(u.Key()), ex.sortOf(u.Elem()))
	case *types.Pointer, *types.Interface, *types.Signature, *types.Chan:
		return SRef
	case *types.Struct:
		return ex.structSort(t, u)
	case *types.Tuple:
		if u.Len() == 1 {
			return ex.sortOf(u.At(0).Type())
		}
	}
	ex.oof(token.NoPos, "unsupported type %s", t)
	return nil
}

func (ex *Exec) structSort(t types.Type, u *types.Struct) *Sort {
	name := "S_" + sanitize(types.TypeString(t, func(p *types.Package) string { return p.Name() }))
	if len(name) > 80 {
		name = fmt.Sprintf("%s_%d", name[:60], len(ex.structSorts))
	}
	if s, ok := ex.structSorts[types.TypeString(t, nil)]; ok {
		return s
	}
	s := &Sort{K: KStruct, Name: name, GoName: types.TypeString(t, nil)}
	ex.structSorts[types.TypeString(t, nil)] = s
	var fs []string
	for i := 0; i < u.NumFields(); i++ {
		f := u.Field(i)
		fsort := ex.sortOf(f.Type())
		s.Fields = append(s.Fields, Field{f.Name(), fsort})
		fs = append(fs, fmt.Sprintf("(%s_%s %s)", name, fieldAcc(f, i), fsort.Name))
	}
	ex.declare(fmt.Sprintf("(declare-datatypes ((%s 0)) (((mk_%s %s))))", name, name, strings.Join(fs, " ")))
	return s
}

func (ex *Exec) typeTag(t types.Type) string {
	k := types.TypeString(t, nil)
	if n, ok := ex.typeTags[k]; ok {
		return fmt.Sprint(n)
	}
	n := len(ex.typeTags) + 1
	ex.typeTags[k] = n
	return fmt.Sprint(n)
}

// ---------- heap, ghost, globals ----------

func (ex *Exec) heapGet(st *State, comp string, elem *Sort) string {
	if t, ok := st.heap[comp]; ok {
		return t
	}
	ep := st.heapEpoch
	if e, ok := st.compEpoch[comp]; ok && e > ep {
		ep = e
	}
	for pre, e := range st.compEpoch {
		if strings.HasSuffix(pre, ".*") && strings.HasPrefix(comp, strings.TrimSuffix(pre, "*")) && e > ep {
			ep = e
		}
	}
	name := fmt.Sprintf("|H_%s_e%d|", comp, ep)
	ex.declare(fmt.Sprintf("(declare-const %s (Array Ref %s))", name, elem.Name))
	st.heap[comp] = name
	ex.heapComps[comp] = elem
	return name
}

func (ex *Exec) heapHavocAll(st *State) {
	ex.nfresh++
	st.heapEpoch = ex.nfresh
	st.heap = map[string]string{}
	st.heapDirty = true
	ex.advanceAlloc(st)
}

// advanceAlloc: code that is not followed statement by statement (a callee, earlier loop iterations)
// may have allocated objects: the allocation counter is some value >= the known one.
func (ex *Exec) advanceAlloc(st *State) {
	if st.alloc != "" {
		na := ex.fresh("alloc", SInt)
		st.assume(app(">=", na, st.alloc))
		st.alloc = na
	}
}

func (ex *Exec) heapHavocComp(st *State, comp string) {
	ex.nfresh++
	st.compEpoch[comp] = ex.nfresh
	if strings.HasSuffix(comp, ".*") {
		// every field component of the struct type
		pre := strings.TrimSuffix(comp, "*")
		for c := range st.heap {
			if strings.HasPrefix(c, pre) {
				delete(st.heap, c)
			}
		}
		return
	}
	delete(st.heap, comp)
}

func (ex *Exec) ghostGet(st *State, g *GhostVar) Val {
	s, gt := ex.sortOfSType(g.T, ex.pkg.Types)
	if t, ok := st.ghost[g.Name]; ok {
		return Val{T: t, S: s, GoT: gt}
	}
	name := "|g_" + g.Name + "_0|"
	ex.declare(fmt.Sprintf("(declare-const %s %s)", name, s.Name))
	st.ghost[g.Name] = name
	return Val{T: name, S: s, GoT: gt}
}

// ghostHavocIfKnown: like ghostHavoc, but a ghost variable whose type names a package this run does not
// know (it belongs to another property's packages and cannot be mentioned here) is skipped.
func (ex *Exec) ghostHavocIfKnown(st *State, name string) {
	defer func() {
		if r := recover(); r != nil {
			if _, ok := r.(*elabError); ok {
				return
			}
			if _, ok := r.(*oofError); ok {
				return
			}
			panic(r)
		}
	}()
	ex.ghostHavoc(st, name)
}

func (ex *Exec) ghostHavoc(st *State, name string) {
	g, ok := ex.cs.Ghost[name]
	if !ok {
		ex.oof(token.NoPos, "modifies unknown ghost var %s", name)
	}
	s, _ := ex.sortOfSType(g.T, ex.pkg.Types)
	st.ghost[name] = ex.fresh("g_"+name, s)
}

// globalVar: package-level variables are modelled as fixed unknown values
// (immutable during the function) — error sentinels, tables.
func (ex *Exec) globalVar(st *State, v *types.Var) Val {
	s := ex.sortOf(v.Type())
	name := "|G_" + sanitize(v.Pkg().Name()+"."+v.Name()) + "|"
	ex.declare(fmt.Sprintf("(declare-const %s %s)", name, s.Name))
	val := Val{T: name, S: s, GoT: v.Type()}
	if s.K == KRef && isErrorType(v.Type()) {
		// sentinel errors are non-nil
		ex.declare(fmt.Sprintf("(assert (not (= %s 0)))", name))
	}
	ex.assumptions["package-level variables are treated as immutable during a call"] = true
	return val
}

func isErrorType(t types.Type) bool {
	return types.Identical(t, types.Universe.Lookup("error").Type())
}

// fieldGet reads x.name where x is a struct value or pointer to struct.
func (ex *Exec) fieldGet(st *State, x Val, name string) Val {
	if x.GoT == nil {
		elabFail("field %s of value with unknown Go type", name)
	}
	obj, index, _ := types.LookupFieldOrMethod(x.GoT, true, nil, name)
	if obj == nil {
		// unexported field from another package: retry with its package
		if n := namedOf(x.GoT); n != nil && n.Obj().Pkg() != nil {
			obj, index, _ = types.LookupFieldOrMethod(x.GoT, true, n.Obj().Pkg(), name)
		}
	}
	f, ok := obj.(*types.Var)
	if !ok {
		elabFail("no field %s in %s", name, x.GoT)
	}
	_ = f
	return ex.fieldPath(st, x, index)
}

func namedOf(t types.Type) *types.Named {
	if p, ok := under(t).(*types.Pointer); ok {
		t = p.Elem()
	}
	if p, ok := t.(*types.Pointer); ok {
		t = p.Elem()
	}
	n, _ := t.(*types.Named)
	return n
}

// assumeWf adds the well-formedness facts of a slice/map value read from the heap or returned by
// an uninterpreted function (len >= 0 etc.), once per term and state.
func (ex *Exec) assumeWf(st *State, v Val) {
	if st == nil || (v.S.K != KSlice && v.S.K != KMap) || strings.Contains(v.T, "q_") {
		return
	}
	key := "wf:" + v.T
	if st.pureInst[key] {
		return
	}
	st.pureInst[key] = true
	st.assume(ex.wf(v))
}

func (ex *Exec) fieldPath(st *State, x Val, index []int) Val {
	cur := x
	defer func() { ex.assumeWf(st, cur) }()
	for _, i := range index {
		t := cur.GoT
		isPtr := false
		if p, ok := under(t).(*types.Pointer); ok {
			t = p.Elem()
			isPtr = true
		}
		stt, ok := under(t).(*types.Struct)
		if !ok {
			elabFail("field access on non-struct %s", t)
		}
		f := stt.Field(i)
		fs := ex.sortOf(f.Type())
		if isPtr {
			if st == nil {
				elabFail("heap not available for field %s", f.Name())
			}
			comp := ex.compName(t, fieldAcc(f, i))
			cur = Val{T: app("select", ex.heapGet(st, comp, fs), cur.T), S: fs, GoT: f.Type()}
		} else {
			ss := ex.sortOf(t)
			cur = Val{T: app(ss.Name+"_"+fieldAcc(f, i), cur.T), S: fs, GoT: f.Type()}
		}
	}
	return cur
}

func (ex *Exec) compName(structT types.Type, field string) string {
	return sanitize(types.TypeString(structT, func(p *types.Package) string { return p.Name() })) + "." + field
}

// lookupLocalByName finds the innermost Go local named `name` visible at pos.
func (ex *Exec) lookupLocalByName(st *State, name string, pos token.Pos) (Val, bool) {
	var best types.Object
	for obj := range st.vars {
		if obj.Name() != name {
			continue
		}
		sc := obj.Parent()
		if sc != nil && !(sc.Pos() <= pos && pos <= sc.End()) {
			// params/results: parent scope is the function scope which contains pos anyway
			continue
		}
		if best == nil || obj.Pos() > best.Pos() {
			best = obj
		}
	}
	if best == nil {
		return Val{}, false
	}
	return ex.readVar(st, best), true
}

func (ex *Exec) hasLocalByName(st *State, name string, pos token.Pos) bool {
	_, ok := ex.lookupLocalByName(st, name, pos)
	return ok
}

func (ex *Exec) readVar(st *State, obj types.Object) Val {
	v, ok := st.vars[obj]
	if !ok {
		ex.oof(obj.Pos(), "variable %s read before definition (captured from an unmodelled scope?)", obj.Name())
	}
	if ex.boxed[obj] {
		return ex.load(st, v, obj.Type())
	}
	return v
}

func (ex *Exec) writeVar(st *State, obj types.Object, v Val) {
	if ex.boxed[obj] {
		p, ok := st.vars[obj]
		if !ok {
			p = ex.allocRef(st, obj.Name())
			p.GoT = types.NewPointer(obj.Type())
			st.vars[obj] = p
		}
		ex.store(st, p, obj.Type(), v)
		return
	}
	v.GoT = obj.Type()
	st.vars[obj] = v
}

func (ex *Exec) allocRef(st *State, hint string) Val {
	r := ex.fresh("new_"+hint, SRef)
	if st.alloc == "" {
		st.alloc = "0"
	}
	st.assume(app(">", r, st.alloc))
	st.alloc = r
	return Val{T: r, S: SRef}
}

// load reads *p for p pointing to elem type.
func (ex *Exec) load(st *State, p Val, elem types.Type) Val {
	if stt, ok := under(elem).(*types.Struct); ok {
		ss := ex.sortOf(elem)
		var args []string
		for i := 0; i < stt.NumFields(); i++ {
			f := stt.Field(i)
			fs := ex.sortOf(f.Type())
			args = append(args, app("select", ex.heapGet(st, ex.compName(elem, fieldAcc(f, i)), fs), p.T))
		}
		return Val{T: app("mk_"+ss.Name, args...), S: ss, GoT: elem}
	}
	s := ex.sortOf(elem)
	comp := "ptr." + sanitize(s.Name)
	return Val{T: app("select", ex.heapGet(st, comp, s), p.T), S: s, GoT: elem}
}

func (ex *Exec) store(st *State, p Val, elem types.Type, v Val) {
	if stt, ok := under(elem).(*types.Struct); ok {
		ss := ex.sortOf(elem)
		for i := 0; i < stt.NumFields(); i++ {
			f := stt.Field(i)
			fs := ex.sortOf(f.Type())
			comp := ex.compName(elem, fieldAcc(f, i))
			h := ex.heapGet(st, comp, fs)
			st.heap[comp] = app("store", h, p.T, app(ss.Name+"_"+fieldAcc(f, i), v.T))
		}
		return
	}
	s := ex.sortOf(elem)
	comp := "ptr." + sanitize(s.Name)
	h := ex.heapGet(st, comp, s)
	st.heap[comp] = app("store", h, p.T, v.T)
}

func (ex *Exec) storeField(st *State, p Val, structT types.Type, field *types.Var, v Val) {
	fs := ex.sortOf(field.Type())
	comp := ex.compName(structT, field.Name())
	h := ex.heapGet(st, comp, fs)
	st.heap[comp] = app("store", h, p.T, v.T)
}

func nodeString(fset *token.FileSet, n ast.Node) string {
	var b bytes.Buffer
	_ = printer.Fprint(&b, fset, n)
	return b.String()
}

// fieldAcc is the SMT accessor suffix of struct field number i (blank fields get unique names).
func fieldAcc(f *types.Var, i int) string {
	if f.Name() == "_" {
		return fmt.Sprintf("_blank%d", i)
	}
	return sanitize(f.Name())
}

// coreOfTypeParam: the single underlying type a constraint like ~map[K]V or ~[]E admits, if any.
func coreOfTypeParam(tp *types.TypeParam) types.Type {
	iface, ok := tp.Constraint().Underlying().(*types.Interface)
	if !ok {
		return nil
	}
	var core types.Type
	for i := 0; i < iface.NumEmbeddeds(); i++ {
		switch e := iface.EmbeddedType(i).(type) {
		case *types.Union:
			if e.Len() != 1 {
				return nil
			}
			t := e.Term(0).Type()
			switch t.Underlying().(type) {
			case *types.Map, *types.Slice:
				core = t
			default:
				return nil
			}
		case *types.Slice, *types.Map:
			// `S []T`: a single non-tilde term is stored as the type itself
			core = e
		}
	}
	return core
}

// under is Underlying(), except that a type parameter constrained to a single map/slice shape
// (~map[K]V, ~[]E) is seen as that shape.
func under(t types.Type) types.Type {
	if tp, ok := types.Unalias(t).(*types.TypeParam); ok {
		if c := coreOfTypeParam(tp); c != nil {
			return c.Underlying()
		}
	}
	return t.Underlying()
}

// share binds a large term to a fresh constant so that later terms built from it stay small
// (stores into maps, struct field updates and literals nest the previous value several times).
func (ex *Exec) share(st *State, v Val) Val {
	if len(v.T) < 160 || st == nil {
		return v
	}
	n := ex.fresh("t", v.S)
	st.assume(eq(n, v.T))
	v.T = n
	return v
}

// containerSrc: the map element a slice variable was read from.
type containerSrc struct {
	X, Key   ast.Expr
	loopKey  string // range with a blank key: the name of the loop's key in State.extra
	keyObj   types.Object
	fromDecl bool // v := m[k] (as opposed to a range value)
}
