package gocv

import (
	"fmt"
	"go/ast"
	"go/token"
	"go/types"
	"strings"

	"golang.org/x/tools/go/packages"
)

// ---------- builtins ----------

func (ex *Exec) prepareBuiltin(st *State, pc *preparedCall, k func(*State, *preparedCall)) {
	call := pc.call
	switch pc.builtin {
	case "make", "new":
		// first argument is a type
		ex.evalList(st, call.Args[1:], func(st2 *State, vs []Val) {
			pc.args = vs
			k(st2, pc)
		})
	default:
		ex.evalList(st, call.Args, func(st2 *State, vs []Val) {
			pc.args = vs
			k(st2, pc)
		})
	}
}

func (ex *Exec) finishBuiltin(st *State, pc *preparedCall, k func(*State, []Val)) {
	call := pc.call
	a := pc.args
	one := func(v Val) { k(st, []Val{v}) }
	intT := types.Typ[types.Int]
	switch pc.builtin {
	case "len":
		switch a[0].S.K {
		case KString:
			one(Val{T: app("str.len", a[0].T), S: SInt, GoT: intT})
		case KSlice:
			one(Val{T: app("s-len", a[0].T), S: SInt, GoT: intT})
		case KMap:
			one(Val{T: app("m-size", a[0].T), S: SInt, GoT: intT})
		default:
			ex.oof(call.Pos(), "len of %s", a[0].S)
		}
	case "cap":
		c := ex.freshVal("cap", intT)
		st.assume(app(">=", c.T, app("s-len", a[0].T)))
		one(c)
	case "append":
		t := ex.typeOf(call)
		s := ex.sortOf(t)
		cur := a[0]
		if cur.S.K != KSlice {
			cur = Val{T: zeroOf(s), S: s, GoT: t}
		}
		if call.Ellipsis.IsValid() {
			b := a[1]
			if b.S.K == KString {
				// append([]byte, string...): the result spells the old bytes followed by the string
				r := ex.freshWf(st, "append", t)
				if isByteSlice(t) {
					st.assume(eq(ex.bstr(r), app("str.++", ex.bstr(cur), b.T)))
					st.assume(not(app("s-nil", r.T)))
				}
				one(r)
				return
			}
			r := ex.freshVal("append", t)
			la, lb := app("s-len", cur.T), app("s-len", b.T)
			st.assume(and(eq(app("s-len", r.T), app("+", la, lb)), implies(app("s-nil", r.T), and(app("s-nil", cur.T), eq(lb, "0")))))
			st.assume(fmt.Sprintf("(forall ((q_i Int)) (=> (and (<= 0 q_i) (< q_i %s)) (= (select (s-arr %s) q_i) (select (s-arr %s) q_i))))", la, r.T, cur.T))
			st.assume(fmt.Sprintf("(forall ((q_i Int)) (=> (and (<= 0 q_i) (< q_i %s)) (= (select (s-arr %s) (+ %s q_i)) (select (s-arr %s) q_i))))", lb, r.T, la, b.T))
			// the same fact indexed by the position in the RESULT (goals about result[sk] need this instance)
			st.assume(fmt.Sprintf("(forall ((q_i Int)) (=> (and (<= %s q_i) (< q_i (+ %s %s))) (= (select (s-arr %s) q_i) (select (s-arr %s) (- q_i %s)))))", la, la, lb, r.T, b.T, la))
			one(r)
			return
		}
		elemT := elemGoType(t)
		arr, n := app("s-arr", cur.T), app("s-len", cur.T)
		if len(a) == 1 {
			one(cur)
			return
		}
		for i, v := range a[1:] {
			arr = app("store", arr, app("+", n, intLit(int64(i))), ex.convert(st, v, elemT).T)
		}
		// a named result with element-wise facts next to the store-term: goals with an existential over the
		// result are then decided by plain instantiation instead of model-based quantifier instantiation
		storeT := mkSlice(s, arr, app("+", n, intLit(int64(len(a)-1))), "false")
		r := ex.freshVal("appended", t)
		st.assume(eq(r.T, storeT))
		st.assume(and(eq(app("s-len", r.T), app("+", n, intLit(int64(len(a)-1)))), not(app("s-nil", r.T))))
		for i, v := range a[1:] {
			st.assume(eq(app("select", app("s-arr", r.T), app("+", n, intLit(int64(i)))), ex.convert(st, v, elemT).T))
		}
		st.assume(fmt.Sprintf("(forall ((q_i Int)) (=> (and (<= 0 q_i) (< q_i %s)) (= (select (s-arr %s) q_i) (select (s-arr %s) q_i))))", n, r.T, cur.T))
		one(r)
	case "make":
		t := ex.typeOf(call)
		s := ex.sortOf(t)
		switch s.K {
		case KSlice:
			n := "0"
			if len(a) > 0 {
				n = a[0].T
			}
			st.assume(app(">=", n, "0"))
			one(Val{T: mkSlice(s, fmt.Sprintf("((as const (Array Int %s)) %s)", s.Elem.Name, zeroOf(s.Elem)), n, "false"), S: s, GoT: t})
		case KMap:
			one(Val{T: mkMap(s, zeroOf(SetOf(s.Key)), fmt.Sprintf("((as const (Array %s %s)) %s)", s.Key.Name, s.Elem.Name, zeroOf(s.Elem)), "0", "false"), S: s, GoT: t})
		default:
			ex.oof(call.Pos(), "make of %s", t)
		}
	case "new":
		t := ex.typeOf(call)
		elem := under(t).(*types.Pointer).Elem()
		p := ex.allocRef(st, "new")
		es := ex.sortOf(elem)
		ex.store(st, p, elem, Val{T: zeroOf(es), S: es, GoT: elem})
		p.GoT = t
		one(p)
	case "delete":
		m := a[0]
		key := ex.convert(st, a[1], under(ex.typeOf(call.Args[0])).(*types.Map).Key())
		ex.checkMapParamWrite(call.Pos(), call.Args[0])
		ex.assignMapInPlace(st, call.Args[0], ex.share(st, mapDelete(ex.share(st, m), key.T)), func(st2 *State) { k(st2, nil) })
	case "clear":
		t := ex.typeOf(call.Args[0])
		s := ex.sortOf(t)
		if s.K != KMap {
			ex.oof(call.Pos(), "clear of %s", t)
		}
		ex.checkMapParamWrite(call.Pos(), call.Args[0])
		ex.assignMapInPlace(st, call.Args[0], Val{T: mkMap(s, zeroOf(SetOf(s.Key)), app("m-val", a[0].T), "0", app("m-nil", a[0].T)), S: s, GoT: t}, func(st2 *State) { k(st2, nil) })
	case "panic":
		// the path ends here (partial correctness w.r.t. normal return)
		ex.assumptions["panicking paths are not checked (partial correctness w.r.t. normal return)"] = true
		ex.paths++
	case "min", "max":
		r := a[0]
		for _, v := range a[1:] {
			var c string
			op := "<="
			if pc.builtin == "max" {
				op = ">="
			}
			if r.S.K == KString {
				if op == "<=" {
					c = app("str.<=", r.T, v.T)
				} else {
					c = app("str.<=", v.T, r.T)
				}
			} else {
				c = app(op, r.T, v.T)
			}
			r = Val{T: ite(c, r.T, v.T), S: r.S, GoT: r.GoT}
		}
		one(r)
	case "print", "println":
		k(st, nil)
	case "copy":
		// copy(dst, src) for a locally created dst: the first min(len) elements are overwritten
		if !ex.isLocalFreshSlice(call.Args[0]) || a[0].S.K != KSlice || a[1].S.K != KSlice {
			ex.oof(call.Pos(), "copy into a slice that is not locally created (aliasing not modelled)")
		}
		dst, src := a[0], a[1]
		n := ite(app("<=", app("s-len", dst.T), app("s-len", src.T)), app("s-len", dst.T), app("s-len", src.T))
		r := ex.freshVal("copied", ex.typeOf(call.Args[0]))
		st.assume(and(eq(app("s-len", r.T), app("s-len", dst.T)), eq(app("s-nil", r.T), app("s-nil", dst.T))))
		st.assume(fmt.Sprintf("(forall ((q_i Int)) (=> (and (<= 0 q_i) (< q_i %s)) (= (select (s-arr %s) q_i) (select (s-arr %s) q_i))))", n, r.T, src.T))
		st.assume(fmt.Sprintf("(forall ((q_i Int)) (=> (and (<= %s q_i) (< q_i (s-len %s))) (= (select (s-arr %s) q_i) (select (s-arr %s) q_i))))", n, dst.T, r.T, dst.T))
		ex.assignTo(st, call.Args[0], r, func(st2 *State) { k(st2, []Val{{T: n, S: SInt, GoT: intT}}) })
	default:
		ex.oof(call.Pos(), "builtin %s", pc.builtin)
	}
}

// ---------- closures and inlined functions ----------

func (ex *Exec) callClosure(st *State, clo *Closure, args []Val, k func(*State, []Val)) {
	var ftype *ast.FuncType
	var body *ast.BlockStmt
	var info *types.Info
	if clo.Lit != nil {
		ftype, body = clo.Lit.Type, clo.Lit.Body
		info = clo.Pkg.TypesInfo
	} else {
		ftype, body = clo.Fn.Type, clo.Fn.Body
		info = clo.Pkg.TypesInfo
	}
	ex.inlineDepth++
	if ex.inlineDepth > 12 {
		ex.oof(body.Pos(), "inlining too deep (recursive closure?)")
	}
	savedInfo, savedPkg := ex.info, ex.pkg
	ex.info, ex.pkg = info, clo.Pkg
	// bind parameters
	i := 0
	if ftype.Params != nil {
		for _, f := range ftype.Params.List {
			if len(f.Names) == 0 {
				i++
				continue
			}
			for _, n := range f.Names {
				if n.Name != "_" {
					obj := info.Defs[n]
					if i < len(args) {
						ex.writeVar(st, obj, ex.convert(st, args[i], obj.Type()))
					} else {
						ex.writeVar(st, obj, ex.freshWf(st, n.Name, obj.Type()))
					}
				}
				i++
			}
		}
	}
	var results []*types.Var
	nres := 0
	if ftype.Results != nil {
		for _, f := range ftype.Results.List {
			if len(f.Names) == 0 {
				results = append(results, nil)
				nres++
				continue
			}
			for _, n := range f.Names {
				obj, _ := info.Defs[n].(*types.Var)
				if n.Name == "_" {
					obj = nil
				}
				results = append(results, obj)
				nres++
				if obj != nil {
					s := ex.sortOf(obj.Type())
					ex.writeVar(st, obj, Val{T: zeroOf(s), S: s, GoT: obj.Type()})
				}
			}
		}
	}
	st.defers = append(st.defers, nil)
	depth := ex.inlineDepth
	leave := func(st *State, vals []Val) {
		// back in the caller's context while k runs
		si, sp, sd := ex.info, ex.pkg, ex.inlineDepth
		ex.info, ex.pkg, ex.inlineDepth = savedInfo, savedPkg, depth-1
		k(st, vals)
		ex.info, ex.pkg, ex.inlineDepth = si, sp, sd
	}
	c := &ctl{brk: map[string]func(*State){}, cont: map[string]func(*State){}, results: results}
	c.ret = func(st *State, vals []Val) {
		if vals != nil {
			for j, r := range results {
				if r != nil && j < len(vals) {
					ex.writeVar(st, r, ex.convert(st, vals[j], r.Type()))
				}
			}
		}
		ex.runDefers(st, func(st2 *State) {
			out := make([]Val, nres)
			for j := range out {
				if results[j] != nil {
					out[j] = ex.readVar(st2, results[j])
				} else if vals != nil && j < len(vals) {
					out[j] = vals[j]
				}
			}
			leave(st2, out)
		})
	}
	ex.stmts(st, body.List, c, func(st2 *State) {
		// fell off the end
		c.ret(st2, nil)
	})
	ex.info, ex.pkg = savedInfo, savedPkg
	ex.inlineDepth = depth - 1
}

func (ex *Exec) inlineCall(st *State, pc *preparedCall, k func(*State, []Val)) {
	key := funcKey(pc.fn)
	decl := ex.ld.decls[key]
	if decl == nil || decl.Body == nil {
		ex.oof(pc.call.Pos(), "inline: no source for %s", key)
	}
	args := pc.args
	clo := &Closure{Fn: decl, Pkg: ex.ld.declPkg[key]}
	if pc.recv != nil && decl.Recv != nil && len(decl.Recv.List) > 0 && len(decl.Recv.List[0].Names) > 0 {
		n := decl.Recv.List[0].Names[0]
		if n.Name != "_" {
			obj := clo.Pkg.TypesInfo.Defs[n]
			ex.writeVar(st, obj, *pc.recv)
		}
	}
	// loops inside an inlined body have no invariants: refuse
	hasLoop := false
	ast.Inspect(decl.Body, func(n ast.Node) bool {
		switch n.(type) {
		case *ast.ForStmt, *ast.RangeStmt:
			hasLoop = true
		}
		return !hasLoop
	})
	if hasLoop {
		ex.oof(pc.call.Pos(), "inline of %s: body has loops", key)
	}
	ex.callClosure(st, clo, args, k)
}

// ---------- iterator contracts (Appendix B of DESIGN.md) ----------

func (ex *Exec) applyIterator(st *State, fc *FuncContract, pc *preparedCall, env *Env, k func(*State, []Val)) {
	it := fc.Iter
	sig := pc.fn.Type().(*types.Signature)
	// find the callback argument
	var cb *Val
	for i := 0; i < sig.Params().Len(); i++ {
		pn := sig.Params().At(i).Name()
		if i < len(fc.ParamNames) && fc.ParamNames[i] != "" {
			pn = fc.ParamNames[i]
		}
		if pn == it.FuncParam {
			cb = &pc.args[i]
		}
	}
	if cb == nil || cb.Clo == nil || cb.Clo.Lit == nil {
		// callback is not a literal: treat the call through its plain contract
		ex.fail(pc.call.Pos(), "iterator %s called with a non-literal callback", fc.Key)
		k(st, ex.resultVals(st, sig, shortKey(fc.Key)))
		return
	}
	lit := cb.Clo.Lit
	ord, ok := ex.cloOrd[lit]
	if !ok {
		ex.oof(lit.Pos(), "closure without ordinal")
	}
	ls := &LoopSpec{}
	if ex.fc != nil && ex.fc.Closures[ord] != nil {
		ls = ex.fc.Closures[ord]
	}
	ex.cloHit[ord] = true
	pos := lit.Body.Lbrace
	// key sort for the yielded set
	var keySort *Sort
	pkgT := ex.typesPkgFor(fc.PkgPath, pc.fn.Pkg())
	yieldEnv := func(st *State, yv []Val) *Env {
		e := ex.calleeEnv(st, fc, pc.fn, pc.recv, pc.args)
		e.old = env.old
		for i, v := range it.YieldVars {
			e.names[v.Name] = yv[i]
		}
		return e
	}
	mkYield := func(st *State) []Val {
		var yv []Val
		for _, v := range it.YieldVars {
			s, gt := ex.sortOfSType(v.T, pkgT)
			val := Val{T: ex.fresh("yield_"+v.Name, s), S: s, GoT: gt}
			st.assume(ex.wf(val))
			yv = append(yv, val)
		}
		return yv
	}
	var yieldedEmpty, yielded Val
	if it.Distinct != nil {
		probe := mkYield(st)
		kv, err := yieldEnv(st, probe).Elab(it.Distinct)
		if err != nil {
			ex.fail(pc.call.Pos(), "iterator %s distinct: %v", fc.Key, err)
			k(st, ex.resultVals(st, sig, shortKey(fc.Key)))
			return
		}
		keySort = kv.S
		setSort := SetOf(keySort)
		yieldedEmpty = Val{T: zeroOf(setSort), S: setSort}
	}
	extraOf := func(y Val) map[string]Val {
		if keySort == nil {
			return nil
		}
		return map[string]Val{"$yielded": y}
	}
	// 0. the call starts: havoc what the iterator itself modifies, assume its `begins` facts
	preCall := st.clone()
	ex.havocModifies(st, fc, pc)
	{
		e := ex.calleeEnv(st, fc, pc.fn, pc.recv, pc.args)
		e.old = preCall
		for _, cl := range it.Begins {
			t, err := e.elabBool(cl.Expr)
			if err != nil {
				ex.fail(pc.call.Pos(), "iterator %s begins: %v", fc.Key, err)
				continue
			}
			st.assume(t)
		}
	}
	// 1. invariant on entry
	ex.assertInvsNamed(st, "clo-entry", ord, ls, pos, extraOf(yieldedEmpty))
	// 2. havoc what the literal assigns
	st2 := st.clone()
	st2.setEntry(ord, st)
	ex.havocAssigned(st2, lit.Body)
	if keySort != nil {
		yielded = Val{T: ex.fresh("yielded", yieldedEmpty.S), S: yieldedEmpty.S}
	}
	ex.assumeInvs(st2, ord, ls, pos, extraOf(yielded))
	errIdx := -1
	rnames := resultNames(fc, sig)
	for i, n := range rnames {
		if n == it.ErrResult {
			errIdx = i
		}
	}
	finish := func(st *State, errVal *Val, complete bool) {
		results := ex.resultVals(st, sig, shortKey(fc.Key))
		e := ex.calleeEnv(st, fc, pc.fn, pc.recv, pc.args)
		e.old = env.old
		for i, n := range rnames {
			e.names[n] = results[i]
		}
		if keySort != nil {
			e.names["$yielded"] = yielded
		}
		if errIdx >= 0 {
			if errVal != nil {
				st.assume(eq(results[errIdx].T, errVal.T))
			} else if complete {
				st.assume(eq(results[errIdx].T, "0"))
			} else {
				st.assume(not(eq(results[errIdx].T, "0")))
			}
		}
		if complete {
			for _, cl := range it.Complete {
				t, err := e.elabBool(cl.Expr)
				if err != nil {
					ex.fail(pc.call.Pos(), "iterator %s complete: %v", fc.Key, err)
					continue
				}
				st.assume(t)
			}
		}
		// plain ensures hold on every exit
		for _, en := range fc.Ensures {
			if en.Canary {
				continue
			}
			t, err := e.elabBool(en.Expr)
			if err != nil {
				ex.fail(pc.call.Pos(), "iterator %s ensures: %v", fc.Key, err)
				continue
			}
			st.assume(t)
		}
		k(st, results)
	}
	// 3a. one more yield
	stY := st2.clone()
	yv := mkYield(stY)
	ye := yieldEnv(stY, yv)
	for _, w := range it.Where {
		t, err := ye.elabBool(w.Expr)
		if err != nil {
			ex.fail(pc.call.Pos(), "iterator %s where: %v", fc.Key, err)
			continue
		}
		stY.assume(t)
	}
	var keyT string
	if keySort != nil {
		kv, _ := ye.Elab(it.Distinct)
		keyT = kv.T
		stY.assume(not(app("select", yielded.T, keyT)))
	}
	if !stY.dead {
		ex.callClosure(stY, cb.Clo, yv, func(st3 *State, rv []Val) {
			// the callback's last result is its error
			if len(rv) == 0 {
				ny := yielded
				if keySort != nil {
					ny = Val{T: app("store", yielded.T, keyT, "true"), S: yielded.S}
				}
				ex.assertInvsNamed(st3, "clo-step", ord, ls, pos, extraOf(ny))
				ex.paths++
				return
			}
			e := rv[len(rv)-1]
			sOK := st3.clone()
			sOK.assume(eq(e.T, "0"))
			if !sOK.dead {
				ny := yielded
				if keySort != nil {
					ny = Val{T: app("store", yielded.T, keyT, "true"), S: yielded.S}
				}
				ex.assertInvsNamed(sOK, "clo-step", ord, ls, pos, extraOf(ny))
				ex.paths++
			}
			st3.assume(not(eq(e.T, "0")))
			if !st3.dead {
				finish(st3, &e, false)
			}
		})
	}
	// 3b. iteration ends
	stC := st2.clone()
	finish(stC, nil, true)
	if it.MayFail {
		finish(st2, nil, false)
	}
}

func (ex *Exec) assertInvsNamed(st *State, kind string, ord int, ls *LoopSpec, pos token.Pos, extra map[string]Val) {
	ex.assertInvs(st, kind, ord, ls, pos, extra)
}

// ---------- assigned-variable analysis ----------

// assignedVars returns the variables assigned (or mutated in place) inside n.
func (ex *Exec) assignedVars(n ast.Node) map[types.Object]bool {
	out := map[types.Object]bool{}
	ex.scanEffects(n, out, nil, map[ast.Node]bool{})
	return out
}

type effects struct {
	heapAll bool
	comps   map[string]bool
	ghost   map[string]bool
}

func (ex *Exec) scanEffects(n ast.Node, vars map[types.Object]bool, eff *effects, seen map[ast.Node]bool) {
	if n == nil || seen[n] {
		return
	}
	seen[n] = true
	info := ex.info
	baseObj := func(e ast.Expr) types.Object {
		for {
			switch x := unparen(e).(type) {
			case *ast.Ident:
				if o := info.Uses[x]; o != nil {
					return o
				}
				return info.Defs[x]
			case *ast.IndexExpr:
				e = x.X
			case *ast.SelectorExpr:
				if sel := info.Selections[x]; sel != nil && sel.Kind() == types.FieldVal {
					if pt, isPtr := under(ex.typeOf(x.X)).(*types.Pointer); isPtr {
						if eff != nil {
							if idx := sel.Index(); len(idx) == 1 {
								// a store into (or below) field f of *T touches heap component T.f only
								if stt, ok := under(pt.Elem()).(*types.Struct); ok {
									eff.comps[ex.compName(pt.Elem(), stt.Field(idx[0]).Name())] = true
									return nil
								}
							}
							eff.heapAll = true // conservative: a field store through an embedded path
						}
						return nil
					}
					e = x.X
					continue
				}
				return nil
			case *ast.StarExpr:
				if eff != nil {
					eff.heapAll = true
				}
				return nil
			default:
				return nil
			}
		}
	}
	mark := func(e ast.Expr) {
		if o := baseObj(e); o != nil {
			vars[o] = true
			if ex.boxed[o] && eff != nil {
				for _, c := range ex.boxedComps(o) {
					eff.comps[c] = true
				}
			}
		}
	}
	ast.Inspect(n, func(m ast.Node) bool {
		if stmt, ok := m.(ast.Stmt); ok && eff != nil && ex.fc != nil && len(ex.fc.GhostUpd) > 0 {
			if _, isBlock := stmt.(*ast.BlockStmt); !isBlock {
				text := normalizeStmtText(nodeString(ex.fset, stmt))
				for _, g := range ex.fc.GhostUpd {
					if strings.HasPrefix(text, normalizeStmtText(g.Anchor)) && (g.Nth == 0 || ex.nthMatch(g.Anchor, g.Nth) == stmt.Pos()) {
						eff.ghost[g.Name] = true
					}
				}
			}
		}
		switch s := m.(type) {
		case *ast.AssignStmt:
			for _, l := range s.Lhs {
				mark(l)
			}
			// x := E[k] with a map-typed element: x aliases E[k]; if n also mutates x, E changes with it
			if len(s.Rhs) == 1 && len(s.Lhs) >= 1 {
				if ix, ok := unparen(s.Rhs[0]).(*ast.IndexExpr); ok {
					if tv, ok := info.Types[ix.X]; ok && tv.Type != nil {
						if mt, ok := under(tv.Type).(*types.Map); ok {
							if _, inner := under(mt.Elem()).(*types.Map); inner {
								if id, ok := unparen(s.Lhs[0]).(*ast.Ident); ok && id.Name != "_" {
									o := info.Defs[id]
									if o == nil {
										o = info.Uses[id]
									}
									if o != nil && ex.mutatesMapVar(n, o) {
										mark(ix.X)
									}
								}
							}
						}
					}
				}
			}
		case *ast.IncDecStmt:
			mark(s.X)
		case *ast.RangeStmt:
			if s.Key != nil {
				mark(s.Key)
			}
			if s.Value != nil {
				mark(s.Value)
			}
		case *ast.DeclStmt:
			if gd, ok := s.Decl.(*ast.GenDecl); ok {
				for _, sp := range gd.Specs {
					if vs, ok := sp.(*ast.ValueSpec); ok {
						for _, nm := range vs.Names {
							if o := info.Defs[nm]; o != nil {
								vars[o] = true
							}
						}
					}
				}
			}
		case *ast.UnaryExpr:
			if s.Op == token.AND {
				mark(s.X)
			}
		case *ast.CallExpr:
			fun := unparen(s.Fun)
			if tv, ok := info.Types[fun]; ok && tv.IsType() {
				return true
			}
			if id, ok := fun.(*ast.Ident); ok {
				if b, ok := info.Uses[id].(*types.Builtin); ok {
					if b.Name() == "delete" || b.Name() == "clear" {
						mark(s.Args[0])
					}
					return true
				}
				// local closure variable: include the closure body
				if v, ok := info.Uses[id].(*types.Var); ok {
					if lit := ex.closureOfVar[v]; lit != nil {
						ex.scanEffects(lit.Body, vars, eff, seen)
						return true
					}
				}
			}
			var fc *FuncContract
			if fn, ok := calleeOf(info, s).(*types.Func); ok {
				fc = ex.cs.Funcs[funcKey(fn)]
				if fc != nil && fc.Inline {
					if d := ex.ld.decls[funcKey(fn)]; d != nil {
						saved := ex.info
						ex.info = ex.ld.declPkg[funcKey(fn)].TypesInfo
						ex.scanEffects(d.Body, vars, eff, seen)
						ex.info = saved
					}
					return true
				}
				// pointer-receiver call on a boxed variable
				if sel, ok := fun.(*ast.SelectorExpr); ok {
					if id, ok := unparen(sel.X).(*ast.Ident); ok {
						if o, ok := info.Uses[id].(*types.Var); ok && ex.boxed[o] {
							vars[o] = true
						}
					}
				}
			}
			if fc == nil {
				if id, ok := fun.(*ast.Ident); ok && ex.pureCallbackField(id.Name) {
					if ex.fc != nil && ex.fc.CountedPure[id.Name] {
						ex.markCallbackCounters(eff)
					}
					return true // deterministic callback: no effect (but counted where the contract opts in)
				}
				if id, ok := fun.(*ast.Ident); ok && ex.fc != nil && ex.fc.CallsEffects[id.Name] != nil {
					for _, mo := range ex.fc.CallsEffects[id.Name] {
						if eff == nil {
							continue
						}
						switch {
						case strings.HasPrefix(mo, "ghost."):
							eff.ghost[strings.TrimPrefix(mo, "ghost.")] = true
						case strings.HasPrefix(mo, "heap "):
							eff.comps[ex.qualifyComp(strings.TrimSpace(strings.TrimPrefix(mo, "heap ")), ex.fc)] = true
						default:
							eff.heapAll = true
						}
					}
					return true
				}
				if id, ok := fun.(*ast.Ident); ok && ex.fc != nil && len(ex.fc.Dispatch[id.Name]) > 0 {
					// dispatch VAR over f1, ...: the effects are those of the candidates (#dispatch[VAR]
					// proves that the variable is one of them)
					for _, cn := range ex.fc.Dispatch[id.Name] {
						cfn, _ := ex.pkg.Types.Scope().Lookup(cn).(*types.Func)
						var cfc *FuncContract
						if cfn != nil {
							cfc = ex.cs.Funcs[funcKey(cfn)]
						}
						if cfc == nil {
							if eff != nil {
								eff.heapAll = true
							}
							continue
						}
						for _, mo := range cfc.Modifies {
							if eff == nil {
								continue
							}
							switch {
							case strings.HasPrefix(mo, "ghost."):
								eff.ghost[strings.TrimPrefix(mo, "ghost.")] = true
							case strings.HasPrefix(mo, "heap "):
								eff.comps[ex.qualifyComp(strings.TrimSpace(strings.TrimPrefix(mo, "heap ")), cfc)] = true
							default:
								eff.heapAll = true
							}
						}
					}
					return true
				}
				if sel, ok := fun.(*ast.SelectorExpr); ok && info.Selections[sel] != nil && info.Selections[sel].Kind() == types.FieldVal && ex.pureCallbackField(sel.Sel.Name) {
					if ex.fc != nil && ex.fc.CountedPure[sel.Sel.Name] {
						ex.markCallbackCounters(eff)
					}
					return true
				}
				if eff != nil {
					eff.heapAll = true
					if _, isFn := calleeOf(info, s).(*types.Func); !isFn {
						if tv, ok := info.Types[fun]; ok && tv.Type != nil {
							isPureCb := false
							if id, ok := fun.(*ast.Ident); ok && ex.pureCallbackField(id.Name) {
								isPureCb = true
							}
							if sel, ok := fun.(*ast.SelectorExpr); ok && ex.pureCallbackField(sel.Sel.Name) {
								isPureCb = true
							}
							if sg, ok := under(tv.Type).(*types.Signature); ok && funcValueIsSink(sg) && !isPureCb {
								eff.ghost["fail"] = true
								if _, ok := ex.cs.Ghost["wfail"]; ok {
									eff.ghost["wfail"] = true
								}
							}
						}
						if ex.countsCallbacks() {
							for g := range ex.cs.Ghost {
								if strings.HasPrefix(g, "cbArg") || g == "cbCalls" {
									eff.ghost[g] = true
								}
							}
						}
					}
				}
				for _, a := range s.Args {
					if t, ok := info.Types[a]; ok && t.Type != nil {
						if _, isMap := under(t.Type).(*types.Map); isMap {
							mark(a)
						}
					}
				}
				// escaped closures may run
				for lit := range ex.allLits {
					ex.scanEffects(lit.Body, vars, nil, seen)
				}
				return true
			}
			sig := calleeOf(info, s).(*types.Func).Type().(*types.Signature)
			for _, mo := range fc.Modifies {
				switch {
				case strings.HasPrefix(mo, "ghost."):
					if eff != nil {
						eff.ghost[strings.TrimPrefix(mo, "ghost.")] = true
					}
				case mo == "heap":
					if eff != nil {
						eff.heapAll = true
					}
				case strings.HasPrefix(mo, "heap "):
					if eff != nil {
						eff.comps[ex.qualifyComp(strings.TrimSpace(strings.TrimPrefix(mo, "heap ")), fc)] = true
					}
				default:
					name := strings.TrimPrefix(mo, "param ")
					for i := 0; i < sig.Params().Len() && i < len(s.Args); i++ {
						pn := sig.Params().At(i).Name()
						if i < len(fc.ParamNames) && fc.ParamNames[i] != "" {
							pn = fc.ParamNames[i]
						}
						if pn == name {
							mark(s.Args[i])
							if src := ex.containerSrcOf(s.Args[i]); src != nil {
								mark(src.X) // the element m[k] the variable was read from changes with it
							}
						}
					}
				}
			}
			// closures passed as arguments may run
			for _, a := range s.Args {
				if lit, ok := unparen(a).(*ast.FuncLit); ok {
					ex.scanEffects(lit.Body, vars, eff, seen)
				}
			}
		}
		return true
	})
}

func calleeOf(info *types.Info, call *ast.CallExpr) types.Object {
	fun := unparen(call.Fun)
	switch f := fun.(type) {
	case *ast.Ident:
		return info.Uses[f]
	case *ast.SelectorExpr:
		if sel := info.Selections[f]; sel != nil {
			return sel.Obj()
		}
		return info.Uses[f.Sel]
	case *ast.IndexExpr:
		if id := identOf(f.X); id != nil {
			return info.Uses[id]
		}
	case *ast.IndexListExpr:
		if id := identOf(f.X); id != nil {
			return info.Uses[id]
		}
	}
	return nil
}

// mutatesMapVar: does n write through the map variable (x[k] = v, delete(x, k), clear(x)) or hand it
// to a call that may?
func (ex *Exec) mutatesMapVar(n ast.Node, obj types.Object) bool {
	found := false
	isObj := func(e ast.Expr) bool {
		id, ok := unparen(e).(*ast.Ident)
		return ok && (ex.info.Uses[id] == obj || ex.info.Defs[id] == obj)
	}
	ast.Inspect(n, func(m ast.Node) bool {
		switch s := m.(type) {
		case *ast.AssignStmt:
			for _, l := range s.Lhs {
				if ix, ok := unparen(l).(*ast.IndexExpr); ok && isObj(ix.X) {
					found = true
				}
			}
		case *ast.IncDecStmt:
			if ix, ok := unparen(s.X).(*ast.IndexExpr); ok && isObj(ix.X) {
				found = true
			}
		case *ast.CallExpr:
			if id, ok := unparen(s.Fun).(*ast.Ident); ok {
				if b, ok := ex.info.Uses[id].(*types.Builtin); ok {
					if (b.Name() == "delete" || b.Name() == "clear") && len(s.Args) > 0 && isObj(s.Args[0]) {
						found = true
					}
					return !found
				}
			}
			for i, a := range s.Args {
				if isObj(a) && !ex.calleeKeepsParam(s, i) {
					found = true
				}
			}
		}
		return !found
	})
	return found
}

// calleeKeepsParam: the callee has a contract that does not list parameter i under `modifies`.
func (ex *Exec) calleeKeepsParam(call *ast.CallExpr, i int) bool {
	var fn *types.Func
	switch f := unparenIndex(call.Fun).(type) {
	case *ast.Ident:
		fn, _ = ex.info.Uses[f].(*types.Func)
	case *ast.SelectorExpr:
		fn, _ = ex.info.Uses[f.Sel].(*types.Func)
	}
	if fn == nil {
		return false
	}
	fc := ex.cs.Funcs[funcKey(fn)]
	if fc == nil {
		return false
	}
	sig := fn.Type().(*types.Signature)
	if i >= sig.Params().Len() {
		return false
	}
	pn := sig.Params().At(i).Name()
	if i < len(fc.ParamNames) && fc.ParamNames[i] != "" {
		pn = fc.ParamNames[i]
	}
	for _, m := range fc.Modifies {
		if m == pn || m == "param "+pn {
			return false
		}
	}
	return true
}

func (ex *Exec) markCallbackCounters(eff *effects) {
	if eff == nil || !ex.countsCallbacks() {
		return
	}
	for g := range ex.cs.Ghost {
		if strings.HasPrefix(g, "cbArg") || g == "cbCalls" {
			eff.ghost[g] = true
		}
	}
}

// havocAssigned forgets everything the node may change.
func (ex *Exec) havocAssigned(st *State, n ast.Node) {
	vars := map[types.Object]bool{}
	eff := &effects{comps: map[string]bool{}, ghost: map[string]bool{}}
	ex.scanEffects(n, vars, eff, map[ast.Node]bool{})
	for obj := range vars {
		if _, ok := st.vars[obj]; ok {
			if ex.boxed[obj] {
				for _, c := range ex.boxedComps(obj) {
					eff.comps[c] = true
				}
				continue
			}
			lk := st.aliasLinks[obj]
			ex.havocVar(st, obj)
			if lk != nil {
				if ex.reassignsVar(n, obj) {
					// the code may re-point the variable: the link is not known at this point
					st.setLink(obj, nil)
				} else {
					// the variable still denotes base[key]: the element changes with it
					ex.writeBackLink(st, obj, lk)
				}
			}
		}
	}
	if eff.heapAll {
		ex.heapHavocAll(st)
	} else {
		for c := range eff.comps {
			ex.heapHavocComp(st, c)
		}
	}
	for g := range eff.ghost {
		ex.ghostHavoc(st, g)
	}
	if !eff.heapAll {
		ex.advanceAlloc(st)
	}
}

var _ = packages.NeedName

// boxedComps: the heap components an address-taken local of this type lives in.
func (ex *Exec) boxedComps(obj types.Object) []string {
	t := obj.Type()
	if stt, ok := under(t).(*types.Struct); ok {
		var out []string
		for i := 0; i < stt.NumFields(); i++ {
			out = append(out, ex.compName(t, fieldAcc(stt.Field(i), i)))
		}
		return out
	}
	return []string{"ptr." + sanitize(ex.sortOf(t).Name)}
}

// comparatorUsesIndexesOnlyAsSubscripts: the strict-weak-order obligations are stated over indexes, which
// is the same as over element values only if the comparator looks at its parameters solely as x[i], x[j]
// of the sorted slice (`func(i, j int) bool { return i > j }` passes them and is not an order on values:
// found by the bounded validation). Anything else is out of fragment.
func (ex *Exec) comparatorUsesIndexesOnlyAsSubscripts(pc *preparedCall) {
	lit := pc.args[1].Clo.Lit
	xs := nodeString(ex.fset, unparen(pc.call.Args[0]))
	params := map[types.Object]bool{}
	for _, f := range lit.Type.Params.List {
		for _, n := range f.Names {
			if o := ex.info.Defs[n]; o != nil {
				params[o] = true
			}
		}
	}
	ok := map[*ast.Ident]bool{}
	ast.Inspect(lit.Body, func(m ast.Node) bool {
		if ix, isIx := m.(*ast.IndexExpr); isIx {
			if id, isId := unparen(ix.Index).(*ast.Ident); isId && nodeString(ex.fset, unparen(ix.X)) == xs {
				ok[id] = true
			}
		}
		return true
	})
	ast.Inspect(lit.Body, func(m ast.Node) bool {
		if id, isId := m.(*ast.Ident); isId && params[ex.info.Uses[id]] && !ok[id] {
			ex.oof(id.Pos(), "sort comparator uses its index parameter %s other than as a subscript of %s (only comparators of element values are modelled)", id.Name, xs)
		}
		return true
	})
}

// sortComparatorObligations: irreflexive, transitive, and incomparability is transitive, for arbitrary
// indices into the slice as it is when sort.Slice is called (the comparator is executed symbolically).
func (ex *Exec) sortComparatorObligations(st *State, pc *preparedCall, old Val) {
	// ordinal of this call among the sort.Slice calls of the function, in source order
	ord := 0
	if ex.decl != nil {
		ast.Inspect(ex.decl, func(m ast.Node) bool {
			if c, ok := m.(*ast.CallExpr); ok && c.Pos() < pc.call.Pos() {
				if sel, ok := unparen(c.Fun).(*ast.SelectorExpr); ok && (sel.Sel.Name == "Slice" || sel.Sel.Name == "SliceStable") {
					if id, ok := unparen(sel.X).(*ast.Ident); ok && id.Name == "sort" {
						ord++
					}
				}
			}
			return true
		})
	}
	intT := types.Typ[types.Int]
	n := app("s-len", old.T)
	mk := func(tag string) Val {
		c := ex.fresh("cmp_"+tag, SInt)
		return Val{T: c, S: SInt, GoT: intT}
	}
	si, sj, sk := mk("i"), mk("j"), mk("k")
	probe := st.clone()
	ctx := len(probe.pc)
	for _, v := range []Val{si, sj, sk} {
		probe.assume(and(app("<=", "0", v.T), app("<", v.T, n)))
	}
	less := func(a, b Val) string {
		p := probe.clone()
		base := len(p.pc)
		var cases []string
		ex.callClosure(p, pc.args[1].Clo, []Val{a, b}, func(st3 *State, rv []Val) {
			if len(rv) == 1 {
				cases = append(cases, and(append(append([]string(nil), st3.pc[base:]...), rv[0].T)...))
			}
		})
		if len(cases) == 0 {
			return "false"
		}
		return or(cases...)
	}
	lii := less(si, si)
	lij, lji := less(si, sj), less(sj, si)
	ljk, lkj := less(sj, sk), less(sk, sj)
	lik, lki := less(si, sk), less(sk, si)
	add := func(label, goal string) {
		ex.queries = append(ex.queries, &Query{Name: fmt.Sprintf("%s#sort-comparator[%d.%s]", ex.name, ord, label), Path: ex.paths, Assumes: append([]string(nil), probe.pc[ctx:]...), Goal: goal, Pos: ex.posStr(pc.call.Pos()), Property: ex.props})
	}
	// the three facts are stated without the path condition: a comparator is a strict weak order because
	// of what it compares, not because of where it is called (and string orders are hard enough alone)
	add("irreflexive", not(lii))
	add("transitive", implies(and(lij, ljk), lik))
	add("ties-transitive", implies(and(not(lij), not(lji), not(ljk), not(lkj)), and(not(lik), not(lki))))
}

// sortSliceIntrinsic models sort.Slice(x, less) / sort.SliceStable for a literal comparator:
// x becomes a permutation of its old value (trusted), and it is sorted with respect to the
// comparator AS WRITTEN IN THE SOURCE: for all a < b the comparator, executed symbolically on
// (b, a), does not return true. A wrong or missing key in the comparator therefore shows up in
// whatever postcondition speaks about the order.
func (ex *Exec) sortSliceIntrinsic(st *State, pc *preparedCall, k func(*State, []Val)) {
	ex.intrinsics["sort.Slice/SliceStable: permutation of the input, ordered by the literal comparator (trusted)"] = true
	xe := pc.call.Args[0]
	var old Val
	got := false
	ex.eval(st, xe, func(_ *State, v Val) { old, got = v, true })
	if !got || old.S.K != KSlice {
		ex.oof(pc.call.Pos(), "sort.Slice on a non-slice")
	}
	// The model below ("no later element is less than an earlier one") is what sort.Slice guarantees only
	// for a strict weak order, and is contradictory for a comparator such as x[i] <= x[j]: that the literal
	// comparator IS a strict weak order on the elements of the slice is an obligation of the caller.
	ex.comparatorUsesIndexesOnlyAsSubscripts(pc)
	ex.sortComparatorObligations(st, pc, old)
	nv := ex.freshWf(st, "sorted", ex.typeOf(xe))
	n := app("s-len", nv.T)
	st.assume(eq(n, app("s-len", old.T)))
	st.assume(eq(app("s-nil", nv.T), app("s-nil", old.T)))
	// permutation as an explicit bijection perm / inv on [0, n)
	ex.nfresh++
	perm, inv := fmt.Sprintf("perm!%d", ex.nfresh), fmt.Sprintf("inv!%d", ex.nfresh)
	ex.declare(fmt.Sprintf("(declare-fun %s (Int) Int)", perm))
	ex.declare(fmt.Sprintf("(declare-fun %s (Int) Int)", inv))
	st.assume(fmt.Sprintf("(forall ((q_i Int)) (! (=> (and (<= 0 q_i) (< q_i %s)) (and (<= 0 (%s q_i)) (< (%s q_i) %s) (= (%s (%s q_i)) q_i) (= (select (s-arr %s) q_i) (select (s-arr %s) (%s q_i))))) :pattern ((select (s-arr %s) q_i)) :pattern ((%s q_i))))", n, perm, perm, n, inv, perm, nv.T, old.T, perm, nv.T, perm))
	st.assume(fmt.Sprintf("(forall ((q_j Int)) (! (=> (and (<= 0 q_j) (< q_j %s)) (and (<= 0 (%s q_j)) (< (%s q_j) %s) (= (%s (%s q_j)) q_j))) :pattern ((select (s-arr %s) q_j)) :pattern ((%s q_j))))", n, inv, inv, n, perm, inv, old.T, inv))
	ex.assignTo(st, xe, nv, func(st2 *State) {
		ex.writeBackContainer(st2, xe, nv)
		// order: symbolic execution of the comparator on (q_b, q_a) with q_a < q_b
		intT := types.Typ[types.Int]
		qa, qb := Val{T: "q_a", S: SInt, GoT: intT}, Val{T: "q_b", S: SInt, GoT: intT}
		probe := st2.clone()
		base := len(probe.pc)
		var cases []string
		ex.callClosure(probe, pc.args[1].Clo, []Val{qb, qa}, func(st3 *State, rv []Val) {
			if len(rv) != 1 {
				return
			}
			cases = append(cases, implies(and(st3.pc[base:]...), not(rv[0].T)))
		})
		if len(cases) > 0 {
			st2.assume(fmt.Sprintf("(forall ((q_a Int) (q_b Int)) (=> (and (<= 0 q_a) (< q_a q_b) (< q_b %s)) %s))", n, and(cases...)))
		}
		k(st2, nil)
	})
}

// containerSrcOf: the map element a slice-typed argument variable shares its backing array with, if any.
func (ex *Exec) containerSrcOf(arg ast.Expr) *containerSrc {
	id, ok := unparen(arg).(*ast.Ident)
	if !ok {
		return nil
	}
	obj, ok := ex.info.Uses[id].(*types.Var)
	if !ok {
		return nil
	}
	src := ex.containerOf[obj]
	if src == nil {
		return nil
	}
	if src.fromDecl && (ex.reassigned[obj] || ex.reassigned[src.keyObj]) {
		ex.oof(arg.Pos(), "in-place change of slice %s read from a map element and reassigned since (aliasing not modelled)", id.Name)
	}
	return src
}

// writeBackContainer: after an in-place change of a slice variable read from m[k] (range value or v := m[k]) the
// element m[k] holds the changed slice as well (they share the backing array; the length is unchanged).
func (ex *Exec) writeBackContainer(st *State, arg ast.Expr, nv Val) {
	src := ex.containerSrcOf(arg)
	if src == nil {
		return
	}
	if src.loopKey != "" {
		key, ok := st.extra[src.loopKey]
		if !ok {
			ex.oof(arg.Pos(), "in-place change of a range value outside its loop (aliasing not modelled)")
			return
		}
		ex.checkMapParamWrite(arg.Pos(), src.X)
		ex.eval(st, src.X, func(st2 *State, m Val) {
			nm := ex.share(st2, mapStore(ex.share(st2, m), key.T, nv.T))
			nm.GoT = ex.typeOf(src.X)
			ex.assignTo(st2, src.X, nm, func(*State) {})
		})
		return
	}
	ex.assignTo(st, &ast.IndexExpr{X: src.X, Lbrack: arg.Pos(), Index: src.Key, Rbrack: arg.Pos()}, nv, func(*State) {})
}
