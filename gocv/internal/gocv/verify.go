package gocv

import (
	"fmt"
	"go/ast"
	"go/token"
	"go/types"
	"strings"

	"golang.org/x/tools/go/packages"
)

// FuncResult is what verifying one function produced.
type FuncResult struct {
	Key         string
	Name        string
	Queries     []*Query
	Failures    []string // out-of-fragment / contract mismatch: each is a failed obligation
	Paths       int
	Uncontracted []string
	Assumptions []string
	Props       []string
}

func (ex *Exec) fail(pos token.Pos, format string, a ...any) {
	msg := fmt.Sprintf(format, a...)
	if p := ex.posStr(pos); p != "" {
		msg = p + ": " + msg
	}
	for _, f := range ex.failures {
		if f == msg {
			return
		}
	}
	ex.failures = append(ex.failures, msg)
}

func (ex *Exec) oblName(kind string, ord, i int, cl *Clause) string {
	label := cl.Label
	if label == "" {
		label = fmt.Sprint(i)
	}
	switch kind {
	case "post":
		return fmt.Sprintf("%s#post[%s]", ex.name, label)
	case "assert":
		return fmt.Sprintf("%s#assert[%s]", ex.name, label)
	}
	return fmt.Sprintf("%s#%s[%d.%s]", ex.name, kind, ord, label)
}

func (ex *Exec) envAt(st *State, pos token.Pos) *Env {
	env := &Env{ex: ex, names: map[string]Val{}, cur: st, old: ex.old, pos: pos, pkg: ex.pkg.Types}
	if ex.fc != nil {
		env.pureCallbacks = ex.fc.PureCallbacks
	}
	for k, v := range st.extra {
		env.names[k] = v
	}
	return env
}

func (ex *Exec) assertClause(st *State, env *Env, kind string, i int, cl *Clause, pos token.Pos) {
	ex.assertClauseNamed(st, env, ex.oblName(kind, 0, i, cl), cl, pos)
}

func (ex *Exec) assertClauseNamed(st *State, env *Env, name string, cl *Clause, pos token.Pos) {
	t, err := env.elabBool(cl.Expr)
	if err != nil {
		ex.fail(pos, "%s: %q: %v", name, cl.Src, err)
		return
	}
	props := cl.Props
	if len(props) == 0 {
		props = ex.props
	}
	q := &Query{Name: name, Path: ex.paths, Assumes: append([]string(nil), st.pc...), Goal: t, Pos: ex.posStr(pos), Property: props}
	if cl.Canary {
		q.Expect = "fail"
	}
	ex.queries = append(ex.queries, q)
}

// VerifyFunc generates the verification conditions of one function under contract.
func VerifyFunc(ld *Loader, cs *Contracts, key string) (res *FuncResult) {
	fc := cs.Funcs[key]
	res = &FuncResult{Key: key, Name: shortObl(key), Props: fc.Props}
	decl := ld.decls[key]
	pkg := ld.declPkg[key]
	if decl == nil || pkg == nil || decl.Body == nil {
		res.Failures = append(res.Failures, fmt.Sprintf("%s: function under contract not found in the source tree", key))
		return
	}
	ex := newExec(ld, cs, pkg)
	ex.fc = fc
	ex.decl = decl
	ex.fn = pkg.TypesInfo.Defs[decl.Name].(*types.Func)
	ex.name = res.Name
	ex.props = fc.Props
	for _, r := range fc.Reveal {
		ex.reveal[r] = true
	}
	defer func() {
		if r := recover(); r != nil {
			switch e := r.(type) {
			case *oofError:
				ex.fail(e.pos, "out-of-fragment: %s", e.what)
			case *elabError:
				ex.fail(token.NoPos, "spec error: %s", e.msg)
			default:
				panic(r)
			}
		}
		ex.finish(res)
	}()
	if tps := ex.fn.Type().(*types.Signature).TypeParams(); tps.Len() > 0 {
		ex.tparams = map[string]types.Type{}
		for i := 0; i < tps.Len(); i++ {
			ex.tparams[tps.At(i).Obj().Name()] = tps.At(i)
		}
	}
	ex.prepare(decl)
	st := &State{vars: map[types.Object]Val{}, heap: map[string]string{}, ghost: map[string]string{}, extra: map[string]Val{}, compEpoch: map[string]int{}, pureInst: map[string]bool{}}
	alloc0 := ex.fresh("alloc0", SInt)
	st.assume(app(">=", alloc0, "0"))
	st.alloc = alloc0
	sig := ex.fn.Type().(*types.Signature)
	entry := map[string]Val{}
	bind := func(v *types.Var) {
		if v == nil || v.Name() == "" || v.Name() == "_" {
			return
		}
		val := ex.freshWf(st, v.Name(), v.Type())
		if val.S.K == KRef {
			st.assume(app("<=", val.T, alloc0))
		}
		if ex.boxed[v] {
			p := ex.allocRef(st, v.Name())
			p.GoT = types.NewPointer(v.Type())
			st.vars[v] = p
			ex.store(st, p, v.Type(), val)
		} else {
			st.vars[v] = val
		}
		entry[v.Name()] = val
		ex.inputs = append(ex.inputs, val.T)
	}
	if r := sig.Recv(); r != nil {
		bind(r)
		if r.Name() != "" && r.Name() != "_" {
			entry["this"] = entry[r.Name()]
		}
	}
	for i := 0; i < sig.Params().Len(); i++ {
		bind(sig.Params().At(i))
	}
	var results []*types.Var
	for i := 0; i < sig.Results().Len(); i++ {
		rv := sig.Results().At(i)
		if rv.Name() != "" && rv.Name() != "_" {
			s := ex.sortOf(rv.Type())
			ex.writeVar(st, rv, Val{T: zeroOf(s), S: s, GoT: rv.Type()})
			results = append(results, rv)
		} else {
			results = append(results, nil)
		}
	}
	// use-axioms
	for _, an := range fc.Use {
		ex.useAxiom(an)
	}
	// requires
	preEnv := ex.envAt(st, decl.Body.Lbrace)
	for k, v := range entry {
		preEnv.names[k] = v
	}
	for _, rq := range fc.Requires {
		t, err := preEnv.elabBool(rq.Expr)
		if err != nil {
			ex.fail(decl.Pos(), "requires %q: %v", rq.Src, err)
			continue
		}
		st.assume(t)
	}
	ex.old = st.clone()
	// vacuity probe: the precondition (with axioms) must be satisfiable
	ex.queries = append(ex.queries, &Query{Name: ex.name + "#vacuity[requires]", Assumes: append([]string(nil), st.pc...), Goal: "true", Expect: "sat", Property: fc.Props, Pos: ex.posStr(decl.Pos())})
	rnames := resultNames(fc, sig)
	c := &ctl{brk: map[string]func(*State){}, cont: map[string]func(*State){}, results: results}
	st.defers = append(st.defers, nil)
	c.ret = func(st *State, vals []Val) {
		if vals != nil {
			for j, r := range results {
				if j < len(vals) {
					vals[j] = ex.convert(st, vals[j], sig.Results().At(j).Type())
					if r != nil {
						ex.writeVar(st, r, vals[j])
					}
				}
			}
		}
		ex.runDefers(st, func(st2 *State) {
			out := make([]Val, len(results))
			for j := range out {
				if results[j] != nil {
					out[j] = ex.readVar(st2, results[j])
				} else if vals != nil && j < len(vals) {
					out[j] = vals[j]
				} else {
					ex.oof(decl.Pos(), "bare return with unnamed results")
				}
			}
			env := ex.envAt(st2, decl.Body.Rbrace)
			for k, v := range entry {
				if v.S.K == KMap {
					continue // maps mutated in place: the name denotes the final contents
				}
				env.names[k] = v
			}
			for j, n := range rnames {
				env.names[n] = out[j]
			}
			for i, en := range fc.Ensures {
				ex.assertClause(st2, env, "post", i, en, decl.Body.Rbrace)
			}
			ex.frameChecks(st2, env)
			ex.paths++
		})
	}
	ex.stmts(st, decl.Body.List, c, func(st2 *State) { c.ret(st2, nil) })
	return
}

// frameChecks: ghost variables and heap components not listed in modifies are unchanged.
func (ex *Exec) frameChecks(st *State, env *Env) {
	mods := map[string]bool{}
	heapAll := false
	for _, m := range ex.fc.Modifies {
		if m == "heap" {
			heapAll = true
		}
		if strings.HasPrefix(m, "heap ") {
			mods["heap:"+ex.qualifyComp(strings.TrimSpace(strings.TrimPrefix(m, "heap ")), ex.fc)] = true
		}
		mods[m] = true
	}
	for g := range st.ghost {
		if mods["ghost."+g] {
			continue
		}
		oldT, ok := ex.old.ghost[g]
		if !ok {
			oldT = ex.ghostGet(ex.old, ex.cs.Ghost[g]).T
		}
		cur := st.ghost[g]
		if cur == oldT {
			continue
		}
		cl := &Clause{Label: "ghost." + g, Src: "ghost." + g + " unchanged (not in modifies)"}
		ex.queries = append(ex.queries, &Query{Name: fmt.Sprintf("%s#frame[ghost.%s]", ex.name, g), Path: ex.paths, Assumes: append([]string(nil), st.pc...), Goal: eq(cur, oldT), Property: ex.props})
		_ = cl
	}
	if heapAll {
		return
	}
	if st.heapDirty {
		ex.queries = append(ex.queries, &Query{Name: fmt.Sprintf("%s#frame[heap]", ex.name), Path: ex.paths, Assumes: append([]string(nil), st.pc...), Goal: "false", Property: ex.props, Pos: "an uncontracted or heap-modifying call is made but `modifies heap` is not declared"})
		return
	}
	alloc0 := ex.old.alloc
	for comp, cur := range st.heap {
		if mods["heap:"+comp] {
			continue
		}
		oldT, ok := ex.old.heap[comp]
		if !ok {
			oldT = fmt.Sprintf("|H_%s_e0|", comp)
			ex.declare(fmt.Sprintf("(declare-const %s (Array Ref %s))", oldT, ex.heapComps[comp].Name))
		}
		if cur == oldT {
			continue
		}
		goal := fmt.Sprintf("(forall ((q_r Int)) (=> (<= q_r %s) (= (select %s q_r) (select %s q_r))))", alloc0, cur, oldT)
		ex.queries = append(ex.queries, &Query{Name: fmt.Sprintf("%s#frame[heap %s]", ex.name, comp), Path: ex.paths, Assumes: append([]string(nil), st.pc...), Goal: goal, Property: ex.props})
	}
}

func (ex *Exec) useAxiom(name string) {
	ax, ok := ex.cs.Axioms[name]
	if !ok {
		ex.fail(token.NoPos, "use of unknown axiom/lemma %s", name)
		return
	}
	for _, r := range ax.Reveal {
		_ = r
	}
	env := &Env{ex: ex, names: map[string]Val{}, pkg: ex.typesPkgFor(ax.PkgPath, ex.pkg.Types)}
	t, err := env.elabBool(ax.Expr)
	if err != nil {
		ex.fail(token.NoPos, "axiom %s: %v", name, err)
		return
	}
	ex.axioms = append(ex.axioms, t)
	ex.usedAxioms[name] = true
}

func shortObl(key string) string {
	k := strings.TrimPrefix(key, repoModule+"/private/")
	// pkg/path.Recv.Name -> lastpkg.Recv.Name
	if i := strings.LastIndex(k, "/"); i >= 0 {
		k = k[i+1:]
	}
	return k
}

// prepare computes loop/closure ordinals and variable classes.
func (ex *Exec) prepare(decl *ast.FuncDecl) {
	info := ex.info
	nl, nc := 0, 0
	ex.closureOfVar = map[*types.Var]*ast.FuncLit{}
	ex.containerOf = map[*types.Var]*containerSrc{}
	ex.allLits = map[*ast.FuncLit]bool{}
	ex.freshSliceVars = map[*types.Var]bool{}
	notFresh := map[*types.Var]bool{}
	notFreshPtr := map[*types.Var]bool{}
	isFreshExpr := func(e ast.Expr, self *types.Var) bool {
		switch x := unparen(e).(type) {
		case *ast.CompositeLit:
			return true
		case *ast.Ident:
			return x.Name == "nil"
		case *ast.CallExpr:
			if id, ok := unparen(x.Fun).(*ast.Ident); ok {
				if _, ok := info.Uses[id].(*types.Builtin); ok {
					if id.Name == "make" {
						return true
					}
					if id.Name == "append" {
						if a, ok := unparen(x.Args[0]).(*ast.Ident); ok {
							if o, _ := info.Uses[a].(*types.Var); o == self {
								return true
							}
						}
					}
				}
			}
			// standard-library functions documented to return a newly allocated slice (listed assumption)
			if sel, ok := unparen(x.Fun).(*ast.SelectorExpr); ok {
				if fn, ok := info.Uses[sel.Sel].(*types.Func); ok && fn.Pkg() != nil && freshSliceStdFuncs[fn.Pkg().Path()+"."+fn.Name()] {
					return true
				}
			}
		}
		return false
	}
	ast.Inspect(decl.Body, func(n ast.Node) bool {
		switch s := n.(type) {
		case *ast.ForStmt, *ast.RangeStmt:
			ex.loopOrd[n] = nl
			nl++
			if rs, ok := n.(*ast.RangeStmt); ok && rs.Tok == token.DEFINE {
				// for k, v := range m with slice-typed values of a map: v shares its backing array with m[k]
				kid, _ := rs.Key.(*ast.Ident)
				vid, _ := rs.Value.(*ast.Ident)
				if vid != nil && vid.Name != "_" {
					if tv, ok := info.Types[rs.X]; ok && tv.Type != nil {
						if mt, ok := under(tv.Type).(*types.Map); ok {
							if _, ok := under(mt.Elem()).(*types.Slice); ok {
								if vo, ok := info.Defs[vid].(*types.Var); ok {
									if kid != nil && kid.Name != "_" {
										ex.containerOf[vo] = &containerSrc{X: rs.X, Key: kid, keyObj: info.Defs[kid]}
									} else if rs.Key == nil || kid != nil {
										// blank key: the key of the current iteration is the loop's $key
										ex.containerOf[vo] = &containerSrc{X: rs.X, loopKey: fmt.Sprintf("$key%d", nl-1)}
									}
								}
							}
						}
					}
				}
			}
		case *ast.FuncLit:
			ex.cloOrd[s] = nc
			nc++
			ex.allLits[s] = true
		case *ast.UnaryExpr:
			if s.Op == token.AND {
				if id, ok := unparen(s.X).(*ast.Ident); ok {
					if o, ok := info.Uses[id].(*types.Var); ok {
						ex.boxed[o] = true
					}
				}
			}
		case *ast.CallExpr:
			if sel, ok := unparen(s.Fun).(*ast.SelectorExpr); ok {
				if se := info.Selections[sel]; se != nil && se.Kind() == types.MethodVal {
					if fn, ok := se.Obj().(*types.Func); ok {
						rt := fn.Type().(*types.Signature).Recv().Type()
						_, wantPtr := rt.(*types.Pointer)
						if wantPtr && len(se.Index()) == 1 {
							if id, ok := unparen(sel.X).(*ast.Ident); ok {
								if o, ok := info.Uses[id].(*types.Var); ok {
									if _, isPtr := under(o.Type()).(*types.Pointer); !isPtr {
										ex.boxed[o] = true
									}
								}
							}
						}
					}
				}
			}
		case *ast.IncDecStmt:
			if id, ok := unparen(s.X).(*ast.Ident); ok {
				if o := info.Uses[id]; o != nil {
					ex.reassigned[o] = true
				}
			}
		case *ast.AssignStmt:
			if s.Tok != token.DEFINE {
				for _, l := range s.Lhs {
					if id, ok := unparen(l).(*ast.Ident); ok {
						if o := info.Uses[id]; o != nil {
							ex.reassigned[o] = true
						}
					}
				}
			} else {
				for _, l := range s.Lhs {
					if id, ok := l.(*ast.Ident); ok {
						if o := info.Uses[id]; o != nil { // redeclaration in := assigns an existing variable
							ex.reassigned[o] = true
						}
					}
				}
			}
			for i, l := range s.Lhs {
				id, ok := l.(*ast.Ident)
				if !ok {
					continue
				}
				var o *types.Var
				if d, ok := info.Defs[id].(*types.Var); ok {
					o = d
				} else if u, ok := info.Uses[id].(*types.Var); ok {
					o = u
				}
				if o == nil {
					continue
				}
				if _, isMap := under(o.Type()).(*types.Map); isMap {
					// value semantics are only sound for maps that are not aliases of another map
					var rhs ast.Expr
					if len(s.Rhs) == len(s.Lhs) {
						rhs = unparen(s.Rhs[i])
					} else if len(s.Rhs) == 1 {
						rhs = unparen(s.Rhs[0]) // v, ok := outer[k]
					}
					switch r := rhs.(type) {
					case *ast.IndexExpr, *ast.SelectorExpr, *ast.StarExpr, *ast.TypeAssertExpr:
						ex.aliasMapVars[o] = true
					case *ast.Ident:
						if r.Name != "nil" {
							ex.aliasMapVars[o] = true
						}
					}
				}
				if _, isStruct := under(o.Type()).(*types.Struct); isStruct && len(s.Rhs) == len(s.Lhs) {
					// a local struct VALUE built by a composite literal: slices made inside the literal are fresh
					if _, ok := unparen(s.Rhs[i]).(*ast.CompositeLit); ok && s.Tok == token.DEFINE {
						ex.freshStructVars[o] = true
					} else {
						delete(ex.freshStructVars, o)
					}
				}
				if _, isPtr := under(o.Type()).(*types.Pointer); isPtr {
					fresh := false
					if len(s.Rhs) == len(s.Lhs) {
						if u, ok := unparen(s.Rhs[i]).(*ast.UnaryExpr); ok && u.Op == token.AND {
							if _, ok := unparen(u.X).(*ast.CompositeLit); ok {
								fresh = true
							}
						}
					}
					if fresh && !notFreshPtr[o] {
						ex.freshPtrVars[o] = true
					} else {
						notFreshPtr[o] = true
						delete(ex.freshPtrVars, o)
					}
				}
				if i == 0 && len(s.Rhs) == 1 && s.Tok == token.DEFINE {
					// v := m[k] / v, ok := m[k] with a slice-typed element of a map and a plain variable as key
					if ix, ok := unparen(s.Rhs[0]).(*ast.IndexExpr); ok {
						if tv, ok := info.Types[ix.X]; ok && tv.Type != nil {
							if mt, ok := under(tv.Type).(*types.Map); ok {
								if _, ok := under(mt.Elem()).(*types.Slice); ok {
									if kid, ok := unparen(ix.Index).(*ast.Ident); ok && info.Uses[kid] != nil {
										ex.containerOf[o] = &containerSrc{X: ix.X, Key: kid, keyObj: info.Uses[kid], fromDecl: true}
									}
								}
							}
						}
					}
				}
				if len(s.Rhs) == len(s.Lhs) {
					if lit, ok := unparen(s.Rhs[i]).(*ast.FuncLit); ok {
						ex.closureOfVar[o] = lit
					}
					if _, isSlice := under(o.Type()).(*types.Slice); isSlice {
						if isFreshExpr(s.Rhs[i], o) {
							ex.freshSliceVars[o] = true
						} else {
							notFresh[o] = true
						}
					}
				} else if _, isSlice := under(o.Type()).(*types.Slice); isSlice {
					notFresh[o] = true
				}
			}
		case *ast.ValueSpec:
			for i, nm := range s.Names {
				o, ok := info.Defs[nm].(*types.Var)
				if !ok {
					continue
				}
				if _, isSlice := under(o.Type()).(*types.Slice); isSlice {
					if len(s.Values) == 0 || (i < len(s.Values) && isFreshExpr(s.Values[i], o)) {
						ex.freshSliceVars[o] = true
					} else {
						notFresh[o] = true
					}
				}
			}
		}
		return true
	})
	for o := range notFresh {
		delete(ex.freshSliceVars, o)
	}
	// parameters are never fresh
	sig := ex.fn.Type().(*types.Signature)
	for i := 0; i < sig.Params().Len(); i++ {
		delete(ex.freshSliceVars, sig.Params().At(i))
	}
}

// freshSliceStdFuncs: standard-library functions whose slice result is newly allocated (never aliases an argument or
// shared storage), so element writes through a variable initialised from them are alias-free.
var freshSliceStdFuncs = map[string]bool{
	"strings.Split": true, "strings.SplitN": true, "strings.SplitAfter": true, "strings.SplitAfterN": true,
	"strings.Fields": true, "strings.FieldsFunc": true, "slices.Clone": true, "bytes.Clone": true,
}

func (ex *Exec) finish(res *FuncResult) {
	// contract parts that matched nothing in the code: the contract is out of date
	if ex.fc != nil {
		for ord := range ex.fc.Loops {
			if !ex.loopHit[ord] && len(ex.failures) == 0 {
				ex.fail(token.NoPos, "contract out of date: loop %d of %s not found", ord, ex.name)
			}
		}
		for ord := range ex.fc.Closures {
			if !ex.cloHit[ord] && len(ex.failures) == 0 {
				ex.fail(token.NoPos, "contract out of date: closure %d of %s is not the callback of an iterator call", ord, ex.name)
			}
		}
		for i, a := range ex.fc.Asserts {
			if !ex.assertHit[i] && len(ex.failures) == 0 {
				ex.fail(token.NoPos, "contract out of date: no statement starts with %q in %s", a.Before, ex.name)
			}
		}
		for i, g := range ex.fc.GhostUpd {
			if !ex.ghostUpdHit[i] && len(ex.failures) == 0 {
				ex.fail(token.NoPos, "contract out of date: no statement starts with %q in %s", g.Anchor, ex.name)
			}
		}
		for _, sk := range ex.fc.Skip {
			if !ex.skipHit[sk] && len(ex.failures) == 0 {
				ex.fail(token.NoPos, "contract out of date: no statement starts with %q in %s", sk, ex.name)
			}
		}
	}
	for _, q := range ex.queries {
		q.Decls = ex.declsList
		q.Assumes = append(append([]string(nil), ex.axioms...), q.Assumes...)
		q.Inputs = ex.inputs
		txt := strings.Join(q.Assumes, " ") + q.Goal + strings.Join(ex.declsList, " ")
		q.Strings = strings.Contains(strings.Join(q.Assumes, " ")+q.Goal, "str.")
		q.Quant = strings.Contains(txt, "forall") || strings.Contains(txt, "exists") || strings.Contains(txt, "define-fun-rec")
	}
	res.Queries = ex.queries
	res.Failures = ex.failures
	res.Paths = ex.paths
	for k := range ex.uncontracted {
		res.Uncontracted = append(res.Uncontracted, k)
	}
	for k := range ex.assumptions {
		res.Assumptions = append(res.Assumptions, k)
	}
	for k := range ex.intrinsics {
		res.Assumptions = append(res.Assumptions, "trusted intrinsic: "+k)
	}
}

var _ = packages.NeedName
