package gocv

import (
	"bytes"
	"context"
	"fmt"
	"os"
	"os/exec"
	"path/filepath"
	"sort"
	"strings"
	"sync"
	"sync/atomic"
	"time"
)

// ---------- sorts ----------

type SortKind int

const (
	KBool SortKind = iota
	KInt
	KString
	KRef
	KSlice
	KMap
	KSet
	KStruct
	KUninterp
	KReal
)

// Sort describes an SMT sort together with enough structure to pick operators.
type Sort struct {
	K      SortKind
	Name   string // SMT sort text
	Elem   *Sort  // slice / set element, map value
	Key    *Sort  // map key
	Fields []Field
	GoName string // for structs: qualified Go type name
}

type Field struct {
	Name string
	S    *Sort
}

var (
	SBool   = &Sort{K: KBool, Name: "Bool"}
	SInt    = &Sort{K: KInt, Name: "Int"}
	SString = &Sort{K: KString, Name: "String"}
	SRef    = &Sort{K: KRef, Name: "Ref"}
	SReal   = &Sort{K: KReal, Name: "Real"}
)

func SliceOf(e *Sort) *Sort { return &Sort{K: KSlice, Name: "(Slice " + e.Name + ")", Elem: e} }
func MapOf(k, v *Sort) *Sort {
	return &Sort{K: KMap, Name: "(Map " + k.Name + " " + v.Name + ")", Key: k, Elem: v}
}
func SetOf(e *Sort) *Sort { return &Sort{K: KSet, Name: "(Array " + e.Name + " Bool)", Elem: e} }
func Uninterp(name string) *Sort {
	return &Sort{K: KUninterp, Name: name}
}

func (s *Sort) String() string { return s.Name }

func sameSort(a, b *Sort) bool { return a.Name == b.Name }

const smtPrelude = `(set-logic ALL)
(define-sort Ref () Int)
(declare-datatypes ((Slice 1)) ((par (T) ((mk-slice (s-arr (Array Int T)) (s-len Int) (s-nil Bool))))))
(declare-datatypes ((Map 2)) ((par (K V) ((mk-map (m-dom (Array K Bool)) (m-val (Array K V)) (m-size Int) (m-nil Bool))))))
`

// ---------- term helpers ----------

func mkSlice(s *Sort, arr, n, isNil string) string {
	return "((as mk-slice " + s.Name + ") " + arr + " " + n + " " + isNil + ")"
}

func mkMap(s *Sort, dom, val, size, isNil string) string {
	return "((as mk-map " + s.Name + ") " + dom + " " + val + " " + size + " " + isNil + ")"
}

func app(f string, args ...string) string {
	if len(args) == 0 {
		return f
	}
	return "(" + f + " " + strings.Join(args, " ") + ")"
}

func and(xs ...string) string {
	var ys []string
	for _, x := range xs {
		if x == "true" {
			continue
		}
		if x == "false" {
			return "false"
		}
		ys = append(ys, x)
	}
	switch len(ys) {
	case 0:
		return "true"
	case 1:
		return ys[0]
	}
	return app("and", ys...)
}

func or(xs ...string) string {
	var ys []string
	for _, x := range xs {
		if x == "false" {
			continue
		}
		if x == "true" {
			return "true"
		}
		ys = append(ys, x)
	}
	switch len(ys) {
	case 0:
		return "false"
	case 1:
		return ys[0]
	}
	return app("or", ys...)
}

func not(x string) string {
	switch x {
	case "true":
		return "false"
	case "false":
		return "true"
	}
	if strings.HasPrefix(x, "(not ") && balanced(x[5:len(x)-1]) {
		return x[5 : len(x)-1]
	}
	return app("not", x)
}

func balanced(s string) bool {
	d := 0
	inStr := false
	for i := 0; i < len(s); i++ {
		c := s[i]
		if inStr {
			if c == '"' {
				inStr = false
			}
			continue
		}
		switch c {
		case '"':
			inStr = true
		case '(':
			d++
		case ')':
			d--
			if d < 0 {
				return false
			}
		}
	}
	return d == 0
}

func implies(a, b string) string {
	if a == "true" {
		return b
	}
	if a == "false" || b == "true" {
		return "true"
	}
	return app("=>", a, b)
}

func eq(a, b string) string {
	if a == b {
		return "true"
	}
	return app("=", a, b)
}

func ite(c, a, b string) string {
	if c == "true" {
		return a
	}
	if c == "false" {
		return b
	}
	if a == b {
		return a
	}
	return app("ite", c, a, b)
}

func intLit(n int64) string {
	if n < 0 {
		return fmt.Sprintf("(- %d)", -n)
	}
	return fmt.Sprintf("%d", n)
}

// smtString renders a Go string as an SMT-LIB 2.6 string literal.
func smtString(s string) string {
	var b strings.Builder
	b.WriteByte('"')
	for _, r := range []byte(s) {
		switch {
		case r == '"':
			b.WriteString(`""`)
		case r == '\\':
			b.WriteString(`\u{5c}`)
		case r >= 0x20 && r < 0x7f:
			b.WriteByte(r)
		default:
			fmt.Fprintf(&b, `\u{%x}`, r)
		}
	}
	b.WriteByte('"')
	return b.String()
}

// zero value term of a sort
func zeroOf(s *Sort) string {
	switch s.K {
	case KBool:
		return "false"
	case KInt, KRef:
		return "0"
	case KReal:
		return "0.0"
	case KString:
		return `""`
	case KSlice:
		return mkSlice(s, fmt.Sprintf("((as const (Array Int %s)) %s)", s.Elem.Name, zeroOf(s.Elem)), "0", "true")
	case KMap:
		return mkMap(s, fmt.Sprintf("((as const (Array %s Bool)) false)", s.Key.Name), fmt.Sprintf("((as const (Array %s %s)) %s)", s.Key.Name, s.Elem.Name, zeroOf(s.Elem)), "0", "true")
	case KSet:
		return fmt.Sprintf("((as const (Array %s Bool)) false)", s.Elem.Name)
	case KStruct:
		var args []string
		for _, f := range s.Fields {
			args = append(args, zeroOf(f.S))
		}
		return app("mk_"+s.Name, args...)
	case KUninterp:
		return "zero_" + s.Name
	}
	panic("zeroOf: " + s.Name)
}

// ---------- queries and solving ----------

type Query struct {
	Name     string   // obligation name
	Path     int      // path ordinal
	Decls    []string // declarations (sorts, funs, consts) in order
	Assumes  []string
	Goal     string // to be proved under Assumes
	Pos      string
	Inputs   []string // names of constants to ask values for on sat
	Strings  bool
	Quant    bool
	Expect   string // "" normal; "fail" for canaries (must NOT be unsat); "sat" for vacuity probes (must not be unsat)
	Property []string
	ShortBudget bool // quick tier, obligation listed as a known finding
}

type Result struct {
	Q       *Query
	Status  string // unsat | sat | unknown | timeout | error
	Solver  string
	Millis  int64
	Model   string
	Output  string
	Attempt []string
	// cross-check outcome: "" (not run), "agree" (another solver also says unsat), "single" (the
	// others gave no verdict), "disagree" (another solver says sat)
	Cross string
}

type SolverCfg struct {
	WorkDir   string
	TimeoutMs int
	Seed      int
	Jobs      int
	// CrossCheck (thorough tier): every "unsat" is re-examined by the other solvers; a "sat" from
	// any of them is a disagreement and the obligation is not counted as discharged.
	CrossCheck bool
}

type solverSpec struct {
	name string
	argv func(file string, timeoutMs int, seed int) []string
}

var solvers = map[string]solverSpec{
	"z3": {"z3", func(f string, t, seed int) []string {
		return []string{"z3", fmt.Sprintf("-t:%d", t), fmt.Sprintf("smt.random_seed=%d", seed), f}
	}},
	"z3-new": {"z3-new", func(f string, t, seed int) []string {
		return []string{"z3-new", fmt.Sprintf("-t:%d", t), fmt.Sprintf("smt.random_seed=%d", seed), f}
	}},
	"cvc5": {"cvc5", func(f string, t, seed int) []string {
		return []string{"cvc5", "--strings-exp", fmt.Sprintf("--tlimit-per=%d", t), fmt.Sprintf("--seed=%d", seed), "--produce-models", f}
	}},
}

func (q *Query) Text(withModel bool) string {
	var b strings.Builder
	b.WriteString(smtPrelude)
	seen := map[string]bool{}
	for _, d := range q.Decls {
		if seen[d] {
			continue
		}
		seen[d] = true
		b.WriteString(d)
		b.WriteByte('\n')
	}
	for _, a := range q.Assumes {
		if a == "true" {
			continue
		}
		b.WriteString("(assert ")
		b.WriteString(a)
		b.WriteString(")\n")
	}
	goal := q.Goal
	if q.Expect == "" {
		decls, ng, extra := skolemize(q.Goal, q.Assumes, 0)
		for _, d := range decls {
			b.WriteString(d + "\n")
		}
		for _, e := range extra {
			b.WriteString("(assert " + e + ")\n")
		}
		goal = ng
	}
	if q.Expect == "sat" {
		// vacuity probe: assumptions alone
		if q.Goal != "" && q.Goal != "true" {
			b.WriteString("(assert " + q.Goal + ")\n")
		}
	} else {
		b.WriteString("(assert (not ")
		b.WriteString(goal)
		b.WriteString("))\n")
	}
	b.WriteString("(check-sat)\n")
	if withModel && len(q.Inputs) > 0 {
		b.WriteString("(get-value (" + strings.Join(q.Inputs, " ") + "))\n")
	}
	return b.String()
}

var queryCounter int64

func runSolver(ctx context.Context, cfg *SolverCfg, which string, text string, timeoutMs int) (status, out string, ms int64) {
	n := atomic.AddInt64(&queryCounter, 1)
	file := filepath.Join(cfg.WorkDir, fmt.Sprintf("q%d_%s.smt2", n, which))
	if which == "cvc5" {
		// cvc5 wants produce-models before set-logic; the flag handles that.
	}
	if err := os.WriteFile(file, []byte(text), 0o644); err != nil {
		return "error", err.Error(), 0
	}
	defer os.Remove(file)
	spec := solvers[which]
	argv := spec.argv(file, timeoutMs, cfg.Seed)
	cctx, cancel := context.WithTimeout(ctx, time.Duration(timeoutMs+1500)*time.Millisecond)
	defer cancel()
	cmd := exec.CommandContext(cctx, argv[0], argv[1:]...)
	var buf bytes.Buffer
	cmd.Stdout = &buf
	cmd.Stderr = &buf
	start := time.Now()
	_ = cmd.Run()
	ms = time.Since(start).Milliseconds()
	out = buf.String()
	first := strings.TrimSpace(strings.SplitN(out, "\n", 2)[0])
	switch first {
	case "unsat", "sat", "unknown":
		status = first
	case "timeout":
		status = "timeout"
	default:
		if cctx.Err() != nil {
			status = "timeout"
		} else if strings.Contains(out, "timeout") || strings.Contains(out, "interrupted") {
			status = "timeout"
		} else {
			status = "error"
		}
	}
	return
}

// solverOrder picks the order in which back ends are tried.
func solverOrder(q *Query) []string {
	if q.Strings {
		return []string{"cvc5", "z3-new", "z3"}
	}
	if q.Quant {
		return []string{"z3-new", "z3", "cvc5"}
	}
	return []string{"z3", "z3-new", "cvc5"}
}

// Solve tries the preferred solver with a short budget first, then races the
// remaining ones with the full budget.
func Solve(ctx context.Context, cfg *SolverCfg, q *Query) *Result {
	res := &Result{Q: q}
	if q.Expect == "" && q.Goal == "true" {
		res.Status = "unsat"
		res.Solver = "simplifier"
		return res
	}
	text := q.Text(true)
	order := solverOrder(q)
	first := cfg.TimeoutMs
	if first > 2500 {
		first = 2500
	}
	st, out, ms := runSolver(ctx, cfg, order[0], text, first)
	res.Attempt = append(res.Attempt, fmt.Sprintf("%s:%s:%dms", order[0], st, ms))
	res.Millis += ms
	if st == "unsat" || st == "sat" {
		res.Status, res.Solver, res.Output = st, order[0], out
		if st == "sat" {
			res.Model = modelPart(out)
		}
		return res
	}
	if q.Expect != "" || q.ShortBudget {
		// canaries and vacuity probes only need "not refuted" (and known findings "still not proved"):
		// one short attempt on a second solver
		if len(order) > 1 {
			st2, out2, ms2 := runSolver(ctx, cfg, order[1], text, first)
			res.Attempt = append(res.Attempt, fmt.Sprintf("%s:%s:%dms", order[1], st2, ms2))
			res.Millis += ms2
			if st2 == "unsat" || st2 == "sat" {
				res.Status, res.Solver, res.Output = st2, order[1], out2
				return res
			}
		}
		res.Status, res.Solver, res.Output = st, order[0], out
		return res
	}
	firstOut := out
	// race the others (and the first again with the full budget if it timed out)
	type r struct {
		st, out, name string
		ms            int64
	}
	rest := order[1:]
	// z3 prints "unknown" (not "timeout") when -t expires: treat an unknown close to the limit as a timeout
	if (st == "timeout" || (st == "unknown" && ms >= int64(first)-400)) && cfg.TimeoutMs > first {
		rest = append(rest, order[0])
	}
	cctx, cancel := context.WithCancel(ctx)
	defer cancel()
	// together with one seed variant of each z3 (some obligations are decided in a second under one random
	// seed and not at all under another; any unsat is a proof)
	type job struct {
		name string
		seed int
	}
	var jobs []job
	for _, name := range rest {
		jobs = append(jobs, job{name, cfg.Seed})
	}
	for _, name := range order {
		if name != "cvc5" {
			jobs = append(jobs, job{name, cfg.Seed + 100})
		}
	}
	ch := make(chan r, len(jobs))
	for _, j := range jobs {
		go func(j job) {
			cc := *cfg
			cc.Seed = j.seed
			s, o, m := runSolver(cctx, &cc, j.name, text, cfg.TimeoutMs)
			name := j.name
			if j.seed != cfg.Seed {
				name = fmt.Sprintf("%s(seed %d)", j.name, j.seed)
			}
			ch <- r{s, o, name, m}
		}(j)
	}
	best := r{st: st, out: firstOut, name: order[0]}
	for range jobs {
		x := <-ch
		res.Attempt = append(res.Attempt, fmt.Sprintf("%s:%s:%dms", x.name, x.st, x.ms))
		if x.ms > res.Millis {
			res.Millis = x.ms
		}
		if x.st == "unsat" || x.st == "sat" {
			res.Status, res.Solver, res.Output = x.st, x.name, x.out
			if x.st == "sat" {
				res.Model = modelPart(x.out)
			}
			cancel()
			return res
		}
		if best.st == "error" && x.st != "error" {
			best = x
		}
	}
	res.Status, res.Solver, res.Output = best.st, best.name, best.out
	// No verdict under this random seed is not a verdict about the obligation: a second round with other seeds
	// (a failed proof attempt proves nothing, so trying again is always legitimate; an unsat found by any
	// configuration is a proof). Only undecided obligations pay for it.
	type r2 struct {
		st, out, name string
		ms            int64
	}
	var alts []struct {
		name string
		seed int
	}
	for _, d := range []int{2, 3} {
		for _, name := range order {
			if name != "cvc5" {
				alts = append(alts, struct {
					name string
					seed int
				}{name, cfg.Seed + 100*d})
			}
		}
	}
	c2, cancel2 := context.WithCancel(ctx)
	defer cancel2()
	ch2 := make(chan r2, len(alts))
	for _, a := range alts {
		go func(name string, seed int) {
			cc := *cfg
			cc.Seed = seed
			s, o, m := runSolver(c2, &cc, name, text, cfg.TimeoutMs)
			ch2 <- r2{s, o, fmt.Sprintf("%s(seed %d)", name, seed), m}
		}(a.name, a.seed)
	}
	for range alts {
		x := <-ch2
		res.Attempt = append(res.Attempt, fmt.Sprintf("%s:%s:%dms", x.name, x.st, x.ms))
		if x.st == "unsat" || x.st == "sat" {
			res.Status, res.Solver, res.Output = x.st, x.name, x.out
			if x.st == "sat" {
				res.Model = modelPart(x.out)
			}
			res.Millis += x.ms
			cancel2()
			return res
		}
	}
	return res
}

func modelPart(out string) string {
	i := strings.Index(out, "\n")
	if i < 0 {
		return ""
	}
	return strings.TrimSpace(out[i+1:])
}

// crossCheck asks the other solvers for a second opinion on a discharged query.
func crossCheck(ctx context.Context, cfg *SolverCfg, q *Query, res *Result) {
	if !cfg.CrossCheck || q.Expect != "" || res.Status != "unsat" || res.Solver == "simplifier" {
		return
	}
	text := q.Text(true)
	budget := cfg.TimeoutMs
	if budget > 20000 {
		budget = 20000
	}
	res.Cross = "single"
	for _, name := range solverOrder(q) {
		if name == res.Solver {
			continue
		}
		st, out, ms := runSolver(ctx, cfg, name, text, budget)
		res.Attempt = append(res.Attempt, fmt.Sprintf("cross:%s:%s:%dms", name, st, ms))
		switch st {
		case "unsat":
			if res.Cross != "disagree" {
				res.Cross = "agree"
			}
		case "sat":
			res.Cross = "disagree"
			res.Status = "sat"
			res.Output = "SOLVER DISAGREEMENT: " + res.Solver + " says unsat, " + name + " says sat\n" + out
			res.Model = modelPart(out)
			res.Solver = name
			return
		}
	}
}

// SolveAll runs queries on cfg.Jobs workers.
func SolveAll(ctx context.Context, cfg *SolverCfg, qs []*Query) []*Result {
	results := make([]*Result, len(qs))
	var wg sync.WaitGroup
	sem := make(chan struct{}, cfg.Jobs)
	for i, q := range qs {
		wg.Add(1)
		sem <- struct{}{}
		go func(i int, q *Query) {
			defer wg.Done()
			defer func() { <-sem }()
			results[i] = Solve(ctx, cfg, q)
			crossCheck(ctx, cfg, q, results[i])
		}(i, q)
	}
	wg.Wait()
	return results
}

// parseModelValues parses "((a 1) (b "x"))" into a map (top-level pairs only).
func parseModelValues(s string) map[string]string {
	m := map[string]string{}
	s = strings.TrimSpace(s)
	if !strings.HasPrefix(s, "(") {
		return m
	}
	toks := sexprSplit(s[1 : len(s)-1])
	for _, t := range toks {
		t = strings.TrimSpace(t)
		if !strings.HasPrefix(t, "(") {
			continue
		}
		inner := sexprSplit(t[1 : len(t)-1])
		if len(inner) == 2 {
			m[inner[0]] = inner[1]
		}
	}
	return m
}

// sexprSplit splits a string into top-level s-expressions/atoms.
func sexprSplit(s string) []string {
	var out []string
	i := 0
	for i < len(s) {
		c := s[i]
		if c == ' ' || c == '\n' || c == '\t' || c == '\r' {
			i++
			continue
		}
		start := i
		switch c {
		case '(':
			d := 0
			for i < len(s) {
				if s[i] == '"' {
					i++
					for i < len(s) {
						if s[i] == '"' {
							if i+1 < len(s) && s[i+1] == '"' {
								i += 2
								continue
							}
							break
						}
						i++
					}
				} else if s[i] == '(' {
					d++
				} else if s[i] == ')' {
					d--
					if d == 0 {
						i++
						break
					}
				}
				i++
			}
		case '"':
			i++
			for i < len(s) {
				if s[i] == '"' {
					if i+1 < len(s) && s[i+1] == '"' {
						i += 2
						continue
					}
					i++
					break
				}
				i++
			}
		default:
			for i < len(s) && !strings.ContainsRune(" \n\t\r()", rune(s[i])) {
				i++
			}
		}
		out = append(out, s[start:i])
	}
	return out
}

func sortedKeys[V any](m map[string]V) []string {
	ks := make([]string, 0, len(m))
	for k := range m {
		ks = append(ks, k)
	}
	sort.Strings(ks)
	return ks
}

// ---------- goal skolemisation and goal-directed instantiation ----------

type binder struct{ name, sort string }

// splitForall recognises "(forall ((x S) ...) body)" and returns binders and body.
func splitForall(t string) ([]binder, string, bool) {
	t = strings.TrimSpace(t)
	if !strings.HasPrefix(t, "(forall ") {
		return nil, "", false
	}
	parts := sexprSplit(t[1 : len(t)-1])
	if len(parts) != 3 || parts[0] != "forall" {
		return nil, "", false
	}
	bl := strings.TrimSpace(parts[1])
	var bs []binder
	for _, b := range sexprSplit(bl[1 : len(bl)-1]) {
		f := sexprSplit(b[1 : len(b)-1])
		if len(f) != 2 {
			return nil, "", false
		}
		bs = append(bs, binder{f[0], f[1]})
	}
	return bs, parts[2], true
}

// substTerm replaces whole-symbol occurrences of name by val in an s-expression string.
func substTerm(t, name, val string) string {
	var b strings.Builder
	i := 0
	for i < len(t) {
		c := t[i]
		if c == '"' {
			j := i + 1
			for j < len(t) {
				if t[j] == '"' {
					if j+1 < len(t) && t[j+1] == '"' {
						j += 2
						continue
					}
					break
				}
				j++
			}
			b.WriteString(t[i : j+1])
			i = j + 1
			continue
		}
		if c == '|' {
			j := strings.IndexByte(t[i+1:], '|')
			if j < 0 {
				b.WriteString(t[i:])
				break
			}
			b.WriteString(t[i : i+j+2])
			i += j + 2
			continue
		}
		if c == '(' || c == ')' || c == ' ' || c == '\n' || c == '\t' {
			b.WriteByte(c)
			i++
			continue
		}
		j := i
		for j < len(t) && !strings.ContainsRune("() \n\t", rune(t[j])) {
			j++
		}
		if t[i:j] == name {
			b.WriteString(val)
		} else {
			b.WriteString(t[i:j])
		}
		i = j
	}
	return b.String()
}

// skolemize turns a goal "(forall (bs) body)" (possibly under "(=> A ...)") into a goal over
// fresh constants, and returns instances of the universally quantified assumptions at those
// constants. Everything added is a consequence of the original assumptions, so soundness is kept;
// the original quantified formulas stay in place.
func skolemize(goal string, assumes []string, tag int) (decls []string, newGoal string, extra []string) {
	bs, body, ok := splitForall(goal)
	prefix := ""
	if !ok {
		// (=> A (forall ...))
		g := strings.TrimSpace(goal)
		if strings.HasPrefix(g, "(=> ") {
			parts := sexprSplit(g[1 : len(g)-1])
			if len(parts) == 3 {
				if bs2, body2, ok2 := splitForall(parts[2]); ok2 {
					bs, body, ok = bs2, body2, true
					prefix = parts[1]
				}
			}
		}
	}
	if !ok {
		return nil, goal, nil
	}
	sk := map[string][]string{} // sort -> skolem constants
	for i, b := range bs {
		name := fmt.Sprintf("|sk!%d!%d|", tag, i)
		decls = append(decls, fmt.Sprintf("(declare-const %s %s)", name, b.sort))
		body = substTerm(body, b.name, name)
		sk[b.sort] = append(sk[b.sort], name)
		if b.sort == "Int" {
			// index arithmetic: facts about element i-1 are needed for goals about element i
			sk[b.sort] = append(sk[b.sort], "(- "+name+" 1)")
		}
	}
	newGoal = body
	if prefix != "" {
		newGoal = "(=> " + prefix + " " + body + ")"
	}
	for _, a := range assumes {
		abs, abody, ok := splitForall(a)
		if !ok || len(abs) > 3 {
			continue
		}
		if tb := strings.TrimSpace(abody); strings.HasPrefix(tb, "(!") {
			// (! body :pattern ...): an annotation is only legal directly under a quantifier
			if parts := sexprSplit(tb[1 : len(tb)-1]); len(parts) >= 2 {
				abody = parts[1]
			} else {
				continue
			}
		}
		// all combinations of skolems of matching sorts
		combos := []string{abody}
		feasible := true
		for _, b := range abs {
			cands := sk[b.sort]
			if len(cands) == 0 {
				feasible = false
				break
			}
			var next []string
			for _, c := range combos {
				for _, cand := range cands {
					next = append(next, substTerm(c, b.name, cand))
				}
			}
			combos = next
			if len(combos) > 64 {
				feasible = false
				break
			}
		}
		if feasible {
			extra = append(extra, combos...)
		}
	}
	return
}
