package gocv

import (
	"crypto/sha1"
	"fmt"
	"go/ast"
	"sort"
	"go/types"
	"strings"
)

// verifyClosure checks a function literal as a function of its own: it may run
// at any later time, so everything it can observe that may have changed is
// havocked first (reassigned captured variables, the heap, ghost state).
// closureContextIsNew: a function literal's `closure N ensures` clauses are verified in the context of the
// path that creates it, and they are assumed wherever the closure is later handed to a callee on an
// extension of that path. So the literal is verified once per DISTINCT creating context (path condition and
// variable values), not once per function: verifying it only on the first path that reaches it let an
// infeasible first path prove anything (found by a contract author with a bogus clause).
func (ex *Exec) closureContextIsNew(st *State, lit *ast.FuncLit) bool {
	h := sha1.New()
	fmt.Fprintf(h, "%p|", lit)
	for _, c := range st.pc {
		h.Write([]byte(c))
		h.Write([]byte{0})
	}
	var vs []string
	for obj, v := range st.vars {
		vs = append(vs, obj.Name()+"="+v.T)
	}
	sort.Strings(vs)
	for _, v := range vs {
		h.Write([]byte(v))
		h.Write([]byte{0})
	}
	key := string(h.Sum(nil))
	if ex.cloContexts == nil {
		ex.cloContexts = map[string]bool{}
	}
	if ex.cloContexts[key] {
		return false
	}
	ex.cloContexts[key] = true
	return true
}

func (ex *Exec) verifyClosure(st *State, clo *Closure, ord int, ls *LoopSpec) {
	lit := clo.Lit
	for obj := range st.vars {
		if ex.reassigned[obj] && !ex.declaredWithin(obj, lit) {
			ex.havocVar(st, obj)
		}
	}
	ex.heapHavocAll(st)
	for g := range ex.cs.Ghost {
		ex.ghostHavocIfKnown(st, g)
	}
	sig := under(ex.typeOf(lit)).(*types.Signature)
	var args []Val
	names := map[string]Val{}
	for i := 0; i < sig.Params().Len(); i++ {
		p := sig.Params().At(i)
		v := ex.freshWf(st, p.Name(), p.Type())
		args = append(args, v)
		if p.Name() != "" && p.Name() != "_" {
			names[p.Name()] = v
		}
	}
	pos := lit.Body.Lbrace
	for _, rq := range ls.Requires {
		env := ex.envAt(st, pos)
		for k, v := range names {
			env.names[k] = v
		}
		t, err := env.elabBool(rq.Expr)
		if err != nil {
			ex.fail(pos, "closure %d requires %q: %v", ord, rq.Src, err)
			continue
		}
		st.assume(t)
	}
	entry := st.clone()
	savedOld := ex.old
	ex.old = entry
	defer func() { ex.old = savedOld }()
	ex.callClosure(st, clo, args, func(st2 *State, rv []Val) {
		env := ex.envAt(st2, lit.Body.Rbrace)
		env.old = entry
		for k, v := range names {
			env.names[k] = v
		}
		for i, v := range rv {
			env.names[fmt.Sprintf("r%d", i)] = v
			if i == len(rv)-1 && isErrorType(sig.Results().At(i).Type()) {
				env.names["err"] = v
			}
			if len(rv) == 1 || (len(rv) == 2 && i == 0) {
				env.names["r"] = v
			}
		}
		for i, en := range ls.Ensures {
			label := en.Label
			if label == "" {
				label = fmt.Sprint(i)
			}
			ex.assertClauseNamed(st2, env, fmt.Sprintf("%s#closure-post[%d.%s]", ex.name, ord, label), en, lit.Body.Rbrace)
		}
		ex.paths++
	})
}

// linkClosureContracts: a function literal whose `closure N ensures` clauses are verified in this
// function may be handed to a callee that models the corresponding parameter as a deterministic
// function (`callback pure`). The verified clauses are then assumed for that function symbol:
// forall params :: ensures[results := cb(closure, params)].
func (ex *Exec) linkClosureContracts(st *State, fc *FuncContract, pc *preparedCall) {
	if ex.fc == nil || len(fc.PureCallbacks) == 0 {
		return
	}
	sig := pc.fn.Type().(*types.Signature)
	for i := 0; i < sig.Params().Len() && i < len(pc.args); i++ {
		pn := sig.Params().At(i).Name()
		if i < len(fc.ParamNames) && fc.ParamNames[i] != "" {
			pn = fc.ParamNames[i]
		}
		isCb := false
		for _, n := range fc.PureCallbacks {
			if n == pn {
				isCb = true
			}
		}
		a := pc.args[i]
		if isCb && a.Clo == nil && a.Fn != nil {
			ex.linkNamedFunc(st, fc, pc, a, pn)
			continue
		}
		if !isCb || a.Clo == nil || a.Clo.Lit == nil {
			continue
		}
		ord, ok := ex.cloOrd[a.Clo.Lit]
		if !ok {
			continue
		}
		ls := ex.fc.Closures[ord]
		if ls == nil || len(ls.Ensures) == 0 {
			continue
		}
		csig, ok := under(ex.typeOf(a.Clo.Lit)).(*types.Signature)
		if !ok {
			continue
		}
		env := ex.envAt(st, a.Clo.Lit.Body.Lbrace)
		var binders []string
		var params []Val
		for j := 0; j < csig.Params().Len(); j++ {
			p := csig.Params().At(j)
			s := ex.sortOf(p.Type())
			name := fmt.Sprintf("q_c%d", j)
			v := Val{T: name, S: s, GoT: p.Type()}
			params = append(params, v)
			binders = append(binders, "("+name+" "+s.Name+")")
			if p.Name() != "" && p.Name() != "_" {
				env.names[p.Name()] = v
			}
		}
		results := ex.callbackApp(a, pn, csig, params)
		for j, v := range results {
			env.names[fmt.Sprintf("r%d", j)] = v
			if j == len(results)-1 && isErrorType(csig.Results().At(j).Type()) {
				env.names["err"] = v
			}
			if len(results) == 1 || (len(results) == 2 && j == 0) {
				env.names["r"] = v
			}
		}
		// the clauses were verified UNDER the literal's `closure N requires`: they are available only where
		// those hold (requires about captured variables must be provable from the state at this call,
		// requires about the parameters restrict the quantifier)
		var pres []string
		preOK := true
		for _, rq := range ls.Requires {
			t, err := env.elabBool(rq.Expr)
			if err != nil {
				ex.fail(pc.call.Pos(), "closure %d requires %q (linking to %s): %v", ord, rq.Src, fc.Key, err)
				preOK = false
				continue
			}
			pres = append(pres, t)
		}
		if !preOK {
			continue
		}
		for _, en := range ls.Ensures {
			if en.Canary {
				continue
			}
			t, err := env.elabBool(en.Expr)
			if err != nil {
				ex.fail(pc.call.Pos(), "closure %d ensures %q (linking to %s): %v", ord, en.Src, fc.Key, err)
				continue
			}
			if len(pres) > 0 {
				t = implies(and(pres...), t)
			}
			if len(binders) > 0 {
				t = "(forall (" + strings.Join(binders, " ") + ") " + t + ")"
			}
			st.assume(t)
		}
	}
}

// havocCallbackEffects: a callee that models a parameter as `callback pure` says nothing about the
// effects of the function it is handed; those effects are the ARGUMENT's. A literal is scanned for
// its heap/ghost effects, a named function contributes its contract's modifies, anything else
// (function variables, uncontracted functions) havocs the heap.
func (ex *Exec) havocCallbackEffects(st *State, fc *FuncContract, pc *preparedCall) {
	if len(fc.PureCallbacks) == 0 || pc.fn == nil {
		return
	}
	sig := pc.fn.Type().(*types.Signature)
	for i := 0; i < sig.Params().Len() && i < len(pc.args); i++ {
		pn := sig.Params().At(i).Name()
		if i < len(fc.ParamNames) && fc.ParamNames[i] != "" {
			pn = fc.ParamNames[i]
		}
		isCb := false
		for _, n := range fc.PureCallbacks {
			if n == pn {
				isCb = true
			}
		}
		if !isCb {
			continue
		}
		a := pc.args[i]
		switch {
		case a.Clo != nil && a.Clo.Lit != nil:
			eff := &effects{comps: map[string]bool{}, ghost: map[string]bool{}}
			ex.scanEffects(a.Clo.Lit.Body, map[types.Object]bool{}, eff, map[ast.Node]bool{})
			if eff.heapAll {
				ex.heapHavocAll(st)
			} else {
				for c := range eff.comps {
					ex.heapHavocComp(st, c)
				}
			}
			for g := range eff.ghost {
				ex.ghostHavoc(st, g)
			}
		case a.Fn != nil:
			cfc := ex.cs.Funcs[funcKey(a.Fn)]
			if cfc == nil {
				ex.heapHavocAll(st)
				continue
			}
			for _, m := range cfc.Modifies {
				switch {
				case strings.HasPrefix(m, "ghost."):
					ex.ghostHavoc(st, strings.TrimPrefix(m, "ghost."))
				case strings.HasPrefix(m, "heap "):
					ex.heapHavocComp(st, ex.qualifyComp(strings.TrimSpace(strings.TrimPrefix(m, "heap ")), cfc))
				default:
					ex.heapHavocAll(st)
				}
			}
		default:
			// a function value: effect-free only if this function's own contract models it as pure
			if i < len(pc.call.Args) && ex.fc != nil {
				name := ""
				switch a := unparen(pc.call.Args[i]).(type) {
				case *ast.Ident:
					name = a.Name
				case *ast.SelectorExpr:
					// a function-typed FIELD the caller's contract lists as `callback pure`
					name = a.Sel.Name
				}
				own := false
				for _, n := range ex.fc.PureCallbacks {
					if n == name && name != "" {
						own = true
					}
				}
				if own {
					continue
				}
			}
			ex.heapHavocAll(st)
		}
	}
}

// linkNamedFunc: a named function or method expression handed to a `callback pure` parameter.
// If that function has a contract without effects, its ensures are assumed for the callback's
// function symbol (for pure contracts: the symbol equals the pure function itself).
func (ex *Exec) linkNamedFunc(st *State, fc *FuncContract, pc *preparedCall, a Val, pn string) {
	fn := a.Fn
	cfc := ex.cs.Funcs[funcKey(fn)]
	if cfc == nil || len(cfc.Modifies) > 0 {
		return
	}
	csig, ok := under(a.GoT).(*types.Signature) // for a method expression the receiver is the first parameter
	if !ok {
		return
	}
	fsig := fn.Type().(*types.Signature)
	var binders []string
	var params []Val
	for j := 0; j < csig.Params().Len(); j++ {
		p := csig.Params().At(j)
		s := ex.sortOf(p.Type())
		name := fmt.Sprintf("q_c%d", j)
		params = append(params, Val{T: name, S: s, GoT: p.Type()})
		binders = append(binders, "("+name+" "+s.Name+")")
	}
	results := ex.callbackApp(a, pn, csig, params)
	var recv *Val
	args := params
	if fsig.Recv() != nil && len(params) > 0 {
		recv = &params[0]
		args = params[1:]
	}
	quant := func(t string) string {
		if len(binders) == 0 {
			return t
		}
		return "(forall (" + strings.Join(binders, " ") + ") " + t + ")"
	}
	if cfc.Pure {
		pv := ex.pureCall(nil, cfc, fn, recv, args)
		for j := range results {
			if j < len(pv) {
				st.assume(quant(eq(results[j].T, pv[j].T)))
			}
		}
		return
	}
	env := ex.calleeEnv(st, cfc, fn, recv, args)
	for j, nm := range resultNames(cfc, fsig) {
		if j < len(results) {
			env.names[nm] = results[j]
		}
	}
	var pre []string
	for _, rq := range cfc.Requires {
		t, err := env.elabBool(rq.Expr)
		if err != nil {
			return
		}
		pre = append(pre, t)
	}
	for _, en := range cfc.Ensures {
		if en.Canary {
			continue
		}
		t, err := env.elabBool(en.Expr)
		if err != nil {
			ex.fail(pc.call.Pos(), "linking %s to callback %s of %s: %v", cfc.Key, pn, fc.Key, err)
			continue
		}
		st.assume(quant(implies(and(pre...), t)))
	}
}
