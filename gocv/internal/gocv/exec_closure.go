package gocv

import (
	"fmt"
	"go/types"
)

// verifyClosure checks a function literal as a function of its own: it may run
// at any later time, so everything it can observe that may have changed is
// havocked first (reassigned captured variables, the heap, ghost state).
func (ex *Exec) verifyClosure(st *State, clo *Closure, ord int, ls *LoopSpec) {
	lit := clo.Lit
	for obj := range st.vars {
		if ex.reassigned[obj] && !ex.declaredWithin(obj, lit) {
			ex.havocVar(st, obj)
		}
	}
	ex.heapHavocAll(st)
	for g := range ex.cs.Ghost {
		ex.ghostHavoc(st, g)
	}
	sig := under(ex.typeOf(lit)).(*types.Signature)
	var args []Val
	names := map[string]Val{}
	for i := 0; i < sig.Params().Len(); i++ {
		p := sig.Params().At(i)
		v := ex.freshWf(st, p.Name(), p.Type())
		args = append(args, v)
		if p.Name() != "" && p.Name() != "_" {
			names[p.Name()] = v
		}
	}
	pos := lit.Body.Lbrace
	for _, rq := range ls.Requires {
		env := ex.envAt(st, pos)
		for k, v := range names {
			env.names[k] = v
		}
		t, err := env.elabBool(rq.Expr)
		if err != nil {
			ex.fail(pos, "closure %d requires %q: %v", ord, rq.Src, err)
			continue
		}
		st.assume(t)
	}
	entry := st.clone()
	savedOld := ex.old
	ex.old = entry
	defer func() { ex.old = savedOld }()
	ex.callClosure(st, clo, args, func(st2 *State, rv []Val) {
		env := ex.envAt(st2, lit.Body.Rbrace)
		env.old = entry
		for k, v := range names {
			env.names[k] = v
		}
		for i, v := range rv {
			env.names[fmt.Sprintf("r%d", i)] = v
			if i == len(rv)-1 && isErrorType(sig.Results().At(i).Type()) {
				env.names["err"] = v
			}
			if len(rv) == 1 || (len(rv) == 2 && i == 0) {
				env.names["r"] = v
			}
		}
		for i, en := range ls.Ensures {
			label := en.Label
			if label == "" {
				label = fmt.Sprint(i)
			}
			ex.assertClauseNamed(st2, env, fmt.Sprintf("%s#closure-post[%d.%s]", ex.name, ord, label), en, lit.Body.Rbrace)
		}
		ex.paths++
	})
}
