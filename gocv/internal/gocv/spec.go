package gocv

import (
	"fmt"
	"strconv"
	"strings"
	"unicode"
)

// ---------- spec expression AST ----------

type SExpr interface{ sexpr() }

type (
	SIdent struct{ Name string }
	SLit   struct {
		Kind string // int, string, bool, nil
		Val  string
	}
	SUnary struct {
		Op string
		X  SExpr
	}
	SBinary struct {
		Op   string
		X, Y SExpr
	}
	SCall struct {
		Fun  SExpr
		Args []SExpr
	}
	SSel struct {
		X    SExpr
		Name string
	}
	SIndex struct{ X, I SExpr }
	SSlice struct{ X, Lo, Hi SExpr }
	SQuant struct {
		Forall bool
		Vars   []SVar
		Body   SExpr
	}
	SOld struct {
		X     SExpr
		Entry bool // $entry(e) / $entryN(e): loop-entry snapshot
		Ord   int
	}
	SRaw struct { // smt("...{0}...", args...) : sort given by type
		T    *SType
		Tmpl string
		Args []SExpr
	}
)

type SVar struct {
	Name string
	T    *SType
}

// SType is the spec type syntax.
type SType struct {
	Kind string // name, slice, map, set, ptr
	Name string // for "name": possibly qualified
	Elem *SType
	Key  *SType
}

func (t *SType) String() string {
	switch t.Kind {
	case "slice":
		return "[]" + t.Elem.String()
	case "map":
		return "map[" + t.Key.String() + "]" + t.Elem.String()
	case "set":
		return "set[" + t.Elem.String() + "]"
	case "ptr":
		return "*" + t.Elem.String()
	}
	return t.Name
}

func (*SIdent) sexpr()  {}
func (*SLit) sexpr()    {}
func (*SUnary) sexpr()  {}
func (*SBinary) sexpr() {}
func (*SCall) sexpr()   {}
func (*SSel) sexpr()    {}
func (*SIndex) sexpr()  {}
func (*SSlice) sexpr()  {}
func (*SQuant) sexpr()  {}
func (*SOld) sexpr()    {}
func (*SRaw) sexpr()    {}

// ---------- lexer ----------

type tok struct {
	k   string // ident int string op eof
	s   string
	pos int
}

type lexer struct {
	src  string
	toks []tok
}

var ops3 = []string{"<==>", "==>", "...", "::", "==", "!=", "<=", ">=", "&&", "||"}

func lex(src string) ([]tok, error) {
	var toks []tok
	i := 0
	for i < len(src) {
		c := src[i]
		if c == ' ' || c == '\t' || c == '\n' || c == '\r' {
			i++
			continue
		}
		if c == '/' && i+1 < len(src) && src[i+1] == '/' {
			for i < len(src) && src[i] != '\n' {
				i++
			}
			continue
		}
		start := i
		switch {
		case unicode.IsLetter(rune(c)) || c == '_' || c == '$':
			for i < len(src) && (unicode.IsLetter(rune(src[i])) || unicode.IsDigit(rune(src[i])) || src[i] == '_' || src[i] == '$') {
				i++
			}
			toks = append(toks, tok{"ident", src[start:i], start})
		case unicode.IsDigit(rune(c)):
			for i < len(src) && unicode.IsDigit(rune(src[i])) {
				i++
			}
			toks = append(toks, tok{"int", src[start:i], start})
		case c == '"':
			i++
			for i < len(src) && src[i] != '"' {
				if src[i] == '\\' {
					i++
				}
				i++
			}
			if i >= len(src) {
				return nil, fmt.Errorf("unterminated string at %d", start)
			}
			i++
			s, err := strconv.Unquote(src[start:i])
			if err != nil {
				return nil, fmt.Errorf("bad string %s: %v", src[start:i], err)
			}
			toks = append(toks, tok{"string", s, start})
		case c == '`':
			i++
			for i < len(src) && src[i] != '`' {
				i++
			}
			if i >= len(src) {
				return nil, fmt.Errorf("unterminated raw string at %d", start)
			}
			toks = append(toks, tok{"string", src[start+1 : i], start})
			i++
		default:
			matched := false
			for _, op := range ops3 {
				if strings.HasPrefix(src[i:], op) {
					toks = append(toks, tok{"op", op, start})
					i += len(op)
					matched = true
					break
				}
			}
			if !matched {
				toks = append(toks, tok{"op", string(c), start})
				i++
			}
		}
	}
	toks = append(toks, tok{"eof", "", len(src)})
	return toks, nil
}

// ---------- parser ----------

type parser struct {
	toks []tok
	p    int
	src  string
}

func (p *parser) peek() tok { return p.toks[p.p] }
func (p *parser) next() tok { t := p.toks[p.p]; p.p++; return t }
func (p *parser) isOp(s string) bool {
	t := p.peek()
	return t.k == "op" && t.s == s
}
func (p *parser) isIdent(s string) bool {
	t := p.peek()
	return t.k == "ident" && t.s == s
}
func (p *parser) accept(s string) bool {
	if p.isOp(s) {
		p.p++
		return true
	}
	return false
}
func (p *parser) expect(s string) error {
	if !p.accept(s) {
		return fmt.Errorf("expected %q at %d near %q in %q", s, p.peek().pos, p.peek().s, p.src)
	}
	return nil
}

func ParseExpr(src string) (SExpr, error) {
	toks, err := lex(src)
	if err != nil {
		return nil, err
	}
	p := &parser{toks: toks, src: src}
	e, err := p.expr()
	if err != nil {
		return nil, err
	}
	if p.peek().k != "eof" {
		return nil, fmt.Errorf("trailing input at %d (%q) in %q", p.peek().pos, p.peek().s, src)
	}
	return e, nil
}

// precedence climbing: <==> (1) ==> (2, right) || (3) && (4) cmp (5) in (5) + - (6) * / % (7) unary
func (p *parser) expr() (SExpr, error) {
	if p.isIdent("forall") || p.isIdent("exists") {
		return p.quant()
	}
	return p.iff()
}

func (p *parser) quant() (SExpr, error) {
	fa := p.next().s == "forall"
	var vars []SVar
	for {
		var names []string
		for {
			t := p.next()
			if t.k != "ident" {
				return nil, fmt.Errorf("quantifier: expected variable name, got %q", t.s)
			}
			names = append(names, t.s)
			if p.isOp(",") {
				// lookahead: "x, y T" vs "x T, y U": after comma always a name
				p.p++
				continue
			}
			break
		}
		ty, err := p.stype()
		if err != nil {
			return nil, err
		}
		for _, n := range names {
			vars = append(vars, SVar{n, ty})
		}
		if p.accept(",") {
			continue
		}
		break
	}
	if err := p.expect("::"); err != nil {
		return nil, err
	}
	body, err := p.expr()
	if err != nil {
		return nil, err
	}
	return &SQuant{Forall: fa, Vars: vars, Body: body}, nil
}

func (p *parser) stype() (*SType, error) {
	if p.accept("[") {
		if err := p.expect("]"); err != nil {
			return nil, err
		}
		e, err := p.stype()
		if err != nil {
			return nil, err
		}
		return &SType{Kind: "slice", Elem: e}, nil
	}
	if p.accept("*") {
		e, err := p.stype()
		if err != nil {
			return nil, err
		}
		return &SType{Kind: "ptr", Elem: e}, nil
	}
	t := p.next()
	if t.k != "ident" {
		return nil, fmt.Errorf("type expected, got %q in %q", t.s, p.src)
	}
	switch t.s {
	case "map":
		if err := p.expect("["); err != nil {
			return nil, err
		}
		k, err := p.stype()
		if err != nil {
			return nil, err
		}
		if err := p.expect("]"); err != nil {
			return nil, err
		}
		v, err := p.stype()
		if err != nil {
			return nil, err
		}
		return &SType{Kind: "map", Key: k, Elem: v}, nil
	case "set":
		if err := p.expect("["); err != nil {
			return nil, err
		}
		e, err := p.stype()
		if err != nil {
			return nil, err
		}
		if err := p.expect("]"); err != nil {
			return nil, err
		}
		return &SType{Kind: "set", Elem: e}, nil
	}
	name := t.s
	for p.isOp(".") || p.isOp("/") {
		// qualified: pkg.Type or path/pkg.Type
		op := p.next().s
		t2 := p.next()
		if t2.k != "ident" {
			return nil, fmt.Errorf("bad qualified type in %q", p.src)
		}
		name += op + t2.s
	}
	if p.isOp("[") {
		// instantiated generic type: Name[Arg, []Arg, ...]
		p.next()
		var args []string
		for !p.isOp("]") {
			a, err := p.stype()
			if err != nil {
				return nil, err
			}
			args = append(args, a.String())
			if !p.accept(",") {
				break
			}
		}
		if err := p.expect("]"); err != nil {
			return nil, err
		}
		name += "[" + strings.Join(args, ",") + "]"
	}
	return &SType{Kind: "name", Name: name}, nil
}

func (p *parser) iff() (SExpr, error) {
	x, err := p.impl()
	if err != nil {
		return nil, err
	}
	for p.isOp("<==>") {
		p.p++
		y, err := p.impl()
		if err != nil {
			return nil, err
		}
		x = &SBinary{"<==>", x, y}
	}
	return x, nil
}

func (p *parser) impl() (SExpr, error) {
	x, err := p.or()
	if err != nil {
		return nil, err
	}
	if p.isOp("==>") {
		p.p++
		var y SExpr
		if p.isIdent("forall") || p.isIdent("exists") {
			y, err = p.quant()
		} else {
			y, err = p.impl()
		}
		if err != nil {
			return nil, err
		}
		return &SBinary{"==>", x, y}, nil
	}
	return x, nil
}

func (p *parser) or() (SExpr, error) {
	x, err := p.and()
	if err != nil {
		return nil, err
	}
	for p.isOp("||") {
		p.p++
		y, err := p.and()
		if err != nil {
			return nil, err
		}
		x = &SBinary{"||", x, y}
	}
	return x, nil
}

func (p *parser) and() (SExpr, error) {
	x, err := p.cmp()
	if err != nil {
		return nil, err
	}
	for p.isOp("&&") {
		p.p++
		y, err := p.cmp()
		if err != nil {
			return nil, err
		}
		x = &SBinary{"&&", x, y}
	}
	return x, nil
}

func (p *parser) cmp() (SExpr, error) {
	x, err := p.add()
	if err != nil {
		return nil, err
	}
	for {
		t := p.peek()
		if t.k == "op" && (t.s == "==" || t.s == "!=" || t.s == "<" || t.s == "<=" || t.s == ">" || t.s == ">=") {
			p.p++
			y, err := p.add()
			if err != nil {
				return nil, err
			}
			x = &SBinary{t.s, x, y}
			continue
		}
		if t.k == "ident" && t.s == "in" {
			p.p++
			y, err := p.add()
			if err != nil {
				return nil, err
			}
			x = &SBinary{"in", x, y}
			continue
		}
		return x, nil
	}
}

func (p *parser) add() (SExpr, error) {
	x, err := p.mul()
	if err != nil {
		return nil, err
	}
	for p.isOp("+") || p.isOp("-") {
		op := p.next().s
		y, err := p.mul()
		if err != nil {
			return nil, err
		}
		x = &SBinary{op, x, y}
	}
	return x, nil
}

func (p *parser) mul() (SExpr, error) {
	x, err := p.unary()
	if err != nil {
		return nil, err
	}
	for p.isOp("*") || p.isOp("/") || p.isOp("%") {
		op := p.next().s
		y, err := p.unary()
		if err != nil {
			return nil, err
		}
		x = &SBinary{op, x, y}
	}
	return x, nil
}

func (p *parser) unary() (SExpr, error) {
	if p.isOp("!") || p.isOp("-") {
		op := p.next().s
		x, err := p.unary()
		if err != nil {
			return nil, err
		}
		return &SUnary{op, x}, nil
	}
	return p.postfix()
}

func (p *parser) postfix() (SExpr, error) {
	x, err := p.primary()
	if err != nil {
		return nil, err
	}
	for {
		switch {
		case p.isOp("."):
			p.p++
			t := p.next()
			if t.k != "ident" {
				return nil, fmt.Errorf("selector expected after . in %q", p.src)
			}
			x = &SSel{x, t.s}
		case p.isOp("("):
			p.p++
			if id, ok := x.(*SIdent); ok && id.Name == "cast" {
				ty, err := p.stype()
				if err != nil {
					return nil, err
				}
				if err := p.expect(","); err != nil {
					return nil, err
				}
				arg, err := p.expr()
				if err != nil {
					return nil, err
				}
				if err := p.expect(")"); err != nil {
					return nil, err
				}
				x = &SCall{x, []SExpr{&SLit{"string", ty.String()}, arg}}
				continue
			}
			if id, ok := x.(*SIdent); ok && id.Name == "typeId" {
				ty, err := p.stype()
				if err != nil {
					return nil, err
				}
				if err := p.expect(")"); err != nil {
					return nil, err
				}
				x = &SCall{x, []SExpr{&SLit{"string", ty.String()}}}
				continue
			}
			var args []SExpr
			for !p.isOp(")") {
				a, err := p.expr()
				if err != nil {
					return nil, err
				}
				args = append(args, a)
				if !p.accept(",") {
					break
				}
			}
			if err := p.expect(")"); err != nil {
				return nil, err
			}
			if id, ok := x.(*SIdent); ok && id.Name == "old" && len(args) == 1 {
				x = &SOld{X: args[0], Ord: -1}
			} else if ok && strings.HasPrefix(id.Name, "$entry") && len(args) == 1 {
				ord := -1
				if rest := id.Name[len("$entry"):]; rest != "" {
					n, err := strconv.Atoi(rest)
					if err != nil {
						return nil, fmt.Errorf("bad %s", id.Name)
					}
					ord = n
				}
				x = &SOld{X: args[0], Entry: true, Ord: ord}
			} else {
				x = &SCall{x, args}
			}
		case p.isOp("["):
			p.p++
			var lo, hi SExpr
			if !p.isOp(":") {
				lo, err = p.expr()
				if err != nil {
					return nil, err
				}
			}
			if p.accept(":") {
				if !p.isOp("]") {
					hi, err = p.expr()
					if err != nil {
						return nil, err
					}
				}
				if err := p.expect("]"); err != nil {
					return nil, err
				}
				x = &SSlice{x, lo, hi}
			} else {
				if err := p.expect("]"); err != nil {
					return nil, err
				}
				x = &SIndex{x, lo}
			}
		default:
			return x, nil
		}
	}
}

func (p *parser) primary() (SExpr, error) {
	t := p.next()
	switch t.k {
	case "int":
		return &SLit{"int", t.s}, nil
	case "string":
		return &SLit{"string", t.s}, nil
	case "ident":
		switch t.s {
		case "true", "false":
			return &SLit{"bool", t.s}, nil
		case "nil":
			return &SLit{"nil", ""}, nil
		case "forall", "exists":
			p.p--
			return p.quant()
		case "smt":
			// smt[Type]("template {0}", args...)
			if err := p.expect("["); err != nil {
				return nil, err
			}
			ty, err := p.stype()
			if err != nil {
				return nil, err
			}
			if err := p.expect("]"); err != nil {
				return nil, err
			}
			if err := p.expect("("); err != nil {
				return nil, err
			}
			tt := p.next()
			if tt.k != "string" {
				return nil, fmt.Errorf("smt[...] needs a template string in %q", p.src)
			}
			var args []SExpr
			for p.accept(",") {
				a, err := p.expr()
				if err != nil {
					return nil, err
				}
				args = append(args, a)
			}
			if err := p.expect(")"); err != nil {
				return nil, err
			}
			return &SRaw{T: ty, Tmpl: tt.s, Args: args}, nil
		}
		return &SIdent{t.s}, nil
	case "op":
		if t.s == "(" {
			e, err := p.expr()
			if err != nil {
				return nil, err
			}
			if err := p.expect(")"); err != nil {
				return nil, err
			}
			return e, nil
		}
	}
	return nil, fmt.Errorf("unexpected %q at %d in %q", t.s, t.pos, p.src)
}

func ParseType(src string) (*SType, error) {
	toks, err := lex(src)
	if err != nil {
		return nil, err
	}
	p := &parser{toks: toks, src: src}
	t, err := p.stype()
	if err != nil {
		return nil, err
	}
	if p.peek().k != "eof" {
		return nil, fmt.Errorf("trailing input in type %q", src)
	}
	return t, nil
}

func exprString(e SExpr) string {
	switch e := e.(type) {
	case *SIdent:
		return e.Name
	case *SLit:
		if e.Kind == "string" {
			return strconv.Quote(e.Val)
		}
		if e.Kind == "nil" {
			return "nil"
		}
		return e.Val
	case *SUnary:
		return e.Op + exprString(e.X)
	case *SBinary:
		return "(" + exprString(e.X) + " " + e.Op + " " + exprString(e.Y) + ")"
	case *SCall:
		var as []string
		for _, a := range e.Args {
			as = append(as, exprString(a))
		}
		return exprString(e.Fun) + "(" + strings.Join(as, ", ") + ")"
	case *SSel:
		return exprString(e.X) + "." + e.Name
	case *SIndex:
		return exprString(e.X) + "[" + exprString(e.I) + "]"
	case *SSlice:
		lo, hi := "", ""
		if e.Lo != nil {
			lo = exprString(e.Lo)
		}
		if e.Hi != nil {
			hi = exprString(e.Hi)
		}
		return exprString(e.X) + "[" + lo + ":" + hi + "]"
	case *SQuant:
		q := "exists"
		if e.Forall {
			q = "forall"
		}
		var vs []string
		for _, v := range e.Vars {
			vs = append(vs, v.Name+" "+v.T.String())
		}
		return "(" + q + " " + strings.Join(vs, ", ") + " :: " + exprString(e.Body) + ")"
	case *SOld:
		return "old(" + exprString(e.X) + ")"
	case *SRaw:
		return "smt[" + e.T.String() + "](" + strconv.Quote(e.Tmpl) + ")"
	}
	return "?"
}
