package gocv

import (
	"fmt"
	"go/ast"
	"go/token"
	"go/types"
	"strings"
)

func (ex *Exec) stmts(st *State, list []ast.Stmt, c *ctl, k func(*State)) {
	if st.dead {
		return
	}
	if len(list) == 0 {
		k(st)
		return
	}
	ex.stmt(st, list[0], c, func(st2 *State) {
		ex.stmts(st2, list[1:], c, k)
	})
}

func (ex *Exec) checkBudget(pos token.Pos) {
	ex.steps++
	if ex.steps > ex.maxSteps {
		ex.oof(pos, "path budget exceeded (%d steps)", ex.maxSteps)
	}
	if ex.paths > 60000 || len(ex.queries) > 120000 {
		ex.oof(pos, "path budget exceeded (%d paths, %d queries): split the function or give helpers contracts", ex.paths, len(ex.queries))
	}
}

// nthMatch: position of the n-th statement (source order) of the function whose text starts with the anchor.
func (ex *Exec) nthMatch(anchor string, n int) token.Pos {
	key := fmt.Sprintf("%s@%d", anchor, n)
	if p, ok := ex.nthCache[key]; ok {
		return p
	}
	want := normalizeStmtText(anchor)
	count := 0
	pos := token.NoPos
	if ex.decl != nil {
		ast.Inspect(ex.decl, func(m ast.Node) bool {
			if pos != token.NoPos {
				return false
			}
			if st, ok := m.(ast.Stmt); ok {
				if _, isBlock := st.(*ast.BlockStmt); !isBlock && strings.HasPrefix(normalizeStmtText(nodeString(ex.fset, st)), want) {
					count++
					if count == n {
						pos = st.Pos()
					}
				}
			}
			return true
		})
	}
	ex.nthCache[key] = pos
	return pos
}

// applyGhostUpdate executes one ghost assignment in the current state.
func (ex *Exec) applyGhostUpdate(st *State, g *GhostUpdate, pos token.Pos) {
	gv, ok := ex.cs.Ghost[g.Name]
	if !ok {
		ex.fail(pos, "ghost update: unknown ghost var %s", g.Name)
		return
	}
	env := ex.envAt(st, pos)
	v, err := env.Elab(g.Expr)
	if err != nil {
		ex.fail(pos, "ghost update %q: %v", g.Src, err)
		return
	}
	gs, _ := ex.sortOfSType(gv.T, ex.pkg.Types)
	if !sameSort(v.S, gs) {
		ex.fail(pos, "ghost update %q: value has sort %s, ghost var %s has sort %s", g.Src, v.S, g.Name, gs)
		return
	}
	st.ghost[g.Name] = ex.share(st, v).T
}

func (ex *Exec) stmt(st *State, s ast.Stmt, c *ctl, k func(*State)) {
	if st.dead {
		return
	}
	ex.checkBudget(s.Pos())
	// ghost assertions / ghost updates / skips keyed on the printed statement
	if ex.fc != nil && (len(ex.fc.Asserts) > 0 || len(ex.fc.Skip) > 0 || len(ex.fc.GhostUpd) > 0) {
		if _, isBlock := s.(*ast.BlockStmt); !isBlock {
			text := normalizeStmtText(nodeString(ex.fset, s))
			for i, g := range ex.fc.GhostUpd {
				if !strings.HasPrefix(text, normalizeStmtText(g.Anchor)) || (g.Nth > 0 && ex.nthMatch(g.Anchor, g.Nth) != s.Pos()) {
					continue
				}
				ex.ghostUpdHit[i] = true
				if !g.After {
					ex.applyGhostUpdate(st, g, s.Pos())
					continue
				}
				g, kPrev, end := g, k, s.End()
				k = func(st2 *State) {
					if !st2.dead {
						ex.applyGhostUpdate(st2, g, end)
					}
					kPrev(st2)
				}
			}
			for i, a := range ex.fc.Asserts {
				if strings.HasPrefix(text, normalizeStmtText(a.Before)) && (a.Nth == 0 || ex.nthMatch(a.Before, a.Nth) == s.Pos()) {
					ex.assertHit[i] = true
					env := ex.envAt(st, s.Pos())
					if a.Assume {
						t, err := env.elabBool(a.Clause.Expr)
						if err != nil {
							ex.fail(s.Pos(), "assume: %v", err)
						} else {
							st.assume(t)
						}
					} else {
						ex.assertClause(st, env, "assert", i, a.Clause, s.Pos())
						// after checking, the fact may be used
						if t, err := env.elabBool(a.Clause.Expr); err == nil {
							st.assume(t)
						}
					}
				}
			}
			for _, sk := range ex.fc.Skip {
				if strings.HasPrefix(text, normalizeStmtText(sk)) {
					ex.skipHit[sk] = true
					ex.havocAssigned(st, s)
					k(st)
					return
				}
			}
		}
	}
	switch s := s.(type) {
	case *ast.BlockStmt:
		ex.stmts(st, s.List, c, k)
	case *ast.EmptyStmt:
		k(st)
	case *ast.ExprStmt:
		if call, ok := unparen(s.X).(*ast.CallExpr); ok {
			ex.evalCall(st, call, func(st2 *State, _ []Val) { k(st2) })
			return
		}
		ex.eval(st, s.X, func(st2 *State, _ Val) { k(st2) })
	case *ast.DeclStmt:
		gd, ok := s.Decl.(*ast.GenDecl)
		if !ok || gd.Tok != token.VAR {
			k(st) // const/type declarations
			return
		}
		ex.varSpecs(st, gd.Specs, 0, k)
	case *ast.AssignStmt:
		ex.assignStmt(st, s, k)
	case *ast.IncDecStmt:
		ex.eval(st, s.X, func(st2 *State, v Val) {
			op := "+"
			if s.Tok == token.DEC {
				op = "-"
			}
			ex.assignTo(st2, s.X, Val{T: app(op, v.T, "1"), S: SInt, GoT: v.GoT}, k)
		})
	case *ast.ReturnStmt:
		if len(s.Results) == 0 {
			c.ret(st, nil)
			return
		}
		if len(s.Results) == 1 && len(c.results) > 1 {
			call, ok := unparen(s.Results[0]).(*ast.CallExpr)
			if !ok {
				ex.oof(s.Pos(), "return of tuple from non-call")
			}
			ex.evalCall(st, call, func(st2 *State, vs []Val) { c.ret(st2, vs) })
			return
		}
		ex.evalList(st, s.Results, func(st2 *State, vs []Val) { c.ret(st2, vs) })
	case *ast.IfStmt:
		body := func(st *State) {
			ex.cond(st, s.Cond, func(stT *State) {
				ex.stmts(stT, s.Body.List, c, k)
			}, func(stF *State) {
				if s.Else != nil {
					ex.stmt(stF, s.Else, c, k)
				} else {
					k(stF)
				}
			})
		}
		if s.Init != nil {
			ex.stmt(st, s.Init, c, body)
		} else {
			body(st)
		}
	case *ast.LabeledStmt:
		c2 := c.with()
		c2.label = s.Label.Name
		ex.stmt(st, s.Stmt, c2, k)
	case *ast.BranchStmt:
		label := ""
		if s.Label != nil {
			label = s.Label.Name
		}
		switch s.Tok {
		case token.BREAK:
			f, ok := c.brk[label]
			if !ok {
				ex.oof(s.Pos(), "break target not found")
			}
			f(st)
		case token.CONTINUE:
			f, ok := c.cont[label]
			if !ok {
				ex.oof(s.Pos(), "continue target not found")
			}
			f(st)
		default:
			ex.oof(s.Pos(), "%s statement", s.Tok)
		}
	case *ast.ForStmt:
		ex.forStmt(st, s, c, k)
	case *ast.RangeStmt:
		ex.rangeStmt(st, s, c, k)
	case *ast.SwitchStmt:
		ex.switchStmt(st, s, c, k)
	case *ast.TypeSwitchStmt:
		ex.typeSwitchStmt(st, s, c, k)
	case *ast.DeferStmt:
		ex.deferStmt(st, s, k)
	case *ast.GoStmt:
		ex.oof(s.Pos(), "go statement")
	case *ast.SelectStmt:
		ex.oof(s.Pos(), "select statement")
	case *ast.SendStmt:
		ex.oof(s.Pos(), "channel send")
	default:
		ex.oof(s.Pos(), "statement %T", s)
	}
}

func normalizeStmtText(s string) string {
	return strings.Join(strings.Fields(s), " ")
}

func unparen(e ast.Expr) ast.Expr {
	for {
		p, ok := e.(*ast.ParenExpr)
		if !ok {
			return e
		}
		e = p.X
	}
}

func (ex *Exec) varSpecs(st *State, specs []ast.Spec, i int, k func(*State)) {
	if i >= len(specs) {
		k(st)
		return
	}
	vs := specs[i].(*ast.ValueSpec)
	next := func(st *State) { ex.varSpecs(st, specs, i+1, k) }
	if len(vs.Values) == 0 {
		for _, n := range vs.Names {
			if n.Name == "_" {
				continue
			}
			obj := ex.info.Defs[n]
			s := ex.sortOf(obj.Type())
			ex.writeVar(st, obj, Val{T: zeroOf(s), S: s, GoT: obj.Type()})
		}
		next(st)
		return
	}
	if len(vs.Values) == 1 && len(vs.Names) > 1 {
		call, ok := unparen(vs.Values[0]).(*ast.CallExpr)
		if !ok {
			ex.oof(vs.Pos(), "multi-value var from non-call")
		}
		ex.evalCall(st, call, func(st2 *State, vals []Val) {
			for j, n := range vs.Names {
				if n.Name == "_" {
					continue
				}
				obj := ex.info.Defs[n]
				ex.writeVar(st2, obj, ex.convert(st2, vals[j], obj.Type()))
			}
			next(st2)
		})
		return
	}
	ex.evalList(st, vs.Values, func(st2 *State, vals []Val) {
		for j, n := range vs.Names {
			if n.Name == "_" {
				continue
			}
			obj := ex.info.Defs[n]
			ex.writeVar(st2, obj, ex.convert(st2, vals[j], obj.Type()))
		}
		next(st2)
	})
}

func (ex *Exec) assignStmt(st *State, s *ast.AssignStmt, k func(*State)) {
	define := s.Tok == token.DEFINE
	if s.Tok != token.ASSIGN && s.Tok != token.DEFINE {
		// op-assign
		ex.eval(st, s.Lhs[0], func(st2 *State, l Val) {
			ex.eval(st2, s.Rhs[0], func(st3 *State, r Val) {
				op := strings.TrimSuffix(s.Tok.String(), "=")
				v := ex.binop(st3, op, l, r, s.Pos())
				v.GoT = l.GoT
				ex.assignTo(st3, s.Lhs[0], v, k)
			})
		})
		return
	}
	var afterAssign func(*State) // alias-link bookkeeping, runs before the continuation
	assignAll := func(st *State, vals []Val) {
		var rec func(st *State, i int)
		rec = func(st *State, i int) {
			if i >= len(s.Lhs) {
				if afterAssign != nil {
					afterAssign(st)
				}
				k(st)
				return
			}
			lhs := s.Lhs[i]
			if id, ok := lhs.(*ast.Ident); ok {
				if id.Name == "_" {
					rec(st, i+1)
					return
				}
				if define {
					if obj := ex.info.Defs[id]; obj != nil {
						ex.writeVar(st, obj, ex.convert(st, vals[i], obj.Type()))
						rec(st, i+1)
						return
					}
				}
			}
			ex.assignTo(st, lhs, vals[i], func(st2 *State) { rec(st2, i+1) })
		}
		rec(st, 0)
	}
	if len(s.Rhs) == 1 && len(s.Lhs) == 2 {
		switch r := unparen(s.Rhs[0]).(type) {
		case *ast.IndexExpr:
			if _, ok := under(ex.typeOf(r.X)).(*types.Map); ok {
				ex.eval(st, r.X, func(st2 *State, m Val) {
					ex.eval(st2, r.Index, func(st3 *State, key Val) {
						key = ex.convert(st3, key, under(ex.typeOf(r.X)).(*types.Map).Key())
						ok := app("select", app("m-dom", m.T), key.T)
						v := Val{T: ite(ok, app("select", app("m-val", m.T), key.T), zeroOf(m.S.Elem)), S: m.S.Elem, GoT: elemGoType(m.GoT)}
						afterAssign = func(stA *State) { ex.linkInnerMap(stA, s.Lhs[0], r.X, key) }
						assignAll(st3, []Val{v, {T: ok, S: SBool, GoT: types.Typ[types.Bool]}})
					})
				})
				return
			}
		case *ast.TypeAssertExpr:
			ex.eval(st, r.X, func(st2 *State, x Val) {
				v, ok := ex.typeAssert(st2, x, ex.typeOf(r.Type))
				assignAll(st2, []Val{v, {T: ok, S: SBool, GoT: types.Typ[types.Bool]}})
			})
			return
		case *ast.UnaryExpr:
			if r.Op == token.ARROW {
				ex.oof(s.Pos(), "channel receive")
			}
		}
	}
	if len(s.Rhs) == 1 && len(s.Lhs) > 1 {
		call, ok := unparen(s.Rhs[0]).(*ast.CallExpr)
		if !ok {
			ex.oof(s.Pos(), "multi-assign from non-call")
		}
		ex.evalCall(st, call, func(st2 *State, vals []Val) {
			if len(vals) != len(s.Lhs) {
				ex.oof(s.Pos(), "call result count mismatch")
			}
			assignAll(st2, vals)
		})
		return
	}
	if len(s.Rhs) == 1 && len(s.Lhs) == 1 {
		// x := E[k] / x = E[k] with a map-typed element: x denotes E[k] (if present);
		// E[k] = x: from now on E[k] denotes x
		if r, ok := unparen(s.Rhs[0]).(*ast.IndexExpr); ok {
			if mt, ok := under(ex.typeOf(r.X)).(*types.Map); ok {
				if _, inner := under(mt.Elem()).(*types.Map); inner {
					ex.eval(st, r.X, func(st2 *State, m Val) {
						ex.eval(st2, r.Index, func(st3 *State, key Val) {
							key = ex.convert(st3, key, mt.Key())
							ok := app("select", app("m-dom", m.T), key.T)
							v := Val{T: ite(ok, app("select", app("m-val", m.T), key.T), zeroOf(m.S.Elem)), S: m.S.Elem, GoT: elemGoType(m.GoT)}
							afterAssign = func(stA *State) { ex.linkInnerMap(stA, s.Lhs[0], r.X, key) }
							assignAll(st3, []Val{v})
						})
					})
					return
				}
			}
		}
		if l, ok := unparen(s.Lhs[0]).(*ast.IndexExpr); ok && !define {
			if mt, ok := under(ex.typeOf(l.X)).(*types.Map); ok {
				if id, isId := unparen(s.Rhs[0]).(*ast.Ident); isId {
					if _, inner := under(mt.Elem()).(*types.Map); inner {
						if obj, ok := ex.info.Uses[id].(*types.Var); ok && pureLvalue(l.X) {
							afterAssign = func(stA *State) {
								ex.eval(stA, l.Index, func(stB *State, key Val) {
									key = ex.convert(stB, key, mt.Key())
									stA.setLink(obj, &aliasLink{base: l.X, text: nodeString(ex.fset, l.X), key: key})
								})
							}
						}
					}
				}
			}
		}
	}
	ex.evalList(st, s.Rhs, assignAll)
}

// assignTo writes v to the location denoted by lhs.
// linkInnerMap records that the local map variable on the lhs denotes the element base[key].
func (ex *Exec) linkInnerMap(st *State, lhs ast.Expr, base ast.Expr, key Val) {
	id, ok := unparen(lhs).(*ast.Ident)
	if !ok || id.Name == "_" {
		return
	}
	obj := ex.info.Defs[id]
	if obj == nil {
		obj = ex.info.Uses[id]
	}
	if obj == nil {
		return
	}
	if _, isMap := under(obj.Type()).(*types.Map); !isMap {
		return
	}
	if !pureLvalue(base) {
		st.setLink(obj, nil)
		return
	}
	st.setLink(obj, &aliasLink{base: base, text: nodeString(ex.fset, base), key: key})
}

// pureLvalue: identifiers and field selections only (evaluating it has no effect and does not fork).
func pureLvalue(e ast.Expr) bool {
	switch x := unparen(e).(type) {
	case *ast.Ident:
		return true
	case *ast.SelectorExpr:
		return pureLvalue(x.X)
	case *ast.StarExpr:
		return pureLvalue(x.X)
	}
	return false
}

// writeBackLink stores the current value of the linked variable into the outer element it denotes.
func (ex *Exec) writeBackLink(st *State, obj types.Object, lk *aliasLink) {
	cur, ok := st.vars[obj]
	if !ok {
		return
	}
	if ex.boxed[obj] {
		st.setLink(obj, nil)
		return
	}
	ex.eval(st, lk.base, func(st2 *State, outer Val) {
		no := ex.share(st2, mapStore(ex.share(st2, outer), lk.key.T, cur.T))
		no.GoT = ex.typeOf(lk.base)
		ex.assignToNoLink(st2, lk.base, no, func(st3 *State) {
			st3.setLink(obj, lk)
		})
	})
}

// reassignsVar: does n contain a statement that may re-point the variable (assignment to the bare
// identifier, range variable, address-of)?
func (ex *Exec) reassignsVar(n ast.Node, obj types.Object) bool {
	found := false
	isObj := func(e ast.Expr) bool {
		id, ok := unparen(e).(*ast.Ident)
		if !ok {
			return false
		}
		return ex.info.Uses[id] == obj || ex.info.Defs[id] == obj
	}
	ast.Inspect(n, func(m ast.Node) bool {
		switch s := m.(type) {
		case *ast.AssignStmt:
			for _, l := range s.Lhs {
				if isObj(l) {
					found = true
				}
			}
		case *ast.RangeStmt:
			if (s.Key != nil && isObj(s.Key)) || (s.Value != nil && isObj(s.Value)) {
				found = true
			}
		case *ast.UnaryExpr:
			if s.Op == token.AND && isObj(s.X) {
				found = true
			}
		}
		return !found
	})
	return found
}

func (st *State) setLink(obj types.Object, l *aliasLink) {
	if st.aliasLinks == nil {
		st.aliasLinks = map[types.Object]*aliasLink{}
	}
	if l == nil {
		delete(st.aliasLinks, obj)
		return
	}
	st.aliasLinks[obj] = l
}

// assignToNoLink is assignTo without alias-link bookkeeping (used for the write-back itself).
func (ex *Exec) assignToNoLink(st *State, lhs ast.Expr, v Val, k func(*State)) {
	ex.noLink++
	ex.assignTo(st, lhs, v, func(st2 *State) {
		ex.noLink--
		k(st2)
		ex.noLink++
	})
	ex.noLink--
}

func (ex *Exec) assignTo(st *State, lhs ast.Expr, v Val, k func(*State)) {
	lhs = unparen(lhs)
	if ex.noLink == 0 && len(st.aliasLinks) > 0 {
		switch l := lhs.(type) {
		case *ast.Ident:
			// any other assignment to a linked variable ends the link
			if obj := ex.info.Uses[l]; obj != nil {
				st.setLink(obj, nil)
			}
		case *ast.IndexExpr:
			// E[k2] = something: links through E whose key may be k2 are no longer certain
			text := nodeString(ex.fset, l.X)
			for obj, lk := range st.aliasLinks {
				if lk.text == text {
					st.setLink(obj, nil)
				}
			}
		}
	}
	switch l := lhs.(type) {
	case *ast.Ident:
		if l.Name == "_" {
			k(st)
			return
		}
		obj := ex.info.Uses[l]
		if obj == nil {
			obj = ex.info.Defs[l]
		}
		vr, ok := obj.(*types.Var)
		if !ok {
			ex.oof(l.Pos(), "assignment to %s", l.Name)
		}
		if vr.Parent() == vr.Pkg().Scope() {
			ex.oof(l.Pos(), "assignment to package-level variable %s", l.Name)
		}
		ex.writeVar(st, vr, ex.convert(st, v, vr.Type()))
		k(st)
	case *ast.StarExpr:
		ex.eval(st, l.X, func(st2 *State, p Val) {
			elem := under(ex.typeOf(l.X)).(*types.Pointer).Elem()
			ex.store(st2, p, elem, ex.convert(st2, v, elem))
			k(st2)
		})
	case *ast.SelectorExpr:
		sel := ex.info.Selections[l]
		if sel == nil || sel.Kind() != types.FieldVal {
			ex.oof(l.Pos(), "assignment to non-field selector")
		}
		idx := sel.Index()
		// walk to the struct that directly holds the field
		baseT := ex.typeOf(l.X)
		ex.eval(st, l.X, func(st2 *State, base Val) {
			base.GoT = baseT
			cur := base
			if len(idx) > 1 {
				cur = ex.fieldPath(st2, base, idx[:len(idx)-1])
			}
			t := cur.GoT
			if p, ok := under(t).(*types.Pointer); ok {
				stt := under(p.Elem()).(*types.Struct)
				f := stt.Field(idx[len(idx)-1])
				ex.storeField(st2, cur, p.Elem(), f, ex.convert(st2, v, f.Type()))
				k(st2)
				return
			}
			if len(idx) > 1 {
				ex.oof(l.Pos(), "assignment through embedded struct value")
			}
			stt := under(t).(*types.Struct)
			ss := ex.sortOf(t)
			cur = ex.share(st2, cur)
			var args []string
			for i := 0; i < stt.NumFields(); i++ {
				f := stt.Field(i)
				if i == idx[0] {
					args = append(args, ex.convert(st2, v, f.Type()).T)
				} else {
					args = append(args, app(ss.Name+"_"+fieldAcc(f, i), cur.T))
				}
			}
			ex.assignTo(st2, l.X, ex.share(st2, Val{T: app("mk_"+ss.Name, args...), S: ss, GoT: t}), k)
		})
	case *ast.IndexExpr:
		xt := ex.typeOf(l.X)
		switch u := under(xt).(type) {
		case *types.Map:
			var link *aliasLink
			if id, ok := unparen(l.X).(*ast.Ident); ok {
				if obj, ok := ex.info.Uses[id].(*types.Var); ok && ex.aliasMapVars[obj] {
					link = st.aliasLinks[obj]
					if link == nil {
						ex.oof(l.Pos(), "write through map variable %s that may alias another map (it was read out of a map/field or copied); aliasing of maps is not modelled", id.Name)
					}
				}
			}
			ex.checkMapParamWrite(l.Pos(), l.X)
			if link != nil {
				ex.checkMapParamWrite(l.Pos(), link.base)
				// x denotes the same map object as E[k]: update x and store it back into E[k]
				ex.eval(st, l.X, func(st2 *State, m Val) {
					ex.eval(st2, l.Index, func(st3 *State, key Val) {
						key = ex.convert(st3, key, u.Key())
						nm := ex.share(st3, mapStore(ex.share(st3, m), key.T, ex.convert(st3, v, u.Elem()).T))
						nm.GoT = xt
						obj := ex.info.Uses[unparen(l.X).(*ast.Ident)]
						ex.writeVar(st3, obj, nm)
						ex.eval(st3, link.base, func(st4 *State, outer Val) {
							no := ex.share(st4, mapStore(ex.share(st4, outer), link.key.T, nm.T))
							no.GoT = ex.typeOf(link.base)
							ex.assignToNoLink(st4, link.base, no, func(st5 *State) {
								st5.setLink(obj, link)
								k(st5)
							})
						})
					})
				})
				return
			}
			ex.eval(st, l.X, func(st2 *State, m Val) {
				ex.eval(st2, l.Index, func(st3 *State, key Val) {
					key = ex.convert(st3, key, u.Key())
					nm := mapStore(ex.share(st3, m), key.T, ex.convert(st3, v, u.Elem()).T)
					nm.GoT = xt
					ex.assignTo(st3, l.X, ex.share(st3, nm), k)
				})
			})
		case *types.Slice, *types.Array:
			if !ex.isLocalFreshSlice(l.X) {
				ex.oof(l.Pos(), "element write through a slice that is not locally created (aliasing not modelled)")
			}
			ex.eval(st, l.X, func(st2 *State, sv Val) {
				ex.eval(st2, l.Index, func(st3 *State, i Val) {
					ns := Val{T: mkSlice(sv.S, app("store", app("s-arr", sv.T), i.T, ex.convert(st3, v, elemGoType(xt)).T), app("s-len", sv.T), app("s-nil", sv.T)), S: sv.S, GoT: xt}
					ex.assignTo(st3, l.X, ns, k)
				})
			})
		default:
			ex.oof(l.Pos(), "index assignment on %s", xt)
		}
	default:
		ex.oof(lhs.Pos(), "assignment target %T", lhs)
	}
}

// assignMapInPlace: the map object denoted by e changes in place (delete, clear): like an element write, a
// linked inner-map variable keeps its link and the outer element changes with it.
func (ex *Exec) assignMapInPlace(st *State, e ast.Expr, nv Val, k func(*State)) {
	if id, ok := unparen(e).(*ast.Ident); ok {
		if obj := ex.info.Uses[id]; obj != nil {
			if lk := st.aliasLinks[obj]; lk != nil {
				ex.checkMapParamWrite(e.Pos(), lk.base)
				ex.writeVar(st, obj, nv)
				ex.writeBackLink(st, obj, lk)
				k(st)
				return
			}
			if v, ok := obj.(*types.Var); ok && ex.aliasMapVars[v] {
				ex.oof(e.Pos(), "in-place change of map variable %s that may alias another map (aliasing of maps is not modelled)", id.Name)
			}
		}
	}
	ex.assignTo(st, e, nv, k)
}

// checkMapParamWrite: a map is a reference: writing an element of a map that came in through a parameter
// (directly, or inside a struct/array VALUE parameter; maps reached through pointers live in the heap and
// are covered by the heap frame) changes the caller's map. The parameter must then be listed in `modifies`,
// otherwise callers of this contract would keep their argument unchanged (found by a contract author: a
// helper filled an index map without `modifies`, its callers saw the literal empty map).
func (ex *Exec) checkMapParamWrite(pos token.Pos, e ast.Expr) {
	if ex.fc == nil || ex.fn == nil {
		return
	}
	root := unparen(e)
	for {
		switch x := root.(type) {
		case *ast.SelectorExpr:
			if sel := ex.info.Selections[x]; sel != nil && sel.Kind() == types.FieldVal {
				if _, isPtr := under(ex.typeOf(x.X)).(*types.Pointer); isPtr {
					return // heap
				}
				root = unparen(x.X)
				continue
			}
			return
		case *ast.IndexExpr:
			root = unparen(x.X)
			continue
		case *ast.StarExpr:
			return // heap
		}
		break
	}
	id, ok := root.(*ast.Ident)
	if !ok {
		return
	}
	obj, ok := ex.info.Uses[id].(*types.Var)
	if !ok {
		return
	}
	sig := ex.fn.Type().(*types.Signature)
	isParam := sig.Recv() == obj
	idx := -1
	for i := 0; i < sig.Params().Len(); i++ {
		if sig.Params().At(i) == obj {
			isParam, idx = true, i
		}
	}
	if !isParam {
		return
	}
	names := []string{obj.Name()}
	if idx >= 0 && idx < len(ex.fc.ParamNames) && ex.fc.ParamNames[idx] != "" {
		names = append(names, ex.fc.ParamNames[idx])
	}
	for _, m := range ex.fc.Modifies {
		m = strings.TrimPrefix(m, "param ")
		for _, n := range names {
			if m == n {
				return
			}
		}
	}
	ex.fail(pos, "a map reached through parameter %s is written but %s is not listed in `modifies` (callers would keep their argument unchanged)", obj.Name(), obj.Name())
}

func mapStore(m Val, k, v string) Val {
	dom := app("m-dom", m.T)
	return Val{T: mkMap(m.S, app("store", dom, k, "true"), app("store", app("m-val", m.T), k, v),
		ite(app("select", dom, k), app("m-size", m.T), app("+", app("m-size", m.T), "1")), "false"), S: m.S, GoT: m.GoT}
}

func mapDelete(m Val, k string) Val {
	dom := app("m-dom", m.T)
	return Val{T: mkMap(m.S, app("store", dom, k, "false"), app("m-val", m.T),
		ite(app("select", dom, k), app("-", app("m-size", m.T), "1"), app("m-size", m.T)), app("m-nil", m.T)), S: m.S, GoT: m.GoT}
}

// isLocalFreshSlice: e is a local (non-parameter) variable only ever assigned fresh slices.
func (ex *Exec) isLocalFreshSlice(e ast.Expr) bool {
	if sel, ok := unparen(e).(*ast.SelectorExpr); ok {
		// a slice-typed field of an object allocated in this function by &T{...} / new(T)
		if id, ok := unparen(sel.X).(*ast.Ident); ok {
			if obj, ok := ex.info.Uses[id].(*types.Var); ok && (ex.freshPtrVars[obj] || ex.freshStructVars[obj]) {
				return true
			}
		}
		return false
	}
	id, ok := unparen(e).(*ast.Ident)
	if !ok {
		return false
	}
	obj, ok := ex.info.Uses[id].(*types.Var)
	if !ok {
		return false
	}
	return ex.freshSliceVars[obj]
}

func (ex *Exec) typeOf(e ast.Expr) types.Type {
	if tv, ok := ex.info.Types[e]; ok && tv.Type != nil {
		return tv.Type
	}
	if id, ok := e.(*ast.Ident); ok {
		if obj := ex.info.Uses[id]; obj != nil {
			return obj.Type()
		}
		if obj := ex.info.Defs[id]; obj != nil {
			return obj.Type()
		}
	}
	ex.oof(e.Pos(), "no type for expression")
	return nil
}

// cond evaluates a boolean condition and forks.
func (ex *Exec) cond(st *State, e ast.Expr, kT, kF func(*State)) {
	e = unparen(e)
	if b, ok := e.(*ast.BinaryExpr); ok && (b.Op == token.LAND || b.Op == token.LOR) && (ex.hasCall(b.X) || ex.hasCall(b.Y)) {
		if b.Op == token.LAND {
			ex.cond(st, b.X, func(s1 *State) { ex.cond(s1, b.Y, kT, kF) }, kF)
		} else {
			ex.cond(st, b.X, kT, func(s1 *State) { ex.cond(s1, b.Y, kT, kF) })
		}
		return
	}
	if u, ok := e.(*ast.UnaryExpr); ok && u.Op == token.NOT {
		ex.cond(st, u.X, kF, kT)
		return
	}
	ex.eval(st, e, func(st2 *State, v Val) {
		if v.T == "true" {
			kT(st2)
			return
		}
		if v.T == "false" {
			kF(st2)
			return
		}
		sT := st2.clone()
		sT.assume(v.T)
		if !sT.dead {
			kT(sT)
		}
		st2.assume(not(v.T))
		if !st2.dead {
			kF(st2)
		}
	})
}

func (ex *Exec) hasCall(e ast.Expr) bool {
	found := false
	ast.Inspect(e, func(n ast.Node) bool {
		if c, ok := n.(*ast.CallExpr); ok {
			if tv, ok := ex.info.Types[c.Fun]; ok && tv.IsType() {
				return true
			}
			if id, ok := unparen(c.Fun).(*ast.Ident); ok {
				if _, ok := ex.info.Uses[id].(*types.Builtin); ok && (id.Name == "len" || id.Name == "cap" || id.Name == "min" || id.Name == "max") {
					return true
				}
			}
			found = true
		}
		if _, ok := n.(*ast.FuncLit); ok {
			return false
		}
		return !found
	})
	return found
}

// ---------- loops ----------

func (ex *Exec) loopSpec(n ast.Node) (int, *LoopSpec) {
	ord, ok := ex.loopOrd[n]
	if !ok {
		ex.oof(n.Pos(), "loop without ordinal (inside an inlined callee?)")
	}
	if ex.fc == nil {
		return ord, &LoopSpec{}
	}
	ls := ex.fc.Loops[ord]
	if ls == nil {
		ls = &LoopSpec{}
	}
	ex.loopHit[ord] = true
	return ord, ls
}

func (ex *Exec) assertInvs(st *State, kind string, ord int, ls *LoopSpec, pos token.Pos, extra map[string]Val) {
	for i, inv := range ls.Invariants {
		env := ex.envAt(st, pos)
		env.entryOrd = ord
		for k, v := range extra {
			env.names[k] = v
		}
		ex.assertClauseNamed(st, env, ex.oblName(kind, ord, i, inv), inv, pos)
	}
}

func (ex *Exec) assumeInvs(st *State, ord int, ls *LoopSpec, pos token.Pos, extra map[string]Val) {
	for _, inv := range ls.Invariants {
		env := ex.envAt(st, pos)
		env.entryOrd = ord
		for k, v := range extra {
			env.names[k] = v
		}
		t, err := env.elabBool(inv.Expr)
		if err != nil {
			ex.fail(pos, "loop invariant %q: %v", inv.Src, err)
			continue
		}
		st.assume(t)
	}
}

func (ex *Exec) forStmt(st *State, s *ast.ForStmt, c *ctl, k func(*State)) {
	label := c.label
	c.label = ""
	start := func(st *State) {
		ord, ls := ex.loopSpec(s)
		bodyPos := s.Body.Lbrace
		ex.assertInvs(st, "inv-entry", ord, ls, bodyPos, nil)
		st2 := st.clone()
		st2.setEntry(ord, st)
		ex.havocAssigned(st2, s.Body)
		if s.Post != nil {
			ex.havocAssigned(st2, s.Post)
		}
		if s.Cond != nil && ex.hasCall(s.Cond) {
			ex.havocAssigned(st2, &ast.ExprStmt{X: s.Cond})
		}
		ex.assumeInvs(st2, ord, ls, bodyPos, nil)
		afterBody := func(st *State) {
			post := func(st *State) {
				ex.assertInvs(st, "inv-step", ord, ls, bodyPos, nil)
				ex.paths++
			}
			if s.Post != nil {
				ex.stmt(st, s.Post, c, post)
			} else {
				post(st)
			}
		}
		c2 := c.with()
		c2.brk[""] = k
		c2.cont[""] = afterBody
		if label != "" {
			c2.brk[label] = k
			c2.cont[label] = afterBody
		}
		if s.Cond == nil {
			ex.stmts(st2, s.Body.List, c2, afterBody)
			return
		}
		ex.cond(st2, s.Cond, func(stT *State) {
			ex.stmts(stT, s.Body.List, c2, afterBody)
		}, k)
	}
	if s.Init != nil {
		ex.stmt(st, s.Init, c, start)
	} else {
		start(st)
	}
}

func (ex *Exec) rangeStmt(st *State, s *ast.RangeStmt, c *ctl, k func(*State)) {
	label := c.label
	c.label = ""
	xt := ex.typeOf(s.X)
	var keyObj, valObj types.Object
	defObj := func(e ast.Expr) types.Object {
		if e == nil {
			return nil
		}
		id, ok := e.(*ast.Ident)
		if !ok {
			ex.oof(e.Pos(), "range with non-identifier key/value")
		}
		if id.Name == "_" {
			return nil
		}
		if s.Tok == token.DEFINE {
			return ex.info.Defs[id]
		}
		return ex.info.Uses[id]
	}
	keyObj, valObj = defObj(s.Key), defObj(s.Value)
	ord, ls := ex.loopSpec(s)
	bodyPos := s.Body.Lbrace
	switch u := under(xt).(type) {
	case *types.Slice, *types.Array, *types.Basic:
		isInt := false
		if b, ok := u.(*types.Basic); ok {
			if b.Info()&types.IsInteger == 0 {
				ex.oof(s.Pos(), "range over %s", xt)
			}
			isInt = true
		}
		ex.eval(st, s.X, func(st1 *State, xs Val) {
			n := xs.T
			if !isInt {
				n = app("s-len", xs.T)
			}
			zero := Val{T: "0", S: SInt, GoT: types.Typ[types.Int]}
			ex.assertInvs(st1, "inv-entry", ord, ls, bodyPos, ex.rangeExtra(st1, keyObj, zero, s))
			st2 := st1.clone()
			st2.setEntry(ord, st1)
			ex.havocAssigned(st2, s.Body)
			i := ex.freshVal("i", types.Typ[types.Int])
			st2.assume(and(app("<=", "0", i.T), app("<=", i.T, n)))
			ex.assumeInvs(st2, ord, ls, bodyPos, ex.rangeExtra(st2, keyObj, i, s))
			// exit
			stE := st2.clone()
			stE.assume(eq(i.T, n))
			// iteration
			st2.assume(app("<", i.T, n))
			if keyObj != nil {
				ex.writeVar(st2, keyObj, i)
			}
			st2.extra[fmt.Sprintf("$i%d", ord)] = i
			if valObj != nil && !isInt {
				ex.writeVar(st2, valObj, Val{T: app("select", app("s-arr", xs.T), i.T), S: xs.S.Elem, GoT: elemGoType(xt)})
			}
			afterBody := func(st *State) {
				ni := Val{T: app("+", i.T, "1"), S: SInt, GoT: types.Typ[types.Int]}
				ex.assertInvs(st, "inv-step", ord, ls, bodyPos, ex.rangeExtra(st, keyObj, ni, s))
				ex.paths++
			}
			c2 := c.with()
			c2.brk[""] = k
			c2.cont[""] = afterBody
			if label != "" {
				c2.brk[label] = k
				c2.cont[label] = afterBody
			}
			if !st2.dead {
				ex.stmts(st2, s.Body.List, c2, afterBody)
			}
			if !stE.dead {
				k(stE)
			}
		})
	case *types.Map:
		ks := ex.sortOf(u.Key())
		setSort := SetOf(ks)
		readMap := func(st *State, kk func(*State, Val)) { ex.eval(st, s.X, kk) }
		readMap(st, func(st1 *State, mEntry Val) {
			empty := Val{T: zeroOf(setSort), S: setSort}
			ex.assertInvs(st1, "inv-entry", ord, ls, bodyPos, map[string]Val{"$visited": empty})
			st2 := st1.clone()
			st2.setEntry(ord, st1)
			ex.havocAssigned(st2, s.Body)
			visited := Val{T: ex.fresh("visited", setSort), S: setSort}
			extra := map[string]Val{"$visited": visited}
			readMap(st2, func(st3 *State, m Val) {
				ex.assumeInvs(st3, ord, ls, bodyPos, extra)
				stE := st3.clone()
				qk := "q_k"
				// at the end every key that was in the map when the loop started and is still there has been produced;
				// a key inserted by the body may or may not be produced (Go leaves it open), so nothing is assumed of it
				stE.assume("(forall ((" + qk + " " + ks.Name + ")) (=> (and (select (m-dom " + mEntry.T + ") " + qk + ") (select (m-dom " + m.T + ") " + qk + ")) (select " + visited.T + " " + qk + ")))")
				key := ex.freshVal("k", u.Key())
				st3.assume(and(app("select", app("m-dom", m.T), key.T), not(app("select", visited.T, key.T))))
				st3.assume(app(">", app("m-size", m.T), "0"))
				if keyObj != nil {
					ex.writeVar(st3, keyObj, key)
				}
				st3.extra["$key"] = key
				st3.extra[fmt.Sprintf("$key%d", ord)] = key
				// visible to invariants of loops nested in this one
				st3.extra[fmt.Sprintf("$visited%d", ord)] = visited
				if valObj != nil {
					ex.writeVar(st3, valObj, Val{T: app("select", app("m-val", m.T), key.T), S: m.S.Elem, GoT: u.Elem()})
				}
				afterBody := func(st *State) {
					nv := Val{T: app("store", visited.T, key.T, "true"), S: setSort}
					ex.assertInvs(st, "inv-step", ord, ls, bodyPos, map[string]Val{"$visited": nv})
					ex.paths++
				}
				c2 := c.with()
				c2.brk[""] = k
				c2.cont[""] = afterBody
				if label != "" {
					c2.brk[label] = k
					c2.cont[label] = afterBody
				}
				if !st3.dead {
					ex.stmts(st3, s.Body.List, c2, afterBody)
				}
				if !stE.dead {
					k(stE)
				}
			})
		})
	default:
		ex.oof(s.Pos(), "range over %s", xt)
	}
}

func (ex *Exec) rangeExtra(st *State, keyObj types.Object, i Val, s *ast.RangeStmt) map[string]Val {
	m := map[string]Val{"$i": i}
	if ord, ok := ex.loopOrd[s]; ok {
		m[fmt.Sprintf("$i%d", ord)] = i
	}
	if keyObj != nil {
		m[keyObj.Name()] = i
	}
	return m
}

func (ex *Exec) switchStmt(st *State, s *ast.SwitchStmt, c *ctl, k func(*State)) {
	label := c.label
	c.label = ""
	run := func(st *State) {
		c2 := c.with()
		c2.brk[""] = k
		if label != "" {
			c2.brk[label] = k
		}
		var clauses []*ast.CaseClause
		var dflt *ast.CaseClause
		for _, cc := range s.Body.List {
			cl := cc.(*ast.CaseClause)
			for _, b := range cl.Body {
				if br, ok := b.(*ast.BranchStmt); ok && br.Tok == token.FALLTHROUGH {
					ex.oof(br.Pos(), "fallthrough")
				}
			}
			if cl.List == nil {
				dflt = cl
			} else {
				clauses = append(clauses, cl)
			}
		}
		withTag := func(st *State, tag *Val) {
			var rec func(st *State, i int)
			rec = func(st *State, i int) {
				if i >= len(clauses) {
					if dflt != nil {
						ex.stmts(st, dflt.Body, c2, k)
					} else {
						k(st)
					}
					return
				}
				cl := clauses[i]
				// condition: any of the expressions matches
				var tryExpr func(st *State, j int)
				tryExpr = func(st *State, j int) {
					if j >= len(cl.List) {
						rec(st, i+1)
						return
					}
					if tag == nil {
						ex.cond(st, cl.List[j], func(sT *State) { ex.stmts(sT, cl.Body, c2, k) }, func(sF *State) { tryExpr(sF, j+1) })
						return
					}
					ex.eval(st, cl.List[j], func(st2 *State, v Val) {
						v = ex.convert(st2, v, tag.GoT)
						t := eq(tag.T, v.T)
						sT := st2.clone()
						sT.assume(t)
						if !sT.dead {
							ex.stmts(sT, cl.Body, c2, k)
						}
						st2.assume(not(t))
						if !st2.dead {
							tryExpr(st2, j+1)
						}
					})
				}
				tryExpr(st, 0)
			}
			rec(st, 0)
		}
		if s.Tag != nil {
			ex.eval(st, s.Tag, func(st2 *State, tag Val) {
				tag.GoT = ex.typeOf(s.Tag)
				withTag(st2, &tag)
			})
		} else {
			withTag(st, nil)
		}
	}
	if s.Init != nil {
		ex.stmt(st, s.Init, c, run)
	} else {
		run(st)
	}
}

func (ex *Exec) typeSwitchStmt(st *State, s *ast.TypeSwitchStmt, c *ctl, k func(*State)) {
	label := c.label
	c.label = ""
	run := func(st *State) {
		var x ast.Expr
		switch a := s.Assign.(type) {
		case *ast.ExprStmt:
			x = unparen(a.X).(*ast.TypeAssertExpr).X
		case *ast.AssignStmt:
			x = unparen(a.Rhs[0]).(*ast.TypeAssertExpr).X
		}
		ex.eval(st, x, func(st2 *State, xv Val) {
			c2 := c.with()
			c2.brk[""] = k
			if label != "" {
				c2.brk[label] = k
			}
			var dflt *ast.CaseClause
			cur := st2
			for _, cc := range s.Body.List {
				cl := cc.(*ast.CaseClause)
				if cl.List == nil {
					dflt = cl
					continue
				}
				var conds []string
				var single types.Type
				for _, te := range cl.List {
					if id, ok := te.(*ast.Ident); ok && id.Name == "nil" {
						conds = append(conds, eq(xv.T, "0"))
						continue
					}
					t := ex.typeOf(te)
					_, okc := ex.typeAssert(cur, xv, t)
					conds = append(conds, okc)
					single = t
				}
				cnd := or(conds...)
				sT := cur.clone()
				sT.assume(cnd)
				if obj := ex.info.Implicits[cl]; obj != nil {
					if len(cl.List) == 1 && single != nil {
						v, _ := ex.typeAssert(sT, xv, single)
						ex.writeVar(sT, obj, v)
					} else {
						ex.writeVar(sT, obj, xv)
					}
				}
				if !sT.dead {
					ex.stmts(sT, cl.Body, c2, k)
				}
				cur.assume(not(cnd))
			}
			if cur.dead {
				return
			}
			if dflt != nil {
				if obj := ex.info.Implicits[dflt]; obj != nil {
					ex.writeVar(cur, obj, xv)
				}
				ex.stmts(cur, dflt.Body, c2, k)
			} else {
				k(cur)
			}
		})
	}
	if s.Init != nil {
		ex.stmt(st, s.Init, c, run)
	} else {
		run(st)
	}
}

// typeAssert models x.(T): returns the value and the ok condition.
func (ex *Exec) typeAssert(st *State, x Val, t types.Type) (Val, string) {
	ex.declare("(declare-fun typeOf (Ref) Int)")
	s := ex.sortOf(t)
	if tp, isTP := t.(*types.TypeParam); isTP && typeParamIsConcreteUnion(tp) {
		// x.(T) with T a type parameter constrained to a union of non-interface types: every instance of T is a
		// concrete type, so the assertion is an exact dynamic-type test (the same term typeId(T) denotes in specs)
		ok := and(not(eq(x.T, "0")), eq(app("typeOf", x.T), ex.typeTag(t)))
		return Val{T: ite(ok, x.T, "0"), S: SRef, GoT: t}, ok
	}
	if _, isIface := under(t).(*types.Interface); isIface {
		ex.declare("(declare-fun implements (Int Int) Bool)")
		ok := and(not(eq(x.T, "0")), app("implements", app("typeOf", x.T), ex.typeTag(t)))
		return Val{T: ite(ok, x.T, "0"), S: SRef, GoT: t}, ok
	}
	ok := and(not(eq(x.T, "0")), eq(app("typeOf", x.T), ex.typeTag(t)))
	if s.K == KRef {
		return Val{T: ite(ok, x.T, "0"), S: SRef, GoT: t}, ok
	}
	unbox := "unbox_" + sanitize(s.Name)
	ex.declare("(declare-fun " + unbox + " (Ref) " + s.Name + ")")
	return Val{T: ite(ok, app(unbox, x.T), zeroOf(s)), S: s, GoT: t}, ok
}

func (ex *Exec) deferStmt(st *State, s *ast.DeferStmt, k func(*State)) {
	call := s.Call
	if lit, ok := unparen(call.Fun).(*ast.FuncLit); ok && len(call.Args) == 0 {
		clo := &Closure{Lit: lit, Pkg: ex.pkg}
		if ord, ok := ex.cloOrd[lit]; ok && ex.fc != nil {
			if ls := ex.fc.Closures[ord]; ls != nil && len(ls.Ensures) > 0 && ex.closureContextIsNew(st, lit) {
				ex.cloHit[ord] = true
				ex.verifyClosure(st.clone(), clo, ord, ls)
			}
		}
		st.pushDefer(func(st *State, k2 func(*State)) {
			ex.callClosure(st, clo, nil, func(st2 *State, _ []Val) { k2(st2) })
		})
		k(st)
		return
	}
	// defer f(args): receiver and arguments are evaluated now, the call happens at return
	ex.prepareCall(st, call, func(st2 *State, pc *preparedCall) {
		st2.pushDefer(func(st *State, k2 func(*State)) {
			ex.finishCall(st, pc, func(st3 *State, _ []Val) { k2(st3) })
		})
		k(st2)
	})
}

func (st *State) pushDefer(d deferred) {
	if len(st.defers) == 0 {
		st.defers = append(st.defers, nil)
	}
	st.defers[len(st.defers)-1] = append(st.defers[len(st.defers)-1], d)
}

// runDefers runs the top defer frame LIFO and pops it.
func (ex *Exec) runDefers(st *State, k func(*State)) {
	if len(st.defers) == 0 {
		k(st)
		return
	}
	frame := st.defers[len(st.defers)-1]
	st.defers = st.defers[:len(st.defers)-1]
	var rec func(st *State, i int)
	rec = func(st *State, i int) {
		if i < 0 {
			k(st)
			return
		}
		frame[i](st, func(st2 *State) { rec(st2, i-1) })
	}
	rec(st, len(frame)-1)
}

// typeParamIsConcreteUnion: the constraint is a union of non-interface types without methods (string | bool).
func typeParamIsConcreteUnion(tp *types.TypeParam) bool {
	iface, ok := tp.Constraint().Underlying().(*types.Interface)
	if !ok || iface.NumMethods() > 0 || iface.NumEmbeddeds() != 1 {
		return false
	}
	u, ok := iface.EmbeddedType(0).(*types.Union)
	if !ok {
		return false
	}
	for i := 0; i < u.Len(); i++ {
		if u.Term(i).Tilde() {
			return false
		}
		if _, isIface := u.Term(i).Type().Underlying().(*types.Interface); isIface {
			return false
		}
	}
	return u.Len() > 0
}
