package gocv

import (
	"encoding/json"
	"fmt"
	"go/ast"
	"go/types"
	"os"
	"path/filepath"
	"strings"

	"golang.org/x/tools/go/packages"
)

const repoModule = "github.com/bufbuild/buf"

type Loader struct {
	RepoDir string
	pkgs    map[string]*packages.Package // by import path (with syntax)
	byPath  map[string]*types.Package
	byName  map[string]*types.Package
	// every known package of a given name (short qualifiers such as "internal" are ambiguous)
	byNameAll map[string][]*types.Package
	decls   map[string]*ast.FuncDecl // funcKey -> decl
	declPkg map[string]*packages.Package
}

func NewLoader(repoDir string) *Loader {
	return &Loader{RepoDir: repoDir, pkgs: map[string]*packages.Package{}, byPath: map[string]*types.Package{}, byName: map[string]*types.Package{}, byNameAll: map[string][]*types.Package{}, decls: map[string]*ast.FuncDecl{}, declPkg: map[string]*packages.Package{}}
}

// Load loads the given import paths (relative to the repo module or full) with syntax and types.
func (l *Loader) Load(paths ...string) error {
	var pats []string
	for _, p := range paths {
		if _, ok := l.pkgs[p]; ok {
			continue
		}
		pats = append(pats, p)
	}
	if len(pats) == 0 {
		return nil
	}
	cfg := &packages.Config{
		Mode:       packages.NeedName | packages.NeedTypes | packages.NeedSyntax | packages.NeedTypesInfo | packages.NeedFiles | packages.NeedImports | packages.NeedCompiledGoFiles,
		Dir:        l.RepoDir,
		BuildFlags: []string{"-tags=verif"},
		Env:        append(os.Environ(), "GOFLAGS=-mod=mod", "GOPROXY=off", "GOSUMDB=off", "GOTOOLCHAIN=local"),
	}
	if ov := os.Getenv("VERIF_OVERLAY"); ov != "" {
		data, err := os.ReadFile(ov)
		if err != nil {
			return err
		}
		var m struct{ Replace map[string]string }
		if err := json.Unmarshal(data, &m); err != nil {
			return err
		}
		cfg.Overlay = map[string][]byte{}
		for k, v := range m.Replace {
			b, err := os.ReadFile(v)
			if err != nil {
				return err
			}
			cfg.Overlay[k] = b
		}
	}
	pkgs, err := packages.Load(cfg, pats...)
	if err != nil {
		return err
	}
	var errs []string
	for _, p := range pkgs {
		for _, e := range p.Errors {
			errs = append(errs, e.Error())
		}
	}
	if len(errs) > 0 {
		return fmt.Errorf("build broken: %s", strings.Join(errs, "; "))
	}
	for _, p := range pkgs {
		l.pkgs[p.PkgPath] = p
		l.index(p.Types)
		for _, f := range p.Syntax {
			for _, d := range f.Decls {
				fd, ok := d.(*ast.FuncDecl)
				if !ok {
					continue
				}
				obj, ok := p.TypesInfo.Defs[fd.Name].(*types.Func)
				if !ok {
					continue
				}
				k := funcKey(obj)
				l.decls[k] = fd
				l.declPkg[k] = p
			}
		}
	}
	return nil
}

// resolveShort resolves a short package qualifier written in the context of package `from`: the package
// itself, one of its direct imports, a package whose path ends in from's directory + "/" + name, and only
// then a package of that name if it is the only one known. An ambiguous name resolves to nil.
func (l *Loader) resolveShort(name, from string) *types.Package {
	if p, ok := l.byPath[name]; ok {
		return p
	}
	if fp := l.byPath[from]; fp != nil {
		if fp.Name() == name {
			return fp
		}
		for _, q := range fp.Imports() {
			if q.Name() == name {
				return q
			}
		}
	}
	all := l.byNameAll[name]
	if from != "" {
		var under []*types.Package
		for _, q := range all {
			if strings.HasPrefix(q.Path(), from+"/") {
				under = append(under, q)
			}
		}
		if len(under) == 1 {
			return under[0]
		}
	}
	if len(all) == 1 {
		return all[0]
	}
	return nil
}

// lookupFunc finds a package-level function. A package reached only through the export data of an INDIRECT import is
// a stub whose scope holds just the objects its importers mention; the fully loaded package of the same path (loaded
// on demand) is consulted then. Contracts are keyed by funcKey (a string), so the two objects denote the same function.
func (l *Loader) lookupFunc(p *types.Package, name string) (*types.Func, bool) {
	if fn, ok := p.Scope().Lookup(name).(*types.Func); ok {
		return fn, true
	}
	if q := l.byPath[p.Path()]; q != nil && q != p {
		if fn, ok := q.Scope().Lookup(name).(*types.Func); ok {
			return fn, true
		}
	}
	if _, loaded := l.pkgs[p.Path()]; !loaded {
		if err := l.Load(p.Path()); err == nil {
			if q := l.pkgs[p.Path()]; q != nil && q.Types != nil {
				if fn, ok := q.Types.Scope().Lookup(name).(*types.Func); ok {
					return fn, true
				}
			}
		}
	}
	return nil, false
}

func (l *Loader) index(p *types.Package) {
	if p == nil || l.byPath[p.Path()] != nil {
		return
	}
	l.byPath[p.Path()] = p
	if _, dup := l.byName[p.Name()]; !dup {
		l.byName[p.Name()] = p
	}
	l.byNameAll[p.Name()] = append(l.byNameAll[p.Name()], p)
	for _, q := range p.Imports() {
		l.index(q)
	}
}

// ContractFiles returns the zz_verif_contracts.go files of loaded packages.
func (l *Loader) ContractFiles() map[string]string {
	out := map[string]string{}
	for path, p := range l.pkgs {
		for _, f := range p.CompiledGoFiles {
			if filepath.Base(f) == "zz_verif_contracts.go" {
				out[f] = path
			}
		}
		// comment-only file may be listed under GoFiles only
		for _, f := range p.GoFiles {
			if filepath.Base(f) == "zz_verif_contracts.go" {
				out[f] = path
			}
		}
	}
	return out
}

// funcKey is the contract table key of a function or method.
func funcKey(fn *types.Func) string {
	fn = fn.Origin()
	sig := fn.Type().(*types.Signature)
	pkg := ""
	if fn.Pkg() != nil {
		pkg = fn.Pkg().Path()
	}
	if r := sig.Recv(); r != nil {
		t := r.Type()
		if p, ok := t.(*types.Pointer); ok {
			t = p.Elem()
		}
		switch n := t.(type) {
		case *types.Named:
			if n.Obj().Pkg() != nil {
				pkg = n.Obj().Pkg().Path()
			}
			return pkg + "." + n.Obj().Name() + "." + fn.Name()
		case *types.Alias:
			return pkg + "." + n.Obj().Name() + "." + fn.Name()
		default:
			// method of an interface literal or embedded: find the named interface that declares it, if any
			return pkg + ".?." + fn.Name()
		}
	}
	return pkg + "." + fn.Name()
}

func shortPkg(path string) string {
	if i := strings.LastIndex(path, "/"); i >= 0 {
		return path[i+1:]
	}
	return path
}
