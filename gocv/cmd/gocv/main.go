package main

import (
	"encoding/json"
	"flag"
	"fmt"
	"os"
	"path/filepath"
	"runtime"
	"strconv"

	"gocv/internal/gocv"
)

func main() {
	if len(os.Args) < 2 {
		fmt.Fprintln(os.Stderr, "usage: gocv check --property Cxx [--tier quick|thorough]")
		os.Exit(2)
	}
	switch os.Args[1] {
	case "check":
		fs := flag.NewFlagSet("check", flag.ExitOnError)
		prop := fs.String("property", "", "property id")
		tier := fs.String("tier", "quick", "quick|thorough")
		repo := fs.String("repo", "/repo", "repository")
		verif := fs.String("verif", "", "verif dir (default: cwd)")
		verbose := fs.Bool("v", false, "verbose")
		only := fs.String("only", "", "regexp on obligation names")
		keep := fs.Bool("keep-smt", false, "keep SMT files under .smt/")
		noEv := fs.Bool("no-evidence", false, "do not write evidence (self-test runs)")
		fs.Parse(os.Args[2:])
		if t := os.Getenv("VERIF_TIER"); t != "" && *tier == "" {
			*tier = t
		}
		seed := 0
		if s := os.Getenv("VERIF_SEED"); s != "" {
			seed, _ = strconv.Atoi(s)
		}
		vd := *verif
		if vd == "" {
			vd, _ = os.Getwd()
		}
		vd, _ = filepath.Abs(vd)
		opt := &gocv.Options{RepoDir: *repo, VerifDir: vd, Property: *prop, Tier: *tier, Seed: seed, Jobs: runtime.NumCPU(), Verbose: *verbose, Only: *only, KeepSMT: *keep, NoEvidence: *noEv}
		rep, err := gocv.RunCheck(opt)
		if err != nil {
			fmt.Println("error:", err)
			os.Exit(2)
		}
		os.Exit(gocv.Report(opt, rep, notCovered(vd, *prop)))
	case "replay":
		// gocv replay --property Cxx --obligation NAME: run the registered harness for that obligation on /repo now
		fs := flag.NewFlagSet("replay", flag.ExitOnError)
		prop := fs.String("property", "", "property id")
		obl := fs.String("obligation", "", "obligation name")
		repo := fs.String("repo", "/repo", "repository")
		file := fs.String("file", "", "replay file written by a failed check (names property and obligation)")
		fs.Parse(os.Args[2:])
		vd, _ := os.Getwd()
		if *file != "" {
			data, err := os.ReadFile(*file)
			if err != nil {
				fmt.Println("error:", err)
				os.Exit(2)
			}
			fmt.Println(string(data))
			var rec map[string]any
			if json.Unmarshal(data, &rec) == nil {
				if s, ok := rec["obligation"].(string); ok {
					*obl = s
				}
				if s, ok := rec["property"].(string); ok {
					*prop = s
				}
			}
		}
		opt := &gocv.Options{RepoDir: *repo, VerifDir: vd, Property: *prop, NoEvidence: true}
		input, log, err := gocv.ReplayNow(opt, *obl)
		if err != nil {
			// no harness: the replay file itself (printed above) is all there is
			fmt.Println("note:", err)
			os.Exit(0)
		}
		fmt.Println(log)
		if input != "" {
			fmt.Println("FAILING INPUT:", input)
			os.Exit(1)
		}
		fmt.Println("no failing input found")
	default:
		fmt.Fprintln(os.Stderr, "unknown command", os.Args[1])
		os.Exit(2)
	}
}

// notCovered reads the per-property list of clauses no obligation speaks about.
func notCovered(verif, prop string) []string {
	data, err := os.ReadFile(filepath.Join(verif, "specs", "not_covered.json"))
	if err != nil {
		return nil
	}
	var m map[string][]string
	if json.Unmarshal(data, &m) != nil {
		return nil
	}
	return m[prop]
}
