package main

import (
	"bytes"
	"fmt"
)

// bytes.Buffer is modelled as a ghost map ghost.buf from buffer addresses to texts. The link between the ghost
// map and the real buffer is String(): `ensures r == ghost.buf[this]`. The checks therefore read ghost.buf[b]
// as "what b.String() returns" (before and after the operation under test) and evaluate each contract on
// real before/after states; a second buffer witnesses the frame part of `ghost.buf == put(old(ghost.buf), this, …)`.

type bufOp struct {
	name string
	buf  int // which of the two buffers
	kind int // 0 WriteString, 1 WriteRune, 2 Reset, 3 Write, 4 String, 5 Bytes
	s    string
	r    rune
	p    []byte
}

func (o bufOp) String() string { return fmt.Sprintf("buf%d.%s", o.buf, o.name) }

type bufStep struct {
	op            bufOp
	before, after [2]string // String() of both buffers
	n             int
	err           error
	ret           string // result of String()
}

func applyBufOp(bs [2]*bytes.Buffer, o bufOp) bufStep {
	st := bufStep{op: o}
	st.before = [2]string{bs[0].String(), bs[1].String()}
	b := bs[o.buf]
	switch o.kind {
	case 0:
		st.n, st.err = b.WriteString(o.s)
	case 1:
		st.n, st.err = b.WriteRune(o.r)
	case 2:
		b.Reset()
	case 3:
		st.n, st.err = b.Write(o.p)
	case 4:
		st.ret = b.String()
	case 5:
		st.ret = string(b.Bytes()) // bstr(r): the text spelled by the returned bytes
	}
	st.after = [2]string{bs[0].String(), bs[1].String()}
	return st
}

// bufWalk replays every sequence of operations of length 1..depth on two fresh buffers and reports the LAST step
// of each sequence (shorter prefixes are sequences of their own).
func bufWalk(ops []bufOp, depth int, visit func(seq []bufOp, last bufStep)) {
	seq := make([]bufOp, 0, depth)
	var rec func()
	rec = func() {
		if len(seq) > 0 {
			bs := [2]*bytes.Buffer{bytes.NewBuffer(nil), new(bytes.Buffer)}
			var st bufStep
			for _, o := range seq {
				st = applyBufOp(bs, o)
			}
			visit(seq, st)
		}
		if len(seq) == depth {
			return
		}
		for _, o := range ops {
			seq = append(seq, o)
			rec()
			seq = seq[:len(seq)-1]
		}
	}
	rec()
}

func checksBytes() {
	const F = "std/bytes.spec"
	const P = "bytes"
	cNewBuffer := contract{F, P, "NewBuffer", 3, []string{
		`r != nil && (isNilSlice(b) ==> ghost.buf == put(old(ghost.buf), r, ""))`,
		`!(r in old(ghost.buf))`}}
	cWriteString := contract{F, P, "(Buffer) WriteString", 7, []string{
		`ghost.buf == put(old(ghost.buf), this, old(ghost.buf)[this] + s)`,
		`err == nil`}}
	cWriteRune := contract{F, P, "(Buffer) WriteRune", 11, []string{
		`0 <= r && r < 128 ==> ghost.buf == put(old(ghost.buf), this, old(ghost.buf)[this] + fromCode(r))`,
		`forall b ref :: b != this && b in old(ghost.buf) ==> b in ghost.buf && ghost.buf[b] == old(ghost.buf)[b]`,
		`err == nil`}}
	cReset := contract{F, P, "(Buffer) Reset", 15, []string{`ghost.buf == put(old(ghost.buf), this, "")`}}
	cString := contract{F, P, "(Buffer) String", 18, []string{`r == ghost.buf[this]`}}.withNote(
		"the clause DEFINES the ghost text as what String() returns; checked: String() is stable and changes no buffer")
	cWrite := contract{"C14_buckets.spec", P, "(Buffer) Write", 224, []string{
		`err == nil && n == len(p)`,
		`ghost.buf == put(old(ghost.buf), this, old(ghost.buf)[this] + bstr(p))`}}.withNote("bstr(p) is the engine's []byte -> string view: string(p)")
	cBytes := contract{"C14_buckets.spec", P, "(Buffer) Bytes", 42, []string{`bstr(r) == ghost.buf[this]`}}.withNote("bstr(r) read as string(r)")
	cNewReader := contract{"C14_buckets.spec", P, "NewReader", 39, []string{`r != nil`}}

	var ops []bufOp
	for b := 0; b < 2; b++ {
		ops = append(ops,
			bufOp{name: `WriteString("")`, buf: b, kind: 0, s: ""},
			bufOp{name: `WriteString("a")`, buf: b, kind: 0, s: "a"},
			bufOp{name: `WriteString("b\xc3")`, buf: b, kind: 0, s: "b\xc3"},
			bufOp{name: `WriteRune('c')`, buf: b, kind: 1, r: 'c'},
			bufOp{name: `Reset()`, buf: b, kind: 2},
			bufOp{name: `Write("d\xc3")`, buf: b, kind: 3, p: []byte("d\xc3")},
			bufOp{name: `Write(nil)`, buf: b, kind: 3, p: nil},
			bufOp{name: `Bytes()`, buf: b, kind: 5},
			bufOp{name: `String()`, buf: b, kind: 4},
		)
	}
	depth := min(L-3, 5)
	bound := fmt.Sprintf("every sequence of 1..%d operations (WriteString of 3 texts, WriteRune('c'), Reset, Write of 2 slices, String, Bytes) on two buffers; the clause is evaluated on the last operation", depth)
	frame := func(st bufStep) bool { return st.after[1-st.op.buf] == st.before[1-st.op.buf] }

	check("Buffer.WriteString appends s to this buffer's text, changes no other buffer, returns a nil error", []contract{cWriteString}, bound, func(t *T) {
		bufWalk(ops, depth, func(seq []bufOp, st bufStep) {
			if st.op.kind != 0 {
				return
			}
			t.Case()
			t.Check(st.after[st.op.buf] == st.before[st.op.buf]+st.op.s && frame(st), cWriteString.ensures[0], "%v: texts %q -> %q", seq, st.before, st.after)
			t.Check(st.err == nil, cWriteString.ensures[1], "%v: err=%v", seq, st.err)
		})
	})
	check("Buffer.Reset empties this buffer's text and changes no other buffer", []contract{cReset}, bound, func(t *T) {
		bufWalk(ops, depth, func(seq []bufOp, st bufStep) {
			if st.op.kind != 2 {
				return
			}
			t.Case()
			t.Check(st.after[st.op.buf] == "" && frame(st), cReset.ensures[0], "%v: texts %q -> %q", seq, st.before, st.after)
		})
	})
	check("Buffer.String returns the text and is an observer (no buffer changes, repeated calls agree)", []contract{cString}, bound, func(t *T) {
		bufWalk(ops, depth, func(seq []bufOp, st bufStep) {
			if st.op.kind != 4 {
				return
			}
			t.Case()
			t.Check(st.ret == st.before[st.op.buf] && st.ret == st.after[st.op.buf] && frame(st), cString.ensures[0], "%v: String()=%q, texts %q -> %q", seq, st.ret, st.before, st.after)
		})
	})
	check("Buffer.Bytes spells the buffer's text and is an observer", []contract{cBytes}, bound, func(t *T) {
		bufWalk(ops, depth, func(seq []bufOp, st bufStep) {
			if st.op.kind != 5 {
				return
			}
			t.Case()
			t.Check(st.ret == st.before[st.op.buf] && st.ret == st.after[st.op.buf] && frame(st), cBytes.ensures[0], "%v: string(Bytes())=%q, texts %q -> %q", seq, st.ret, st.before, st.after)
		})
	})
	check("Buffer.Write takes the whole slice, returns a nil error and appends the text of the bytes to this buffer only", []contract{cWrite}, bound, func(t *T) {
		bufWalk(ops, depth, func(seq []bufOp, st bufStep) {
			if st.op.kind != 3 {
				return
			}
			t.Case()
			t.Check(st.err == nil && st.n == len(st.op.p), cWrite.ensures[0], "%v: n=%d err=%v", seq, st.n, st.err)
			t.Check(st.after[st.op.buf] == st.before[st.op.buf]+string(st.op.p) && frame(st), cWrite.ensures[1], "%v: texts %q -> %q", seq, st.before, st.after)
		})
	})

	// WriteRune: the appended text is fromCode(r), a ONE-character string with code r (SMT-LIB str.from_code; the
	// verifier's strings are byte sequences, so a character is a byte).
	runes := []rune{0xe9, 0x80, -1, 0, 1, '\n', 'a', 0x7f, 0xff, 0x100, 0x20ac, 0xd800, 0xfffd, 0x10000, 0x10ffff, 0x110000, 0x2ffff, 0x30000, 0x7fffffff, -0x80000000}
	var ascii []rune
	for r := rune(0); r < 0x80; r++ {
		ascii = append(ascii, r)
	}
	writeRuneOne := func(t *T, prefix string, r rune) {
		t.Case()
		bs := [2]*bytes.Buffer{bytes.NewBuffer(nil), bytes.NewBuffer(nil)}
		bs[0].WriteString(prefix)
		bs[1].WriteString("other")
		st := applyBufOp(bs, bufOp{name: fmt.Sprintf("WriteRune(%#x)", r), buf: 0, kind: 1, r: r})
		want := append(model(st.before[0]), fromCode(int64(r))...)
		t.Check(!(0 <= r && r < 128) || (model(st.after[0]).eq(want) && frame(st)), cWriteRune.ensures[0],
			"after WriteString(%q), WriteRune(%#x): text %q -> %q (bytes % x), the clause gives the %d-character text with codes %v", prefix, r, st.before[0], st.after[0], st.after[0], len(want), []int32(want))
		t.Check(frame(st), cWriteRune.ensures[1], "WriteRune(%#x) on one buffer changed the text of another: %q -> %q", r, st.before[1], st.after[1])
		t.Check(st.err == nil, cWriteRune.ensures[2], "WriteRune(%#x): err=%v", r, st.err)
	}
	check("Buffer.WriteRune of an ASCII rune (0 <= r < 128) appends the one-character text fromCode(r); other buffers keep their text; nil error", []contract{cWriteRune},
		"all 128 ASCII runes after the texts \"\", \"a\", \"ab\\xc3\"", func(t *T) {
			for _, p := range []string{"", "a", "ab\xc3"} {
				for _, r := range ascii {
					writeRuneOne(t, p, r)
				}
			}
		})
	check("Buffer.WriteRune of every rune: the text clause is claimed for ASCII only (others are UTF-8 sequences / U+FFFD); other buffers keep their text; nil error", []contract{cWriteRune},
		fmt.Sprintf("%d runes (negative, ASCII, 0x80..0xff, multi-byte, surrogate, beyond 0x10ffff / 0x2ffff) after the texts \"\", \"a\"", len(runes)), func(t *T) {
			for _, p := range []string{"", "a"} {
				for _, r := range runes {
					writeRuneOne(t, p, r)
				}
			}
		})

	check("NewBuffer returns a fresh non-nil buffer; for a nil slice its text is empty and no other buffer changes", []contract{cNewBuffer},
		fmt.Sprintf("%d consecutive allocations (all kept alive) for each of the arguments nil, []byte{}, []byte(\"xy\")", 50*L), func(t *T) {
			live := map[*bytes.Buffer]string{}
			args := [][]byte{nil, {}, []byte("xy")}
			for i := 0; i < 50*L; i++ {
				for _, a := range args {
					t.Case()
					old := map[*bytes.Buffer]string{}
					for b := range live {
						old[b] = b.String()
					}
					r := bytes.NewBuffer(a)
					_, was := old[r]
					ok := r != nil
					if a == nil && ok {
						ok = r.String() == ""
						for b, s := range old {
							if b.String() != s {
								ok = false
							}
						}
					}
					t.Check(ok, cNewBuffer.ensures[0], "NewBuffer(%q): r=%p text %q", a, r, r.String())
					t.Check(!was, cNewBuffer.ensures[1], "NewBuffer(%q) returned the address %p of a live buffer", a, r)
					r.WriteString(fmt.Sprint("#", i))
					live[r] = ""
				}
			}
		})
	check("bytes.NewReader returns a non-nil reader", []contract{cNewReader}, "nil, empty and all slices over {0x00 'a'} up to length 3", func(t *T) {
		t.Case()
		t.Check(bytes.NewReader(nil) != nil, cNewReader.ensures[0], "NewReader(nil)")
		enum("\x00a", 3, func(s string) {
			t.Case()
			t.Check(bytes.NewReader([]byte(s)) != nil, cNewReader.ensures[0], "NewReader(%q)", s)
		})
	})
}
