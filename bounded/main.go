// Command bounded validates the TRUSTED contracts the gocv proofs assume for standard-library,
// third-party and a few repo functions (/verif/specs/std/*.spec, /verif/specs/*.spec) against the
// REAL functions, by exhaustive enumeration of small inputs. It is a bounded stand-in: its results
// are reported under coverage.bounded_checks and never counted as discharged obligations.
//
// Every check names the contract it validates (file:line of the declaration), carries the text of
// the ensures clauses it was translated from (compared with the spec files at run time: a contract
// edited after the translation is reported as a failure, "stale translation"), and evaluates each
// clause with the SMT-LIB meaning of the contract builtins (smt.go), not with the Go function under test.
//
// Output: one JSON object {"label":"bounded","failed":N,"results":[{"name","bound","cases","failed","examples"}]},
// exit code 1 if any case failed.  `--len N` scales the bounds (quick tier 7, thorough tier 9).
// `--coverage` prints COVERAGE.md (every trusted contract found, with its validation status).
package main

import (
	"encoding/json"
	"flag"
	"fmt"
	"os"
	"path/filepath"
	"regexp"
	"strings"
	"time"
)

// ---- the path predicates of /verif/specs/paths.spec, as Go regular expressions (used by the original checks;
// smt.go has independent direct implementations, and selfcheck() compares the two)
var (
	comp    = `(?:[^/.][^/]*|\.[^/.][^/]*|\.\.[^/]+)`
	comps   = comp + `(?:/` + comp + `)*`
	validRe = regexp.MustCompile(`^(?:\.|` + comps + `)$`)
	cleanRe = regexp.MustCompile(`^(?:\.|/|/` + comps + `|` + comps + `|\.\.(?:/\.\.)*|(?:\.\./)+` + comps + `)$`)
)

func validRel(s string) bool   { return validRe.MatchString(s) }
func cleanShape(s string) bool { return cleanRe.MatchString(s) }

// enum calls f for every string over alpha of length <= n.
func enum(alpha string, n int, f func(string)) {
	var rec func(p string)
	rec = func(p string) {
		f(p)
		if len(p) >= n {
			return
		}
		for i := 0; i < len(alpha); i++ {
			rec(p + alpha[i:i+1])
		}
	}
	rec("")
}

func all(alpha string, n int) []string {
	var out []string
	enum(alpha, n, func(s string) { out = append(out, s) })
	return out
}

type result struct {
	Name     string   `json:"name"`
	Bound    string   `json:"bound"`
	Cases    int      `json:"cases"`
	Failed   int      `json:"failed"`
	Examples []string `json:"examples,omitempty"`
}

var maxExamples = 4

// T is handed to a check: c.Case() counts an input, c.Fail(...) records a violated clause.
type T struct{ r *result }

func (t *T) Case() { t.r.Cases++ }
func (t *T) Fail(format string, a ...any) {
	t.r.Failed++
	if len(t.r.Examples) < maxExamples {
		t.r.Examples = append(t.r.Examples, fmt.Sprintf(format, a...))
	}
}

// Check evaluates a labelled clause: t.Check(ok, "clause-text", "input/result description").
func (t *T) Check(ok bool, clause string, format string, a ...any) {
	if !ok {
		t.Fail("%s violates [%s]", fmt.Sprintf(format, a...), clause)
	}
}

var (
	L       int // --len
	results []result
	only    *regexp.Regexp
)

// outcome of one check, recorded per contract for --coverage
type outcome struct {
	title, bound  string
	cases, failed int
	example       string
	stale         bool
}

var outcomes = map[string][]outcome{}

// check runs one validation. cs are the contracts (or axioms) it validates.
func check(title string, cs []contract, bound string, run func(t *T)) {
	name, stale, keys := describe(cs)
	name += " — " + title
	if only != nil && !only.MatchString(name) {
		return
	}
	r := result{Name: name, Bound: bound}
	t := &T{r: &r}
	for _, s := range stale {
		t.Fail("%s", s)
	}
	start := time.Now()
	run(t)
	if timing {
		fmt.Fprintf(os.Stderr, "%7.3fs %s\n", time.Since(start).Seconds(), name[:min(len(name), 110)])
	}
	results = append(results, r)
	o := outcome{title: title, bound: bound, cases: r.Cases, failed: r.Failed, stale: len(stale) > 0}
	if len(r.Examples) > 0 {
		o.example = r.Examples[0]
	}
	for _, k := range keys {
		outcomes[k] = append(outcomes[k], o)
	}
}

var coverageMode, timing bool

func main() {
	n := flag.Int("len", 8, "scale of the bounds (maximal string length of the basic enumerations)")
	specs := flag.String("specs", "", "directory of the .spec files (default: ../specs next to the binary, else /verif/specs)")
	repo := flag.String("repo", "/repo", "the verified repository (scanned for the //@ trusted lines of zz_verif_contracts*.go)")
	onlyF := flag.String("only", "", "run only the checks whose name matches this regexp")
	flag.IntVar(&maxExamples, "examples", 4, "maximal number of counterexamples kept per check")
	flag.BoolVar(&timing, "timing", false, "print the run time of every check to stderr")
	cov := flag.Bool("coverage", false, "print COVERAGE.md instead of running the checks")
	flag.Parse()
	L = *n
	if L < 3 {
		L = 3
	}
	coverageMode = *cov
	if *onlyF != "" {
		only = regexp.MustCompile(*onlyF)
	}
	loadSpecs(*specs)
	if specDir != "" {
		loadRepoContracts(*repo)
	}
	selfcheck()

	checksFilepath()
	checksStrings()
	checksStrconv()
	checksSort()
	checksBytes()
	checksErrors()
	checksIO()
	checksProtowire()
	checksOS()
	checksArchive()
	checksRepo()
	checksProto()
	checksImageV1()
	checksExtra()
	checksR4()
	checksWriter()
	checksNetrc()
	checksPure()

	if coverageMode {
		printCoverage()
		return
	}
	failed := 0
	for _, r := range results {
		failed += r.Failed
	}
	enc := json.NewEncoder(os.Stdout)
	enc.SetEscapeHTML(false)
	enc.Encode(map[string]any{"label": "bounded", "results": results, "failed": failed})
	if failed > 0 {
		os.Exit(1)
	}
}

// selfcheck compares the two independent implementations of the path predicates (regexp above, direct
// definition in smt.go) so that an error in the oracle itself does not go unnoticed.
func selfcheck() {
	check("oracle self-check: validRel/cleanShape as regular expressions (paths.spec validRelRe/cleanRe) agree with their direct definitions",
		nil, fmt.Sprintf("all strings over {a . / \\n} up to length %d", min(L, 8)), func(t *T) {
			enum("a./\n", min(L, 8), func(s string) {
				t.Case()
				if validRel(s) != validRelDef(s) {
					t.Fail("validRel(%q): regexp %v, definition %v", s, validRel(s), validRelDef(s))
				}
				if cleanShape(s) != cleanShapeDef(s) {
					t.Fail("cleanShape(%q): regexp %v, definition %v", s, cleanShape(s), cleanShapeDef(s))
				}
			})
		})
}

// ---------------------------------------------------------------- path/filepath

func checksFilepath() {
	const F = "std/filepath.spec"
	const P = "path/filepath"
	alpha := "a./"
	// the valid relative paths used by Join / Dir / Rel / StripComponents
	vn := L - 2
	if vn > 6 {
		vn = 6
	}
	var valid []string
	enum("ab./", vn, func(s string) {
		if validRel(s) {
			valid = append(valid, s)
		}
	})
	validBound := fmt.Sprintf("valid relative paths over {a b . /} up to length %d (%d paths)", vn, len(valid))

	cClean := contract{F, P, "Clean", 3, []string{
		`cleanShape(r)`,
		`cleanShape(path) ==> r == path`}}
	cToSlash := contract{F, P, "ToSlash", 6, []string{`r == path`}}
	cFromSlash := contract{F, P, "FromSlash", 8, []string{`r == path`}}
	cIsAbs := contract{F, P, "IsAbs", 10, []string{`r == hasPrefix(path, "/")`}}
	cDir := contract{F, P, "Dir", 12, []string{
		`validRel(path) ==> r == dirOf(path)`,
		`cleanShape(r)`,
		`validRel(path) && path != "." ==> validRel(r) && ((!contains(path, "/") && r == ".") || (r != "." && hasPrefix(path, r + "/") && !contains(substr(path, len(r) + 1, len(path)), "/") && len(path) > len(r) + 1))`}}
	cJoin := contract{F, P, "Join", 16, []string{
		`len(elem) == 2 && validRel(elem[0]) && validRel(elem[1]) ==> r == join2(elem[0], elem[1])`,
		`len(elem) == 1 && validRel(elem[0]) ==> r == elem[0]`,
		`r == "" || cleanShape(r)`}}

	// (original check, kept) Clean / IsAbs / ToSlash / FromSlash
	check("Clean: result has a clean shape; clean shapes are fixpoints; IsAbs == hasPrefix '/'; ToSlash/FromSlash identity",
		[]contract{cClean, cToSlash, cFromSlash, cIsAbs},
		fmt.Sprintf("all strings over {a . /} up to length %d", L), func(t *T) {
			enum(alpha, L, func(s string) {
				t.Case()
				r := filepath.Clean(s)
				if !cleanShape(r) {
					t.Fail("Clean(%q)=%q not clean-shaped", s, r)
				}
				if cleanShape(s) && r != s {
					t.Fail("clean-shaped %q is not a fixpoint: %q", s, r)
				}
				if filepath.IsAbs(s) != hasPrefix(s, "/") {
					t.Fail("IsAbs(%q)", s)
				}
				if filepath.ToSlash(s) != s || filepath.FromSlash(s) != s {
					t.Fail("ToSlash/FromSlash(%q)", s)
				}
			})
		})
	// a second alphabet: a second letter, backslash, blank, a non-ASCII byte (the contracts speak about all strings)
	check("Clean / IsAbs / ToSlash / FromSlash on a wider alphabet",
		[]contract{cClean, cToSlash, cFromSlash, cIsAbs},
		fmt.Sprintf("all strings over {a b . / \\ ' ' 0xff} up to length %d", min(L-2, 6)), func(t *T) {
			enum("ab./\\ \xff", min(L-2, 6), func(s string) {
				t.Case()
				r := filepath.Clean(s)
				t.Check(cleanShapeDef(r), cClean.ensures[0], "Clean(%q)=%q", s, r)
				t.Check(!cleanShapeDef(s) || r == s, cClean.ensures[1], "Clean(%q)=%q", s, r)
				t.Check(filepath.IsAbs(s) == hasPrefix(s, "/"), cIsAbs.ensures[0], "IsAbs(%q)", s)
				t.Check(filepath.ToSlash(s) == s, cToSlash.ensures[0], "ToSlash(%q)", s)
				t.Check(filepath.FromSlash(s) == s, cFromSlash.ensures[0], "FromSlash(%q)", s)
			})
		})

	// (original check, kept) Join on two valid paths
	check("Join on two valid relative paths equals join2 and is valid; one argument is returned as is",
		[]contract{cJoin, axiom("paths.spec", "join-valid", 113, `forall a string, b string :: validRel(a) && validRel(b) ==> validRel(join2(a, b))`)},
		"all pairs of "+validBound, func(t *T) {
			for _, a := range valid {
				if filepath.Join(a) != a {
					t.Fail("Join(%q)", a)
				}
				for _, b := range valid {
					t.Case()
					want := join2(a, b)
					got := filepath.Join(a, b)
					if got != want || !validRel(got) || !validRel(want) {
						t.Fail("Join(%q,%q)=%q want %q", a, b, got, want)
					}
				}
			}
		})
	// Join clause 3 speaks about every argument list
	jn := min(L-4, 4)
	check("Join: the result is empty or clean-shaped for every argument list",
		[]contract{cJoin},
		fmt.Sprintf("all lists of 0..3 strings over {a . /} up to length %d", jn), func(t *T) {
			ss := all(alpha, jn)
			t.Case()
			t.Check(filepath.Join() == "" || cleanShapeDef(filepath.Join()), cJoin.ensures[2], "Join()")
			for _, a := range ss {
				t.Case()
				r := filepath.Join(a)
				t.Check(r == "" || cleanShapeDef(r), cJoin.ensures[2], "Join(%q)=%q", a, r)
				t.Check(!validRelDef(a) || r == a, cJoin.ensures[1], "Join(%q)=%q", a, r)
				for _, b := range ss {
					t.Case()
					r := filepath.Join(a, b)
					t.Check(r == "" || cleanShapeDef(r), cJoin.ensures[2], "Join(%q,%q)=%q", a, b, r)
					t.Check(!(validRelDef(a) && validRelDef(b)) || r == join2(a, b), cJoin.ensures[0], "Join(%q,%q)=%q", a, b, r)
					if len(a) <= 2 && len(b) <= 2 {
						for _, c := range ss {
							if len(c) <= 2 {
								t.Case()
								r := filepath.Join(a, b, c)
								t.Check(r == "" || cleanShapeDef(r), cJoin.ensures[2], "Join(%q,%q,%q)=%q", a, b, c, r)
							}
						}
					}
				}
			}
		})

	// (original check, kept) Dir on valid paths; dirOf is DEFINED by clause 1 as Dir on valid paths, so the
	// axiom dir-shape of paths.spec is the same statement as clause 3
	check("Dir on a valid relative path != '.': valid parent, shape as in filepath.spec (dirOf := Dir on valid paths)",
		[]contract{cDir, axiom("paths.spec", "dir-shape", 112, `forall p string :: validRel(p) && p != "." ==> validRel(dirOf(p)) && ((!contains(p, "/") && dirOf(p) == ".") || (dirOf(p) != "." && hasPrefix(p, dirOf(p) + "/") && !contains(substr(p, len(dirOf(p)) + 1, len(p)), "/") && len(p) > len(dirOf(p)) + 1))`)},
		"all "+validBound, func(t *T) {
			for _, p := range valid {
				t.Case()
				d := filepath.Dir(p)
				if !cleanShape(d) {
					t.Fail("Dir(%q)=%q not clean", p, d)
				}
				if p == "." {
					continue
				}
				ok := validRel(d) && ((!contains(p, "/") && d == ".") ||
					(d != "." && hasPrefix(p, d+"/") && !contains(substr(p, len(d)+1, len(p)), "/") && len(p) > len(d)+1))
				if !ok {
					t.Fail("Dir(%q)=%q", p, d)
				}
			}
		})
	check("Dir: the result is clean-shaped for every path", []contract{cDir},
		fmt.Sprintf("all strings over {a . /} up to length %d", L), func(t *T) {
			enum(alpha, L, func(s string) {
				t.Case()
				d := filepath.Dir(s)
				t.Check(cleanShapeDef(d), cDir.ensures[1], "Dir(%q)=%q", s, d)
			})
		})
	check("valid relative paths are non-empty",
		[]contract{axiom("paths.spec", "valid-nonempty", 114, `forall p string :: validRel(p) ==> len(p) > 0`)},
		fmt.Sprintf("all strings over {a . /} up to length %d", L), func(t *T) {
			enum(alpha, L, func(s string) {
				t.Case()
				t.Check(!validRelDef(s) || len(s) > 0, "validRel(p) ==> len(p) > 0", "p=%q", s)
			})
		})

	// filepath.Rel (C16.spec)
	cRel := contract{"C16.spec", P, "Rel", 71, []string{
		`validRel(basepath) && validRel(targpath) && ancOrSelf(basepath, targpath) ==> err == nil && r == e_relTo(basepath, targpath) && validRel(r)`}}
	check("Rel of a valid relative target lexically inside (or equal to) a valid relative base",
		[]contract{cRel}, "all pairs of "+validBound, func(t *T) {
			for _, b := range valid {
				for _, p := range valid {
					t.Case()
					if !ancOrSelf(b, p) {
						continue
					}
					r, err := filepath.Rel(b, p)
					t.Check(err == nil && r == eRelTo(b, p) && validRelDef(r), cRel.ensures[0], "Rel(%q,%q)=(%q,%v) e_relTo=%q", b, p, r, err, eRelTo(b, p))
				}
			}
		})
}

var _ = strings.Contains
