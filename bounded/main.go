// Command bounded validates the TRUSTED stdlib contracts used by the gocv specs
// (/verif/specs/std/filepath.spec, strings.spec) against the real standard library, by exhaustive
// enumeration of short strings over a small alphabet. It is a bounded stand-in: its results are
// reported under coverage.bounded_checks and never counted as discharged obligations.
package main

import (
	"encoding/json"
	"flag"
	"fmt"
	"os"
	"path/filepath"
	"regexp"
	"strings"
)

var (
	comp     = `(?:[^/.][^/]*|\.[^/.][^/]*|\.\.[^/]+)`
	comps    = comp + `(?:/` + comp + `)*`
	validRe  = regexp.MustCompile(`^(?:\.|` + comps + `)$`)
	cleanRe  = regexp.MustCompile(`^(?:\.|/|/` + comps + `|` + comps + `|\.\.(?:/\.\.)*|(?:\.\./)+` + comps + `)$`)
)

func validRel(s string) bool   { return validRe.MatchString(s) }
func cleanShape(s string) bool { return cleanRe.MatchString(s) }

func enum(alpha string, n int, f func(string)) {
	var rec func(p string)
	rec = func(p string) {
		f(p)
		if len(p) == n {
			return
		}
		for _, c := range alpha {
			rec(p + string(c))
		}
	}
	rec("")
}

type result struct {
	Name    string `json:"name"`
	Bound   string `json:"bound"`
	Cases   int    `json:"cases"`
	Failed  int    `json:"failed"`
	Example string `json:"example,omitempty"`
}

func main() {
	n := flag.Int("len", 8, "maximal string length")
	flag.Parse()
	var results []result
	check := func(name, bound string, run func(fail func(string)) int) {
		r := result{Name: name, Bound: bound}
		r.Cases = run(func(ex string) {
			r.Failed++
			if r.Example == "" {
				r.Example = ex
			}
		})
		results = append(results, r)
	}
	alpha := "a./"
	check("filepath.Clean: result has a clean shape; clean shapes are fixpoints; IsAbs == hasPrefix '/'", fmt.Sprintf("all strings over {a . /} up to length %d", *n), func(fail func(string)) int {
		c := 0
		enum(alpha, *n, func(s string) {
			c++
			r := filepath.Clean(s)
			if !cleanShape(r) {
				fail(fmt.Sprintf("Clean(%q)=%q not clean-shaped", s, r))
			}
			if cleanShape(s) && s != "" && r != s {
				fail(fmt.Sprintf("clean-shaped %q is not a fixpoint: %q", s, r))
			}
			if filepath.IsAbs(s) != strings.HasPrefix(s, "/") {
				fail(fmt.Sprintf("IsAbs(%q)", s))
			}
			if filepath.ToSlash(s) != s || filepath.FromSlash(s) != s {
				fail(fmt.Sprintf("ToSlash/FromSlash(%q)", s))
			}
		})
		return c
	})
	var valid []string
	vn := *n - 2
	if vn > 6 {
		vn = 6
	}
	enum("ab./", vn, func(s string) {
		if validRel(s) {
			valid = append(valid, s)
		}
	})
	check("filepath.Join on two valid relative paths equals join2 and is valid; one argument is returned as is", fmt.Sprintf("all pairs of valid relative paths over {a b . /} up to length %d (%d paths)", vn, len(valid)), func(fail func(string)) int {
		c := 0
		for _, a := range valid {
			if filepath.Join(a) != a {
				fail(fmt.Sprintf("Join(%q)", a))
			}
			for _, b := range valid {
				c++
				want := a + "/" + b
				if a == "." {
					want = b
				} else if b == "." {
					want = a
				}
				got := filepath.Join(a, b)
				if got != want || !validRel(got) {
					fail(fmt.Sprintf("Join(%q,%q)=%q want %q", a, b, got, want))
				}
			}
		}
		return c
	})
	check("filepath.Dir on a valid relative path != '.': valid parent, shape as in filepath.spec", fmt.Sprintf("all valid relative paths over {a b . /} up to length %d", vn), func(fail func(string)) int {
		c := 0
		for _, p := range valid {
			c++
			d := filepath.Dir(p)
			if !cleanShape(d) {
				fail(fmt.Sprintf("Dir(%q)=%q not clean", p, d))
			}
			if p == "." {
				continue
			}
			ok := validRel(d) && ((!strings.Contains(p, "/") && d == ".") ||
				(d != "." && strings.HasPrefix(p, d+"/") && !strings.Contains(p[len(d)+1:], "/") && len(p) > len(d)+1))
			if !ok {
				fail(fmt.Sprintf("Dir(%q)=%q", p, d))
			}
		}
		return c
	})
	check("strings.Split / SplitN(…,2) facts of strings.spec", fmt.Sprintf("all strings over {a @ ' '} up to length %d, separators '@' and two blanks", *n), func(fail func(string)) int {
		c := 0
		enum("a@ ", *n, func(s string) {
			for _, sep := range []string{"@", "  "} {
				c++
				r := strings.Split(s, sep)
				if len(r) < 1 || (len(r) == 1) != !strings.Contains(s, sep) || (len(r) == 1 && r[0] != s) || strings.Contains(r[0], sep) {
					fail(fmt.Sprintf("Split(%q,%q)=%q", s, sep, r))
				}
				if len(r) >= 2 && strings.Index(s, sep) != len(r[0]) {
					fail(fmt.Sprintf("Split(%q,%q) first piece", s, sep))
				}
				i := strings.Index(s, sep)
				two := i >= 0 && !strings.Contains(s[i+len(sep):], sep)
				if (len(r) == 2) != two {
					fail(fmt.Sprintf("Split(%q,%q) has %d pieces", s, sep, len(r)))
				}
				if len(r) == 2 && (s != r[0]+sep+r[1] || strings.Contains(r[1], sep)) {
					fail(fmt.Sprintf("Split(%q,%q)=%q", s, sep, r))
				}
				q := strings.SplitN(s, sep, 2)
				if len(q) > 2 || (len(q) == 2) != strings.Contains(s, sep) || (len(q) == 1 && q[0] != s) {
					fail(fmt.Sprintf("SplitN(%q,%q,2)=%q", s, sep, q))
				}
				if len(q) == 2 && (s != q[0]+sep+q[1] || strings.Contains(q[0], sep) || strings.Index(s, sep) != len(q[0])) {
					fail(fmt.Sprintf("SplitN(%q,%q,2)=%q", s, sep, q))
				}
			}
		})
		return c
	})
	failed := 0
	for _, r := range results {
		failed += r.Failed
	}
	json.NewEncoder(os.Stdout).Encode(map[string]any{"label": "bounded", "results": results, "failed": failed})
	if failed > 0 {
		os.Exit(1)
	}
}
