module bounded

go 1.23.4
