module github.com/bufbuild/verif/bounded

go 1.23.4

require (
	github.com/bufbuild/buf v0.0.0
	github.com/bufbuild/protoplugin v0.0.0-20250218205857-750e09ce93e1
	github.com/klauspost/compress v1.18.0
	google.golang.org/protobuf v1.36.6
)

require (
	github.com/google/uuid v1.6.0
	github.com/jdx/go-netrc v1.0.0
)

require (
	github.com/bufbuild/protocompile v0.14.1 // indirect
	golang.org/x/crypto v0.37.0 // indirect
	golang.org/x/sys v0.32.0 // indirect
)

replace github.com/bufbuild/buf => /repo
