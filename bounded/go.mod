module github.com/bufbuild/verif/bounded

go 1.23.4

require (
	github.com/bufbuild/buf v0.0.0
	github.com/bufbuild/protoplugin v0.0.0-20250218205857-750e09ce93e1
	github.com/klauspost/compress v1.18.0
	google.golang.org/protobuf v1.36.6
)

require github.com/google/uuid v1.6.0

replace github.com/bufbuild/buf => /repo
