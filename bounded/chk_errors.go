package main

import (
	"errors"
	"fmt"
)

type errA struct{ code int }

func (e *errA) Error() string { return fmt.Sprint("A", e.code) }

type errB struct{ code int }

func (e errB) Error() string { return fmt.Sprint("B", e.code) }

// chainMembers: the values of err's chain in the sense of package errors (err itself, then repeatedly
// Unwrap() error / Unwrap() []error), as interface values. inChain(err, e) of errors.spec is uninterpreted;
// this is its intended reading.
func chainMembers(err error) []error {
	if err == nil {
		return nil
	}
	out := []error{err}
	switch x := err.(type) {
	case interface{ Unwrap() error }:
		out = append(out, chainMembers(x.Unwrap())...)
	case interface{ Unwrap() []error }:
		for _, e := range x.Unwrap() {
			out = append(out, chainMembers(e)...)
		}
	}
	return out
}

func inChain(err error, e error) bool {
	for _, m := range chainMembers(err) {
		if m == e {
			return true
		}
	}
	return false
}

func checksErrors() {
	const F = "std/errors.spec"
	cJoin := contract{F, "errors", "Join", 2, []string{`(r == nil) <==> (forall i int :: 0 <= i && i < len(errs) ==> errs[i] == nil)`}}.withNote(
		"also the engine intrinsic for errors.Join with a literal argument list (exec_expr.go), which states the same")
	cNew := contract{F, "errors", "New", 4, []string{`r != nil`}}
	cErrorf := contract{F, "fmt", "Errorf", 7, []string{`r != nil`}}
	cAs := contract{F, "errors", "As", 14, []string{
		`r ==> err != nil && derefRef(target) != nil && inChain(err, derefRef(target))`,
		`!r ==> derefRef(target) == old(derefRef(target))`,
		`forall p ref :: p != target ==> derefRef(p) == old(derefRef(p))`}}.withNote(
		"inChain is uninterpreted; read as membership in the Unwrap tree; clause 3 is checked on the other target variables in play; chains with typed-nil pointers are excluded by the assumption stated in errors.spec and are NOT exercised (clause 1 is false for them)")
	cIs := contract{F, "errors", "Is", 21, []string{`err == nil && target != nil ==> !r`}}

	a1, a2 := &errA{1}, &errA{2}
	var typedNil *errA
	plain := errors.New("plain")
	base := []error{nil, a1, a2, errB{1}, errB{2}, plain}
	baseWithTypedNil := append(append([]error{}, base...), error(typedNil))

	jn := min(L-3, 5)
	check("errors.Join is nil iff every argument is nil", []contract{cJoin},
		fmt.Sprintf("no argument, a nil slice, and all argument lists over {nil, *errA, errB, errors.New, typed nil pointer} up to length %d", jn), func(t *T) {
			one := func(errs []error) {
				t.Case()
				r := errors.Join(errs...)
				allNil := true
				for i := 0; i < len(errs); i++ {
					if errs[i] != nil {
						allNil = false
					}
				}
				t.Check((r == nil) == allNil, cJoin.ensures[0], "Join(%v)=%v", errs, r)
			}
			t.Case()
			t.Check(errors.Join() == nil, cJoin.ensures[0], "Join()")
			one(nil)
			seqs([]error{nil, a1, errB{1}, plain, error(typedNil)}, jn, one)
		})
	check("errors.New returns a non-nil error", []contract{cNew}, "all texts over {a %} up to length 4", func(t *T) {
		enum("a%", 4, func(s string) {
			t.Case()
			t.Check(errors.New(s) != nil, cNew.ensures[0], "New(%q)", s)
		})
	})
	check("fmt.Errorf returns a non-nil error (also for malformed formats and nil / missing / extra arguments)", []contract{cErrorf},
		"all formats over {a % w v d} up to length 4 with the argument lists (), (nil), (err), (\"x\", 1), (err, err)", func(t *T) {
			argss := [][]any{nil, {nil}, {a1}, {"x", 1}, {a1, plain}}
			enum("a%wvd", 4, func(f string) {
				for _, as := range argss {
					t.Case()
					t.Check(fmt.Errorf(f, as...) != nil, cErrorf.ensures[0], "Errorf(%q, %v)", f, as)
				}
			})
		})

	// ---- errors.As / errors.Is over error trees: base values, %w wrappers, multi-%w and errors.Join nodes
	build := func(base []error, depth int) []error {
		cur := append([]error{}, base...)
		for d := 0; d < depth; d++ {
			var next []error
			next = append(next, cur...)
			for _, e := range cur {
				if e != nil {
					next = append(next, fmt.Errorf("w: %w", e))
				}
			}
			lim := cur
			if len(lim) > 12 {
				lim = lim[:12]
			}
			for _, e := range lim {
				for _, f := range lim {
					if e != nil || f != nil {
						next = append(next, errors.Join(e, f))
					}
					if e != nil && f != nil {
						next = append(next, fmt.Errorf("%w and %w", e, f))
					}
				}
			}
			cur = next
		}
		return cur
	}
	asOne := func(t *T, err error) {
		// three target variables of different types; every combination of initial contents
		for _, ta0 := range []*errA{nil, a2} {
			for _, tb0 := range []errB{{0}, {2}} {
				for _, te0 := range []error{nil, plain} {
					for which := 0; which < 3; which++ {
						t.Case()
						ta, tb, te := ta0, tb0, te0
						var r bool
						switch which {
						case 0:
							r = errors.As(err, &ta)
						case 1:
							r = errors.As(err, &tb)
						case 2:
							r = errors.As(err, &te)
						}
						d := fmt.Sprintf("As(%#v, &target%d) with targets (%v,%v,%v) = %v, targets now (%v,%v,%v)", err, which, ta0, tb0, te0, r, ta, tb, te)
						// derefRef(target) as a value / as an error
						var nonNil, member, unchanged bool
						switch which {
						case 0:
							nonNil, member, unchanged = ta != nil, inChain(err, error(ta)), ta == ta0
						case 1:
							nonNil, member, unchanged = true, inChain(err, error(tb)), tb == tb0
						case 2:
							nonNil, member, unchanged = te != nil, inChain(err, te), te == te0
						}
						t.Check(!r || (err != nil && nonNil && member), cAs.ensures[0], "%s", d)
						t.Check(r || unchanged, cAs.ensures[1], "%s", d)
						others := (which == 0 || ta == ta0) && (which == 1 || tb == tb0) && (which == 2 || te == te0)
						t.Check(others, cAs.ensures[2], "%s", d)
					}
				}
			}
		}
	}
	depth := 1
	if L >= 9 {
		depth = 2
	}
	check("errors.As: on success the target holds a non-nil member of err's chain, otherwise it is unchanged; no other variable is written. RESTRICTED to chains without typed-nil pointers such as (*T)(nil): that exclusion is the stated ASSUMPTION of errors.spec (for such a chain As succeeds and stores nil)",
		[]contract{cAs}, fmt.Sprintf("all error trees of depth <= %d over {nil, 2 *errA, 2 errB, errors.New} built with %%w, double %%w and errors.Join; targets *(*errA), *errB, *error with 2 initial contents each", depth), func(t *T) {
			for _, e := range build(base, depth) {
				asOne(t, e)
			}
		})
	check("errors.Is(nil, target) is false for a non-nil target", []contract{cIs},
		"err and target over all error trees of depth <= 1 over {nil, 2 *errA, 2 errB, errors.New, (*errA)(nil)}", func(t *T) {
			es := build(baseWithTypedNil, 1)
			for _, e := range es {
				for _, tg := range es {
					t.Case()
					r := errors.Is(e, tg)
					t.Check(!(e == nil && tg != nil) || !r, cIs.ensures[0], "Is(%v, %v)=%v", e, tg, r)
				}
			}
		})
}
