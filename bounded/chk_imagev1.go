package main

import (
	"fmt"
	"path/filepath"
	"slices"
	"sort"

	imagev1 "github.com/bufbuild/buf/private/gen/proto/go/buf/alpha/image/v1"
	"github.com/bufbuild/buf/private/pkg/normalpath"
	"google.golang.org/protobuf/proto"
	"google.golang.org/protobuf/types/descriptorpb"
)

// slice values are equal when length, elements and nil-ness agree
func sameSlice[E comparable](a, b []E) bool {
	return (a == nil) == (b == nil) && slices.Equal(a, b)
}

func strOf(p *string) string { // s_strOf: content of the cell, "" for nil (axiom s_unset-cell-is-zero)
	if p == nil {
		return ""
	}
	return *p
}
func boolOf(p *bool) bool {
	if p == nil {
		return false
	}
	return *p
}

// The generated opaque API of the image proto (private/gen/proto/go/buf/alpha/image/v1), C01_descriptor.spec:
// Build() copies every builder field into the message.
func checksImageV1() {
	const F = "C01_descriptor.spec"
	const P = "github.com/bufbuild/buf/private/gen/proto/go/buf/alpha/image/v1"
	cFile := contract{F, P, "(ImageFile_builder) Build", 136, []string{
		`r != nil && r.ProtoReflect() != nil`,
		`r.HasName() == (this.Name != nil) && r.GetName() == s_strOf(this.Name)`,
		`r.HasPackage() == (this.Package != nil) && r.GetPackage() == s_strOf(this.Package)`,
		`r.HasSyntax() == (this.Syntax != nil) && r.GetSyntax() == s_strOf(this.Syntax)`,
		`r.HasEdition() == (this.Edition != nil) && r.GetEdition() == s_editionOf(this.Edition)`,
		`r.GetDependency() == this.Dependency`,
		`r.GetPublicDependency() == this.PublicDependency`,
		`r.GetWeakDependency() == this.WeakDependency`,
		`r.GetMessageType() == this.MessageType`,
		`r.GetEnumType() == this.EnumType`,
		`r.GetService() == this.Service`,
		`r.GetExtension() == this.Extension`,
		`r.GetOptions() == this.Options`,
		`r.GetSourceCodeInfo() == this.SourceCodeInfo`,
		`r.GetBufExtension() == this.BufExtension`}}
	cExt := contract{F, P, "(ImageFileExtension_builder) Build", 159, []string{
		`r != nil`,
		`r.HasIsImport() == (this.IsImport != nil) && r.GetIsImport() == s_boolOf(this.IsImport)`,
		`r.HasIsSyntaxUnspecified() == (this.IsSyntaxUnspecified != nil) && r.GetIsSyntaxUnspecified() == s_boolOf(this.IsSyntaxUnspecified)`,
		`r.GetUnusedDependency() == this.UnusedDependency`,
		`r.GetModuleInfo() == this.ModuleInfo`}}
	cName := contract{F, P, "(ModuleName_builder) Build", 171, []string{
		`r != nil`,
		`r.HasRemote() == (this.Remote != nil) && r.GetRemote() == s_strOf(this.Remote)`,
		`r.HasOwner() == (this.Owner != nil) && r.GetOwner() == s_strOf(this.Owner)`,
		`r.HasRepository() == (this.Repository != nil) && r.GetRepository() == s_strOf(this.Repository)`}}
	cInfo := contract{F, P, "(ModuleInfo_builder) Build", 179, []string{
		`r != nil && r.GetName() == this.Name && r.xxx_hidden_Commit == this.Commit`}}.withNote(
		"xxx_hidden_Commit is an unexported field: observed through HasCommit() / GetCommit() (present iff the builder field is non-nil, same content)")
	cSetCommit := contract{F, P, "(ModuleInfo) SetCommit", 181, []string{
		`this.xxx_hidden_Commit != nil && s_strOf(this.xxx_hidden_Commit) == v`,
		`forall m *ModuleInfo :: m != this ==> m.xxx_hidden_Commit == old(m.xxx_hidden_Commit)`}}.withNote(
		"xxx_hidden_Commit is an unexported field: observed through HasCommit() / GetCommit(); the frame clause is checked on a second ModuleInfo")

	strs := []*string{nil, proto.String(""), proto.String("x")}
	eds := []*descriptorpb.Edition{nil, descriptorpb.Edition_EDITION_2023.Enum(), descriptorpb.Edition(0).Enum()}
	check("ImageFile_builder.Build copies every builder field into the message (all 15 clauses)", []contract{cFile},
		"every combination of nil / \"\" / \"x\" for Name, Package, Syntax, nil / 2023 / 0 for Edition, nil / empty / non-empty for the seven repeated fields (rotated), nil / non-nil for Options, SourceCodeInfo, BufExtension", func(t *T) {
			i32s := [][]int32{nil, {}, {0, 2}}
			ss := [][]string{nil, {}, {"a.proto", "b.proto"}}
			msgs := [][]*descriptorpb.DescriptorProto{nil, {}, {{Name: proto.String("M")}}}
			enums := [][]*descriptorpb.EnumDescriptorProto{nil, {}, {{Name: proto.String("E")}}}
			svcs := [][]*descriptorpb.ServiceDescriptorProto{nil, {}, {{Name: proto.String("S")}}}
			exts := [][]*descriptorpb.FieldDescriptorProto{nil, {}, {{Name: proto.String("x")}}}
			for _, n := range strs {
				for _, p := range strs {
					for _, sy := range strs {
						for _, ed := range eds {
							for k := 0; k < 9; k++ {
								for ptr := 0; ptr < 8; ptr++ {
									t.Case()
									b := imagev1.ImageFile_builder{
										Name: n, Package: p, Syntax: sy, Edition: ed,
										Dependency: ss[k%3], PublicDependency: i32s[(k/3)%3], WeakDependency: i32s[(k+1)%3],
										MessageType: msgs[(k+2)%3], EnumType: enums[(k/3+1)%3], Service: svcs[(k+k/3)%3], Extension: exts[(2*k+1)%3],
									}
									if ptr&1 != 0 {
										b.Options = &descriptorpb.FileOptions{}
									}
									if ptr&2 != 0 {
										b.SourceCodeInfo = &descriptorpb.SourceCodeInfo{}
									}
									if ptr&4 != 0 {
										b.BufExtension = imagev1.ImageFileExtension_builder{}.Build()
									}
									r := b.Build()
									e := cFile.ensures
									d := fmt.Sprintf("ImageFile_builder{Name:%v Package:%v Syntax:%v Edition:%v k=%d ptr=%d}.Build()", n != nil, p != nil, sy != nil, ed != nil, k, ptr)
									if !(r != nil && r.ProtoReflect() != nil) {
										t.Fail("%s violates [%s]", d, e[0])
										continue
									}
									t.Check(r.HasName() == (b.Name != nil) && r.GetName() == strOf(b.Name), e[1], "%s", d)
									t.Check(r.HasPackage() == (b.Package != nil) && r.GetPackage() == strOf(b.Package), e[2], "%s", d)
									t.Check(r.HasSyntax() == (b.Syntax != nil) && r.GetSyntax() == strOf(b.Syntax), e[3], "%s", d)
									edOf := descriptorpb.Edition(0)
									if b.Edition != nil {
										edOf = *b.Edition
									}
									t.Check(r.HasEdition() == (b.Edition != nil) && r.GetEdition() == edOf, e[4], "%s", d)
									t.Check(sameSlice(r.GetDependency(), b.Dependency), e[5], "%s", d)
									t.Check(sameSlice(r.GetPublicDependency(), b.PublicDependency), e[6], "%s", d)
									t.Check(sameSlice(r.GetWeakDependency(), b.WeakDependency), e[7], "%s", d)
									t.Check(sameSlice(r.GetMessageType(), b.MessageType), e[8], "%s", d)
									t.Check(sameSlice(r.GetEnumType(), b.EnumType), e[9], "%s", d)
									t.Check(sameSlice(r.GetService(), b.Service), e[10], "%s", d)
									t.Check(sameSlice(r.GetExtension(), b.Extension), e[11], "%s", d)
									t.Check(r.GetOptions() == b.Options, e[12], "%s", d)
									t.Check(r.GetSourceCodeInfo() == b.SourceCodeInfo, e[13], "%s", d)
									t.Check(r.GetBufExtension() == b.BufExtension, e[14], "%s", d)
								}
							}
						}
					}
				}
			}
		})
	bools := []*bool{nil, proto.Bool(false), proto.Bool(true)}
	check("ImageFileExtension_builder.Build / ModuleName_builder.Build / ModuleInfo_builder.Build copy the builder fields; ModuleInfo.SetCommit sets this message's commit only",
		[]contract{cExt, cName, cInfo, cSetCommit}, "every combination of nil / false / true, nil / \"\" / \"x\", nil / empty / non-empty, nil / non-nil for the builder fields; SetCommit of \"\", \"c\" on built messages", func(t *T) {
			for _, a := range bools {
				for _, b := range bools {
					for _, ud := range [][]int32{nil, {}, {1, 3}} {
						for _, mi := range []*imagev1.ModuleInfo{nil, imagev1.ModuleInfo_builder{}.Build()} {
							t.Case()
							bd := imagev1.ImageFileExtension_builder{IsImport: a, IsSyntaxUnspecified: b, UnusedDependency: ud, ModuleInfo: mi}
							r := bd.Build()
							e := cExt.ensures
							d := fmt.Sprintf("ImageFileExtension_builder{%v %v %v %v}.Build()", a, b, ud, mi)
							if r == nil {
								t.Fail("%s violates [%s]", d, e[0])
								continue
							}
							t.Check(r.HasIsImport() == (a != nil) && r.GetIsImport() == boolOf(a), e[1], "%s", d)
							t.Check(r.HasIsSyntaxUnspecified() == (b != nil) && r.GetIsSyntaxUnspecified() == boolOf(b), e[2], "%s", d)
							t.Check(sameSlice(r.GetUnusedDependency(), ud), e[3], "%s", d)
							t.Check(r.GetModuleInfo() == mi, e[4], "%s", d)
						}
					}
				}
			}
			for _, a := range strs {
				for _, b := range strs {
					for _, c := range strs {
						t.Case()
						r := imagev1.ModuleName_builder{Remote: a, Owner: b, Repository: c}.Build()
						e := cName.ensures
						d := fmt.Sprintf("ModuleName_builder{%v %v %v}.Build()", a != nil, b != nil, c != nil)
						if r == nil {
							t.Fail("%s violates [%s]", d, e[0])
							continue
						}
						t.Check(r.HasRemote() == (a != nil) && r.GetRemote() == strOf(a), e[1], "%s", d)
						t.Check(r.HasOwner() == (b != nil) && r.GetOwner() == strOf(b), e[2], "%s", d)
						t.Check(r.HasRepository() == (c != nil) && r.GetRepository() == strOf(c), e[3], "%s", d)
					}
				}
			}
			for _, nm := range []*imagev1.ModuleName{nil, imagev1.ModuleName_builder{Owner: proto.String("o")}.Build()} {
				for _, c := range strs {
					t.Case()
					r := imagev1.ModuleInfo_builder{Name: nm, Commit: c}.Build()
					t.Check(r != nil && r.GetName() == nm && r.HasCommit() == (c != nil) && r.GetCommit() == strOf(c), cInfo.ensures[0], "ModuleInfo_builder{%v, commit %v}.Build()", nm, c)
					for _, v := range []string{"", "c"} {
						t.Case()
						this := imagev1.ModuleInfo_builder{Name: nm, Commit: c}.Build()
						other := imagev1.ModuleInfo_builder{Name: nm, Commit: c}.Build()
						oh, oc := other.HasCommit(), other.GetCommit()
						this.SetCommit(v)
						t.Check(this.HasCommit() && this.GetCommit() == v, cSetCommit.ensures[0], "SetCommit(%q) on a message built with commit %v: HasCommit=%v GetCommit=%q", v, c, this.HasCommit(), this.GetCommit())
						t.Check(other.HasCommit() == oh && other.GetCommit() == oc, cSetCommit.ensures[1], "SetCommit(%q) changed another ModuleInfo", v)
					}
				}
			}
		})

	// ---- normalpath.ByDir (C02_order.spec). k_dir, k_byDirSrc, k_byDirPos are uninterpreted: the clauses
	// values-of-dir and values-complete say that the input positions and the slots (d, j) of the result are in
	// bijection (k_byDirSrc and k_byDirPos are inverse to each other), position i sitting in the list of directory
	// k_dir(Normalize(paths[i])) with value Normalize(paths[i]). With k_dir := filepath.Dir such witnesses exist iff
	// for every directory d the list m[d] is a permutation of the normalized inputs whose Dir is d, and m has no other key.
	cByDir := contract{"C02_order.spec", "github.com/bufbuild/buf/private/pkg/normalpath", "ByDir", 56, []string{
		`m != nil`,
		`values-non-empty: forall d string :: d in m ==> len(m[d]) > 0`,
		`values-of-dir: forall d string, j int :: d in m && 0 <= j && j < len(m[d]) ==> k_dir(m[d][j]) == d && 0 <= k_byDirSrc(paths, d, j) && k_byDirSrc(paths, d, j) < len(paths) && Normalize(paths[k_byDirSrc(paths, d, j)]) == m[d][j] && k_byDirPos(paths, k_byDirSrc(paths, d, j)) == j`,
		`values-complete: forall i int :: 0 <= i && i < len(paths) ==> k_dir(Normalize(paths[i])) in m && 0 <= k_byDirPos(paths, i) && k_byDirPos(paths, i) < len(m[k_dir(Normalize(paths[i]))]) && m[k_dir(Normalize(paths[i]))][k_byDirPos(paths, i)] == Normalize(paths[i]) && k_byDirSrc(paths, k_dir(Normalize(paths[i])), k_byDirPos(paths, i)) == i`,
		`values-sorted: forall d string, a int, b int :: d in m && 0 <= a && a < b && b < len(m[d]) ==> m[d][a] <= m[d][b]`}}.withNote(
		"k_dir / k_byDirSrc / k_byDirPos are uninterpreted: checked as the existence of witnesses (k_dir := filepath.Dir; the slots of m are a permutation of the normalized inputs, directory by directory)")
	pl := min(L-4, 3)
	dl := 2
	if L >= 9 {
		dl = 3
	}
	extra := []string{"a/b/c", "a/b/../c", "/a/b", "b/a", "a//b", "a/a/a", "../a", "a/."}
	dom := append(all("a./", dl), extra...)
	check("normalpath.ByDir groups the normalized paths by directory, each group sorted, nothing lost or invented", []contract{cByDir},
		fmt.Sprintf("no argument and all lists of 1..%d paths over all strings over {a . /} up to length %d plus 8 longer paths (%d paths)", pl, dl, len(dom)), func(t *T) {
			seqs(dom, pl, func(paths []string) {
				t.Case()
				m := normalpath.ByDir(paths...)
				e := cByDir.ensures
				d := fmt.Sprintf("ByDir(%q)=%v", paths, m)
				t.Check(m != nil, e[0], "%s", d)
				want := map[string][]string{}
				for _, p := range paths {
					n := normalpath.Normalize(p)
					want[filepath.Dir(n)] = append(want[filepath.Dir(n)], n)
				}
				okDir, okComplete, okSorted, okNonEmpty := true, len(want) <= len(m), true, true
				for dir, got := range m {
					if len(got) == 0 {
						okNonEmpty = false
					}
					for _, x := range got {
						if filepath.Dir(x) != dir {
							okDir = false
						}
					}
					w := slices.Clone(want[dir])
					sort.Strings(w)
					g := slices.Clone(got)
					sort.Strings(g)
					if !slices.Equal(w, g) { // a slot without a source position, or a source position without a slot
						okDir, okComplete = false, false
					}
					for a := 0; a+1 < len(got); a++ {
						if !(got[a] <= got[a+1]) {
							okSorted = false
						}
					}
				}
				for dir := range want {
					if _, in := m[dir]; !in {
						okComplete = false
					}
				}
				t.Check(okNonEmpty, e[1], "%s", d)
				t.Check(okDir, e[2], "%s", d)
				t.Check(okComplete, e[3], "%s", d)
				t.Check(okSorted, e[4], "%s", d)
			})
		})
}
