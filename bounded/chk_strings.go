package main

import (
	"fmt"
	"strconv"
	"strings"
)

func checksStrings() {
	const F = "std/strings.spec"
	const P = "strings"
	sn := min(L-1, 7) // subject strings
	pn := min(L-4, 4) // patterns
	subj := all("ab/", sn)
	pats := all("ab/", pn)
	bound := fmt.Sprintf("all pairs (s, p): s over {a b /} up to length %d, p over {a b /} up to length %d", sn, pn)

	cHasPrefix := contract{F, P, "HasPrefix", 2, []string{`r == hasPrefix(s, prefix)`}}
	cHasSuffix := contract{F, P, "HasSuffix", 4, []string{`r == hasSuffix(s, suffix)`}}
	cContains := contract{F, P, "Contains", 6, []string{`r == contains(s, substr)`}}
	cTrimPrefix := contract{F, P, "TrimPrefix", 8, []string{`r == ite(hasPrefix(s, prefix), substr(s, len(prefix), len(s)), s)`}}
	cTrimSuffix := contract{F, P, "TrimSuffix", 10, []string{`r == ite(hasSuffix(s, suffix), substr(s, 0, len(s) - len(suffix)), s)`}}
	pairs := func(f func(t *T, s, p string)) func(t *T) {
		return func(t *T) {
			for _, s := range subj {
				for _, p := range pats {
					t.Case()
					f(t, s, p)
				}
			}
		}
	}
	check("HasPrefix is the builtin hasPrefix", []contract{cHasPrefix}, bound, pairs(func(t *T, s, p string) {
		t.Check(strings.HasPrefix(s, p) == hasPrefix(s, p), cHasPrefix.ensures[0], "HasPrefix(%q,%q)", s, p)
	}))
	check("HasSuffix is the builtin hasSuffix", []contract{cHasSuffix}, bound, pairs(func(t *T, s, p string) {
		t.Check(strings.HasSuffix(s, p) == hasSuffix(s, p), cHasSuffix.ensures[0], "HasSuffix(%q,%q)", s, p)
	}))
	check("Contains is the builtin contains", []contract{cContains}, bound, pairs(func(t *T, s, p string) {
		t.Check(strings.Contains(s, p) == contains(s, p), cContains.ensures[0], "Contains(%q,%q)", s, p)
	}))
	check("TrimPrefix", []contract{cTrimPrefix}, bound, pairs(func(t *T, s, p string) {
		want := s
		if hasPrefix(s, p) {
			want = substr(s, len(p), len(s))
		}
		r := strings.TrimPrefix(s, p)
		t.Check(r == want, cTrimPrefix.ensures[0], "TrimPrefix(%q,%q)=%q, clause gives %q", s, p, r, want)
	}))
	check("TrimSuffix", []contract{cTrimSuffix}, bound, pairs(func(t *T, s, p string) {
		want := s
		if hasSuffix(s, p) {
			want = substr(s, 0, len(s)-len(p))
		}
		r := strings.TrimSuffix(s, p)
		t.Check(r == want, cTrimSuffix.ensures[0], "TrimSuffix(%q,%q)=%q, clause gives %q", s, p, r, want)
	}))

	// ---- Split / SplitN
	cSplit := contract{F, P, "Split", 14, []string{
		`sep != "" ==> len(r) >= 1 && !isNilSlice(r)`,
		`sep != "" ==> ((len(r) == 1) <==> !contains(s, sep))`,
		`sep != "" && len(r) == 1 ==> r[0] == s`,
		`sep != "" && len(r) == 2 ==> s == r[0] + sep + r[1] && !contains(r[0], sep) && !contains(r[1], sep)`,
		`sep != "" && len(r) >= 1 ==> !contains(r[0], sep)`,
		`sep != "" && len(r) >= 2 ==> indexOf(s, sep) == len(r[0])`,
		`sep != "" ==> ((len(r) == 2) <==> (contains(s, sep) && !contains(substr(s, indexOf(s, sep) + len(sep), len(s)), sep)))`}}
	cSplitN := contract{F, P, "SplitN", 22, []string{
		`sep != "" && n != 0 ==> len(r) >= 1 && !isNilSlice(r)`,
		`n == 2 && sep != "" ==> len(r) <= 2 && ((len(r) == 2) <==> contains(s, sep))`,
		`n == 2 && sep != "" && len(r) == 2 ==> s == r[0] + sep + r[1] && !contains(r[0], sep) && indexOf(s, sep) == len(r[0])`,
		`len(r) == 1 ==> r[0] == s`}}
	splitClauses := func(t *T, s, sep string, r []string) {
		e := cSplit.ensures
		d := fmt.Sprintf("Split(%q,%q)=%q (nil=%v)", s, sep, r, r == nil)
		t.Check(!(sep != "") || (len(r) >= 1 && r != nil), e[0], "%s", d)
		t.Check(!(sep != "") || ((len(r) == 1) == !contains(s, sep)), e[1], "%s", d)
		t.Check(!(sep != "" && len(r) == 1) || r[0] == s, e[2], "%s", d)
		t.Check(!(sep != "" && len(r) == 2) || (s == r[0]+sep+r[1] && !contains(r[0], sep) && !contains(r[1], sep)), e[3], "%s", d)
		t.Check(!(sep != "" && len(r) >= 1) || !contains(r[0], sep), e[4], "%s", d)
		t.Check(!(sep != "" && len(r) >= 2) || indexOf(s, sep) == len(r[0]), e[5], "%s", d)
		t.Check(!(sep != "") || ((len(r) == 2) == (contains(s, sep) && !contains(substr(s, indexOf(s, sep)+len(sep), len(s)), sep))), e[6], "%s", d)
	}
	splitNClauses := func(t *T, s, sep string, n int, r []string) {
		e := cSplitN.ensures
		d := fmt.Sprintf("SplitN(%q,%q,%d)=%q (nil=%v)", s, sep, n, r, r == nil)
		t.Check(!(sep != "" && n != 0) || (len(r) >= 1 && r != nil), e[0], "%s", d)
		t.Check(!(n == 2 && sep != "") || (len(r) <= 2 && ((len(r) == 2) == contains(s, sep))), e[1], "%s", d)
		t.Check(!(n == 2 && sep != "" && len(r) == 2) || (s == r[0]+sep+r[1] && !contains(r[0], sep) && indexOf(s, sep) == len(r[0])), e[2], "%s", d)
		t.Check(!(len(r) == 1) || r[0] == s, e[3], "%s", d)
	}
	// (original check, kept) the facts of strings.spec on the original alphabet
	check("Split / SplitN(…,2) facts of strings.spec", []contract{cSplit, cSplitN},
		fmt.Sprintf("all strings over {a @ ' '} up to length %d, separators '@' and two blanks", L), func(t *T) {
			enum("a@ ", L, func(s string) {
				for _, sep := range []string{"@", "  "} {
					t.Case()
					r := strings.Split(s, sep)
					if len(r) < 1 || (len(r) == 1) != !strings.Contains(s, sep) || (len(r) == 1 && r[0] != s) || strings.Contains(r[0], sep) {
						t.Fail("Split(%q,%q)=%q", s, sep, r)
					}
					if len(r) >= 2 && strings.Index(s, sep) != len(r[0]) {
						t.Fail("Split(%q,%q) first piece", s, sep)
					}
					i := strings.Index(s, sep)
					two := i >= 0 && !strings.Contains(s[i+len(sep):], sep)
					if (len(r) == 2) != two {
						t.Fail("Split(%q,%q) has %d pieces", s, sep, len(r))
					}
					if len(r) == 2 && (s != r[0]+sep+r[1] || strings.Contains(r[1], sep)) {
						t.Fail("Split(%q,%q)=%q", s, sep, r)
					}
					q := strings.SplitN(s, sep, 2)
					if len(q) > 2 || (len(q) == 2) != strings.Contains(s, sep) || (len(q) == 1 && q[0] != s) {
						t.Fail("SplitN(%q,%q,2)=%q", s, sep, q)
					}
					if len(q) == 2 && (s != q[0]+sep+q[1] || strings.Contains(q[0], sep) || strings.Index(s, sep) != len(q[0])) {
						t.Fail("SplitN(%q,%q,2)=%q", s, sep, q)
					}
				}
			})
		})
	ssn := min(L, 8)
	ss := all("ab.", ssn)
	nonEmptySeps := all("ab.", 2)[1:]
	ns := []int{0, -2, -1, 1, 2, 3, 4}
	allSeps := append(append([]string{}, nonEmptySeps...), "")
	check("Split, all seven clauses, non-empty separators (overlapping separators such as \"aa\" included)", []contract{cSplit},
		fmt.Sprintf("all s over {a b .} up to length %d, all non-empty separators over {a b .} up to length 2", ssn), func(t *T) {
			for _, s := range ss {
				for _, sep := range nonEmptySeps {
					t.Case()
					splitClauses(t, s, sep, strings.Split(s, sep))
				}
			}
		})
	check("Split, all seven clauses, every separator (the empty one included: every clause is conditional on sep != \"\"), multi-byte input", []contract{cSplit},
		fmt.Sprintf("all s over {a b . 0xc3 0xa9} up to length %d, separators \"\" and all strings over {a b .} up to length 2", min(ssn, 5)), func(t *T) {
			enum("ab.\xc3\xa9", min(ssn, 5), func(s string) {
				for _, sep := range allSeps {
					t.Case()
					splitClauses(t, s, sep, strings.Split(s, sep))
				}
			})
		})
	check("SplitN, all four clauses, n == 2 and non-empty separators (the case the verified callers use)", []contract{cSplitN},
		fmt.Sprintf("all s over {a b .} up to length %d, all non-empty separators over {a b .} up to length 2", ssn), func(t *T) {
			for _, s := range ss {
				for _, sep := range nonEmptySeps {
					t.Case()
					splitNClauses(t, s, sep, 2, strings.SplitN(s, sep, 2))
				}
			}
		})
	check("SplitN, all four clauses, every n (0 and negative included) and every separator (the empty one included)", []contract{cSplitN},
		fmt.Sprintf("all s over {a b .} up to length %d, separators \"\" and all strings over {a b .} up to length 2, n in %v", min(ssn, 6), ns), func(t *T) {
			enum("ab.", min(ssn, 6), func(s string) {
				for _, sep := range allSeps {
					for _, n := range ns {
						t.Case()
						splitNClauses(t, s, sep, n, strings.SplitN(s, sep, n))
					}
				}
			})
		})

	// ---- the Split axioms of C05.spec. c_lastSeg is uninterpreted: axiom c_split-last fixes it to the last
	// piece of Split(s, ".") for every s that contains a "."; the check is that this value satisfies
	// c_lastseg-shape, and that for s without "." the last piece is s (there c_lastSeg(s) is unconstrained).
	aShape := axiom("C05.spec", "c_lastseg-shape", 8, `forall s string :: contains(s, ".") ==> hasSuffix(s, "." + c_lastSeg(s)) && !contains(c_lastSeg(s), ".")`)
	aLast := axiom("C05.spec", "c_split-last", 9, `forall s string :: strings.Split(s, ".")[len(strings.Split(s, ".")) - 1] == ite(contains(s, "."), c_lastSeg(s), s)`)
	check("the two axioms about the last piece of strings.Split(s, \".\") have a model (c_lastSeg := last piece)", []contract{aShape, aLast},
		fmt.Sprintf("all s over {a b .} up to length %d", L), func(t *T) {
			enum("ab.", L, func(s string) {
				t.Case()
				r := strings.Split(s, ".")
				if len(r) < 1 {
					t.Fail("Split(%q,\".\") is empty: the index len-1 of axiom c_split-last is out of range", s)
					return
				}
				last := r[len(r)-1]
				if contains(s, ".") {
					// c_lastSeg(s) == last is forced by c_split-last
					t.Check(hasSuffix(s, "."+last) && !contains(last, "."), aShape.ensures[0], "s=%q with c_lastSeg(s)=%q", s, last)
				} else {
					t.Check(last == s, aLast.ensures[0], "s=%q, last piece %q", s, last)
				}
			})
		})

	// ---- ReplaceAll (C05.spec)
	cReplaceAll := contract{"C05.spec", P, "ReplaceAll", 44, []string{`old != "" ==> r == replaceAll(s, old, new)`}}
	rn := min(L-2, 6)
	check("ReplaceAll is the builtin replaceAll (SMT-LIB str.replace_all) for a non-empty old", []contract{cReplaceAll},
		fmt.Sprintf("all s over {a b} up to length %d, old over {a b} of length 1..3, new over {a b} up to length 2", rn), func(t *T) {
			for _, s := range all("ab", rn) {
				for _, old := range all("ab", 3)[1:] {
					for _, nw := range all("ab", 2) {
						t.Case()
						r := strings.ReplaceAll(s, old, nw)
						t.Check(!(old != "") || r == replaceAllSMT(s, old, nw), cReplaceAll.ensures[0], "ReplaceAll(%q,%q,%q)=%q, builtin gives %q", s, old, nw, r, replaceAllSMT(s, old, nw))
					}
				}
			}
		})
	check("ReplaceAll, every old (nothing is claimed for the empty one, where Go inserts new around every rune and str.replace_all does not)", []contract{cReplaceAll},
		fmt.Sprintf("all s over {a b} up to length %d, old over {a b} up to length 3, new over {a b} up to length 2", rn), func(t *T) {
			for _, s := range all("ab", rn) {
				for _, old := range all("ab", 3) {
					for _, nw := range all("ab", 2) {
						t.Case()
						r := strings.ReplaceAll(s, old, nw)
						t.Check(!(old != "") || r == replaceAllSMT(s, old, nw), cReplaceAll.ensures[0], "ReplaceAll(%q,%q,%q)=%q, builtin gives %q", s, old, nw, r, replaceAllSMT(s, old, nw))
					}
				}
			}
		})
}

func checksStrconv() {
	cItoa := contract{"std/bytes.spec", "strconv", "Itoa", 21, []string{`r == decimal(i)`}}
	cFormatBool := contract{"C03_pairs.spec", "strconv", "FormatBool", 8, []string{`r == ite(b, "true", "false")`}}
	span := 2000
	for i := 7; i < L; i++ {
		span *= 10
	}
	check("Itoa is decimal(i) = ite(i >= 0, itoa(i), \"-\" + itoa(0 - i)) over unbounded integers", []contract{cItoa},
		fmt.Sprintf("all i in [-%d, %d], and all i within 2 of ±2^k (k = 7..63) and of ±10^k (k = 1..18), MinInt64, MaxInt64", span, span), func(t *T) {
			one := func(i int64) {
				t.Case()
				r := strconv.Itoa(int(i))
				t.Check(r == decimal(i), cItoa.ensures[0], "Itoa(%d)=%q, decimal gives %q", i, r, decimal(i))
			}
			for i := -span; i <= span; i++ {
				one(int64(i))
			}
			near := func(v int64) {
				for d := int64(-2); d <= 2; d++ {
					if (d > 0 && v > 0 && v+d < v) || (d < 0 && v < 0 && v+d > v) {
						continue // would wrap around
					}
					one(v + d)
				}
			}
			for k := 7; k <= 62; k++ {
				near(int64(1) << k)
				near(-(int64(1) << k))
			}
			near(-1 << 63)
			near(1<<63 - 1)
			p := int64(1)
			for k := 1; k <= 18; k++ {
				p *= 10
				near(p)
				near(-p)
			}
		})
	check("FormatBool", []contract{cFormatBool}, "both values", func(t *T) {
		for _, b := range []bool{false, true} {
			t.Case()
			want := "false"
			if b {
				want = "true"
			}
			t.Check(strconv.FormatBool(b) == want, cFormatBool.ensures[0], "FormatBool(%v)=%q", b, strconv.FormatBool(b))
		}
	})
}
