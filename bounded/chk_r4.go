package main

import (
	"bytes"
	"encoding/hex"
	"fmt"
	"slices"
	"strings"
)

// checksR4: standard-library contracts declared trusted by the fourth round of contract authors
// (R4a.spec slices.Contains, R4b.spec encoding/hex and strings.Cut, R4e.spec bytes.ReplaceAll).
func checksR4() {
	isLowerHex := func(s string) bool {
		for _, c := range s {
			if !(c >= '0' && c <= '9' || c >= 'a' && c <= 'f') {
				return false
			}
		}
		return true
	}
	isAnyHex := func(s string) bool {
		for _, c := range s {
			if !(c >= '0' && c <= '9' || c >= 'a' && c <= 'f' || c >= 'A' && c <= 'F') {
				return false
			}
		}
		return true
	}
	// ---- encoding/hex
	cEnc := contract{"R4b.spec", "encoding/hex", "EncodeToString", 16, []string{`len(r) == 2 * len(src) && rb_lowerHex(r)`, `second(DecodeString(r)) == nil && first(DecodeString(r)) == src`}}
	cDec := contract{"R4b.spec", "encoding/hex", "DecodeString", 19, []string{`(err == nil) <==> (rb_anyHex(s) && len(s) % 2 == 0)`, `err == nil ==> len(s) == 2 * len(r)`, `err == nil && rb_lowerHex(s) ==> EncodeToString(r) == s`}}
	bn := min(L-4, 3)
	check("hex.EncodeToString: lowercase, two characters per byte, decodes back", []contract{cEnc},
		fmt.Sprintf("all byte strings over {0x00 0x0a 0x7f 0xab 0xff} up to length %d", bn), func(t *T) {
			enum("\x00\x0a\x7f\xab\xff", bn, func(s string) {
				t.Case()
				src := []byte(s)
				r := hex.EncodeToString(src)
				t.Check(len(r) == 2*len(src) && isLowerHex(r), cEnc.ensures[0], "EncodeToString(%x)=%q", src, r)
				back, err := hex.DecodeString(r)
				t.Check(err == nil && bytes.Equal(back, src), cEnc.ensures[1], "DecodeString(EncodeToString(%x))=(%x,%v)", src, back, err)
			})
		})
	hn := min(L-3, 4)
	check("hex.DecodeString: accepts exactly even-length hex, half the length, re-encodes lowercase input", []contract{cDec},
		fmt.Sprintf("all strings over {0 9 a f A F g :} up to length %d", hn), func(t *T) {
			enum("09afAFg:", hn, func(s string) {
				t.Case()
				r, err := hex.DecodeString(s)
				t.Check((err == nil) == (isAnyHex(s) && len(s)%2 == 0), cDec.ensures[0], "DecodeString(%q)=(%x,%v)", s, r, err)
				t.Check(err != nil || len(s) == 2*len(r), cDec.ensures[1], "DecodeString(%q)=(%x,%v)", s, r, err)
				t.Check(!(err == nil && isLowerHex(s)) || hex.EncodeToString(r) == s, cDec.ensures[2], "EncodeToString(DecodeString(%q))=%q", s, hex.EncodeToString(r))
			})
		})
	// ---- strings.Cut
	cCut := contract{"R4b.spec", "strings", "Cut", 27, []string{`found == contains(s, sep)`,
		`found ==> before == substr(s, 0, indexOf(s, sep)) && after == substr(s, indexOf(s, sep) + len(sep), len(s) - indexOf(s, sep) - len(sep)) && s == before + sep + after && (sep != "" ==> !contains(before, sep))`,
		`!found ==> before == s && after == ""`}}
	sn, pn := min(L-1, 6), min(L-5, 2)
	check("strings.Cut slices s around the first instance of sep", []contract{cCut},
		fmt.Sprintf("all pairs (s, sep): s over {a : b} up to length %d, sep over {a :} of length 0..%d", sn, pn), func(t *T) {
			for _, s := range all("a:b", sn) {
				for _, sep := range all("a:", pn) {
					t.Case()
					before, after, found := strings.Cut(s, sep)
					t.Check(found == contains(s, sep), cCut.ensures[0], "Cut(%q,%q)", s, sep)
					if found {
						i := indexOf(s, sep)
						t.Check(before == substr(s, 0, i) && after == substr(s, i+len(sep), len(s)-i-len(sep)) && s == before+sep+after && (sep == "" || !contains(before, sep)), cCut.ensures[1], "Cut(%q,%q)=(%q,%q)", s, sep, before, after)
					} else {
						t.Check(before == s && after == "", cCut.ensures[2], "Cut(%q,%q)=(%q,%q)", s, sep, before, after)
					}
				}
			}
		})
	// ---- slices.Contains
	cCont := contract{"R4a.spec", "slices", "Contains", 54, []string{`r <==> (exists i int :: 0 <= i && i < len(s) && s[i] == v)`}}
	check("slices.Contains is membership", []contract{cCont}, `nil and all slices over {"a" "b" ""} up to length 4, v in {"a" "b" "" "c"}`, func(t *T) {
		var xs [][]string
		xs = append(xs, nil)
		seqs([]string{"a", "b", ""}, 4, func(in []string) { xs = append(xs, slices.Clone(in)) })
		for _, s := range xs {
			for _, v := range []string{"a", "b", "", "c"} {
				t.Case()
				want := false
				for i := range s {
					want = want || s[i] == v
				}
				t.Check(slices.Contains(s, v) == want, cCont.ensures[0], "Contains(%q,%q)", s, v)
			}
		}
	})
	// ---- bytes.ReplaceAll
	cRep := contract{"R4e.spec", "bytes", "ReplaceAll", 174, []string{`bstr(old) != "" ==> bstr(r) == replaceAll(bstr(s), bstr(old), bstr(new))`}}
	rn := min(L-2, 5)
	check("bytes.ReplaceAll with a non-empty pattern is the builtin replaceAll on the spelled strings", []contract{cRep},
		fmt.Sprintf("s over {a b} up to length %d, old over {a b} of length 1..2, new in {\"\" \"a\" \"bb\"}", rn), func(t *T) {
			for _, s := range all("ab", rn) {
				for _, old := range all("ab", 2) {
					if old == "" {
						continue
					}
					for _, nw := range []string{"", "a", "bb"} {
						t.Case()
						r := string(bytes.ReplaceAll([]byte(s), []byte(old), []byte(nw)))
						t.Check(r == replaceAllSMT(s, old, nw), cRep.ensures[0], "ReplaceAll(%q,%q,%q)=%q", s, old, nw, r)
					}
				}
			}
		})
}
