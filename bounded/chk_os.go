package main

import (
	"errors"
	"fmt"
	"io/fs"
	"os"
	"path/filepath"
	"sync/atomic"
)

// The os contracts of C14_buckets.spec are mostly ghost bookkeeping (which paths a call touches: j_osStat /
// j_osRead / j_osWrite, call counters, the sink flag). Those clauses DEFINE the ghost variables and have no
// executable content. What can be run is the result part: "err == nil ==> the returned object is non-nil" and
// "(*os.File).Write: err == nil ==> n == len(p)", against a scratch directory.

const ghostOnly = "the other clauses are ghost bookkeeping (touched-path sets, counters, sink flag): definitions, nothing to run"

func checksOS() {
	const F = "C14_buckets.spec"
	cStat := contract{F, "os", "Stat", 69, []string{
		`ghost.j_osStat == add(old(ghost.j_osStat), name)`,
		`err == nil ==> fi != nil`}}.withNote(ghostOnly)
	cLstat := contract{F, "os", "Lstat", 73, []string{
		`ghost.j_osStat == add(old(ghost.j_osStat), name)`,
		`err == nil ==> fi != nil`}}.withNote(ghostOnly)
	cIsNotExist := contract{F, "os", "IsNotExist", 77, []string{`err == nil ==> !r`}}
	cOpen := contract{F, "os", "Open", 80, []string{
		`ghost.fail == (old(ghost.fail) || err != nil)`,
		`ghost.j_osRead == add(old(ghost.j_osRead), name)`,
		`err == nil ==> f != nil`}}.withNote(ghostOnly)
	cCreate := contract{F, "os", "Create", 85, []string{
		`ghost.fail == (old(ghost.fail) || err != nil)`,
		`ghost.wfail == (old(ghost.wfail) || err != nil)`,
		`ghost.j_osWrite == add(old(ghost.j_osWrite), name)`,
		`err == nil ==> f != nil`}}.withNote(ghostOnly)
	cCreateTemp := contract{F, "os", "CreateTemp", 91, []string{
		`ghost.fail == (old(ghost.fail) || err != nil)`,
		`ghost.wfail == (old(ghost.wfail) || err != nil)`,
		`ghost.j_osWrite == add(old(ghost.j_osWrite), dir)`,
		`err == nil ==> f != nil`}}.withNote(ghostOnly)
	cFileWrite := contract{F, "os", "(File) Write", 124, []string{
		`ghost.fail == (old(ghost.fail) || err != nil)`,
		`ghost.wfail == (old(ghost.wfail) || err != nil)`,
		`err == nil ==> n == len(p)`}}.withNote(ghostOnly)

	check("os.Stat / Lstat / Open / Create / CreateTemp return a non-nil object when they succeed; IsNotExist(nil) is false; (*os.File).Write writes everything or fails",
		[]contract{cStat, cLstat, cIsNotExist, cOpen, cCreate, cCreateTemp, cFileWrite},
		"a scratch directory with a file, a directory, a dangling and a live symlink, a missing entry, a path through a file, a closed and a read-only file; writes of 0, 1, 5 and 70000 bytes", func(t *T) {
			dir, err := os.MkdirTemp("", "bounded-os-")
			if err != nil {
				t.Fail("cannot create a scratch directory: %v", err)
				return
			}
			defer os.RemoveAll(dir)
			file := filepath.Join(dir, "file")
			sub := filepath.Join(dir, "sub")
			os.WriteFile(file, []byte("content"), 0o644)
			os.Mkdir(sub, 0o755)
			os.Symlink(filepath.Join(dir, "nowhere"), filepath.Join(dir, "dangling"))
			os.Symlink(file, filepath.Join(dir, "live"))
			names := []string{file, sub, filepath.Join(dir, "dangling"), filepath.Join(dir, "live"), filepath.Join(dir, "missing"),
				filepath.Join(file, "below-a-file"), "", dir + "/sub/../file", "\x00"}
			for _, n := range names {
				t.Case()
				fi, err := os.Stat(n)
				t.Check(!(err == nil) || fi != nil, cStat.ensures[1], "Stat(%q)=(%v,%v)", n, fi, err)
				fi, err = os.Lstat(n)
				t.Check(!(err == nil) || fi != nil, cLstat.ensures[1], "Lstat(%q)=(%v,%v)", n, fi, err)
				f, err := os.Open(n)
				t.Check(!(err == nil) || f != nil, cOpen.ensures[2], "Open(%q)=(%v,%v)", n, f, err)
				if f != nil {
					f.Close()
				}
			}
			for _, n := range []string{filepath.Join(dir, "new"), file, sub, filepath.Join(dir, "missing-dir", "x"), filepath.Join(file, "x"), ""} {
				t.Case()
				f, err := os.Create(n)
				t.Check(!(err == nil) || f != nil, cCreate.ensures[3], "Create(%q)=(%v,%v)", n, f, err)
				if f != nil {
					f.Close()
				}
			}
			for _, d := range []string{dir, sub, filepath.Join(dir, "missing-dir"), file} {
				for _, pat := range []string{"", "x*", "a/b"} {
					t.Case()
					f, err := os.CreateTemp(d, pat)
					t.Check(!(err == nil) || f != nil, cCreateTemp.ensures[3], "CreateTemp(%q,%q)=(%v,%v)", d, pat, f, err)
					if f != nil {
						f.Close()
					}
				}
			}
			for _, e := range []error{nil, fs.ErrNotExist, fs.ErrExist, errors.New("x"), &fs.PathError{Op: "open", Path: "p", Err: fs.ErrNotExist}} {
				t.Case()
				t.Check(!(e == nil) || !os.IsNotExist(e), cIsNotExist.ensures[0], "IsNotExist(%v)", e)
			}
			// (*os.File).Write
			w, _ := os.Create(filepath.Join(dir, "w"))
			ro, _ := os.Open(file)
			closed, _ := os.Create(filepath.Join(dir, "closed"))
			closed.Close()
			var nilFile *os.File
			for _, f := range []*os.File{w, ro, closed, nilFile} {
				for _, size := range []int{0, 1, 5, 70000} {
					t.Case()
					p := make([]byte, size)
					n, err := f.Write(p)
					t.Check(!(err == nil) || n == len(p), cFileWrite.ensures[2], "(*os.File).Write(%d bytes)=(%d,%v)", size, n, err)
				}
			}
			w.Close()
			ro.Close()
		})

	// ---- sync/atomic.Value, single-cell model (ghost.j_atom is the content of THE atomic.Value in play)
	cCAS := contract{F, "sync/atomic", "(Value) CompareAndSwap", 148, []string{
		`swapped == (old(ghost.j_atom) == old)`,
		`ghost.j_atom == ite(old(ghost.j_atom) == old, new, old(ghost.j_atom))`}}
	cLoad := contract{F, "sync/atomic", "(Value) Load", 152, []string{`r == ghost.j_atom`}}
	depth := min(L-4, 4)
	check("atomic.Value as a single cell: CompareAndSwap swaps iff the cell holds old; Load returns the cell (ghost.j_atom := content of the Value, nil when empty)",
		[]contract{cCAS, cLoad}, fmt.Sprintf("every sequence of 1..%d CompareAndSwap(old, new) calls with old in {nil, e1, e2}, new in {e1, e2} (error values of one dynamic type; a nil new panics and ends the path)", depth), func(t *T) {
			e1, e2 := errors.New("e1"), errors.New("e2")
			olds := []any{nil, e1, e2}
			news := []any{e1, e2}
			type op struct{ old, new any }
			var ops []op
			for _, o := range olds {
				for _, n := range news {
					ops = append(ops, op{o, n})
				}
			}
			seqs(ops, depth, func(seq []op) {
				if len(seq) == 0 {
					return
				}
				t.Case()
				var v atomic.Value
				var cell any // ghost.j_atom
				for i, o := range seq {
					before := cell
					t.Check(v.Load() == cell, cLoad.ensures[0], "Load()=%v, cell %v", v.Load(), cell)
					sw := v.CompareAndSwap(o.old, o.new)
					after := v.Load()
					if i == len(seq)-1 {
						t.Check(sw == (before == o.old), cCAS.ensures[0], "cell %v: CompareAndSwap(%v,%v)=%v", before, o.old, o.new, sw)
						want := before
						if before == o.old {
							want = o.new
						}
						t.Check(after == want, cCAS.ensures[1], "cell %v: CompareAndSwap(%v,%v) leaves %v", before, o.old, o.new, after)
					}
					cell = after
				}
			})
		})
}
