package main

import (
	"bytes"
	"errors"
	"fmt"
	"io"
)

// The io contracts are statements about the ghost flag ghost.fail / ghost.wfail ("an I/O sink reported an
// error"): `ghost.fail == (old(ghost.fail) || err != nil)`. Read from right to left this DEFINES the flag for
// the call. Read from left to right it has executable content: an error raised by an underlying reader or writer
// while io.Copy / io.ReadAll runs (which raises the flag in the model: io.Writer.Write / a failing Read are sinks
// themselves) must make the call return a non-nil error; otherwise the flag would be lost and "every failure
// is reported" would be proved for a program that swallows one. That is what is checked here, with in-memory
// readers and writers that fail at a chosen call.

var errInjected = errors.New("injected failure")

// flaky reader: delivers data in chunks of size chunk; the fail-th Read call (1-based; 0: never) returns the
// injected error, together with data if withData. eofWithData: the last chunk is returned together with io.EOF.
type flakyReader struct {
	data        []byte
	chunk       int
	fail        int
	withData    bool
	eofWithData bool
	calls       int
	raised      *bool
}

func (r *flakyReader) Read(p []byte) (int, error) {
	r.calls++
	n := min(min(r.chunk, len(p)), len(r.data))
	if r.calls == r.fail {
		*r.raised = true
		if r.withData && n > 0 {
			copy(p, r.data[:n])
			r.data = r.data[n:]
			return n, errInjected
		}
		return 0, errInjected
	}
	if len(r.data) == 0 {
		return 0, io.EOF
	}
	copy(p, r.data[:n])
	r.data = r.data[n:]
	if r.eofWithData && len(r.data) == 0 {
		return n, io.EOF
	}
	return n, nil
}

// a reader that also implements io.WriterTo (io.Copy uses it instead of Read)
type flakyWriterTo struct{ *flakyReader }

func (r flakyWriterTo) WriteTo(w io.Writer) (int64, error) {
	var total int64
	buf := make([]byte, 3)
	for {
		n, err := r.Read(buf)
		if n > 0 {
			m, werr := w.Write(buf[:n])
			total += int64(m)
			if werr != nil {
				return total, werr
			}
		}
		if err == io.EOF {
			return total, nil
		}
		if err != nil {
			return total, err
		}
	}
}

// flaky writer: the fail-th Write call fails: mode 0: (0, err); mode 1: (len-1, err); mode 2: short write
// (len-1, nil), which no underlying sink reports as an error.
type flakyWriter struct {
	fail   int
	mode   int
	calls  int
	got    []byte
	raised *bool
}

func (w *flakyWriter) Write(p []byte) (int, error) {
	w.calls++
	if w.calls == w.fail {
		switch w.mode {
		case 0:
			*w.raised = true
			return 0, errInjected
		case 1:
			*w.raised = true
			n := max(len(p)-1, 0)
			w.got = append(w.got, p[:n]...)
			return n, errInjected
		default:
			n := max(len(p)-1, 0)
			w.got = append(w.got, p[:n]...)
			return n, nil
		}
	}
	w.got = append(w.got, p...)
	return len(p), nil
}

// a writer that also implements io.ReaderFrom
type flakyReaderFrom struct{ *flakyWriter }

func (w flakyReaderFrom) ReadFrom(r io.Reader) (int64, error) {
	var total int64
	buf := make([]byte, 3)
	for {
		n, err := r.Read(buf)
		if n > 0 {
			m, werr := w.Write(buf[:n])
			total += int64(m)
			if werr != nil {
				return total, werr
			}
			if m < n {
				return total, io.ErrShortWrite
			}
		}
		if err == io.EOF {
			return total, nil
		}
		if err != nil {
			return total, err
		}
	}
}

func checksIO() {
	const F = "std/io.spec"
	cCopy := contract{F, "io", "Copy", 7, []string{
		`ghost.fail == (old(ghost.fail) || err != nil)`,
		`ghost.wfail == (old(ghost.wfail) || err != nil)`}}.withNote(
		"ghost-flag clauses; executable content checked: an error of the underlying reader / writer is never swallowed (raised ==> err != nil)")
	cReadAll := contract{F, "io", "ReadAll", 11, []string{`ghost.fail == (old(ghost.fail) || err != nil)`}}.withNote(
		"ghost-flag clause; executable content checked: an error of the underlying reader is never swallowed (raised ==> err != nil)")

	maxLen := min(L, 9)
	check("io.Copy reports every failure of its reader and writer (the ghost flag cannot be raised inside without err != nil)", []contract{cCopy},
		fmt.Sprintf("data of length 0..%d, read chunks 1/2/4, reader failing at call 0(never)..5 with and without data, EOF with and without data, writer failing at call 0..5 in 3 modes (0,err / partial,err / short write), plain and WriterTo readers, plain and ReaderFrom writers, *bytes.Buffer on either side", maxLen), func(t *T) {
			for n := 0; n <= maxLen; n++ {
				data := bytes.Repeat([]byte("x"), n)
				for _, chunk := range []int{1, 2, 4} {
					for rfail := 0; rfail <= 5; rfail++ {
						for _, withData := range []bool{false, true} {
							for _, eofData := range []bool{false, true} {
								for wfail := 0; wfail <= 5; wfail++ {
									for mode := 0; mode < 3; mode++ {
										if wfail == 0 && mode > 0 {
											continue
										}
										for variant := 0; variant < 6; variant++ {
											raised := false
											fr := &flakyReader{data: append([]byte{}, data...), chunk: chunk, fail: rfail, withData: withData, eofWithData: eofData, raised: &raised}
											fw := &flakyWriter{fail: wfail, mode: mode, raised: &raised}
											var src io.Reader = struct{ io.Reader }{fr}
											var dst io.Writer = struct{ io.Writer }{fw}
											switch variant {
											case 1:
												src = flakyWriterTo{fr}
											case 2:
												dst = flakyReaderFrom{fw}
											case 3:
												src, dst = flakyWriterTo{fr}, flakyReaderFrom{fw}
											case 4: // real WriterTo: a bytes.Buffer as source
												if rfail != 0 || withData || eofData || chunk != 1 {
													continue
												}
												src = bytes.NewBuffer(append([]byte{}, data...))
											case 5: // real ReaderFrom: a bytes.Buffer as destination
												if wfail != 0 {
													continue
												}
												dst = new(bytes.Buffer)
											}
											t.Case()
											_, err := io.Copy(dst, src)
											t.Check(!raised || err != nil, "ghost.fail == (old(ghost.fail) || err != nil), with the flag raised by the failing Read/Write inside",
												"io.Copy(variant %d, %d bytes, chunk %d, reader fails at call %d (withData=%v, eofWithData=%v), writer fails at call %d mode %d) returned err=%v although an underlying call failed",
												variant, n, chunk, rfail, withData, eofData, wfail, mode, err)
										}
									}
								}
							}
						}
					}
				}
			}
		})
	check("io.ReadAll reports every failure of its reader", []contract{cReadAll},
		fmt.Sprintf("data of length 0..%d and 600 (beyond the initial 512-byte buffer), read chunks 1/2/4/512, reader failing at call 0(never)..6 with and without data, EOF with and without data", maxLen), func(t *T) {
			lens := []int{600}
			for n := 0; n <= maxLen; n++ {
				lens = append(lens, n)
			}
			for _, n := range lens {
				data := bytes.Repeat([]byte("x"), n)
				for _, chunk := range []int{1, 2, 4, 512} {
					for rfail := 0; rfail <= 6; rfail++ {
						for _, withData := range []bool{false, true} {
							for _, eofData := range []bool{false, true} {
								t.Case()
								raised := false
								fr := &flakyReader{data: append([]byte{}, data...), chunk: chunk, fail: rfail, withData: withData, eofWithData: eofData, raised: &raised}
								got, err := io.ReadAll(fr)
								t.Check(!raised || err != nil, cReadAll.ensures[0]+" with the flag raised by the failing Read inside",
									"io.ReadAll(%d bytes, chunk %d, reader fails at call %d, withData=%v, eofWithData=%v) returned err=%v", n, chunk, rfail, withData, eofData, err)
								if !raised && err == nil && len(got) != n {
									t.Fail("io.ReadAll without failure returned %d of %d bytes", len(got), n)
								}
							}
						}
					}
				}
			}
		})
}
