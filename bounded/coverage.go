package main

// Texts of COVERAGE.md (`bounded --coverage`): why a trusted declaration is not validated.

const ghostDef = "every clause is ghost bookkeeping (touched-path sets / counters / the sink flag `ghost.fail == (old(ghost.fail) || err != nil)`): the clauses DEFINE the ghost variables for the call, there is no result to compare"

// by exact "pkg.name"
var notValidated = map[string]string{
	"io.(Closer) Close": "interface method (every implementation is a different function); " + ghostDef,
	"io.(Writer) Write": "interface method (every implementation is a different function); " + ghostDef,

	"os.MkdirAll":                           ghostDef,
	"os.Remove":                             ghostDef,
	"os.RemoveAll":                          ghostDef,
	"os.Rename":                             ghostDef,
	"os.(File) Close":                       ghostDef + " (j_lastFileClose records err)",
	"os.(File) Read":                        "no ensures clause (frame only)",
	"os.(File) Name":                        "no ensures clause (purity only); an accessor of an open file",
	"os/exec.LookPath":                      "no ensures clause (frame only); depends on PATH and the file system",
	"sync/atomic.(Int64) Add":               "no ensures clause: the counter value is not modelled",
	"bytes.(Buffer) Grow":                   "no ensures clause (frame only: capacity is not modelled)",
	"encoding/xml.(Encoder) Indent":         "no ensures clause (frame only)",
	"github.com/jdx/go-netrc.(Machine) Get": "no ensures clause (purity only); exercised indirectly by the Machine check",
	"net/http.(Header) Set":                 ghostDef + " (ghost.hdrVals collects the values set)",

	"path/filepath.EvalSymlinks": "no ensures clause; the purity assumption cannot be validated: the result depends on the file system, not on the argument alone (the environment is assumed frozen during a call)",
	"path/filepath.Abs":          "no ensures clause; the purity assumption cannot be validated: the result depends on the working directory, not on the argument alone (assumed fixed during a call)",
	"encoding/json.Marshal":      "no ensures clause (frame only: marshalling writes no modelled state)",
	"fmt.Sprintf":                "no ensures clause (frame only)",
	"fmt.Sprint":                 "no ensures clause (frame only)",
	"error.(error) Error":        "no ensures clause (frame only); interface method",

	"github.com/bufbuild/buf/private/pkg/filelock.(Locker) Lock":                              "interface method; needs a lock directory on disk and a context; the clause (err == nil ==> r != nil) is about the repo's own implementation",
	"github.com/bufbuild/buf/private/pkg/filelock.(Locker) RLock":                             "interface method; needs a lock directory on disk and a context; the clause (err == nil ==> r != nil) is about the repo's own implementation",
	"github.com/bufbuild/buf/private/pkg/filelock.(Unlocker) Unlock":                          "no ensures clause; interface method",
	"github.com/bufbuild/buf/private/buf/bufcli.PrintFileAnnotationSetLintConfigIgnoreYAMLV1": "needs a FileAnnotationSet (bufanalysis objects) and pulls in the whole bufcli package tree; the clauses are ghost bookkeeping of an output sink",
	"github.com/bufbuild/buf/private/pkg/protosourcepath.GetAssociatedSourcePaths":            "the only clause sets a ghost marker (ghost.commentsConsulted): a definition, nothing to compare",
	"github.com/bufbuild/buf/private/pkg/encoding.UnmarshalYAMLNonStrict":                     "no ensures clause (frame: writes only into the value it is given)",
	"github.com/bufbuild/buf/private/pkg/encoding.MarshalYAML":                                "no ensures clause (frame only)",
	"github.com/bufbuild/buf/private/pkg/filepathext.RealClean":                               "no ensures clause; purity cannot be validated: depends on the working directory and the file system (symlinks)",
	"github.com/bufbuild/buf/private/pkg/filepathext.WalkWithSymlinks":                        "option constructor returning an opaque closure; the clause (r != nil) is trivial and not worth a check of its own",
	"github.com/bufbuild/buf/private/pkg/storage/storageutil.NewWalkChecker":                  "constructor of a repo object; clause r != nil; belongs to the bucket walk protocol (j_ctxDone is uninterpreted)",
	"github.com/bufbuild/buf/private/pkg/storage/storageutil.(WalkChecker) Check":             "j_ctxDone(ctx) is an uninterpreted predicate of the context: nothing observable to compare it with",
	"github.com/bufbuild/buf/private/bufpkg/bufcheck.(Client) ConfiguredRules":                "interface method of the check client (whole plugin pipeline); the clause records a ghost variable",
}

// by prefix of "pkg.name"
var notValidatedPrefix = [][2]string{
	{".axiom v_opt-carries-bucket", "v_optReadBucket is an uninterpreted function of an option CLOSURE (WriteResponseWithInsertionPointReadBucket(b)); closures cannot be inspected or compared: nothing observable (the closure body itself is verified)"},
	{".axiom v_ws-def", "leadingWhitespace is an unexported function of bufprotoplugin; the axiom DEFINES v_ws through it"},
	{".axiom b_tagRangeWellFormed", "a fact about every implementation of the bufprotosource.TagRange interface; needs descriptor objects built from compiled images"},
	{".axiom a_type-kind-link", "relates bufprotosource.Field.Type() to protoreflect descriptors of the same field; needs compiled images as inputs"},
	{"github.com/bufbuild/buf/private/gen/proto/go/buf/alpha/image/v1.", "no ensures clause (purity only): generated getters; what they return is checked through the Build() contracts"},
	{"github.com/bufbuild/buf/private/bufpkg/bufprotoplugin", "interface contract of the repo's response writers: ghost call log and sink flags; the implementation is verified, nothing to run in isolation"},
	{"github.com/bufbuild/buf/private/buf/bufctl.", "interface method of the controller (I/O boundary, concurrent implementation); ghost bookkeeping"},
	{"sync.", "no ensures clause: locks are no-ops in the sequential model (concurrency is outside every contract)"},
	{"log/slog.", "no ensures clause (purity only): attribute constructors, the values are never inspected"},
	{"io/fs.(FileMode)", "no ensures clause (purity only)"},
	{"buf.build/go/bufplugin/check.With", "the clauses speak about uninterpreted spec functions (b_isAgainstFileOpt / b_againstFileOf) of OPAQUE option values (closures): nothing observable to compare them with; consistent by construction as long as each constructor gets its own clause"},
	{"buf.build/go/bufplugin/check.(ResponseWriter)", "interface method of the plugin SDK; all clauses are ghost bookkeeping of the annotation sink (count / locations / file names)"},
	{"google.golang.org/protobuf/types/descriptorpb.", "no ensures clause (purity only): generated getters / enum String methods"},
	{"google.golang.org/protobuf/types/pluginpb.", "no ensures clause (purity only): generated getters"},
	{"google.golang.org/protobuf/reflect/protoreflect.", "descriptor interfaces: need linked descriptors built by protocompile / protodesc as inputs; the clauses relate accessors of such objects (no small input domain to enumerate)"},
	{"google.golang.org/protobuf/types/dynamicpb.", "need linked protoreflect descriptors as inputs (protocompile / protodesc); no small input domain to enumerate"},
	{"github.com/bufbuild/protocompile/", "need compiled / linked files of the protocompile pipeline as inputs; no small input domain to enumerate"},
	{"connectrpc.com/connect.", "no ensures clause (purity only); interface method"},
	{"github.com/bufbuild/buf/private/pkg/netrc.", "no ensures clause (purity only); interface method"},
	{"github.com/bufbuild/buf/private/gen/data/datawkt.", "no ensures clause (purity only)"},
	{"github.com/bufbuild/buf/private/pkg/slogext.", "no ensures clause (purity only)"},
	{"github.com/bufbuild/buf/private/bufpkg/bufprotosource.", "needs bufprotosource descriptor objects (built from compiled images) as inputs; repo function, outside the scope of this validator"},
	{"github.com/bufbuild/buf/private/pkg/storage/storageos.", "spec-only declarations of the disk bucket (unexported / ghost protocol)"},
}

const coverageHeader = `# Bounded validation of the trusted contracts — coverage

Generated by ` + "`/verif/bin/bounded --coverage --len 7`" + ` (do not edit by hand; regenerate after changing a spec file or a check).

The gocv proofs ASSUME the ` + "`trusted`" + ` contracts of standard-library, third-party and some repo functions. ` + "`/verif/bounded`" + ` calls the
REAL functions on every input up to a small bound and evaluates the ensures clauses (hand-translated from the contract
text, with the SMT-LIB meaning of the builtins: ` + "`smt.go`" + `) on the results. Each check carries the clause texts it was
translated from; if a spec file changes, the check fails as "stale translation" until it is re-translated.

Status values:

* **validated (…)** — every clause was evaluated on every input of the stated bound and held.
* **WRONG as declared** — the real function violates a clause for some input (the counterexample is given).
  The failing check is kept: ` + "`bounded`" + ` exits with status 1 until the contract is corrected. (Round 1 found nine such contracts:
  syserror.Wrap, Buffer.WriteRune, strings.ReplaceAll / Split / SplitN, sort.Search, errors.As, StripSourceRetentionOptions,
  NewPackageVersionForPackage; all were corrected in the spec files - look for "(bounded validation: ...)" comments - and the
  checks below are translated from the corrected clauses. Round 3 found three clauses of the bufio.Scanner model of
  C17_writer.spec wrong for calls outside the usual ` + "`for sc.Scan() { sc.Bytes() }; sc.Err()`" + ` protocol; the model now carries
  the ghost flag v_scanEnded and Scan requires !v_scanEnded, and the checks honour that.)
* **not validated: reason** — nothing was run.

Clauses about ghost state (` + "`ghost.fail == (old(ghost.fail) || err != nil)`" + `, touched-path sets, counters) define the ghost
variables and have no result to compare. For the sinks that wrap another writer/reader (io.Copy, io.ReadAll, tar and zip
writers, thread.Parallelize) their executable content IS checked: an error raised by the wrapped object must not be swallowed.
`

const coverageFooter = `
## Engine intrinsics (no spec-file contract)

| where | function | status |
|---|---|---|
| gocv/internal/gocv/exec_expr.go (errors.Join with a literal argument list) | ` + "`errors.Join`" + ` | same statement as std/errors.spec errors.Join: see there |
| gocv/internal/gocv/exec_call.go sortSliceIntrinsic + sortComparatorObligations | ` + "`sort.Slice`, `sort.SliceStable`" + ` with a literal comparator | the engine rejects comparators that use their index parameters other than as subscripts of the sorted slice (comparatorUsesIndexesOnlyAsSubscripts), emits #sort-comparator[N.irreflexive / transitive / ties-transitive], and then assumes: permutation + "for all a < b the comparator on (b, a) is false". Validated: for ALL 512 relations on a 3-value domain used as comparator on (x[i], x[j]) and 6 named comparators (long inputs included), whenever the obligations hold the assumptions hold. (Round 2 found that ` + "`func(i, j int) bool { return i > j }`" + ` passed the obligations and broke the assumption; such comparators are now out of fragment, so nothing is modelled and nothing is checked for them.) |
| gocv/internal/gocv/exec_expr.go (calls through function values) | callbacks | ghost bookkeeping (ghost.cbCalls, ghost.fail): definitions |

## Not importable / skipped repo packages

Packages under an ` + "`internal`" + ` directory cannot be imported from /verif/bounded:
` + "`private/bufpkg/bufcheck/bufcheckserver/internal/bufcheckserverhandle`, `…/bufcheckserverutil`, `…/customfeatures`, `private/bufpkg/bufimage/bufimagemodify/internal`, `private/pkg/storage/storagemem/internal`" + `.
Unexported functions and methods (collapseRanges, missingRangesString, getDefault, filterImage, addImport, newResolverForFiles, …) are not callable either.
The bounded module is named ` + "`github.com/bufbuild/verif/bounded`" + ` because ` + "`private/usage`" + ` panics at start-up when the main module path does not start with github.com/bufbuild.
`
