package main

import (
	"fmt"

	"google.golang.org/protobuf/encoding/protowire"
)

func checksProtowire() {
	const F = "C11.spec"
	const P = "google.golang.org/protobuf/encoding/protowire"
	cTag := contract{F, P, "ConsumeTag", 8, []string{`n < 0 || (0 < n && n <= len(b))`}}
	cVal := contract{F, P, "ConsumeFieldValue", 10, []string{`n < 0 || (0 <= n && n <= len(b))`}}
	aTag := axiom(F, "i_consume-tag-content", 34, `forall b protoreflect.RawFields, in protoreflect.RawFields :: i_suffixOf(b, in) ==> first(protowire.ConsumeTag(b)) == i_tagNum(in, len(in) - len(b)) && second(protowire.ConsumeTag(b)) == i_tagTyp(in, len(in) - len(b)) && third(protowire.ConsumeTag(b)) == i_tagN(in, len(in) - len(b))`)
	aVal := axiom(F, "i_consume-value-content", 35, `forall b protoreflect.RawFields, in protoreflect.RawFields, num int, typ int :: i_suffixOf(b, in) ==> protowire.ConsumeFieldValue(num, typ, b) == i_valNAt(in, len(in) - len(b), num, typ)`)

	// bytes that exercise every branch of the wire format: small varints, continuation bytes, tags of all eight
	// wire types for field 1 (0x08..0x0f), group start/end of field 1 and 2, length prefixes, 0x7f/0xff
	alpha := []byte{0x00, 0x01, 0x02, 0x08, 0x09, 0x0a, 0x0b, 0x0c, 0x0d, 0x0e, 0x0f, 0x13, 0x14, 0x7f, 0x80, 0x81, 0xff}
	bn := 3
	if L >= 9 {
		bn = 4
	}
	var inputs [][]byte
	var rec func(p []byte)
	rec = func(p []byte) {
		inputs = append(inputs, append([]byte{}, p...))
		if len(p) == bn {
			return
		}
		for _, c := range alpha {
			rec(append(p, c))
		}
	}
	rec(nil)
	// long varints: 9, 10, 11 continuation bytes (overflow handling)
	for k := 8; k <= 11; k++ {
		v := make([]byte, 0, k+1)
		for i := 0; i < k; i++ {
			v = append(v, 0xff)
		}
		inputs = append(inputs, append(append([]byte{}, v...), 0x01), append(append([]byte{}, v...), 0x02), append(append([]byte{}, v...), 0x7f), append([]byte{}, v...))
	}
	bound := fmt.Sprintf("nil and all byte strings over %d selected bytes (% x) up to length %d, plus varints of 9..12 bytes", len(alpha), alpha, bn)
	nums := []protowire.Number{-1, 0, 1, 2, 8042, 1<<29 - 1}
	typs := []protowire.Type{-1, 0, 1, 2, 3, 4, 5, 6, 7, 8}

	check("ConsumeTag: a negative error code, or a non-empty prefix of the input", []contract{cTag}, bound, func(t *T) {
		t.Case()
		_, _, n0 := protowire.ConsumeTag(nil)
		t.Check(n0 < 0 || (0 < n0 && n0 <= 0), cTag.ensures[0], "ConsumeTag(nil) n=%d", n0)
		for _, b := range inputs {
			t.Case()
			num, typ, n := protowire.ConsumeTag(b)
			t.Check(n < 0 || (0 < n && n <= len(b)), cTag.ensures[0], "ConsumeTag(% x)=(%d,%d,%d)", b, num, typ, n)
		}
	})
	check("ConsumeFieldValue: a negative error code, or a prefix of the input", []contract{cVal},
		bound+fmt.Sprintf("; num in %v, typ in %v", nums, typs), func(t *T) {
			for _, b := range inputs {
				for _, num := range nums {
					for _, typ := range typs {
						t.Case()
						n := protowire.ConsumeFieldValue(num, typ, b)
						t.Check(n < 0 || (0 <= n && n <= len(b)), cVal.ensures[0], "ConsumeFieldValue(%d,%d,% x)=%d", num, typ, b, n)
					}
				}
			}
		})
	// The content axioms: i_tagNum/i_tagTyp/i_tagN/i_valNAt are uninterpreted functions of (in, offset[, num, typ]).
	// They have a model iff the results of ConsumeTag / ConsumeFieldValue on b depend only on the CONTENT of b:
	// whenever b holds the last len(b) bytes of in, the result is determined by (in, len(in)-len(b)). The check:
	// parse the sub-slice in[off:] (shares in's backing array, larger capacity, different address) and an
	// independent copy of the same bytes embedded at the end of a different array; the results must agree, and must
	// agree with a second evaluation (no hidden state).
	check("ConsumeTag is a function of the byte content of its argument (sub-slice of in at every offset vs. independent copies)", []contract{aTag}, bound+", every offset", func(t *T) {
		for _, in := range inputs {
			for off := 0; off <= len(in); off++ {
				t.Case()
				b := in[off:]
				other := append(append(make([]byte, 0, len(b)+7), 0xaa, 0xbb), b...)[2:]
				exact := append([]byte(nil), b...)
				n1, t1, l1 := protowire.ConsumeTag(b)
				n2, t2, l2 := protowire.ConsumeTag(other)
				n3, t3, l3 := protowire.ConsumeTag(exact)
				n4, t4, l4 := protowire.ConsumeTag(b)
				same := n1 == n2 && t1 == t2 && l1 == l2 && n1 == n3 && t1 == t3 && l1 == l3 && n1 == n4 && t1 == t4 && l1 == l4
				t.Check(same, "i_consume-tag-content", "ConsumeTag(% x at offset %d): (%d,%d,%d) / (%d,%d,%d) / (%d,%d,%d)", in, off, n1, t1, l1, n2, t2, l2, n3, t3, l3)
			}
		}
	})
	check("ConsumeFieldValue is a function of (num, typ, byte content)", []contract{aVal}, bound+fmt.Sprintf(", every offset; num in %v, typ in %v", nums, typs), func(t *T) {
		for _, in := range inputs {
			for off := 0; off <= len(in); off++ {
				b := in[off:]
				other := append(append(make([]byte, 0, len(b)+7), 0xaa, 0xbb), b...)[2:]
				for _, num := range nums {
					for _, typ := range typs {
						t.Case()
						r1 := protowire.ConsumeFieldValue(num, typ, b)
						r2 := protowire.ConsumeFieldValue(num, typ, other)
						r3 := protowire.ConsumeFieldValue(num, typ, b)
						t.Check(r1 == r2 && r1 == r3, "i_consume-value-content", "ConsumeFieldValue(%d,%d,% x at offset %d): %d / %d / %d", num, typ, in, off, r1, r2, r3)
					}
				}
			}
		}
	})
}
