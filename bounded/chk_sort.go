package main

import (
	"fmt"
	"slices"
	"sort"
)

// seqs calls f with every sequence over dom of length <= n (f must not keep the slice).
func seqs[E any](dom []E, n int, f func([]E)) {
	cur := make([]E, 0, n)
	var rec func()
	rec = func() {
		f(cur)
		if len(cur) == n {
			return
		}
		for _, d := range dom {
			cur = append(cur, d)
			rec()
			cur = cur[:len(cur)-1]
		}
	}
	rec()
}

// a small deterministic generator for the longer inputs (beyond the insertion-sort threshold of pdqsort)
type lcg uint64

func (g *lcg) next(n int) int {
	*g = *g*6364136223846793005 + 1442695040888963407
	return int((uint64(*g) >> 33) % uint64(n))
}

func longInputs[E any](dom []E, count int, f func([]E)) {
	g := lcg(12345)
	for k := 0; k < count; k++ {
		n := 13 + g.next(60)
		x := make([]E, n)
		for i := range x {
			x[i] = dom[g.next(len(dom))]
		}
		f(x)
	}
}

// the four clauses of sort.Strings / slices.Sort:
//
//	len(x) == len(old(x))
//	forall i int, j int :: 0 <= i && i < j && j < len(x) ==> x[i] <= x[j]
//	forall i int :: 0 <= i && i < len(x) ==> (exists j int :: 0 <= j && j < len(x) && old(x)[j] == x[i])
//	forall j int :: 0 <= j && j < len(x) ==> (exists i int :: 0 <= i && i < len(x) && old(x)[j] == x[i])
func sortedClauses[E interface{ ~string | ~int }](t *T, e []string, what string, old, x []E) {
	t.Check(len(x) == len(old), e[0], "%s(%v)=%v", what, old, x)
	ok := true
	for i := 0; i < len(x); i++ {
		for j := i + 1; j < len(x); j++ {
			if !(x[i] <= x[j]) {
				ok = false
			}
		}
	}
	t.Check(ok, e[1], "%s(%v)=%v", what, old, x)
	ok = true
	for i := 0; i < len(x); i++ {
		ex := false
		for j := 0; j < len(x) && j < len(old); j++ {
			if old[j] == x[i] {
				ex = true
			}
		}
		ok = ok && ex
	}
	t.Check(ok, e[2], "%s(%v)=%v", what, old, x)
	ok = true
	for j := 0; j < len(x) && j < len(old); j++ {
		ex := false
		for i := 0; i < len(x); i++ {
			if old[j] == x[i] {
				ex = true
			}
		}
		ok = ok && ex
	}
	t.Check(ok, e[3], "%s(%v)=%v", what, old, x)
}

func checksSort() {
	sortClauses := []string{
		`len(x) == len(old(x))`,
		`forall i int, j int :: 0 <= i && i < j && j < len(x) ==> x[i] <= x[j]`,
		`forall i int :: 0 <= i && i < len(x) ==> (exists j int :: 0 <= j && j < len(x) && old(x)[j] == x[i])`,
		`forall j int :: 0 <= j && j < len(x) ==> (exists i int :: 0 <= i && i < len(x) && old(x)[j] == x[i])`}
	// sort.Strings additionally names the permutation: sortedFrom(old(x), i) is the input position of result element i,
	// sortedTo(old(x), .) its inverse. Both are uninterpreted functions of the input VALUE: witnesses exist iff the result is
	// a permutation of the input (equal multisets) and sorting is a function of the input value (an equal input sorts
	// to an equal result, so that one pair of witnesses serves every call with that value).
	stringsClauses := []string{
		sortClauses[0],
		`forall i int :: 0 <= i && i < len(x) ==> 0 <= sortedFrom(old(x), i) && sortedFrom(old(x), i) < len(x) && x[i] == old(x)[sortedFrom(old(x), i)] && sortedTo(old(x), sortedFrom(old(x), i)) == i`,
		`forall j int :: 0 <= j && j < len(x) ==> 0 <= sortedTo(old(x), j) && sortedTo(old(x), j) < len(x) && sortedFrom(old(x), sortedTo(old(x), j)) == j`,
		sortClauses[1], sortClauses[2], sortClauses[3]}
	cStrings := contract{"std/sort.spec", "sort", "Strings", 7, stringsClauses}.withNote(
		"sortedFrom / sortedTo are uninterpreted: the two witness clauses are checked as the existence of a bijection (the result is a permutation of the input, multiset equality) plus determinism in the input value")
	cSlicesSort := contract{"std/sort.spec", "slices", "Sort", 10, sortClauses}
	sdom := []string{"a", "b", "ab", ""}
	idom := []int{-1, 0, 1, 7}
	k := min(L-1, 8)
	bound := func(d string) string {
		return fmt.Sprintf("all slices over %s up to length %d, and 300 pseudo-random slices of length 13..72 (beyond the insertion-sort threshold)", d, k)
	}
	check("sort.Strings: same length, ordered, same set of elements, a permutation of the input (witness clauses)", []contract{cStrings}, bound(`{"a" "b" "ab" ""}`), func(t *T) {
		one := func(in []string) {
			t.Case()
			old := slices.Clone(in)
			x := slices.Clone(in)
			sort.Strings(x)
			sortedClauses(t, sortClauses, "sort.Strings", old, x)
			// witness clauses: a bijection between result and input positions that preserves the elements
			cnt := map[string]int{}
			for _, s := range old {
				cnt[s]++
			}
			for _, s := range x {
				cnt[s]--
			}
			perm := len(x) == len(old)
			for _, v := range cnt {
				if v != 0 {
					perm = false
				}
			}
			t.Check(perm, stringsClauses[1], "sort.Strings(%q)=%q is not a permutation of the input: no sortedFrom exists", old, x)
			t.Check(perm, stringsClauses[2], "sort.Strings(%q)=%q is not a permutation of the input: no inverse sortedTo exists", old, x)
			y := slices.Clone(old) // an equal value in other memory
			sort.Strings(y)
			t.Check(slices.Equal(x, y), stringsClauses[1], "sort.Strings(%q) gives %q and %q for equal inputs: sortedFrom cannot be a function of the input value", old, x, y)
		}
		seqs(sdom, k, one)
		longInputs(sdom, 300, one)
	})
	check("slices.Sort on []string and []int: same length, ordered, same set of elements", []contract{cSlicesSort},
		bound(`{"a" "b" "ab" ""} / {-1 0 1 7}`)+" (element types string and int; floats with NaN are not covered)", func(t *T) {
			one := func(in []string) {
				t.Case()
				old := slices.Clone(in)
				x := slices.Clone(in)
				slices.Sort(x)
				sortedClauses(t, sortClauses, "slices.Sort", old, x)
			}
			seqs(sdom, k, one)
			longInputs(sdom, 300, one)
			onei := func(in []int) {
				t.Case()
				old := slices.Clone(in)
				x := slices.Clone(in)
				slices.Sort(x)
				sortedClauses(t, sortClauses, "slices.Sort", old, x)
			}
			seqs(idom, k, onei)
			longInputs(idom, 300, onei)
		})

	// ---- sort.Search (C03_nodelete.spec), f an arbitrary deterministic predicate
	cSearch := contract{"C03_nodelete.spec", "sort", "Search", 241, []string{
		`n >= 0 ==> 0 <= r && r <= n`,
		`r < n ==> f(r)`,
		`r > 0 ==> !f(r - 1)`,
		`(forall i int, j int :: 0 <= i && i <= j && j < n && f(i) ==> f(j)) ==> (forall i int :: 0 <= i && i < r ==> !f(i))`}}
	sn := L + 4
	searchOne := func(t *T, n int, v []bool) {
		t.Case()
		f := func(i int) bool { return i >= 0 && i < len(v) && v[i] }
		r := sort.Search(n, f)
		d := fmt.Sprintf("Search(%d, f=%v)=%d", n, v, r)
		e := cSearch.ensures
		t.Check(!(n >= 0) || (0 <= r && r <= n), e[0], "%s", d)
		t.Check(!(r < n) || f(r), e[1], "%s", d)
		t.Check(!(r > 0) || !f(r-1), e[2], "%s", d)
		mono := true
		for i := 0; i < n; i++ {
			for j := i; j < n; j++ {
				if f(i) && !f(j) {
					mono = false
				}
			}
		}
		none := true
		for i := 0; i < r; i++ {
			if f(i) {
				none = false
			}
		}
		t.Check(!mono || none, e[3], "%s", d)
	}
	check("sort.Search with an arbitrary (also non-monotone) predicate, n >= 0", []contract{cSearch},
		fmt.Sprintf("all n in [0, %d] and all 2^n predicates on [0, n)", sn), func(t *T) {
			seqs([]bool{false, true}, sn, func(v []bool) { searchOne(t, len(v), v) })
		})
	check("sort.Search with negative n included (the range clause is conditional on n >= 0)", []contract{cSearch},
		fmt.Sprintf("all n in [-3, %d] and all 2^max(n,0) predicates", min(sn, 8)), func(t *T) {
			for n := -3; n < 0; n++ {
				searchOne(t, n, nil)
			}
			seqs([]bool{false, true}, min(sn, 8), func(v []bool) { searchOne(t, len(v), v) })
		})

	// ---- sort.Slice / sort.SliceStable: engine intrinsic (gocv exec_call.go sortSliceIntrinsic), no spec-file contract:
	//   len and nil-ness unchanged; x is a permutation of old(x) (bijection on the indexes);
	//   forall a < b < len(x): the comparator, evaluated on (b, a) over the FINAL slice, does not return true.
	intr := contract{file: "@gocv/internal/gocv/exec_call.go sortSliceIntrinsic + sortComparatorObligations (sort.Slice, sort.SliceStable)"}
	// The engine first emits the obligations #sort-comparator[N.irreflexive / transitive / ties-transitive] for the literal
	// comparator, for arbitrary indices i, j, k into the slice AS IT IS WHEN sort.Slice IS CALLED. A comparator that fails
	// one of them is rejected, nothing is assumed about it. The check: whenever the three obligations hold (evaluated here
	// over all index triples of the input slice), the three assumptions hold on the result.
	type cmp struct {
		name    string
		less    func(x []string, i, j int) bool
		byValue bool // less(x, i, j) depends on x[i], x[j] only: the obligations over indexes are those over the distinct values
	}
	obligations := func(c cmp, x []string) bool {
		if c.byValue {
			var d []string
			for _, v := range x {
				if !slices.Contains(d, v) {
					d = append(d, v)
				}
			}
			x = d
		}
		n := len(x)
		for i := 0; i < n; i++ {
			if c.less(x, i, i) {
				return false // irreflexive
			}
			for j := 0; j < n; j++ {
				for k := 0; k < n; k++ {
					lij, lji, ljk, lkj, lik, lki := c.less(x, i, j), c.less(x, j, i), c.less(x, j, k), c.less(x, k, j), c.less(x, i, k), c.less(x, k, i)
					if lij && ljk && !lik {
						return false // transitive
					}
					if !lij && !lji && !ljk && !lkj && (lik || lki) {
						return false // ties-transitive
					}
				}
			}
		}
		return true
	}
	sliceOne := func(t *T, c cmp, in []string) (checked bool) {
		if !obligations(c, in) {
			return false // rejected by #sort-comparator: no assumption is made
		}
		for _, stable := range []bool{false, true} {
			t.Case()
			old := slices.Clone(in)
			x := slices.Clone(old)
			what := "sort.Slice"
			if stable {
				what = "sort.SliceStable"
				sort.SliceStable(x, func(i, j int) bool { return c.less(x, i, j) })
			} else {
				sort.Slice(x, func(i, j int) bool { return c.less(x, i, j) })
			}
			d := fmt.Sprintf("%s(%q, %s)=%q (the comparator passes the three #sort-comparator obligations on this input)", what, old, c.name, x)
			t.Check(len(x) == len(old) && (x == nil) == (old == nil), "len and nil-ness unchanged", "%s", d)
			cnt := map[string]int{}
			for _, s := range old {
				cnt[s]++
			}
			for _, s := range x {
				cnt[s]--
			}
			perm := true
			for _, v := range cnt {
				if v != 0 {
					perm = false
				}
			}
			t.Check(perm, "x is a permutation of old(x)", "%s", d)
			ord := true
			for a := 0; a < len(x); a++ {
				for b := a + 1; b < len(x); b++ {
					if c.less(x, b, a) {
						ord = false
					}
				}
			}
			t.Check(ord, "forall a < b: !less(b, a) on the final slice", "%s", d)
		}
		return true
	}
	byVal := func(name string, f func(a, b string) bool) cmp {
		return cmp{name, func(x []string, i, j int) bool { return f(x[i], x[j]) }, true}
	}
	named := []cmp{
		byVal("x[i] < x[j]", func(a, b string) bool { return a < b }),
		byVal("x[i] > x[j]", func(a, b string) bool { return a > b }),
		byVal("len(x[i]) < len(x[j])", func(a, b string) bool { return len(a) < len(b) }),
		byVal("x[i][:1] < x[j][:1] (key with ties)", func(a, b string) bool { return substr(a, 0, 1) < substr(b, 0, 1) }),
		byVal("x[i] <= x[j] (not irreflexive: rejected whenever the slice is non-empty)", func(a, b string) bool { return a <= b }),
		byVal("x[i] != x[j] (not transitive: rejected whenever two values differ)", func(a, b string) bool { return a != b }),
	}
	check("sort.Slice / sort.SliceStable, named comparators on the VALUES (total keys, partial keys with ties, descending, and two that are no strict weak orders): whenever the #sort-comparator obligations hold the result is an ordered permutation",
		[]contract{intr}, fmt.Sprintf(`nil, all slices over {"a" "b" "ab" ""} up to length %d, 100 pseudo-random slices of length 13..72; 6 comparators`, min(k, 6)), func(t *T) {
			for _, c := range named {
				sliceOne(t, c, nil)
				seqs(sdom, min(k, 6), func(in []string) { sliceOne(t, c, in) })
				longInputs(sdom, 100, func(in []string) { sliceOne(t, c, in) })
			}
		})
	rk := min(k-2, 5)
	check("sort.Slice / sort.SliceStable, EVERY comparator that is a relation on the values: all 512 binary relations on three values; whenever the #sort-comparator obligations hold on the input the result is an ordered permutation",
		[]contract{intr}, fmt.Sprintf(`all 512 relations R on {"a" "b" "c"} as comparator R(x[i], x[j]), all slices over the three values up to length %d (cases: the pairs that pass the obligations)`, rk), func(t *T) {
			vals := []string{"a", "b", "c"}
			idx := map[string]int{"a": 0, "b": 1, "c": 2}
			for rel := 0; rel < 512; rel++ {
				rel := rel
				c := cmp{fmt.Sprintf("relation #%03x on (x[i], x[j])", rel), func(x []string, i, j int) bool { return rel>>(3*idx[x[i]]+idx[x[j]])&1 == 1 }, true}
				seqs(vals, rk, func(in []string) { sliceOne(t, c, in) })
			}
		})
	// Comparators that use their index parameters other than as subscripts of the sorted slice (i < j, i > j,
	// x[i] < x[j] || (x[i] == x[j] && i < j)) are OUT OF FRAGMENT in the engine since this validator showed that
	// `i > j` passes the index-wise strict-weak-order obligations without being an order on values
	// (gocv: comparatorUsesIndexesOnlyAsSubscripts). Nothing is modelled for them, so nothing is validated here.

	// ---- slices.Clone / slices.Equal (C16.spec)
	cClone := contract{"C16.spec", "slices", "Clone", 63, []string{`r == s`}}
	cEqual := contract{"C16.spec", "slices", "Equal", 66, []string{`r ==> len(s1) == len(s2)`, `r ==> (forall i int :: 0 <= i && i < len(s1) ==> s1[i] == s2[i])`}}
	ck := min(L-2, 6)
	check("slices.Clone returns the same slice value (length, elements, nil-ness)", []contract{cClone},
		fmt.Sprintf(`nil and all slices over {"a" "b" "ab" ""} up to length %d`, ck), func(t *T) {
			t.Case()
			var nl []string
			t.Check(slices.Clone(nl) == nil, cClone.ensures[0], "Clone(nil) is not nil")
			seqs(sdom, ck, func(in []string) {
				t.Case()
				r := slices.Clone(in)
				same := len(r) == len(in) && (r == nil) == (in == nil)
				for i := 0; same && i < len(r); i++ {
					same = r[i] == in[i]
				}
				t.Check(same, cClone.ensures[0], "Clone(%q)=%q (nil: %v / %v)", in, r, in == nil, r == nil)
			})
		})
	check("slices.Equal implies equal lengths and equal elements", []contract{cEqual},
		fmt.Sprintf(`all pairs of slices (and nil) over {"a" "b"} up to length %d`, min(ck, 5)), func(t *T) {
			var xs [][]string
			xs = append(xs, nil)
			seqs([]string{"a", "b"}, min(ck, 5), func(in []string) { xs = append(xs, slices.Clone(in)) })
			for _, a := range xs {
				for _, b := range xs {
					t.Case()
					t.Check(!slices.Equal(a, b) || len(a) == len(b), cEqual.ensures[0], "Equal(%q,%q)", a, b)
					elementwise := true
					if slices.Equal(a, b) {
						for i := 0; i < len(a) && i < len(b); i++ {
							elementwise = elementwise && a[i] == b[i]
						}
					}
					t.Check(elementwise, cEqual.ensures[1], "Equal(%q,%q) but elements differ", a, b)
				}
			}
		})
}
