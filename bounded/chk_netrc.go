package main

import (
	"encoding/xml"
	"fmt"
	"os"
	"path/filepath"
	"strings"
	"sync"
	"time"

	"github.com/bufbuild/buf/private/bufpkg/bufparse"
	"github.com/bufbuild/buf/private/bufpkg/bufplugin"
	"github.com/bufbuild/buf/private/bufpkg/buftransport"
	netrc "github.com/jdx/go-netrc"
)

// C19_C20_extra.spec (go-netrc, encoding/xml sinks), C09.spec (sync.OnceValue(s), time.Time.IsZero),
// C16_files.spec (string parsers of the repo), buftransport.PrependHTTP(S).
func checksNetrc() {
	const F = "C19_C20_extra.spec"
	const N = "github.com/jdx/go-netrc"
	cParse := contract{F, N, "Parse", 17, []string{`(err == nil) <==> (r != nil)`}}.withNote("pure: also checked that two Parse calls of the same file give the same machines")
	cMachine := contract{F, N, "(Netrc) Machine", 19, []string{
		`r != nil ==> r.Name == name`,
		`parsed-host-named-default-is-empty: r != nil && name == "default" && !r.IsDefault ==> r.Get("password") == "" && r.Get("login") == ""`}}
	words := []string{"machine", "default", "login", "password", "a", "u"}
	seps := []string{" ", "\n"}
	names := []string{"a", "default", "u", "machine", "login", ""}
	machineClauses := func(t *T, n *netrc.Netrc, src string) {
		for _, name := range names {
			m := n.Machine(name)
			t.Check(!(m != nil) || m.Name == name, cMachine.ensures[0], "file %q: Machine(%q).Name=%q", src, name, func() string {
				if m == nil {
					return ""
				}
				return m.Name
			}())
			if m != nil && name == "default" && !m.IsDefault {
				t.Check(m.Get("password") == "" && m.Get("login") == "", cMachine.ensures[1], "file %q: the non-default entry named \"default\" has login %q password %q", src, m.Get("login"), m.Get("password"))
			}
		}
	}
	fn := min(L-4, 4)
	check("netrc.Parse of a file: exactly one of (result, error) is set, and it is deterministic; Machine(name) returns an entry of that name; a parsed host literally named \"default\" carries no login / password",
		[]contract{cParse, cMachine}, fmt.Sprintf("files in a scratch directory: every sequence of 0..%d words over {machine default login password a u} with the separators \" \" and \"\\n\" (alternating), plus comment lines, a missing file and a directory (a truncated `machine` entry makes the library panic: that path ends)", fn), func(t *T) {
			dir, err := os.MkdirTemp("", "bounded-netrc-")
			if err != nil {
				t.Fail("cannot create a scratch directory: %v", err)
				return
			}
			defer os.RemoveAll(dir)
			path := filepath.Join(dir, "netrc")
			one := func(content string) {
				t.Case()
				if err := os.WriteFile(path, []byte(content), 0o600); err != nil {
					t.Fail("write: %v", err)
					return
				}
				defer func() { _ = recover() }() // index out of range inside parse(): the path ends
				r, err := netrc.Parse(path)
				t.Check((err == nil) == (r != nil), cParse.ensures[0], "Parse(file %q)=(%v,%v)", content, r, err)
				if r == nil {
					return
				}
				r2, err2 := netrc.Parse(path)
				same := err2 == nil && r2 != nil && len(r2.Machines()) == len(r.Machines())
				for i := 0; same && i < len(r.Machines()); i++ {
					a, b := r.Machines()[i], r2.Machines()[i]
					same = a.Name == b.Name && a.IsDefault == b.IsDefault && a.Get("login") == b.Get("login") && a.Get("password") == b.Get("password")
				}
				t.Check(same, "pure", "two Parse calls of the file %q differ", content)
				machineClauses(t, r, content)
			}
			seqs(words, fn, func(ws []string) {
				for si := range seps {
					var b strings.Builder
					for i, w := range ws {
						b.WriteString(w)
						b.WriteString(seps[(i+si)%2])
					}
					one(b.String())
				}
			})
			for _, c := range []string{
				"# comment\nmachine default login u password p\n",
				"machine default\n  login u\n  password p\ndefault login x password y\n",
				"machine #c\ndefault login u password p",
				"default login u password p\nmachine default login v password q\n",
				"machine a login default password p\n",
				"machine default login u password p machine default login v password q",
				"machine\tdefault\tlogin\tu\tpassword\tp",
			} {
				one(c)
			}
			t.Case()
			r, err := netrc.Parse(filepath.Join(dir, "missing"))
			t.Check((err == nil) == (r != nil), cParse.ensures[0], "Parse(missing file)=(%v,%v)", r, err)
			t.Case()
			func() {
				defer func() { _ = recover() }()
				r, err = netrc.Parse(dir)
				t.Check((err == nil) == (r != nil), cParse.ensures[0], "Parse(directory)=(%v,%v)", r, err)
			}()
		})
	pn := fn + 2
	check("netrc.Machine on longer token sequences (parsed from text with ParseString, the same lexer and parser as Parse)",
		[]contract{cMachine}, fmt.Sprintf("every sequence of %d..%d words over {machine default login password a u}, blank-separated", fn+1, pn), func(t *T) {
			seqs(words, pn, func(ws []string) {
				if len(ws) <= fn {
					return
				}
				t.Case()
				src := strings.Join(ws, " ")
				defer func() { _ = recover() }()
				n, err := netrc.ParseString(src)
				if err != nil || n == nil {
					return
				}
				machineClauses(t, n, src)
			})
		})

	// ---- encoding/xml sinks
	sink := []string{`ghost.fail == (old(ghost.fail) || err != nil)`, `ghost.wfail == (old(ghost.wfail) || err != nil)`}
	const sinkNote = "ghost-flag clauses; executable content checked: a failure of the underlying writer is reported by this or a later EncodeToken / Flush call (never lost once Flush is called)"
	xNew := contract{F, "encoding/xml", "NewEncoder", 79, []string{`r != nil`}}
	xTok := contract{F, "encoding/xml", "(Encoder) EncodeToken", 70, sink}.withNote(sinkNote)
	xFlush := contract{F, "encoding/xml", "(Encoder) Flush", 74, sink}.withNote(sinkNote)
	check("xml.NewEncoder is non-nil; a failing underlying writer is reported by EncodeToken / Flush (output is buffered: by Flush at the latest)",
		[]contract{xNew, xTok, xFlush}, "a document of 1..40 <testcase> elements with attributes and character data of 0, 10, 5000 bytes, underlying writer failing at call 0(never)..6 in modes (0,err) and (partial,err), with and without Indent", func(t *T) {
			for _, cases := range []int{1, 3, 40} {
				for _, size := range []int{0, 10, 5000} {
					for fail := 0; fail <= 6; fail++ {
						for mode := 0; mode < 2; mode++ {
							for _, indent := range []bool{false, true} {
								if fail == 0 && mode > 0 {
									continue
								}
								t.Case()
								raised := false
								fw := &flakyWriter{fail: fail, mode: mode, raised: &raised}
								enc := xml.NewEncoder(fw)
								t.Check(enc != nil, xNew.ensures[0], "xml.NewEncoder")
								if indent {
									enc.Indent("", "  ")
								}
								reported := false
								note := func(err error) {
									if err != nil {
										reported = true
									}
								}
								suite := xml.StartElement{Name: xml.Name{Local: "testsuite"}, Attr: []xml.Attr{{Name: xml.Name{Local: "name"}, Value: "a\n<b>&\"c\""}}}
								note(enc.EncodeToken(suite))
								for i := 0; i < cases; i++ {
									tc := xml.StartElement{Name: xml.Name{Local: "testcase"}, Attr: []xml.Attr{{Name: xml.Name{Local: "name"}, Value: fmt.Sprint("case", i)}}}
									note(enc.EncodeToken(tc))
									note(enc.EncodeToken(xml.CharData(strings.Repeat("x<", size/2))))
									note(enc.EncodeToken(tc.End()))
								}
								note(enc.EncodeToken(suite.End()))
								note(enc.Flush())
								t.Check(!raised || reported, sink[0], "xml encoder (%d cases, %d bytes, indent %v): underlying Write call %d failed (mode %d) but every EncodeToken / Flush returned nil", cases, size, indent, fail, mode)
							}
						}
					}
				}
			}
		})

	// ---- sync.OnceValue / OnceValues, time.Time.IsZero (C09.spec)
	cOnce := contract{"C09.spec", "sync", "OnceValue", 4, []string{`r != nil`}}
	cOnces := contract{"C09.spec", "sync", "OnceValues", 6, []string{`r != nil`}}
	check("sync.OnceValue / OnceValues return a non-nil function and do not run f", []contract{cOnce, cOnces}, "functions returning int, string, error and (string, error), including a panicking one", func(t *T) {
		ran := 0
		t.Case()
		t.Check(sync.OnceValue(func() int { ran++; return 1 }) != nil, cOnce.ensures[0], "OnceValue(int)")
		t.Case()
		t.Check(sync.OnceValue(func() string { ran++; return "" }) != nil, cOnce.ensures[0], "OnceValue(string)")
		t.Case()
		t.Check(sync.OnceValue(func() error { ran++; panic("x") }) != nil, cOnce.ensures[0], "OnceValue(panicking)")
		t.Case()
		t.Check(sync.OnceValues(func() (string, error) { ran++; return "", errInjected }) != nil, cOnces.ensures[0], "OnceValues")
		t.Case()
		t.Check(ran == 0, "f is not run by the constructor", "the constructors ran f %d times", ran)
	})
	cIsZero := contract{"C09.spec", "time", "(Time) IsZero", 52, nil}
	check("purity only (no ensures clause): time.Time.IsZero is determined by the time value", []contract{cIsZero}, "the zero time, Unix(0,0), Unix times -3..3 s and ns, in UTC and a fixed zone; two evaluations on copies", func(t *T) {
		zone := time.FixedZone("x", 3600)
		ts := []time.Time{{}, time.Unix(0, 0), time.Time{}.In(zone), time.Time{}.Add(1)}
		for s := int64(-3); s <= 3; s++ {
			for ns := int64(-3); ns <= 3; ns++ {
				ts = append(ts, time.Unix(s, ns), time.Unix(s, ns).In(zone), time.Unix(s, ns).UTC())
			}
		}
		for _, x := range ts {
			t.Case()
			y := x
			t.Check(x.IsZero() == y.IsZero() && x.IsZero() == x.IsZero(), "pure", "IsZero(%v)", x)
		}
	})

	// ---- the repo's string parsers (C16_files.spec): a nil error comes with a value
	const P = "github.com/bufbuild/buf/private/bufpkg/"
	cFull := contract{"C16_files.spec", P + "bufparse", "ParseFullName", 145, []string{`err == nil ==> r != nil`}}
	cRef := contract{"C16_files.spec", P + "bufparse", "ParseRef", 147, []string{`err == nil ==> r != nil`}}
	// (bufmodule.ParseDigest is a VERIFIED contract since the fourth round: bufmodule/zz_verif_contracts_r4b.go)
	cPD := contract{"C16_files.spec", P + "bufplugin", "ParseDigest", 105, []string{`err == nil ==> r != nil`}}
	sn := min(L-1, 7)
	check("bufparse.ParseFullName / ParseRef, bufplugin.ParseDigest: a nil error comes with a non-nil value",
		[]contract{cFull, cRef, cPD}, fmt.Sprintf("all strings over {a / : .} up to length %d; digests: the types b4 / b5 / p1 / x with hex values of 0, 2, 63, 64, 65, 128 characters, upper case and non-hex", sn), func(t *T) {
			enum("a/:.", sn, func(s string) {
				t.Case()
				fnm, err := bufparse.ParseFullName(s)
				t.Check(!(err == nil) || fnm != nil, cFull.ensures[0], "ParseFullName(%q)=(%v,%v)", s, fnm, err)
				ref, err := bufparse.ParseRef(s)
				t.Check(!(err == nil) || ref != nil, cRef.ensures[0], "ParseRef(%q)=(%v,%v)", s, ref, err)
			})
			var ds []string
			for _, typ := range []string{"b4", "b5", "p1", "x", "", "shake256"} {
				for _, n := range []int{0, 2, 63, 64, 65, 128} {
					ds = append(ds, typ+":"+strings.Repeat("a", n), typ+":"+strings.Repeat("A", n), typ+":"+strings.Repeat("g", n), typ+strings.Repeat("0", n))
				}
			}
			ds = append(ds, "", ":", "b5", "b5:")
			for _, s := range ds {
				t.Case()
				pd, err := bufplugin.ParseDigest(s)
				t.Check(!(err == nil) || pd != nil, cPD.ensures[0], "bufplugin.ParseDigest(%.20q…)=(%v,%v)", s, pd, err)
			}
		})

	// ---- buftransport.PrependHTTP / PrependHTTPS (verified `pure func` contracts of buftransport/zz_verif_contracts_w.go;
	// checked here as well because other packages use them as specification functions)
	check("buftransport.PrependHTTP(address) == \"http://\" + address, PrependHTTPS(address) == \"https://\" + address",
		[]contract{{file: "@/repo/private/bufpkg/buftransport/zz_verif_contracts_w.go PrependHTTP, PrependHTTPS (verified contracts)"}},
		fmt.Sprintf("all addresses over {a . : / h} up to length %d", sn), func(t *T) {
			enum("a.:/h", sn, func(s string) {
				t.Case()
				t.Check(buftransport.PrependHTTP(s) == "http://"+s, `r == "http://" + address`, "PrependHTTP(%q)=%q", s, buftransport.PrependHTTP(s))
				t.Check(buftransport.PrependHTTPS(s) == "https://"+s, `r == "https://" + address`, "PrependHTTPS(%q)=%q", s, buftransport.PrependHTTPS(s))
			})
		})
}
