package main

import (
	"context"
	"errors"
	"fmt"
	"math"

	"github.com/bufbuild/buf/private/pkg/normalpath"
	"github.com/bufbuild/buf/private/pkg/protoversion"
	"github.com/bufbuild/buf/private/pkg/syserror"
	"github.com/bufbuild/buf/private/pkg/thread"
	"github.com/bufbuild/protoplugin/protopluginutil"
	"google.golang.org/protobuf/proto"
	"google.golang.org/protobuf/types/descriptorpb"
)

// Repo functions (and two third-party ones) that are declared trusted in the spec files and can be called from
// outside their package.
func checksRepo() {
	const R = "repo_trusted.spec"
	const B = "github.com/bufbuild/buf/private/pkg/"

	// ---- normalpath.StripComponents (C14_buckets.spec)
	cStrip := contract{"C14_buckets.spec", B + "normalpath", "StripComponents", 215, []string{
		`countUint32 == 0 ==> ok && r == path`,
		`ok && validRel(path) && path != "." ==> validRel(r) && r != "." && (r == path || hasSuffix(path, "/" + r))`,
		`!ok ==> r == ""`}}
	sn := min(L-1, 7)
	check("normalpath.StripComponents: count 0 is the identity; what is left of a valid relative path is a valid relative path-wise suffix; failure returns \"\"", []contract{cStrip},
		fmt.Sprintf("all strings over {a . /} up to length %d, counts 0..4", sn), func(t *T) {
			enum("a./", sn, func(p string) {
				for c := uint32(0); c <= 4; c++ {
					t.Case()
					r, ok := normalpath.StripComponents(p, c)
					d := fmt.Sprintf("StripComponents(%q,%d)=(%q,%v)", p, c, r, ok)
					t.Check(!(c == 0) || (ok && r == p), cStrip.ensures[0], "%s", d)
					t.Check(!(ok && validRelDef(p) && p != ".") || (validRelDef(r) && r != "." && (r == p || hasSuffix(p, "/"+r))), cStrip.ensures[1], "%s", d)
					t.Check(ok || r == "", cStrip.ensures[2], "%s", d)
				}
			})
		})

	// ---- syserror
	cNew := contract{R, B + "syserror", "New", 65, []string{`r != nil`}}
	cNewf := contract{R, B + "syserror", "Newf", 67, []string{`r != nil`}}
	cWrap := contract{R, B + "syserror", "Wrap", 73, []string{`err != nil ==> r != nil`}}
	plain := errors.New("plain")
	check("syserror.New returns a non-nil error", []contract{cNew}, "all texts over {a % w d} up to length 3", func(t *T) {
		enum("a%wd", 3, func(s string) {
			t.Case()
			t.Check(syserror.New(s) != nil, cNew.ensures[0], "New(%q)", s)
		})
	})
	check("syserror.Newf returns a non-nil error", []contract{cNewf}, "all formats over {a % w d} up to length 3 with the argument lists (), (err), (\"x\", 1)", func(t *T) {
		enum("a%wd", 3, func(s string) {
			for _, as := range [][]any{nil, {plain}, {"x", 1}} {
				t.Case()
				t.Check(syserror.Newf(s, as...) != nil, cNewf.ensures[0], "Newf(%q,%v)", s, as)
			}
		})
	})
	var typedNil *errA
	var typedNilSys *syserror.Error
	wrapOne := func(t *T, e error) {
		t.Case()
		r := syserror.Wrap(e)
		t.Check(!(e != nil) || r != nil, cWrap.ensures[0], "Wrap(%#v)=%#v", e, r)
	}
	nonNil := []error{plain, fmt.Errorf("w: %w", plain), errors.Join(plain, plain), syserror.New("s"), syserror.Wrap(plain), fmt.Errorf("w: %w", syserror.New("s")), error(typedNil), error(typedNilSys)}
	check("syserror.Wrap of a non-nil error is non-nil (nothing is claimed for nil: Wrap(nil) is the non-nil &Error{Underlying: nil})", []contract{cWrap},
		"nil, and plain, %w-wrapped, joined, syserror, wrapped syserror and typed-nil-pointer errors", func(t *T) {
			wrapOne(t, nil)
			for _, e := range nonNil {
				wrapOne(t, e)
			}
		})

	// ---- protoversion: `ok == pkgVersioned(pkg)` with pkgVersioned uninterpreted: ok is a function of pkg alone
	cPV := contract{R, B + "protoversion", "NewPackageVersionForPackage", 61, []string{
		`ghost.versionConsulted`,
		`ok == pkgVersioned(pkg)`}}.withRequires(`no-options: len(options) == 0`).withNote("clause 1 is ghost bookkeeping; clause 2 (uninterpreted pkgVersioned) is checked as: ok is determined by pkg; the contract requires an option-less call (with WithAllowV0 the answer differs), so only such calls are exercised")
	pn := min(L-1, 7)
	check("protoversion.NewPackageVersionForPackage: ok is a function of pkg (option-less calls, as the contract requires)", []contract{cPV},
		fmt.Sprintf("all package names over {a v 1 0 . b(eta)} up to length %d plus 14 realistic names; three calls each", pn), func(t *T) {
			one := func(p string) {
				t.Case()
				_, ok1 := protoversion.NewPackageVersionForPackage(p)
				_, ok2 := protoversion.NewPackageVersionForPackage(p)
				_, ok3 := protoversion.NewPackageVersionForPackage(string(append([]byte{}, p...)))
				t.Check(ok1 == ok2 && ok1 == ok3, cPV.ensures[1], "NewPackageVersionForPackage(%q): ok = %v / %v / %v", p, ok1, ok2, ok3)
			}
			enum("av10.", pn, one)
			for _, p := range []string{"foo.v1", "foo.v1beta1", "foo.v1alpha2", "foo.v1p1beta1", "foo.v1test", "foo.v1testfoo", "foo.bar.v2", "v1", "foo.v0", "foo.v0beta1", "foo.v01", "foo.V1", "foo.v1.bar", "foo.v1beta0"} {
				one(p)
			}
		})

	// ---- thread.Parallelize: a job that fails makes Parallelize fail (the jobs raise ghost.fail exactly when they
	// return non-nil, so `ghost.fail && !old(ghost.fail) ==> err != nil` says: no job error is lost)
	cPar := contract{R, B + "thread", "Parallelize", 9, []string{
		`ghost.fail && !old(ghost.fail) ==> err != nil`,
		`ghost.wfail && !old(ghost.wfail) ==> err != nil`}}.withNote("checked as: if any job that ran returned a non-nil error, Parallelize returns a non-nil error")
	jn := min(L-2, 7)
	check("thread.Parallelize reports the failure of any job that ran", []contract{cPar},
		fmt.Sprintf("all vectors of 0..%d jobs (succeed / fail), parallelism 1 and 4, with and without cancel-on-failure, live and already-cancelled context", jn), func(t *T) {
			defer thread.SetParallelism(thread.Parallelism())
			for _, par := range []int{1, 4} {
				thread.SetParallelism(par)
				for _, cancelOnFailure := range []bool{false, true} {
					for _, cancelled := range []bool{false, true} {
						seqs([]bool{false, true}, jn, func(v []bool) {
							t.Case()
							ran := make([]bool, len(v))
							jobs := make([]func(context.Context) error, len(v))
							for i := range v {
								i := i
								jobs[i] = func(context.Context) error {
									ran[i] = true
									if v[i] {
										return errInjected
									}
									return nil
								}
							}
							ctx, cancel := context.WithCancel(context.Background())
							if cancelled {
								cancel()
							}
							var opts []thread.ParallelizeOption
							if cancelOnFailure {
								opts = append(opts, thread.ParallelizeWithCancelOnFailure())
							}
							err := thread.Parallelize(ctx, jobs, opts...)
							cancel()
							raised := false
							for i := range v {
								if ran[i] && v[i] {
									raised = true
								}
							}
							t.Check(!raised || err != nil, cPar.ensures[0], "Parallelize(jobs failing: %v, parallelism %d, cancelOnFailure %v, cancelled %v) = %v", v, par, cancelOnFailure, cancelled, err)
						})
					}
				}
			}
		})

	// ---- third-party: proto.String, protopluginutil.StripSourceRetentionOptions, OptimizeMode.String
	cProtoString := contract{R, "google.golang.org/protobuf/proto", "String", 41, []string{`r != nil`}}
	check("proto.String returns a non-nil pointer", []contract{cProtoString}, "all strings over {a 0x00} up to length 4", func(t *T) {
		enum("a\x00", 4, func(s string) {
			t.Case()
			r := proto.String(s)
			t.Check(r != nil, cProtoString.ensures[0], "proto.String(%q)", s)
		})
	})
	cStripSRO := contract{R, "github.com/bufbuild/protoplugin/protopluginutil", "StripSourceRetentionOptions", 45, []string{`file != nil && err == nil ==> r != nil`}}
	check("protopluginutil.StripSourceRetentionOptions returns a descriptor when it succeeds on a non-nil file", []contract{cStripSRO},
		"empty file, file with options / messages / fields with and without source-retention options, file with source info", func(t *T) {
			for _, f := range sampleFileDescriptors() {
				t.Case()
				r, err := protopluginutil.StripSourceRetentionOptions(f)
				t.Check(!(f != nil && err == nil) || r != nil, cStripSRO.ensures[0], "StripSourceRetentionOptions(%v)=(%v,%v)", f, r, err)
			}
		})
	check("protopluginutil.StripSourceRetentionOptions on the nil file (nothing is claimed: the result is (nil, nil))", []contract{cStripSRO},
		"the nil file", func(t *T) {
			t.Case()
			defer func() {
				if p := recover(); p != nil {
					// a panic ends the path: nothing is claimed
				}
			}()
			var f *descriptorpb.FileDescriptorProto
			r, err := protopluginutil.StripSourceRetentionOptions(f)
			t.Check(!(f != nil && err == nil) || r != nil, cStripSRO.ensures[0], "StripSourceRetentionOptions(nil)=(%v,%v)", r, err)
		})
	aInj := axiom("C03_pairs.spec", "a_optimize-mode-string-injective", 45, `forall a FileOptions_OptimizeMode, b FileOptions_OptimizeMode :: a.String() == b.String() ==> a == b`)
	check("descriptorpb.FileOptions_OptimizeMode.String is injective", []contract{aInj},
		"all values in [-70000, 70000] and within 3 of MinInt32 / MaxInt32", func(t *T) {
			seen := map[string]descriptorpb.FileOptions_OptimizeMode{}
			one := func(v int32) {
				t.Case()
				m := descriptorpb.FileOptions_OptimizeMode(v)
				s := m.String()
				if o, dup := seen[s]; dup && o != m {
					t.Fail("OptimizeMode(%d).String() == OptimizeMode(%d).String() == %q violates [%s]", o, m, s, aInj.ensures[0])
				}
				seen[s] = m
			}
			for v := int32(-70000); v <= 70000; v++ {
				one(v)
			}
			for d := int32(0); d <= 3; d++ {
				one(math.MinInt32 + d)
				one(math.MaxInt32 - d)
			}
		})
}

func sampleFileDescriptors() []*descriptorpb.FileDescriptorProto {
	src := descriptorpb.FieldOptions_RETENTION_SOURCE
	msg := func(opts *descriptorpb.MessageOptions, fopts *descriptorpb.FieldOptions) *descriptorpb.DescriptorProto {
		return &descriptorpb.DescriptorProto{
			Name:    proto.String("M"),
			Options: opts,
			Field: []*descriptorpb.FieldDescriptorProto{{
				Name: proto.String("f"), Number: proto.Int32(1),
				Type:    descriptorpb.FieldDescriptorProto_TYPE_STRING.Enum(),
				Label:   descriptorpb.FieldDescriptorProto_LABEL_OPTIONAL.Enum(),
				Options: fopts,
			}},
		}
	}
	return []*descriptorpb.FileDescriptorProto{
		{},
		{Name: proto.String("a.proto")},
		{Name: proto.String("a.proto"), Package: proto.String("p"), Options: &descriptorpb.FileOptions{JavaPackage: proto.String("x")}},
		{Name: proto.String("a.proto"), MessageType: []*descriptorpb.DescriptorProto{msg(nil, nil)}},
		{Name: proto.String("a.proto"), MessageType: []*descriptorpb.DescriptorProto{msg(&descriptorpb.MessageOptions{Deprecated: proto.Bool(true)}, &descriptorpb.FieldOptions{Retention: &src})}},
		{Name: proto.String("a.proto"), MessageType: []*descriptorpb.DescriptorProto{msg(nil, &descriptorpb.FieldOptions{Deprecated: proto.Bool(true)})},
			SourceCodeInfo: &descriptorpb.SourceCodeInfo{Location: []*descriptorpb.SourceCodeInfo_Location{{Path: []int32{4, 0}, Span: []int32{1, 1, 2}}}}},
	}
}
