package main

import (
	"fmt"
	"strings"

	"github.com/bufbuild/buf/private/pkg/normalpath"
	"github.com/bufbuild/buf/private/pkg/storage"
)

// Contracts added to the spec files after the first round: strings.LastIndexByte (C01_descriptor.spec), the
// storage matcher constructors (N_extra.spec).
func checksExtra() {
	// toCode(strAt(s, i)) = (str.to_code (str.at s i)): the code of the byte at i, -1 when i is out of range
	codeAt := func(s string, i int) int {
		if i < 0 || i >= len(s) {
			return -1
		}
		return int(s[i])
	}
	strAt := func(s string, i int) string { return substr(s, i, 1) }
	cLIB := contract{"C01_descriptor.spec", "strings", "LastIndexByte", 187, []string{
		`-1 <= r && r < len(s)`,
		`r >= 0 ==> toCode(strAt(s, r)) == c && !contains(substr(s, r + 1, len(s)), strAt(s, r))`,
		`r == -1 ==> (forall j int :: 0 <= j && j < len(s) ==> toCode(strAt(s, j)) != c)`}}
	ln := min(L, 8)
	check("strings.LastIndexByte: index of the last occurrence of the byte, -1 if there is none", []contract{cLIB},
		fmt.Sprintf("all s over {a . / 0xff} up to length %d, c in {'a' '.' '/' 0xff 'b' 0x00}", ln), func(t *T) {
			enum("a./\xff", ln, func(s string) {
				for _, c := range []byte{'a', '.', '/', 0xff, 'b', 0} {
					t.Case()
					r := strings.LastIndexByte(s, c)
					d := fmt.Sprintf("LastIndexByte(%q, %#x)=%d", s, c, r)
					t.Check(-1 <= r && r < len(s), cLIB.ensures[0], "%s", d)
					t.Check(!(r >= 0) || (codeAt(s, r) == int(c) && !contains(substr(s, r+1, len(s)), strAt(s, r))), cLIB.ensures[1], "%s", d)
					none := true
					for j := 0; j < len(s); j++ {
						if codeAt(s, j) == int(c) {
							none = false
						}
					}
					t.Check(!(r == -1) || none, cLIB.ensures[2], "%s", d)
				}
			})
		})

	const S = "github.com/bufbuild/buf/private/pkg/storage"
	cExt := contract{"N_extra.spec", S, "MatchPathExt", 80, []string{`r != nil && (forall p string :: r.MatchPath(p) <==> normalpath.Ext(p) == ext)`}}
	cEq := contract{"N_extra.spec", S, "MatchPathEqual", 82, []string{`r != nil && (forall p string :: r.MatchPath(p) <==> p == equalPath)`}}
	cOr := contract{"N_extra.spec", S, "MatchOr", 84, []string{`r != nil && (forall p string :: r.MatchPath(p) <==> (exists j int :: 0 <= j && j < len(matchers) && matchers[j].MatchPath(p)))`}}
	pn := min(L-2, 6)
	paths := all("a./", pn)
	params := all("a./", 3)
	check("storage.MatchPathExt / MatchPathEqual: the matcher accepts exactly the paths with that extension / that path (normalpath.Ext read as the real function, it is verified elsewhere)",
		[]contract{cExt, cEq}, fmt.Sprintf("every parameter over {a . /} up to length 3, every path p over {a . /} up to length %d", pn), func(t *T) {
			for _, x := range params {
				me, mq := storage.MatchPathExt(x), storage.MatchPathEqual(x)
				if me == nil || mq == nil {
					t.Fail("MatchPathExt(%q) / MatchPathEqual(%q) returned nil", x, x)
					continue
				}
				for _, p := range paths {
					t.Case()
					t.Check(me.MatchPath(p) == (normalpath.Ext(p) == x), cExt.ensures[0], "MatchPathExt(%q).MatchPath(%q)=%v, Ext=%q", x, p, me.MatchPath(p), normalpath.Ext(p))
					t.Check(mq.MatchPath(p) == (p == x), cEq.ensures[0], "MatchPathEqual(%q).MatchPath(%q)=%v", x, p, mq.MatchPath(p))
				}
			}
		})
	check("storage.MatchOr accepts a path iff one of its matchers does", []contract{cOr},
		fmt.Sprintf("no matcher, and all lists of 1..3 matchers over {Ext(\".a\"), Ext(\"\"), Equal(\"a\"), Equal(\"a/a\"), Or()}, every path over {a . /} up to length %d", min(pn, 5)), func(t *T) {
			ms := []storage.Matcher{storage.MatchPathExt(".a"), storage.MatchPathExt(""), storage.MatchPathEqual("a"), storage.MatchPathEqual("a/a"), storage.MatchOr()}
			ps := all("a./", min(pn, 5))
			seqs(ms, 3, func(list []storage.Matcher) {
				r := storage.MatchOr(list...)
				if r == nil {
					t.Fail("MatchOr of %d matchers returned nil", len(list))
					return
				}
				for _, p := range ps {
					t.Case()
					ex := false
					for j := 0; j < len(list); j++ {
						if list[j].MatchPath(p) {
							ex = true
						}
					}
					t.Check(r.MatchPath(p) == ex, cOr.ensures[0], "MatchOr(%d matchers).MatchPath(%q)=%v", len(list), p, r.MatchPath(p))
				}
			})
		})
}
