package main

import (
	"bufio"
	"bytes"
	"fmt"
	"io"
	"path/filepath"
	"strings"
	"unicode"
	"unicode/utf8"

	"github.com/bufbuild/buf/private/pkg/normalpath"
)

// The ScanLines tokens of a text as /verif/specs/C17_writer.spec describes v_splitLines: "\n"-separated, one
// trailing "\r" stripped, no empty last token. Own implementation (not bufio).
func specSplitLines(s string) []string {
	var out []string
	for len(s) > 0 {
		i := indexOf(s, "\n")
		line := s
		if i >= 0 {
			line, s = s[:i], s[i+1:]
		} else {
			s = ""
		}
		if hasSuffix(line, "\r") {
			line = line[:len(line)-1]
		}
		out = append(out, line)
	}
	return out
}

// C17_writer.spec: the bufio.Scanner line model, strings.NewReader, bytes.Contains, utf8.DecodeRune, unicode.IsSpace,
// the axioms v_join-normalized-name, v_decode-content, v_str-newline; C20.spec axiom w_ghaEsc-one-line.
func checksWriter() {
	const F = "C17_writer.spec"
	cNewScanner := contract{F, "bufio", "NewScanner", 25, []string{
		`sc != nil && !(sc in old(ghost.v_scanPos))`,
		`ghost.v_scanPos == put(old(ghost.v_scanPos), sc, 0)`,
		`ghost.v_scanEnded == put(old(ghost.v_scanEnded), sc, false)`,
		`v_linesOf(sc) == v_readerLines(r) && v_scanEnd(sc) == v_readerEnd(r)`,
		`0 <= v_scanEnd(sc) && v_scanEnd(sc) <= len(v_linesOf(sc))`}}
	cScan := contract{F, "bufio", "(Scanner) Scan", 31, []string{
		`ok == (old(ghost.v_scanPos)[this] < v_scanEnd(this))`,
		`ghost.v_scanPos == put(old(ghost.v_scanPos), this, old(ghost.v_scanPos)[this] + ite(ok, 1, 0))`,
		`ghost.v_scanEnded == put(old(ghost.v_scanEnded), this, !ok)`}}.withRequires(`not-after-the-end: !ghost.v_scanEnded[this]`)
	cBytes := contract{F, "bufio", "(Scanner) Bytes", 35, []string{
		`ghost.v_scanPos[this] >= 1 && !ghost.v_scanEnded[this] ==> v_str(b) == v_linesOf(this)[ghost.v_scanPos[this] - 1]`}}
	cErr := contract{F, "bufio", "(Scanner) Err", 37, []string{
		`ghost.v_scanEnded[this] ==> ((err == nil) <==> v_scanEnd(this) == len(v_linesOf(this)))`}}
	cNewReader := contract{F, "strings", "NewReader", 41, []string{
		`r != nil && v_readerLines(r) == v_splitLines(s) && v_readerEnd(r) == v_textEnd(s)`}}
	scanNote := "v_linesOf / v_scanEnd / v_readerLines / v_readerEnd / v_textEnd are uninterpreted: read as linesOf := v_splitLines(text) (documented: the \"\\n\"-separated pieces, one trailing \"\\r\" stripped, no empty last piece; own implementation), scanEnd := the number of lines the real scanner delivers; ghost.v_scanPos[sc] := number of successful Scan calls so far, ghost.v_scanEnded[sc] := the last Scan returned false (Scan requires !v_scanEnded: no Scan call is made after the first false one)"
	for _, c := range []contract{cNewScanner, cScan, cBytes, cErr, cNewReader} {
		notes[c.key()] = scanNote
	}

	// texts: all short strings over {a \r \n}, and texts with a line around the 64 KiB token limit
	tn := min(L-1, 7)
	var texts []string
	enum("a\r\n", tn, func(s string) { texts = append(texts, s) })
	big := func(n int) string { return strings.Repeat("x", n) }
	long := []string{
		"ab\n" + big(65535) + "\ncd\n",               // the longest line that fits together with its newline
		"ab\n" + big(65536) + "\ncd\n",               // too long: the scan stops after "ab" with ErrTooLong
		"ab\n" + big(70000) + "\ncd\n",               // > 64 KiB
		big(100000),                                  // a single over-long line without newline
		"ab\r\n" + big(65534) + "\r\ncd",             // "\r" counts for the limit, is stripped from the token
		"ab\n" + big(4096) + "\n" + big(5000) + "\n", // beyond the initial 4096-byte buffer
	}
	type run struct {
		text      string
		delivered []string // tokens of the successful Scan calls
		okSeq     []bool   // results of all Scan calls (3 more after the first false)
		bytesSeq  []string // string(Bytes()) after each Scan call
		errSeq    []error  // Err() before the first Scan and after each Scan call
	}
	scanAll := func(text string, r io.Reader) run {
		sc := bufio.NewScanner(r)
		x := run{text: text}
		x.errSeq = append(x.errSeq, sc.Err())
		falses := 0
		for falses < 3 {
			ok := sc.Scan()
			x.okSeq = append(x.okSeq, ok)
			b := string(sc.Bytes())
			x.bytesSeq = append(x.bytesSeq, b)
			x.errSeq = append(x.errSeq, sc.Err())
			if ok {
				x.delivered = append(x.delivered, b)
			} else {
				falses++
			}
		}
		return x
	}
	bound := fmt.Sprintf("all texts over {a \\r \\n} up to length %d and 6 texts with lines of 4096..100000 bytes (around bufio.MaxScanTokenSize = 65536); every Scan call up to three calls past the first false", tn)
	short := func(s string) string {
		if len(s) > 40 {
			return fmt.Sprintf("%q…(%d bytes)", s[:20], len(s))
		}
		return fmt.Sprintf("%q", s)
	}

	// first: the number of Scan calls up to and including the first false; end: the successful ones before it
	upToFirstFalse := func(x run) (first, end int) {
		for i, ok := range x.okSeq {
			if !ok {
				return i + 1, i
			}
		}
		return len(x.okSeq), len(x.okSeq)
	}
	allTexts := append(append([]string{}, texts...), long...)
	runs := make([]run, len(allTexts))
	for i, s := range allTexts {
		runs[i] = scanAll(s, strings.NewReader(s))
	}
	usual := "; the scanner is used as in `for sc.Scan() { sc.Bytes() }; sc.Err()`: nothing is called between/after except as stated"
	check("bufio.NewScanner / Scan over strings.NewReader(s), up to the first false: the delivered tokens are a prefix of the lines of s, Scan is true exactly while lines are left to deliver",
		[]contract{cNewScanner, cScan, cNewReader}, bound+usual, func(t *T) {
			seen := map[*bufio.Scanner]bool{}
			for i, s := range allTexts {
				t.Case()
				r := strings.NewReader(s)
				t.Check(r != nil, cNewReader.ensures[0], "strings.NewReader(%s)", short(s))
				sc := bufio.NewScanner(r)
				t.Check(sc != nil && !seen[sc], cNewScanner.ensures[0], "NewScanner returned nil or a live scanner")
				seen[sc] = true
				x := runs[i]
				lines := specSplitLines(s)
				first, end := upToFirstFalse(x) // end = v_scanEnd
				okPrefix := end <= len(lines)
				for i := 0; okPrefix && i < end; i++ {
					okPrefix = x.bytesSeq[i] == lines[i]
				}
				t.Check(okPrefix, cNewScanner.ensures[4]+" / "+cNewReader.ensures[0], "Scanner over %s delivered %d tokens %.80q, the text has the %d lines %.80q", short(s), end, x.bytesSeq[:end], len(lines), lines)
				pos := 0
				for i, ok := range x.okSeq[:first] {
					t.Check(ok == (pos < end), cScan.ensures[0], "Scanner over %s: Scan call %d returned %v at position %d of %d", short(s), i+1, ok, pos, end)
					if ok {
						pos++
					}
				}
				// a second scanner over an equal text behaves identically (v_splitLines / v_textEnd are functions of s)
				y := scanAll(s, strings.NewReader(string(append([]byte{}, s...))))
				_, end2 := upToFirstFalse(y)
				same := end2 == end
				for i := 0; same && i < end; i++ {
					same = x.bytesSeq[i] == y.bytesSeq[i]
				}
				t.Check(same, cNewReader.ensures[0], "two scanners over equal texts %s differ", short(s))
			}
		})
	check("bufio.Scanner.Bytes after a SUCCESSFUL Scan is the line just delivered",
		[]contract{cBytes}, bound+usual, func(t *T) {
			for i, s := range allTexts {
				t.Case()
				x := runs[i]
				lines := specSplitLines(s)
				_, end := upToFirstFalse(x)
				for pos := 1; pos <= end; pos++ {
					t.Check(pos <= len(lines) && x.bytesSeq[pos-1] == lines[pos-1], cBytes.ensures[0], "Scanner over %s: Bytes() after successful Scan %d is %.60q", short(s), pos, x.bytesSeq[pos-1])
				}
			}
		})
	check("bufio.Scanner.Bytes at every moment of the protocol (after NewScanner, after every Scan up to and including the first false one): the clause speaks only while v_scanPos >= 1 and the scan has not ended",
		[]contract{cBytes}, bound+"; Bytes() after every Scan call up to the first false (no Scan after that: Scan requires !v_scanEnded)", func(t *T) {
			for i, s := range allTexts {
				t.Case()
				x := runs[i]
				lines := specSplitLines(s)
				first, _ := upToFirstFalse(x)
				pos := 0
				for j := 0; j < first; j++ {
					ok := x.okSeq[j]
					if ok {
						pos++
					}
					ended := !ok
					t.Check(!(pos >= 1 && !ended) || (pos <= len(lines) && x.bytesSeq[j] == lines[pos-1]), cBytes.ensures[0], "Scanner over %s: after Scan call %d (= %v, v_scanPos %d) Bytes() is %.40q", short(s), j+1, ok, pos, x.bytesSeq[j])
				}
			}
		})
	check("bufio.Scanner.Err right after the first false Scan (v_scanEnded): nil iff every line was delivered",
		[]contract{cErr}, bound+usual, func(t *T) {
			for i, s := range allTexts {
				t.Case()
				x := runs[i]
				lines := specSplitLines(s)
				first, end := upToFirstFalse(x)
				final := x.errSeq[first]
				t.Check((final == nil) == (end == len(lines)), cErr.ensures[0], "Scanner over %s: delivered %d of %d lines, Err() after the false Scan = %v", short(s), end, len(lines), final)
			}
		})
	check("bufio.Scanner.Err at every moment of the protocol: the clause speaks only once the scan has ended (v_scanEnded: the last Scan returned false)",
		[]contract{cErr}, bound+"; Err() before the first Scan and after every Scan up to the first false", func(t *T) {
			for i, s := range allTexts {
				t.Case()
				x := runs[i]
				lines := specSplitLines(s)
				first, end := upToFirstFalse(x)
				for j := 0; j <= first; j++ {
					ended := j >= 1 && !x.okSeq[j-1]
					t.Check(!ended || ((x.errSeq[j] == nil) == (end == len(lines))), cErr.ensures[0], "Scanner over %s (delivers %d of %d lines): Err() after %d Scan calls is %v", short(s), end, len(lines), j, x.errSeq[j])
				}
			}
		})
	check("bufio.Scanner over a FAILING reader (v_readerLines / v_readerEnd uninterpreted): right after the first false Scan, Err() != nil iff the reader failed (a failed reader means v_scanEnd < len(v_linesOf))",
		[]contract{cNewScanner, cScan, cErr}, "texts \"a\\nb\\nc\\n\", \"a\\nb\", \"\", chunks 1/2/64, reader failing at call 0(never)..6 with and without data", func(t *T) {
			for _, s := range []string{"a\nb\nc\n", "a\nb", ""} {
				for _, chunk := range []int{1, 2, 64} {
					for fail := 0; fail <= 6; fail++ {
						for _, withData := range []bool{false, true} {
							t.Case()
							raised := false
							x := scanAll(s, &flakyReader{data: []byte(s), chunk: chunk, fail: fail, withData: withData, raised: &raised})
							first, _ := upToFirstFalse(x)
							final := x.errSeq[first]
							t.Check((final != nil) == raised, cErr.ensures[0], "text %q chunk %d: reader failed=%v but final Err()=%v (a failed reader means not all lines are delivered)", s, chunk, raised, final)
						}
					}
				}
			}
		})

	// ---- bytes.Contains, utf8.DecodeRune, unicode.IsSpace, bytes.Equal
	cContains := contract{F, "bytes", "Contains", 45, []string{`r == contains(v_str(b), v_str(subslice))`}}
	bn := min(L-2, 6)
	check("bytes.Contains is the builtin contains on the texts of the two slices", []contract{cContains},
		fmt.Sprintf("b: nil and all byte strings over {a b 0xff} up to length %d; subslice: nil and all over {a b 0xff} up to length 3", bn), func(t *T) {
			bs := append([]string{"\x00nil"}, all("ab\xff", bn)...)
			ss := append([]string{"\x00nil"}, all("ab\xff", 3)...)
			mk := func(s string) []byte {
				if s == "\x00nil" {
					return nil
				}
				return []byte(s)
			}
			for _, b := range bs {
				for _, sub := range ss {
					t.Case()
					bb, sb := mk(b), mk(sub)
					t.Check(bytes.Contains(bb, sb) == contains(string(bb), string(sb)), cContains.ensures[0], "bytes.Contains(%q,%q)", bb, sb)
				}
			}
		})
	cDecode := contract{F, "unicode/utf8", "DecodeRune", 50, []string{
		`len(p) > 0 ==> 1 <= size && size <= len(p)`,
		`len(p) == 0 ==> size == 0`}}
	aDecode := axiom(F, "v_decode-content", 197, `forall b []byte, in []byte :: v_suffixOf(b, in) ==> first(utf8.DecodeRune(b)) == v_runeAt(in, len(in) - len(b)) && second(utf8.DecodeRune(b)) == v_runeSize(in, len(in) - len(b))`)
	dalpha := []byte{0x00, 'a', ' ', 0x7f, 0x80, 0xbf, 0xc2, 0xc3, 0xe0, 0xe2, 0xed, 0xf0, 0xf4, 0xff, 0xa0, 0x85}
	dn := 3
	if L >= 9 {
		dn = 4
	}
	var dinputs [][]byte
	var drec func(p []byte)
	drec = func(p []byte) {
		dinputs = append(dinputs, append([]byte{}, p...))
		if len(p) == dn {
			return
		}
		for _, c := range dalpha {
			drec(append(p, c))
		}
	}
	drec(nil)
	dbound := fmt.Sprintf("nil and all byte strings over 16 selected bytes (% x: ASCII, continuation bytes, 2/3/4-byte leads, invalid leads) up to length %d", dalpha, dn)
	check("utf8.DecodeRune: size is 0 for the empty slice and within [1, len(p)] otherwise", []contract{cDecode}, dbound, func(t *T) {
		t.Case()
		_, s0 := utf8.DecodeRune(nil)
		t.Check(s0 == 0, cDecode.ensures[1], "DecodeRune(nil) size %d", s0)
		for _, p := range dinputs {
			t.Case()
			r, size := utf8.DecodeRune(p)
			t.Check(!(len(p) > 0) || (1 <= size && size <= len(p)), cDecode.ensures[0], "DecodeRune(% x)=(%#x,%d)", p, r, size)
			t.Check(!(len(p) == 0) || size == 0, cDecode.ensures[1], "DecodeRune(% x)=(%#x,%d)", p, r, size)
		}
	})
	check("utf8.DecodeRune is a function of the byte content of its argument (sub-slice of in at every offset vs. independent copies)", []contract{aDecode}, dbound+", every offset", func(t *T) {
		for _, in := range dinputs {
			for off := 0; off <= len(in); off++ {
				t.Case()
				b := in[off:]
				other := append(append(make([]byte, 0, len(b)+5), 0xaa, 0xbb), b...)[2:]
				r1, s1 := utf8.DecodeRune(b)
				r2, s2 := utf8.DecodeRune(other)
				r3, s3 := utf8.DecodeRune(b)
				t.Check(r1 == r2 && s1 == s2 && r1 == r3 && s1 == s3, aDecode.ensures[0], "DecodeRune(% x at offset %d): (%#x,%d) / (%#x,%d) / (%#x,%d)", in, off, r1, s1, r2, s2, r3, s3)
			}
		}
	})
	cIsSpace := contract{F, "unicode", "IsSpace", 54, nil}
	cEqual := contract{"C09.spec", "bytes", "Equal", 10, nil}
	check("purity only (no ensures clause): unicode.IsSpace and bytes.Equal are determined by the argument values", []contract{cIsSpace, cEqual},
		"all runes in [-2, 0x3100] and 6 larger ones; all pairs of byte strings (and nil) over {a b} up to length 3 in separate memory", func(t *T) {
			for r := rune(-2); r <= 0x3100; r++ {
				t.Case()
				t.Check(unicode.IsSpace(r) == unicode.IsSpace(r+0), "pure", "IsSpace(%#x)", r)
			}
			for _, r := range []rune{0xfeff, 0xfffd, 0x10000, 0x10ffff, 0x110000, 0x7fffffff} {
				t.Case()
				t.Check(unicode.IsSpace(r) == unicode.IsSpace(r+0), "pure", "IsSpace(%#x)", r)
			}
			xs := all("ab", 3)
			for _, a := range xs {
				for _, b := range xs {
					t.Case()
					r1 := bytes.Equal([]byte(a), []byte(b))
					r2 := bytes.Equal(append(make([]byte, 0, 9), a...), append(make([]byte, 0, 7), b...))
					t.Check(r1 == r2 && r1 == (a == b), "pure", "bytes.Equal(%q,%q): %v / %v", a, b, r1, r2)
				}
			}
			t.Case()
			t.Check(bytes.Equal(nil, []byte{}) == bytes.Equal([]byte{}, nil), "pure", "bytes.Equal(nil, empty)")
		})
	aNewline := axiom(F, "v_str-newline", 206, `forall b []byte :: len(b) == 1 && b[0] == 10 ==> v_str(b) == "\n"`)
	check("the text of a one-byte slice holding 10 is \"\\n\" (bstr read as string(b))", []contract{aNewline}, "the one-byte slices with every value 0..255, in two capacities", func(t *T) {
		for v := 0; v < 256; v++ {
			for _, c := range []int{1, 8} {
				t.Case()
				b := append(make([]byte, 0, c), byte(v))
				t.Check(!(len(b) == 1 && b[0] == 10) || string(b) == "\n", aNewline.ensures[0], "b=% x", b)
			}
		}
	})

	// ---- axiom v_join-normalized-name (ported from the author's /tmp/ca/V/bv/main.go; Normalize is the real
	// normalpath.Normalize, which is verified elsewhere to be ToSlash(Clean))
	aJoin := axiom(F, "v_join-normalized-name", 141, `forall a string, n1 string, n2 string :: validRel(normalpath.Normalize(n1)) && normalpath.Normalize(n1) != "." && normalpath.Normalize(n1) == normalpath.Normalize(n2) ==> filepath.Join(a, n1) == filepath.Join(a, n2)`)
	an, nn := min(L-3, 5), min(L-1, 7)
	check("filepath.Join(a, n1) == filepath.Join(a, n2) for two spellings of the same valid, non-\".\" relative name", []contract{aJoin},
		fmt.Sprintf("a over {a . /} up to length %d, names over {a . /} up to length %d grouped by their normal form: every name against the first of its group, and all pairs within groups of names up to length 4", an, nn), func(t *T) {
			byNorm := map[string][]string{}
			var order []string
			enum("a./", nn, func(n string) {
				c := normalpath.Normalize(n)
				if validRelDef(c) && c != "." {
					if _, ok := byNorm[c]; !ok {
						order = append(order, c)
					}
					byNorm[c] = append(byNorm[c], n)
				}
			})
			as := all("a./", an)
			for _, a := range as {
				for _, c := range order {
					g := byNorm[c]
					j0 := filepath.Join(a, g[0])
					for _, n := range g[1:] {
						t.Case()
						t.Check(filepath.Join(a, n) == j0, aJoin.ensures[0], "a=%q n1=%q n2=%q: Join gives %q and %q", a, g[0], n, j0, filepath.Join(a, n))
					}
					for i, n1 := range g {
						if len(n1) > 4 {
							continue
						}
						for _, n2 := range g[i+1:] {
							if len(n2) <= 4 {
								t.Case()
								t.Check(filepath.Join(a, n1) == filepath.Join(a, n2), aJoin.ensures[0], "a=%q n1=%q n2=%q", a, n1, n2)
							}
						}
					}
				}
			}
		})

	// ---- C20.spec axiom w_ghaEsc-one-line (a fact about str.replace_all; ghaEsc evaluated with the SMT-LIB meaning)
	aGha := axiom("C20.spec", "w_ghaEsc-one-line", 23, `forall s string :: !contains(ghaEsc(s), "\n")`)
	ghaEsc := func(s string) string {
		return replaceAllSMT(replaceAllSMT(replaceAllSMT(s, "%", "%25"), "\r", "%0D"), "\n", "%0A")
	}
	gn := min(L+1, 9)
	check("ghaEsc(s) = replaceAll(replaceAll(replaceAll(s, \"%\", \"%25\"), \"\\r\", \"%0D\"), \"\\n\", \"%0A\") contains no \"\\n\" (and equals the three strings.ReplaceAll calls of the printer)", []contract{aGha},
		fmt.Sprintf("all s over {a %% \\r \\n} up to length %d", gn), func(t *T) {
			enum("a%\r\n", gn, func(s string) {
				t.Case()
				e := ghaEsc(s)
				t.Check(!contains(e, "\n"), aGha.ensures[0], "ghaEsc(%q)=%q", s, e)
				goE := strings.ReplaceAll(strings.ReplaceAll(strings.ReplaceAll(s, "%", "%25"), "\r", "%0D"), "\n", "%0A")
				if goE != e {
					t.Fail("ghaEsc(%q): SMT-LIB replace_all gives %q, strings.ReplaceAll gives %q", s, e, goE)
				}
			})
		})
}
