package main

// Locating the trusted contracts in the spec files: every check names the declaration it validates by
// file:line (looked up at run time, so edits of the spec files do not leave stale line numbers behind) and
// compares the clause texts it was translated from with the current ones. Also: the inventory behind --coverage.

import (
	"fmt"
	"os"
	"path/filepath"
	"regexp"
	"sort"
	"strings"
)

// contract: a trusted declaration a check was translated from.
type contract struct {
	file    string   // relative to the specs directory
	pkg     string   // package context ("" for axioms)
	decl    string   // "Split", "(Buffer) WriteString", or "axiom NAME"
	line    int      // line of the declaration when the check was written (fallback when the specs are not found)
	ensures []string // the ensures clauses, verbatim
}

func axiom(file, name string, line int, body string) contract {
	return contract{file, "", "axiom " + name, line, []string{body}}
}

func (c contract) key() string { return c.file + "|" + c.pkg + "|" + c.decl }

var notes = map[string]string{}

var requiresOf = map[string][]string{}

// withRequires records the requires clauses the check honours (its inputs are restricted to them); compared with
// the spec file like the ensures clauses.
func (c contract) withRequires(rs ...string) contract { requiresOf[c.key()] = rs; return c }

// withNote attaches a remark shown in COVERAGE.md (e.g. which clauses have no executable content).
func (c contract) withNote(s string) contract { notes[c.key()] = s; return c }

func (c contract) short() string {
	if strings.HasPrefix(c.decl, "axiom ") {
		return c.decl
	}
	p := c.pkg
	if i := strings.LastIndex(p, "/"); i >= 0 && strings.Contains(p, ".") {
		p = p[i+1:]
	}
	return p + "." + c.decl
}

// decl: a trusted declaration found in a spec / contract file.
type decl struct {
	file     string
	line     int
	pkg      string
	kind     string
	sig      string
	name     string
	ensures  []string
	requires []string
}

func (d *decl) key() string { return d.file + "|" + d.pkg + "|" + d.name }

var (
	specDir   string
	specDecls []*decl
	declByKey = map[string]*decl{}
	declRe    = regexp.MustCompile(`^(trusted\s+(?:pure\s+|iterator\s+)*func|trusted pure interface|axiom)\s+(.*)$`)
	nameRe    = regexp.MustCompile(`^((?:\([^)]*\)\s*)?[\w.]+)\s*\(`)
	clauseKw  = map[string]bool{"ensures": true, "requires": true, "modifies": true, "property": true, "use": true, "reveal": true,
		"callback": true, "yields": true, "begins": true, "where": true, "mayfail": true, "loop": true, "canary": true, "ghost": true,
		"ends": true, "each": true, "closure": true, "inline": true, "assert": true}
	wsRe = regexp.MustCompile(`\s+`)
)

func norm(s string) string { return strings.TrimSpace(wsRe.ReplaceAllString(s, " ")) }

// scan parses the declarations of one file. strip removes the comment prefix of contract lines in .go files
// (returns ok=false for lines that are not contract lines).
func scan(display string, text string, pkg string, strip func(string) (string, bool)) []*decl {
	var out []*decl
	lines := strings.Split(text, "\n")
	for i := 0; i < len(lines); i++ {
		l, ok := strip(lines[i])
		if !ok {
			continue
		}
		if strings.HasPrefix(l, "package ") {
			if f := strings.Fields(l); len(f) >= 2 {
				pkg = f[1]
			}
			continue
		}
		m := declRe.FindStringSubmatch(l)
		if m == nil {
			continue
		}
		d := &decl{file: display, line: i + 1, pkg: pkg, kind: norm(m[1]), sig: strings.TrimSpace(m[2])}
		switch {
		case d.kind == "axiom":
			j := strings.Index(d.sig, ":")
			if j < 0 {
				continue
			}
			d.name, d.pkg = "axiom "+strings.TrimSpace(d.sig[:j]), ""
			d.ensures = []string{norm(d.sig[j+1:])}
		case d.kind == "trusted pure interface":
			d.name = "interface " + d.sig
		default:
			if nm := nameRe.FindStringSubmatch(d.sig); nm != nil {
				d.name = norm(nm[1])
			} else {
				d.name = d.sig
			}
		}
		var cur *[]string
		for i+1 < len(lines) {
			l2, ok := strip(lines[i+1])
			if !ok || !(strings.HasPrefix(l2, " ") || strings.HasPrefix(l2, "\t")) || strings.TrimSpace(l2) == "" {
				break
			}
			i++
			s := norm(l2)
			if strings.HasPrefix(s, "#") || strings.HasPrefix(s, "//") { // a comment line inside the contract
				continue
			}
			w := strings.Fields(s)[0]
			switch {
			case w == "ensures":
				d.ensures = append(d.ensures, norm(strings.TrimPrefix(s, "ensures")))
				cur = &d.ensures
			case w == "requires":
				d.requires = append(d.requires, norm(strings.TrimPrefix(s, "requires")))
				cur = &d.requires
			case clauseKw[w]:
				cur = nil
			default:
				if cur != nil && len(*cur) > 0 {
					(*cur)[len(*cur)-1] += " " + s
				}
			}
		}
		out = append(out, d)
	}
	return out
}

func loadSpecs(dir string) {
	cands := []string{dir}
	if dir == "" {
		cands = nil
		if exe, err := os.Executable(); err == nil {
			cands = append(cands, filepath.Join(filepath.Dir(exe), "..", "specs"))
		}
		cands = append(cands, "/verif/specs")
	}
	for _, c := range cands {
		if st, err := os.Stat(c); err == nil && st.IsDir() {
			specDir = c
			break
		}
	}
	if specDir == "" {
		return
	}
	files, _ := filepath.Glob(filepath.Join(specDir, "*.spec"))
	more, _ := filepath.Glob(filepath.Join(specDir, "std", "*.spec"))
	files = append(files, more...)
	sort.Strings(files)
	for _, f := range files {
		data, err := os.ReadFile(f)
		if err != nil {
			continue
		}
		rel, _ := filepath.Rel(specDir, f)
		ds := scan(rel, string(data), "", func(l string) (string, bool) { return l, true })
		for _, d := range ds {
			specDecls = append(specDecls, d)
			if _, dup := declByKey[d.key()]; !dup {
				declByKey[d.key()] = d
			}
		}
	}
}

// describe renders the contracts of a check as "file:line pkg.Func, ..." and lists the differences between the
// clause texts the check was translated from and the current spec files.
func describe(cs []contract) (string, []string, []string) {
	var names, stale, keys []string
	for _, c := range cs {
		if strings.HasPrefix(c.file, "@") { // not a spec-file contract (engine intrinsic): a literal label
			names = append(names, c.file[1:])
			keys = append(keys, c.file)
			continue
		}
		line := fmt.Sprint(c.line)
		origKey := c.key()
		if specDir != "" {
			d := declByKey[c.key()]
			if d == nil { // moved to another spec file? accept a unique declaration of the same function elsewhere
				var found []*decl
				for _, x := range specDecls {
					if x.pkg == c.pkg && x.name == c.decl {
						found = append(found, x)
					}
				}
				if len(found) == 1 {
					d = found[0]
					if n, ok := notes[c.key()]; ok {
						notes[d.key()] = n
					}
					c.file = d.file
				}
			}
			if d == nil {
				stale = append(stale, fmt.Sprintf("stale translation: %s not found in %s (moved, renamed or removed); re-translate this check", c.short(), c.file))
			} else {
				line = fmt.Sprint(d.line)
				var want []string
				for _, e := range c.ensures {
					want = append(want, norm(e))
				}
				var wantReq []string
				for _, e := range requiresOf[origKey] {
					wantReq = append(wantReq, norm(e))
				}
				if strings.Join(wantReq, "\n") != strings.Join(d.requires, "\n") {
					stale = append(stale, fmt.Sprintf("stale translation: the requires clauses of %s at %s:%d are now %q, this check assumes %q", c.short(), c.file, d.line, d.requires, wantReq))
				}
				if strings.Join(want, "\n") != strings.Join(d.ensures, "\n") {
					stale = append(stale, fmt.Sprintf("stale translation: the ensures clauses of %s at %s:%d are now %q, this check was translated from %q", c.short(), c.file, d.line, d.ensures, want))
				}
			}
		} else {
			line += "?"
		}
		names = append(names, fmt.Sprintf("%s:%s %s", c.file, line, c.short()))
		keys = append(keys, c.key())
	}
	if len(names) == 0 {
		return "(no contract)", nil, nil
	}
	return strings.Join(names, ", "), stale, keys
}

// ---------------------------------------------------------------- COVERAGE.md

func isRepoPkg(p string) bool { return strings.HasPrefix(p, "github.com/bufbuild/buf/") }

func isStd(p string) bool {
	first := p
	if i := strings.Index(p, "/"); i >= 0 {
		first = p[:i]
	}
	return !strings.Contains(first, ".")
}

// why a declaration is not validated
func reason(d *decl) string {
	k := d.pkg + "." + d.name
	// reasons that say "no ensures clause" apply only to declarations without one
	fits := func(r string) bool { return !(strings.HasPrefix(r, "no ensures") && len(d.ensures) > 0) }
	if r, ok := notValidated[k]; ok && fits(r) {
		return r
	}
	for _, pr := range notValidatedPrefix {
		if strings.HasPrefix(k, pr[0]) && fits(pr[1]) {
			return pr[1]
		}
	}
	if strings.Contains(d.kind, "iterator") {
		return "iterator (yields) contract over a bucket / directory tree; ghost-state protocol"
	}
	if len(d.ensures) == 0 {
		return "no ensures clause (only purity / the frame is assumed): nothing to evaluate"
	}
	if strings.Contains(d.pkg, "/internal/") || strings.HasSuffix(d.pkg, "/internal") || strings.Contains(d.name, "internal.") {
		return "internal package: cannot be imported from /verif/bounded"
	}
	if isRepoPkg(d.pkg) {
		nm := d.name
		if i := strings.LastIndex(nm, " "); i >= 0 {
			nm = nm[i+1:]
		}
		if i := strings.LastIndex(nm, "."); i >= 0 {
			nm = nm[i+1:]
		}
		if strings.HasPrefix(d.name, "(") {
			if nm != "" && strings.ToLower(nm[:1]) == nm[:1] {
				return "unexported method: not callable from outside its package"
			}
			return "method of a repo interface / type: ghost-state sink or accessor contract, no isolated input domain"
		}
		if nm != "" && strings.ToLower(nm[:1]) == nm[:1] {
			return "unexported function: not callable from outside its package"
		}
		return "repo function outside the scope of this validator (needs module / image / bucket objects as inputs)"
	}
	return "needs structured third-party inputs (descriptors, option values); no small input domain to enumerate"
}

// loadRepoContracts adds the //@ trusted lines of the repo contract files to the inventory.
func loadRepoContracts(repo string) {
	var gofiles []string
	filepath.Walk(repo, func(p string, info os.FileInfo, err error) error {
		if err == nil && !info.IsDir() && strings.HasPrefix(filepath.Base(p), "zz_verif_contracts") && strings.HasSuffix(p, ".go") {
			gofiles = append(gofiles, p)
		}
		if err == nil && info.IsDir() && (info.Name() == ".git" || info.Name() == "node_modules") {
			return filepath.SkipDir
		}
		return nil
	})
	sort.Strings(gofiles)
	for _, f := range gofiles {
		data, err := os.ReadFile(f)
		if err != nil {
			continue
		}
		rel, _ := filepath.Rel(repo, f)
		pkg := "github.com/bufbuild/buf/" + filepath.ToSlash(filepath.Dir(rel))
		for _, d := range scan("/repo/"+filepath.ToSlash(rel), string(data), pkg, func(l string) (string, bool) {
			if !strings.HasPrefix(l, "//@") {
				return "", false
			}
			l = strings.TrimPrefix(l, "//@")
			if strings.HasPrefix(l, " ") {
				l = l[1:]
			}
			return l, true
		}) {
			specDecls = append(specDecls, d)
			if _, dup := declByKey[d.key()]; !dup {
				declByKey[d.key()] = d
			}
		}
	}
}

func printCoverage() {
	ds := specDecls
	status := func(d *decl) string {
		os := outcomes[d.key()]
		if len(os) == 0 {
			return "not validated: " + reason(d)
		}
		var good, bad []string
		staleAny := false
		for _, o := range os {
			if o.stale {
				staleAny = true
			}
			if o.failed == 0 {
				g := fmt.Sprintf("%s; %d cases", o.bound, o.cases)
				if strings.Contains(o.title, "restricted") || strings.HasPrefix(o.title, "purity only") {
					g = o.title + " — " + g
				}
				good = append(good, g)
			} else {
				bad = append(bad, fmt.Sprintf("%d of %d cases fail in \"%s\" (%s), e.g. `%s`", o.failed, o.cases, o.title, o.bound, strings.ReplaceAll(o.example, "`", "'")))
			}
		}
		var s string
		switch {
		case staleAny:
			s = "**STALE**: the contract text changed after this check was translated; " + strings.Join(bad, "; ")
		case len(bad) > 0:
			s = "**WRONG as declared**: " + strings.Join(bad, "; ")
			if len(good) > 0 {
				s += ". Holds on the restricted domain: " + strings.Join(good, "; ")
			}
		default:
			s = "validated (" + strings.Join(good, " + ") + ")"
		}
		if n := notes[d.key()]; n != "" {
			s += ". Note: " + n
		}
		return s
	}
	section := func(title, intro string, sel func(*decl) bool) {
		fmt.Printf("\n## %s\n\n%s\n\n| contract | function | #ensures | status |\n|---|---|---|---|\n", title, intro)
		nv, n, nwrong := 0, 0, 0
		for _, d := range ds {
			if d.kind == "trusted pure interface" || !sel(d) {
				continue
			}
			n++
			st := status(d)
			if !strings.HasPrefix(st, "not validated") {
				nv++
			}
			if strings.HasPrefix(st, "**WRONG") {
				nwrong++
			}
			fn := d.pkg + "." + d.name
			if d.kind == "axiom" || d.pkg == "" {
				fn = d.name
			}
			fmt.Printf("| %s:%d | `%s` | %d | %s |\n", d.file, d.line, fn, len(d.ensures), strings.ReplaceAll(st, "|", "\\|"))
		}
		fmt.Printf("\n%d declarations, %d exercised by a check, %d of those found wrong as declared.\n", n, nv, nwrong)
	}
	fmt.Print(coverageHeader)
	fmt.Printf("\n## Contracts found wrong as declared\n\n")
	nf := 0
	for _, d := range ds {
		for _, o := range outcomes[d.key()] {
			if o.failed > 0 && !o.stale {
				nf++
				fn := d.pkg + "." + d.name
				if d.kind == "axiom" || d.pkg == "" {
					fn = d.name
				}
				fmt.Printf("* %s:%d `%s` — %d of %d cases: `%s`\n", d.file, d.line, fn, o.failed, o.cases, strings.ReplaceAll(o.example, "`", "'"))
			}
		}
	}
	var atKeys []string
	for k := range outcomes {
		if strings.HasPrefix(k, "@") {
			atKeys = append(atKeys, k)
		}
	}
	sort.Strings(atKeys)
	for _, k := range atKeys {
		for _, o := range outcomes[k] {
			if o.failed > 0 {
				nf++
				fmt.Printf("* %s — %d of %d cases in \"%s\": `%s`\n", k[1:], o.failed, o.cases, o.title, strings.ReplaceAll(o.example, "`", "'"))
			}
		}
	}
	if nf == 0 {
		fmt.Printf("\n(no spec-file contract was refuted at this bound)\n")
	}
	section("Standard library", "Trusted contracts of Go standard-library functions (spec files under /verif/specs).",
		func(d *decl) bool { return d.kind != "axiom" && isStd(d.pkg) })
	section("Third-party modules", "Trusted contracts of functions of other modules (protobuf-go, protocompile, bufplugin, klauspost/compress, connect).",
		func(d *decl) bool { return d.kind != "axiom" && !isStd(d.pkg) && !isRepoPkg(d.pkg) })
	section("Trusted axioms", "Axioms of the spec files (facts about stdlib / third-party behaviour or about the spec predicates themselves).",
		func(d *decl) bool { return d.kind == "axiom" })
	section("Repo functions declared trusted in spec files", "Functions of /repo that are assumed, not verified (declared in /verif/specs/*.spec).",
		func(d *decl) bool {
			return d.kind != "axiom" && isRepoPkg(d.pkg) && !strings.HasPrefix(d.file, "/repo/")
		})
	section("Repo functions declared trusted in //@ lines of /repo/**/zz_verif_contracts*.go", "Mostly interface methods, accessors and unexported helpers.",
		func(d *decl) bool { return d.kind != "axiom" && strings.HasPrefix(d.file, "/repo/") })
	var ifs []string
	for _, d := range ds {
		if d.kind == "trusted pure interface" {
			ifs = append(ifs, fmt.Sprintf("%s:%d `%s`", d.file, d.line, d.sig))
		}
	}
	fmt.Printf("\n## `trusted pure interface` declarations\n\nEvery method of these interfaces is assumed to be a pure accessor (no clause to evaluate; not validated: interface types of the repo / of third-party descriptor APIs).\n\n")
	for _, s := range ifs {
		fmt.Println("- " + s)
	}
	fmt.Print(coverageFooter)
}
