package main

import (
	"fmt"
	"path/filepath"
	"strconv"
	"strings"

	"github.com/bufbuild/buf/private/pkg/stringutil"
	"github.com/bufbuild/buf/private/pkg/uuidutil"
	"github.com/google/uuid"
)

// `trusted pure func` without an ensures clause still assumes something: the function is a deterministic,
// effect-free function of its arguments (the verifier models it as an uninterpreted function). For the string
// functions that is checked here: equal arguments held in different memory give equal results, repeatedly, and the
// arguments are not modified.
func checksPure() {
	type pf struct {
		c contract
		f func(s, p string, parts []string) string
	}
	B := "github.com/bufbuild/buf/private/pkg/"
	const lintPkg = "github.com/bufbuild/buf/private/bufpkg/bufcheck/bufcheckserver/internal/bufcheckserverhandle"
	const lintFile = "/repo/private/bufpkg/bufcheck/bufcheckserver/internal/bufcheckserverhandle/zz_verif_contracts_lint.go"
	fs := []pf{
		{contract{"C03_nodelete.spec", "strings", "ToLower", 212, nil}, func(s, p string, _ []string) string { return strings.ToLower(s) }},
		{contract{"C03_pairs.spec", "strings", "Join", 13, nil}, func(s, p string, parts []string) string { return strings.Join(parts, p) }},
		{contract{"C03_pairs.spec", "strings", "TrimSpace", 14, nil}, func(s, p string, _ []string) string { return strings.TrimSpace(s) }},
		{contract{"C05.spec", "strings", "Trim", 45, nil}, func(s, p string, _ []string) string { return strings.Trim(s, p) }},
		{contract{"C03_pairs.spec", "strconv", "FormatInt", 7, nil}, func(s, p string, _ []string) string {
			return strconv.FormatInt(int64(len(s))*7919-int64(len(p))*104729, 2+len(s)%35)
		}},
		{contract{"C05.spec", "path/filepath", "Ext", 31, nil}, func(s, p string, _ []string) string { return filepath.Ext(s) }},
		{contract{"C14_buckets.spec", "path/filepath", "Base", 144, nil}, func(s, p string, _ []string) string { return filepath.Base(s) }},
		{contract{"C03_nodelete.spec", B + "stringutil", "JoinSliceQuoted", 216, nil}, func(s, p string, parts []string) string { return stringutil.JoinSliceQuoted(parts, p) }},
		{contract{lintFile, lintPkg, "stringutil.ToPascalCase", 36, nil}, func(s, p string, _ []string) string { return stringutil.ToPascalCase(s) }},
		{contract{lintFile, lintPkg, "stringutil.ToLowerSnakeCase", 37, nil}, func(s, p string, _ []string) string {
			return stringutil.ToLowerSnakeCase(s) + "|" + stringutil.ToLowerSnakeCase(s, stringutil.SnakeCaseWithNewWordOnDigits())
		}},
		{contract{lintFile, lintPkg, "stringutil.ToUpperSnakeCase", 38, nil}, func(s, p string, _ []string) string {
			return stringutil.ToUpperSnakeCase(s) + "|" + stringutil.ToUpperSnakeCase(s, stringutil.SnakeCaseWithNewWordOnDigits())
		}},
		{contract{"repo_trusted.spec", B + "uuidutil", "ToDashless", 88, nil}, func(s, p string, _ []string) string {
			var id uuid.UUID
			copy(id[:], s+p)
			return uuidutil.ToDashless(id)
		}},
	}
	n := min(L-3, 5)
	bound := fmt.Sprintf("all s over {a B ' ' . /} up to length %d, p over the same alphabet up to length 2, slice arguments: the \".\"-pieces of s; three evaluations on separately allocated copies", n)
	for _, x := range fs {
		x := x
		check("purity only (no ensures clause): the result is determined by the argument values, the arguments are not modified", []contract{x.c}, bound, func(t *T) {
			ps := all("aB ./", 2)
			enum("aB ./", n, func(s string) {
				for _, p := range ps {
					t.Case()
					cp := func(v string) string { return string(append([]byte{}, v...)) }
					parts1, parts2 := splitAll(cp(s), "."), splitAll(cp(s), ".")
					r1 := x.f(cp(s), cp(p), parts1)
					r2 := x.f(cp(s), cp(p), parts2)
					r3 := x.f(s, p, parts1)
					ok := r1 == r2 && r1 == r3 && len(parts1) == len(parts2)
					for i := 0; ok && i < len(parts1); i++ {
						ok = parts1[i] == parts2[i]
					}
					t.Check(ok, "pure", "%s(%q,%q): %q / %q / %q", x.c.short(), s, p, r1, r2, r3)
				}
			})
		})
	}
}
