package main

// The contract builtins with the meaning the verifier gives them (gocv elab.go maps them to SMT-LIB 2.6
// string operations; Go strings are modelled as sequences of BYTES, smt.go smtString), and the spec functions
// of /verif/specs/paths.spec, C16.spec, C20.spec the trusted contracts mention. Nothing here calls the
// function under test.

import (
	"math/big"
	"strings"
)

// hasPrefix(s,p) = (str.prefixof p s)
func hasPrefix(s, p string) bool { return len(p) <= len(s) && s[:len(p)] == p }

// hasSuffix(s,p) = (str.suffixof p s)
func hasSuffix(s, p string) bool { return len(p) <= len(s) && s[len(s)-len(p):] == p }

// indexOf(s,sub) = (str.indexof s sub 0): first position, 0 for the empty pattern, -1 if absent
func indexOf(s, sub string) int {
	for i := 0; i+len(sub) <= len(s); i++ {
		if s[i:i+len(sub)] == sub {
			return i
		}
	}
	return -1
}

// contains(s,sub) = (str.contains s sub)
func contains(s, sub string) bool { return indexOf(s, sub) >= 0 }

// substr(s,i,n) = (str.substr s i n): n characters from i, clipped to the end; "" if i or n is out of range
func substr(s string, i, n int) string {
	if i < 0 || i >= len(s) || n <= 0 {
		return ""
	}
	e := i + n
	if e > len(s) {
		e = len(s)
	}
	return s[i:e]
}

// replaceAll(s,old,new) = (str.replace_all s old new): s itself if old is empty, otherwise every
// occurrence replaced, leftmost first, non-overlapping
func replaceAllSMT(s, old, new string) string {
	if old == "" {
		return s
	}
	var b strings.Builder
	for {
		i := indexOf(s, old)
		if i < 0 {
			b.WriteString(s)
			return b.String()
		}
		b.WriteString(s[:i])
		b.WriteString(new)
		s = s[i+len(old):]
	}
}

// itoa(i) = (str.from_int i): decimal digits of a non-negative integer, "" for a negative one
func itoaSMT(i *big.Int) string {
	if i.Sign() < 0 {
		return ""
	}
	return i.String()
}

// C20.spec: spec func decimal(i int) string = ite(i >= 0, itoa(i), "-" + itoa(0 - i))   (integers are unbounded)
func decimal(i int64) string {
	b := big.NewInt(i)
	if b.Sign() >= 0 {
		return itoaSMT(b)
	}
	return "-" + itoaSMT(new(big.Int).Neg(b))
}

// model strings: sequences of character codes. A Go string denotes the sequence of its bytes.
type mstr []int32

func model(s string) mstr {
	m := make(mstr, len(s))
	for i := 0; i < len(s); i++ {
		m[i] = int32(s[i])
	}
	return m
}

// fromCode(c) = (str.from_code c): the one-character string with code c if 0 <= c <= 0x2FFFF, else ""
func fromCode(c int64) mstr {
	if c < 0 || c > 0x2FFFF {
		return mstr{}
	}
	return mstr{int32(c)}
}

func (a mstr) eq(b mstr) bool {
	if len(a) != len(b) {
		return false
	}
	for i := range a {
		if a[i] != b[i] {
			return false
		}
	}
	return true
}

// ---- paths.spec

// validRel: "." or a "/"-joined non-empty sequence of components; a component is non-empty, has no "/",
// and is neither "." nor ".." (regex validRelRe)
func isComp(c string) bool { return c != "" && c != "." && c != ".." && !contains(c, "/") }
func isComps(s string) bool {
	if s == "" {
		return false
	}
	for _, c := range splitAll(s, "/") {
		if !isComp(c) {
			return false
		}
	}
	return true
}
func validRelDef(s string) bool { return s == "." || isComps(s) }

// cleanRe: ".", "/", "/comps", "comps", "..(/..)*", "(../)+comps"
func cleanShapeDef(s string) bool {
	if s == "." || s == "/" || isComps(s) {
		return true
	}
	if hasPrefix(s, "/") && isComps(s[1:]) {
		return true
	}
	// ..(/..)*
	if hasPrefix(s, "..") {
		r := s[2:]
		for hasPrefix(r, "/..") {
			r = r[3:]
		}
		if r == "" {
			return true
		}
	}
	// (../)+comps
	r := s
	for hasPrefix(r, "../") {
		r = r[3:]
		if isComps(r) {
			return true
		}
	}
	return false
}

// splitAll: the maximal pieces between occurrences of a non-empty separator (own implementation)
func splitAll(s, sep string) []string {
	var out []string
	for {
		i := indexOf(s, sep)
		if i < 0 {
			return append(out, s)
		}
		out = append(out, s[:i])
		s = s[i+len(sep):]
	}
}

// spec func ancOrSelf(v string, p string) bool = v == "." || v == p || hasPrefix(p, v + "/")
func ancOrSelf(v, p string) bool { return v == "." || v == p || hasPrefix(p, v+"/") }

// spec func join2(a string, b string) string = ite(a == ".", b, ite(b == ".", a, a + "/" + b))
func join2(a, b string) string {
	if a == "." {
		return b
	}
	if b == "." {
		return a
	}
	return a + "/" + b
}

// C16.spec: spec func e_relTo(d string, p string) string = ite(d == ".", p, ite(p == d, ".", substr(p, len(d) + 1, len(p))))
func eRelTo(d, p string) string {
	if d == "." {
		return p
	}
	if p == d {
		return "."
	}
	return substr(p, len(d)+1, len(p))
}
