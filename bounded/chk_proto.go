package main

import (
	"bytes"
	"fmt"

	"google.golang.org/protobuf/proto"
	"google.golang.org/protobuf/types/descriptorpb"
)

// protobuf-go contracts of C01_descriptor.spec / N_extra.spec: generated getters, optional-scalar cells, the
// unknown-field bytes of a message.
func checksProto() {
	const D = "google.golang.org/protobuf/types/descriptorpb"
	const F = "C01_descriptor.spec"
	gPub := contract{F, D, "(FileDescriptorProto) GetPublicDependency", 100, []string{`this != nil ==> r == this.PublicDependency`}}
	gWeak := contract{F, D, "(FileDescriptorProto) GetWeakDependency", 102, []string{`this != nil ==> r == this.WeakDependency`}}
	gOpts := contract{F, D, "(FileDescriptorProto) GetOptions", 104, []string{`this != nil ==> r == this.Options`}}
	gSCI := contract{F, D, "(FileDescriptorProto) GetSourceCodeInfo", 106, []string{`this != nil ==> r == this.SourceCodeInfo`}}
	gRefl := contract{F, D, "(FileDescriptorProto) ProtoReflect", 109, []string{`this != nil ==> r != nil`}}
	sameI32 := func(a, b []int32) bool {
		if len(a) != len(b) || (a == nil) != (b == nil) {
			return false
		}
		for i := range a {
			if a[i] != b[i] {
				return false
			}
		}
		return true
	}
	files := func() []*descriptorpb.FileDescriptorProto {
		fs := sampleFileDescriptors()
		fs = append(fs,
			&descriptorpb.FileDescriptorProto{PublicDependency: []int32{}, WeakDependency: []int32{}},
			&descriptorpb.FileDescriptorProto{Dependency: []string{"a", "b", "c"}, PublicDependency: []int32{0, 2}, WeakDependency: []int32{1}},
			&descriptorpb.FileDescriptorProto{Options: &descriptorpb.FileOptions{}, SourceCodeInfo: &descriptorpb.SourceCodeInfo{}},
		)
		return fs
	}
	check("generated getters of a non-nil FileDescriptorProto return the struct field (same slice value / same pointer); ProtoReflect is non-nil",
		[]contract{gPub, gWeak, gOpts, gSCI, gRefl}, "9 file descriptors: empty, with nil / empty / non-empty dependency lists, with and without options and source info", func(t *T) {
			for _, f := range files() {
				t.Case()
				t.Check(sameI32(f.GetPublicDependency(), f.PublicDependency), gPub.ensures[0], "GetPublicDependency of %v", f)
				t.Check(sameI32(f.GetWeakDependency(), f.WeakDependency), gWeak.ensures[0], "GetWeakDependency of %v", f)
				t.Check(f.GetOptions() == f.Options, gOpts.ensures[0], "GetOptions of %v", f)
				t.Check(f.GetSourceCodeInfo() == f.SourceCodeInfo, gSCI.ensures[0], "GetSourceCodeInfo of %v", f)
				t.Check(f.ProtoReflect() != nil, gRefl.ensures[0], "ProtoReflect of %v", f)
			}
		})

	cEnum := contract{"N_extra.spec", D, "(FileOptions_OptimizeMode) Enum", 58, []string{`r != nil`}}
	cBool := contract{"N_extra.spec", "google.golang.org/protobuf/proto", "Bool", 61, []string{`r != nil`}}
	check("OptimizeMode.Enum and proto.Bool return non-nil pointers", []contract{cEnum, cBool}, "OptimizeMode values -2..5, both booleans", func(t *T) {
		for v := int32(-2); v <= 5; v++ {
			t.Case()
			t.Check(descriptorpb.FileOptions_OptimizeMode(v).Enum() != nil, cEnum.ensures[0], "OptimizeMode(%d).Enum()", v)
		}
		for _, b := range []bool{false, true} {
			t.Case()
			t.Check(proto.Bool(b) != nil, cBool.ensures[0], "proto.Bool(%v)", b)
		}
	})

	// optional-scalar cells: s_strOf / s_boolOf are uninterpreted; the axioms have the model "content of the cell,
	// zero for nil" iff proto.String / proto.Bool return a cell holding their argument
	aStr := axiom(F, "s_cell-of-proto-String", 85, `forall v string :: s_strOf(proto.String(v)) == v`)
	aBool := axiom(F, "s_cell-of-proto-Bool", 86, `forall v bool :: s_boolOf(proto.Bool(v)) == v`)
	aZero := axiom(F, "s_unset-cell-is-zero", 84, `forall p ref :: p == nil ==> s_strOf(p) == "" && !s_boolOf(p) && s_editionOf(p) == 0`)
	notes[aZero.key()] = "part of the definition of the model (content of the cell, zero for nil); consistent with the two proto.String / proto.Bool axioms because those never return nil (checked)"
	check("proto.String / proto.Bool return a non-nil cell that holds the argument (model: s_strOf(p) = *p, s_boolOf(p) = *p, zero for the nil cell)", []contract{aZero, aStr, aBool},
		"all strings over {a 0x00 0xff} up to length 4; both booleans", func(t *T) {
			enum("a\x00\xff", 4, func(s string) {
				t.Case()
				p := proto.String(s)
				t.Check(p != nil && *p == s, aStr.ensures[0], "*proto.String(%q)", s)
			})
			for _, b := range []bool{false, true} {
				t.Case()
				p := proto.Bool(b)
				t.Check(p != nil && *p == b, aBool.ensures[0], "*proto.Bool(%v)", b)
			}
		})

	// unknown-field bytes: ghost.s_unknown maps a message (its reflective view) to its unknown bytes; GetUnknown
	// reads the map (this defines it), SetUnknown(b) updates exactly this message's entry
	const R = "google.golang.org/protobuf/reflect/protoreflect"
	cGet := contract{F, R, "(Message) GetUnknown", 91, []string{`r == ghost.s_unknown[this]`}}.withNote(
		"the clause DEFINES the ghost map as what GetUnknown returns; checked: GetUnknown is stable and an observer")
	cSet := contract{F, R, "(Message) SetUnknown", 93, []string{`ghost.s_unknown == put(old(ghost.s_unknown), this, b)`}}
	values := [][]byte{nil, {}, {0x08, 0x01}, {0xd2, 0xf6, 0x03, 0x00}, {0x08, 0x01, 0x12, 0x01, 0x61}}
	sameBytes := func(a, b []byte) bool { return bytes.Equal(a, b) && (a == nil) == (b == nil) }
	check("SetUnknown replaces the unknown bytes of this message and of no other; GetUnknown reads them back (generated messages: FileDescriptorProto, FileOptions)",
		[]contract{cGet, cSet}, fmt.Sprintf("all sequences of 1..3 SetUnknown calls on two messages with %d byte strings (nil, empty, one and two well-formed records)", len(values)), func(t *T) {
			type op struct {
				m int
				v []byte
			}
			var ops []op
			for m := 0; m < 2; m++ {
				for _, v := range values {
					ops = append(ops, op{m, v})
				}
			}
			seqs(ops, 3, func(seq []op) {
				if len(seq) == 0 {
					return
				}
				t.Case()
				a := &descriptorpb.FileDescriptorProto{Name: proto.String("a")}
				b := &descriptorpb.FileOptions{}
				ms := []interface {
					GetUnknown() []byte
					SetUnknown([]byte)
				}{unk{a}, unk{b}}
				for i, o := range seq {
					before := [2][]byte{ms[0].GetUnknown(), ms[1].GetUnknown()}
					ms[o.m].SetUnknown(o.v)
					after := [2][]byte{ms[0].GetUnknown(), ms[1].GetUnknown()}
					again := [2][]byte{ms[0].GetUnknown(), ms[1].GetUnknown()}
					if i == len(seq)-1 {
						t.Check(sameBytes(after[o.m], o.v) && sameBytes(after[1-o.m], before[1-o.m]), cSet.ensures[0],
							"SetUnknown(% x) on message %d: unknown bytes (% x | % x) -> (% x | % x)", o.v, o.m, before[0], before[1], after[0], after[1])
						t.Check(sameBytes(after[0], again[0]) && sameBytes(after[1], again[1]), cGet.ensures[0], "GetUnknown twice: (% x | % x) then (% x | % x)", after[0], after[1], again[0], again[1])
					}
				}
			})
		})
}

type unk struct{ m proto.Message }

func (u unk) GetUnknown() []byte  { return u.m.ProtoReflect().GetUnknown() }
func (u unk) SetUnknown(b []byte) { u.m.ProtoReflect().SetUnknown(b) }
