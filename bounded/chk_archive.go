package main

import (
	"archive/tar"
	"bytes"
	"fmt"
	"io"

	"github.com/klauspost/compress/zip"
)

// Archive writers (C14_buckets.spec): every write-side call is a sink, `ghost.fail == (old(ghost.fail) || err != nil)`.
// As for io.Copy (chk_io.go) the executable content is: a failure of the underlying writer is reported by SOME
// call of the writer (immediately, or by Close for buffered output); it is never lost. Plus the result clauses.

func checksArchive() {
	const F = "C14_buckets.spec"
	sink := []string{`ghost.fail == (old(ghost.fail) || err != nil)`, `ghost.wfail == (old(ghost.wfail) || err != nil)`}
	const sinkNote = "ghost-flag clauses; executable content checked: a failure of the underlying writer is reported by this or a later call (never lost)"
	tNewWriter := contract{F, "archive/tar", "NewWriter", 169, []string{`r != nil`}}
	tWriteHeader := contract{F, "archive/tar", "(Writer) WriteHeader", 171, sink}.withNote(sinkNote)
	tWrite := contract{F, "archive/tar", "(Writer) Write", 175, sink}.withNote(sinkNote)
	tClose := contract{F, "archive/tar", "(Writer) Close", 179, sink}.withNote(sinkNote)
	tNewReader := contract{F, "archive/tar", "NewReader", 183, []string{`tr != nil`}}
	tNext := contract{F, "archive/tar", "(Reader) Next", 186, []string{`err == nil ==> h != nil`}}
	tFileInfo := contract{F, "archive/tar", "(Header) FileInfo", 188, []string{`r != nil`}}

	const Z = "github.com/klauspost/compress/zip"
	zNewWriter := contract{F, Z, "NewWriter", 192, []string{`r != nil`}}
	zCreateHeader := contract{F, Z, "(Writer) CreateHeader", 194, append(append([]string{}, sink...), `err == nil ==> w != nil`)}.withNote(sinkNote)
	zClose := contract{F, Z, "(Writer) Close", 199, sink}.withNote(sinkNote)
	zNewReader := contract{F, Z, "NewReader", 203, []string{`err == nil ==> zr != nil`}}
	zOpen := contract{F, Z, "(File) Open", 205, []string{`ghost.fail == (old(ghost.fail) || err != nil)`, `err == nil ==> rc != nil`}}.withNote("ghost-flag clause is a definition; result clause checked")
	zFileInfo := contract{F, Z, "(FileHeader) FileInfo", 209, []string{`r != nil`}}

	sizes := []int{0, 1, 511, 512, 513, 5000}
	maxFail := 4 + L
	var tarBytes, zipBytes []byte

	check("archive/tar writer: constructors non-nil; a failing underlying writer is reported by WriteHeader / Write / Close", []contract{tNewWriter, tWriteHeader, tWrite, tClose},
		fmt.Sprintf("two entries with bodies of %v bytes (all pairs), underlying writer failing at call 0(never)..%d in modes (0,err) and (partial,err)", sizes, maxFail), func(t *T) {
			for _, s1 := range sizes {
				for _, s2 := range sizes {
					for fail := 0; fail <= maxFail; fail++ {
						for mode := 0; mode < 2; mode++ {
							if fail == 0 && mode > 0 {
								continue
							}
							t.Case()
							raised := false
							fw := &flakyWriter{fail: fail, mode: mode, raised: &raised}
							tw := tar.NewWriter(fw)
							t.Check(tw != nil, tNewWriter.ensures[0], "tar.NewWriter")
							reported := false
							note := func(err error) {
								if err != nil {
									reported = true
								}
							}
							note(tw.WriteHeader(&tar.Header{Name: "a/b.txt", Mode: 0o644, Size: int64(s1)}))
							_, err := tw.Write(make([]byte, s1))
							note(err)
							note(tw.WriteHeader(&tar.Header{Name: "c", Mode: 0o644, Size: int64(s2)}))
							_, err = tw.Write(make([]byte, s2))
							note(err)
							note(tw.Close())
							t.Check(!raised || reported, sink[0], "tar writer, bodies %d/%d, underlying Write call %d failed (mode %d) but WriteHeader/Write/Close all returned nil", s1, s2, fail, mode)
							if fail == 0 && s1 == 1 && s2 == 513 {
								tarBytes = fw.got
							}
						}
					}
				}
			}
		})
	check("archive/tar reader: NewReader non-nil; Next returns a header when it succeeds; Header.FileInfo non-nil", []contract{tNewReader, tNext, tFileInfo},
		"a well-formed two-entry archive, every truncation of it to a multiple of 64 bytes, single-byte corruptions at 40 positions, empty and nil readers", func(t *T) {
			var inputs [][]byte
			inputs = append(inputs, nil, []byte{}, tarBytes)
			for n := 0; n < len(tarBytes); n += 64 {
				inputs = append(inputs, tarBytes[:n])
			}
			for i := 0; i < 40; i++ {
				c := append([]byte{}, tarBytes...)
				if len(c) > 0 {
					c[(i*37)%len(c)] ^= 0x55
				}
				inputs = append(inputs, c)
			}
			for _, in := range inputs {
				t.Case()
				tr := tar.NewReader(bytes.NewReader(in))
				t.Check(tr != nil, tNewReader.ensures[0], "tar.NewReader")
				for k := 0; k < 5; k++ {
					h, err := tr.Next()
					t.Check(!(err == nil) || h != nil, tNext.ensures[0], "Next()=(%v,%v)", h, err)
					if err != nil {
						break
					}
					t.Check(h.FileInfo() != nil, tFileInfo.ensures[0], "Header.FileInfo()")
				}
			}
			t.Case()
			t.Check((&tar.Header{}).FileInfo() != nil, tFileInfo.ensures[0], "zero Header.FileInfo()")
		})

	check("klauspost zip writer: constructor and entry writer non-nil; a failing underlying writer is reported by CreateHeader / entry Write / Close (output is buffered: typically by Close)",
		[]contract{zNewWriter, zCreateHeader, zClose},
		fmt.Sprintf("two entries (Store and Deflate) with bodies of %v bytes (all pairs), underlying writer failing at call 0(never)..%d in modes (0,err) and (partial,err)", sizes, maxFail), func(t *T) {
			for _, s1 := range sizes {
				for _, s2 := range sizes {
					for fail := 0; fail <= maxFail; fail++ {
						for mode := 0; mode < 2; mode++ {
							if fail == 0 && mode > 0 {
								continue
							}
							t.Case()
							raised := false
							fw := &flakyWriter{fail: fail, mode: mode, raised: &raised}
							zw := zip.NewWriter(fw)
							t.Check(zw != nil, zNewWriter.ensures[0], "zip.NewWriter")
							reported := false
							note := func(err error) {
								if err != nil {
									reported = true
								}
							}
							for i, s := range []int{s1, s2} {
								method := zip.Store
								if i == 1 {
									method = zip.Deflate
								}
								w, err := zw.CreateHeader(&zip.FileHeader{Name: fmt.Sprint("entry", i), Method: method})
								note(err)
								t.Check(!(err == nil) || w != nil, zCreateHeader.ensures[2], "CreateHeader=(%v,%v)", w, err)
								if w != nil {
									_, err = w.Write(bytes.Repeat([]byte{byte(i + 1)}, s))
									note(err)
								}
							}
							note(zw.Close())
							t.Check(!raised || reported, sink[0], "zip writer, bodies %d/%d, underlying Write call %d failed (mode %d) but CreateHeader/Write/Close all returned nil", s1, s2, fail, mode)
							if fail == 0 && s1 == 1 && s2 == 513 {
								zipBytes = fw.got
							}
						}
					}
				}
			}
		})
	check("klauspost zip reader: NewReader / File.Open return an object when they succeed; FileHeader.FileInfo non-nil", []contract{zNewReader, zOpen, zFileInfo},
		"a well-formed two-entry archive, every truncation of it to a multiple of 16 bytes, single-byte corruptions at 60 positions, empty input, wrong sizes", func(t *T) {
			type in struct {
				b    []byte
				size int64
			}
			var inputs []in
			inputs = append(inputs, in{nil, 0}, in{zipBytes, int64(len(zipBytes))}, in{zipBytes, int64(len(zipBytes)) - 1}, in{zipBytes, int64(len(zipBytes)) + 5}, in{zipBytes, -1})
			for n := 0; n < len(zipBytes); n += 16 {
				inputs = append(inputs, in{zipBytes[:n], int64(n)})
			}
			for i := 0; i < 60; i++ {
				c := append([]byte{}, zipBytes...)
				if len(c) > 0 {
					c[(i*29)%len(c)] ^= 0x55
				}
				inputs = append(inputs, in{c, int64(len(c))})
			}
			for _, x := range inputs {
				t.Case()
				zr, err := zip.NewReader(bytes.NewReader(x.b), x.size)
				t.Check(!(err == nil) || zr != nil, zNewReader.ensures[0], "zip.NewReader(%d bytes, size %d)=(%v,%v)", len(x.b), x.size, zr, err)
				if err != nil || zr == nil {
					continue
				}
				for _, f := range zr.File {
					t.Check(f.FileHeader.FileInfo() != nil, zFileInfo.ensures[0], "FileHeader.FileInfo()")
					rc, err := f.Open()
					t.Check(!(err == nil) || rc != nil, zOpen.ensures[1], "File.Open()=(%v,%v)", rc, err)
					if rc != nil {
						io.Copy(io.Discard, rc)
						rc.Close()
					}
				}
			}
			t.Case()
			t.Check((&zip.FileHeader{}).FileInfo() != nil, zFileInfo.ensures[0], "zero FileHeader.FileInfo()")
		})
}
