package bufcheckserverhandle

// Replay / bounded contract run for the ca-r4l obligations (C03/C04): the value layer of FIELD_SAME_DEFAULT
// (asBigFloat, defaultsEqual, getDefault in field_default.go). Injected with go test -overlay.

import (
	"fmt"
	"math"
	"math/big"
	"os"
	"testing"

	"google.golang.org/protobuf/reflect/protodesc"
	"google.golang.org/protobuf/reflect/protoreflect"
	"google.golang.org/protobuf/types/descriptorpb"
)

// rlNum: the exact mathematical value of a bool / integer default (rl_num in R4l.spec).
func rlNum(v any) (*big.Int, bool) {
	switch v := v.(type) {
	case bool:
		if v {
			return big.NewInt(1), true
		}
		return big.NewInt(0), true
	case int32:
		return big.NewInt(int64(v)), true
	case int64:
		return big.NewInt(v), true
	case uint32:
		return new(big.Int).SetUint64(uint64(v)), true
	case uint64:
		return new(big.Int).SetUint64(v), true
	}
	return nil, false
}

func rlSamples() []any {
	var out []any
	out = append(out, false, true)
	for _, x := range []int32{0, 1, -1, 7, math.MaxInt32, math.MinInt32} {
		out = append(out, x)
	}
	for _, x := range []int64{0, 1, -1, 7, math.MaxInt32, 1 << 53, 1<<53 + 1, 1<<53 + 2, math.MaxInt64, math.MaxInt64 - 1, math.MaxInt64 - 2, math.MinInt64, math.MinInt64 + 1, -(1 << 53) - 1} {
		out = append(out, x)
	}
	for _, x := range []uint32{0, 1, 7, math.MaxUint32} {
		out = append(out, x)
	}
	for _, x := range []uint64{0, 1, 7, 1<<53 + 1, math.MaxInt64, math.MaxInt64 + 1, math.MaxUint64, math.MaxUint64 - 1} {
		out = append(out, x)
	}
	return out
}

func rlField(t *testing.T, typ descriptorpb.FieldDescriptorProto_Type, def string) protoreflect.FieldDescriptor {
	field := &descriptorpb.FieldDescriptorProto{
		Name:   strp("f"),
		Number: i32p(1),
		Label:  descriptorpb.FieldDescriptorProto_LABEL_OPTIONAL.Enum(),
		Type:   typ.Enum(),
	}
	if def != "\x00none" {
		field.DefaultValue = strp(def)
	}
	if typ == descriptorpb.FieldDescriptorProto_TYPE_ENUM {
		field.TypeName = strp(".p.E")
	}
	fdp := &descriptorpb.FileDescriptorProto{
		Name:    strp("a.proto"),
		Package: strp("p"),
		Syntax:  strp("proto2"),
		MessageType: []*descriptorpb.DescriptorProto{{
			Name:  strp("M"),
			Field: []*descriptorpb.FieldDescriptorProto{field},
		}},
		EnumType: []*descriptorpb.EnumDescriptorProto{{
			Name: strp("E"),
			Value: []*descriptorpb.EnumValueDescriptorProto{
				{Name: strp("ZERO"), Number: i32p(0)},
				{Name: strp("FIVE"), Number: i32p(5)},
			},
		}},
	}
	fd, err := protodesc.NewFile(fdp, nil)
	if err != nil {
		t.Fatalf("building descriptor (type %v default %q): %v", typ, def, err)
	}
	return fd.Messages().Get(0).Fields().Get(0)
}

func strp(s string) *string { return &s }
func i32p(i int32) *int32   { return &i }

func TestVerifReplayR4lDefault(t *testing.T) {
	fn := os.Getenv("VERIF_REPLAY_FUNC")
	found := 0
	report := func(format string, a ...any) {
		if found < 40 {
			fmt.Printf("VERIF-REPLAY FAILING-INPUT "+format+"\n", a...)
		}
		found++
	}
	switch fn {
	case "asBigFloat":
		for _, v := range rlSamples() {
			want, _ := rlNum(v)
			got, isNaN := asBigFloat(v)
			if isNaN || got == nil {
				report("asBigFloat(%T(%v)) = %v, isNaN %v: an integer/bool default is a number", v, v, got, isNaN)
				continue
			}
			gi, acc := got.Int(nil)
			if acc != big.Exact || gi.Cmp(want) != 0 {
				report("asBigFloat(%T(%v)) represents %s (precision %d), not the exact value %s", v, v, got.Text('f', 0), got.Prec(), want)
			}
		}
	case "defaultsEqual":
		samples := rlSamples()
		texts := []any{"", "a", "b", "1", "0", "true"}
		for _, a := range samples {
			for _, b := range samples {
				na, _ := rlNum(a)
				nb, _ := rlNum(b)
				want := na.Cmp(nb) == 0
				if got := defaultsEqual(fieldDefault{comparable: a}, fieldDefault{comparable: b}); got != want {
					report("defaultsEqual(%T(%v), %T(%v)) = %v, but the exact values %s and %s are %s", a, a, b, b, got, na, nb, map[bool]string{true: "equal", false: "different"}[want])
				}
			}
			for _, s := range texts {
				if defaultsEqual(fieldDefault{comparable: a}, fieldDefault{comparable: s}) || defaultsEqual(fieldDefault{comparable: s}, fieldDefault{comparable: a}) {
					report("defaultsEqual(%T(%v), string %q) = true: a text default never equals a number", a, a, s)
				}
			}
		}
		for _, s := range texts {
			for _, u := range texts {
				// build the second string at run time so that the two interface values do not share storage
				u2 := string(append([]byte(nil), u.(string)...))
				if got := defaultsEqual(fieldDefault{comparable: s}, fieldDefault{comparable: u2}); got != (s.(string) == u2) {
					report("defaultsEqual(string %q, string %q) = %v", s, u2, got)
				}
			}
		}
	case "getDefault":
		type tc struct {
			typ  descriptorpb.FieldDescriptorProto_Type
			def  string
			want any
		}
		for _, c := range []tc{
			{descriptorpb.FieldDescriptorProto_TYPE_BYTES, "ab\\001", "ab\x01"},
			{descriptorpb.FieldDescriptorProto_TYPE_BYTES, "\x00none", ""},
			{descriptorpb.FieldDescriptorProto_TYPE_STRING, "hello", "hello"},
			{descriptorpb.FieldDescriptorProto_TYPE_STRING, "\x00none", ""},
			{descriptorpb.FieldDescriptorProto_TYPE_ENUM, "FIVE", int32(5)},
			{descriptorpb.FieldDescriptorProto_TYPE_ENUM, "\x00none", int32(0)},
			{descriptorpb.FieldDescriptorProto_TYPE_INT64, "9223372036854775807", int64(math.MaxInt64)},
			{descriptorpb.FieldDescriptorProto_TYPE_INT64, "9223372036854775806", int64(math.MaxInt64 - 1)},
			{descriptorpb.FieldDescriptorProto_TYPE_SINT64, "-9223372036854775808", int64(math.MinInt64)},
			{descriptorpb.FieldDescriptorProto_TYPE_UINT64, "18446744073709551615", uint64(math.MaxUint64)},
			{descriptorpb.FieldDescriptorProto_TYPE_FIXED64, "7", uint64(7)},
			{descriptorpb.FieldDescriptorProto_TYPE_INT32, "-3", int32(-3)},
			{descriptorpb.FieldDescriptorProto_TYPE_UINT32, "4294967295", uint32(math.MaxUint32)},
			{descriptorpb.FieldDescriptorProto_TYPE_BOOL, "true", true},
			{descriptorpb.FieldDescriptorProto_TYPE_BOOL, "\x00none", false},
		} {
			got := getDefault(rlField(t, c.typ, c.def))
			if got.comparable != c.want {
				report("getDefault(%v field, default %q).comparable = %T(%v), want %T(%v)", c.typ, c.def, got.comparable, got.comparable, c.want, c.want)
			}
		}
	default:
		fmt.Printf("VERIF-REPLAY no harness for %q\n", fn)
		return
	}
	if found == 0 {
		fmt.Printf("VERIF-REPLAY no failing input found for %s (bounded run)\n", fn)
	}
}
