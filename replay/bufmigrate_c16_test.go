package bufmigrate

// Replay for C16 obligations of package bufmigrate (go test -overlay): a v1 check configuration is translated
// to v2 and must stay switched off if it was switched off (lint and breaking then report nothing before
// and after `buf config migrate`).

import (
	"context"
	"fmt"
	"os"
	"strings"
	"testing"

	"github.com/bufbuild/buf/private/bufpkg/bufconfig"
	"github.com/bufbuild/buf/private/pkg/slogtestext"
)

func TestVerifReplayC16(t *testing.T) {
	obl := os.Getenv("VERIF_REPLAY_OBLIGATION")
	logger := slogtestext.NewLogger(t)
	docs := []string{
		"version: v1\nlint:\n  ignore:\n    - .\nbreaking:\n  ignore:\n    - .\n",
		"version: v1beta1\nlint:\n  ignore:\n    - .\n",
		"version: v1\nlint:\n  use:\n    - DEFAULT\n  ignore:\n    - a\n",
	}
	found := 0
	for _, doc := range docs {
		f, err := bufconfig.ReadBufYAMLFile(strings.NewReader(doc), "buf.yaml")
		if err != nil {
			continue
		}
		for _, mc := range f.ModuleConfigs() {
			lc, err := equivalentLintConfigInV2(context.Background(), logger, mc.LintConfig())
			if err == nil && lc.Disabled() != mc.LintConfig().Disabled() {
				fmt.Printf("VERIF-REPLAY FAILING-INPUT buf.yaml %q: lint is disabled=%v before migration, the migrated v2 lint config has disabled=%v use=%v ignore=%v\n", doc, mc.LintConfig().Disabled(), lc.Disabled(), lc.UseIDsAndCategories(), lc.IgnorePaths())
				found++
			}
			bc, err := equivalentBreakingConfigInV2(context.Background(), logger, mc.BreakingConfig())
			if err == nil && bc.Disabled() != mc.BreakingConfig().Disabled() {
				fmt.Printf("VERIF-REPLAY FAILING-INPUT buf.yaml %q: breaking is disabled=%v before migration, the migrated v2 breaking config has disabled=%v use=%v ignore=%v\n", doc, mc.BreakingConfig().Disabled(), bc.Disabled(), bc.UseIDsAndCategories(), bc.IgnorePaths())
				found++
			}
		}
	}
	if found == 0 {
		fmt.Printf("VERIF-REPLAY no failing migration in the catalogue for %q\n", obl)
	}
}
