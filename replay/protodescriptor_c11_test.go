package protodescriptor

// Replay / bounded contract run for the C11 obligations of package protodescriptor; injected with go test -overlay.
//
// Inputs: file descriptors built from every combination of
//   name / package / syntax {unset, set}, edition {unset, 2023}, dependency list {none, three entries with a public
//   and a weak index}, {no, one} message / enum / service / extension, file options {unset, set}, source code info
//   {unset, one location}, unknown (unrecognised) bytes {none, one varint field, one length-delimited field},
// each handed over (a) as *descriptorpb.FileDescriptorProto and (b) wrapped in a different Go type that
// offers the same accessor methods (as an image file does).
//
// Oracle (doc comment of FileDescriptorProtoForFileDescriptor and the C11 statement: nothing of a descriptor is lost
// on the way into an image / out of it): a *descriptorpb.FileDescriptorProto comes back as the very same
// pointer; for every other FileDescriptor the result is a FileDescriptorProto that is proto.Equal to the
// wrapped one (name, package and syntax are never set-but-empty in this family), field by field, and carries
// the same unknown bytes.

import (
	"bytes"
	"fmt"
	"os"
	"sort"
	"strings"
	"testing"

	"google.golang.org/protobuf/encoding/protowire"
	"google.golang.org/protobuf/proto"
	"google.golang.org/protobuf/types/descriptorpb"
)

// c11pWrapped is a FileDescriptor that is not a *descriptorpb.FileDescriptorProto.
type c11pWrapped struct {
	*descriptorpb.FileDescriptorProto
}

type c11pFailure struct {
	tag  string
	text string
}

func c11pBuild(bits int) (*descriptorpb.FileDescriptorProto, string) {
	file := &descriptorpb.FileDescriptorProto{}
	var parts []string
	on := func(i int) bool { return bits&(1<<i) != 0 }
	if on(0) {
		file.Name = proto.String("a/b.proto")
		parts = append(parts, "name")
	}
	if on(1) {
		file.Package = proto.String("a.b")
		parts = append(parts, "package")
	}
	if on(2) {
		if on(3) {
			file.Syntax = proto.String("editions")
			edition := descriptorpb.Edition_EDITION_2023
			file.Edition = &edition
			parts = append(parts, "edition 2023")
		} else {
			file.Syntax = proto.String("proto3")
			parts = append(parts, "syntax proto3")
		}
	}
	if on(4) {
		file.Dependency = []string{"x.proto", "y.proto", "z.proto"}
		file.PublicDependency = []int32{1}
		file.WeakDependency = []int32{2}
		parts = append(parts, "dependencies [x.proto, public y.proto, weak z.proto]")
	}
	if on(5) {
		file.MessageType = []*descriptorpb.DescriptorProto{{Name: proto.String("M"), ExtensionRange: []*descriptorpb.DescriptorProto_ExtensionRange{{Start: proto.Int32(100), End: proto.Int32(200)}}}}
		file.EnumType = []*descriptorpb.EnumDescriptorProto{{Name: proto.String("E"), Value: []*descriptorpb.EnumValueDescriptorProto{{Name: proto.String("E_ZERO"), Number: proto.Int32(0)}}}}
		parts = append(parts, "message M, enum E")
	}
	if on(6) {
		file.Service = []*descriptorpb.ServiceDescriptorProto{{Name: proto.String("S")}}
		file.Extension = []*descriptorpb.FieldDescriptorProto{{Name: proto.String("ext"), Number: proto.Int32(100), Extendee: proto.String(".a.b.M"), Type: descriptorpb.FieldDescriptorProto_TYPE_STRING.Enum(), Label: descriptorpb.FieldDescriptorProto_LABEL_OPTIONAL.Enum()}}
		parts = append(parts, "service S, extension ext")
	}
	if on(7) {
		file.Options = &descriptorpb.FileOptions{GoPackage: proto.String("example.com/ab"), Deprecated: proto.Bool(true)}
		parts = append(parts, "file options")
	}
	if on(8) {
		file.SourceCodeInfo = &descriptorpb.SourceCodeInfo{Location: []*descriptorpb.SourceCodeInfo_Location{{Path: []int32{4, 0}, Span: []int32{1, 0, 2, 1}, LeadingComments: proto.String(" M\n")}}}
		parts = append(parts, "source code info")
	}
	switch (bits >> 9) & 3 {
	case 1:
		file.ProtoReflect().SetUnknown(protowire.AppendVarint(protowire.AppendTag(nil, 8042, protowire.VarintType), 7))
		parts = append(parts, "unknown varint field 8042")
	case 2:
		file.ProtoReflect().SetUnknown(protowire.AppendBytes(protowire.AppendTag(nil, 8042, protowire.BytesType), []byte("image file extension")))
		parts = append(parts, "unknown bytes field 8042")
	case 3:
		return nil, ""
	}
	if len(parts) == 0 {
		parts = append(parts, "empty")
	}
	return file, "{" + strings.Join(parts, "; ") + "}"
}

func TestVerifReplayC11(t *testing.T) {
	fn := os.Getenv("VERIF_REPLAY_FUNC")
	obligation := os.Getenv("VERIF_REPLAY_OBLIGATION")
	switch fn {
	case "FileDescriptorProtoForFileDescriptor", "FileDescriptorProtosForFileDescriptors":
	default:
		fmt.Printf("VERIF-REPLAY no harness for %q\n", fn)
		return
	}
	var failures []c11pFailure
	fail := func(tag string, format string, a ...any) {
		failures = append(failures, c11pFailure{tag, fmt.Sprintf(format, a...)})
	}
	checked := 0
	for bits := 0; bits < 1<<11; bits++ {
		file, text := c11pBuild(bits)
		if file == nil {
			continue
		}
		checked++
		original := proto.Clone(file).(*descriptorpb.FileDescriptorProto)
		// (a) the descriptor proto itself
		if got := FileDescriptorProtoForFileDescriptor(file); got != file {
			fail("descriptor-proto-returned-as-is", "FileDescriptorProtoForFileDescriptor(*FileDescriptorProto%s) returned a different object; want the input itself", text)
		}
		// (b) another FileDescriptor implementation
		var got *descriptorpb.FileDescriptorProto
		if fn == "FileDescriptorProtosForFileDescriptors" {
			list := FileDescriptorProtosForFileDescriptors(c11pWrapped{file})
			if len(list) != 1 {
				fail("one-per-input", "FileDescriptorProtosForFileDescriptors(wrapped%s) returned %d descriptors; want 1", text, len(list))
				continue
			}
			got = list[0]
		} else {
			got = FileDescriptorProtoForFileDescriptor(c11pWrapped{file})
		}
		if got == nil {
			fail("built", "FileDescriptorProtoForFileDescriptor(wrapped%s) = nil", text)
			continue
		}
		check := func(tag string, what string, same bool, gotValue any, wantValue any) {
			if !same {
				fail(tag, "FileDescriptorProtoForFileDescriptor(non-proto FileDescriptor%s): %s = %v; want %v", text, what, gotValue, wantValue)
			}
		}
		check("name", "name", got.GetName() == original.GetName() && (got.Name != nil) == (original.Name != nil), got.Name, original.Name)
		check("package", "package", got.GetPackage() == original.GetPackage() && (got.Package != nil) == (original.Package != nil), got.Package, original.Package)
		check("syntax", "syntax", got.GetSyntax() == original.GetSyntax() && (got.Syntax != nil) == (original.Syntax != nil), got.Syntax, original.Syntax)
		check("edition", "edition", got.GetEdition() == original.GetEdition() && (got.Edition != nil) == (original.Edition != nil), got.Edition, original.Edition)
		check("dependency", "dependency", fmt.Sprint(got.GetDependency()) == fmt.Sprint(original.GetDependency()), got.GetDependency(), original.GetDependency())
		check("public-dependency", "public_dependency", fmt.Sprint(got.GetPublicDependency()) == fmt.Sprint(original.GetPublicDependency()), got.GetPublicDependency(), original.GetPublicDependency())
		check("weak-dependency", "weak_dependency", fmt.Sprint(got.GetWeakDependency()) == fmt.Sprint(original.GetWeakDependency()), got.GetWeakDependency(), original.GetWeakDependency())
		check("unknown-fields-kept", "unknown (unrecognised) bytes", bytes.Equal(got.ProtoReflect().GetUnknown(), original.ProtoReflect().GetUnknown()), fmt.Sprintf("%x", []byte(got.ProtoReflect().GetUnknown())), fmt.Sprintf("%x", []byte(original.ProtoReflect().GetUnknown())))
		if !proto.Equal(got, original) {
			fail("message-type enum-type service extension options source-code-info", "FileDescriptorProtoForFileDescriptor(non-proto FileDescriptor%s) = {%v}; want a descriptor equal to {%v}", text, got, original)
		}
		if !proto.Equal(file, original) {
			fail("input-untouched", "FileDescriptorProtoForFileDescriptor(non-proto FileDescriptor%s) changed its input", text)
		}
	}
	label := ""
	if i := strings.LastIndex(obligation, "["); i >= 0 {
		label = strings.TrimSuffix(obligation[i+1:], "]")
	}
	sort.SliceStable(failures, func(a, b int) bool {
		ma := label != "" && strings.Contains(" "+failures[a].tag+" ", " "+label+" ")
		mb := label != "" && strings.Contains(" "+failures[b].tag+" ", " "+label+" ")
		return ma && !mb
	})
	printed := map[string]bool{}
	count := 0
	for _, f := range failures {
		if count >= 5 {
			break
		}
		if printed[f.tag] {
			continue
		}
		printed[f.tag] = true
		fmt.Printf("VERIF-REPLAY FAILING-INPUT %s\n", f.text)
		count++
	}
	fmt.Printf("VERIF-REPLAY %s: checked %d inputs, %d deviations from the documented behaviour\n", fn, checked, len(failures))
}
