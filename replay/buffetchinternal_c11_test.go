package internal

// Replay / bounded contract run for the C11 obligations of package buffetch/internal: the option half of the
// (format, compression) decision ("path#key=value,..." parsing, #format= / #compression= overriding what the path
// said, unknown values being errors, a format's default compression applying only when none was decided), the parsed
// refs carrying the decided pair, and the reader / writer using the codec named by the ref. Injected with
// go test -overlay.
//
// Inputs: a systematic family of ref strings (paths with documented extensions x every option combination, including
// duplicated keys, malformed pairs and unknown values), hand-made RawRef values for the internal steps, and for the
// reader / writer every (ref compression, actual bytes on disk or stdin/stdout, keep/no-compression flag, entry point).
//
// Oracle (from the contract clauses and the doc comments; never from the functions under test): literal decision
// tables in this file; for the codecs the bytes are produced / checked INDEPENDENTLY with compress/gzip and
// klauspost zstd (magic numbers 1f 8b and 28 b5 2f fd).

import (
	"bytes"
	stdgzip "compress/gzip"
	"context"
	"fmt"
	"io"
	"log/slog"
	"os"
	"path/filepath"
	"sort"
	"strings"
	"testing"

	"github.com/bufbuild/buf/private/pkg/app"
	"github.com/bufbuild/buf/private/pkg/storage/storageos"
	kzstd "github.com/klauspost/compress/zstd"
)

var c11fLogger = slog.New(slog.NewTextHandler(io.Discard, nil))

type c11fFailure struct {
	tag  string
	text string
}

type c11fRun struct {
	failures []c11fFailure
	checked  int
}

func (r *c11fRun) fail(tag string, format string, a ...any) {
	r.failures = append(r.failures, c11fFailure{tag, fmt.Sprintf(format, a...)})
}

func c11fCompName(c CompressionType) string {
	switch c {
	case 0:
		return "unset(0)"
	case CompressionTypeNone:
		return "none"
	case CompressionTypeGzip:
		return "gzip"
	case CompressionTypeZstd:
		return "zstd"
	}
	return fmt.Sprintf("CompressionType(%d)", int(c))
}

// ---------------------------------------------------------------- parseCompressionType / String / normalizeFormat

func (r *c11fRun) familyParseCompression() {
	want := map[string]CompressionType{"none": CompressionTypeNone, "gzip": CompressionTypeGzip, "zstd": CompressionTypeZstd}
	labels := map[string]string{"none": "none", "gzip": "gzip", "zstd": "zstd"}
	for _, v := range []string{"none", "gzip", "zstd", "", "bogus", "GZIP", "gz", "zst", " gzip", "None", "zstd ", "zstandard", "0", "1"} {
		r.checked++
		got, err := parseCompressionType(v)
		if w, ok := want[v]; ok {
			if err != nil || got != w {
				r.fail(labels[v], "parseCompressionType(%q): got (%s, err=%v); want (%s, nil): #compression= accepts exactly none, gzip, zstd", v, c11fCompName(got), err, c11fCompName(w))
			}
			continue
		}
		if err == nil || got != 0 {
			r.fail("unknown-is-an-error", "parseCompressionType(%q): got (%s, err=%v); want (0, an error): an unknown compression value is an error, never a silent default", v, c11fCompName(got), err)
		}
	}
	for c, w := range map[CompressionType]string{CompressionTypeNone: "none", CompressionTypeGzip: "gzip", CompressionTypeZstd: "zstd"} {
		r.checked++
		if got := c.String(); got != w {
			r.fail(w, "CompressionType(%d).String(): got %q; want %q", int(c), got, w)
		}
	}
	for _, f := range []string{" JSON ", "BinPB", "", "  ", "yaml", "\tTxtPb\n", "Tar.GZ"} {
		r.checked++
		if got, w := normalizeFormat(f), strings.ToLower(strings.TrimSpace(f)); got != w {
			r.fail("0", "normalizeFormat(%q): got %q; want %q", f, got, w)
		}
	}
}

// ---------------------------------------------------------------- getRawPathAndOptions

// c11fSplitRef is the documented reading of "path#key=value,key=value".
func c11fSplitRef(value string) (string, map[string]string, bool) {
	v := strings.TrimSpace(value)
	if v == "" {
		return "", nil, false
	}
	n := strings.Count(v, "#")
	if n == 0 {
		return v, nil, true
	}
	if n > 1 {
		return "", nil, false
	}
	i := strings.Index(v, "#")
	path := strings.TrimSpace(v[:i])
	rest := strings.TrimSpace(v[i+1:])
	if path == "" || rest == "" {
		return "", nil, false
	}
	opts := map[string]string{}
	for len(rest) >= 0 {
		pair := rest
		j := strings.Index(rest, ",")
		if j >= 0 {
			pair = rest[:j]
		}
		if strings.Count(pair, "=") != 1 {
			return "", nil, false
		}
		e := strings.Index(pair, "=")
		k, val := strings.TrimSpace(pair[:e]), strings.TrimSpace(pair[e+1:])
		if k == "" || val == "" {
			return "", nil, false
		}
		if _, dup := opts[k]; dup {
			return "", nil, false // a repeated key is an error
		}
		opts[k] = val
		if j < 0 {
			break
		}
		rest = rest[j+1:]
	}
	return path, opts, true
}

func (r *c11fRun) familyRawPathAndOptions() {
	paths := []string{"x.binpb", " x.json ", "", "-", "dir/sub"}
	suffixes := []string{
		"", "#", "#a=1", "#a=1,b=2", "#a=1,a=2", "#a=1,a=1", "#format=json,format=binpb", "#compression=gzip,compression=zstd",
		"#format=json,compression=gzip,format=yaml", "#a", "#a=", "#=1", "#a=1=2", "#a=1#b=2", "# a = 1 , b = 2 ", "#a=1,", "#,a=1",
		"#format=binpb", "#format=binpb,compression=zstd", "##", "#a=1,b", " ",
	}
	for _, p := range paths {
		for _, s := range suffixes {
			value := p + s
			r.checked++
			wPath, wOpts, wOK := c11fSplitRef(value)
			gPath, gOpts, err := getRawPathAndOptions(value)
			tag := "pairs-so-far every-pair-recorded nothing-else-recorded only-pairs-so-far"
			switch {
			case strings.TrimSpace(value) == "":
				tag = "empty-value-rejected"
			case !strings.Contains(value, "#"):
				tag = "no-hash-no-options path-never-empty"
			case strings.Count(value, "#") > 1:
				tag = "second-hash-rejected"
			}
			if !wOK {
				if err == nil {
					if strings.Count(value, "#") == 1 && strings.Contains(s, "=") {
						tag += " malformed-pair-rejected"
					}
					r.fail(tag, "getRawPathAndOptions(%q): got (path %q, options %v, nil); want an error (empty value, a second '#', a pair that is not key=value, an empty key or value and a repeated key are errors)", value, gPath, gOpts)
				}
				continue
			}
			if err != nil {
				r.fail(tag, "getRawPathAndOptions(%q): got error %v; want (path %q, options %v)", value, err, wPath, wOpts)
				continue
			}
			if gPath != wPath || gPath == "" {
				r.fail(tag+" path-is-the-part-before-the-hash", "getRawPathAndOptions(%q): got path %q; want %q", value, gPath, wPath)
			}
			if !c11fSameMap(gOpts, wOpts) {
				r.fail(tag, "getRawPathAndOptions(%q): got options %v; want %v", value, gOpts, wOpts)
			}
		}
	}
}

func c11fSameMap(a, b map[string]string) bool {
	if len(a) != len(b) {
		return false
	}
	for k, v := range a {
		if w, ok := b[k]; !ok || w != v {
			return false
		}
	}
	return true
}

// ---------------------------------------------------------------- the test parser and its decision table

type c11fProc struct {
	format string
	comp   CompressionType
}

// what the harness's own raw ref processor (the "path half") answers for each path
var c11fPathTable = map[string]c11fProc{
	"-":            {"binpb", 0},
	"x.binpb":      {"binpb", 0},
	"x.json":       {"json", 0},
	"x.txtpb":      {"txtpb", 0},
	"x.yaml":       {"yaml", 0},
	"x.binpb.gz":   {"binpb", CompressionTypeGzip},
	"x.json.zst":   {"json", CompressionTypeZstd},
	"x.tar":        {"tar", 0},
	"x.tar.gz":     {"tar", CompressionTypeGzip},
	"x.tar.zst":    {"tar", CompressionTypeZstd},
	"x.zip":        {"zip", 0},
	"x":            {"dir", 0},
	"x.unknown":    {"", 0},
	"x.strange":    {"strange", 0},
	"/dev/null":    {"binpb", 0},
	"sub/y.binpb":  {"binpb", 0},
	"file://a.bin": {"binpb", 0},
}

var c11fPaths = []string{"-", "x.binpb", "x.json", "x.txtpb", "x.yaml", "x.binpb.gz", "x.json.zst", "x.tar", "x.tar.gz", "x.tar.zst", "x.zip", "x", "x.unknown", "x.strange", "/dev/null", "sub/y.binpb", "file://a.bin"}

// kinds and default compressions of the formats the harness registers
type c11fFormatInfo struct {
	kind string // single, archive, dir, git, mod, protofile
	def  CompressionType
	zip  bool
}

var c11fFormats = map[string]c11fFormatInfo{
	"binpb":     {"single", CompressionTypeNone, false},
	"json":      {"single", CompressionTypeNone, false},
	"txtpb":     {"single", CompressionTypeNone, false},
	"yaml":      {"single", CompressionTypeNone, false},
	"bingz":     {"single", CompressionTypeGzip, false},
	"binzst":    {"single", CompressionTypeZstd, false},
	"tar":       {"archive", CompressionTypeNone, false},
	"targz":     {"archive", CompressionTypeGzip, false},
	"zip":       {"archive", CompressionTypeNone, true},
	"dir":       {"dir", 0, false},
	"git":       {"git", 0, false},
	"mod":       {"mod", 0, false},
	"protofile": {"protofile", 0, false},
}

func c11fNewParser() *refParser {
	return newRefParser(
		c11fLogger,
		WithRawRefProcessor(func(rawRef *RawRef) error {
			if p, ok := c11fPathTable[rawRef.Path]; ok {
				rawRef.Format = p.format
				rawRef.CompressionType = p.comp
			}
			return nil
		}),
		WithSingleFormat("binpb", WithSingleCustomOptionKey("k")),
		WithSingleFormat("json"),
		WithSingleFormat("txtpb"),
		WithSingleFormat("yaml"),
		WithSingleFormat("bingz", WithSingleDefaultCompressionType(CompressionTypeGzip)),
		WithSingleFormat("binzst", WithSingleDefaultCompressionType(CompressionTypeZstd)),
		WithArchiveFormat("tar", ArchiveTypeTar),
		WithArchiveFormat("targz", ArchiveTypeTar, WithArchiveDefaultCompressionType(CompressionTypeGzip)),
		WithArchiveFormat("zip", ArchiveTypeZip),
		WithDirFormat("dir"),
		WithGitFormat("git"),
		WithModuleFormat("mod"),
		WithProtoFileFormat("protofile"),
	)
}

var c11fFormatOptions = []string{"", "binpb", "json", "txtpb", "yaml", "bingz", "binzst", "tar", "targz", "zip", "dir", "foo", "JSON"}
var c11fCompOptions = []string{"", "none", "gzip", "zstd", "bogus", "GZIP"}
var c11fKnownComp = map[string]CompressionType{"none": CompressionTypeNone, "gzip": CompressionTypeGzip, "zstd": CompressionTypeZstd}

// ---------------------------------------------------------------- getRawRef

func (r *c11fRun) familyGetRawRef() {
	a := c11fNewParser()
	for _, path := range c11fPaths {
		proc := c11fPathTable[path]
		for _, f := range c11fFormatOptions {
			for _, c := range c11fCompOptions {
				options := map[string]string{}
				if f != "" {
					options["format"] = f
				}
				if c != "" {
					options["compression"] = c
				}
				r.checked++
				desc := fmt.Sprintf("getRawRef(path %q, options %v) [the path alone says format %q, compression %s]", path, options, proc.format, c11fCompName(proc.comp))
				got, err := a.getRawRef(path, path, options)
				if err != nil && got != nil {
					r.fail("failure-has-no-ref", "%s: got a ref together with error %v", desc, err)
				}
				wantComp, known := proc.comp, true
				if c != "" {
					wantComp, known = c11fKnownComp[c]
				}
				if !known {
					if err == nil {
						r.fail("unknown-compression-is-an-error compression-value-known", "%s: got (format %q, compression %s, nil); want an error: #compression=%s is not none, gzip or zstd", desc, got.Format, c11fCompName(got.CompressionType), c)
					}
					continue
				}
				if f != "" && path == "/dev/null" {
					if err == nil {
						r.fail("dev-null-format-override-rejected", "%s: got no error; want an error: the format of /dev/null cannot be overridden", desc)
					}
					continue
				}
				wantFormat := proc.format
				if f != "" {
					wantFormat = f
				}
				info, registered := c11fFormats[wantFormat]
				wantErr := wantFormat == "" ||
					(registered && info.zip && wantComp != 0) ||
					((!registered || (info.kind != "single" && info.kind != "archive")) && wantComp != 0)
				if wantErr {
					if err == nil {
						tag := "format-decided"
						if wantFormat != "" {
							tag = "compressed-zip-rejected compression-only-for-files"
						}
						r.fail(tag, "%s: got (format %q, compression %s, nil); want an error (no format / compression not allowed for format %q)", desc, got.Format, c11fCompName(got.CompressionType), wantFormat)
					}
					continue
				}
				if err != nil {
					r.fail("plain-file-ref-accepted", "%s: got error %v; want format %q, compression %s", desc, err, wantFormat, c11fCompName(wantComp))
					continue
				}
				if got.Format != wantFormat {
					tag := "path-format-otherwise format-otherwise-from-path"
					if f != "" {
						tag = "format-option-applied explicit-format-wins"
					}
					r.fail(tag, "%s: got format %q; want %q (an explicit #format= overrides what the path said)", desc, got.Format, wantFormat)
				}
				if got.CompressionType != wantComp {
					tag := "path-compression-otherwise compression-otherwise-from-path"
					if c != "" {
						tag = "explicit-compression-" + c + " compression-" + c + "-applied"
					}
					r.fail(tag, "%s: got compression %s; want %s (an explicit #compression= overrides what the path said)", desc, c11fCompName(got.CompressionType), c11fCompName(wantComp))
				}
			}
		}
	}
}

// ---------------------------------------------------------------- validateRawRef

func (r *c11fRun) familyValidateRawRef() {
	a := c11fNewParser()
	for _, f := range []string{"", "binpb", "json", "bingz", "tar", "targz", "zip", "dir", "git", "mod", "protofile", "foo"} {
		for _, c := range []CompressionType{0, CompressionTypeNone, CompressionTypeGzip, CompressionTypeZstd} {
			for _, extra := range []string{"", "branch", "strip", "subdir"} {
				raw := &RawRef{Path: "x", Format: f, CompressionType: c, UnrecognizedOptions: map[string]string{}}
				switch extra {
				case "branch":
					raw.GitBranch = "main"
				case "strip":
					raw.ArchiveStripComponents = 1
				case "subdir":
					raw.SubDirPath = "sub"
				}
				r.checked++
				desc := fmt.Sprintf("validateRawRef(RawRef{Format %q, CompressionType %s, %s})", f, c11fCompName(c), extra)
				err := a.validateRawRef("x", raw)
				info, registered := c11fFormats[f]
				switch {
				case f == "":
					if err == nil {
						r.fail("format-required", "%s: got nil; want an error: a ref without a format is an error", desc)
					}
				case registered && info.zip && c != 0:
					if err == nil {
						r.fail("compressed-zip-rejected", "%s: got nil; want an error: compression cannot be specified for zip", desc)
					}
				case (!registered || (info.kind != "single" && info.kind != "archive")) && c != 0:
					if err == nil {
						r.fail("compression-only-for-files", "%s: got nil; want an error: compression is only for single-file and archive formats", desc)
					}
				case registered && info.kind == "single" && extra == "":
					if err != nil {
						r.fail("plain-file-ref-accepted", "%s: got %v; want nil", desc, err)
					}
				}
			}
		}
	}
}

// ---------------------------------------------------------------- parseRawRef, getSingleRef, getArchiveRef

func c11fIsNilRef(v any) bool {
	if v == nil {
		return true
	}
	switch t := v.(type) {
	case *singleRef:
		return t == nil
	case *archiveRef:
		return t == nil
	case *dirRef:
		return t == nil
	}
	return false
}

func (r *c11fRun) familyParseRawRef() {
	a := c11fNewParser()
	allowedSets := [][]string{nil, {"binpb", "tar"}, {"dir"}}
	for _, f := range []string{"binpb", "json", "txtpb", "yaml", "bingz", "binzst", "tar", "targz", "zip", "dir", "foo", "", "BINPB", "proto"} {
		for _, c := range []CompressionType{0, CompressionTypeNone, CompressionTypeGzip, CompressionTypeZstd} {
			for _, path := range []string{"x.data", "-"} {
				for _, allowedList := range allowedSets {
					var allowed map[string]struct{}
					if allowedList != nil {
						allowed = map[string]struct{}{}
						for _, s := range allowedList {
							allowed[s] = struct{}{}
						}
					}
					raw := &RawRef{Path: path, Format: f, CompressionType: c, UnrecognizedOptions: map[string]string{}}
					r.checked++
					desc := fmt.Sprintf("parseRawRef(RawRef{Path %q, Format %q, CompressionType %s}, allowed %v)", path, f, c11fCompName(c), allowedList)
					got, err := a.parseRawRef(raw, allowed)
					info, registered := c11fFormats[f]
					if !registered {
						if err == nil || !c11fIsNilRef(got) {
							r.fail("unknown-format-is-an-error", "%s: got (%T, err=%v); want (nil, an error): a format no parser knows is an error, never a silent default", desc, got, err)
						}
						continue
					}
					if _, ok := allowed[f]; len(allowed) > 0 && !ok {
						if err == nil || !c11fIsNilRef(got) {
							r.fail("disallowed-format-is-an-error", "%s: got (%T, err=%v); want (nil, an error): the format is not one of the allowed formats", desc, got, err)
						}
						continue
					}
					wantComp := c
					if wantComp == 0 {
						wantComp = info.def
					}
					switch info.kind {
					case "single":
						if err != nil {
							r.fail("single-format-gives-single-ref", "%s: got error %v; want a single-file ref", desc, err)
							continue
						}
						s, ok := got.(*singleRef)
						if !ok || s == nil || s.format != f {
							r.fail("single-format-gives-single-ref", "%s: got %T %+v; want a *singleRef with format %q", desc, got, got, f)
							continue
						}
						if s.compressionType != wantComp {
							tag := "single-default-compression default-compression-only-when-unset"
							if c != 0 {
								tag = "single-explicit-compression explicit-compression-wins"
							}
							r.fail(tag, "%s: got compression %s; want %s (the format's default %s applies only when no compression was decided)", desc, c11fCompName(s.compressionType), c11fCompName(wantComp), c11fCompName(info.def))
						}
					case "archive":
						if info.zip && wantComp != CompressionTypeNone {
							if err == nil {
								r.fail("compressed-zip-rejected", "%s: got no error; want an error: a compressed zip is rejected", desc)
							}
							continue
						}
						if err != nil {
							r.fail("archive-format-gives-archive-ref", "%s: got error %v; want an archive ref", desc, err)
							continue
						}
						s, ok := got.(*archiveRef)
						wantType := ArchiveTypeTar
						if info.zip {
							wantType = ArchiveTypeZip
						}
						if !ok || s == nil || s.format != f || s.archiveType != wantType {
							r.fail("archive-format-gives-archive-ref", "%s: got %T %+v; want an *archiveRef with format %q", desc, got, got, f)
							continue
						}
						if s.compressionType != wantComp {
							tag := "archive-default-compression default-compression-only-when-unset"
							if c != 0 {
								tag = "archive-explicit-compression explicit-compression-wins"
							}
							r.fail(tag, "%s: got compression %s; want %s", desc, c11fCompName(s.compressionType), c11fCompName(wantComp))
						}
					}
				}
			}
		}
	}
}

func (r *c11fRun) familyGetSingleAndArchiveRef() {
	custom := map[string]struct{}{"k": {}}
	for _, c := range []CompressionType{0, CompressionTypeNone, CompressionTypeGzip, CompressionTypeZstd} {
		for _, def := range []CompressionType{CompressionTypeNone, CompressionTypeGzip, CompressionTypeZstd} {
			for _, path := range []string{"x.data", "-", ""} {
				for _, unrec := range []map[string]string{{}, {"k": "v"}, {"bad": "v"}, {"k": "v", "other": "w"}} {
					raw := &RawRef{Path: path, Format: "binpb", CompressionType: c, UnrecognizedOptions: unrec}
					r.checked++
					desc := fmt.Sprintf("getSingleRef(RawRef{Path %q, Format \"binpb\", CompressionType %s, UnrecognizedOptions %v}, default %s, custom keys [k])", path, c11fCompName(c), unrec, c11fCompName(def))
					got, err := getSingleRef(raw, def, custom)
					badKey := false
					for k := range unrec {
						if k != "k" {
							badKey = true
						}
					}
					if badKey || path == "" {
						if err == nil {
							r.fail("unknown-option-key-rejected bad-key-collected empty-path-rejected", "%s: got no error; want an error", desc)
						}
						continue
					}
					if err != nil {
						r.fail("built", "%s: got error %v; want a ref", desc, err)
						continue
					}
					s, ok := got.(*singleRef)
					if !ok || s == nil {
						r.fail("built", "%s: got %T; want a *singleRef", desc, got)
						continue
					}
					if s.format != "binpb" {
						r.fail("format-kept", "%s: got format %q; want \"binpb\"", desc, s.format)
					}
					want := c
					tag := "explicit-compression-wins"
					if c == 0 {
						want = def
						tag = "default-compression-only-when-unset"
					}
					if s.compressionType != want {
						r.fail(tag, "%s: got compression %s; want %s (an explicit compression wins; the default applies only when none was given)", desc, c11fCompName(s.compressionType), c11fCompName(want))
					}
				}
			}
			for _, at := range []ArchiveType{ArchiveTypeTar, ArchiveTypeZip} {
				raw := &RawRef{Path: "x.data", Format: "tar", CompressionType: c, UnrecognizedOptions: map[string]string{}}
				r.checked++
				desc := fmt.Sprintf("getArchiveRef(RawRef{Path \"x.data\", Format \"tar\", CompressionType %s}, archive type %d, default %s)", c11fCompName(c), int(at), c11fCompName(def))
				got, err := getArchiveRef(raw, at, def)
				want := c
				tag := "explicit-compression-wins"
				if c == 0 {
					want = def
					tag = "default-compression-only-when-unset"
				}
				if at == ArchiveTypeZip && want != CompressionTypeNone {
					if err == nil {
						r.fail("compressed-zip-rejected", "%s: got no error; want an error", desc)
					}
					continue
				}
				if err != nil {
					r.fail("built", "%s: got error %v; want a ref", desc, err)
					continue
				}
				s, ok := got.(*archiveRef)
				if !ok || s == nil {
					r.fail("built", "%s: got %T; want an *archiveRef", desc, got)
					continue
				}
				if s.format != "tar" || s.archiveType != at {
					r.fail("format-kept", "%s: got format %q type %d; want \"tar\" type %d", desc, s.format, int(s.archiveType), int(at))
				}
				if s.compressionType != want {
					r.fail(tag, "%s: got compression %s; want %s", desc, c11fCompName(s.compressionType), c11fCompName(want))
				}
			}
		}
	}
}

// ---------------------------------------------------------------- newSingleRef / newDirectSingleRef / newArchiveRef / newDirectArchiveRef

func (r *c11fRun) familyNewRefs() {
	paths := []string{"", "-", "x", "a/b.bin", "./a//b", "file://a/b", "http://h/p", "https://h/p", "ftp://x", "/dev/stdin", "/dev/stdout", "/dev/null", "/dev/stderr", "file://", "--", " -"}
	for _, path := range paths {
		for _, f := range []string{"binpb", "json", "foo"} {
			for _, c := range []CompressionType{CompressionTypeNone, CompressionTypeGzip, CompressionTypeZstd} {
				r.checked++
				desc := fmt.Sprintf("newSingleRef(format %q, path %q, %s, nil)", f, path, c11fCompName(c))
				got, err := newSingleRef(f, path, c, nil)
				if err != nil && got != nil {
					r.fail("failure-has-no-ref", "%s: got a ref together with error %v", desc, err)
				}
				if path == "" {
					if err == nil {
						r.fail("empty-path-rejected", "%s: got no error; want an error", desc)
					}
					continue
				}
				if path == "-" {
					if err != nil || got == nil || got.fileScheme != FileSchemeStdio || got.path != "" {
						r.fail("dash-is-stdio", "%s: got (%+v, err=%v); want the stdio scheme with an empty path", desc, got, err)
						continue
					}
				}
				if err != nil {
					continue
				}
				if got == nil {
					r.fail("built", "%s: got (nil, nil)", desc)
					continue
				}
				if got.format != f {
					r.fail("format-kept", "%s: got format %q; want %q", desc, got.format, f)
				}
				if got.compressionType != c {
					r.fail("compression-kept", "%s: got compression %s; want %s", desc, c11fCompName(got.compressionType), c11fCompName(c))
				}
				if got.fileScheme == FileSchemeStdio && path != "-" {
					r.fail("stdio-only-for-dash", "%s: got the stdio scheme; only \"-\" is stdio", desc)
				}
				// archive refs wrap the same decision
				for _, at := range []ArchiveType{ArchiveTypeTar, ArchiveTypeZip} {
					r.checked++
					adesc := fmt.Sprintf("newArchiveRef(format %q, path %q, archive type %d, %s, 0, \"\")", f, path, int(at), c11fCompName(c))
					ar, aerr := newArchiveRef(f, path, at, c, 0, "")
					if aerr != nil && ar != nil {
						r.fail("failure-has-no-ref", "%s: got a ref together with error %v", adesc, aerr)
					}
					if at == ArchiveTypeZip && c != CompressionTypeNone {
						if aerr == nil {
							r.fail("compressed-zip-rejected", "%s: got no error; want an error", adesc)
						}
						continue
					}
					if aerr != nil {
						r.fail("format-kept", "%s: got error %v although newSingleRef accepts the path", adesc, aerr)
						continue
					}
					if ar == nil || ar.format != f {
						r.fail("format-kept", "%s: got %+v; want format %q", adesc, ar, f)
						continue
					}
					if ar.compressionType != c {
						r.fail("compression-kept", "%s: got compression %s; want %s", adesc, c11fCompName(ar.compressionType), c11fCompName(c))
					}
					if ar.archiveType != at {
						r.fail("archive-type-kept", "%s: got archive type %d; want %d", adesc, int(ar.archiveType), int(at))
					}
				}
			}
		}
	}
	for _, f := range []string{"binpb", ""} {
		for _, c := range []CompressionType{0, CompressionTypeNone, CompressionTypeGzip, CompressionTypeZstd, 7} {
			for _, fs := range []FileScheme{FileSchemeLocal, FileSchemeStdio, FileSchemeNull} {
				for _, opts := range []map[string]string{nil, {"k": "v"}} {
					r.checked++
					got := newDirectSingleRef(f, "p", fs, c, opts)
					desc := fmt.Sprintf("newDirectSingleRef(%q, \"p\", scheme %d, %s, %v)", f, int(fs), c11fCompName(c), opts)
					if got == nil {
						r.fail("built", "%s: got nil", desc)
						continue
					}
					if got.format != f || got.Format() != f {
						r.fail("format-kept 0", "%s: got format %q / Format() %q; want %q", desc, got.format, got.Format(), f)
					}
					if got.compressionType != c || got.CompressionType() != c {
						r.fail("compression-kept 0", "%s: got compression %s / CompressionType() %s; want %s", desc, c11fCompName(got.compressionType), c11fCompName(got.CompressionType()), c11fCompName(c))
					}
					if got.path != "p" || got.fileScheme != fs || got.Path() != "p" || got.FileScheme() != fs {
						r.fail("path-kept 0", "%s: got path %q scheme %d; want \"p\" scheme %d", desc, got.path, int(got.fileScheme), int(fs))
					}
					if opts != nil && !c11fSameMap(got.customOptions, opts) {
						r.fail("options-kept", "%s: got options %v; want %v", desc, got.customOptions, opts)
					}
					for _, at := range []ArchiveType{ArchiveTypeTar, ArchiveTypeZip} {
						r.checked++
						ar := newDirectArchiveRef(f, "p", fs, at, c, 2, "sub")
						adesc := fmt.Sprintf("newDirectArchiveRef(%q, \"p\", scheme %d, archive type %d, %s, 2, \"sub\")", f, int(fs), int(at), c11fCompName(c))
						if ar == nil {
							r.fail("built", "%s: got nil", adesc)
							continue
						}
						if ar.format != f || ar.compressionType != c || ar.archiveType != at || ar.path != "p" || ar.fileScheme != fs ||
							ar.Format() != f || ar.CompressionType() != c || ar.ArchiveType() != at {
							r.fail("kept 0", "%s: got %+v; want the arguments kept", adesc, ar)
						}
					}
				}
			}
		}
	}
}

// ---------------------------------------------------------------- the whole pipeline on ref strings

func (r *c11fRun) familyPipeline(ctx context.Context) {
	a := c11fNewParser()
	for _, path := range c11fPaths {
		proc := c11fPathTable[path]
		for _, f := range c11fFormatOptions {
			for _, c := range c11fCompOptions {
				var suffixes []string
				switch {
				case f == "" && c == "":
					suffixes = []string{""}
				case f == "":
					suffixes = []string{"#compression=" + c, "#compression=" + c + ",compression=none", "#compression=zstd,compression=" + c}
				case c == "":
					suffixes = []string{"#format=" + f, "#format=" + f + ",format=binpb", "#format=json,format=" + f}
				default:
					suffixes = []string{"#format=" + f + ",compression=" + c, "#compression=" + c + " , format=" + f}
				}
				for _, suffix := range suffixes {
					value := path + suffix
					r.checked++
					desc := fmt.Sprintf("GetParsedRef(%q) [the path alone says format %q, compression %s]", value, proc.format, c11fCompName(proc.comp))
					got, err := a.GetParsedRef(ctx, value)
					if strings.Count(suffix, "format=") > 1 || strings.Count(suffix, "compression=") > 1 {
						if err == nil {
							r.fail("pairs-so-far every-pair-recorded", "%s: got %T %+v; want an error: a repeated option key is an error", desc, got, got)
						}
						continue
					}
					wantComp, known := proc.comp, true
					if c != "" {
						wantComp, known = c11fKnownComp[c]
					}
					if !known {
						if err == nil {
							r.fail("unknown-is-an-error unknown-compression-is-an-error compression-value-known", "%s: got %T %+v; want an error: an unknown compression value is an error", desc, got, got)
						}
						continue
					}
					if f != "" && path == "/dev/null" {
						if err == nil {
							r.fail("dev-null-format-override-rejected", "%s: got no error; want an error", desc)
						}
						continue
					}
					wantFormat := proc.format
					if f != "" {
						wantFormat = f
					}
					info, registered := c11fFormats[wantFormat]
					if !registered {
						if err == nil || !c11fIsNilRef(got) {
							r.fail("unknown-format-is-an-error format-decided format-required", "%s: got (%T %+v, err=%v); want an error: format %q is unknown", desc, got, got, err, wantFormat)
						}
						continue
					}
					if (info.zip && wantComp != 0) || (info.kind != "single" && info.kind != "archive" && wantComp != 0) {
						if err == nil {
							r.fail("compressed-zip-rejected compression-only-for-files", "%s: got no error; want an error: compression is not allowed for format %q", desc, wantFormat)
						}
						continue
					}
					if info.kind != "single" && info.kind != "archive" {
						continue
					}
					tagF := "path-format-otherwise format-otherwise-from-path"
					if f != "" {
						tagF = "format-option-applied explicit-format-wins"
					}
					tagC := "path-compression-otherwise compression-otherwise-from-path"
					if c != "" {
						tagC = "explicit-compression-" + c + " compression-" + c + "-applied " + c + " explicit-compression-wins single-explicit-compression archive-explicit-compression"
					} else if wantComp != 0 {
						tagC += " explicit-compression-wins single-explicit-compression archive-explicit-compression"
					} else {
						tagC += " default-compression-only-when-unset single-default-compression archive-default-compression"
					}
					if wantComp == 0 {
						wantComp = info.def
					}
					if err != nil {
						r.fail(tagF+" single-format-gives-single-ref archive-format-gives-archive-ref", "%s: got error %v; want a %s ref with format %q, compression %s", desc, err, info.kind, wantFormat, c11fCompName(wantComp))
						continue
					}
					var gotFormat string
					var gotComp CompressionType
					kind := ""
					switch t := got.(type) {
					case *singleRef:
						kind, gotFormat, gotComp = "single", t.format, t.compressionType
						if (path == "-") != (t.fileScheme == FileSchemeStdio) {
							r.fail("dash-is-stdio stdio-only-for-dash", "%s: got file scheme %d; \"-\" and only \"-\" is stdio", desc, int(t.fileScheme))
						}
					case *archiveRef:
						kind, gotFormat, gotComp = "archive", t.format, t.compressionType
					}
					if kind != info.kind || gotFormat != wantFormat {
						r.fail(tagF+" single-format-gives-single-ref archive-format-gives-archive-ref format-kept", "%s: got %T with format %q; want a %s ref with format %q", desc, got, gotFormat, info.kind, wantFormat)
						continue
					}
					if gotComp != wantComp {
						r.fail(tagC+" compression-kept", "%s: got compression %s; want %s", desc, c11fCompName(gotComp), c11fCompName(wantComp))
					}
				}
			}
		}
	}
}

// ---------------------------------------------------------------- reader and writer codecs

var c11fPayload = []byte("VERIF C11 payload: \x00\x01\x02 the quick brown fox jumps over the lazy dog; " + strings.Repeat("abcdefgh", 64))

func c11fGzip(p []byte) []byte {
	var b bytes.Buffer
	w := stdgzip.NewWriter(&b)
	_, _ = w.Write(p)
	_ = w.Close()
	return b.Bytes()
}

func c11fZstd(p []byte) []byte {
	var b bytes.Buffer
	w, err := kzstd.NewWriter(&b)
	if err != nil {
		panic(err)
	}
	_, _ = w.Write(p)
	_ = w.Close()
	return b.Bytes()
}

func c11fGunzip(b []byte) ([]byte, error) {
	zr, err := stdgzip.NewReader(bytes.NewReader(b))
	if err != nil {
		return nil, err
	}
	return io.ReadAll(zr)
}

func c11fUnzstd(b []byte) ([]byte, error) {
	zr, err := kzstd.NewReader(bytes.NewReader(b))
	if err != nil {
		return nil, err
	}
	defer zr.Close()
	return io.ReadAll(zr)
}

func c11fBytesName(b []byte) string {
	switch {
	case bytes.Equal(b, c11fPayload):
		return "the plain payload"
	case len(b) >= 2 && b[0] == 0x1f && b[1] == 0x8b:
		return fmt.Sprintf("%d bytes of gzip data (1f 8b ...)", len(b))
	case len(b) >= 4 && b[0] == 0x28 && b[1] == 0xb5 && b[2] == 0x2f && b[3] == 0xfd:
		return fmt.Sprintf("%d bytes of zstd data (28 b5 2f fd ...)", len(b))
	}
	n := len(b)
	if n > 8 {
		n = 8
	}
	return fmt.Sprintf("%d bytes starting % x", len(b), b[:n])
}

func (r *c11fRun) familyReader(ctx context.Context, t *testing.T) {
	dir := t.TempDir()
	contents := []struct {
		name string
		data []byte
		comp CompressionType
	}{
		{"gzip", c11fGzip(c11fPayload), CompressionTypeGzip},
		{"zstd", c11fZstd(c11fPayload), CompressionTypeZstd},
		{"plain", c11fPayload, CompressionTypeNone},
	}
	for _, c := range contents {
		if err := os.WriteFile(filepath.Join(dir, c.name+".data"), c.data, 0o600); err != nil {
			t.Fatal(err)
		}
	}
	rd := newReader(c11fLogger, storageos.NewProvider(), WithReaderLocal(), WithReaderStdio())
	for _, refComp := range []CompressionType{CompressionTypeNone, CompressionTypeGzip, CompressionTypeZstd, 0, 7} {
		for _, content := range contents {
			for _, source := range []string{"file", "stdin"} {
				for _, kind := range []string{"single", "archive"} {
					for _, keep := range []bool{false, true} {
						for _, entry := range []string{"GetFile", "getSingle/getArchiveFile", "getFileReadCloserAndSize"} {
							path, scheme := filepath.Join(dir, content.name+".data"), FileSchemeLocal
							if source == "stdin" {
								path, scheme = "", FileSchemeStdio
							}
							var fileRef FileRef
							if kind == "single" {
								fileRef = newDirectSingleRef("binpb", path, scheme, refComp, nil)
							} else {
								fileRef = newDirectArchiveRef("tar", path, scheme, ArchiveTypeTar, refComp, 0, "")
							}
							container := app.NewContainer(nil, bytes.NewReader(content.data), io.Discard, io.Discard)
							var rc io.ReadCloser
							var err error
							switch entry {
							case "GetFile":
								if keep {
									rc, err = rd.GetFile(ctx, container, fileRef, WithGetFileKeepFileCompression())
								} else {
									rc, err = rd.GetFile(ctx, container, fileRef)
								}
							case "getSingle/getArchiveFile":
								if kind == "single" {
									rc, err = rd.getSingle(ctx, container, fileRef.(SingleRef), keep)
								} else {
									rc, err = rd.getArchiveFile(ctx, container, fileRef.(ArchiveRef), keep)
								}
							default:
								rc, _, err = rd.getFileReadCloserAndSize(ctx, container, fileRef, keep)
							}
							r.checked++
							desc := fmt.Sprintf("reader.%s on a %s ref (%s) with compression %s, keepFileCompression=%v, where the %s holds %s", entry, kind, source, c11fCompName(refComp), keep, source, c11fBytesName(content.data))
							var data []byte
							var readErr error
							if err == nil {
								if rc == nil {
									r.fail("failure-has-no-reader", "%s: got (nil, nil)", desc)
									continue
								}
								data, readErr = io.ReadAll(rc)
								_ = rc.Close()
							} else if rc != nil {
								r.fail("failure-has-no-reader", "%s: got a reader together with error %v", desc, err)
							}
							known := refComp == CompressionTypeNone || refComp == CompressionTypeGzip || refComp == CompressionTypeZstd
							switch {
							case keep || refComp == CompressionTypeNone:
								if err != nil || readErr != nil || !bytes.Equal(data, content.data) {
									r.fail("uncompressed-ref-plain-reader at-most-one-decompressor no-option-no-change", "%s: read %s (err=%v/%v); want the bytes unchanged (no decompressor)", desc, c11fBytesName(data), err, readErr)
								}
							case !known:
								if err == nil {
									r.fail("unknown-compression-is-an-error", "%s: got a reader (read %s); want an error: unknown compression type", desc, c11fBytesName(data))
								}
							case refComp == content.comp:
								tag := "gzip-ref-gzip-reader"
								if refComp == CompressionTypeZstd {
									tag = "zstd-ref-zstd-reader"
								}
								if err != nil || readErr != nil || !bytes.Equal(data, c11fPayload) {
									r.fail(tag+" no-option-no-change decompresses-by-default", "%s: read %s (err=%v/%v); want the plain payload: a %s ref is read through the %s decompressor", desc, c11fBytesName(data), err, readErr, c11fCompName(refComp), c11fCompName(refComp))
								}
							default:
								// the bytes are not in the ref's codec: the ref's decompressor cannot produce anything from them
								if err == nil && readErr == nil && len(data) > 0 {
									tag := "gzip-ref-gzip-reader"
									if refComp == CompressionTypeZstd {
										tag = "zstd-ref-zstd-reader"
									}
									r.fail(tag+" at-most-one-decompressor", "%s: read %s without error; want a decoding error: a %s ref is read through the %s decompressor", desc, c11fBytesName(data), c11fCompName(refComp), c11fCompName(refComp))
								}
							}
						}
					}
				}
			}
		}
	}
	r.checked++
	if o := newGetFileOptions(); o == nil || o.keepFileCompression {
		r.fail("decompresses-by-default", "newGetFileOptions(): got %+v; want keepFileCompression=false", o)
	}
}

func (r *c11fRun) familyWriter(ctx context.Context, t *testing.T) {
	dir := t.TempDir()
	wr := newWriter(c11fLogger, WithWriterLocal(), WithWriterStdio())
	n := 0
	for _, refComp := range []CompressionType{CompressionTypeNone, CompressionTypeGzip, CompressionTypeZstd, 0, 7} {
		for _, dest := range []string{"file", "stdout"} {
			for _, kind := range []string{"single", "archive"} {
				for _, noComp := range []bool{false, true} {
					for _, entry := range []string{"PutFile", "putSingle/putArchiveFile", "putFileWriteCloser"} {
						n++
						path, scheme := filepath.Join(dir, fmt.Sprintf("out%d.data", n)), FileSchemeLocal
						if dest == "stdout" {
							path, scheme = "", FileSchemeStdio
						}
						var fileRef FileRef
						if kind == "single" {
							fileRef = newDirectSingleRef("binpb", path, scheme, refComp, nil)
						} else {
							fileRef = newDirectArchiveRef("tar", path, scheme, ArchiveTypeTar, refComp, 0, "")
						}
						var stdout bytes.Buffer
						container := app.NewContainer(nil, bytes.NewReader(nil), &stdout, io.Discard)
						var wc io.WriteCloser
						var err error
						switch entry {
						case "PutFile":
							if noComp {
								wc, err = wr.PutFile(ctx, container, fileRef, WithPutFileNoFileCompression())
							} else {
								wc, err = wr.PutFile(ctx, container, fileRef)
							}
						case "putSingle/putArchiveFile":
							if kind == "single" {
								wc, err = wr.putSingle(ctx, container, fileRef.(SingleRef), noComp)
							} else {
								wc, err = wr.putArchiveFile(ctx, container, fileRef.(ArchiveRef), noComp)
							}
						default:
							wc, err = wr.putFileWriteCloser(ctx, container, fileRef, noComp)
						}
						r.checked++
						desc := fmt.Sprintf("writer.%s on a %s ref (%s) with compression %s, noFileCompression=%v, writing the plain payload", entry, kind, dest, c11fCompName(refComp), noComp)
						var out []byte
						var writeErr error
						if err == nil {
							if wc == nil {
								r.fail("failure-has-no-writer", "%s: got (nil, nil)", desc)
								continue
							}
							_, writeErr = wc.Write(c11fPayload)
							if cerr := wc.Close(); writeErr == nil {
								writeErr = cerr
							}
							if dest == "stdout" {
								out = stdout.Bytes()
							} else {
								out, _ = os.ReadFile(path)
							}
						} else if wc != nil {
							r.fail("failure-has-no-writer", "%s: got a writer together with error %v", desc, err)
						}
						known := refComp == CompressionTypeNone || refComp == CompressionTypeGzip || refComp == CompressionTypeZstd
						switch {
						case noComp || refComp == CompressionTypeNone:
							if err != nil || writeErr != nil || !bytes.Equal(out, c11fPayload) {
								r.fail("uncompressed-ref-plain-writer at-most-one-compressor no-option-no-change", "%s: the destination holds %s (err=%v/%v); want the plain payload (no compressor)", desc, c11fBytesName(out), err, writeErr)
							}
						case !known:
							if err == nil {
								r.fail("unknown-compression-is-an-error", "%s: got a writer (destination holds %s); want an error: unknown compression type", desc, c11fBytesName(out))
							}
						case refComp == CompressionTypeGzip:
							plain, derr := c11fGunzip(out)
							if err != nil || writeErr != nil || derr != nil || !bytes.Equal(plain, c11fPayload) {
								r.fail("gzip-ref-gzip-writer no-option-no-change compresses-by-default", "%s: the destination holds %s (err=%v/%v, compress/gzip says %v); want gzip data that gunzips to the payload", desc, c11fBytesName(out), err, writeErr, derr)
							}
						case refComp == CompressionTypeZstd:
							plain, derr := c11fUnzstd(out)
							if err != nil || writeErr != nil || derr != nil || !bytes.Equal(plain, c11fPayload) {
								r.fail("zstd-ref-zstd-writer no-option-no-change compresses-by-default", "%s: the destination holds %s (err=%v/%v, the zstd decoder says %v); want zstd data that decodes to the payload", desc, c11fBytesName(out), err, writeErr, derr)
							}
						}
					}
				}
			}
		}
	}
	r.checked++
	if o := newPutFileOptions(); o == nil || o.noFileCompression {
		r.fail("compresses-by-default", "newPutFileOptions(): got %+v; want noFileCompression=false", o)
	}
}

// ---------------------------------------------------------------- format registration and error constructors

func (r *c11fRun) familyFormatInfo() {
	r.checked++
	if s := newSingleFormatInfo(); s == nil || s.defaultCompressionType != CompressionTypeNone || len(s.customOptionKeys) != 0 {
		r.fail("uncompressed-by-default", "newSingleFormatInfo(): got %+v; want default compression none and no custom keys", s)
	}
	for _, at := range []ArchiveType{ArchiveTypeTar, ArchiveTypeZip} {
		r.checked++
		if s := newArchiveFormatInfo(at); s == nil || s.defaultCompressionType != CompressionTypeNone || s.archiveType != at {
			r.fail("uncompressed-by-default", "newArchiveFormatInfo(%d): got %+v; want default compression none and the archive type kept", int(at), s)
		}
	}
	for _, c := range []CompressionType{CompressionTypeNone, CompressionTypeGzip, CompressionTypeZstd} {
		r.checked++
		s := &singleFormatInfo{defaultCompressionType: CompressionTypeNone, customOptionKeys: map[string]struct{}{}}
		WithSingleDefaultCompressionType(c)(s)
		if s.defaultCompressionType != c {
			r.fail("sets-the-default", "WithSingleDefaultCompressionType(%s): the info has default %s", c11fCompName(c), c11fCompName(s.defaultCompressionType))
		}
		ar := &archiveFormatInfo{archiveType: ArchiveTypeTar, defaultCompressionType: CompressionTypeNone}
		WithArchiveDefaultCompressionType(c)(ar)
		if ar.defaultCompressionType != c || ar.archiveType != ArchiveTypeTar {
			r.fail("sets-the-default", "WithArchiveDefaultCompressionType(%s): the info is %+v", c11fCompName(c), ar)
		}
		s2 := &singleFormatInfo{defaultCompressionType: c, customOptionKeys: map[string]struct{}{}}
		WithSingleCustomOptionKey("k")(s2)
		if _, ok := s2.customOptionKeys["k"]; !ok || s2.defaultCompressionType != c {
			r.fail("key-allowed", "WithSingleCustomOptionKey(\"k\") on default %s: the info is %+v", c11fCompName(c), s2)
		}
	}
}

func (r *c11fRun) familyErrors(fn string) {
	errs := map[string]error{
		"NewCompressionUnknownError":                    NewCompressionUnknownError("bogus"),
		"NewFormatUnknownError":                         NewFormatUnknownError("foo"),
		"NewFormatNotAllowedError":                      NewFormatNotAllowedError("foo", map[string]struct{}{"binpb": {}}),
		"NewFormatCannotBeDeterminedError":              NewFormatCannotBeDeterminedError("x"),
		"NewFormatOverrideNotAllowedForDevNullError":    NewFormatOverrideNotAllowedForDevNullError("/dev/null"),
		"NewCannotSpecifyCompressionForZipError":        NewCannotSpecifyCompressionForZipError(),
		"NewOptionsInvalidForFormatError":               NewOptionsInvalidForFormatError("dir", "x", "compression set"),
		"NewOptionsInvalidKeysError":                    NewOptionsInvalidKeysError("a", "b"),
		"NewNoPathError":                                NewNoPathError(),
		"NewInvalidPathError":                           NewInvalidPathError("binpb", "x"),
		"NewDepthParseError":                            NewDepthParseError("x"),
		"NewDepthZeroError":                             NewDepthZeroError(),
		"NewOptionsInvalidValueForKeyError":             NewOptionsInvalidValueForKeyError("k", "v"),
		"NewOptionsCouldNotParseStripComponentsError":   NewOptionsCouldNotParseStripComponentsError("x"),
		"NewOptionsCouldNotParseRecurseSubmodulesError": NewOptionsCouldNotParseRecurseSubmodulesError("x"),
		"NewCannotSpecifyGitBranchAndCommitOrTagError":  NewCannotSpecifyGitBranchAndCommitOrTagError(),
		"NewCannotSpecifyCommitOrTagWithRefError":       NewCannotSpecifyCommitOrTagWithRefError(),
		"newValueEmptyError":                            newValueEmptyError(),
		"newValueMultipleHashtagsError":                 newValueMultipleHashtagsError("a#b#c"),
		"newValueStartsWithHashtagError":                newValueStartsWithHashtagError("#a"),
		"newValueEndsWithHashtagError":                  newValueEndsWithHashtagError("a#"),
		"newOptionsInvalidError":                        newOptionsInvalidError("a"),
		"newOptionsDuplicateKeyError":                   newOptionsDuplicateKeyError("a"),
	}
	r.checked++
	if err, ok := errs[fn]; ok && err == nil {
		r.fail("0", "%s(...): got nil; want a non-nil error", fn)
	}
}

var c11fErrorConstructors = map[string]bool{
	"NewCompressionUnknownError": true, "NewFormatUnknownError": true, "NewFormatNotAllowedError": true, "NewFormatCannotBeDeterminedError": true,
	"NewFormatOverrideNotAllowedForDevNullError": true, "NewCannotSpecifyCompressionForZipError": true, "NewOptionsInvalidForFormatError": true,
	"NewOptionsInvalidKeysError": true, "NewNoPathError": true, "NewInvalidPathError": true, "NewDepthParseError": true, "NewDepthZeroError": true,
	"NewOptionsInvalidValueForKeyError": true, "NewOptionsCouldNotParseStripComponentsError": true, "NewOptionsCouldNotParseRecurseSubmodulesError": true,
	"NewCannotSpecifyGitBranchAndCommitOrTagError": true, "NewCannotSpecifyCommitOrTagWithRefError": true, "newValueEmptyError": true,
	"newValueMultipleHashtagsError": true, "newValueStartsWithHashtagError": true, "newValueEndsWithHashtagError": true, "newOptionsInvalidError": true,
	"newOptionsDuplicateKeyError": true,
}

// ---------------------------------------------------------------- dispatcher

func TestVerifReplayC11(t *testing.T) {
	fn := os.Getenv("VERIF_REPLAY_FUNC")
	obligation := os.Getenv("VERIF_REPLAY_OBLIGATION")
	ctx := context.Background()
	r := &c11fRun{}
	switch {
	case fn == "parseCompressionType" || fn == "String" || fn == "normalizeFormat":
		r.familyParseCompression()
		if fn == "parseCompressionType" {
			r.familyPipeline(ctx)
		}
	case fn == "getRawPathAndOptions":
		r.familyRawPathAndOptions()
		r.familyPipeline(ctx)
	case fn == "getRawRef":
		r.familyGetRawRef()
		r.familyPipeline(ctx)
	case fn == "validateRawRef":
		r.familyValidateRawRef()
		r.familyGetRawRef()
	case fn == "parseRawRef":
		r.familyParseRawRef()
		r.familyPipeline(ctx)
	case fn == "getSingleRef" || fn == "getArchiveRef":
		r.familyGetSingleAndArchiveRef()
		r.familyPipeline(ctx)
	case fn == "newSingleRef" || fn == "newDirectSingleRef" || fn == "newArchiveRef" || fn == "newDirectArchiveRef" ||
		fn == "Format" || fn == "CompressionType" || fn == "FileScheme" || fn == "Path" || fn == "ArchiveType":
		r.familyNewRefs()
		r.familyPipeline(ctx)
	case fn == "GetFile" || fn == "getSingle" || fn == "getArchiveFile" || fn == "getFileReadCloserAndSize" || fn == "newGetFileOptions":
		r.familyReader(ctx, t)
	case fn == "PutFile" || fn == "putSingle" || fn == "putArchiveFile" || fn == "putFileWriteCloser" || fn == "newPutFileOptions":
		r.familyWriter(ctx, t)
	case fn == "newSingleFormatInfo" || fn == "newArchiveFormatInfo" || fn == "WithSingleDefaultCompressionType" ||
		fn == "WithArchiveDefaultCompressionType" || fn == "WithSingleCustomOptionKey":
		r.familyFormatInfo()
		r.familyParseRawRef()
	case c11fErrorConstructors[fn]:
		r.familyErrors(fn)
	default:
		fmt.Printf("VERIF-REPLAY no harness for %q\n", fn)
		return
	}
	label := ""
	if i := strings.LastIndex(obligation, "["); i >= 0 {
		label = strings.TrimSuffix(obligation[i+1:], "]")
		// loop / closure clauses are numbered: "0.format-option-applied"
		if j := strings.Index(label, "."); j > 0 && strings.Trim(label[:j], "0123456789") == "" {
			label = label[j+1:]
		}
	}
	sort.SliceStable(r.failures, func(a, b int) bool {
		ma := label != "" && strings.Contains(" "+r.failures[a].tag+" ", " "+label+" ")
		mb := label != "" && strings.Contains(" "+r.failures[b].tag+" ", " "+label+" ")
		return ma && !mb
	})
	printed := map[string]bool{}
	count := 0
	for _, f := range r.failures {
		if count >= 5 {
			break
		}
		key := f.text
		if i := strings.Index(key, ": "); i >= 0 {
			key = key[:i]
		}
		if printed[key] {
			continue
		}
		printed[key] = true
		fmt.Printf("VERIF-REPLAY FAILING-INPUT %s\n", f.text)
		count++
	}
	fmt.Printf("VERIF-REPLAY %s: checked %d inputs, %d deviations from the documented behaviour\n", fn, r.checked, len(r.failures))
}
