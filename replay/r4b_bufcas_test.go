package bufcas

// Replay / bounded contract run for the ca-r4b obligations of package bufcas (C08, C15): digests, blobs, blob sets,
// manifest lookups, file sets and PutFileSetToBucket (injected with go test -overlay).

import (
	"bytes"
	"context"
	"encoding/hex"
	"errors"
	"fmt"
	"os"
	"sort"
	"strings"
	"testing"

	"github.com/bufbuild/buf/private/pkg/storage"
	"github.com/bufbuild/buf/private/pkg/storage/storagemem"
)

// rbFailBucket fails the k-th sink call (Put, Write or Close, counted together) and records what was put.
type rbFailBucket struct {
	storage.ReadWriteBucket
	k, n    int
	atomic  []bool
	paths   []string
	written map[string][]byte
}

type rbFailWriter struct {
	storage.WriteObjectCloser
	b    *rbFailBucket
	path string
}

func (b *rbFailBucket) tick() error {
	b.n++
	if b.n == b.k {
		return errors.New("injected failure")
	}
	return nil
}

func (b *rbFailBucket) Put(ctx context.Context, path string, options ...storage.PutOption) (storage.WriteObjectCloser, error) {
	if err := b.tick(); err != nil {
		return nil, err
	}
	b.paths = append(b.paths, path)
	b.atomic = append(b.atomic, len(options) == 1)
	w, err := b.ReadWriteBucket.Put(ctx, path, options...)
	if err != nil {
		return nil, err
	}
	return &rbFailWriter{WriteObjectCloser: w, b: b, path: path}, nil
}

func (w *rbFailWriter) Write(p []byte) (int, error) {
	if err := w.b.tick(); err != nil {
		return 0, err
	}
	w.b.written[w.path] = append(w.b.written[w.path], p...)
	return w.WriteObjectCloser.Write(p)
}

func (w *rbFailWriter) Close() error {
	if err := w.b.tick(); err != nil {
		_ = w.WriteObjectCloser.Close()
		return err
	}
	return w.WriteObjectCloser.Close()
}

func TestVerifReplayC08R4b(t *testing.T) {
	fn := os.Getenv("VERIF_REPLAY_FUNC")
	found := 0
	report := func(format string, a ...any) {
		if found < 40 {
			fmt.Printf("VERIF-REPLAY FAILING-INPUT "+format+"\n", a...)
		}
		found++
	}
	ctx := context.Background()
	contents := []string{"", "a", "b", "syntax = \"proto3\";\n", "a\n", "\x00\xff"}
	var blobs []Blob
	for _, c := range contents {
		blob, err := NewBlobForContent(strings.NewReader(c))
		if err != nil {
			t.Fatal(err)
		}
		blobs = append(blobs, blob)
	}
	values := [][]byte{nil, {}, bytes.Repeat([]byte{1}, 63), bytes.Repeat([]byte{0xab}, 64), bytes.Repeat([]byte{0}, 64), bytes.Repeat([]byte{2}, 65), bytes.Repeat([]byte{3}, 128)}
	switch fn {
	case "newDigest", "NewDigest", "validateDigestParameters", "String", "Type", "Value":
		for _, v := range values {
			d, err := NewDigest(v)
			if (err == nil) != (len(v) == 64) {
				report("NewDigest(value of %d bytes): err = %v, want acceptance iff 64 bytes", len(v), err)
			}
			if verr := validateDigestParameters(DigestTypeShake256, v); (verr == nil) != (len(v) == 64) {
				report("validateDigestParameters(shake256, value of %d bytes) = %v, want acceptance iff 64 bytes", len(v), verr)
			}
			if err != nil {
				continue
			}
			if want := "shake256:" + hex.EncodeToString(v); d.String() != want || d.Type() != DigestTypeShake256 || !bytes.Equal(d.Value(), v) {
				report("NewDigest(%x...): String() = %q, want %q (type %v)", v[:2], d.String(), want, d.Type())
			}
			nd := newDigest(DigestTypeShake256, v)
			if want := "shake256:" + hex.EncodeToString(v); nd.String() != want {
				report("newDigest(shake256, %x...).String() = %q, want %q", v[:2], nd.String(), want)
			}
		}
		if err := validateDigestParameters(DigestType(7), values[3]); err == nil {
			report("validateDigestParameters(DigestType(7), 64 bytes) accepted")
		}
	case "ParseDigestType":
		for _, s := range []string{"", "shake256", "Shake256", "shake-256", "b5", "1", "shake256 "} {
			dt, err := ParseDigestType(s)
			if (err == nil) != (s == "shake256") {
				report("ParseDigestType(%q): err = %v, want acceptance iff \"shake256\"", s, err)
			} else if err == nil && (dt != DigestTypeShake256 || dt.String() != s) {
				report("ParseDigestType(%q) = %v (String %q)", s, dt, dt.String())
			}
		}
	case "DigestEqual":
		var ds []Digest
		for _, b := range blobs {
			ds = append(ds, b.Digest())
		}
		ds = append(ds, nil, newDigest(DigestType(2), blobs[0].Digest().Value()))
		for i, a := range ds {
			for j, b := range ds {
				want := (a == nil && b == nil) || (a != nil && b != nil && a.Type() == b.Type() && bytes.Equal(a.Value(), b.Value()))
				if got := DigestEqual(a, b); got != want {
					report("DigestEqual(digest #%d %v, digest #%d %v) = %v, want %v", i, a, j, b, got, want)
				}
			}
		}
	case "NewBlobForContent", "BlobWithKnownDigest", "BlobWithDigestType", "newBlob":
		for i, c := range contents {
			for j, known := range blobs {
				blob, err := NewBlobForContent(strings.NewReader(c), BlobWithKnownDigest(known.Digest()))
				if i == j || contents[i] == contents[j] {
					if err != nil || blob == nil || !bytes.Equal(blob.Content(), []byte(c)) || !DigestEqual(blob.Digest(), known.Digest()) {
						report("NewBlobForContent(%q, known digest of the same content): blob %v err %v", c, blob, err)
					}
				} else if err == nil || blob != nil {
					report("NewBlobForContent(%q, BlobWithKnownDigest(digest of %q)) returned a blob and err = %v: mismatch must be an error", c, contents[j], err)
				}
			}
			blob, err := NewBlobForContent(strings.NewReader(c))
			want, _ := NewDigestForContent(strings.NewReader(c))
			if err != nil || !DigestEqual(blob.Digest(), want) || !bytes.Equal(blob.Content(), []byte(c)) {
				report("NewBlobForContent(%q): digest %v, want %v, content %q", c, blob.Digest(), want, blob.Content())
			}
		}
	case "newBlobSet", "NewBlobSet", "GetBlob", "Blobs":
		inputs := [][]int{{}, {0}, {0, 1}, {1, 0}, {2, 1, 0, 1, 2}, {3, 3, 3}, {5, 4, 3, 2, 1, 0}, {0, 1, 2, 3, 4, 5, 0}}
		for _, in := range inputs {
			var bs []Blob
			distinct := map[string]Blob{}
			for _, i := range in {
				// a second blob object for a repeated digest, to tell "first wins" from "last wins"
				b, _ := NewBlobForContent(strings.NewReader(contents[i]))
				bs = append(bs, b)
				if _, ok := distinct[b.Digest().String()]; !ok {
					distinct[b.Digest().String()] = b
				}
			}
			set, err := NewBlobSet(bs)
			if err != nil || set == nil {
				report("NewBlobSet(contents %v): err = %v", in, err)
				continue
			}
			got := set.Blobs()
			if len(got) != len(distinct) {
				report("NewBlobSet(contents %v).Blobs() has %d blobs, want %d (one per digest)", in, len(got), len(distinct))
			}
			if !sort.SliceIsSorted(got, func(i, j int) bool { return got[i].Digest().String() < got[j].Digest().String() }) {
				report("NewBlobSet(contents %v).Blobs() is not sorted by digest string", in)
			}
			for k, first := range distinct {
				if set.GetBlob(first.Digest()) != first {
					report("NewBlobSet(contents %v).GetBlob(%s) is not the first blob given with that digest", in, k[:20])
				}
			}
			other, _ := NewBlobForContent(strings.NewReader("not in any set"))
			if set.GetBlob(other.Digest()) != nil {
				report("NewBlobSet(contents %v).GetBlob(digest of absent content) != nil", in)
			}
		}
	case "GetDigest", "GetFileNode", "FileNodes", "BlobToManifest", "ManifestToBlob":
		n1, _ := NewFileNode("a.proto", blobs[1].Digest())
		n2, _ := NewFileNode("b/c.proto", blobs[2].Digest())
		for _, nodes := range [][]FileNode{{}, {n1}, {n2, n1}} {
			m, err := NewManifest(nodes)
			if err != nil {
				t.Fatal(err)
			}
			for _, p := range []string{"a.proto", "b/c.proto", "b", "", "zz"} {
				var want FileNode
				for _, n := range nodes {
					if n.Path() == p {
						want = n
					}
				}
				if got := m.GetFileNode(p); got != want {
					report("manifest of %d nodes: GetFileNode(%q) = %v, want %v", len(nodes), p, got, want)
				}
				if got := m.GetDigest(p); (want == nil) != (got == nil) || (want != nil && !DigestEqual(got, want.Digest())) {
					report("manifest of %d nodes: GetDigest(%q) = %v, want the digest of node %v", len(nodes), p, got, want)
				}
			}
			blob, err := ManifestToBlob(m)
			if err != nil || string(blob.Content()) != m.String() {
				report("ManifestToBlob(manifest of %d nodes): content %q, want the canonical text %q (err %v)", len(nodes), blob.Content(), m.String(), err)
				continue
			}
			back, err := BlobToManifest(blob)
			if err != nil || back.String() != m.String() {
				report("BlobToManifest(ManifestToBlob(manifest of %d nodes)) = %v, %v, want an equal manifest", len(nodes), back, err)
			}
		}
		bad, _ := NewBlobForContent(strings.NewReader(blobs[1].Digest().String() + "  a.proto"))
		if _, err := BlobToManifest(bad); err == nil {
			report("BlobToManifest accepts manifest text without the trailing newline")
		}
	case "NewFileSet", "newFileSet", "NewFileSetForBucket", "PutFileSetToBucket", "Manifest", "BlobSet":
		n1, _ := NewFileNode("a.proto", blobs[1].Digest())
		n2, _ := NewFileNode("b/c.proto", blobs[2].Digest())
		n3, _ := NewFileNode("d.proto", blobs[1].Digest())
		type tc struct {
			nodes []FileNode
			blobs []Blob
			ok    bool
		}
		for i, c := range []tc{
			{nil, nil, true},
			{[]FileNode{n1}, []Blob{blobs[1]}, true},
			{[]FileNode{n1, n2, n3}, []Blob{blobs[2], blobs[1]}, true},
			{[]FileNode{n1, n2}, []Blob{blobs[1]}, false},
			{[]FileNode{n1}, []Blob{blobs[1], blobs[2]}, false},
			{[]FileNode{n1}, []Blob{blobs[2]}, false},
			{nil, []Blob{blobs[0]}, false},
		} {
			m, _ := NewManifest(c.nodes)
			bs, _ := NewBlobSet(c.blobs)
			fs, err := NewFileSet(m, bs)
			if (err == nil) != c.ok || (err != nil && fs != nil) {
				report("NewFileSet case %d (%d nodes, %d blobs): err = %v, want success = %v", i, len(c.nodes), len(c.blobs), err, c.ok)
			}
			if err == nil && (fs.Manifest() != m || fs.BlobSet() != bs) {
				report("NewFileSet case %d does not pair the given manifest and blob set", i)
			}
		}
		// bucket -> file set -> bucket, with a failure injected at every sink position
		src := storagemem.NewReadWriteBucket()
		files := map[string]string{"a.proto": "a", "b/c.proto": "b", "d.proto": "a", "e e.proto": ""}
		for p, c := range files {
			if err := storage.PutPath(ctx, src, p, []byte(c)); err != nil {
				t.Fatal(err)
			}
		}
		fs, err := NewFileSetForBucket(ctx, src)
		if err != nil {
			report("NewFileSetForBucket: %v", err)
			break
		}
		if len(fs.Manifest().FileNodes()) != len(files) || len(fs.BlobSet().Blobs()) != 3 {
			report("NewFileSetForBucket: %d nodes, %d blobs, want %d nodes and 3 blobs", len(fs.Manifest().FileNodes()), len(fs.BlobSet().Blobs()), len(files))
		}
		if _, err := NewFileSet(fs.Manifest(), fs.BlobSet()); err != nil {
			report("NewFileSetForBucket yields a manifest and blob set that do not match: %v", err)
		}
		for k := 0; k <= 3*len(files)+1; k++ {
			dst := &rbFailBucket{ReadWriteBucket: storagemem.NewReadWriteBucket(), k: k, written: map[string][]byte{}}
			err := PutFileSetToBucket(ctx, fs, dst)
			failed := k >= 1 && k <= dst.n
			if failed && err == nil {
				report("PutFileSetToBucket reports success although sink call #%d (Put/Write/Close) failed", k)
			}
			if !failed && err != nil {
				report("PutFileSetToBucket fails without an injected failure: %v", err)
			}
			for i, a := range dst.atomic {
				if !a {
					report("PutFileSetToBucket puts %q without PutWithAtomic", dst.paths[i])
				}
			}
			for p, w := range dst.written {
				if c, ok := files[p]; !ok || string(w) != c {
					report("PutFileSetToBucket wrote %q at %q, want the content %q of that manifest path", w, p, c)
				}
			}
			if err == nil && len(dst.paths) != len(files) {
				report("PutFileSetToBucket succeeded after putting %d of %d files", len(dst.paths), len(files))
			}
		}
	default:
		fmt.Printf("VERIF-REPLAY no harness for %q\n", fn)
		return
	}
	if found == 0 {
		fmt.Printf("VERIF-REPLAY no failing input found for %s (bounded run over %d contents / %d digest values)\n", fn, len(contents), len(values))
	}
}
