package bufcheck_test

// Replay for C03 obligations `...#pre@...AddProtosourceAnnotation[format-matches-args]` (go test -overlay):
// runs `buf breaking` on every previous/current pair of the package's testdata and reports every
// annotation whose message carries fmt's bad-directive marker "%!" (the format string of the rule
// does not consume its arguments, so the text does not name the edited element legibly).

import (
	"context"
	"errors"
	"fmt"
	"os"
	"path/filepath"
	"strings"
	"testing"
	"time"

	"github.com/bufbuild/buf/private/buf/buftarget"
	"github.com/bufbuild/buf/private/buf/bufworkspace"
	"github.com/bufbuild/buf/private/bufpkg/bufanalysis"
	"github.com/bufbuild/buf/private/bufpkg/bufcheck"
	"github.com/bufbuild/buf/private/bufpkg/bufimage"
	"github.com/bufbuild/buf/private/bufpkg/bufmodule"
	"github.com/bufbuild/buf/private/bufpkg/bufplugin"
	"github.com/bufbuild/buf/private/pkg/slogtestext"
	"github.com/bufbuild/buf/private/pkg/storage"
	"github.com/bufbuild/buf/private/pkg/storage/storagemem"
	"github.com/bufbuild/buf/private/pkg/storage/storageos"
	"github.com/bufbuild/buf/private/pkg/wasm"
)

func verifBreakingAnnotations(t *testing.T, relDirPath string) ([]bufanalysis.FileAnnotation, error) {
	ctx, cancel := context.WithTimeout(context.Background(), 20*time.Second)
	defer cancel()
	logger := slogtestext.NewLogger(t)
	provider := storageos.NewProvider(storageos.ProviderWithSymlinks())
	build := func(dir string) (bufimage.Image, bufworkspace.Workspace, error) {
		bucket, err := provider.NewReadWriteBucket(dir, storageos.ReadWriteBucketWithSymlinksIfSupported())
		if err != nil {
			return nil, nil, err
		}
		targeting, err := buftarget.NewBucketTargeting(ctx, logger, bucket, ".", nil, nil, buftarget.TerminateAtControllingWorkspace)
		if err != nil {
			return nil, nil, err
		}
		ws, err := bufworkspace.NewWorkspaceProvider(logger, bufmodule.NopGraphProvider, bufmodule.NopModuleDataProvider, bufmodule.NopCommitProvider, bufplugin.NopPluginKeyProvider).GetWorkspaceForBucket(ctx, bucket, targeting)
		if err != nil {
			return nil, nil, err
		}
		img, err := bufimage.BuildImage(ctx, logger, bufmodule.ModuleSetToModuleReadBucketWithOnlyProtoFiles(ws))
		return img, ws, err
	}
	previousImage, _, err := build(filepath.Join("testdata", "breaking", "previous", relDirPath))
	if err != nil {
		return nil, err
	}
	image, workspace, err := build(filepath.Join("testdata", "breaking", "current", relDirPath))
	if err != nil {
		return nil, err
	}
	opaqueID, err := testGetRootOpaqueID(workspace, ".")
	if err != nil {
		return nil, err
	}
	client, err := bufcheck.NewClient(logger, bufcheck.NewLocalRunnerProvider(wasm.UnimplementedRuntime, bufplugin.NopPluginKeyProvider, bufplugin.NopPluginDataProvider))
	if err != nil {
		return nil, err
	}
	err = client.Breaking(ctx, workspace.GetBreakingConfigForOpaqueID(opaqueID), image, previousImage, bufcheck.BreakingWithExcludeImports(), bufcheck.WithPluginConfigs(workspace.PluginConfigs()...))
	var set bufanalysis.FileAnnotationSet
	if errors.As(err, &set) {
		return set.FileAnnotations(), nil
	}
	return nil, err
}

func TestVerifReplayC03(t *testing.T) {
	fn := os.Getenv("VERIF_REPLAY_FUNC")
	if strings.Contains(os.Getenv("VERIF_REPLAY_OBLIGATION"), "in-current-file") {
		verifReplayInCurrentFile(t)
		return
	}
	if !strings.Contains(os.Getenv("VERIF_REPLAY_OBLIGATION"), "format-matches-args") {
		// every other C03 / C04 obligation: catalogue of (previous, current) schema pairs, see below
		verifReplayCatalogue(fn, os.Getenv("VERIF_REPLAY_OBLIGATION"))
		return
	}
	// handleBreakingFieldSameDefault -> FIELD_SAME_DEFAULT
	entries, err := os.ReadDir(filepath.Join("testdata", "breaking", "current"))
	if err != nil {
		fmt.Printf("VERIF-REPLAY no testdata: %v\n", err)
		return
	}
	found := 0
	for _, e := range entries {
		if !e.IsDir() {
			continue
		}
		if _, err := os.Stat(filepath.Join("testdata", "breaking", "previous", e.Name())); err != nil {
			continue
		}
		annotations, err := verifBreakingAnnotations(t, e.Name())
		if err != nil {
			continue
		}
		for _, a := range annotations {
			if !strings.Contains(a.Message(), "%!") {
				continue
			}
			rule := strings.ToLower(strings.ReplaceAll(a.Type(), "_", ""))
			if !strings.Contains(strings.ToLower(fn), rule) {
				continue
			}
			if found < 3 {
				fmt.Printf("VERIF-REPLAY FAILING-INPUT buf breaking testdata/breaking/current/%s --against testdata/breaking/previous/%s: %s annotation at %s:%d has the garbled message %q\n",
					e.Name(), e.Name(), a.Type(), a.FileInfo().Path(), a.StartLine(), a.Message())
			}
			found++
		}
	}
	if found == 0 {
		fmt.Printf("VERIF-REPLAY no garbled annotation message found for %q in the package's testdata pairs\n", fn)
	}
}

// verifReplayInCurrentFile: an enum moves to another file of its package and loses a value; the images carry
// no source info (buf build --exclude-source-info), so the annotation falls back to the input file name,
// which must be the CURRENT file of the enum (as for every other rule).
func verifReplayInCurrentFile(t *testing.T) {
	ctx, cancel := context.WithTimeout(context.Background(), 20*time.Second)
	defer cancel()
	logger := slogtestext.NewLogger(t)
	build := func(files map[string]string) (bufimage.Image, bufworkspace.Workspace, error) {
		bucket := storagemem.NewReadWriteBucket()
		for path, data := range files {
			if err := storage.PutPath(ctx, bucket, path, []byte(data)); err != nil {
				return nil, nil, err
			}
		}
		targeting, err := buftarget.NewBucketTargeting(ctx, logger, bucket, ".", nil, nil, buftarget.TerminateAtControllingWorkspace)
		if err != nil {
			return nil, nil, err
		}
		ws, err := bufworkspace.NewWorkspaceProvider(logger, bufmodule.NopGraphProvider, bufmodule.NopModuleDataProvider, bufmodule.NopCommitProvider, bufplugin.NopPluginKeyProvider).GetWorkspaceForBucket(ctx, bucket, targeting)
		if err != nil {
			return nil, nil, err
		}
		img, err := bufimage.BuildImage(ctx, logger, bufmodule.ModuleSetToModuleReadBucketWithOnlyProtoFiles(ws), bufimage.WithExcludeSourceCodeInfo())
		return img, ws, err
	}
	const bufYAML = "version: v1\nbreaking:\n  use:\n    - PACKAGE\n"
	previousImage, _, err := build(map[string]string{
		"buf.yaml": bufYAML,
		"a.proto":  "syntax = \"proto3\";\npackage p;\nenum E {\n  E_UNSPECIFIED = 0;\n  E_ONE = 1;\n}\n",
		"b.proto":  "syntax = \"proto3\";\npackage p;\nmessage M {}\n",
	})
	if err != nil {
		fmt.Printf("VERIF-REPLAY build previous: %v\n", err)
		return
	}
	image, workspace, err := build(map[string]string{
		"buf.yaml": bufYAML,
		"a.proto":  "syntax = \"proto3\";\npackage p;\nmessage A {}\n",
		"b.proto":  "syntax = \"proto3\";\npackage p;\nmessage M {}\nenum E {\n  E_UNSPECIFIED = 0;\n}\n",
	})
	if err != nil {
		fmt.Printf("VERIF-REPLAY build current: %v\n", err)
		return
	}
	opaqueID, err := testGetRootOpaqueID(workspace, ".")
	if err != nil {
		fmt.Printf("VERIF-REPLAY %v\n", err)
		return
	}
	client, err := bufcheck.NewClient(logger, bufcheck.NewLocalRunnerProvider(wasm.UnimplementedRuntime, bufplugin.NopPluginKeyProvider, bufplugin.NopPluginDataProvider))
	if err != nil {
		fmt.Printf("VERIF-REPLAY %v\n", err)
		return
	}
	err = client.Breaking(ctx, workspace.GetBreakingConfigForOpaqueID(opaqueID), image, previousImage, bufcheck.BreakingWithExcludeImports())
	var set bufanalysis.FileAnnotationSet
	if !errors.As(err, &set) {
		fmt.Printf("VERIF-REPLAY no annotations (err=%v)\n", err)
		return
	}
	for _, a := range set.FileAnnotations() {
		path := "<none>"
		if a.FileInfo() != nil {
			path = a.FileInfo().Path()
		}
		fmt.Printf("VERIF-REPLAY annotation %s file=%s msg=%q\n", a.Type(), path, a.Message())
		if a.Type() == "ENUM_VALUE_NO_DELETE" && path != "b.proto" {
			fmt.Printf("VERIF-REPLAY FAILING-INPUT previous {a.proto: enum p.E{E_UNSPECIFIED=0;E_ONE=1}}, current {b.proto: enum p.E{E_UNSPECIFIED=0}} built with --exclude-source-info, PACKAGE rules: the ENUM_VALUE_NO_DELETE annotation names file %q; enum E now lives in \"b.proto\"\n", path)
		}
	}
}
