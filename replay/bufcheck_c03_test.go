package bufcheck_test

// Replay harness for the C03 / C04 obligations (injected into private/bufpkg/bufcheck with go test -overlay).
// Three parts: (1) `...[format-matches-args]` and (2) `...[in-current-file]`, described next, and (3) for every
// other obligation a catalogue of (previous, current) schema pairs with an oracle written from the property
// texts and the rule documentation (see "Catalogue replay" below).
//
// Replay for C03 obligations `...#pre@...AddProtosourceAnnotation[format-matches-args]` (go test -overlay):
// runs `buf breaking` on every previous/current pair of the package's testdata and reports every
// annotation whose message carries fmt's bad-directive marker "%!" (the format string of the rule
// does not consume its arguments, so the text does not name the edited element legibly).

import (
	"context"
	"errors"
	"fmt"
	"io"
	"log/slog"
	"os"
	"path/filepath"
	"regexp"
	"sort"
	"strings"
	"testing"
	"time"

	"github.com/bufbuild/buf/private/buf/buftarget"
	"github.com/bufbuild/buf/private/buf/bufworkspace"
	"github.com/bufbuild/buf/private/bufpkg/bufanalysis"
	"github.com/bufbuild/buf/private/bufpkg/bufcheck"
	"github.com/bufbuild/buf/private/bufpkg/bufconfig"
	"github.com/bufbuild/buf/private/bufpkg/bufimage"
	"github.com/bufbuild/buf/private/bufpkg/bufmodule"
	"github.com/bufbuild/buf/private/bufpkg/bufplugin"
	"github.com/bufbuild/buf/private/pkg/slogtestext"
	"github.com/bufbuild/buf/private/pkg/storage"
	"github.com/bufbuild/buf/private/pkg/storage/storagemem"
	"github.com/bufbuild/buf/private/pkg/storage/storageos"
	"github.com/bufbuild/buf/private/pkg/wasm"
)

func verifBreakingAnnotations(t *testing.T, relDirPath string) ([]bufanalysis.FileAnnotation, error) {
	ctx, cancel := context.WithTimeout(context.Background(), 20*time.Second)
	defer cancel()
	logger := slogtestext.NewLogger(t)
	provider := storageos.NewProvider(storageos.ProviderWithSymlinks())
	build := func(dir string) (bufimage.Image, bufworkspace.Workspace, error) {
		bucket, err := provider.NewReadWriteBucket(dir, storageos.ReadWriteBucketWithSymlinksIfSupported())
		if err != nil {
			return nil, nil, err
		}
		targeting, err := buftarget.NewBucketTargeting(ctx, logger, bucket, ".", nil, nil, buftarget.TerminateAtControllingWorkspace)
		if err != nil {
			return nil, nil, err
		}
		ws, err := bufworkspace.NewWorkspaceProvider(logger, bufmodule.NopGraphProvider, bufmodule.NopModuleDataProvider, bufmodule.NopCommitProvider, bufplugin.NopPluginKeyProvider).GetWorkspaceForBucket(ctx, bucket, targeting)
		if err != nil {
			return nil, nil, err
		}
		img, err := bufimage.BuildImage(ctx, logger, bufmodule.ModuleSetToModuleReadBucketWithOnlyProtoFiles(ws))
		return img, ws, err
	}
	previousImage, _, err := build(filepath.Join("testdata", "breaking", "previous", relDirPath))
	if err != nil {
		return nil, err
	}
	image, workspace, err := build(filepath.Join("testdata", "breaking", "current", relDirPath))
	if err != nil {
		return nil, err
	}
	opaqueID, err := testGetRootOpaqueID(workspace, ".")
	if err != nil {
		return nil, err
	}
	client, err := bufcheck.NewClient(logger, bufcheck.NewLocalRunnerProvider(wasm.UnimplementedRuntime, bufplugin.NopPluginKeyProvider, bufplugin.NopPluginDataProvider))
	if err != nil {
		return nil, err
	}
	err = client.Breaking(ctx, workspace.GetBreakingConfigForOpaqueID(opaqueID), image, previousImage, bufcheck.BreakingWithExcludeImports(), bufcheck.WithPluginConfigs(workspace.PluginConfigs()...))
	var set bufanalysis.FileAnnotationSet
	if errors.As(err, &set) {
		return set.FileAnnotations(), nil
	}
	return nil, err
}

func TestVerifReplayC03(t *testing.T) {
	fn := os.Getenv("VERIF_REPLAY_FUNC")
	if strings.Contains(os.Getenv("VERIF_REPLAY_OBLIGATION"), "in-current-file") {
		verifReplayInCurrentFile(t)
		return
	}
	if !strings.Contains(os.Getenv("VERIF_REPLAY_OBLIGATION"), "format-matches-args") {
		// every other C03 / C04 obligation: catalogue of (previous, current) schema pairs, see below
		verifReplayCatalogue(fn, os.Getenv("VERIF_REPLAY_OBLIGATION"))
		return
	}
	// handleBreakingFieldSameDefault -> FIELD_SAME_DEFAULT
	entries, err := os.ReadDir(filepath.Join("testdata", "breaking", "current"))
	if err != nil {
		fmt.Printf("VERIF-REPLAY no testdata: %v\n", err)
		return
	}
	found := 0
	for _, e := range entries {
		if !e.IsDir() {
			continue
		}
		if _, err := os.Stat(filepath.Join("testdata", "breaking", "previous", e.Name())); err != nil {
			continue
		}
		annotations, err := verifBreakingAnnotations(t, e.Name())
		if err != nil {
			continue
		}
		for _, a := range annotations {
			if !strings.Contains(a.Message(), "%!") {
				continue
			}
			rule := strings.ToLower(strings.ReplaceAll(a.Type(), "_", ""))
			if !strings.Contains(strings.ToLower(fn), rule) {
				continue
			}
			if found < 3 {
				fmt.Printf("VERIF-REPLAY FAILING-INPUT buf breaking testdata/breaking/current/%s --against testdata/breaking/previous/%s: %s annotation at %s:%d has the garbled message %q\n",
					e.Name(), e.Name(), a.Type(), a.FileInfo().Path(), a.StartLine(), a.Message())
			}
			found++
		}
	}
	if found == 0 {
		fmt.Printf("VERIF-REPLAY no garbled annotation message found for %q in the package's testdata pairs\n", fn)
	}
}

// verifReplayInCurrentFile: an enum moves to another file of its package and loses a value; the images carry
// no source info (buf build --exclude-source-info), so the annotation falls back to the input file name,
// which must be the CURRENT file of the enum (as for every other rule).
func verifReplayInCurrentFile(t *testing.T) {
	ctx, cancel := context.WithTimeout(context.Background(), 20*time.Second)
	defer cancel()
	logger := slogtestext.NewLogger(t)
	build := func(files map[string]string) (bufimage.Image, bufworkspace.Workspace, error) {
		bucket := storagemem.NewReadWriteBucket()
		for path, data := range files {
			if err := storage.PutPath(ctx, bucket, path, []byte(data)); err != nil {
				return nil, nil, err
			}
		}
		targeting, err := buftarget.NewBucketTargeting(ctx, logger, bucket, ".", nil, nil, buftarget.TerminateAtControllingWorkspace)
		if err != nil {
			return nil, nil, err
		}
		ws, err := bufworkspace.NewWorkspaceProvider(logger, bufmodule.NopGraphProvider, bufmodule.NopModuleDataProvider, bufmodule.NopCommitProvider, bufplugin.NopPluginKeyProvider).GetWorkspaceForBucket(ctx, bucket, targeting)
		if err != nil {
			return nil, nil, err
		}
		img, err := bufimage.BuildImage(ctx, logger, bufmodule.ModuleSetToModuleReadBucketWithOnlyProtoFiles(ws), bufimage.WithExcludeSourceCodeInfo())
		return img, ws, err
	}
	const bufYAML = "version: v1\nbreaking:\n  use:\n    - PACKAGE\n"
	previousImage, _, err := build(map[string]string{
		"buf.yaml": bufYAML,
		"a.proto":  "syntax = \"proto3\";\npackage p;\nenum E {\n  E_UNSPECIFIED = 0;\n  E_ONE = 1;\n}\n",
		"b.proto":  "syntax = \"proto3\";\npackage p;\nmessage M {}\n",
	})
	if err != nil {
		fmt.Printf("VERIF-REPLAY build previous: %v\n", err)
		return
	}
	image, workspace, err := build(map[string]string{
		"buf.yaml": bufYAML,
		"a.proto":  "syntax = \"proto3\";\npackage p;\nmessage A {}\n",
		"b.proto":  "syntax = \"proto3\";\npackage p;\nmessage M {}\nenum E {\n  E_UNSPECIFIED = 0;\n}\n",
	})
	if err != nil {
		fmt.Printf("VERIF-REPLAY build current: %v\n", err)
		return
	}
	opaqueID, err := testGetRootOpaqueID(workspace, ".")
	if err != nil {
		fmt.Printf("VERIF-REPLAY %v\n", err)
		return
	}
	client, err := bufcheck.NewClient(logger, bufcheck.NewLocalRunnerProvider(wasm.UnimplementedRuntime, bufplugin.NopPluginKeyProvider, bufplugin.NopPluginDataProvider))
	if err != nil {
		fmt.Printf("VERIF-REPLAY %v\n", err)
		return
	}
	err = client.Breaking(ctx, workspace.GetBreakingConfigForOpaqueID(opaqueID), image, previousImage, bufcheck.BreakingWithExcludeImports())
	var set bufanalysis.FileAnnotationSet
	if !errors.As(err, &set) {
		fmt.Printf("VERIF-REPLAY no annotations (err=%v)\n", err)
		return
	}
	for _, a := range set.FileAnnotations() {
		path := "<none>"
		if a.FileInfo() != nil {
			path = a.FileInfo().Path()
		}
		fmt.Printf("VERIF-REPLAY annotation %s file=%s msg=%q\n", a.Type(), path, a.Message())
		if a.Type() == "ENUM_VALUE_NO_DELETE" && path != "b.proto" {
			fmt.Printf("VERIF-REPLAY FAILING-INPUT previous {a.proto: enum p.E{E_UNSPECIFIED=0;E_ONE=1}}, current {b.proto: enum p.E{E_UNSPECIFIED=0}} built with --exclude-source-info, PACKAGE rules: the ENUM_VALUE_NO_DELETE annotation names file %q; enum E now lives in \"b.proto\"\n", path)
		}
	}
}

// =====================================================================================================
// Catalogue replay for every other obligation of C03 ("no documented breaking change goes unreported")
// and C04 ("compatible changes are never reported and breaking categories are ordered").
//
// The oracle below is written from the property texts and the rule documentation (rule IDs, Purpose
// strings and category membership per buf.yaml version in bufcheckserver.go / bufcheckserverbuild, the
// documented compatibility groups of the FIELD_WIRE_* rules), never from the handler code:
//   - every catalogue entry is a (previous, current) pair of in-memory workspaces plus the annotations
//     that MUST be reported (rule ID, file, line of the edited element in the current source, words the
//     message has to contain) whenever the rule is active; for the rules an entry "is about" the
//     reported set must be exactly the expected set (so "must stay silent" is expressed by listing the
//     rule without an expectation);
//   - every pair is run with the single-rule configuration and with the four categories (buf.yaml v1 and
//     v2, v1beta1 as well when the budget allows); an annotation of a rule that is not documented to be in
//     the selected category is a failure, and so is a category run that is clean while a laxer one is not
//     (FILE => PACKAGE => WIRE_JSON => WIRE);
//   - the C04 entries (identical, re-commented/reformatted, additive-only) must be clean everywhere.

type vrAnn struct {
	rule, file string
	line, col  int
	msg        string
}

func (a vrAnn) String() string {
	f := a.file
	if f == "" {
		f = "<no file>"
	}
	msg := a.msg
	if len(msg) > 220 {
		msg = msg[:220] + "..."
	}
	return fmt.Sprintf("%s %s:%d:%d %q", a.rule, f, a.line, a.col, msg)
}

// vrExp is one annotation that must be reported.
type vrExp struct {
	rule  string
	file  string   // "" = the annotation carries no file (the file is gone in the current version)
	mark  string   // marker comment in the current source of file giving the line; "" = no line (whole file)
	names []string // substrings the message must contain (it has to name the edited element)
}

type vrEntry struct {
	name      string
	note      string   // optional: how the sources were generated
	rules     []string // rule IDs this entry is about: reported set must be exactly exp for these
	prev, cur map[string]string
	exp       []vrExp
	clean     bool // C04: nothing may be reported in any category
}

func vrE(rule, file, mark string, names ...string) vrExp {
	return vrExp{rule: rule, file: file, mark: mark, names: names}
}

// ---------------------------------------------------------------------------------------------------
// documented rule -> categories table (bufcheckserver.go). Letters: F=FILE P=PACKAGE J=WIRE_JSON W=WIRE.

var vrRuleCatsV2 = map[string]string{
	"ENUM_NO_DELETE": "F", "EXTENSION_NO_DELETE": "F", "FILE_NO_DELETE": "F", "MESSAGE_NO_DELETE": "F", "SERVICE_NO_DELETE": "F",
	"ENUM_SAME_TYPE": "FP", "ENUM_VALUE_NO_DELETE": "FP", "EXTENSION_MESSAGE_NO_DELETE": "FP", "FIELD_NO_DELETE": "FP",
	"FIELD_SAME_CARDINALITY": "FP", "FIELD_SAME_CPP_STRING_TYPE": "FP", "FIELD_SAME_JAVA_UTF8_VALIDATION": "FP",
	"FIELD_SAME_JSTYPE": "FP", "FIELD_SAME_TYPE": "FP", "FIELD_SAME_UTF8_VALIDATION": "FP",
	"FILE_SAME_CC_ENABLE_ARENAS": "FP", "FILE_SAME_CC_GENERIC_SERVICES": "FP", "FILE_SAME_CSHARP_NAMESPACE": "FP",
	"FILE_SAME_GO_PACKAGE": "FP", "FILE_SAME_JAVA_GENERIC_SERVICES": "FP", "FILE_SAME_JAVA_MULTIPLE_FILES": "FP",
	"FILE_SAME_JAVA_OUTER_CLASSNAME": "FP", "FILE_SAME_JAVA_PACKAGE": "FP", "FILE_SAME_OBJC_CLASS_PREFIX": "FP",
	"FILE_SAME_OPTIMIZE_FOR": "FP", "FILE_SAME_PHP_CLASS_PREFIX": "FP", "FILE_SAME_PHP_METADATA_NAMESPACE": "FP",
	"FILE_SAME_PHP_NAMESPACE": "FP", "FILE_SAME_PY_GENERIC_SERVICES": "FP", "FILE_SAME_RUBY_PACKAGE": "FP",
	"FILE_SAME_SWIFT_PREFIX": "FP", "FILE_SAME_SYNTAX": "FP",
	"MESSAGE_NO_REMOVE_STANDARD_DESCRIPTOR_ACCESSOR": "FP", "ONEOF_NO_DELETE": "FP", "RPC_NO_DELETE": "FP",
	"ENUM_SAME_JSON_FORMAT": "FPJ", "ENUM_VALUE_SAME_NAME": "FPJ", "FIELD_SAME_JSON_NAME": "FPJ", "FIELD_SAME_NAME": "FPJ",
	"MESSAGE_SAME_JSON_FORMAT": "FPJ",
	"FIELD_SAME_DEFAULT":       "FPJW", "FIELD_SAME_ONEOF": "FPJW", "FILE_SAME_PACKAGE": "FPJW", "MESSAGE_SAME_REQUIRED_FIELDS": "FPJW",
	"RESERVED_ENUM_NO_DELETE": "FPJW", "RESERVED_MESSAGE_NO_DELETE": "FPJW", "RPC_SAME_CLIENT_STREAMING": "FPJW",
	"RPC_SAME_IDEMPOTENCY_LEVEL": "FPJW", "RPC_SAME_REQUEST_TYPE": "FPJW", "RPC_SAME_RESPONSE_TYPE": "FPJW",
	"RPC_SAME_SERVER_STREAMING": "FPJW",
	"PACKAGE_ENUM_NO_DELETE":    "P", "PACKAGE_EXTENSION_NO_DELETE": "P", "PACKAGE_MESSAGE_NO_DELETE": "P", "PACKAGE_NO_DELETE": "P",
	"PACKAGE_SERVICE_NO_DELETE":                 "P",
	"ENUM_VALUE_NO_DELETE_UNLESS_NAME_RESERVED": "J", "FIELD_NO_DELETE_UNLESS_NAME_RESERVED": "J",
	"FIELD_WIRE_JSON_COMPATIBLE_CARDINALITY": "J", "FIELD_WIRE_JSON_COMPATIBLE_TYPE": "J",
	"ENUM_VALUE_NO_DELETE_UNLESS_NUMBER_RESERVED": "JW", "FIELD_NO_DELETE_UNLESS_NUMBER_RESERVED": "JW",
	"FIELD_WIRE_COMPATIBLE_CARDINALITY": "W", "FIELD_WIRE_COMPATIBLE_TYPE": "W",
}

// vrCats returns the documented categories of rule in the given buf.yaml version ("" = rule does not exist there).
func vrCats(version, rule string) string {
	cats := vrRuleCatsV2[rule]
	if version == "v2" {
		return cats
	}
	switch rule {
	case "EXTENSION_NO_DELETE", "PACKAGE_EXTENSION_NO_DELETE", "FIELD_SAME_DEFAULT":
		return "" // v2 only
	}
	if version == "v1beta1" {
		switch rule {
		case "FIELD_SAME_CARDINALITY", "FIELD_SAME_TYPE":
			return "FPJW"
		case "FILE_SAME_PACKAGE":
			return "F"
		case "FIELD_WIRE_COMPATIBLE_TYPE", "FIELD_WIRE_JSON_COMPATIBLE_TYPE":
			return ""
		}
	}
	return cats
}

var vrCategories = []struct{ name, letter string }{{"FILE", "F"}, {"PACKAGE", "P"}, {"WIRE_JSON", "J"}, {"WIRE", "W"}}

func vrAllRules() []string {
	var rules []string
	for r := range vrRuleCatsV2 {
		rules = append(rules, r)
	}
	sort.Strings(rules)
	return rules
}

// ---------------------------------------------------------------------------------------------------
// running buf breaking on in-memory workspaces

type vrEnv struct {
	ctx     context.Context
	logger  *slog.Logger
	client  bufcheck.Client
	images  map[string]bufimage.Image
	configs map[string]bufconfig.BreakingConfig
	calls   int
}

func vrNewEnv(ctx context.Context) (*vrEnv, error) {
	logger := slog.New(slog.NewTextHandler(io.Discard, nil))
	client, err := bufcheck.NewClient(logger, bufcheck.NewLocalRunnerProvider(wasm.UnimplementedRuntime, bufplugin.NopPluginKeyProvider, bufplugin.NopPluginDataProvider))
	if err != nil {
		return nil, err
	}
	return &vrEnv{ctx: ctx, logger: logger, client: client, images: map[string]bufimage.Image{}, configs: map[string]bufconfig.BreakingConfig{}}, nil
}

func (e *vrEnv) workspace(files map[string]string) (bufworkspace.Workspace, error) {
	bucket := storagemem.NewReadWriteBucket()
	for path, data := range files {
		if err := storage.PutPath(e.ctx, bucket, path, []byte(data)); err != nil {
			return nil, err
		}
	}
	targeting, err := buftarget.NewBucketTargeting(e.ctx, e.logger, bucket, ".", nil, nil, buftarget.TerminateAtControllingWorkspace)
	if err != nil {
		return nil, err
	}
	return bufworkspace.NewWorkspaceProvider(e.logger, bufmodule.NopGraphProvider, bufmodule.NopModuleDataProvider, bufmodule.NopCommitProvider, bufplugin.NopPluginKeyProvider).GetWorkspaceForBucket(e.ctx, bucket, targeting)
}

func vrSortedPaths(files map[string]string) []string {
	paths := make([]string, 0, len(files))
	for p := range files {
		paths = append(paths, p)
	}
	sort.Strings(paths)
	return paths
}

// image builds (and caches per file map) the image of the .proto files, source info kept.
func (e *vrEnv) image(files map[string]string) (bufimage.Image, error) {
	var key strings.Builder
	for _, p := range vrSortedPaths(files) {
		key.WriteString(p + "\x00" + files[p] + "\x01")
	}
	if img, ok := e.images[key.String()]; ok {
		return img, nil
	}
	all := map[string]string{"buf.yaml": "version: v1\n"}
	for p, d := range files {
		all[p] = d
	}
	ws, err := e.workspace(all)
	if err != nil {
		return nil, err
	}
	img, err := bufimage.BuildImage(e.ctx, e.logger, bufmodule.ModuleSetToModuleReadBucketWithOnlyProtoFiles(ws))
	if err != nil {
		return nil, err
	}
	e.images[key.String()] = img
	return img, nil
}

// config reads (and caches) the breaking configuration a workspace with this buf.yaml gets.
func (e *vrEnv) config(bufYAML string) (bufconfig.BreakingConfig, error) {
	if c, ok := e.configs[bufYAML]; ok {
		return c, nil
	}
	ws, err := e.workspace(map[string]string{"buf.yaml": bufYAML, "cfg.proto": "syntax = \"proto3\";\npackage cfg;\n"})
	if err != nil {
		return nil, err
	}
	opaqueID, err := testGetRootOpaqueID(ws, ".")
	if err != nil {
		return nil, err
	}
	c := ws.GetBreakingConfigForOpaqueID(opaqueID)
	if c == nil {
		return nil, fmt.Errorf("no breaking config for %q", bufYAML)
	}
	e.configs[bufYAML] = c
	return c, nil
}

func vrBufYAML(version, use string) string {
	return "version: " + version + "\nbreaking:\n  use:\n    - " + use + "\n"
}

// runBreaking = `buf breaking <cur> --against <prev>` with the given buf.yaml in the current workspace.
func (e *vrEnv) runBreaking(prev, cur map[string]string, bufYAML string) ([]vrAnn, error) {
	previousImage, err := e.image(prev)
	if err != nil {
		return nil, fmt.Errorf("catalogue: build previous: %w", err)
	}
	image, err := e.image(cur)
	if err != nil {
		return nil, fmt.Errorf("catalogue: build current: %w", err)
	}
	config, err := e.config(bufYAML)
	if err != nil {
		return nil, fmt.Errorf("catalogue: config: %w", err)
	}
	e.calls++
	err = e.client.Breaking(e.ctx, config, image, previousImage, bufcheck.BreakingWithExcludeImports())
	if err == nil {
		return nil, nil
	}
	var set bufanalysis.FileAnnotationSet
	if !errors.As(err, &set) {
		return nil, fmt.Errorf("buf breaking failed: %w", err)
	}
	var anns []vrAnn
	defer func() {
		if os.Getenv("VERIF_REPLAY_DEBUG") != "" {
			fmt.Printf("VERIF-REPLAY debug {%s}: %v\n", strings.Join(strings.Fields(bufYAML), " "), anns)
		}
	}()
	for _, a := range set.FileAnnotations() {
		ann := vrAnn{rule: a.Type(), line: a.StartLine(), col: a.StartColumn(), msg: a.Message()}
		if a.FileInfo() != nil {
			ann.file = a.FileInfo().Path()
		}
		anns = append(anns, ann)
	}
	return anns, nil
}

// ---------------------------------------------------------------------------------------------------
// checking one run against an entry

var vrMarkerRE = regexp.MustCompile(`/\*[a-z0-9_]+\*/`)

func vrCompact(src string) string {
	s := strings.Join(strings.Fields(vrMarkerRE.ReplaceAllString(src, "")), " ")
	if len(s) > 600 {
		s = s[:600] + " ...(truncated)"
	}
	return s
}

// vrDescribe prints the sources on one line; when the violation names files only those are printed in full.
func vrDescribe(files map[string]string, other map[string]string, violation string, useLines bool) string {
	named := map[string]bool{}
	for _, m := range []map[string]string{files, other} {
		for p := range m {
			if strings.Contains(violation, p+":") || strings.Contains(violation, "at "+p) {
				named[p] = true
			}
		}
	}
	var parts []string
	omitted := 0
	for _, p := range vrSortedPaths(files) {
		if len(named) > 0 && !named[p] {
			omitted++
			continue
		}
		text := vrCompact(files[p])
		if strings.HasSuffix(text, "(truncated)") && useLines {
			// long generated source: the head plus the lines the violation talks about
			var lines []string
			seen := map[string]bool{}
			for _, m := range regexp.MustCompile(regexp.QuoteMeta(p)+`:(\d+)`).FindAllStringSubmatch(violation, -1) {
				if seen[m[1]] || len(lines) >= 5 {
					continue
				}
				seen[m[1]] = true
				n := 0
				fmt.Sscanf(m[1], "%d", &n)
				lines = append(lines, fmt.Sprintf("line %d: %s", n, vrLineText(files[p], n)))
			}
			if len(lines) > 0 {
				if len(text) > 150 {
					text = text[:150]
				}
				text += " ... " + strings.Join(lines, " ... ") + " ..."
			}
		}
		parts = append(parts, p+": "+text)
	}
	if omitted > 0 {
		parts = append(parts, fmt.Sprintf("(+%d files not involved)", omitted))
	}
	return "{" + strings.Join(parts, " | ") + "}"
}

// vrMarkLine returns the 1-based line of the marker in src (0 if absent) and the text of that line.
func vrMarkLine(src, mark string) (int, string) {
	for i, l := range strings.Split(src, "\n") {
		if strings.Contains(l, mark) {
			return i + 1, vrCompact(l)
		}
	}
	return 0, ""
}

func vrLineText(src string, line int) string {
	lines := strings.Split(src, "\n")
	if line >= 1 && line <= len(lines) {
		return vrCompact(lines[line-1])
	}
	return ""
}

type vrResolved struct {
	exp  vrExp
	line int // 0 = no line
}

func (en *vrEntry) resolve(rule string) ([]vrResolved, error) {
	var out []vrResolved
	for _, x := range en.exp {
		if x.rule != rule {
			continue
		}
		r := vrResolved{exp: x}
		if x.mark != "" {
			line, _ := vrMarkLine(en.cur[x.file], x.mark)
			if line == 0 {
				return nil, fmt.Errorf("catalogue: entry %q: marker %q not in current %q", en.name, x.mark, x.file)
			}
			r.line = line
		}
		out = append(out, r)
	}
	return out, nil
}

func (r vrResolved) String() string {
	f := r.exp.file
	if f == "" {
		f = "<no file>"
	}
	pos := f
	if r.line > 0 {
		pos = fmt.Sprintf("%s:%d", f, r.line)
	}
	return fmt.Sprintf("%s at %s naming %q", r.exp.rule, pos, r.exp.names)
}

func (r vrResolved) positionMatches(a vrAnn) bool {
	if a.rule != r.exp.rule || a.file != r.exp.file {
		return false
	}
	if r.line == 0 {
		return a.line <= 1 // no location: nothing or the top of the file
	}
	return a.line == r.line
}

func (r vrResolved) matches(a vrAnn) bool {
	if !r.positionMatches(a) {
		return false
	}
	for _, n := range r.exp.names {
		if !strings.Contains(a.msg, n) {
			return false
		}
	}
	return true
}

// matchRule compares the annotations of one rule with the expectations of the entry: "" if equal.
func (en *vrEntry) matchRule(rule string, anns []vrAnn) (string, error) {
	want, err := en.resolve(rule)
	if err != nil {
		return "", err
	}
	var got []vrAnn
	for _, a := range anns {
		if a.rule == rule {
			got = append(got, a)
		}
	}
	var problems []string
	for _, w := range want {
		found := false
		for _, a := range got {
			if w.matches(a) {
				found = true
				break
			}
		}
		if !found {
			p := "missing " + w.String()
			if w.line > 0 {
				p += fmt.Sprintf(" (current line %q)", vrLineText(en.cur[w.exp.file], w.line))
			}
			problems = append(problems, p)
		}
	}
	for _, a := range got {
		ok := false
		for _, w := range want {
			if w.positionMatches(a) {
				ok = true
				break
			}
		}
		if !ok {
			p := "unexpected " + a.String()
			if a.line > 0 && a.file != "" {
				p += fmt.Sprintf(" (current line %q)", vrLineText(en.cur[a.file], a.line))
			}
			problems = append(problems, p)
		}
	}
	if len(problems) == 0 {
		return "", nil
	}
	if len(problems) > 4 {
		problems = append(problems[:4], fmt.Sprintf("... and %d more", len(problems)-4))
	}
	var gotS []string
	for i, a := range got {
		if i == 3 {
			gotS = append(gotS, "...")
			break
		}
		gotS = append(gotS, a.String())
	}
	return fmt.Sprintf("rule %s: %s; expected %d annotation(s), observed %d %v", rule, strings.Join(problems, "; "), len(want), len(got), gotS), nil
}

func vrContains(list []string, s string) bool {
	for _, x := range list {
		if x == s {
			return true
		}
	}
	return false
}

// checkEntry runs all configurations for one entry; returns the first violation ("" if none) with its config.
func (e *vrEnv) checkEntry(en *vrEntry, versions []string, singleOnly map[string]bool) (config, violation string, err error) {
	garbled := func(anns []vrAnn) string {
		for _, a := range anns {
			if strings.Contains(a.msg, "%!") {
				return "annotation with garbled message: " + a.String()
			}
		}
		return ""
	}
	// (a) single-rule configurations
	for _, rule := range en.rules {
		if singleOnly != nil && !singleOnly[rule] {
			continue
		}
		for _, version := range []string{"v2", "v1"} {
			if vrCats(version, rule) == "" {
				continue
			}
			yaml := vrBufYAML(version, rule)
			anns, err := e.runBreaking(en.prev, en.cur, yaml)
			if err != nil {
				if strings.HasPrefix(err.Error(), "catalogue:") {
					return "", "", err
				}
				return yaml, err.Error(), nil
			}
			for _, a := range anns {
				if a.rule != rule {
					return yaml, "annotation of a rule that is not configured: " + a.String(), nil
				}
			}
			if g := garbled(anns); g != "" {
				return yaml, g, nil
			}
			if en.clean && len(anns) > 0 {
				return yaml, fmt.Sprintf("compatible change reported: %v", anns), nil
			}
			v, err := en.matchRule(rule, anns)
			if err != nil {
				return "", "", err
			}
			if v != "" {
				return yaml, v, nil
			}
		}
	}
	// (b) the four categories, documented membership, exactness for the entry's rules, hierarchy
	for _, version := range versions {
		clean := map[string]bool{}
		summary := map[string]string{}
		for _, cat := range vrCategories {
			yaml := vrBufYAML(version, cat.name)
			anns, err := e.runBreaking(en.prev, en.cur, yaml)
			if err != nil {
				if strings.HasPrefix(err.Error(), "catalogue:") {
					return "", "", err
				}
				return yaml, err.Error(), nil
			}
			clean[cat.letter] = len(anns) == 0
			seen := map[string]bool{}
			var ids []string
			for _, a := range anns {
				if !seen[a.rule] {
					seen[a.rule] = true
					ids = append(ids, a.rule)
				}
			}
			summary[cat.name] = fmt.Sprintf("%v", ids)
			if g := garbled(anns); g != "" {
				return yaml, g, nil
			}
			if en.clean && len(anns) > 0 {
				return yaml, fmt.Sprintf("compatible change reported: %v", anns), nil
			}
			for _, a := range anns {
				if !strings.Contains(vrCats(version, a.rule), cat.letter) {
					return yaml, fmt.Sprintf("annotation of rule %s, which is not documented in category %s of %s: %s", a.rule, cat.name, version, a.String()), nil
				}
			}
			for _, rule := range en.rules {
				if !strings.Contains(vrCats(version, rule), cat.letter) {
					continue
				}
				v, err := en.matchRule(rule, anns)
				if err != nil {
					return "", "", err
				}
				if v != "" {
					return yaml, v, nil
				}
			}
		}
		order := []struct{ strict, lax, strictName, laxName string }{{"F", "P", "FILE", "PACKAGE"}, {"P", "J", "PACKAGE", "WIRE_JSON"}, {"J", "W", "WIRE_JSON", "WIRE"}}
		for _, o := range order {
			if clean[o.strict] && !clean[o.lax] {
				return "version: " + version + " breaking.use each of FILE, PACKAGE, WIRE_JSON, WIRE",
					fmt.Sprintf("category hierarchy broken: clean under %s but not under the laxer %s (rules reported: FILE %s PACKAGE %s WIRE_JSON %s WIRE %s)",
						o.strictName, o.laxName, summary["FILE"], summary["PACKAGE"], summary["WIRE_JSON"], summary["WIRE"]), nil
			}
		}
	}
	return "", "", nil
}

// ---------------------------------------------------------------------------------------------------
// dispatch

func vrNorm(s string) string { return strings.ToUpper(strings.ReplaceAll(s, "_", "")) }

func vrRulesWithPrefix(prefixes ...string) []string {
	var out []string
	for _, r := range vrAllRules() {
		for _, p := range prefixes {
			if strings.HasPrefix(r, p) {
				out = append(out, r)
				break
			}
		}
	}
	return out
}

// vrHelperRules: shared helpers -> the rules that are built on them.
var vrHelperRules = map[string][]string{
	"isDeletedEnumValueAllowedWithRules":        {"ENUM_VALUE_NO_DELETE", "ENUM_VALUE_NO_DELETE_UNLESS_NAME_RESERVED", "ENUM_VALUE_NO_DELETE_UNLESS_NUMBER_RESERVED"},
	"checkEnumValueNoDeleteWithRules":           {"ENUM_VALUE_NO_DELETE", "ENUM_VALUE_NO_DELETE_UNLESS_NAME_RESERVED", "ENUM_VALUE_NO_DELETE_UNLESS_NUMBER_RESERVED"},
	"checkFieldNoDeleteWithRules":               {"FIELD_NO_DELETE", "FIELD_NO_DELETE_UNLESS_NAME_RESERVED", "FIELD_NO_DELETE_UNLESS_NUMBER_RESERVED"},
	"isDeletedFieldAllowedWithRules":            {"FIELD_NO_DELETE", "FIELD_NO_DELETE_UNLESS_NAME_RESERVED", "FIELD_NO_DELETE_UNLESS_NUMBER_RESERVED"},
	"NumberInReservedRanges":                    {"FIELD_NO_DELETE_UNLESS_NUMBER_RESERVED", "ENUM_VALUE_NO_DELETE_UNLESS_NUMBER_RESERVED"},
	"NameInReservedNames":                       {"FIELD_NO_DELETE_UNLESS_NAME_RESERVED", "ENUM_VALUE_NO_DELETE_UNLESS_NAME_RESERVED"},
	"checkTagRanges":                            {"RESERVED_ENUM_NO_DELETE", "RESERVED_MESSAGE_NO_DELETE", "EXTENSION_MESSAGE_NO_DELETE"},
	"collapseRanges":                            {"RESERVED_ENUM_NO_DELETE", "RESERVED_MESSAGE_NO_DELETE", "EXTENSION_MESSAGE_NO_DELETE"},
	"findMissing":                               {"RESERVED_ENUM_NO_DELETE", "RESERVED_MESSAGE_NO_DELETE", "EXTENSION_MESSAGE_NO_DELETE"},
	"missingRangesString":                       {"RESERVED_ENUM_NO_DELETE", "RESERVED_MESSAGE_NO_DELETE", "EXTENSION_MESSAGE_NO_DELETE"},
	"classifyElementRange":                      {"RESERVED_ENUM_NO_DELETE", "RESERVED_MESSAGE_NO_DELETE", "EXTENSION_MESSAGE_NO_DELETE"},
	"ValueToReservedName":                       {"RESERVED_ENUM_NO_DELETE", "RESERVED_MESSAGE_NO_DELETE"},
	"addFieldChangedType":                       {"FIELD_SAME_TYPE", "FIELD_WIRE_COMPATIBLE_TYPE", "FIELD_WIRE_JSON_COMPATIBLE_TYPE"},
	"addEnumGroupMessageFieldChangedTypeName":   {"FIELD_SAME_TYPE", "FIELD_WIRE_COMPATIBLE_TYPE", "FIELD_WIRE_JSON_COMPATIBLE_TYPE"},
	"checkEnumWireCompatibleForField":           {"FIELD_WIRE_COMPATIBLE_TYPE", "FIELD_WIRE_JSON_COMPATIBLE_TYPE"},
	"getEnumByFullName":                         {"FIELD_WIRE_COMPATIBLE_TYPE", "FIELD_WIRE_JSON_COMPATIBLE_TYPE"},
	"EnumIsSubset":                              {"FIELD_WIRE_COMPATIBLE_TYPE", "FIELD_WIRE_JSON_COMPATIBLE_TYPE"},
	"fieldDescriptorTypePrettyString":           {"FIELD_SAME_TYPE", "FIELD_WIRE_COMPATIBLE_TYPE", "FIELD_WIRE_JSON_COMPATIBLE_TYPE"},
	"getDescriptorAndLocationForDeletedElement": {"ENUM_NO_DELETE", "EXTENSION_NO_DELETE", "PACKAGE_ENUM_NO_DELETE", "PACKAGE_EXTENSION_NO_DELETE"},
	"getDescriptorAndLocationForDeletedMessage": {"MESSAGE_NO_DELETE", "PACKAGE_MESSAGE_NO_DELETE"},
	"getCardinality":                            {"FIELD_SAME_CARDINALITY", "FIELD_WIRE_COMPATIBLE_CARDINALITY", "FIELD_WIRE_JSON_COMPATIBLE_CARDINALITY"},
	"getSortedEnumValueNames":                   {"ENUM_VALUE_SAME_NAME", "ENUM_VALUE_NO_DELETE_UNLESS_NAME_RESERVED"},
	"fieldCppStringType":                        {"FIELD_SAME_CPP_STRING_TYPE"},
	"fieldCppStringTypeLocation":                {"FIELD_SAME_CPP_STRING_TYPE"},
	"fieldJavaUTF8Validation":                   {"FIELD_SAME_JAVA_UTF8_VALIDATION"},
	"fieldJavaUTF8ValidationLocation":           {"FIELD_SAME_JAVA_UTF8_VALIDATION"},
	"is64bitInteger":                            {"FIELD_SAME_JSTYPE"},
	"canHaveDefault":                            {"FIELD_SAME_DEFAULT"},
	"getDefault":                                {"FIELD_SAME_DEFAULT"},
	"defaultsEqual":                             {"FIELD_SAME_DEFAULT"},
	"findFeatureField":                          {"ENUM_SAME_JSON_FORMAT", "MESSAGE_SAME_JSON_FORMAT", "FIELD_SAME_UTF8_VALIDATION", "FIELD_SAME_JAVA_UTF8_VALIDATION"},
	"NumberToNameToEnumValue":                   {"ENUM_VALUE_NO_DELETE", "ENUM_VALUE_NO_DELETE_UNLESS_NAME_RESERVED", "ENUM_VALUE_NO_DELETE_UNLESS_NUMBER_RESERVED", "ENUM_VALUE_SAME_NAME"},
	"NewBreakingEnumValuePairRuleHandler":       {"ENUM_VALUE_SAME_NAME"},
	"NewBreakingMethodPairRuleHandler":          {"RPC_SAME_CLIENT_STREAMING", "RPC_SAME_IDEMPOTENCY_LEVEL", "RPC_SAME_REQUEST_TYPE", "RPC_SAME_RESPONSE_TYPE", "RPC_SAME_SERVER_STREAMING"},
	"NewBreakingServicePairRuleHandler":         {"RPC_NO_DELETE", "RPC_SAME_CLIENT_STREAMING", "RPC_SAME_IDEMPOTENCY_LEVEL", "RPC_SAME_REQUEST_TYPE", "RPC_SAME_RESPONSE_TYPE", "RPC_SAME_SERVER_STREAMING"},
	"NameToMethod":                              {"RPC_NO_DELETE", "RPC_SAME_CLIENT_STREAMING", "RPC_SAME_IDEMPOTENCY_LEVEL", "RPC_SAME_REQUEST_TYPE", "RPC_SAME_RESPONSE_TYPE", "RPC_SAME_SERVER_STREAMING"},
	"NameToMessageOneof":                        {"ONEOF_NO_DELETE"},
}

// vrRulesForFunc maps VERIF_REPLAY_FUNC to the rules to replay; nil = whole catalogue.
func vrRulesForFunc(fn string) []string {
	if i := strings.LastIndex(fn, "."); i >= 0 {
		fn = fn[i+1:]
	}
	if fn == "checkFileSameValue" {
		return vrRulesWithPrefix("FILE_SAME_")
	}
	if rules, ok := vrHelperRules[fn]; ok {
		return rules
	}
	for _, prefix := range []string{"handleBreaking", "HandleBreaking"} {
		if strings.HasPrefix(fn, prefix) {
			want := vrNorm(strings.TrimPrefix(fn, prefix))
			for _, r := range vrAllRules() {
				if vrNorm(r) == want {
					return []string{r}
				}
			}
		}
	}
	return nil
}

func verifReplayCatalogue(fn, obligation string) {
	start := time.Now()
	ctx, cancel := context.WithTimeout(context.Background(), 50*time.Second)
	defer cancel()
	env, err := vrNewEnv(ctx)
	if err != nil {
		fmt.Printf("VERIF-REPLAY cannot create the check client: %v\n", err)
		return
	}
	catalogue := vrCatalogue()
	if os.Getenv("VERIF_REPLAY_DEBUG") == "coverage" {
		for _, r := range vrAllRules() {
			entries, exps := 0, 0
			for _, en := range catalogue {
				if vrContains(en.rules, r) {
					entries++
				}
				for _, x := range en.exp {
					if x.rule == r {
						exps++
					}
				}
			}
			fmt.Printf("VERIF-REPLAY coverage %s: %d pairs, %d expected annotations\n", r, entries, exps)
		}
	}
	rules := vrRulesForFunc(fn)
	var selected []*vrEntry
	for i := range catalogue {
		en := &catalogue[i]
		if en.clean || rules == nil {
			selected = append(selected, en)
			continue
		}
		for _, r := range rules {
			if vrContains(en.rules, r) {
				selected = append(selected, en)
				break
			}
		}
	}
	targeted := 0
	for _, en := range selected {
		if !en.clean {
			targeted++
		}
	}
	if rules != nil && targeted == 0 {
		fmt.Printf("VERIF-REPLAY no harness for %q\n", fn)
		return
	}
	if rules == nil {
		fmt.Printf("VERIF-REPLAY %q (%s) is not tied to particular rules: replaying the whole catalogue (%d pairs)\n", fn, obligation, len(selected))
	} else {
		fmt.Printf("VERIF-REPLAY %q (%s) -> rules %v: replaying %d pairs\n", fn, obligation, rules, len(selected))
	}
	// entries that are specifically about the blamed rules first, the always-on C04 entries afterwards
	sort.SliceStable(selected, func(i, j int) bool { return !selected[i].clean && selected[j].clean })
	var singleOnly map[string]bool
	if rules != nil {
		singleOnly = map[string]bool{}
		for _, r := range rules {
			singleOnly[r] = true
		}
	}
	checked, failing, printed := 0, 0, 0
	for _, en := range selected {
		if time.Since(start) > 42*time.Second {
			fmt.Printf("VERIF-REPLAY time budget used up after %d of %d pairs\n", checked, len(selected))
			break
		}
		versions := []string{"v1", "v2"}
		if en.clean || time.Since(start) < 15*time.Second {
			versions = []string{"v1", "v2", "v1beta1"}
		}
		config, violation, err := env.checkEntry(en, versions, singleOnly)
		checked++
		if err != nil {
			fmt.Printf("VERIF-REPLAY catalogue problem in pair %q: %v\n", en.name, err)
			continue
		}
		if violation == "" {
			continue
		}
		failing++
		if printed < 5 {
			printed++
			note := ""
			if en.note != "" {
				note = " (" + en.note + ")"
			}
			fmt.Printf("VERIF-REPLAY FAILING-INPUT pair %q%s: previous %s current %s; buf.yaml {%s}: %s\n",
				en.name, note, vrDescribe(en.prev, en.cur, violation, en.note != ""), vrDescribe(en.cur, en.prev, violation, true), strings.Join(strings.Fields(config), " "), violation)
		}
	}
	fmt.Printf("VERIF-REPLAY checked %d pairs, %d failing (%d buf breaking runs, %.1fs)\n", checked, failing, env.calls, time.Since(start).Seconds())
}

// ---------------------------------------------------------------------------------------------------
// the catalogue

func vrP3(body string) string { return "syntax = \"proto3\";\npackage p;\n" + body }
func vrP2(body string) string { return "syntax = \"proto2\";\npackage p;\n" + body }
func vrEd(body string) string { return "edition = \"2023\";\npackage p;\n" + body }

func vrOne(src string) map[string]string { return map[string]string{"a.proto": src} }

type vrCat struct{ entries []vrEntry }

func (c *vrCat) add(name string, rules []string, prev, cur map[string]string, exp ...vrExp) *vrEntry {
	c.entries = append(c.entries, vrEntry{name: name, rules: rules, prev: prev, cur: cur, exp: exp})
	return &c.entries[len(c.entries)-1]
}

func (c *vrCat) addClean(name string, prev, cur map[string]string) {
	c.entries = append(c.entries, vrEntry{name: name, prev: prev, cur: cur, clean: true})
}

func vrCatalogue() []vrEntry {
	c := &vrCat{}
	vrCatDeleteElements(c)
	vrCatEnumValues(c)
	vrCatFieldDelete(c)
	vrCatFieldTypes(c)
	vrCatFieldAttrs(c)
	vrCatMessagesEnums(c)
	vrCatRPC(c)
	vrCatFileOptions(c)
	vrCatReserved(c)
	vrCatCompatible(c)
	return c.entries
}

// --- deleting enums, messages, services, extensions, files, packages ---------------------------------

func vrCatDeleteElements(c *vrCat) {
	// anchors keep one enum, message, service and extension alive in package p
	const anchor = "enum KeepE { KEEP_E_ZERO = 0; }\nmessage KeepM { optional int32 k = 1; extensions 100 to 199; }\nservice KeepS { rpc Ping(KeepM) returns (KeepM); }\nextend KeepM { optional int32 keep_ext = 100; }\n"

	delRules := []string{"ENUM_NO_DELETE", "PACKAGE_ENUM_NO_DELETE", "MESSAGE_NO_DELETE", "PACKAGE_MESSAGE_NO_DELETE", "SERVICE_NO_DELETE", "PACKAGE_SERVICE_NO_DELETE",
		"EXTENSION_NO_DELETE", "PACKAGE_EXTENSION_NO_DELETE", "FILE_NO_DELETE", "PACKAGE_NO_DELETE"}

	// top-level elements deleted, file stays
	c.add("delete-toplevel-enum", delRules,
		vrOne(vrP2(anchor+"enum GoneEnum { GONE_ENUM_ZERO = 0; }\n")),
		vrOne(vrP2(anchor+"message Added { optional int32 fresh = 1; }\n")),
		vrE("ENUM_NO_DELETE", "a.proto", "", "GoneEnum"),
		vrE("PACKAGE_ENUM_NO_DELETE", "a.proto", "", "GoneEnum"))
	c.add("delete-toplevel-message", delRules,
		vrOne(vrP2(anchor+"message GoneMsg { optional int32 x = 1; }\n")),
		vrOne(vrP2(anchor+"enum AddedE { ADDED_E_ZERO = 0; }\n")),
		vrE("MESSAGE_NO_DELETE", "a.proto", "", "GoneMsg"),
		vrE("PACKAGE_MESSAGE_NO_DELETE", "a.proto", "", "GoneMsg"))
	c.add("delete-service", delRules,
		vrOne(vrP2(anchor+"service GoneSvc { rpc Call(KeepM) returns (KeepM); }\n")),
		vrOne(vrP2(anchor)),
		vrE("SERVICE_NO_DELETE", "a.proto", "", "GoneSvc"),
		vrE("PACKAGE_SERVICE_NO_DELETE", "a.proto", "", "GoneSvc"))
	c.add("delete-toplevel-extension", delRules,
		vrOne(vrP2(anchor+"extend KeepM { optional string gone_ext = 101; }\n")),
		vrOne(vrP2(anchor)),
		vrE("EXTENSION_NO_DELETE", "a.proto", "", "gone_ext"),
		vrE("PACKAGE_EXTENSION_NO_DELETE", "a.proto", "", "gone_ext"))

	// nested elements deleted: located at the closest surviving enclosing message
	c.add("delete-nested-enum", delRules,
		vrOne(vrP3("message Outer {\n  enum InnerGone { INNER_GONE_ZERO = 0; }\n  enum InnerKeep { INNER_KEEP_ZERO = 0; }\n  int32 x = 1;\n}\nenum TopKeep { TOP_KEEP_ZERO = 0; }\n")),
		vrOne(vrP3("// a comment\nmessage Outer { /*1*/\n  enum InnerKeep { INNER_KEEP_ZERO = 0; }\n  int32 x = 1;\n  int32 y = 2;\n}\nenum TopKeep { TOP_KEEP_ZERO = 0; }\n")),
		vrE("ENUM_NO_DELETE", "a.proto", "/*1*/", "Outer.InnerGone"),
		vrE("PACKAGE_ENUM_NO_DELETE", "a.proto", "/*1*/", "Outer.InnerGone"))
	c.add("delete-nested-message", delRules,
		vrOne(vrP3("message Top {}\nmessage Outer {\n  message InnerGone { int32 a = 1; }\n  message InnerKeep {}\n}\n")),
		vrOne(vrP3("message Top {}\n\n\nmessage Outer { /*1*/\n  message InnerKeep {}\n}\n")),
		vrE("MESSAGE_NO_DELETE", "a.proto", "/*1*/", "Outer.InnerGone"),
		vrE("PACKAGE_MESSAGE_NO_DELETE", "a.proto", "/*1*/", "Outer.InnerGone"))
	c.add("delete-deeply-nested", delRules,
		vrOne(vrP3("message Outer {\n  message Mid {\n    enum DeepEnum { DEEP_ENUM_ZERO = 0; }\n    message DeepMsg {}\n  }\n  message MidKeep {\n    enum E2 { E2_ZERO = 0; }\n  }\n}\nenum TopKeep { TOP_KEEP_ZERO = 0; }\n")),
		vrOne(vrP3("message Outer { /*1*/\n  message MidKeep { /*2*/\n  }\n}\nenum TopKeep { TOP_KEEP_ZERO = 0; }\nenum E2 { E2_ZERO = 0; }\n")),
		vrE("ENUM_NO_DELETE", "a.proto", "/*1*/", "Outer.Mid.DeepEnum"),
		vrE("PACKAGE_ENUM_NO_DELETE", "a.proto", "/*1*/", "Outer.Mid.DeepEnum"),
		vrE("ENUM_NO_DELETE", "a.proto", "/*2*/", "Outer.MidKeep.E2"),
		vrE("PACKAGE_ENUM_NO_DELETE", "a.proto", "/*2*/", "Outer.MidKeep.E2"),
		vrE("MESSAGE_NO_DELETE", "a.proto", "/*1*/", "Outer.Mid"),
		vrE("PACKAGE_MESSAGE_NO_DELETE", "a.proto", "/*1*/", "Outer.Mid"),
		vrE("MESSAGE_NO_DELETE", "a.proto", "/*1*/", "Outer.Mid.DeepMsg"),
		vrE("PACKAGE_MESSAGE_NO_DELETE", "a.proto", "/*1*/", "Outer.Mid.DeepMsg"))
	c.add("delete-nested-extension", delRules,
		vrOne(vrP2(anchor+"message Holder {\n  extend KeepM { optional int32 nested_gone = 110; optional int32 nested_keep = 111; }\n}\n")),
		vrOne(vrP2(anchor+"message Holder { /*1*/\n  extend KeepM { optional int32 nested_keep = 111; }\n}\n")),
		vrE("EXTENSION_NO_DELETE", "a.proto", "/*1*/", "Holder.nested_gone"),
		vrE("PACKAGE_EXTENSION_NO_DELETE", "a.proto", "/*1*/", "Holder.nested_gone"))

	// second file of the package: elements deleted there
	c.add("delete-in-second-file", delRules,
		map[string]string{"a.proto": vrP2(anchor), "dir/b.proto": vrP2("enum BGoneE { B_GONE_E_ZERO = 0; }\nmessage BGoneM {}\nmessage BKeep {}\nservice BGoneS {}\n")},
		map[string]string{"a.proto": vrP2(anchor), "dir/b.proto": vrP2("message BKeep {}\n")},
		vrE("ENUM_NO_DELETE", "dir/b.proto", "", "BGoneE"), vrE("PACKAGE_ENUM_NO_DELETE", "dir/b.proto", "", "BGoneE"),
		vrE("MESSAGE_NO_DELETE", "dir/b.proto", "", "BGoneM"), vrE("PACKAGE_MESSAGE_NO_DELETE", "dir/b.proto", "", "BGoneM"),
		vrE("SERVICE_NO_DELETE", "dir/b.proto", "", "BGoneS"), vrE("PACKAGE_SERVICE_NO_DELETE", "dir/b.proto", "", "BGoneS"))

	// moved to another file of the same package: the FILE rules fire, the PACKAGE rules stay silent
	c.add("move-to-other-file-same-package", delRules,
		map[string]string{"a.proto": vrP2(anchor + "enum MovedE { MOVED_E_ZERO = 0; }\nmessage MovedM { message In {} }\nservice MovedS {}\nextend KeepM { optional int32 moved_ext = 120; }\n"),
			"b.proto": vrP2("message B {}\n")},
		map[string]string{"a.proto": vrP2(anchor),
			"b.proto": vrP2("import \"a.proto\";\nmessage B {}\nenum MovedE { MOVED_E_ZERO = 0; }\nmessage MovedM { message In {} }\nservice MovedS {}\nextend KeepM { optional int32 moved_ext = 120; }\n")},
		vrE("ENUM_NO_DELETE", "a.proto", "", "MovedE"),
		vrE("MESSAGE_NO_DELETE", "a.proto", "", "MovedM"), vrE("MESSAGE_NO_DELETE", "a.proto", "", "MovedM.In"),
		vrE("SERVICE_NO_DELETE", "a.proto", "", "MovedS"),
		vrE("EXTENSION_NO_DELETE", "a.proto", "", "moved_ext"))

	// the file holding the elements is deleted, the package survives through a.proto
	c.add("delete-file-package-survives", delRules,
		map[string]string{"a.proto": vrP2(anchor),
			"c.proto": vrP2("import \"a.proto\";\nenum FileGoneE { FILE_GONE_E_ZERO = 0; }\nmessage FileGoneM { message Part {} }\nservice FileGoneS {}\nextend KeepM { optional int32 file_gone_ext = 130; }\n")},
		map[string]string{"a.proto": vrP2(anchor + "message Fresh {}\n")},
		vrE("FILE_NO_DELETE", "", "", "c.proto"),
		vrE("PACKAGE_ENUM_NO_DELETE", "", "", "FileGoneE"),
		vrE("PACKAGE_MESSAGE_NO_DELETE", "", "", "FileGoneM"), vrE("PACKAGE_MESSAGE_NO_DELETE", "", "", "FileGoneM.Part"),
		vrE("PACKAGE_SERVICE_NO_DELETE", "", "", "FileGoneS"),
		vrE("PACKAGE_EXTENSION_NO_DELETE", "", "", "file_gone_ext"))

	// file renamed: FILE_NO_DELETE, nothing lost from the package
	c.add("rename-file", delRules,
		map[string]string{"a.proto": vrP2(anchor), "old_name.proto": vrP3("message R { int32 a = 1; }\nenum RE { RE_ZERO = 0; }\n")},
		map[string]string{"a.proto": vrP2(anchor), "new_name.proto": vrP3("message R { int32 a = 1; }\nenum RE { RE_ZERO = 0; }\n")},
		vrE("FILE_NO_DELETE", "", "", "old_name.proto"))

	// whole package deleted (with its only file)
	c.add("delete-package", delRules,
		map[string]string{"a.proto": vrP2(anchor), "q/q.proto": "syntax = \"proto3\";\npackage q.v1;\nmessage Q {}\nenum QE { QE_ZERO = 0; }\n"},
		map[string]string{"a.proto": vrP2(anchor)},
		vrE("FILE_NO_DELETE", "", "", "q/q.proto"),
		vrE("PACKAGE_NO_DELETE", "", "", "q.v1"))
	// package deleted because its file moved to another package
	c.add("delete-package-by-repackaging", append([]string{"FILE_SAME_PACKAGE"}, delRules...),
		map[string]string{"a.proto": vrP2(anchor), "q.proto": "syntax = \"proto3\";\npackage q.v1;\nmessage Q {}\n"},
		map[string]string{"a.proto": vrP2(anchor), "q.proto": "syntax = \"proto3\";\npackage q.v2; /*1*/\nmessage Q {}\n"},
		vrE("FILE_SAME_PACKAGE", "q.proto", "/*1*/", "q.v1", "q.v2"),
		vrE("PACKAGE_NO_DELETE", "", "", "q.v1"))
}

// --- deleting enum values / fields with and without reservations ---------------------------------------

// vrReservation describes what the current version reserves in the element a value/field was deleted from.
type vrReservation struct {
	label  string
	stmt   string   // the reserved statement(s) in the source
	names  []string // reserved names
	ranges [][2]int // reserved numbers, inclusive as written in the source
}

func (r vrReservation) hasNumber(n int) bool {
	for _, rg := range r.ranges {
		if rg[0] <= n && n <= rg[1] {
			return true
		}
	}
	return false
}

func (r vrReservation) hasAllNames(names ...string) bool {
	for _, n := range names {
		if !vrContains(r.names, n) {
			return false
		}
	}
	return true
}

func vrCatEnumValues(c *vrCat) {
	rules := []string{"ENUM_VALUE_NO_DELETE", "ENUM_VALUE_NO_DELETE_UNLESS_NAME_RESERVED", "ENUM_VALUE_NO_DELETE_UNLESS_NUMBER_RESERVED"}
	// documented: the plain rule is never exempted; the name rule is exempted iff ALL names of the deleted
	// number are reserved; the number rule iff the number is reserved.
	expect := func(file, mark, enumName string, number int, names []string, r vrReservation) []vrExp {
		num := fmt.Sprintf("\"%d\"", number)
		exp := []vrExp{vrE("ENUM_VALUE_NO_DELETE", file, mark, num, enumName)}
		if !r.hasAllNames(names...) {
			exp = append(exp, vrE("ENUM_VALUE_NO_DELETE_UNLESS_NAME_RESERVED", file, mark, num, enumName))
		}
		if !r.hasNumber(number) {
			exp = append(exp, vrE("ENUM_VALUE_NO_DELETE_UNLESS_NUMBER_RESERVED", file, mark, num, enumName))
		}
		return exp
	}
	// plain enum: C_FOUR = 4 deleted
	prevPlain := vrP3("enum Color {\n  C_ZERO = 0;\n  C_ONE = 1;\n  C_FOUR = 4;\n  C_NINE = 9;\n}\nmessage M { Color c = 1; }\n")
	for _, r := range []vrReservation{
		{label: "nothing-reserved"},
		{label: "name-reserved", stmt: "reserved \"C_FOUR\";", names: []string{"C_FOUR"}},
		{label: "other-name-reserved", stmt: "reserved \"C_FOUR_X\", \"C_FOU\";", names: []string{"C_FOUR_X", "C_FOU"}},
		{label: "number-reserved", stmt: "reserved 4;", ranges: [][2]int{{4, 4}}},
		{label: "both-reserved", stmt: "reserved 4;\n  reserved \"C_FOUR\";", names: []string{"C_FOUR"}, ranges: [][2]int{{4, 4}}},
		{label: "range-ends-at-number", stmt: "reserved 2 to 4;", ranges: [][2]int{{2, 4}}},
		{label: "range-starts-at-number", stmt: "reserved 4 to 8;", ranges: [][2]int{{4, 8}}},
		{label: "range-inside", stmt: "reserved 2 to 8;", ranges: [][2]int{{2, 8}}},
		{label: "range-just-below", stmt: "reserved 2 to 3;", ranges: [][2]int{{2, 3}}},
		{label: "range-just-above", stmt: "reserved 5 to 8;", ranges: [][2]int{{5, 8}}},
		{label: "two-ranges-around", stmt: "reserved 2 to 3, 5 to 8;", ranges: [][2]int{{2, 3}, {5, 8}}},
		{label: "second-range-hits", stmt: "reserved 2, 4 to 5, 100 to max;\n  reserved \"OTHER\";", names: []string{"OTHER"}, ranges: [][2]int{{2, 2}, {4, 5}, {100, 2147483647}}},
	} {
		cur := vrP3("enum Color { /*1*/\n  " + r.stmt + "\n  C_ZERO = 0;\n  C_ONE = 1;\n  C_NINE = 9;\n  C_TWENTY = 20;\n}\nmessage M { Color c = 1; }\nmessage Fresh {}\n")
		c.add("enum-value-delete/"+r.label, rules, vrOne(prevPlain), vrOne(cur), expect("a.proto", "/*1*/", "Color", 4, []string{"C_FOUR"}, r)...)
	}
	// negative number and the last value
	c.add("enum-value-delete/negative-number-reserved", rules,
		vrOne(vrP2("enum Neg { NEG_ZERO = 0; NEG_MINUS = -3; NEG_TOP = 7; }\n")),
		vrOne(vrP2("enum Neg { /*1*/ \n  reserved -3;\n  NEG_ZERO = 0; }\n")),
		append(expect("a.proto", "/*1*/", "Neg", -3, []string{"NEG_MINUS"}, vrReservation{ranges: [][2]int{{-3, -3}}}),
			expect("a.proto", "/*1*/", "Neg", 7, []string{"NEG_TOP"}, vrReservation{ranges: [][2]int{{-3, -3}}})...)...)

	// aliased enum: number 1 has the names A_ONE and A_UNO; both deleted
	prevAlias := vrP3("enum Alias {\n  option allow_alias = true;\n  A_ZERO = 0;\n  A_ONE = 1;\n  A_UNO = 1;\n  A_TWO = 2;\n  A_DOS = 2;\n}\n")
	for _, r := range []vrReservation{
		{label: "alias-nothing-reserved"},
		{label: "alias-one-name-reserved", stmt: "reserved \"A_ONE\";", names: []string{"A_ONE"}},
		{label: "alias-other-name-reserved", stmt: "reserved \"A_UNO\";", names: []string{"A_UNO"}},
		{label: "alias-all-names-reserved", stmt: "reserved \"A_UNO\", \"A_ONE\";", names: []string{"A_UNO", "A_ONE"}},
		{label: "alias-number-reserved", stmt: "reserved 1;", ranges: [][2]int{{1, 1}}},
		{label: "alias-number-and-one-name-reserved", stmt: "reserved 1;\n  reserved \"A_ONE\";", names: []string{"A_ONE"}, ranges: [][2]int{{1, 1}}},
		{label: "alias-everything-reserved", stmt: "reserved 1;\n  reserved \"A_ONE\", \"A_UNO\";", names: []string{"A_ONE", "A_UNO"}, ranges: [][2]int{{1, 1}}},
	} {
		cur := vrP3("enum Alias { /*1*/\n  option allow_alias = true;\n  " + r.stmt + "\n  A_ZERO = 0;\n  A_TWO = 2;\n  A_DOS = 2;\n  A_THREE = 3;\n}\n")
		c.add("enum-value-delete/"+r.label, rules, vrOne(prevAlias), vrOne(cur), expect("a.proto", "/*1*/", "Alias", 1, []string{"A_ONE", "A_UNO"}, r)...)
	}
	// only one alias name dropped, the number stays: no value was deleted
	c.add("enum-value-delete/alias-name-dropped-number-stays", append([]string{"ENUM_VALUE_SAME_NAME"}, rules...), vrOne(prevAlias),
		vrOne(vrP3("enum Alias {\n  option allow_alias = true;\n  A_ZERO = 0;\n  A_ONE = 1; /*1*/\n  A_TWO = 2;\n  A_DOS = 2;\n}\n")),
		vrE("ENUM_VALUE_SAME_NAME", "a.proto", "/*1*/", "\"1\"", "Alias", "A_UNO"))

	// nested enum, enum in a second file, enum moved to another file of the package, several deletions at once
	c.add("enum-value-delete/nested-enum", rules,
		vrOne(vrP3("message Outer {\n  message Inner {\n    enum Kind { KIND_ZERO = 0; KIND_ONE = 1; KIND_TWO = 2; }\n    Kind k = 1;\n  }\n}\n")),
		vrOne(vrP3("message Outer {\n  message Inner {\n    enum Kind { /*1*/\n      reserved \"KIND_TWO\";\n      KIND_ZERO = 0; KIND_ONE = 1;\n    }\n    Kind k = 1;\n    string added = 2;\n  }\n}\n")),
		expect("a.proto", "/*1*/", "Kind", 2, []string{"KIND_TWO"}, vrReservation{names: []string{"KIND_TWO"}})...)
	c.add("enum-value-delete/second-file", rules,
		map[string]string{"a.proto": vrP3("message A {}\n"), "z/b.proto": vrP3("enum InB {\n  IN_B_ZERO = 0;\n  IN_B_ONE = 1;\n}\n")},
		map[string]string{"a.proto": vrP3("message A {}\n"), "z/b.proto": vrP3("\nenum InB { /*1*/\n  reserved 1;\n  IN_B_ZERO = 0;\n}\n")},
		expect("z/b.proto", "/*1*/", "InB", 1, []string{"IN_B_ONE"}, vrReservation{ranges: [][2]int{{1, 1}}})...)
	c.add("enum-value-delete/enum-moved-to-other-file", rules,
		map[string]string{"a.proto": vrP3("enum Mv { MV_ZERO = 0; MV_ONE = 1; }\nmessage A {}\n"), "b.proto": vrP3("message B {}\n")},
		map[string]string{"a.proto": vrP3("message A {}\n"), "b.proto": vrP3("message B {}\nenum Mv { /*1*/\n  MV_ZERO = 0; }\n")},
		expect("b.proto", "/*1*/", "Mv", 1, []string{"MV_ONE"}, vrReservation{})...)
	multi := append(expect("a.proto", "/*1*/", "Many", 1, []string{"MANY_ONE"}, vrReservation{names: []string{"MANY_ONE"}, ranges: [][2]int{{2, 2}}}),
		expect("a.proto", "/*1*/", "Many", 2, []string{"MANY_TWO"}, vrReservation{names: []string{"MANY_ONE"}, ranges: [][2]int{{2, 2}}})...)
	multi = append(multi, expect("a.proto", "/*1*/", "Many", 3, []string{"MANY_THREE"}, vrReservation{names: []string{"MANY_ONE"}, ranges: [][2]int{{2, 2}}})...)
	c.add("enum-value-delete/three-values-mixed-reservations", rules,
		vrOne(vrP3("enum Many { MANY_ZERO = 0; MANY_ONE = 1; MANY_TWO = 2; MANY_THREE = 3; }\n")),
		vrOne(vrP3("enum Many { /*1*/\n  reserved 2;\n  reserved \"MANY_ONE\";\n  MANY_ZERO = 0; }\n")), multi...)

	// a new alias name for an existing number: every previous name is still there, nothing to report
	c.add("enum-value-alias-added", []string{"ENUM_VALUE_SAME_NAME", "ENUM_VALUE_NO_DELETE"},
		vrOne(vrP3("enum Al {\n  option allow_alias = true;\n  AL_ZERO = 0;\n  AL_NULL = 0;\n  AL_ONE = 1;\n}\n")),
		vrOne(vrP3("enum Al {\n  option allow_alias = true;\n  AL_ZERO = 0;\n  AL_NULL = 0;\n  AL_ONE = 1;\n  AL_UNO = 1;\n}\n")))
	// renaming an enum value
	c.add("enum-value-rename", []string{"ENUM_VALUE_SAME_NAME", "ENUM_VALUE_NO_DELETE"},
		vrOne(vrP3("enum Ren {\n  REN_ZERO = 0;\n  REN_OLD = 1;\n  REN_KEEP = 2;\n}\n")),
		vrOne(vrP3("enum Ren {\n  REN_ZERO = 0;\n  REN_NEW = 1; /*1*/\n  REN_KEEP = 2;\n  REN_ADDED = 3;\n}\n")),
		vrE("ENUM_VALUE_SAME_NAME", "a.proto", "/*1*/", "REN_OLD", "REN_NEW", "Ren"))
	c.add("enum-value-rename-nested", []string{"ENUM_VALUE_SAME_NAME"},
		vrOne(vrP2("message W {\n  enum Ren {\n    REN_ZERO = 0;\n    REN_OLD = 5;\n  }\n}\n")),
		vrOne(vrP2("message W {\n  enum Ren {\n    REN_ZERO = 0;\n    REN_RENAMED = 5; /*1*/\n  }\n}\n")),
		vrE("ENUM_VALUE_SAME_NAME", "a.proto", "/*1*/", "REN_OLD", "REN_RENAMED"))
}

func vrCatFieldDelete(c *vrCat) {
	rules := []string{"FIELD_NO_DELETE", "FIELD_NO_DELETE_UNLESS_NAME_RESERVED", "FIELD_NO_DELETE_UNLESS_NUMBER_RESERVED"}
	expect := func(file, mark, msgName string, number int, name string, r vrReservation) []vrExp {
		num := fmt.Sprintf("\"%d\"", number)
		exp := []vrExp{vrE("FIELD_NO_DELETE", file, mark, num, msgName)}
		if !r.hasAllNames(name) {
			exp = append(exp, vrE("FIELD_NO_DELETE_UNLESS_NAME_RESERVED", file, mark, num, msgName))
		}
		if !r.hasNumber(number) {
			exp = append(exp, vrE("FIELD_NO_DELETE_UNLESS_NUMBER_RESERVED", file, mark, num, msgName))
		}
		return exp
	}
	prev := vrP3("message Acct {\n  int32 id = 1;\n  string gone = 4;\n  bool last = 9;\n}\n")
	for _, r := range []vrReservation{
		{label: "nothing-reserved"},
		{label: "name-reserved", stmt: "reserved \"gone\";", names: []string{"gone"}},
		{label: "other-name-reserved", stmt: "reserved \"gone2\", \"gon\";", names: []string{"gone2", "gon"}},
		{label: "number-reserved", stmt: "reserved 4;", ranges: [][2]int{{4, 4}}},
		{label: "both-reserved", stmt: "reserved 4;\n  reserved \"gone\";", names: []string{"gone"}, ranges: [][2]int{{4, 4}}},
		{label: "range-ends-at-number", stmt: "reserved 2 to 4;", ranges: [][2]int{{2, 4}}},
		{label: "range-starts-at-number", stmt: "reserved 4 to 8;", ranges: [][2]int{{4, 8}}},
		{label: "range-inside", stmt: "reserved 2 to 8;", ranges: [][2]int{{2, 8}}},
		{label: "range-just-below", stmt: "reserved 2 to 3;", ranges: [][2]int{{2, 3}}},
		{label: "range-just-above", stmt: "reserved 5 to 8;", ranges: [][2]int{{5, 8}}},
		{label: "two-ranges-around", stmt: "reserved 2 to 3, 5 to 8;", ranges: [][2]int{{2, 3}, {5, 8}}},
		{label: "second-range-hits", stmt: "reserved 2, 4 to 5, 100 to max;\n  reserved \"other\";", names: []string{"other"}, ranges: [][2]int{{2, 2}, {4, 5}, {100, 536870911}}},
	} {
		cur := vrP3("message Acct { /*1*/\n  " + r.stmt + "\n  int32 id = 1;\n  bool last = 9;\n  string fresh = 20;\n}\nenum FreshE { FRESH_E_ZERO = 0; }\n")
		c.add("field-delete/"+r.label, rules, vrOne(prev), vrOne(cur), expect("a.proto", "/*1*/", "Acct", 4, "gone", r)...)
	}
	res := vrReservation{names: []string{"in_b"}, ranges: [][2]int{{3, 3}}}
	c.add("field-delete/nested-message", rules,
		vrOne(vrP3("message Outer {\n  message Inner {\n    int32 in_a = 1;\n    int32 in_b = 2;\n    int32 in_c = 3;\n  }\n  Inner i = 1;\n}\n")),
		vrOne(vrP3("message Outer {\n  message Inner { /*1*/\n    reserved 3;\n    reserved \"in_b\";\n    int32 in_a = 1;\n  }\n  Inner i = 1;\n}\n")),
		append(expect("a.proto", "/*1*/", "Inner", 2, "in_b", res), expect("a.proto", "/*1*/", "Inner", 3, "in_c", res)...)...)
	c.add("field-delete/second-file-proto2", rules,
		map[string]string{"a.proto": vrP3("message A {}\n"), "b.proto": vrP2("message InB {\n  optional int32 keep = 1;\n  optional string drop = 2;\n  repeated int32 drop_rep = 3;\n}\n")},
		map[string]string{"a.proto": vrP3("message A {}\n"), "b.proto": vrP2("message InB { /*1*/\n  reserved 2;\n  optional int32 keep = 1;\n}\n")},
		append(expect("b.proto", "/*1*/", "InB", 2, "drop", vrReservation{ranges: [][2]int{{2, 2}}}), expect("b.proto", "/*1*/", "InB", 3, "drop_rep", vrReservation{ranges: [][2]int{{2, 2}}})...)...)
	c.add("field-delete/map-and-oneof-member", append([]string{"ONEOF_NO_DELETE"}, rules...),
		vrOne(vrP3("message Bag {\n  map<string, int32> counts = 1;\n  oneof choice {\n    string by_name = 2;\n    int64 by_id = 3;\n  }\n  int32 keep = 4;\n}\n")),
		vrOne(vrP3("message Bag { /*1*/\n  reserved \"counts\";\n  oneof choice {\n    string by_name = 2;\n  }\n  int32 keep = 4;\n}\n")),
		append(expect("a.proto", "/*1*/", "Bag", 1, "counts", vrReservation{names: []string{"counts"}}), expect("a.proto", "/*1*/", "Bag", 3, "by_id", vrReservation{names: []string{"counts"}})...)...)
	c.add("field-delete/message-moved-to-other-file", rules,
		map[string]string{"a.proto": vrP3("message Mv { int32 a = 1; int32 b = 2; }\nmessage A {}\n"), "b.proto": vrP3("message B {}\n")},
		map[string]string{"a.proto": vrP3("message A {}\n"), "b.proto": vrP3("message B {}\nmessage Mv { /*1*/\n  int32 a = 1; }\n")},
		expect("b.proto", "/*1*/", "Mv", 2, "b", vrReservation{})...)
	// number re-used by a new field is not a deletion of the number
	c.add("field-delete/oneof-deleted-with-members", append([]string{"ONEOF_NO_DELETE"}, rules...),
		vrOne(vrP3("message Sel {\n  oneof pick {\n    string a = 1;\n    string b = 2;\n  }\n  oneof stay { int32 s = 3; }\n}\n")),
		vrOne(vrP3("message Sel { /*1*/\n  reserved 1, 2;\n  reserved \"a\", \"b\";\n  oneof stay { int32 s = 3; }\n  oneof newer { int32 n = 4; }\n}\n")),
		vrE("ONEOF_NO_DELETE", "a.proto", "/*1*/", "pick", "Sel"),
		vrE("FIELD_NO_DELETE", "a.proto", "/*1*/", "\"1\"", "Sel"), vrE("FIELD_NO_DELETE", "a.proto", "/*1*/", "\"2\"", "Sel"))
	c.add("oneof-dissolved-members-stay", []string{"ONEOF_NO_DELETE", "FIELD_SAME_ONEOF", "FIELD_NO_DELETE"},
		vrOne(vrP3("message Sel {\n  oneof pick {\n    string a = 1;\n    string b = 2;\n  }\n}\n")),
		vrOne(vrP3("message Sel { /*1*/\n  string a = 1; /*2*/\n  string b = 2; /*3*/\n}\n")),
		vrE("ONEOF_NO_DELETE", "a.proto", "/*1*/", "pick", "Sel"),
		vrE("FIELD_SAME_ONEOF", "a.proto", "/*2*/", "\"1\""), vrE("FIELD_SAME_ONEOF", "a.proto", "/*3*/", "\"2\""))
	c.add("oneof-deleted-nested-message", []string{"ONEOF_NO_DELETE"},
		vrOne(vrP2("message Top {\n  message Deep {\n    oneof gone_oneof { int32 g = 1; }\n    oneof kept_oneof { int32 k = 2; }\n  }\n}\n")),
		vrOne(vrP2("message Top {\n  message Deep { /*1*/\n    oneof kept_oneof { int32 k = 2; }\n  }\n}\n")),
		vrE("ONEOF_NO_DELETE", "a.proto", "/*1*/", "gone_oneof", "Deep"))
}

// --- field type changes -----------------------------------------------------------------------------------

var vrScalars = []string{"double", "float", "int32", "int64", "uint32", "uint64", "sint32", "sint64", "fixed32", "fixed64", "sfixed32", "sfixed64", "bool", "string", "bytes"}

// documented groups: FIELD_WIRE_COMPATIBLE_TYPE - int32, uint32, int64, uint64, bool are compatible; sint32 and
// sint64; fixed32 and sfixed32; fixed64 and sfixed64; string may become bytes (not the other way round).
// FIELD_WIRE_JSON_COMPATIBLE_TYPE - int32 and uint32; int64 and uint64; fixed32 and sfixed32; fixed64 and sfixed64.
func vrWireGroup(t string) string {
	switch t {
	case "int32", "uint32", "int64", "uint64", "bool":
		return "varint"
	case "sint32", "sint64":
		return "zigzag"
	case "fixed32", "sfixed32":
		return "fixed32"
	case "fixed64", "sfixed64":
		return "fixed64"
	}
	return t
}

func vrWireJSONGroup(t string) string {
	switch t {
	case "int32", "uint32":
		return "int32"
	case "int64", "uint64":
		return "int64"
	case "fixed32", "sfixed32":
		return "fixed32"
	case "fixed64", "sfixed64":
		return "fixed64"
	}
	return t
}

func vrCatFieldTypes(c *vrCat) {
	rules := []string{"FIELD_SAME_TYPE", "FIELD_WIRE_COMPATIBLE_TYPE", "FIELD_WIRE_JSON_COMPATIBLE_TYPE"}
	// scalar matrix: one field per ordered pair of different scalar types, proto3 and proto2 (repeated)
	for _, variant := range []struct{ name, header, label string }{
		{"proto3", "syntax = \"proto3\";\npackage p;\n", ""},
		{"proto2-repeated-nested", "syntax = \"proto2\";\npackage p;\n", "repeated "},
	} {
		var prev, cur strings.Builder
		prev.WriteString(variant.header)
		cur.WriteString(variant.header)
		open := "message T {\n"
		if variant.label != "" {
			open = "message Wrap {\nmessage T {\n"
		}
		prev.WriteString(open)
		cur.WriteString(open)
		var exp []vrExp
		n := 0
		for _, from := range vrScalars {
			for _, to := range vrScalars {
				n++
				mark := fmt.Sprintf("/*f%d*/", n)
				fmt.Fprintf(&prev, "  %s%s f%d = %d; %s\n", variant.label, from, n, n, mark)
				fmt.Fprintf(&cur, "  %s%s f%d = %d; %s\n", variant.label, to, n, n, mark)
				if from == to {
					continue
				}
				names := []string{fmt.Sprintf("\"%d\"", n), fmt.Sprintf("\"f%d\"", n), fmt.Sprintf("from %q to %q", from, to)}
				exp = append(exp, vrE("FIELD_SAME_TYPE", "a.proto", mark, names...))
				if vrWireGroup(from) != vrWireGroup(to) && !(from == "string" && to == "bytes") {
					exp = append(exp, vrE("FIELD_WIRE_COMPATIBLE_TYPE", "a.proto", mark, names...))
				}
				if vrWireJSONGroup(from) != vrWireJSONGroup(to) {
					exp = append(exp, vrE("FIELD_WIRE_JSON_COMPATIBLE_TYPE", "a.proto", mark, names...))
				}
			}
		}
		closing := "}\n"
		if variant.label != "" {
			closing = "}\n}\n"
		}
		prev.WriteString(closing)
		cur.WriteString(closing)
		en := c.add("field-type-matrix/"+variant.name, rules, vrOne(prev.String()), vrOne(cur.String()), exp...)
		en.note = "message T has one field f<N> per ordered pair of the 15 scalar types, changed from the first to the second type"
	}

	// enum / message / scalar crossings
	c.add("field-type/enum-message-scalar-crossings", rules,
		vrOne(vrP3("enum E1 { E1_ZERO = 0; E1_ONE = 1; }\nenum E2 { E2_ZERO = 0; E2_ONE = 1; }\nmessage S1 { int32 a = 1; }\nmessage S2 { int32 a = 1; }\n"+
			"message T {\n  int32 i_to_e = 1;\n  E1 e_to_i = 2;\n  S1 m_to_bytes = 3;\n  bytes bytes_to_m = 4;\n  E1 e_to_other_e = 5;\n  S1 m_to_other_m = 6;\n  E1 e_to_m = 7;\n  E1 same_e = 8;\n  S1 same_m = 9;\n  repeated S1 rep_m = 10;\n  string s_to_m = 11;\n}\n")),
		vrOne(vrP3("enum E1 { E1_ZERO = 0; E1_ONE = 1; }\nenum E2 { E2_ZERO = 0; E2_ONE = 1; }\nmessage S1 { int32 a = 1; }\nmessage S2 { int32 a = 1; }\n"+
			"message T {\n  E1 i_to_e = 1; /*1*/\n  int32 e_to_i = 2; /*2*/\n  bytes m_to_bytes = 3; /*3*/\n  S1 bytes_to_m = 4; /*4*/\n  E2 e_to_other_e = 5; /*5*/\n  S2 m_to_other_m = 6; /*6*/\n  S1 e_to_m = 7; /*7*/\n  E1 same_e = 8;\n  S1 same_m = 9;\n  repeated S2 rep_m = 10; /*10*/\n  S1 s_to_m = 11; /*11*/\n}\n")),
		vrAll3(rules, "a.proto", "/*1*/", "i_to_e", "/*2*/", "e_to_i", "/*3*/", "m_to_bytes", "/*4*/", "bytes_to_m", "/*5*/", "e_to_other_e",
			"/*6*/", "m_to_other_m", "/*7*/", "e_to_m", "/*10*/", "rep_m", "/*11*/", "s_to_m")...)

	// the field keeps its enum type name, the enum gains values: compatible for every rule
	c.add("field-type/enum-grows", rules,
		vrOne(vrP3("enum G { G_ZERO = 0; G_ONE = 1; }\nmessage T { G g = 1; }\n")),
		vrOne(vrP3("enum G { G_ZERO = 0; G_ONE = 1; G_TWO = 2; }\nmessage T { G g = 1; }\n")))
	// enum of the same short name in another scope with a superset of values: the wire rules accept it
	c.add("field-type/enum-same-short-name-superset", rules,
		vrOne(vrP3("enum Kind { KIND_ZERO = 0; KIND_ONE = 1; }\nmessage Box { enum Kind { KIND_ZERO = 0; KIND_ONE = 1; KIND_TWO = 2; }\n  Kind own = 2; }\nmessage T {\n  Kind k = 1;\n}\n")),
		vrOne(vrP3("enum Kind { KIND_ZERO = 0; KIND_ONE = 1; }\nmessage Box { enum Kind { KIND_ZERO = 0; KIND_ONE = 1; KIND_TWO = 2; }\n  Kind own = 2; }\nmessage T {\n  Box.Kind k = 1; /*1*/\n}\n")),
		vrE("FIELD_SAME_TYPE", "a.proto", "/*1*/", "\"k\"", "p.Kind", "p.Box.Kind"))
	// ... and the other way round (values are lost): every rule reports
	c.add("field-type/enum-same-short-name-subset", rules,
		vrOne(vrP3("enum Kind { KIND_ZERO = 0; KIND_ONE = 1; }\nmessage Box { enum Kind { KIND_ZERO = 0; KIND_ONE = 1; KIND_TWO = 2; }\n  Kind own = 2; }\nmessage T {\n  Box.Kind k = 1;\n}\n")),
		vrOne(vrP3("enum Kind { KIND_ZERO = 0; KIND_ONE = 1; }\nmessage Box { enum Kind { KIND_ZERO = 0; KIND_ONE = 1; KIND_TWO = 2; }\n  Kind own = 2; }\nmessage T {\n  Kind k = 1; /*1*/\n}\n")),
		vrAll3(rules, "a.proto", "/*1*/", "\"k\"")...)

	// nested message in a second file, map value, oneof member, extension, group
	c.add("field-type/nested-second-file", rules,
		map[string]string{"a.proto": vrP3("message A { int32 a = 1; }\n"), "sub/b.proto": vrP3("message O {\n  message I {\n    message J {\n      int32 deep = 1;\n      int32 same = 2;\n    }\n  }\n}\n")},
		map[string]string{"a.proto": vrP3("message A { int32 a = 1; string added = 2; }\n"), "sub/b.proto": vrP3("message O {\n  message I {\n    message J {\n      string deep = 1; /*1*/\n      int32 same = 2;\n    }\n  }\n}\n")},
		vrAll3(rules, "sub/b.proto", "/*1*/", "\"deep\"")...)
	c.add("field-type/oneof-member-and-extension", rules,
		vrOne(vrP2("message X {\n  oneof o {\n    int32 in_oneof = 1;\n    int32 stays = 2;\n  }\n  extensions 100 to 200;\n}\nextend X {\n  optional int32 top_ext = 100;\n}\nmessage Y {\n  extend X {\n    optional double nested_ext = 101;\n  }\n}\n")),
		vrOne(vrP2("message X {\n  oneof o {\n    string in_oneof = 1; /*1*/\n    int32 stays = 2;\n  }\n  extensions 100 to 200;\n}\nextend X {\n  optional string top_ext = 100; /*2*/\n}\nmessage Y {\n  extend X {\n    optional float nested_ext = 101; /*3*/\n  }\n}\n")),
		vrAll3(rules, "a.proto", "/*1*/", "in_oneof", "/*2*/", "top_ext", "/*3*/", "nested_ext")...)
	c.add("field-type/wire-compatible-pairs-elsewhere", rules,
		vrOne(vrP2("message X {\n  optional int32 a = 1;\n  optional string s = 2;\n  optional bytes b = 3;\n  optional fixed32 f = 4;\n  extensions 10 to 20;\n}\nextend X {\n  optional sint32 e = 10;\n}\n")),
		vrOne(vrP2("message X {\n  optional uint32 a = 1; /*1*/\n  optional bytes s = 2; /*2*/\n  optional string b = 3; /*3*/\n  optional sfixed32 f = 4; /*4*/\n  extensions 10 to 20;\n}\nextend X {\n  optional sint64 e = 10; /*5*/\n}\n")),
		vrE("FIELD_SAME_TYPE", "a.proto", "/*1*/", "\"a\""), vrE("FIELD_SAME_TYPE", "a.proto", "/*2*/", "\"s\""), vrE("FIELD_SAME_TYPE", "a.proto", "/*3*/", "\"b\""),
		vrE("FIELD_SAME_TYPE", "a.proto", "/*4*/", "\"f\""), vrE("FIELD_SAME_TYPE", "a.proto", "/*5*/", "p.e"),
		vrE("FIELD_WIRE_COMPATIBLE_TYPE", "a.proto", "/*3*/", "\"b\""),
		vrE("FIELD_WIRE_JSON_COMPATIBLE_TYPE", "a.proto", "/*2*/", "\"s\""), vrE("FIELD_WIRE_JSON_COMPATIBLE_TYPE", "a.proto", "/*3*/", "\"b\""),
		vrE("FIELD_WIRE_JSON_COMPATIBLE_TYPE", "a.proto", "/*5*/", "p.e"))
	c.add("field-type/map-value", rules,
		vrOne(vrP3("message T {\n  map<string, int32> m = 1;\n  map<string, int32> same = 2;\n}\n")),
		vrOne(vrP3("message T {\n  map<string, string> m = 1; /*1*/\n  map<string, int32> same = 2;\n}\n")),
		vrAll3(rules, "a.proto", "/*1*/", "\"value\"")...)
	c.add("field-type/map-key", rules,
		vrOne(vrP3("message T {\n  map<string, int32> m = 1;\n  map<int32, string> n = 2;\n}\n")),
		vrOne(vrP3("message T {\n  map<int64, int32> m = 1; /*1*/\n  map<uint32, string> n = 2; /*2*/\n}\n")),
		vrE("FIELD_SAME_TYPE", "a.proto", "/*1*/", "\"key\"", "MEntry"), vrE("FIELD_WIRE_COMPATIBLE_TYPE", "a.proto", "/*1*/", "\"key\"", "MEntry"),
		vrE("FIELD_WIRE_JSON_COMPATIBLE_TYPE", "a.proto", "/*1*/", "\"key\"", "MEntry"), vrE("FIELD_SAME_TYPE", "a.proto", "/*2*/", "\"key\"", "NEntry"))
	c.add("field-type/editions-delimited-encoding", rules,
		vrOne(vrEd("message Sub { int32 a = 1; }\nmessage T {\n  Sub becomes_delimited = 1;\n  Sub becomes_prefixed = 2 [features.message_encoding = DELIMITED];\n  Sub same = 3 [features.message_encoding = DELIMITED];\n}\n")),
		vrOne(vrEd("message Sub { int32 a = 1; }\nmessage T {\n  Sub becomes_delimited = 1 [features.message_encoding = DELIMITED]; /*1*/\n  Sub becomes_prefixed = 2; /*2*/\n  Sub same = 3 [features.message_encoding = DELIMITED];\n}\n")),
		vrAll3(rules, "a.proto", "/*1*/", "becomes_delimited", "/*2*/", "becomes_prefixed")...)
	c.add("field-type/group-to-message", rules,
		vrOne(vrP2("message T {\n  optional group Grp = 1 {\n    optional int32 a = 1;\n  }\n  optional int32 other = 2;\n}\n")),
		vrOne(vrP2("message T {\n  message Grp {\n    optional int32 a = 1;\n  }\n  optional Grp grp = 1; /*1*/\n  optional int32 other = 2;\n}\n")),
		vrAll3(rules, "a.proto", "/*1*/", "\"grp\"")...)
}

// vrAll3 expects every given rule at each (mark, name) pair.
func vrAll3(rules []string, file string, markName ...string) []vrExp {
	var exp []vrExp
	for i := 0; i+1 < len(markName); i += 2 {
		for _, r := range rules {
			exp = append(exp, vrE(r, file, markName[i], markName[i+1]))
		}
	}
	return exp
}

// --- other field attributes ------------------------------------------------------------------------------

func vrCatFieldAttrs(c *vrCat) {
	card := []string{"FIELD_SAME_CARDINALITY", "FIELD_WIRE_COMPATIBLE_CARDINALITY", "FIELD_WIRE_JSON_COMPATIBLE_CARDINALITY"}
	c.add("cardinality/proto3-singular-repeated", card,
		vrOne(vrP3("message T {\n  int32 to_rep = 1;\n  repeated string to_single = 2;\n  int32 same = 3;\n  repeated int32 same_rep = 4;\n  message N {\n    T to_rep_nested = 1;\n  }\n}\n")),
		vrOne(vrP3("message T {\n  repeated int32 to_rep = 1; /*1*/\n  string to_single = 2; /*2*/\n  int32 same = 3;\n  repeated int32 same_rep = 4;\n  message N {\n    repeated T to_rep_nested = 1; /*3*/\n  }\n  int32 added = 5;\n}\n")),
		vrAll3(card, "a.proto", "/*1*/", "to_rep", "/*2*/", "to_single", "/*3*/", "to_rep_nested")...)
	// implicit <-> explicit presence: same wire and JSON encoding, only the strict rule reports
	c.add("cardinality/proto3-optional-keyword", append([]string{"FIELD_SAME_ONEOF", "ONEOF_NO_DELETE"}, card...),
		vrOne(vrP3("message T {\n  int32 gains = 1;\n  optional int32 loses = 2;\n  optional int32 same = 3;\n}\n")),
		vrOne(vrP3("message T {\n  optional int32 gains = 1; /*1*/\n  int32 loses = 2; /*2*/\n  optional int32 same = 3;\n}\n")),
		vrE("FIELD_SAME_CARDINALITY", "a.proto", "/*1*/", "gains"), vrE("FIELD_SAME_CARDINALITY", "a.proto", "/*2*/", "loses"))
	c.add("cardinality/proto2-required", append([]string{"MESSAGE_SAME_REQUIRED_FIELDS"}, card...),
		vrOne(vrP2("message T {\n  optional int32 becomes_req = 1;\n  required int32 becomes_opt = 2;\n  required int32 stays_req = 3;\n  optional int32 to_rep = 4;\n}\n")),
		vrOne(vrP2("message T { /*0*/\n  required int32 becomes_req = 1; /*1*/\n  optional int32 becomes_opt = 2; /*2*/\n  required int32 stays_req = 3;\n  repeated int32 to_rep = 4; /*4*/\n}\n")),
		append(vrAll3(card, "a.proto", "/*1*/", "becomes_req", "/*2*/", "becomes_opt", "/*4*/", "to_rep"),
			vrE("MESSAGE_SAME_REQUIRED_FIELDS", "a.proto", "/*1*/", "\"1\"", "T"), vrE("MESSAGE_SAME_REQUIRED_FIELDS", "a.proto", "/*0*/", "\"2\"", "T"))...)
	c.add("cardinality/extension-and-second-file", card,
		map[string]string{"a.proto": vrP2("message X { extensions 10 to 20; }\n"), "b.proto": vrP2("import \"a.proto\";\nextend X {\n  optional int32 ext_to_rep = 10;\n}\nmessage InB {\n  repeated int32 r = 1;\n}\n")},
		map[string]string{"a.proto": vrP2("message X { extensions 10 to 20; }\n"), "b.proto": vrP2("import \"a.proto\";\nextend X {\n  repeated int32 ext_to_rep = 10; /*1*/\n}\nmessage InB {\n  optional int32 r = 1; /*2*/\n}\n")},
		vrAll3(card, "b.proto", "/*1*/", "ext_to_rep", "/*2*/", "\"r\"")...)
	// repeated entry message <-> map: same bytes on the wire, different JSON (array vs object)
	c.add("cardinality/repeated-entries-to-map", card,
		vrOne(vrP3("message T {\n  message PairsEntry {\n    string key = 1;\n    int32 value = 2;\n  }\n  repeated PairsEntry pairs = 1;\n}\n")),
		vrOne(vrP3("message T {\n  map<string, int32> pairs = 1; /*1*/\n}\n")),
		vrE("FIELD_SAME_CARDINALITY", "a.proto", "/*1*/", "pairs"), vrE("FIELD_WIRE_JSON_COMPATIBLE_CARDINALITY", "a.proto", "/*1*/", "pairs"))
	c.add("cardinality/required-added-and-deleted", []string{"MESSAGE_SAME_REQUIRED_FIELDS"},
		vrOne(vrP2("message T {\n  required int32 stays = 1;\n  required int32 dropped = 2;\n  message In {\n    optional int32 o = 1;\n  }\n}\n")),
		vrOne(vrP2("message T { /*0*/\n  required int32 stays = 1;\n  optional int32 fresh_opt = 3;\n  message In {\n    optional int32 o = 1;\n    required string fresh_req = 2; /*1*/\n  }\n}\n")),
		vrE("MESSAGE_SAME_REQUIRED_FIELDS", "a.proto", "/*0*/", "\"2\"", "T"), vrE("MESSAGE_SAME_REQUIRED_FIELDS", "a.proto", "/*1*/", "\"2\"", "In"))

	names := []string{"FIELD_SAME_NAME", "FIELD_SAME_JSON_NAME"}
	c.add("field-rename", names,
		vrOne(vrP3("message T {\n  int32 old_name = 1;\n  int32 same = 2;\n  message N {\n    string inner_old = 1;\n  }\n  oneof o {\n    int32 member_old = 3;\n  }\n}\n")),
		vrOne(vrP3("message T {\n  int32 new_name = 1; /*1*/\n  int32 same = 2;\n  message N {\n    string inner_new = 1; /*2*/\n  }\n  oneof o {\n    int32 member_new = 3; /*3*/\n  }\n  int32 fresh = 4;\n}\n")),
		vrE("FIELD_SAME_NAME", "a.proto", "/*1*/", "old_name", "new_name"), vrE("FIELD_SAME_JSON_NAME", "a.proto", "/*1*/", "oldName", "newName"),
		vrE("FIELD_SAME_NAME", "a.proto", "/*2*/", "inner_old", "inner_new"), vrE("FIELD_SAME_JSON_NAME", "a.proto", "/*2*/", "innerOld", "innerNew"),
		vrE("FIELD_SAME_NAME", "a.proto", "/*3*/", "member_old", "member_new"), vrE("FIELD_SAME_JSON_NAME", "a.proto", "/*3*/", "memberOld", "memberNew"))
	c.add("field-rename/extension", []string{"FIELD_SAME_NAME"},
		vrOne(vrP2("message X { extensions 10 to 20; }\nextend X {\n  optional int32 ext_old = 10;\n  optional int32 ext_same = 11;\n}\n")),
		vrOne(vrP2("message X { extensions 10 to 20; }\nextend X {\n  optional int32 ext_new = 10; /*1*/\n  optional int32 ext_same = 11;\n}\n")),
		vrE("FIELD_SAME_NAME", "a.proto", "/*1*/", "ext_old", "ext_new"))
	c.add("field-json-name", names,
		vrOne(vrP3("message T {\n  int32 a = 1 [json_name = \"alpha\"];\n  int32 b = 2;\n  int32 c = 3 [json_name = \"gamma\"];\n  int32 d = 4 [json_name = \"delta\"];\n  int32 e = 5;\n}\n")),
		vrOne(vrP3("message T {\n  int32 a = 1 [json_name = \"ALPHA\"]; /*1*/\n  int32 b = 2 [json_name = \"beta\"]; /*2*/\n  int32 c = 3; /*3*/\n  int32 d = 4 [json_name = \"delta\"];\n  int32 e = 5 [json_name = \"e\"];\n}\n")),
		vrE("FIELD_SAME_JSON_NAME", "a.proto", "/*1*/", "alpha", "ALPHA"), vrE("FIELD_SAME_JSON_NAME", "a.proto", "/*2*/", "\"b\"", "beta"),
		vrE("FIELD_SAME_JSON_NAME", "a.proto", "/*3*/", "gamma", "\"c\""))

	c.add("field-jstype", []string{"FIELD_SAME_JSTYPE"},
		vrOne(vrP3("message T {\n  int64 a = 1;\n  uint64 b = 2 [jstype = JS_STRING];\n  fixed64 c = 3 [jstype = JS_STRING];\n  sint64 same = 4 [jstype = JS_NUMBER];\n  message N {\n    sfixed64 d = 1 [jstype = JS_NUMBER];\n  }\n}\n")),
		vrOne(vrP3("message T {\n  int64 a = 1 [jstype = JS_STRING]; /*1*/\n  uint64 b = 2 [jstype = JS_NUMBER]; /*2*/\n  fixed64 c = 3; /*3*/\n  sint64 same = 4 [jstype = JS_NUMBER];\n  message N {\n    sfixed64 d = 1 [jstype = JS_STRING]; /*4*/\n  }\n}\n")),
		vrE("FIELD_SAME_JSTYPE", "a.proto", "/*1*/", "\"a\"", "JS_NORMAL", "JS_STRING"), vrE("FIELD_SAME_JSTYPE", "a.proto", "/*2*/", "\"b\"", "JS_STRING", "JS_NUMBER"),
		vrE("FIELD_SAME_JSTYPE", "a.proto", "/*3*/", "\"c\"", "JS_STRING", "JS_NORMAL"), vrE("FIELD_SAME_JSTYPE", "a.proto", "/*4*/", "\"d\"", "JS_NUMBER", "JS_STRING"))

	c.add("field-ctype", []string{"FIELD_SAME_CPP_STRING_TYPE"},
		vrOne(vrP3("message T {\n  string a = 1;\n  bytes b = 2 [ctype = CORD];\n  string c = 3 [ctype = CORD];\n  string same = 4 [ctype = CORD];\n  string plain = 5;\n}\n")),
		vrOne(vrP3("message T {\n  string a = 1 [ctype = CORD]; /*1*/\n  bytes b = 2 [ctype = STRING_PIECE]; /*2*/\n  string c = 3; /*3*/\n  string same = 4 [ctype = CORD];\n  string plain = 5 [ctype = STRING];\n}\n")),
		vrE("FIELD_SAME_CPP_STRING_TYPE", "a.proto", "/*1*/", "\"a\"", "CORD"), vrE("FIELD_SAME_CPP_STRING_TYPE", "a.proto", "/*2*/", "\"b\"", "CORD", "STRING_PIECE"),
		vrE("FIELD_SAME_CPP_STRING_TYPE", "a.proto", "/*3*/", "\"c\"", "CORD"))

	c.add("field-default", []string{"FIELD_SAME_DEFAULT"},
		vrOne(vrP2("enum D { D_A = 1; D_B = 2; }\nmessage T {\n  optional int32 i = 1 [default = 5];\n  optional string s = 2 [default = \"abc\"];\n  optional D e = 3 [default = D_A];\n  optional double f = 4 [default = 1.5];\n  optional bool b = 5 [default = true];\n  optional int32 gains = 6;\n  optional int32 loses = 7 [default = 9];\n  optional int64 same = 8 [default = -7];\n  optional string none = 9;\n  optional bytes by = 10 [default = \"xy\"];\n  message N {\n    optional uint64 u = 1 [default = 10];\n  }\n}\n")),
		vrOne(vrP2("enum D { D_A = 1; D_B = 2; }\nmessage T {\n  optional int32 i = 1 [default = 6]; /*1*/\n  optional string s = 2 [default = \"abd\"]; /*2*/\n  optional D e = 3 [default = D_B]; /*3*/\n  optional double f = 4 [default = 2.5]; /*4*/\n  optional bool b = 5 [default = false]; /*5*/\n  optional int32 gains = 6 [default = 3]; /*6*/\n  optional int32 loses = 7; /*7*/\n  optional int64 same = 8 [default = -7];\n  optional string none = 9;\n  optional bytes by = 10 [default = \"xz\"]; /*10*/\n  message N {\n    optional uint64 u = 1 [default = 11]; /*11*/\n  }\n}\n")),
		vrE("FIELD_SAME_DEFAULT", "a.proto", "/*1*/", "\"i\"", "from 5 to 6"), vrE("FIELD_SAME_DEFAULT", "a.proto", "/*2*/", "\"s\"", "abc", "abd"),
		vrE("FIELD_SAME_DEFAULT", "a.proto", "/*3*/", "\"e\"", "D_A", "D_B"), vrE("FIELD_SAME_DEFAULT", "a.proto", "/*4*/", "\"f\"", "1.5", "2.5"),
		vrE("FIELD_SAME_DEFAULT", "a.proto", "/*5*/", "\"b\"", "true", "false"), vrE("FIELD_SAME_DEFAULT", "a.proto", "/*6*/", "\"gains\"", "to 3"),
		vrE("FIELD_SAME_DEFAULT", "a.proto", "/*7*/", "\"loses\"", "from 9"), vrE("FIELD_SAME_DEFAULT", "a.proto", "/*10*/", "\"by\""),
		vrE("FIELD_SAME_DEFAULT", "a.proto", "/*11*/", "\"u\"", "from 10 to 11"))
	c.add("field-default/extension", []string{"FIELD_SAME_DEFAULT"},
		vrOne(vrP2("message X { extensions 10 to 20; }\nextend X {\n  optional int32 ext = 10 [default = 1];\n}\n")),
		vrOne(vrP2("message X { extensions 10 to 20; }\nextend X {\n  optional int32 ext = 10 [default = 2]; /*1*/\n}\n")),
		vrE("FIELD_SAME_DEFAULT", "a.proto", "/*1*/", "p.ext", "1", "2"))

	c.add("field-oneof-membership", []string{"FIELD_SAME_ONEOF", "ONEOF_NO_DELETE"},
		vrOne(vrP3("message T {\n  int32 joins = 1;\n  oneof first {\n    int32 leaves = 2;\n    int32 moves = 3;\n    int32 stays = 4;\n  }\n  oneof second {\n    int32 anchor = 5;\n  }\n  int32 outside = 6;\n  message N {\n    oneof o { string x = 1; string y = 2; }\n  }\n}\n")),
		vrOne(vrP3("message T {\n  int32 leaves = 2; /*2*/\n  oneof first {\n    int32 joins = 1; /*1*/\n    int32 stays = 4;\n  }\n  oneof second {\n    int32 anchor = 5;\n    int32 moves = 3; /*3*/\n  }\n  int32 outside = 6;\n  message N {\n    oneof o { string x = 1; }\n    string y = 2; /*4*/\n  }\n}\n")),
		vrE("FIELD_SAME_ONEOF", "a.proto", "/*1*/", "joins", "outside to inside"), vrE("FIELD_SAME_ONEOF", "a.proto", "/*2*/", "leaves", "inside to outside"),
		vrE("FIELD_SAME_ONEOF", "a.proto", "/*3*/", "moves", "first", "second"), vrE("FIELD_SAME_ONEOF", "a.proto", "/*4*/", "\"y\""))

	// UTF8 validation: editions feature on the field / file, and java_string_check_utf8
	c.add("field-utf8-validation/editions", []string{"FIELD_SAME_UTF8_VALIDATION"},
		vrOne(vrEd("message T {\n  string a = 1;\n  string b = 2 [features.utf8_validation = NONE];\n  string same = 3 [features.utf8_validation = NONE];\n  bytes not_string = 4;\n}\n")),
		vrOne(vrEd("message T {\n  string a = 1 [features.utf8_validation = NONE]; /*1*/\n  string b = 2; /*2*/\n  string same = 3 [features.utf8_validation = NONE];\n  bytes not_string = 4;\n}\n")),
		vrE("FIELD_SAME_UTF8_VALIDATION", "a.proto", "/*1*/", "\"a\"", "from VERIFY to NONE"), vrE("FIELD_SAME_UTF8_VALIDATION", "a.proto", "/*2*/", "\"b\"", "from NONE to VERIFY"))
	c.add("field-utf8-validation/proto2-to-proto3", []string{"FIELD_SAME_UTF8_VALIDATION", "FILE_SAME_SYNTAX"},
		vrOne("syntax = \"proto2\";\npackage p;\nmessage T {\n  optional string s = 1;\n  optional bytes b = 2;\n  optional int32 i = 3;\n}\n"),
		vrOne("syntax = \"proto3\"; /*0*/\npackage p;\nmessage T {\n  optional string s = 1; /*1*/\n  optional bytes b = 2;\n  optional int32 i = 3;\n}\n"),
		vrE("FIELD_SAME_UTF8_VALIDATION", "a.proto", "/*1*/", "\"s\"", "NONE", "VERIFY"), vrE("FILE_SAME_SYNTAX", "a.proto", "/*0*/", "proto2", "proto3"))
	c.add("field-java-utf8-validation/file-option", []string{"FIELD_SAME_JAVA_UTF8_VALIDATION"},
		map[string]string{"a.proto": vrP2("message T {\n  optional string s = 1;\n  optional bytes b = 2;\n}\n"), "b.proto": vrP2("option java_string_check_utf8 = true;\nmessage U {\n  optional string s = 1;\n}\n"),
			"c.proto": vrP2("option java_string_check_utf8 = true;\nmessage V {\n  optional string s = 1;\n}\n")},
		map[string]string{"a.proto": vrP2("option java_string_check_utf8 = true; /*1*/\nmessage T {\n  optional string s = 1;\n  optional bytes b = 2;\n}\n"), "b.proto": vrP2("option java_string_check_utf8 = false; /*2*/\nmessage U {\n  optional string s = 1;\n}\n"),
			"c.proto": vrP2("option java_string_check_utf8 = true;\nmessage V {\n  optional string s = 1;\n}\n")},
		vrE("FIELD_SAME_JAVA_UTF8_VALIDATION", "a.proto", "/*1*/", "\"s\"", "NONE", "VERIFY"), vrE("FIELD_SAME_JAVA_UTF8_VALIDATION", "b.proto", "/*2*/", "\"s\"", "VERIFY", "NONE"))
}

// --- message / enum level attributes -------------------------------------------------------------------

func vrCatMessagesEnums(c *vrCat) {
	c.add("message-no-standard-descriptor-accessor", []string{"MESSAGE_NO_REMOVE_STANDARD_DESCRIPTOR_ACCESSOR"},
		vrOne(vrP3("message Unset {}\nmessage WasFalse {\n  option no_standard_descriptor_accessor = false;\n}\nmessage WasTrue {\n  option no_standard_descriptor_accessor = true;\n}\nmessage StaysTrue {\n  option no_standard_descriptor_accessor = true;\n}\nmessage O {\n  message Nested {}\n}\n")),
		vrOne(vrP3("message Unset {\n  option no_standard_descriptor_accessor = true; /*1*/\n}\nmessage WasFalse {\n  option no_standard_descriptor_accessor = true; /*2*/\n}\nmessage WasTrue {\n  option no_standard_descriptor_accessor = false;\n}\nmessage StaysTrue {\n  option no_standard_descriptor_accessor = true;\n}\nmessage O {\n  message Nested {\n    option no_standard_descriptor_accessor = true; /*3*/\n  }\n}\n")),
		vrE("MESSAGE_NO_REMOVE_STANDARD_DESCRIPTOR_ACCESSOR", "a.proto", "/*1*/", "false", "true"),
		vrE("MESSAGE_NO_REMOVE_STANDARD_DESCRIPTOR_ACCESSOR", "a.proto", "/*2*/", "false", "true"),
		vrE("MESSAGE_NO_REMOVE_STANDARD_DESCRIPTOR_ACCESSOR", "a.proto", "/*3*/", "false", "true"))
	c.add("json-format/editions", []string{"MESSAGE_SAME_JSON_FORMAT", "ENUM_SAME_JSON_FORMAT"},
		vrOne(vrEd("message M {\n  int32 a = 1;\n  message N {\n    int32 b = 1;\n  }\n}\nmessage Same {\n  option features.json_format = LEGACY_BEST_EFFORT;\n}\nenum E {\n  E_ZERO = 0;\n}\nenum SameE {\n  option features.json_format = LEGACY_BEST_EFFORT;\n  SAME_E_ZERO = 0;\n}\n")),
		vrOne(vrEd("message M {\n  option features.json_format = LEGACY_BEST_EFFORT; /*1*/\n  int32 a = 1;\n  message N { /*1n*/\n    int32 b = 1;\n  }\n}\nmessage Same {\n  option features.json_format = LEGACY_BEST_EFFORT;\n}\nenum E {\n  option features.json_format = LEGACY_BEST_EFFORT; /*2*/\n  E_ZERO = 0;\n}\nenum SameE {\n  option features.json_format = LEGACY_BEST_EFFORT;\n  SAME_E_ZERO = 0;\n}\n")),
		vrE("MESSAGE_SAME_JSON_FORMAT", "a.proto", "/*1*/", "\"M\"", "ALLOW", "LEGACY_BEST_EFFORT"),
		vrE("MESSAGE_SAME_JSON_FORMAT", "a.proto", "/*1n*/", "\"N\"", "ALLOW", "LEGACY_BEST_EFFORT"),
		vrE("ENUM_SAME_JSON_FORMAT", "a.proto", "/*2*/", "\"E\"", "ALLOW", "LEGACY_BEST_EFFORT"))
	c.add("json-format/proto3-to-proto2", []string{"MESSAGE_SAME_JSON_FORMAT", "ENUM_SAME_JSON_FORMAT", "ENUM_SAME_TYPE", "FILE_SAME_SYNTAX"},
		vrOne("syntax = \"proto3\";\npackage p;\nmessage M {\n}\nenum E {\n  E_ZERO = 0;\n}\n"),
		vrOne("syntax = \"proto2\"; /*0*/\npackage p;\nmessage M { /*1*/\n}\nenum E { /*2*/\n  E_ZERO = 0;\n}\n"),
		vrE("FILE_SAME_SYNTAX", "a.proto", "/*0*/", "proto3", "proto2"),
		vrE("MESSAGE_SAME_JSON_FORMAT", "a.proto", "/*1*/", "\"M\""), vrE("ENUM_SAME_JSON_FORMAT", "a.proto", "/*2*/", "\"E\""),
		vrE("ENUM_SAME_TYPE", "a.proto", "/*2*/", "\"E\"", "from open to closed"))
	c.add("enum-type/editions", []string{"ENUM_SAME_TYPE"},
		vrOne(vrEd("enum Opens {\n  option features.enum_type = CLOSED;\n  OPENS_ZERO = 0;\n}\nenum Closes {\n  CLOSES_ZERO = 0;\n}\nenum Same {\n  option features.enum_type = CLOSED;\n  SAME_ZERO = 0;\n}\nmessage W {\n  enum In {\n    IN_ZERO = 0;\n  }\n}\n")),
		vrOne(vrEd("enum Opens { /*1*/\n  OPENS_ZERO = 0;\n}\nenum Closes {\n  option features.enum_type = CLOSED; /*2*/\n  CLOSES_ZERO = 0;\n}\nenum Same {\n  option features.enum_type = CLOSED;\n  SAME_ZERO = 0;\n}\nmessage W {\n  enum In {\n    option features.enum_type = CLOSED; /*3*/\n    IN_ZERO = 0;\n  }\n}\n")),
		vrE("ENUM_SAME_TYPE", "a.proto", "/*1*/", "\"Opens\"", "from closed to open"), vrE("ENUM_SAME_TYPE", "a.proto", "/*2*/", "\"Closes\"", "from open to closed"),
		vrE("ENUM_SAME_TYPE", "a.proto", "/*3*/", "\"In\"", "from open to closed"))
}

// --- services and RPCs ---------------------------------------------------------------------------------------

func vrCatRPC(c *vrCat) {
	rules := []string{"RPC_NO_DELETE", "RPC_SAME_CLIENT_STREAMING", "RPC_SAME_SERVER_STREAMING", "RPC_SAME_REQUEST_TYPE", "RPC_SAME_RESPONSE_TYPE", "RPC_SAME_IDEMPOTENCY_LEVEL"}
	const msgs = "message Req {}\nmessage Res {}\nmessage Req2 {}\nmessage Res2 {}\n"
	c.add("rpc-delete", rules,
		vrOne(vrP3(msgs+"service Api {\n  rpc Keep(Req) returns (Res);\n  rpc Gone(Req) returns (Res);\n  rpc AlsoGone(stream Req) returns (Res);\n}\nservice Other {\n  rpc Keep(Req) returns (Res);\n}\n")),
		vrOne(vrP3(msgs+"service Api { /*1*/\n  rpc Keep(Req) returns (Res);\n  rpc Fresh(Req) returns (Res);\n}\nservice Other {\n  rpc Keep(Req) returns (Res);\n  rpc Gone(Req) returns (Res);\n}\n")),
		vrE("RPC_NO_DELETE", "a.proto", "/*1*/", "\"Gone\"", "Api"), vrE("RPC_NO_DELETE", "a.proto", "/*1*/", "\"AlsoGone\"", "Api"))
	c.add("rpc-signature-changes", rules,
		vrOne(vrP3(msgs+"service Api {\n  rpc Same(Req) returns (Res);\n  rpc ClientStream(Req) returns (Res);\n  rpc ClientUnary(stream Req) returns (Res);\n  rpc ServerStream(Req) returns (Res);\n  rpc ServerUnary(Req) returns (stream Res);\n  rpc ReqType(Req) returns (Res);\n  rpc ResType(Req) returns (Res);\n  rpc Both(stream Req) returns (stream Res);\n}\n")),
		vrOne(vrP3(msgs+"service Api {\n  rpc Same(Req) returns (Res);\n  rpc ClientStream(stream Req) returns (Res); /*1*/\n  rpc ClientUnary(Req) returns (Res); /*2*/\n  rpc ServerStream(Req) returns (stream Res); /*3*/\n  rpc ServerUnary(Req) returns (Res); /*4*/\n  rpc ReqType(Req2) returns (Res); /*5*/\n  rpc ResType(Req) returns (Res2); /*6*/\n  rpc Both(stream Req) returns (stream Res);\n  rpc Fresh(Req) returns (Res);\n}\n")),
		vrE("RPC_SAME_CLIENT_STREAMING", "a.proto", "/*1*/", "ClientStream", "Api", "client unary to client streaming"), vrE("RPC_SAME_CLIENT_STREAMING", "a.proto", "/*2*/", "ClientUnary", "Api", "client streaming to client unary"),
		vrE("RPC_SAME_SERVER_STREAMING", "a.proto", "/*3*/", "ServerStream", "Api", "server unary to server streaming"), vrE("RPC_SAME_SERVER_STREAMING", "a.proto", "/*4*/", "ServerUnary", "Api", "server streaming to server unary"),
		vrE("RPC_SAME_REQUEST_TYPE", "a.proto", "/*5*/", "ReqType", "p.Req", "p.Req2"), vrE("RPC_SAME_RESPONSE_TYPE", "a.proto", "/*6*/", "ResType", "p.Res", "p.Res2"))
	c.add("rpc-idempotency-level", rules,
		vrOne(vrP3(msgs+"service Api {\n  rpc Changes(Req) returns (Res) {\n    option idempotency_level = NO_SIDE_EFFECTS;\n  }\n  rpc Gains(Req) returns (Res);\n  rpc Loses(Req) returns (Res) {\n    option idempotency_level = IDEMPOTENT;\n  }\n  rpc Same(Req) returns (Res) {\n    option idempotency_level = IDEMPOTENT;\n  }\n}\n")),
		vrOne(vrP3(msgs+"service Api {\n  rpc Changes(Req) returns (Res) {\n    option idempotency_level = IDEMPOTENT; /*1*/\n  }\n  rpc Gains(Req) returns (Res) {\n    option idempotency_level = NO_SIDE_EFFECTS; /*2*/\n  }\n  rpc Loses(Req) returns (Res);\n  rpc Same(Req) returns (Res) {\n    option idempotency_level = IDEMPOTENT;\n  }\n}\n")),
		vrE("RPC_SAME_IDEMPOTENCY_LEVEL", "a.proto", "/*1*/", "Changes", "NO_SIDE_EFFECTS", "IDEMPOTENT"),
		vrE("RPC_SAME_IDEMPOTENCY_LEVEL", "a.proto", "/*2*/", "Gains", "IDEMPOTENCY_UNKNOWN", "NO_SIDE_EFFECTS"),
		vrE("RPC_SAME_IDEMPOTENCY_LEVEL", "a.proto", "", "Loses", "IDEMPOTENT", "IDEMPOTENCY_UNKNOWN"))
	c.add("rpc-second-file-and-moved-service", rules,
		map[string]string{"a.proto": vrP3(msgs + "service Moved {\n  rpc A(Req) returns (Res);\n  rpc B(Req) returns (Res);\n}\n"),
			"svc/b.proto": vrP3("import \"a.proto\";\nservice InB {\n  rpc X(Req) returns (Res);\n  rpc Y(Req) returns (Res);\n}\n")},
		map[string]string{"a.proto": vrP3(msgs),
			"svc/b.proto": vrP3("import \"a.proto\";\nservice InB { /*1*/\n  rpc X(Req) returns (stream Res); /*2*/\n}\nservice Moved { /*3*/\n  rpc A(Req2) returns (Res); /*4*/\n}\n")},
		vrE("RPC_NO_DELETE", "svc/b.proto", "/*1*/", "\"Y\"", "InB"), vrE("RPC_SAME_SERVER_STREAMING", "svc/b.proto", "/*2*/", "\"X\"", "InB"),
		vrE("RPC_NO_DELETE", "svc/b.proto", "/*3*/", "\"B\"", "Moved"), vrE("RPC_SAME_REQUEST_TYPE", "svc/b.proto", "/*4*/", "\"A\"", "Moved"))
}

// --- file level: syntax, package, options ------------------------------------------------------------------

func vrCatFileOptions(c *vrCat) {
	// FILE_SAME_SYNTAX: a missing syntax line means proto2
	c.add("file-syntax", []string{"FILE_SAME_SYNTAX"},
		map[string]string{
			"to3.proto":      "syntax = \"proto2\";\npackage p;\nmessage To3 {}\n",
			"to2.proto":      "syntax = \"proto3\";\npackage p;\nmessage To2 {}\n",
			"toed.proto":     "syntax = \"proto3\";\npackage p;\nmessage ToEd {}\n",
			"none3.proto":    "package p;\nmessage None3 {}\n",
			"drop3.proto":    "syntax = \"proto3\";\npackage p;\nmessage Drop3 {}\n",
			"none2.proto":    "package p;\nmessage None2 {}\n",
			"drop2.proto":    "syntax = \"proto2\";\npackage p;\nmessage Drop2 {}\n",
			"nonenone.proto": "package p;\nmessage NoneNone { optional int32 a = 1; }\n",
			"same3.proto":    "syntax = \"proto3\";\npackage p;\nmessage Same3 {}\n",
		},
		map[string]string{
			"to3.proto":      "// header\nsyntax = \"proto3\"; /*1*/\npackage p;\nmessage To3 {}\n",
			"to2.proto":      "syntax = \"proto2\"; /*2*/\npackage p;\nmessage To2 {}\n",
			"toed.proto":     "edition = \"2023\"; /*3*/\npackage p;\nmessage ToEd {}\n",
			"none3.proto":    "// header\n\nsyntax = \"proto3\"; /*4*/\npackage p;\nmessage None3 {}\n",
			"drop3.proto":    "package p;\nmessage Drop3 {}\n",
			"none2.proto":    "syntax = \"proto2\";\npackage p;\nmessage None2 {}\n",
			"drop2.proto":    "package p;\nmessage Drop2 {}\n",
			"nonenone.proto": "package p;\nmessage NoneNone { optional int32 a = 1; }\n",
			"same3.proto":    "syntax = \"proto3\";\npackage p;\nmessage Same3 {}\nmessage Fresh {}\n",
		},
		vrE("FILE_SAME_SYNTAX", "to3.proto", "/*1*/", "proto2", "proto3"), vrE("FILE_SAME_SYNTAX", "to2.proto", "/*2*/", "proto3", "proto2"),
		vrE("FILE_SAME_SYNTAX", "toed.proto", "/*3*/", "proto3", "editions"), vrE("FILE_SAME_SYNTAX", "none3.proto", "/*4*/", "proto2", "proto3"),
		vrE("FILE_SAME_SYNTAX", "drop3.proto", "", "proto3", "proto2"))

	c.add("file-package", []string{"FILE_SAME_PACKAGE"},
		map[string]string{"a.proto": "syntax = \"proto3\";\npackage p;\nmessage A {}\n", "b.proto": "syntax = \"proto3\";\npackage p;\nmessage B {}\n",
			"sub/c.proto": "syntax = \"proto3\";\npackage p.sub;\nmessage C {}\n", "d.proto": "syntax = \"proto3\";\npackage p;\nmessage D {}\n", "e.proto": "syntax = \"proto3\";\nmessage E {}\n"},
		map[string]string{"a.proto": "syntax = \"proto3\";\n\npackage p.v2; /*1*/\nmessage A {}\n", "b.proto": "syntax = \"proto3\";\npackage p;\nmessage B {}\n",
			"sub/c.proto": "syntax = \"proto3\";\npackage p.subs; /*2*/\nmessage C {}\n", "d.proto": "syntax = \"proto3\";\nmessage D {}\n", "e.proto": "syntax = \"proto3\";\npackage p; /*3*/\nmessage E {}\n"},
		vrE("FILE_SAME_PACKAGE", "a.proto", "/*1*/", "\"p\"", "\"p.v2\""), vrE("FILE_SAME_PACKAGE", "sub/c.proto", "/*2*/", "\"p.sub\"", "\"p.subs\""),
		vrE("FILE_SAME_PACKAGE", "d.proto", "", "\"p\"", "\"\""), vrE("FILE_SAME_PACKAGE", "e.proto", "/*3*/", "\"\"", "\"p\""))

	// FILE_SAME_<option>: one pair per option; files chg (A -> B), add (absent -> B), del (A -> absent), same (A -> A),
	// dflt (absent -> documented default written out: not a change of value)
	type opt struct{ rule, name, a, b, dflt string }
	str := func(rule, name string) opt { return opt{rule, name, "\"one.A\"", "\"two.B\"", ""} }
	opts := []opt{
		str("FILE_SAME_CSHARP_NAMESPACE", "csharp_namespace"), str("FILE_SAME_GO_PACKAGE", "go_package"),
		str("FILE_SAME_JAVA_OUTER_CLASSNAME", "java_outer_classname"), str("FILE_SAME_JAVA_PACKAGE", "java_package"),
		str("FILE_SAME_OBJC_CLASS_PREFIX", "objc_class_prefix"), str("FILE_SAME_PHP_CLASS_PREFIX", "php_class_prefix"),
		str("FILE_SAME_PHP_METADATA_NAMESPACE", "php_metadata_namespace"), str("FILE_SAME_PHP_NAMESPACE", "php_namespace"),
		str("FILE_SAME_RUBY_PACKAGE", "ruby_package"), str("FILE_SAME_SWIFT_PREFIX", "swift_prefix"),
		{"FILE_SAME_OPTIMIZE_FOR", "optimize_for", "CODE_SIZE", "LITE_RUNTIME", "SPEED"},
		// booleans: a = documented default, b = the other value
		{"FILE_SAME_CC_ENABLE_ARENAS", "cc_enable_arenas", "true", "false", "true"},
		{"FILE_SAME_CC_GENERIC_SERVICES", "cc_generic_services", "false", "true", "false"},
		{"FILE_SAME_JAVA_GENERIC_SERVICES", "java_generic_services", "false", "true", "false"},
		{"FILE_SAME_JAVA_MULTIPLE_FILES", "java_multiple_files", "false", "true", "false"},
		{"FILE_SAME_PY_GENERIC_SERVICES", "py_generic_services", "false", "true", "false"},
	}
	for _, o := range opts {
		file := func(msg, value string) string {
			s := "syntax = \"proto3\";\npackage p;\n"
			if value != "" {
				s += "option " + o.name + " = " + value + "; /*o*/\n"
			}
			return s + "message " + msg + " {}\n"
		}
		unq := func(s string) string { return strings.Trim(s, "\"") }
		prev := map[string]string{"chg.proto": file("Chg", o.a), "add.proto": file("Add", ""), "del.proto": file("Del", o.b), "same.proto": file("Same", o.b), "rev.proto": file("Rev", o.b)}
		cur := map[string]string{"chg.proto": file("Chg", o.b), "add.proto": "// leading comment\n\n" + file("Add", o.b), "del.proto": file("Del", ""), "same.proto": file("Same", o.b) + "message Fresh {}\n", "rev.proto": file("Rev", o.a)}
		exp := []vrExp{
			vrE(o.rule, "chg.proto", "/*o*/", o.name, unq(o.a), unq(o.b)),
			vrE(o.rule, "add.proto", "/*o*/", o.name, unq(o.b)),
			vrE(o.rule, "del.proto", "", o.name, unq(o.b)),
			vrE(o.rule, "rev.proto", "/*o*/", o.name, unq(o.b), unq(o.a)),
		}
		if o.dflt != "" {
			prev["dflt.proto"] = file("Dflt", "")
			cur["dflt.proto"] = file("Dflt", o.dflt)
			prev["undflt.proto"] = file("Undflt", o.dflt)
			cur["undflt.proto"] = file("Undflt", "")
		}
		c.add("file-option/"+o.name, []string{o.rule}, prev, cur, exp...)
	}
	// all options at once in one file, next to unrelated additive edits
	var all strings.Builder
	var allPrev strings.Builder
	var exp []vrExp
	var rules []string
	all.WriteString("syntax = \"proto3\";\npackage p;\n")
	allPrev.WriteString("syntax = \"proto3\";\npackage p;\n")
	for i, o := range opts {
		mark := fmt.Sprintf("/*o%d*/", i)
		fmt.Fprintf(&allPrev, "option %s = %s;\n", o.name, o.a)
		fmt.Fprintf(&all, "option %s = %s; %s\n", o.name, o.b, mark)
		exp = append(exp, vrE(o.rule, "all.proto", mark, o.name))
		rules = append(rules, o.rule)
	}
	allPrev.WriteString("message M { int32 a = 1; }\n")
	all.WriteString("message M { int32 a = 1; int32 b = 2; }\nenum Fresh { FRESH_ZERO = 0; }\n")
	c.add("file-option/all-in-one-file", rules, map[string]string{"all.proto": allPrev.String(), "other.proto": vrP3("message Other {}\n")},
		map[string]string{"all.proto": all.String(), "other.proto": vrP3("message Other {}\n")}, exp...)
}

// --- reserved ranges / names and extension ranges -------------------------------------------------------------

func vrCatReserved(c *vrCat) {
	c.add("reserved-message", []string{"RESERVED_MESSAGE_NO_DELETE"},
		vrOne(vrP3("message RangeGone {\n  reserved 5 to 10;\n  int32 a = 1;\n}\nmessage NameGone {\n  reserved \"old\", \"older\";\n}\nmessage Narrowed {\n  reserved 5 to 10;\n}\nmessage Widened {\n  reserved 5 to 10;\n  reserved \"x\";\n}\nmessage Split {\n  reserved 5 to 10;\n}\nmessage Merged {\n  reserved 5 to 7, 8 to 10;\n}\nmessage SingleGone {\n  reserved 3, 4;\n}\nmessage O {\n  message Nested {\n    reserved 2;\n    reserved \"n\";\n  }\n}\nmessage Hole {\n  reserved 5 to 10;\n}\n")),
		vrOne(vrP3("message RangeGone { /*1*/\n  int32 a = 1;\n}\nmessage NameGone { /*2*/\n  reserved \"older\";\n}\nmessage Narrowed { /*3*/\n  reserved 5 to 9;\n}\nmessage Widened {\n  reserved 4 to 11;\n  reserved \"x\", \"y\";\n}\nmessage Split {\n  reserved 5 to 7, 8 to 10;\n}\nmessage Merged {\n  reserved 5 to 10;\n}\nmessage SingleGone { /*4*/\n  reserved 3;\n}\nmessage O {\n  message Nested { /*5*/\n  }\n}\nmessage Hole { /*6*/\n  reserved 5 to 6, 8 to 10;\n}\n")),
		vrE("RESERVED_MESSAGE_NO_DELETE", "a.proto", "/*1*/", "RangeGone", "[5,10]"), vrE("RESERVED_MESSAGE_NO_DELETE", "a.proto", "/*2*/", "NameGone", "\"old\""),
		vrE("RESERVED_MESSAGE_NO_DELETE", "a.proto", "/*3*/", "Narrowed", "[10]"), vrE("RESERVED_MESSAGE_NO_DELETE", "a.proto", "/*4*/", "SingleGone", "[4]"),
		vrE("RESERVED_MESSAGE_NO_DELETE", "a.proto", "/*5*/", "Nested", "[2]"), vrE("RESERVED_MESSAGE_NO_DELETE", "a.proto", "/*5*/", "Nested", "\"n\""),
		vrE("RESERVED_MESSAGE_NO_DELETE", "a.proto", "/*6*/", "Hole", "[7]"))
	c.add("reserved-enum", []string{"RESERVED_ENUM_NO_DELETE"},
		vrOne(vrP3("enum RangeGone {\n  reserved 5 to 10;\n  RANGE_GONE_ZERO = 0;\n}\nenum NameGone {\n  reserved \"OLD\", \"OLDER\";\n  NAME_GONE_ZERO = 0;\n}\nenum Narrowed {\n  reserved 5 to 10;\n  NARROWED_ZERO = 0;\n}\nenum Widened {\n  reserved 5 to 10;\n  WIDENED_ZERO = 0;\n}\nenum Merged {\n  reserved 5 to 7, 8 to 10;\n  MERGED_ZERO = 0;\n}\nmessage O {\n  enum Nested {\n    reserved 2, -4 to -2;\n    NESTED_ZERO = 0;\n  }\n}\nenum ToMax {\n  reserved 100 to max;\n  TO_MAX_ZERO = 0;\n}\n")),
		vrOne(vrP3("enum RangeGone { /*1*/\n  RANGE_GONE_ZERO = 0;\n}\nenum NameGone { /*2*/\n  reserved \"OLDER\";\n  NAME_GONE_ZERO = 0;\n}\nenum Narrowed { /*3*/\n  reserved 6 to 10;\n  NARROWED_ZERO = 0;\n}\nenum Widened {\n  reserved 4 to 11;\n  reserved \"W\";\n  WIDENED_ZERO = 0;\n  WIDENED_ONE = 1;\n}\nenum Merged {\n  reserved 5 to 10;\n  MERGED_ZERO = 0;\n}\nmessage O {\n  enum Nested { /*4*/\n    reserved 2, -4 to -3;\n    NESTED_ZERO = 0;\n  }\n}\nenum ToMax { /*5*/\n  reserved 100 to 1000;\n  TO_MAX_ZERO = 0;\n}\n")),
		vrE("RESERVED_ENUM_NO_DELETE", "a.proto", "/*1*/", "RangeGone", "[5,10]"), vrE("RESERVED_ENUM_NO_DELETE", "a.proto", "/*2*/", "NameGone", "\"OLD\""),
		vrE("RESERVED_ENUM_NO_DELETE", "a.proto", "/*3*/", "Narrowed", "[5]"), vrE("RESERVED_ENUM_NO_DELETE", "a.proto", "/*4*/", "Nested", "[-2]"),
		vrE("RESERVED_ENUM_NO_DELETE", "a.proto", "/*5*/", "ToMax", "[1001,max]"))
	c.add("extension-ranges", []string{"EXTENSION_MESSAGE_NO_DELETE"},
		vrOne(vrP2("message Gone {\n  extensions 100 to 200;\n}\nmessage Narrowed {\n  extensions 100 to 200;\n}\nmessage Widened {\n  extensions 100 to 200;\n}\nmessage Split {\n  extensions 100 to 200;\n}\nmessage OneOfTwo {\n  extensions 100 to 110, 120 to 130;\n}\nmessage O {\n  message Nested {\n    extensions 1000 to max;\n  }\n}\n")),
		vrOne(vrP2("message Gone { /*1*/\n  optional int32 fresh = 1;\n}\nmessage Narrowed { /*2*/\n  extensions 101 to 200;\n}\nmessage Widened {\n  extensions 50 to 300;\n}\nmessage Split {\n  extensions 100 to 150, 151 to 200;\n}\nmessage OneOfTwo { /*3*/\n  extensions 100 to 110;\n}\nmessage O {\n  message Nested { /*4*/\n    extensions 1000 to 2000;\n  }\n}\n")),
		vrE("EXTENSION_MESSAGE_NO_DELETE", "a.proto", "/*1*/", "Gone", "[100,200]"), vrE("EXTENSION_MESSAGE_NO_DELETE", "a.proto", "/*2*/", "Narrowed", "[100]"),
		vrE("EXTENSION_MESSAGE_NO_DELETE", "a.proto", "/*3*/", "OneOfTwo", "[120,130]"), vrE("EXTENSION_MESSAGE_NO_DELETE", "a.proto", "/*4*/", "Nested", "[2001,max]"))
	c.add("reserved-second-file", []string{"RESERVED_MESSAGE_NO_DELETE", "RESERVED_ENUM_NO_DELETE"},
		map[string]string{"a.proto": vrP3("message A {}\n"), "b.proto": vrP3("message InB {\n  reserved 7;\n}\nenum EnB {\n  reserved 7;\n  EN_B_ZERO = 0;\n}\n")},
		map[string]string{"a.proto": vrP3("message A {}\n"), "b.proto": vrP3("message InB { /*1*/\n  reserved 8;\n}\nenum EnB { /*2*/\n  reserved 8;\n  EN_B_ZERO = 0;\n}\n")},
		vrE("RESERVED_MESSAGE_NO_DELETE", "b.proto", "/*1*/", "InB", "[7]"), vrE("RESERVED_ENUM_NO_DELETE", "b.proto", "/*2*/", "EnB", "[7]"))
}

// --- C04: identical, cosmetic and additive-only pairs --------------------------------------------------------

func vrCatCompatible(c *vrCat) {
	const rich3 = `syntax = "proto3";
package acme.shop.v1;
option go_package = "example.com/acme/shop/v1;shopv1";
option java_multiple_files = true;
option java_package = "com.acme.shop.v1";
option optimize_for = CODE_SIZE;
enum Status {
  option allow_alias = true;
  reserved 7, 20 to 29;
  reserved "STATUS_LEGACY";
  STATUS_UNSPECIFIED = 0;
  STATUS_OPEN = 1;
  STATUS_ACTIVE = 1;
  STATUS_CLOSED = 2;
}
message Order {
  reserved 9, 100 to 199;
  reserved "legacy_id";
  message Line {
    string sku = 1;
    uint32 quantity = 2 [json_name = "qty"];
    enum Unit { UNIT_UNSPECIFIED = 0; UNIT_PIECE = 1; }
    Unit unit = 3;
  }
  string id = 1;
  repeated Line lines = 2;
  map<string, string> labels = 3;
  oneof payment {
    string card_token = 4;
    int64 invoice_number = 5 [jstype = JS_STRING];
  }
  optional int32 priority = 6;
  Status status = 7;
  bytes blob = 8 [ctype = CORD];
}
message ListOrdersRequest { int32 page_size = 1; }
message ListOrdersResponse { repeated Order orders = 1; }
service OrderService {
  rpc ListOrders(ListOrdersRequest) returns (ListOrdersResponse) { option idempotency_level = NO_SIDE_EFFECTS; }
  rpc WatchOrders(ListOrdersRequest) returns (stream Order);
  rpc Upload(stream Order) returns (ListOrdersResponse);
}
`
	const rich2 = `syntax = "proto2";
package acme.legacy;
option java_string_check_utf8 = true;
option cc_enable_arenas = false;
message Record {
  required int64 id = 1;
  optional string name = 2 [default = "none"];
  optional Kind kind = 3 [default = KIND_B];
  repeated int32 values = 4 [packed = true];
  optional group Extra = 5 {
    optional int32 depth = 1;
  }
  extensions 100 to 199;
  extensions 1000 to max;
  reserved 50 to 59;
  reserved "old";
  oneof source { string file = 6; string url = 7; }
  message Inner { option no_standard_descriptor_accessor = true; optional double d = 1 [default = 2.5]; }
}
enum Kind { KIND_A = 1; KIND_B = 2; reserved 10 to max; }
extend Record { optional string note = 100; repeated Record children = 101; }
message Holder { extend Record { optional Holder holder = 102; } }
service Legacy { rpc Get(Record) returns (Record); }
`
	const legacyNoSyntax = "package acme.old;\nmessage Old {\n  optional int32 a = 1;\n  required string b = 2;\n}\nenum OldE { OLD_E_A = 1; }\n"
	const editions = `edition = "2023";
package acme.ed;
option features.field_presence = IMPLICIT;
message Ed {
  string a = 1 [features.utf8_validation = NONE];
  int32 b = 2 [features.field_presence = EXPLICIT];
  Sub sub = 3 [features.message_encoding = DELIMITED];
  message Sub { option features.json_format = LEGACY_BEST_EFFORT; int32 x = 1; }
  repeated int32 r = 4 [features.repeated_field_encoding = EXPANDED];
}
enum EdE { option features.enum_type = CLOSED; ED_E_ONE = 1; }
`
	all := map[string]string{"shop/v1/order.proto": rich3, "legacy/record.proto": rich2, "old/old.proto": legacyNoSyntax, "ed/ed.proto": editions}
	c.addClean("compatible/identical-multi-file", all, all)
	c.addClean("compatible/identical-no-syntax-line", map[string]string{"old.proto": legacyNoSyntax, "x.proto": "message NoPackageNoSyntax { optional int32 a = 1; }\n"},
		map[string]string{"old.proto": legacyNoSyntax, "x.proto": "message NoPackageNoSyntax { optional int32 a = 1; }\n"})
	c.addClean("compatible/explicit-proto2-vs-no-syntax-line",
		map[string]string{"gains.proto": legacyNoSyntax, "loses.proto": "syntax = \"proto2\";\npackage acme.old2;\nmessage Old2 { optional int32 a = 1; }\n"},
		map[string]string{"gains.proto": "syntax = \"proto2\";\n" + legacyNoSyntax, "loses.proto": "// no syntax line any more\npackage acme.old2;\nmessage Old2 { optional int32 a = 1; }\n"})

	// re-commented / reformatted copies
	recomment := func(src string) string {
		var b strings.Builder
		b.WriteString("// Copyright, licence header.\n\n")
		for _, l := range strings.Split(src, "\n") {
			t := strings.TrimSpace(l)
			if t == "" {
				continue
			}
			switch {
			case strings.HasPrefix(t, "message "), strings.HasPrefix(t, "enum "), strings.HasPrefix(t, "service "):
				b.WriteString("\n// Documentation for: " + strings.TrimSuffix(t, "{") + "\n")
			case strings.HasPrefix(t, "rpc "):
				b.WriteString("    /* an rpc */\n")
			}
			b.WriteString("\t\t" + t + " // trailing\n")
		}
		return b.String()
	}
	c.addClean("compatible/recommented-reindented",
		all, map[string]string{"shop/v1/order.proto": recomment(rich3), "legacy/record.proto": recomment(rich2), "old/old.proto": recomment(legacyNoSyntax), "ed/ed.proto": recomment(editions)})
	c.addClean("compatible/reordered-declarations",
		vrOne(vrP3("message A {\n  int32 x = 1;\n  string y = 2;\n  oneof o { int32 p = 3; int32 q = 4; }\n}\nenum E { E_ZERO = 0; E_ONE = 1; E_TWO = 2; }\nmessage B { reserved 1 to 3, 7; reserved \"a\", \"b\"; }\nservice S { rpc One(A) returns (B); rpc Two(A) returns (B); }\n")),
		vrOne(vrP3("service S { rpc Two(A) returns (B); rpc One(A) returns (B); }\nmessage B { reserved \"b\"; reserved 7; reserved \"a\"; reserved 1 to 3; }\nenum E { E_ZERO = 0 ;\n E_TWO = 2; E_ONE = 1; }\nmessage A {\n  oneof o { int32 q = 4; int32 p = 3; }\n  string y = 2;\n\n\n  int32 x = 1;\n}\n")))

	// additive-only pairs
	base := map[string]string{"shop/v1/order.proto": rich3, "legacy/record.proto": rich2}
	with := func(path, from, to string) map[string]string {
		out := map[string]string{}
		for p, s := range base {
			out[p] = s
		}
		if !strings.Contains(out[path], from) {
			panic("vrCatCompatible: " + from + " not in " + path)
		}
		out[path] = strings.Replace(out[path], from, to, 1)
		return out
	}
	order, record := "shop/v1/order.proto", "legacy/record.proto"
	c.addClean("additive/new-file", base, map[string]string{order: rich3, record: rich2,
		"shop/v1/extra.proto": "syntax = \"proto3\";\npackage acme.shop.v1;\nimport \"shop/v1/order.proto\";\nmessage Extra { Order order = 1; }\nenum ExtraE { EXTRA_E_UNSPECIFIED = 0; }\nservice ExtraService { rpc Do(Extra) returns (Extra); }\n",
		"brand/new.proto":     "syntax = \"proto3\";\npackage brand.new_pkg;\nmessage N {}\n"})
	c.addClean("additive/new-message", base, with(order, "message ListOrdersRequest", "message Fresh { string a = 1; message Deep { int32 b = 1; } }\nmessage ListOrdersRequest"))
	c.addClean("additive/new-nested-message-and-enum", base, with(order, "  string id = 1;", "  message Address { string street = 1; }\n  enum Channel { CHANNEL_UNSPECIFIED = 0; CHANNEL_WEB = 1; }\n  string id = 1;"))
	c.addClean("additive/new-enum", base, with(order, "message Order {", "enum Fresh { FRESH_UNSPECIFIED = 0; FRESH_ONE = 1; }\nmessage Order {"))
	c.addClean("additive/new-service", base, with(order, "service OrderService {", "service AdminService { rpc Purge(ListOrdersRequest) returns (ListOrdersResponse); }\nservice OrderService {"))
	c.addClean("additive/new-rpc", base, with(order, "  rpc Upload(", "  rpc Cancel(Order) returns (Order) { option idempotency_level = IDEMPOTENT; }\n  rpc Chat(stream Order) returns (stream Order);\n  rpc Upload("))
	c.addClean("additive/new-oneof", base, with(order, "  optional int32 priority = 6;", "  optional int32 priority = 6;\n  oneof shipping { string pickup_point = 20; Line parcel = 21; }"))
	c.addClean("additive/new-reserved-range-and-name", base, with(order, "  reserved \"legacy_id\";", "  reserved \"legacy_id\", \"another\";\n  reserved 300 to 400, 500;"))
	c.addClean("additive/widened-reserved-range", base, with(order, "  reserved 9, 100 to 199;", "  reserved 9 to 10, 90 to 250;"))
	c.addClean("additive/new-enum-reserved", base, with(order, "  reserved 7, 20 to 29;", "  reserved 7, 20 to 29, 40 to max;\n  reserved \"STATUS_OLD\";"))
	c.addClean("additive/new-enum-value", base, with(order, "  STATUS_CLOSED = 2;", "  STATUS_CLOSED = 2;\n  STATUS_ARCHIVED = 3;\n  STATUS_NEGATIVE = -1;"))
	c.addClean("additive/new-nested-enum-value", base, with(order, "UNIT_PIECE = 1;", "UNIT_PIECE = 1; UNIT_BOX = 2;"))
	c.addClean("additive/new-fields-proto3", base, with(order, "  Status status = 7;", "  Status status = 7;\n  string note = 30;\n  optional string nick = 31;\n  repeated int64 tags = 32;\n  map<int32, Line> by_pos = 33;\n  Line main_line = 34;"))
	c.addClean("additive/new-field-in-nested-message", base, with(order, "    string sku = 1;", "    string sku = 1;\n    double weight = 10;"))
	c.addClean("additive/new-oneof-member", base, with(order, "    string card_token = 4;", "    string card_token = 4;\n    bool cash = 40;"))
	c.addClean("additive/new-fields-proto2", base, with(record, "  repeated int32 values = 4 [packed = true];", "  repeated int32 values = 4 [packed = true];\n  optional int32 fresh = 20 [default = 4];\n  repeated string fresh_rep = 21;\n  optional group FreshGroup = 22 { optional int32 g = 1; }"))
	c.addClean("additive/new-extension-range", base, with(record, "  extensions 100 to 199;", "  extensions 100 to 199, 300 to 399;"))
	c.addClean("additive/new-extensions", base, with(record, "extend Record { optional string note = 100;", "extend Record { optional int32 fresh_ext = 110; }\nextend Record { optional string note = 100;"))
	c.addClean("additive/new-nested-extension", base, with(record, "message Holder { extend Record { optional Holder holder = 102; }", "message Holder { extend Record { optional Holder holder = 102; optional int32 holder_fresh = 111; }"))
	c.addClean("additive/new-file-options-absent-before", vrOne(vrP3("message M {}\n")), vrOne(vrP3("option java_generic_services = false;\noption cc_enable_arenas = true;\noption optimize_for = SPEED;\nmessage M {}\n")))
	// everything together
	everything := map[string]string{order: rich3, record: rich2}
	for _, step := range [][3]string{
		{order, "message ListOrdersRequest", "message Fresh { string a = 1; }\nenum FreshE { FRESH_E_UNSPECIFIED = 0; }\nmessage ListOrdersRequest"},
		{order, "  STATUS_CLOSED = 2;", "  STATUS_CLOSED = 2;\n  STATUS_ARCHIVED = 3;"},
		{order, "  Status status = 7;", "  Status status = 7;\n  string note = 30;\n  oneof fresh_oneof { int32 fo = 35; }"},
		{order, "  rpc Upload(", "  rpc Cancel(Order) returns (Order);\n  rpc Upload("},
		{order, "  reserved \"legacy_id\";", "  reserved \"legacy_id\";\n  reserved 300 to 400;"},
		{record, "  extensions 100 to 199;", "  extensions 100 to 199, 300 to 399;\n  optional int32 fresh = 20;"},
	} {
		if !strings.Contains(everything[step[0]], step[1]) {
			panic("vrCatCompatible: " + step[1])
		}
		everything[step[0]] = strings.Replace(everything[step[0]], step[1], step[2], 1)
	}
	everything["shop/v1/extra.proto"] = "syntax = \"proto3\";\npackage acme.shop.v1;\nservice ExtraService {}\n"
	c.addClean("additive/everything-together", base, everything)
}
