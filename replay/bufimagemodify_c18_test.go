package bufimagemodify

// Replay / bounded contract run for the C18 obligations of package bufimagemodify (injected with go test -overlay).
//
// Image: google/protobuf/timestamp.proto (well-known type), a/b/x.proto (module buf.build/acme/one, no options),
// ab/y.proto (module buf.build/acme/two, options pre-set, with source info for them), a/z.proto (no module).
// Rule catalogues: disable rules = paths {"", a, a/b, a/b/x.proto, ab, a/b/x} x modules {"", acme/one, acme/two}
// x file option {unspecified, this option, another option} x field option {unspecified, jstype} (invalid
// combinations dropped); override rules = paths {"", a, ab} x modules {"", acme/one} x two values.
//
//   - fileMatchConfig / isFileOptionDisabledForFile / overrideFromConfig are called directly on every file with
//     every rule (resp. zero to two rules). Oracle = the contract clauses: a rule matches by path-wise containment
//     and exact module name (a file without a module matches no module-qualified rule); an option is disabled iff
//     some matching rule names it (or no option) and is not a field-option rule; the LAST matching override wins.
//   - modifyFileOption / modifyStringOption / modifyImage are driven through the single-option entry points
//     (ModifyCcEnableArenas, ModifyJavaMultipleFiles, ModifyJavaStringCheckUtf8, ModifyOptimizeFor,
//     ModifyJavaPackage, ModifyGoPackage, ModifyJavaOuterClass) and through Modify, for every configuration of at
//     most one disable rule and at most two override rules. Oracle: an expected copy of every file descriptor is
//     computed independently (disabled -> untouched; else last matching override, else the documented default;
//     a value already in effect is not rewritten; the source location pair [8],[8,N] disappears exactly when the
//     option was rewritten) and must equal the real result field for field: nothing else may change, the
//     well-known-type file never changes, a disabled managed mode changes nothing.

import (
	"fmt"
	"os"
	"strings"
	"testing"

	"github.com/bufbuild/buf/private/bufpkg/bufconfig"
	"github.com/bufbuild/buf/private/bufpkg/bufimage"
	"github.com/bufbuild/buf/private/bufpkg/bufparse"
	"github.com/google/uuid"
	"google.golang.org/protobuf/proto"
	"google.golang.org/protobuf/reflect/protoreflect"
	"google.golang.org/protobuf/types/descriptorpb"
)

type vr18 struct{ found int }

func (v *vr18) report(format string, a ...any) {
	if v.found < 4 {
		fmt.Printf("VERIF-REPLAY FAILING-INPUT "+format+"\n", a...)
	}
	v.found++
}

const (
	vr18WKT  = "google/protobuf/timestamp.proto"
	vr18One  = "buf.build/acme/one"
	vr18Two  = "buf.build/acme/two"
	vr18None = ""
)

type vr18FileSpec struct {
	path, pkg, module string
}

var vr18Files = []vr18FileSpec{
	{"a/b/x.proto", "acme.x.v1", vr18One},
	{"ab/y.proto", "acme.y.v1", vr18Two},
	{"a/z.proto", "acme.z.v1", vr18None},
	{vr18WKT, "google.protobuf", vr18None},
}

func vr18Loc(path ...int32) *descriptorpb.SourceCodeInfo_Location {
	return &descriptorpb.SourceCodeInfo_Location{Path: path, Span: []int32{int32(len(path)), 0, 1}}
}

func vr18Descriptor(spec vr18FileSpec) *descriptorpb.FileDescriptorProto {
	fd := &descriptorpb.FileDescriptorProto{
		Name: proto.String(spec.path), Package: proto.String(spec.pkg), Syntax: proto.String("proto3"),
		MessageType: []*descriptorpb.DescriptorProto{{Name: proto.String("M"), Field: []*descriptorpb.FieldDescriptorProto{
			{Name: proto.String("n"), Number: proto.Int32(1), JsonName: proto.String("n"), Label: descriptorpb.FieldDescriptorProto_LABEL_OPTIONAL.Enum(), Type: descriptorpb.FieldDescriptorProto_TYPE_INT64.Enum()},
			{Name: proto.String("s"), Number: proto.Int32(2), JsonName: proto.String("s"), Label: descriptorpb.FieldDescriptorProto_LABEL_OPTIONAL.Enum(), Type: descriptorpb.FieldDescriptorProto_TYPE_STRING.Enum(), Options: &descriptorpb.FieldOptions{Deprecated: proto.Bool(true)}},
		}}},
	}
	if spec.path == "ab/y.proto" {
		fd.Options = &descriptorpb.FileOptions{
			JavaPackage: proto.String("preset.java"), JavaOuterClassname: proto.String("PresetOuter"), JavaMultipleFiles: proto.Bool(false),
			JavaStringCheckUtf8: proto.Bool(true), OptimizeFor: descriptorpb.FileOptions_CODE_SIZE.Enum(), GoPackage: proto.String("preset/go;presetpb"),
			CcEnableArenas: proto.Bool(false), Deprecated: proto.Bool(true), JavaGenericServices: proto.Bool(true),
		}
		fd.SourceCodeInfo = &descriptorpb.SourceCodeInfo{Location: []*descriptorpb.SourceCodeInfo_Location{
			vr18Loc(), vr18Loc(12), vr18Loc(2),
			vr18Loc(8), vr18Loc(8, 1), vr18Loc(8), vr18Loc(8, 8), vr18Loc(8), vr18Loc(8, 10), vr18Loc(8), vr18Loc(8, 27), vr18Loc(8), vr18Loc(8, 9),
			vr18Loc(8), vr18Loc(8, 11), vr18Loc(8), vr18Loc(8, 31), vr18Loc(8), vr18Loc(8, 23), vr18Loc(8), vr18Loc(8, 17),
			vr18Loc(4, 0), vr18Loc(4, 0, 1),
			// field n carries a custom option written as `[(acme.opt).sub = 1]`: options root plus one deep location
			vr18Loc(4, 0, 2, 0), vr18Loc(4, 0, 2, 0, 8), vr18Loc(4, 0, 2, 0, 8, 50000, 1),
			vr18Loc(4, 0, 2, 1), vr18Loc(4, 0, 2, 1, 8), vr18Loc(4, 0, 2, 1, 8, 3),
		}}
	}
	return fd
}

func vr18Image() (bufimage.Image, error) {
	var files []bufimage.ImageFile
	for _, spec := range vr18Files {
		var fullName bufparse.FullName
		commitID := uuid.Nil
		if spec.module != "" {
			parts := strings.Split(spec.module, "/")
			var err error
			if fullName, err = bufparse.NewFullName(parts[0], parts[1], parts[2]); err != nil {
				return nil, err
			}
			commitID = uuid.MustParse("11111111-2222-3333-4444-555555555555")
			if spec.module == vr18Two {
				commitID = uuid.MustParse("11111111-2222-3333-4444-666666666666")
			}
		}
		f, err := bufimage.NewImageFile(vr18Descriptor(spec), fullName, commitID, spec.path, "", spec.path == vr18WKT, false, nil)
		if err != nil {
			return nil, err
		}
		files = append(files, f)
	}
	return bufimage.NewImage(files)
}

// ----- independent rule semantics -----

func vr18Above(k, p string) bool {
	return k == p || strings.HasPrefix(p, k+"/")
}

func vr18Match(spec vr18FileSpec, rulePath, ruleModule string) bool {
	return (rulePath == "" || vr18Above(rulePath, spec.path)) && (ruleModule == "" || spec.module == ruleModule)
}

type vr18Disable struct {
	path, module string
	fileOption   bufconfig.FileOption
	fieldOption  bufconfig.FieldOption
}

func (d vr18Disable) String() string {
	return fmt.Sprintf("{path %q module %q file_option %v field_option %v}", d.path, d.module, d.fileOption, d.fieldOption)
}

type vr18Override struct {
	path, module string
	fileOption   bufconfig.FileOption
	value        any
}

func (o vr18Override) String() string {
	return fmt.Sprintf("{path %q module %q %v=%v}", o.path, o.module, o.fileOption, o.value)
}

func vr18Disabled(spec vr18FileSpec, option bufconfig.FileOption, disables []vr18Disable) bool {
	for _, d := range disables {
		if (d.fileOption == bufconfig.FileOptionUnspecified || d.fileOption == option) && d.fieldOption == bufconfig.FieldOptionUnspecified && vr18Match(spec, d.path, d.module) {
			return true
		}
	}
	return false
}

func vr18LastOverride(spec vr18FileSpec, overrides []vr18Override, options ...bufconfig.FileOption) *vr18Override {
	var last *vr18Override
	for i := range overrides {
		for _, option := range options {
			if overrides[i].fileOption == option && vr18Match(spec, overrides[i].path, overrides[i].module) {
				last = &overrides[i]
			}
		}
	}
	return last
}

func vr18Config(enabled bool, disables []vr18Disable, overrides []vr18Override) (bufconfig.GenerateManagedConfig, bool) {
	var ds []bufconfig.ManagedDisableRule
	for _, d := range disables {
		r, err := bufconfig.NewManagedDisableRule(d.path, d.module, "", d.fileOption, d.fieldOption)
		if err != nil {
			return nil, false
		}
		ds = append(ds, r)
	}
	var os []bufconfig.ManagedOverrideRule
	for _, o := range overrides {
		r, err := bufconfig.NewManagedOverrideRuleForFileOption(o.path, o.module, o.fileOption, o.value)
		if err != nil {
			return nil, false
		}
		os = append(os, r)
	}
	return bufconfig.NewGenerateManagedConfig(enabled, ds, os), true
}

// ----- options under test -----

type vr18Option struct {
	name      string
	option    bufconfig.FileOption
	prefix    bufconfig.FileOption // unspecified if none
	suffix    bufconfig.FileOption // unspecified if none
	suffixVal string
	other     bufconfig.FileOption // some other option, for rules that must not apply
	tag       int32
	values    []any // two override values
	prefixVal string
	modify    func(bufimage.Image, bufconfig.GenerateManagedConfig, ...ModifyOption) error
	// effective value of the option in a descriptor, as a string
	get func(*descriptorpb.FileOptions) string
	// set the raw field from the string form
	set func(*descriptorpb.FileOptions, string)
	// the value managed mode wants when no override applies; "" = leave alone
	def func(spec vr18FileSpec, prefix, suffix string) string
}

func vr18Options() []vr18Option {
	boolGet := func(f func(*descriptorpb.FileOptions) bool) func(*descriptorpb.FileOptions) string {
		return func(o *descriptorpb.FileOptions) string { return fmt.Sprint(f(o)) }
	}
	return []vr18Option{
		{name: "cc_enable_arenas", option: bufconfig.FileOptionCcEnableArenas, other: bufconfig.FileOptionJavaMultipleFiles, tag: 31, values: []any{false, true},
			modify: ModifyCcEnableArenas, get: boolGet((*descriptorpb.FileOptions).GetCcEnableArenas),
			set: func(o *descriptorpb.FileOptions, s string) { o.CcEnableArenas = proto.Bool(s == "true") },
			def: func(vr18FileSpec, string, string) string { return "true" }},
		{name: "java_multiple_files", option: bufconfig.FileOptionJavaMultipleFiles, other: bufconfig.FileOptionCcEnableArenas, tag: 10, values: []any{false, true},
			modify: ModifyJavaMultipleFiles, get: boolGet((*descriptorpb.FileOptions).GetJavaMultipleFiles),
			set: func(o *descriptorpb.FileOptions, s string) { o.JavaMultipleFiles = proto.Bool(s == "true") },
			def: func(vr18FileSpec, string, string) string { return "true" }},
		{name: "java_string_check_utf8", option: bufconfig.FileOptionJavaStringCheckUtf8, other: bufconfig.FileOptionCcEnableArenas, tag: 27, values: []any{true, false},
			modify: ModifyJavaStringCheckUtf8, get: boolGet((*descriptorpb.FileOptions).GetJavaStringCheckUtf8),
			set: func(o *descriptorpb.FileOptions, s string) { o.JavaStringCheckUtf8 = proto.Bool(s == "true") },
			def: func(vr18FileSpec, string, string) string { return "false" }},
		{name: "optimize_for", option: bufconfig.FileOptionOptimizeFor, other: bufconfig.FileOptionCcEnableArenas, tag: 9, values: []any{"LITE_RUNTIME", "CODE_SIZE"},
			modify: ModifyOptimizeFor, get: func(o *descriptorpb.FileOptions) string { return o.GetOptimizeFor().String() },
			set: func(o *descriptorpb.FileOptions, s string) {
				o.OptimizeFor = descriptorpb.FileOptions_OptimizeMode(descriptorpb.FileOptions_OptimizeMode_value[s]).Enum()
			},
			def: func(vr18FileSpec, string, string) string { return "SPEED" }},
		{name: "java_package", option: bufconfig.FileOptionJavaPackage, prefix: bufconfig.FileOptionJavaPackagePrefix, suffix: bufconfig.FileOptionJavaPackageSuffix, other: bufconfig.FileOptionGoPackage, tag: 1,
			values: []any{"ov.one", "ov.two"}, prefixVal: "org", suffixVal: "gen",
			modify: ModifyJavaPackage, get: (*descriptorpb.FileOptions).GetJavaPackage,
			set: func(o *descriptorpb.FileOptions, s string) { o.JavaPackage = proto.String(s) },
			def: func(spec vr18FileSpec, prefix, suffix string) string {
				if prefix == "" && suffix == "" {
					return ""
				}
				out := spec.pkg
				if prefix != "" {
					out = prefix + "." + out
				}
				if suffix != "" {
					out = out + "." + suffix
				}
				return out
			}},
		{name: "go_package", option: bufconfig.FileOptionGoPackage, other: bufconfig.FileOptionJavaPackage, tag: 11, values: []any{"example.com/one;onepb", "example.com/two"},
			modify: ModifyGoPackage, get: (*descriptorpb.FileOptions).GetGoPackage,
			set: func(o *descriptorpb.FileOptions, s string) { o.GoPackage = proto.String(s) },
			def: func(vr18FileSpec, string, string) string { return "" }},
		{name: "java_outer_classname", option: bufconfig.FileOptionJavaOuterClassname, other: bufconfig.FileOptionJavaPackage, tag: 8, values: []any{"OuterOne", "OuterTwo"},
			modify: ModifyJavaOuterClass, get: (*descriptorpb.FileOptions).GetJavaOuterClassname,
			set: func(o *descriptorpb.FileOptions, s string) { o.JavaOuterClassname = proto.String(s) },
			def: func(spec vr18FileSpec, _, _ string) string {
				base := strings.TrimSuffix(spec.path[strings.LastIndex(spec.path, "/")+1:], ".proto")
				return strings.ToUpper(base[:1]) + base[1:] + "Proto"
			}},
		// documented defaults: every package element capitalized, joined by ".", "\\" or "::"; the Objective-C prefix is
		// the initials of the unversioned package elements padded with X to three letters
		{name: "csharp_namespace", option: bufconfig.FileOptionCsharpNamespace, other: bufconfig.FileOptionJavaPackage, tag: 37, values: []any{"Ov.One", "Ov.Two"},
			modify: ModifyCsharpNamespace, get: (*descriptorpb.FileOptions).GetCsharpNamespace,
			set: func(o *descriptorpb.FileOptions, s string) { o.CsharpNamespace = proto.String(s) },
			def: func(spec vr18FileSpec, _, _ string) string { return strings.Join(vr18Capitalized(spec.pkg), ".") }},
		{name: "objc_class_prefix", option: bufconfig.FileOptionObjcClassPrefix, other: bufconfig.FileOptionJavaPackage, tag: 36, values: []any{"OVA", "OVB"},
			modify: ModifyObjcClassPrefix, get: (*descriptorpb.FileOptions).GetObjcClassPrefix,
			set: func(o *descriptorpb.FileOptions, s string) { o.ObjcClassPrefix = proto.String(s) },
			def: func(spec vr18FileSpec, _, _ string) string {
				parts := vr18Capitalized(spec.pkg)
				return parts[0][:1] + parts[1][:1] + "X" // acme.<x>.v1 -> A<X>X
			}},
		{name: "php_namespace", option: bufconfig.FileOptionPhpNamespace, other: bufconfig.FileOptionJavaPackage, tag: 41, values: []any{`Ov\\One`, `Ov\\Two`},
			modify: ModifyPhpNamespace, get: (*descriptorpb.FileOptions).GetPhpNamespace,
			set: func(o *descriptorpb.FileOptions, s string) { o.PhpNamespace = proto.String(s) },
			def: func(spec vr18FileSpec, _, _ string) string { return strings.Join(vr18Capitalized(spec.pkg), `\`) }},
		{name: "php_metadata_namespace", option: bufconfig.FileOptionPhpMetadataNamespace, other: bufconfig.FileOptionJavaPackage, tag: 44, values: []any{`Ov\\Meta`, `Ov\\Meta2`},
			modify: ModifyPhpMetadataNamespace, get: (*descriptorpb.FileOptions).GetPhpMetadataNamespace,
			set: func(o *descriptorpb.FileOptions, s string) { o.PhpMetadataNamespace = proto.String(s) },
			def: func(spec vr18FileSpec, _, _ string) string { return strings.Join(vr18Capitalized(spec.pkg), `\`) + `\GPBMetadata` }},
		{name: "ruby_package", option: bufconfig.FileOptionRubyPackage, other: bufconfig.FileOptionJavaPackage, tag: 45, values: []any{"Ov::One", "Ov::Two"},
			modify: ModifyRubyPackage, get: (*descriptorpb.FileOptions).GetRubyPackage,
			set: func(o *descriptorpb.FileOptions, s string) { o.RubyPackage = proto.String(s) },
			def: func(spec vr18FileSpec, _, _ string) string { return strings.Join(vr18Capitalized(spec.pkg), "::") }},
	}
}

func vr18Capitalized(pkg string) []string {
	var out []string
	for _, part := range strings.Split(pkg, ".") {
		out = append(out, strings.ToUpper(part[:1])+part[1:])
	}
	return out
}

// the value managed mode must put into the option of this file; "" = leave the file alone.
// Value, prefix and suffix rules: the latest matching value rule wins over everything before it; a prefix / suffix
// rule after it (or without it) composes the value from the package; without any rule the documented default applies.
func vr18Wanted(opt vr18Option, spec vr18FileSpec, disables []vr18Disable, overrides []vr18Override) string {
	if spec.path == vr18WKT || vr18Disabled(spec, opt.option, disables) {
		return ""
	}
	prefixUsable := opt.prefix != bufconfig.FileOptionUnspecified && !vr18Disabled(spec, opt.prefix, disables)
	suffixUsable := opt.suffix != bufconfig.FileOptionUnspecified && !vr18Disabled(spec, opt.suffix, disables)
	iv, ip, is := -1, -1, -1
	for i, o := range overrides {
		if !vr18Match(spec, o.path, o.module) {
			continue
		}
		switch {
		case o.fileOption == opt.option:
			iv = i
		case prefixUsable && o.fileOption == opt.prefix:
			ip = i
		case suffixUsable && o.fileOption == opt.suffix:
			is = i
		}
	}
	if iv >= 0 && iv > ip && iv > is {
		return fmt.Sprint(overrides[iv].value)
	}
	prefix, suffix := "", ""
	switch {
	case ip > iv:
		prefix = fmt.Sprint(overrides[ip].value)
	case iv < 0 && prefixUsable:
		prefix = "com" // documented default java_package_prefix
	}
	if is > iv {
		suffix = fmt.Sprint(overrides[is].value)
	}
	return opt.def(spec, prefix, suffix)
}

func vr18Expected(before *descriptorpb.FileDescriptorProto, opt vr18Option, wanted string) *descriptorpb.FileDescriptorProto {
	want := proto.Clone(before).(*descriptorpb.FileDescriptorProto)
	if wanted == "" || opt.get(want.GetOptions()) == wanted {
		return want
	}
	if want.Options == nil {
		want.Options = &descriptorpb.FileOptions{}
	}
	opt.set(want.Options, wanted)
	if want.SourceCodeInfo != nil {
		var kept []*descriptorpb.SourceCodeInfo_Location
		locs := want.SourceCodeInfo.Location
		for i := 0; i < len(locs); i++ {
			if i+1 < len(locs) && len(locs[i].Path) == 1 && locs[i].Path[0] == 8 && len(locs[i+1].Path) == 2 && locs[i+1].Path[0] == 8 && locs[i+1].Path[1] == opt.tag {
				i++
				continue
			}
			kept = append(kept, locs[i])
		}
		want.SourceCodeInfo.Location = kept
	}
	return want
}

func vr18Diff(want, got *descriptorpb.FileDescriptorProto) string {
	var parts []string
	if !proto.Equal(want.GetOptions(), got.GetOptions()) {
		parts = append(parts, fmt.Sprintf("file options are {%v}, expected {%v}", got.GetOptions(), want.GetOptions()))
	}
	paths := func(fd *descriptorpb.FileDescriptorProto) []string {
		var ps []string
		for _, l := range fd.GetSourceCodeInfo().GetLocation() {
			ps = append(ps, fmt.Sprint(l.Path))
		}
		return ps
	}
	if wp, gp := paths(want), paths(got); strings.Join(wp, "") != strings.Join(gp, "") {
		// multiset difference, in order
		count := map[string]int{}
		for _, p := range gp {
			count[p]++
		}
		var missing, extra []string
		for _, p := range wp {
			if count[p] > 0 {
				count[p]--
			} else {
				missing = append(missing, p)
			}
		}
		for _, p := range gp {
			if count[p] > 0 {
				count[p]--
				extra = append(extra, p)
			}
		}
		parts = append(parts, fmt.Sprintf("source-info locations: removed although their option was not rewritten %v, kept although their option was rewritten %v (expected locations: %s)", missing, extra, strings.Join(wp, "")))
	}
	w, g := proto.Clone(want).(*descriptorpb.FileDescriptorProto), proto.Clone(got).(*descriptorpb.FileDescriptorProto)
	w.Options, g.Options, w.SourceCodeInfo, g.SourceCodeInfo = nil, nil, nil, nil
	if !proto.Equal(w, g) {
		parts = append(parts, "messages/fields/imports differ from the input")
	}
	if len(parts) == 0 && !proto.Equal(want, got) {
		parts = append(parts, "descriptors differ")
	}
	return strings.Join(parts, "; ")
}

// ----- catalogues -----

var vr18RulePaths = []string{"", "a", "a/b", "a/b/x.proto", "ab", "a/b/x"}
var vr18RuleModules = []string{"", vr18One, vr18Two}

func vr18Disables(opt vr18Option) [][]vr18Disable {
	out := [][]vr18Disable{nil}
	for _, p := range vr18RulePaths {
		for _, m := range vr18RuleModules {
			for _, fo := range []bufconfig.FileOption{bufconfig.FileOptionUnspecified, opt.option, opt.other, opt.prefix, opt.suffix} {
				for _, fieldOption := range []bufconfig.FieldOption{bufconfig.FieldOptionUnspecified, bufconfig.FieldOptionJSType} {
					d := vr18Disable{p, m, fo, fieldOption}
					if _, ok := vr18Config(true, []vr18Disable{d}, nil); ok {
						out = append(out, []vr18Disable{d})
					}
				}
			}
		}
	}
	// two rules: the first does not apply, the second does (and the other way round)
	out = append(out,
		[]vr18Disable{{"ab", "", opt.other, bufconfig.FieldOptionUnspecified}, {"a", "", opt.option, bufconfig.FieldOptionUnspecified}},
		[]vr18Disable{{"a", "", bufconfig.FileOptionUnspecified, bufconfig.FieldOptionJSType}, {"", vr18Two, opt.option, bufconfig.FieldOptionUnspecified}},
	)
	return out
}

func vr18Overrides(opt vr18Option) [][]vr18Override {
	var singles []vr18Override
	for _, p := range []string{"", "a", "ab"} {
		for _, m := range []string{"", vr18One} {
			for _, val := range opt.values {
				singles = append(singles, vr18Override{p, m, opt.option, val})
			}
		}
	}
	if opt.prefix != bufconfig.FileOptionUnspecified {
		singles = append(singles, vr18Override{"", "", opt.prefix, opt.prefixVal}, vr18Override{"a", "", opt.prefix, opt.prefixVal})
	}
	if opt.suffix != bufconfig.FileOptionUnspecified {
		singles = append(singles, vr18Override{"", "", opt.suffix, opt.suffixVal}, vr18Override{"ab", "", opt.suffix, opt.suffixVal})
	}
	out := [][]vr18Override{nil}
	for _, a := range singles {
		out = append(out, []vr18Override{a})
	}
	for _, a := range singles {
		for _, b := range singles {
			out = append(out, []vr18Override{a, b})
		}
	}
	if opt.suffix != bufconfig.FileOptionUnspecified {
		// every order of a value, a prefix and a suffix rule that all match
		three := []vr18Override{{"", "", opt.option, opt.values[0]}, {"", "", opt.prefix, opt.prefixVal}, {"", "", opt.suffix, opt.suffixVal}}
		for _, perm := range [][3]int{{0, 1, 2}, {0, 2, 1}, {1, 0, 2}, {1, 2, 0}, {2, 0, 1}, {2, 1, 0}} {
			out = append(out, []vr18Override{three[perm[0]], three[perm[1]], three[perm[2]]})
		}
	}
	return out
}

// ----- families -----

func vr18Units(v *vr18, fn string) int {
	image, err := vr18Image()
	if err != nil {
		fmt.Printf("VERIF-REPLAY cannot build the image: %v\n", err)
		return 0
	}
	tried := 0
	opts := vr18Options()
	for i, spec := range vr18Files {
		file := image.Files()[i]
		if fn == "fileMatchConfig" {
			for _, p := range vr18RulePaths {
				for _, m := range vr18RuleModules {
					tried++
					if got, want := fileMatchConfig(file, p, m), vr18Match(spec, p, m); got != want {
						v.report("fileMatchConfig(file %q of module %q, rule path %q, rule module %q) = %v, documented %v (path-wise containment and exact module name; a file without a module matches no module-qualified rule)", spec.path, spec.module, p, m, got, want)
					}
				}
			}
			continue
		}
		for _, opt := range opts[:4] {
			if fn == "isFileOptionDisabledForFile" {
				for _, ds := range vr18Disables(opt) {
					cfg, ok := vr18Config(true, ds, nil)
					if !ok {
						continue
					}
					tried++
					if got, want := isFileOptionDisabledForFile(file, opt.option, cfg), vr18Disabled(spec, opt.option, ds); got != want {
						v.report("isFileOptionDisabledForFile(file %q of module %q, %s, disable rules %v) = %v, documented %v", spec.path, spec.module, opt.name, ds, got, want)
					}
				}
				continue
			}
			for _, os := range vr18Overrides(opt) {
				cfg, ok := vr18Config(true, nil, os)
				if !ok {
					continue
				}
				tried++
				last := vr18LastOverride(spec, os, opt.option)
				var got string
				var err error
				if opt.option == bufconfig.FileOptionOptimizeFor {
					var r *descriptorpb.FileOptions_OptimizeMode
					if r, err = overrideFromConfig[descriptorpb.FileOptions_OptimizeMode](file, cfg, opt.option); r != nil {
						got = r.String()
					}
				} else {
					var r *bool
					if r, err = overrideFromConfig[bool](file, cfg, opt.option); r != nil {
						got = fmt.Sprint(*r)
					}
				}
				want := ""
				if last != nil {
					want = fmt.Sprint(last.value)
				}
				if err != nil || got != want {
					v.report("overrideFromConfig(file %q of module %q, %s, override rules %v) = %q (err %v), documented %q (the last matching rule wins, \"\" = no override)", spec.path, spec.module, opt.name, os, got, err, want)
				}
			}
		}
	}
	return tried
}

func vr18Snapshot(image bufimage.Image) []*descriptorpb.FileDescriptorProto {
	var out []*descriptorpb.FileDescriptorProto
	for _, f := range image.Files() {
		out = append(out, proto.Clone(f.FileDescriptorProto()).(*descriptorpb.FileDescriptorProto))
	}
	return out
}

func vr18Single(v *vr18, only func(vr18Option) bool) int {
	tried := 0
	for _, opt := range vr18Options() {
		if !only(opt) {
			continue
		}
		disables := vr18Disables(opt)
		overrides := vr18Overrides(opt)
		run := func(enabled bool, ds []vr18Disable, os []vr18Override) {
			cfg, ok := vr18Config(enabled, ds, os)
			if !ok {
				return
			}
			image, err := vr18Image()
			if err != nil {
				return
			}
			tried++
			before := vr18Snapshot(image)
			input := fmt.Sprintf("managed mode enabled=%v disable=%v override=%v, Modify of %s", enabled, ds, os, opt.name)
			if err := opt.modify(image, cfg); err != nil {
				v.report("%s fails: %v", input, err)
				return
			}
			for i, spec := range vr18Files {
				wanted := ""
				if enabled {
					wanted = vr18Wanted(opt, spec, ds, os)
				}
				want := vr18Expected(before[i], opt, wanted)
				got := image.Files()[i].FileDescriptorProto()
				if !proto.Equal(want, got) {
					v.report("%s: file %q (module %q, %s before: %q): %s", input, spec.path, spec.module, opt.name, opt.get(before[i].GetOptions()), vr18Diff(want, got))
					return
				}
			}
		}
		run(false, nil, overrides[1])
		run(false, disables[1], overrides[len(overrides)-1])
		for _, ds := range disables {
			run(true, ds, nil)
			run(true, ds, overrides[1])
			run(true, ds, overrides[len(overrides)-1])
		}
		for _, os := range overrides {
			run(true, nil, os)
			run(true, disables[len(disables)-1], os)
		}
	}
	return tried
}

// full Modify: everything managed mode does not govern stays; the modelled options get the modelled values.
func vr18Full(v *vr18) int {
	tried := 0
	opts := vr18Options()
	type cfgCase struct {
		enabled bool
		ds      []vr18Disable
		os      []vr18Override
	}
	cases := []cfgCase{
		{false, nil, nil},
		{false, nil, []vr18Override{{"", "", bufconfig.FileOptionJavaPackage, "ov"}}},
		{true, nil, nil},
		{true, []vr18Disable{{"a", "", bufconfig.FileOptionUnspecified, bufconfig.FieldOptionUnspecified}}, nil},
		{true, []vr18Disable{{"", vr18Two, bufconfig.FileOptionUnspecified, bufconfig.FieldOptionUnspecified}}, nil},
		{true, []vr18Disable{{"", vr18One, bufconfig.FileOptionUnspecified, bufconfig.FieldOptionUnspecified}}, nil},
		{true, []vr18Disable{{"a", "", bufconfig.FileOptionUnspecified, bufconfig.FieldOptionJSType}}, nil},
		{true, []vr18Disable{{"ab", "", bufconfig.FileOptionJavaPackage, bufconfig.FieldOptionUnspecified}}, []vr18Override{{"", "", bufconfig.FileOptionOptimizeFor, "LITE_RUNTIME"}, {"a", "", bufconfig.FileOptionOptimizeFor, "CODE_SIZE"}}},
		{true, nil, []vr18Override{{"", "", bufconfig.FileOptionCcEnableArenas, false}, {"ab", "", bufconfig.FileOptionCcEnableArenas, true}, {"", "", bufconfig.FileOptionGoPackage, "example.com/all"}}},
	}
	clearGoverned := func(fd *descriptorpb.FileDescriptorProto) *descriptorpb.FileDescriptorProto {
		c := proto.Clone(fd).(*descriptorpb.FileDescriptorProto)
		c.SourceCodeInfo = nil
		if o := c.Options; o != nil {
			o.JavaPackage, o.JavaOuterClassname, o.JavaMultipleFiles, o.JavaStringCheckUtf8, o.OptimizeFor, o.GoPackage = nil, nil, nil, nil, nil, nil
			o.CcEnableArenas, o.ObjcClassPrefix, o.CsharpNamespace, o.PhpNamespace, o.PhpMetadataNamespace, o.RubyPackage = nil, nil, nil, nil, nil, nil
			if proto.Size(o) == 0 {
				c.Options = nil
			}
		}
		for _, m := range c.MessageType {
			for _, f := range m.Field {
				if f.Options != nil {
					f.Options.Jstype = nil
				}
			}
		}
		return c
	}
	for _, c := range cases {
		cfg, ok := vr18Config(c.enabled, c.ds, c.os)
		if !ok {
			continue
		}
		image, err := vr18Image()
		if err != nil {
			continue
		}
		tried++
		before := vr18Snapshot(image)
		input := fmt.Sprintf("managed mode enabled=%v disable=%v override=%v, Modify", c.enabled, c.ds, c.os)
		if err := Modify(image, cfg); err != nil {
			v.report("%s fails: %v", input, err)
			continue
		}
		for i, spec := range vr18Files {
			got := image.Files()[i].FileDescriptorProto()
			wholeFileDisabled := vr18Disabled(spec, bufconfig.FileOptionUnspecified+1000, c.ds) // a rule that names no option
			if !c.enabled || spec.path == vr18WKT || wholeFileDisabled {
				if !proto.Equal(before[i], got) {
					why := "managed mode is disabled"
					if c.enabled {
						why = "the file is a well-known type or exempted by a disable rule for the whole file"
					}
					v.report("%s: file %q (module %q) changed although %s: %s", input, spec.path, spec.module, why, vr18Diff(before[i], got))
				}
				continue
			}
			if !proto.Equal(clearGoverned(before[i]), clearGoverned(got)) {
				v.report("%s: file %q: something managed mode does not govern changed: %s", input, spec.path, vr18Diff(clearGoverned(before[i]), clearGoverned(got)))
				continue
			}
			for _, opt := range opts {
				wanted := vr18Wanted(opt, spec, c.ds, c.os)
				want := opt.get(before[i].GetOptions())
				if wanted != "" {
					want = wanted
				}
				if g := opt.get(got.GetOptions()); g != want {
					v.report("%s: file %q (module %q): %s is %q, documented %q (before: %q)", input, spec.path, spec.module, opt.name, g, want, opt.get(before[i].GetOptions()))
				}
			}
		}
	}
	return tried
}

// js_type: only an explicit field-option override rewrites it, only on 64-bit integer fields, never in files that
// a jstype (or whole-file) disable rule exempts, and nothing else changes.
func vr18JsType(v *vr18) int {
	tried := 0
	var disableSets [][]vr18Disable
	disableSets = append(disableSets, nil)
	for _, p := range vr18RulePaths {
		for _, m := range vr18RuleModules {
			for _, d := range []vr18Disable{
				{p, m, bufconfig.FileOptionUnspecified, bufconfig.FieldOptionJSType},
				{p, m, bufconfig.FileOptionUnspecified, bufconfig.FieldOptionUnspecified},
				{p, m, bufconfig.FileOptionJavaPackage, bufconfig.FieldOptionUnspecified},
			} {
				if _, ok := vr18Config(true, []vr18Disable{d}, nil); ok {
					disableSets = append(disableSets, []vr18Disable{d})
				}
			}
		}
	}
	for _, enabled := range []bool{true, false} {
		for _, ds := range disableSets {
			for _, ruleAt := range []struct{ path, module string }{{"", ""}, {"a", ""}, {"", vr18Two}, {"ab/y.proto", vr18One}} {
				cfg, ok := vr18Config(enabled, ds, nil)
				if !ok {
					continue
				}
				override, err := bufconfig.NewManagedOverrideRuleForFieldOption(ruleAt.path, ruleAt.module, "", bufconfig.FieldOptionJSType, "JS_STRING")
				if err != nil {
					continue
				}
				cfg = bufconfig.NewGenerateManagedConfig(enabled, cfg.Disables(), []bufconfig.ManagedOverrideRule{override})
				image, err := vr18Image()
				if err != nil {
					continue
				}
				tried++
				before := vr18Snapshot(image)
				input := fmt.Sprintf("managed mode enabled=%v disable=%v override=[{path %q module %q jstype=JS_STRING}], ModifyJsType", enabled, ds, ruleAt.path, ruleAt.module)
				if err := ModifyJsType(image, cfg); err != nil {
					v.report("%s fails: %v", input, err)
					continue
				}
				for i, spec := range vr18Files {
					exempt := false
					for _, d := range ds {
						if d.fileOption == bufconfig.FileOptionUnspecified && vr18Match(spec, d.path, d.module) {
							exempt = true // a jstype rule or a rule for the whole file
						}
					}
					want := proto.Clone(before[i]).(*descriptorpb.FileDescriptorProto)
					if enabled && spec.path != vr18WKT && !exempt && vr18Match(spec, ruleAt.path, ruleAt.module) {
						want.MessageType[0].Field[0].Options = &descriptorpb.FieldOptions{Jstype: descriptorpb.FieldOptions_JS_STRING.Enum()}
					}
					got := image.Files()[i].FileDescriptorProto()
					if !proto.Equal(want, got) {
						v.report("%s: file %q (module %q): field M.n (int64) options {%v}, field M.s (string) options {%v}; expected {%v} and {%v}; %s", input, spec.path, spec.module,
							got.MessageType[0].Field[0].GetOptions(), got.MessageType[0].Field[1].GetOptions(), want.MessageType[0].Field[0].GetOptions(), want.MessageType[0].Field[1].GetOptions(), vr18Diff(want, got))
						break
					}
				}
			}
		}
	}
	return tried
}

func TestVerifReplayC18(t *testing.T) {
	fn := os.Getenv("VERIF_REPLAY_FUNC")
	v := &vr18{}
	tried := 0
	all := func(vr18Option) bool { return true }
	isBool := func(o vr18Option) bool { return o.tag == 31 || o.tag == 10 || o.tag == 27 || o.tag == 9 }
	switch fn {
	case "fileMatchConfig", "isFileOptionDisabledForFile", "overrideFromConfig":
		tried += vr18Units(v, fn)
		if v.found == 0 {
			tried += vr18Single(v, all)
		}
	case "modifyFileOption":
		tried += vr18Single(v, isBool)
	case "modifyStringOption", "stringOverrideFromConfig":
		tried += vr18Single(v, func(o vr18Option) bool { return !isBool(o) })
	case "modifyImage", "Modify", "modifyImageForSingleOption":
		tried += vr18Full(v)
		tried += vr18Single(v, func(o vr18Option) bool { return o.tag == 31 || o.tag == 1 })
		tried += vr18JsType(v)
	case "modifyJsType", "ModifyJsType":
		tried += vr18JsType(v)
	case "modifyCcEnableArenas", "modifyJavaMultipleFiles", "modifyJavaStringCheckUtf8", "modifyOptimizeFor", "modifyJavaPackage", "modifyGoPackage", "modifyJavaOuterClass",
		"modifyCsharpNamespace", "modifyObjcClassPrefix", "modifyPhpNamespace", "modifyPhpMetadataNamespace", "modifyRubyPackage":
		key := strings.ToLower(strings.TrimPrefix(fn, "modify"))
		tried += vr18Single(v, func(o vr18Option) bool {
			return strings.HasPrefix(strings.ReplaceAll(o.name, "_", ""), key)
		})
	case "isPathForFileOption", "removeLocationsFromSourceCodeInfo", "Sweep", "Mark", "getPathType", "getPathKey", "file-options-field-number]",
		"insert", "registerDescendant", "indicesWithoutDescendant":
		// the mark-and-sweep of source locations (package internal) is observed through the rewrites that drive it
		tried += vr18Single(v, all)
		tried += vr18JsType(v)
	case "descriptor-proto-number]":
		// table obligations: every source-location path constant must be [FileDescriptorProto.options, FileOptions.<option>]
		// with the field numbers of descriptor.proto (taken here from the generated descriptor, not from the constants)
		optionsNumber := int32((&descriptorpb.FileDescriptorProto{}).ProtoReflect().Descriptor().Fields().ByName("options").Number())
		fields := (&descriptorpb.FileOptions{}).ProtoReflect().Descriptor().Fields()
		for _, c := range []struct {
			name  string
			path  []int32
			field string
		}{
			{"ccEnableArenasPath", ccEnableArenasPath, "cc_enable_arenas"}, {"csharpNamespacePath", csharpNamespacePath, "csharp_namespace"},
			{"goPackagePath", goPackagePath, "go_package"}, {"javaMultipleFilesPath", javaMultipleFilesPath, "java_multiple_files"},
			{"javaOuterClassnamePath", javaOuterClassnamePath, "java_outer_classname"}, {"javaPackagePath", javaPackagePath, "java_package"},
			{"javaStringCheckUtf8Path", javaStringCheckUtf8Path, "java_string_check_utf8"}, {"objcClassPrefixPath", objcClassPrefixPath, "objc_class_prefix"},
			{"optimizeForPath", optimizeForPath, "optimize_for"}, {"phpMetadataNamespacePath", phpMetadataNamespacePath, "php_metadata_namespace"},
			{"phpNamespacePath", phpNamespacePath, "php_namespace"}, {"rubyPackagePath", rubyPackagePath, "ruby_package"},
		} {
			if obl := os.Getenv("VERIF_REPLAY_OBLIGATION"); !strings.Contains(obl, "n_"+c.name+".") && strings.Contains(obl, "n_") {
				continue
			}
			tried++
			want := []int32{optionsNumber, int32(fields.ByName(protoreflect.Name(c.field)).Number())}
			if fmt.Sprint(c.path) != fmt.Sprint(want) {
				v.report("source-location path constant %s = %v, but descriptor.proto numbers FileDescriptorProto.options / FileOptions.%s as %v: rewriting %s would sweep the source info of another option", c.name, c.path, c.field, want, c.field)
			}
		}
		tried += vr18Single(v, all)
	default:
		fmt.Printf("VERIF-REPLAY no harness for %q\n", fn)
		return
	}
	if v.found == 0 {
		fmt.Printf("VERIF-REPLAY no failing input found for %s (%d inputs)\n", fn, tried)
	} else {
		fmt.Printf("VERIF-REPLAY %d failing inputs in total for %s (%d tried)\n", v.found, fn, tried)
	}
}
