package bufgen

// Replay / bounded contract run for the C17 obligations of package bufgen (injected with go test -overlay, never
// written into /repo): validateResponses over all pairs of plugin configs whose `out` is one of several spellings
// of two directories (relative, "./x", "x/", "x/../x", absolute) and whose responses carry up to two files drawn
// from a small set of names / insertion points.
// Oracle (property text "the same output path produced by two plugins is an error", with "the same output path" read
// as the response writer implements it: same output location = same absolute directory, same normalized name):
// the call fails exactly when two files that are not insertion points land on the same file.

import (
	"fmt"
	"os"
	"path/filepath"
	"strings"
	"testing"

	"github.com/bufbuild/buf/private/bufpkg/bufconfig"
	"github.com/bufbuild/buf/private/pkg/osext"
	"google.golang.org/protobuf/proto"
	"google.golang.org/protobuf/types/pluginpb"
)

func TestVerifReplayC17(t *testing.T) {
	fn := os.Getenv("VERIF_REPLAY_FUNC")
	if fn != "validateResponses" {
		fmt.Printf("VERIF-REPLAY no harness for %q\n", fn)
		return
	}
	dir := t.TempDir()
	if real, err := filepath.EvalSymlinks(dir); err == nil {
		dir = real
	}
	wd, _ := os.Getwd()
	defer osext.Chdir(wd)
	if err := osext.Chdir(dir); err != nil {
		t.Fatal(err)
	}
	outs := []string{"gen", "./gen", "gen/", "gen/../gen", filepath.Join(dir, "gen"), "gen2", filepath.Join(dir, "gen2")}
	type file struct {
		name string
		ip   *string
	}
	files := []file{{"x.go", nil}, {"./x.go", nil}, {"y.go", nil}, {"x.go", proto.String("p")}, {"x.go", proto.String("")}}
	var sets [][]file
	for i, a := range files {
		sets = append(sets, []file{a})
		for _, b := range files[i+1:] {
			sets = append(sets, []file{a, b})
		}
	}
	found, tried := 0, 0
	for _, o1 := range outs {
		for _, o2 := range outs {
			for _, s1 := range sets {
				for _, s2 := range sets {
					tried++
					var configs []bufconfig.GeneratePluginConfig
					var responses []*pluginpb.CodeGeneratorResponse
					seen := map[string]bool{}
					dup := ""
					var desc []string
					for i, p := range []struct {
						out string
						fs  []file
					}{{o1, s1}, {o2, s2}} {
						c, err := bufconfig.NewLocalGeneratePluginConfig(fmt.Sprintf("plugin%d", i), p.out, nil, false, false, nil, nil, nil, []string{"protoc-gen-x"})
						if err != nil {
							t.Fatal(err)
						}
						configs = append(configs, c)
						resp := &pluginpb.CodeGeneratorResponse{}
						var names []string
						abs, _ := filepath.Abs(p.out)
						for _, f := range p.fs {
							resp.File = append(resp.File, &pluginpb.CodeGeneratorResponse_File{Name: proto.String(f.name), InsertionPoint: f.ip, Content: proto.String("c")})
							n := f.name
							if f.ip != nil {
								n += fmt.Sprintf("(insertion_point:%q)", *f.ip)
							}
							names = append(names, n)
							if f.ip != nil && *f.ip != "" {
								continue
							}
							key := abs + "|" + filepath.Clean(f.name)
							if seen[key] && dup == "" {
								dup = filepath.Join(abs, filepath.Clean(f.name))
							}
							seen[key] = true
						}
						responses = append(responses, resp)
						desc = append(desc, fmt.Sprintf("plugin%d{out %q, files [%s]}", i, strings.Replace(p.out, dir, "$PWD", 1), strings.Join(names, ", ")))
					}
					err := validateResponses(responses, configs)
					switch {
					case dup != "" && err == nil:
						if found < 4 {
							fmt.Printf("VERIF-REPLAY FAILING-INPUT validateResponses(%s) = nil although both plugins produce %s (the response writer keeps ONE bucket per absolute output directory: the second file silently replaces the first)\n", strings.Join(desc, ", "), strings.Replace(dup, dir, "$PWD", 1))
						}
						found++
					case dup == "" && err != nil:
						if found < 4 {
							fmt.Printf("VERIF-REPLAY FAILING-INPUT validateResponses(%s) fails (%v) although no output file is produced twice\n", strings.Join(desc, ", "), err)
						}
						found++
					}
				}
			}
		}
	}
	if found == 0 {
		fmt.Printf("VERIF-REPLAY no failing input found for %s (%d config/response pairs)\n", fn, tried)
	} else {
		fmt.Printf("VERIF-REPLAY %d failing inputs in total for %s (%d tried)\n", found, fn, tried)
	}
}
