package bufworkspace

// Replay / bounded contract run for the C10 obligations of package bufworkspace; injected with go test -overlay.
//
// Inputs (all generated, in-memory buckets, paths relative to the bucket root):
//   - roots: every ordered list of up to three distinct roots out of {".", "a", "a/b", "c"} x five paths
//     (inside one root, inside two nested roots, inside none, a name that only shares a string prefix with a root);
//   - module targeting: module dir in {".", "m", "m/n", "k"} x root lists {["."], ["r"], ["r","s"], [".","r"]} x every set
//     of up to two --path values and up to two --exclude-path values out of pools that contain the module dir itself, paths
//     inside it (inside / outside a root), inside a nested module, inside another module and names that only share a
//     string prefix x tentatively-target yes/no; plus proto-file references;
//   - validation: input dir in {".", "a", "a/b"} x up to two --path and --exclude-path values out of
//     {"a", "a/b", "a/b/c", "d", "a/bc"} x proto-file reference yes/no;
//   - workspaces: v2 buf.yaml / v1 buf.work.yaml at the bucket root listing one of five module-directory lists
//     (single, siblings, nested deeper, shared parent) x input dir in {".", every module dir, their parents, a directory
//     that is no module, a directory inside a module} x --path / --exclude-path values naming a directory or a file
//     inside each module, inside no module, inside two modules; no workspace file at all; v1 workspace with the
//     "ignore buf.work.yaml" option;
//   - workspace provider: the same layouts with named modules, a declared dependency pinned in buf.lock and served by an
//     in-memory module-data provider.
//
// Oracle (from the C10 statement and the doc comments of workspace_targeting.go / module_targeting.go, computed with
// plain string operations on the planted paths - none of the code under test and no normalpath function is used):
// a path is "inside" a directory when the directory is "." (and the path is not) or the path starts with the
// directory followed by "/". A module of the workspace is considered (tentatively targeted) iff the input dir is the
// module dir or contains it. A considered module is a target iff no --path was given or some --path value lies inside
// the module dir; a non-target module gets no target paths and no exclude paths; a target module gets exactly the
// --path / --exclude-path values inside it, re-based first on the module dir and then on the single root that contains
// them (no such root or two such roots: error); a --path / --exclude-path value equal to the module dir, equal to the
// input dir, or an --exclude-path that is or contains a --path value is an error; when the input dir matches no module
// the result is an error; when no module is a target the result is ErrNoTargetProtoFiles; every module listed by the
// workspace file is part of the result (v1: every directory of buf.work.yaml, not only the input dir), dependencies pinned
// in buf.lock are added as remote non-target modules.

import (
	"bytes"
	"context"
	"errors"
	"fmt"
	"io"
	"log/slog"
	"os"
	"sort"
	"strings"
	"testing"

	"github.com/bufbuild/buf/private/buf/buftarget"
	"github.com/bufbuild/buf/private/bufpkg/bufconfig"
	"github.com/bufbuild/buf/private/bufpkg/bufmodule"
	"github.com/bufbuild/buf/private/bufpkg/bufmodule/bufmoduletesting"
	"github.com/bufbuild/buf/private/bufpkg/bufparse"
	"github.com/bufbuild/buf/private/bufpkg/bufplugin"
	"github.com/bufbuild/buf/private/pkg/normalpath"
	"github.com/bufbuild/buf/private/pkg/storage"
	"github.com/bufbuild/buf/private/pkg/storage/storagemem"
	"github.com/google/uuid"
)

var c10wLogger = slog.New(slog.NewTextHandler(io.Discard, nil))

type c10wFailure struct {
	tag  string
	text string
}

type c10wRun struct {
	failures []c10wFailure
	checked  int
}

func (r *c10wRun) fail(tag string, format string, a ...any) {
	r.failures = append(r.failures, c10wFailure{tag, fmt.Sprintf(format, a...)})
}

// ---- the independent path model

func c10wInside(dir string, p string) bool {
	if dir == "." {
		return p != "."
	}
	return strings.HasPrefix(p, dir+"/")
}

func c10wInsideOrEqual(dir string, p string) bool {
	return dir == p || c10wInside(dir, p)
}

func c10wRel(dir string, p string) string {
	if dir == "." {
		return p
	}
	return p[len(dir)+1:]
}

// c10wRoot re-bases p on the single root that contains it.
func c10wRoot(roots []string, p string) (string, bool) {
	count := 0
	result := ""
	for _, root := range roots {
		if c10wInside(root, p) {
			count++
			result = c10wRel(root, p)
		}
	}
	return result, count == 1
}

type c10wExpect struct {
	err      bool
	target   bool
	paths    []string
	excludes []string
	file     string
}

// c10wExpectTargeting is the documented outcome for one module.
func c10wExpectTargeting(moduleDir string, roots []string, paths []string, excludes []string, protoFile string, tentative bool) c10wExpect {
	if !tentative {
		return c10wExpect{}
	}
	if protoFile != "" {
		if len(paths) != 1 {
			return c10wExpect{err: true}
		}
		if !c10wInside(moduleDir, paths[0]) {
			return c10wExpect{}
		}
		file, ok := c10wRoot(roots, c10wRel(moduleDir, paths[0]))
		if !ok {
			return c10wExpect{err: true}
		}
		return c10wExpect{target: true, file: file}
	}
	e := c10wExpect{target: len(paths) == 0}
	for _, p := range paths {
		if p == moduleDir {
			return c10wExpect{err: true}
		}
		if c10wInside(moduleDir, p) {
			e.target = true
			rebased, ok := c10wRoot(roots, c10wRel(moduleDir, p))
			if !ok {
				return c10wExpect{err: true}
			}
			e.paths = append(e.paths, rebased)
		}
	}
	if e.target {
		for _, p := range excludes {
			if p == moduleDir {
				return c10wExpect{err: true}
			}
			if c10wInside(moduleDir, p) {
				rebased, ok := c10wRoot(roots, c10wRel(moduleDir, p))
				if !ok {
					return c10wExpect{err: true}
				}
				e.excludes = append(e.excludes, rebased)
			}
		}
	}
	return e
}

// c10wExpectValidation: is the combination of input dir, --path and --exclude-path values rejected?
func c10wExpectValidation(subDir string, paths []string, excludes []string, protoFile string) bool {
	if protoFile != "" && (len(paths) != 1 || len(excludes) > 0) {
		return true
	}
	for _, p := range paths {
		if p == subDir {
			return true
		}
		for _, x := range excludes {
			if c10wInsideOrEqual(x, p) {
				return true
			}
		}
	}
	for _, x := range excludes {
		if x == subDir {
			return true
		}
	}
	return false
}

// ---- fakes

type c10wBucketTargeting struct {
	buftarget.BucketTargeting // nil; supplies the unexported marker method
	workspace                 buftarget.ControllingWorkspace
	subDir                    string
	paths                     []string
	excludes                  []string
}

func (b *c10wBucketTargeting) ControllingWorkspace() buftarget.ControllingWorkspace {
	return b.workspace
}
func (b *c10wBucketTargeting) SubDirPath() string           { return b.subDir }
func (b *c10wBucketTargeting) TargetPaths() []string        { return b.paths }
func (b *c10wBucketTargeting) TargetExcludePaths() []string { return b.excludes }

func (b *c10wBucketTargeting) describe() string {
	return fmt.Sprintf("input dir %q, --path %q, --exclude-path %q", b.subDir, b.paths, b.excludes)
}

func c10wSubsets(pool []string, max int) [][]string {
	result := [][]string{nil}
	for i := range pool {
		result = append(result, []string{pool[i]})
	}
	if max >= 2 {
		for i := range pool {
			for j := range pool {
				if i != j && (i < j || max >= 3) {
					result = append(result, []string{pool[i], pool[j]})
				}
			}
		}
	}
	return result
}

func c10wSameSet(a []string, b []string) bool {
	x := append([]string(nil), a...)
	y := append([]string(nil), b...)
	sort.Strings(x)
	sort.Strings(y)
	return strings.Join(x, "\x00") == strings.Join(y, "\x00") && len(x) == len(y)
}

// ---- family: roots

func (r *c10wRun) familyRoots() {
	pool := []string{".", "a", "a/b", "c"}
	var rootLists [][]string
	for i := range pool {
		rootLists = append(rootLists, []string{pool[i]})
		for j := range pool {
			if j == i {
				continue
			}
			rootLists = append(rootLists, []string{pool[i], pool[j]})
			for k := range pool {
				if k == i || k == j {
					continue
				}
				rootLists = append(rootLists, []string{pool[i], pool[j], pool[k]})
			}
		}
	}
	rootLists = append(rootLists, nil)
	for _, roots := range rootLists {
		for _, p := range []string{"a/x.proto", "a/b/x.proto", "c/d/e", "z/y", "ab/x.proto"} {
			r.checked++
			got, err := applyRootsToTargetPath(roots, p, normalpath.Relative)
			count := 0
			want := ""
			for _, root := range roots {
				if c10wInside(root, p) {
					count++
					want = c10wRel(root, p)
				}
			}
			switch {
			case count == 0 && (err == nil || got != ""):
				r.fail("no-root-is-error", "applyRootsToTargetPath(roots=%q, path=%q) = %q, %v; want an error: no root contains the path", roots, p, got, err)
			case count >= 2 && (err == nil || got != ""):
				r.fail("two-roots-is-error", "applyRootsToTargetPath(roots=%q, path=%q) = %q, %v; want an error: %d roots contain the path", roots, p, got, err, count)
			case count == 1 && (err != nil || got != want):
				r.fail("single-root-rebased success-means-single-root", "applyRootsToTargetPath(roots=%q, path=%q) = %q, %v; want %q (the path relative to the only root that contains it)", roots, p, got, err, want)
			}
		}
	}
}

// ---- family: module targeting

func (r *c10wRun) compareTargeting(call string, got *moduleTargeting, err error, want c10wExpect, moduleDir string) {
	if want.err {
		if err == nil {
			r.fail("path-equal-to-module-dir-rejected exclude-equal-to-module-dir-rejected no-path-equals-module-dir no-exclude-equals-module-dir",
				"%s = (target=%v paths=%q excludes=%q), nil; want an error", call, got.isTargetModule, got.moduleTargetPaths, got.moduleTargetExcludePaths)
		} else if got != nil {
			r.fail("failure-gives-nil", "%s returned both a result and the error %v", call, err)
		}
		return
	}
	if err != nil {
		r.fail("paths-from-inside inside-paths-kept every-inside-path-rebased excludes-from-inside both-or-error", "%s failed: %v; want target=%v paths=%q excludes=%q", call, err, want.target, want.paths, want.excludes)
		return
	}
	if got == nil {
		r.fail("fresh both-or-error", "%s = nil, nil", call)
		return
	}
	if got.moduleDirPath != moduleDir {
		r.fail("fresh both-or-error", "%s: moduleDirPath = %q; want %q", call, got.moduleDirPath, moduleDir)
	}
	if got.isTargetModule != want.target {
		r.fail("target-iff-path-inside target-iff-some-path-inside target-decision non-target-gets-no-targeting no-paths-targets-whole-module tentative-iff-in-input",
			"%s: isTargetModule = %v; want %v (paths=%q excludes=%q)", call, got.isTargetModule, want.target, got.moduleTargetPaths, got.moduleTargetExcludePaths)
	}
	if !c10wSameSet(got.moduleTargetPaths, want.paths) {
		r.fail("paths-from-inside inside-paths-kept module-paths-only-from-inside every-inside-path-rebased paths-only-for-targets non-target-no-paths non-target-gets-no-targeting",
			"%s: module target paths = %q; want %q", call, got.moduleTargetPaths, want.paths)
	}
	if !c10wSameSet(got.moduleTargetExcludePaths, want.excludes) {
		r.fail("excludes-only-for-targets excludes-from-inside inside-excludes-kept module-excludes-only-from-inside every-inside-exclude-rebased no-excludes-yet non-target-gets-no-targeting",
			"%s: module exclude paths = %q; want %q (isTargetModule=%v)", call, got.moduleTargetExcludePaths, want.excludes, got.isTargetModule)
	}
	if got.moduleProtoFileTargetPath != want.file {
		r.fail("paths-only-for-targets non-target-gets-no-targeting", "%s: module proto file target path = %q; want %q", call, got.moduleProtoFileTargetPath, want.file)
	}
}

func (r *c10wRun) familyModuleTargeting() {
	pathPool := []string{"m", "m/r/a.proto", "m/n/r/b", "k/r/c", "mm/x", "r/x", "m/s/d"}
	excludePool := []string{"m/r/ex", "k/s/ex", "m", "m/n/r/ex", "r/ex"}
	for _, moduleDir := range []string{".", "m", "m/n", "k"} {
		for _, roots := range [][]string{{"."}, {"r"}, {"r", "s"}, {".", "r"}} {
			for _, paths := range c10wSubsets(pathPool, 2) {
				for _, excludes := range c10wSubsets(excludePool, 2) {
					for _, tentative := range []bool{true, false} {
						r.checked++
						bt := &c10wBucketTargeting{subDir: ".", paths: paths, excludes: excludes}
						got, err := newModuleTargeting(moduleDir, roots, bt, &workspaceBucketConfig{}, tentative)
						want := c10wExpectTargeting(moduleDir, roots, paths, excludes, "", tentative)
						call := fmt.Sprintf("newModuleTargeting(moduleDirPath=%q, roots=%q, --path %q, --exclude-path %q, isTentativelyTargetModule=%v)", moduleDir, roots, paths, excludes, tentative)
						r.compareTargeting(call, got, err, want, moduleDir)
					}
				}
			}
			for _, file := range []string{"m/r/a.proto", "m/n/r/b.proto", "k/r/c.proto", "mm/x.proto"} {
				for _, tentative := range []bool{true, false} {
					r.checked++
					bt := &c10wBucketTargeting{subDir: ".", paths: []string{file}}
					got, err := newModuleTargeting(moduleDir, roots, bt, &workspaceBucketConfig{protoFileTargetPath: file}, tentative)
					want := c10wExpectTargeting(moduleDir, roots, []string{file}, nil, file, tentative)
					call := fmt.Sprintf("newModuleTargeting(moduleDirPath=%q, roots=%q, proto file reference %q, isTentativelyTargetModule=%v)", moduleDir, roots, file, tentative)
					r.compareTargeting(call, got, err, want, moduleDir)
				}
			}
		}
	}
}

// ---- family: validation

func (r *c10wRun) familyValidate() {
	pool := []string{"a", "a/b", "a/b/c", "d", "a/bc"}
	for _, subDir := range []string{".", "a", "a/b"} {
		for _, paths := range c10wSubsets(pool, 2) {
			for _, excludes := range c10wSubsets(pool, 3) {
				for _, protoFile := range []string{"", "a/b/c"} {
					r.checked++
					bt := &c10wBucketTargeting{subDir: subDir, paths: paths, excludes: excludes}
					err := validateBucketTargeting(bt, protoFile)
					want := c10wExpectValidation(subDir, paths, excludes, protoFile)
					if want && err == nil {
						r.fail("path-equal-to-input-rejected exclude-equal-to-input-rejected exclude-covering-path-rejected file-target-needs-one-path-no-excludes",
							"validateBucketTargeting(%s, proto file reference %q) = nil; want an error (a --path/--exclude-path value equals the input dir, or an --exclude-path value is or contains a --path value)", bt.describe(), protoFile)
					}
					if !want && err != nil {
						r.fail("otherwise-accepted", "validateBucketTargeting(%s, proto file reference %q) = %v; want nil", bt.describe(), protoFile, err)
					}
				}
			}
		}
	}
}

// ---- family: workspaces

type c10wLayout struct {
	kind       string // "v2", "v1" (buf.work.yaml), "none"
	moduleDirs []string
	names      map[string]string // module dir -> full name (provider family)
	dep        string            // full name of a dependency declared by the first module / the workspace
}

func (l *c10wLayout) describe() string {
	switch l.kind {
	case "v2":
		return fmt.Sprintf("v2 buf.yaml at \".\" with modules %q", l.moduleDirs)
	case "v1":
		return fmt.Sprintf("buf.work.yaml at \".\" with directories %q", l.moduleDirs)
	}
	return "no workspace file"
}

func (l *c10wLayout) files() map[string][]byte {
	data := map[string][]byte{}
	for i, dir := range l.moduleDirs {
		imp := ""
		if l.dep != "" && i == 0 {
			imp = "import \"dep/dep.proto\";\n"
		}
		data[dir+"/p/f.proto"] = []byte(fmt.Sprintf("syntax = \"proto3\";\npackage m%d.p;\n%s", i, imp))
		data[dir+"/q/g.proto"] = []byte(fmt.Sprintf("syntax = \"proto3\";\npackage m%d.q;\n", i))
	}
	data["other/p/f.proto"] = []byte("syntax = \"proto3\";\npackage other.p;\n")
	switch l.kind {
	case "v2":
		var b strings.Builder
		b.WriteString("version: v2\nmodules:\n")
		for _, dir := range l.moduleDirs {
			fmt.Fprintf(&b, "  - path: %s\n", dir)
			if name := l.names[dir]; name != "" {
				fmt.Fprintf(&b, "    name: %s\n", name)
			}
		}
		if l.dep != "" {
			fmt.Fprintf(&b, "deps:\n  - %s\n", l.dep)
		}
		data["buf.yaml"] = []byte(b.String())
	case "v1":
		var b strings.Builder
		b.WriteString("version: v1\ndirectories:\n")
		for _, dir := range l.moduleDirs {
			fmt.Fprintf(&b, "  - %s\n", dir)
		}
		data["buf.work.yaml"] = []byte(b.String())
		for _, dir := range l.moduleDirs {
			if name := l.names[dir]; name != "" {
				data[dir+"/buf.yaml"] = []byte(fmt.Sprintf("version: v1\nname: %s\n", name))
			}
		}
	}
	return data
}

func (l *c10wLayout) controllingWorkspace(data map[string][]byte) (buftarget.ControllingWorkspace, bufconfig.BufYAMLFile, error) {
	switch l.kind {
	case "v2":
		file, err := bufconfig.ReadBufYAMLFile(bytes.NewReader(data["buf.yaml"]), "buf.yaml")
		if err != nil {
			return nil, nil, err
		}
		return buftarget.NewControllingWorkspace(".", nil, file), file, nil
	case "v1":
		file, err := bufconfig.ReadBufWorkYAMLFile(bytes.NewReader(data["buf.work.yaml"]), "buf.work.yaml")
		if err != nil {
			return nil, nil, err
		}
		return buftarget.NewControllingWorkspace(".", file, nil), nil, nil
	}
	return nil, nil, nil
}

type c10wWorkspaceExpect struct {
	err          bool
	noTargetErr  bool // the error is ErrNoTargetProtoFiles
	moduleDirs   []string
	perModule    []c10wExpect
	anyTentative bool
}

func c10wExpectWorkspace(moduleDirs []string, subDir string, paths []string, excludes []string, validate bool) c10wWorkspaceExpect {
	if validate && c10wExpectValidation(subDir, paths, excludes, "") {
		return c10wWorkspaceExpect{err: true}
	}
	w := c10wWorkspaceExpect{moduleDirs: moduleDirs}
	anyTarget := false
	for _, dir := range moduleDirs {
		tentative := c10wInsideOrEqual(subDir, dir)
		if tentative {
			w.anyTentative = true
		}
		e := c10wExpectTargeting(dir, []string{"."}, paths, excludes, "", tentative)
		if e.err {
			return c10wWorkspaceExpect{err: true}
		}
		if e.target {
			anyTarget = true
		}
		w.perModule = append(w.perModule, e)
	}
	if !w.anyTentative {
		return c10wWorkspaceExpect{err: true}
	}
	if !anyTarget {
		return c10wWorkspaceExpect{err: true, noTargetErr: true}
	}
	return w
}

func (r *c10wRun) compareWorkspaceTargeting(ctx context.Context, call string, got []*moduleBucketAndModuleTargeting, err error, want c10wWorkspaceExpect) {
	if want.err {
		if err == nil {
			tag := "path-equal-to-module-dir-rejected always-an-error input-matches-no-module"
			why := "the input dir matches no module of the workspace, or a --path/--exclude-path value is not allowed"
			if want.noTargetErr {
				tag = "no-target-module-is-error"
				why = "no module of the workspace is targeted by the --path values: ErrNoTargetProtoFiles"
			}
			var parts []string
			for _, m := range got {
				parts = append(parts, fmt.Sprintf("%s(target=%v)", m.moduleTargeting.moduleDirPath, m.moduleTargeting.isTargetModule))
			}
			r.fail(tag, "%s succeeded with modules [%s]; want an error (%s)", call, strings.Join(parts, " "), why)
		} else if want.noTargetErr && !errors.Is(err, bufmodule.ErrNoTargetProtoFiles) {
			r.fail("no-target-module-is-error", "%s failed with %v; want ErrNoTargetProtoFiles", call, err)
		}
		return
	}
	if err != nil {
		r.fail("tentative-iff-in-input v1-controlling-workspace target-decision", "%s failed: %v; want modules %q", call, err, want.moduleDirs)
		return
	}
	var gotDirs []string
	for _, m := range got {
		gotDirs = append(gotDirs, m.moduleTargeting.moduleDirPath)
	}
	if strings.Join(gotDirs, "\x00") != strings.Join(want.moduleDirs, "\x00") {
		r.fail("v1-controlling-workspace v2-controlling-workspace one-entry-per-module every-module-listed", "%s: modules in the result = %q; want %q (every module listed by the workspace file, in order)", call, gotDirs, want.moduleDirs)
		return
	}
	ids := map[string]bool{}
	for i, m := range got {
		if ids[m.bucketID] {
			r.fail("bucket-ids-unique", "%s: bucket ID %q used twice", call, m.bucketID)
		}
		ids[m.bucketID] = true
		r.compareTargeting(call+" module "+want.moduleDirs[i], m.moduleTargeting, nil, want.perModule[i], want.moduleDirs[i])
		if _, statErr := m.bucket.Stat(ctx, "p/f.proto"); statErr != nil {
			r.fail("both-or-error mapped-bucket", "%s: module %q: its bucket has no p/f.proto (%v)", call, want.moduleDirs[i], statErr)
		}
		if _, statErr := m.bucket.Stat(ctx, want.moduleDirs[i]+"/p/f.proto"); statErr == nil {
			r.fail("both-or-error mapped-bucket", "%s: module %q: its bucket is not re-based on the module dir", call, want.moduleDirs[i])
		}
	}
}

func c10wParents(dirs []string) []string {
	seen := map[string]bool{}
	var result []string
	for _, dir := range dirs {
		for i := range dir {
			if dir[i] == '/' && !seen[dir[:i]] {
				seen[dir[:i]] = true
				result = append(result, dir[:i])
			}
		}
	}
	return result
}

func c10wTargetChoices(moduleDirs []string) [][2][]string {
	choices := [][2][]string{{nil, nil}, {{"other/p"}, nil}, {nil, {"other/p"}}}
	for i, dir := range moduleDirs {
		choices = append(choices,
			[2][]string{{dir + "/p"}, nil},
			[2][]string{{dir + "/p/f.proto"}, nil},
			[2][]string{{dir}, nil},
			[2][]string{nil, {dir + "/q"}},
			[2][]string{nil, {dir}},
			[2][]string{{dir + "/p"}, {dir + "/p/f.proto"}},
			[2][]string{{dir + "/p"}, {dir + "/q", "other/p"}},
			[2][]string{{dir + "/p/f.proto"}, {dir + "/p"}},
			[2][]string{{dir + "/p", "other/p"}, nil},
		)
		if i > 0 {
			choices = append(choices,
				[2][]string{{moduleDirs[0] + "/p", dir + "/q"}, nil},
				[2][]string{{moduleDirs[0] + "/p"}, {dir + "/q"}},
			)
		}
	}
	return choices
}

var c10wModuleDirLists = [][]string{{"a"}, {"a", "b"}, {"a", "c/d"}, {"b", "a", "c/d"}, {"x/a", "x/b", "y"}}

func (r *c10wRun) familyWorkspaces(ctx context.Context, fn string) {
	config := &workspaceBucketConfig{}
	for _, kind := range []string{"v2", "v1"} {
		for _, moduleDirs := range c10wModuleDirLists {
			layout := &c10wLayout{kind: kind, moduleDirs: moduleDirs}
			data := layout.files()
			bucket, err := storagemem.NewReadBucket(data)
			if err != nil {
				fmt.Printf("VERIF-REPLAY harness error: %v\n", err)
				return
			}
			// both workspace files present their module directories sorted by path
			moduleDirs = append([]string(nil), moduleDirs...)
			sort.Strings(moduleDirs)
			controllingWorkspace, bufYAMLFile, err := layout.controllingWorkspace(data)
			if err != nil {
				fmt.Printf("VERIF-REPLAY harness error: %v\n", err)
				return
			}
			subDirs := append([]string{"."}, moduleDirs...)
			subDirs = append(subDirs, c10wParents(moduleDirs)...)
			subDirs = append(subDirs, "other", moduleDirs[0]+"/p")
			for _, subDir := range subDirs {
				for _, choice := range c10wTargetChoices(moduleDirs) {
					r.checked++
					bt := &c10wBucketTargeting{workspace: controllingWorkspace, subDir: subDir, paths: choice[0], excludes: choice[1]}
					// through newWorkspaceTargeting (validation first)
					want := c10wExpectWorkspace(moduleDirs, subDir, choice[0], choice[1], true)
					got, err := newWorkspaceTargeting(ctx, c10wLogger, config, bucket, bt, nil, false)
					call := fmt.Sprintf("newWorkspaceTargeting(%s; %s)", layout.describe(), bt.describe())
					r.compareWorkspaceTargeting(ctx, call, c10wModules(got, kind, r, call), err, want)
					// the version-specific function directly (no validation step)
					want = c10wExpectWorkspace(moduleDirs, subDir, choice[0], choice[1], false)
					if kind == "v2" {
						got, err = v2WorkspaceTargeting(ctx, config, bucket, bt, bufYAMLFile, true)
						call = fmt.Sprintf("v2WorkspaceTargeting(%s; %s)", layout.describe(), bt.describe())
					} else {
						got, err = v1WorkspaceTargeting(ctx, config, bucket, bt, moduleDirs, nil)
						call = fmt.Sprintf("v1WorkspaceTargeting(moduleDirPaths=%q; %s)", moduleDirs, bt.describe())
					}
					r.compareWorkspaceTargeting(ctx, call, c10wModules(got, kind, r, call), err, want)
				}
				if kind == "v1" {
					// buf.work.yaml ignored: only the module at the input dir; the workspace root itself is refused
					r.checked++
					bt := &c10wBucketTargeting{workspace: controllingWorkspace, subDir: subDir}
					got, err := newWorkspaceTargeting(ctx, c10wLogger, config, bucket, bt, nil, true)
					call := fmt.Sprintf("newWorkspaceTargeting(%s; %s; buf.work.yaml ignored and disallowed)", layout.describe(), bt.describe())
					var want c10wWorkspaceExpect
					if subDir == "." {
						want = c10wWorkspaceExpect{err: true}
					} else {
						want = c10wExpectWorkspace([]string{subDir}, subDir, nil, nil, true)
					}
					if subDir == "." || c10wHas(moduleDirs, subDir) {
						r.compareWorkspaceTargeting(ctx, call, c10wModules(got, kind, r, call), err, want)
					}
				}
			}
		}
	}
	// no workspace file: the input dir is the only (v1) module
	for _, subDir := range []string{".", "a", "c/d"} {
		for _, choice := range [][2][]string{{nil, nil}, {{"a/p"}, nil}, {{"c/d/p/f.proto"}, nil}, {nil, {"a/q"}}} {
			layout := &c10wLayout{kind: "none", moduleDirs: []string{"a", "c/d"}}
			bucket, err := storagemem.NewReadBucket(layout.files())
			if err != nil {
				return
			}
			r.checked++
			bt := &c10wBucketTargeting{subDir: subDir, paths: choice[0], excludes: choice[1]}
			got, err := newWorkspaceTargeting(ctx, c10wLogger, config, bucket, bt, nil, false)
			call := fmt.Sprintf("newWorkspaceTargeting(%s; %s)", layout.describe(), bt.describe())
			want := c10wExpectWorkspace([]string{subDir}, subDir, choice[0], choice[1], true)
			if subDir == "." {
				continue // the module bucket of "." has no p/f.proto; the decision is covered by the other input dirs
			}
			r.compareWorkspaceTargeting(ctx, call, c10wModules(got, "v1", r, call), err, want)
		}
	}
}

func c10wHas(list []string, s string) bool {
	for _, e := range list {
		if e == s {
			return true
		}
	}
	return false
}

func c10wModules(w *workspaceTargeting, kind string, r *c10wRun, call string) []*moduleBucketAndModuleTargeting {
	if w == nil {
		return nil
	}
	if (w.v1 != nil) == (w.v2 != nil) {
		r.fail("exactly-one-version", "%s: result has v1 set: %v, v2 set: %v; want exactly one", call, w.v1 != nil, w.v2 != nil)
		return nil
	}
	if w.v2 != nil {
		if kind != "v2" {
			r.fail("v1-controlling-workspace exactly-one-version", "%s: result is a v2 workspace; want v1", call)
		}
		return w.v2.moduleBucketsAndTargeting
	}
	if kind != "v1" {
		r.fail("v2-controlling-workspace exactly-one-version", "%s: result is a v1 workspace; want v2", call)
	}
	return w.v1.moduleBucketsAndTargeting
}

// ---- family: getMappedModuleBucketAndModuleTargeting directly

func (r *c10wRun) familyMapped(ctx context.Context) {
	layout := &c10wLayout{kind: "v2", moduleDirs: []string{"a", "c/d"}}
	data := layout.files()
	bucket, err := storagemem.NewReadBucket(data)
	if err != nil {
		return
	}
	_, bufYAMLFile, err := layout.controllingWorkspace(data)
	if err != nil {
		fmt.Printf("VERIF-REPLAY harness error: %v\n", err)
		return
	}
	for i, moduleConfig := range bufYAMLFile.ModuleConfigs() {
		moduleDir := layout.moduleDirs[i]
		for _, choice := range c10wTargetChoices(layout.moduleDirs) {
			for _, isTarget := range []bool{true, false} {
				r.checked++
				bt := &c10wBucketTargeting{subDir: ".", paths: choice[0], excludes: choice[1]}
				moduleBucket, got, err := getMappedModuleBucketAndModuleTargeting(ctx, &workspaceBucketConfig{}, bucket, bt, moduleDir, moduleConfig, isTarget, false)
				want := c10wExpectTargeting(moduleDir, []string{"."}, choice[0], choice[1], "", isTarget)
				call := fmt.Sprintf("getMappedModuleBucketAndModuleTargeting(moduleDirPath=%q, %s, isTargetModule=%v)", moduleDir, bt.describe(), isTarget)
				r.compareTargeting(call, got, err, want, moduleDir)
				if err == nil && moduleBucket == nil {
					r.fail("both-or-error", "%s: nil bucket without an error", call)
				}
			}
		}
	}
}

// ---- family: checkForOverlap

func (r *c10wRun) familyOverlap(ctx context.Context) {
	layout := &c10wLayout{kind: "v2", moduleDirs: []string{"a", "c/d"}}
	bucket, err := storagemem.NewReadBucket(layout.files())
	if err != nil {
		return
	}
	for _, input := range []string{"other", "a/p", "c", "c/d/p", "zz"} {
		for _, moduleDirs := range [][]string{{"a"}, {"a", "c/d"}, {"c/d"}, nil} {
			r.checked++
			if err := checkForOverlap(ctx, bucket, input, moduleDirs); err == nil {
				r.fail("always-an-error", "checkForOverlap(inputPath=%q, moduleDirPaths=%q) = nil; want an error (it is only called when the input matches no module)", input, moduleDirs)
			}
		}
	}
}

// ---- family: bucket IDs

func (r *c10wRun) familyBucketIDs() {
	for _, dirs := range [][]string{{"a"}, {"a", "b"}, {"a", "a"}, {"a", "b", "a"}, {"a", "a", "a"}, nil} {
		for _, suffix := range []bool{false, true} {
			r.checked++
			got := bucketIDsForDirPaths(dirs, suffix)
			if len(got) != len(dirs) {
				r.fail("one-per-module", "bucketIDsForDirPaths(%q, %v) = %q; want one ID per module dir", dirs, suffix, got)
				continue
			}
			seen := map[string]bool{}
			first := map[string]bool{}
			for i, id := range got {
				if seen[id] {
					r.fail("one-per-module", "bucketIDsForDirPaths(%q, %v) = %q; ID %q is used twice", dirs, suffix, got, id)
				}
				seen[id] = true
				if !suffix && !first[dirs[i]] && id != dirs[i] {
					r.fail("unsuffixed-first", "bucketIDsForDirPaths(%q, false) = %q; want the first module at %q to keep the plain dir path as its ID", dirs, got, dirs[i])
				}
				first[dirs[i]] = true
			}
		}
	}
}

// ---- family: the workspace provider

func (r *c10wRun) familyProvider(ctx context.Context) {
	const depName = "buf.testing/acme/dep"
	depCommitID := uuid.MustParse("0f1e2d3c-4b5a-4978-8695-a4b3c2d1e0f1")
	omni, err := bufmoduletesting.NewOmniProvider(bufmoduletesting.ModuleData{
		Name:       depName,
		CommitID:   depCommitID,
		PathToData: map[string][]byte{"dep/dep.proto": []byte("syntax = \"proto3\";\npackage dep;\n")},
	})
	if err != nil {
		fmt.Printf("VERIF-REPLAY harness error: omni provider: %v\n", err)
		return
	}
	depRef, err := bufparse.NewRef("buf.testing", "acme", "dep", "")
	if err != nil {
		fmt.Printf("VERIF-REPLAY harness error: %v\n", err)
		return
	}
	depKeys, err := omni.GetModuleKeysForModuleRefs(ctx, []bufparse.Ref{depRef}, bufmodule.DigestTypeB5)
	if err != nil {
		fmt.Printf("VERIF-REPLAY harness error: module key: %v\n", err)
		return
	}
	provider := NewWorkspaceProvider(c10wLogger, omni, omni, omni, bufplugin.NopPluginKeyProvider)
	for _, kind := range []string{"v2", "v1"} {
		for _, moduleDirs := range [][]string{{"a", "b"}, {"a", "c/d"}} {
			for _, withLock := range []bool{true, false} {
				if kind == "v1" && withLock {
					continue
				}
				layout := &c10wLayout{kind: kind, moduleDirs: moduleDirs, names: map[string]string{}}
				for i, dir := range moduleDirs {
					layout.names[dir] = fmt.Sprintf("buf.testing/acme/m%d", i)
				}
				if withLock {
					layout.dep = depName
				}
				data := layout.files()
				readWriteBucket := storagemem.NewReadWriteBucket()
				for path, content := range data {
					if err := storage.PutPath(ctx, readWriteBucket, path, content); err != nil {
						fmt.Printf("VERIF-REPLAY harness error: %v\n", err)
						return
					}
				}
				if withLock {
					lockFile, err := bufconfig.NewBufLockFile(bufconfig.FileVersionV2, depKeys, nil)
					if err != nil {
						fmt.Printf("VERIF-REPLAY harness error: buf.lock: %v\n", err)
						return
					}
					if err := bufconfig.PutBufLockFileForPrefix(ctx, readWriteBucket, ".", lockFile); err != nil {
						fmt.Printf("VERIF-REPLAY harness error: buf.lock: %v\n", err)
						return
					}
				}
				controllingWorkspace, _, err := layout.controllingWorkspace(data)
				if err != nil {
					fmt.Printf("VERIF-REPLAY harness error: %v\n", err)
					return
				}
				lockText := ""
				if withLock {
					lockText = fmt.Sprintf(", deps [%s] pinned in buf.lock", depName)
				}
				for _, subDir := range append([]string{"."}, moduleDirs...) {
					for _, choice := range [][2][]string{{nil, nil}, {{moduleDirs[0] + "/p"}, nil}, {{moduleDirs[1] + "/q/g.proto"}, nil}, {nil, {moduleDirs[0] + "/q"}}} {
						r.checked++
						bt := &c10wBucketTargeting{workspace: controllingWorkspace, subDir: subDir, paths: choice[0], excludes: choice[1]}
						want := c10wExpectWorkspace(moduleDirs, subDir, choice[0], choice[1], true)
						workspace, err := provider.GetWorkspaceForBucket(ctx, readWriteBucket, bt)
						call := fmt.Sprintf("GetWorkspaceForBucket(%s%s; %s)", layout.describe(), lockText, bt.describe())
						if want.err {
							if err == nil {
								r.fail("no-target-module-is-error", "%s succeeded; want an error", call)
							}
							continue
						}
						if err != nil {
							r.fail("every-pinned-key-added added-local-with-decision", "%s failed: %v", call, err)
							continue
						}
						if workspace.IsV2() != (kind == "v2") {
							r.fail("is-v2", "%s: IsV2() = %v", call, workspace.IsV2())
						}
						for i, dir := range moduleDirs {
							module := workspace.GetModuleForOpaqueID(layout.names[dir])
							if module == nil {
								r.fail("added-local-with-decision one-entry-per-module", "%s: the workspace has no module %s (module dir %q)", call, layout.names[dir], dir)
								continue
							}
							if !module.IsLocal() {
								r.fail("added-local-with-decision", "%s: module %s (dir %q) is not local", call, layout.names[dir], dir)
							}
							if module.IsTarget() != want.perModule[i].target {
								r.fail("added-local-with-decision target-decision", "%s: module %s (dir %q): IsTarget() = %v; want %v", call, layout.names[dir], dir, module.IsTarget(), want.perModule[i].target)
							}
						}
						dep := workspace.GetModuleForOpaqueID(depName)
						if withLock {
							if dep == nil {
								r.fail("every-pinned-key-added", "%s: the dependency pinned in buf.lock is not a module of the workspace (modules: %s)", call, c10wOpaqueIDs(workspace))
							} else {
								if dep.IsTarget() {
									r.fail("pinned-never-target", "%s: the dependency %s pinned in buf.lock is a target module; want non-target", call, depName)
								}
								if dep.IsLocal() {
									r.fail("pinned-never-target", "%s: the dependency %s pinned in buf.lock is a local module; want remote", call, depName)
								}
							}
						} else if dep != nil {
							r.fail("every-pinned-key-added", "%s: module %s is part of the workspace although nothing pins it", call, depName)
						}
						wantCount := len(moduleDirs)
						if withLock {
							wantCount++
						}
						if len(workspace.Modules()) != wantCount {
							r.fail("every-pinned-key-added one-entry-per-module", "%s: the workspace has modules %s; want %d modules", call, c10wOpaqueIDs(workspace), wantCount)
						}
					}
				}
			}
		}
	}
}

func c10wOpaqueIDs(workspace Workspace) string {
	var ids []string
	for _, module := range workspace.Modules() {
		ids = append(ids, module.OpaqueID())
	}
	return "[" + strings.Join(ids, " ") + "]"
}

func TestVerifReplayC10(t *testing.T) {
	fn := os.Getenv("VERIF_REPLAY_FUNC")
	obligation := os.Getenv("VERIF_REPLAY_OBLIGATION")
	ctx := context.Background()
	r := &c10wRun{}
	switch fn {
	case "applyRootsToTargetPath":
		r.familyRoots()
	case "newModuleTargeting":
		r.familyModuleTargeting()
	case "validateBucketTargeting":
		r.familyValidate()
	case "getMappedModuleBucketAndModuleTargeting":
		r.familyMapped(ctx)
		r.familyWorkspaces(ctx, fn)
	case "newWorkspaceTargeting", "v1WorkspaceTargeting", "v2WorkspaceTargeting", "getModuleConfigAndConfiguredDepModuleRefsV1Beta1OrV1":
		r.familyWorkspaces(ctx, fn)
	case "checkForOverlap":
		r.familyOverlap(ctx)
		r.familyWorkspaces(ctx, fn)
	case "bucketIDsForDirPaths", "bucketIDsForModuleConfigsV2":
		r.familyBucketIDs()
		r.familyWorkspaces(ctx, fn)
	case "getWorkspaceForBucketAndModuleDirPathsV1Beta1OrV1", "getWorkspaceForBucketBufYAMLV2", "getWorkspaceForBucketModuleSet", "newWorkspace", "getLocalModuleDescription":
		r.familyProvider(ctx)
	default:
		fmt.Printf("VERIF-REPLAY no harness for %q\n", fn)
		return
	}
	label := ""
	if i := strings.LastIndex(obligation, "["); i >= 0 {
		label = strings.TrimSuffix(obligation[i+1:], "]")
		// loop / closure clauses are numbered: "0.target-iff-path-inside"
		if j := strings.Index(label, "."); j >= 0 && j <= 2 {
			label = label[j+1:]
		}
	}
	// failures whose call names the function of the obligation first, then those tagged with the clause label
	score := func(f c10wFailure) int {
		s := 0
		if strings.HasPrefix(f.text, fn+"(") {
			s += 1
		}
		if label != "" && strings.Contains(" "+f.tag+" ", " "+label+" ") {
			s += 2
		}
		return s
	}
	sort.SliceStable(r.failures, func(a, b int) bool {
		return score(r.failures[a]) > score(r.failures[b])
	})
	printed := map[string]bool{}
	count := 0
	for _, f := range r.failures {
		if count >= 5 {
			break
		}
		key := f.tag
		if printed[key] && count > 0 {
			continue
		}
		printed[key] = true
		fmt.Printf("VERIF-REPLAY FAILING-INPUT %s\n", f.text)
		count++
	}
	fmt.Printf("VERIF-REPLAY %s: checked %d inputs, %d deviations from the documented behaviour\n", fn, r.checked, len(r.failures))
}
