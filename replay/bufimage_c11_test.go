package bufimage

// Replay / bounded contract run for the C11 obligations of package bufimage (image-level --path/--exclude-path
// targeting, the import closure, the removal of the buf extension field) and of the normalpath helpers it uses;
// injected with go test -overlay.
//
// Inputs: three small images built from generated sources (nested directories, a directory whose name ends in
// .proto, a well-known-type import, a non-target dependency module) and ALL selections of up to two --path and
// up to two --exclude-path values from a small universe (directories, files, nested ones, a missing one), with
// and without allowNotExist; hand-made images for the closure walk; every sequence of up to three wire records
// for the unknown-field stripping.
//
// Oracle (from the C11 statement and the flag documentation, not from util.go): a file is selected iff it is
// named by a --path, or lies under a --path that is not cancelled by an --exclude-path at or below that --path
// which also covers the file (with only --exclude-path values: iff it is a non-import that no exclude covers);
// the result holds the selected files as non-imports plus everything they import (transitively) as imports,
// imports first, each path once. For the selections in the property's scope (no --path inside an --exclude-path)
// the image built from the SOURCES with the same selection must have the same files and import flags.

import (
	"bytes"
	"context"
	"errors"
	"fmt"
	"io"
	"log/slog"
	"os"
	"sort"
	"strings"
	"testing"

	"github.com/bufbuild/buf/private/bufpkg/bufmodule"
	imagev1 "github.com/bufbuild/buf/private/gen/proto/go/buf/alpha/image/v1"
	"github.com/bufbuild/buf/private/pkg/normalpath"
	"github.com/bufbuild/buf/private/pkg/protoencoding"
	"github.com/bufbuild/buf/private/pkg/storage/storagemem"
	"github.com/google/uuid"
	"google.golang.org/protobuf/encoding/protowire"
	"google.golang.org/protobuf/proto"
	"google.golang.org/protobuf/reflect/protoreflect"
	"google.golang.org/protobuf/types/descriptorpb"
)

var c11Logger = slog.New(slog.NewTextHandler(io.Discard, nil))

type c11Failure struct {
	tag  string
	text string
}

type c11Run struct {
	failures []c11Failure
	checked  int
}

func (r *c11Run) fail(tag string, format string, a ...any) {
	r.failures = append(r.failures, c11Failure{tag, fmt.Sprintf(format, a...)})
}

// a equals b or is a directory above b ("." is above everything)
func c11AncOrSelf(a string, b string) bool {
	return a == "." || a == b || strings.HasPrefix(b, a+"/")
}

type c11Workspace struct {
	name    string
	modules []map[string]string // module 0 is the target module, the others are dependencies
}

func c11Proto(pkg string, msg string, imports []string, fields []string) string {
	var b strings.Builder
	b.WriteString("syntax = \"proto3\";\n")
	fmt.Fprintf(&b, "package %s;\n", pkg)
	for _, imp := range imports {
		fmt.Fprintf(&b, "import %q;\n", imp)
	}
	fmt.Fprintf(&b, "message %s {\n", msg)
	for i, f := range fields {
		fmt.Fprintf(&b, "  %s f%d = %d;\n", f, i+1, i+1)
	}
	b.WriteString("}\n")
	return b.String()
}

func c11Workspaces() []c11Workspace {
	return []c11Workspace{
		{
			name: "W1",
			modules: []map[string]string{{
				"a/x.proto":       c11Proto("a", "X", []string{"a/b/y.proto"}, []string{"a.b.Y"}),
				"a/b/y.proto":     c11Proto("a.b", "Y", []string{"google/protobuf/timestamp.proto"}, []string{"google.protobuf.Timestamp"}),
				"a/b/z.proto":     c11Proto("a.b", "Z", nil, []string{"string"}),
				"c/w.proto":       c11Proto("c", "W", []string{"a/x.proto"}, []string{"a.X"}),
				"top.proto":       c11Proto("top", "Top", []string{"c/w.proto", "a/b/z.proto"}, []string{"c.W", "a.b.Z"}),
				"d.proto/v.proto": c11Proto("d", "V", nil, []string{"int32"}),
			}},
		},
		{
			name: "W2",
			modules: []map[string]string{
				{
					"a/x.proto": c11Proto("a", "X", []string{"lib/l.proto"}, []string{"lib.L"}),
					"a/q.proto": c11Proto("a", "Q", nil, []string{"string"}),
					"c/w.proto": c11Proto("c", "W", []string{"a/x.proto", "lib/sub/m.proto"}, []string{"a.X", "lib.sub.M"}),
				},
				{
					"lib/l.proto":      c11Proto("lib", "L", []string{"lib/sub/m.proto"}, []string{"lib.sub.M"}),
					"lib/sub/m.proto":  c11Proto("lib.sub", "M", nil, []string{"string"}),
					"lib/unused.proto": c11Proto("lib", "Unused", nil, []string{"string"}),
				},
			},
		},
		{
			name: "W3",
			modules: []map[string]string{{
				"a/x.proto":   c11Proto("a", "X", nil, []string{"string"}),
				"a/b/y.proto": c11Proto("a.b", "Y", nil, []string{"string"}),
				"c/w.proto":   c11Proto("c", "W", nil, []string{"string"}),
			}},
		},
	}
}

func c11Universe(name string) []string {
	switch name {
	case "W1":
		return []string{"a", "a/b", "c", "a/x.proto", "a/b/y.proto", "top.proto", "d.proto", "nonexistent", "google"}
	case "W2":
		return []string{"a", "c", "lib", "lib/sub", "a/x.proto", "lib/l.proto", "lib/unused.proto", "nonexistent"}
	default:
		return []string{"a", "a/b", "c", "a/x.proto", "a/b/y.proto", "c/w.proto", "nonexistent"}
	}
}

// build builds the workspace; paths/excludes are the module-level (source) selection of module 0.
func (w *c11Workspace) build(ctx context.Context, paths []string, excludes []string) (Image, error) {
	builder := bufmodule.NewModuleSetBuilder(ctx, c11Logger, bufmodule.NopModuleDataProvider, bufmodule.NopCommitProvider)
	for m, files := range w.modules {
		data := map[string][]byte{}
		for p, s := range files {
			data[p] = []byte(s)
		}
		bucket, err := storagemem.NewReadBucket(data)
		if err != nil {
			return nil, err
		}
		var options []bufmodule.LocalModuleOption
		if m == 0 && (len(paths) > 0 || len(excludes) > 0) {
			options = append(options, bufmodule.LocalModuleWithTargetPaths(paths, excludes))
		}
		builder.AddLocalModule(bucket, fmt.Sprintf("bucket-%d", m), m == 0, options...)
	}
	moduleSet, err := builder.Build()
	if err != nil {
		return nil, err
	}
	return BuildImage(ctx, c11Logger, bufmodule.ModuleSetToModuleReadBucketWithOnlyProtoFiles(moduleSet), WithNoParallelism())
}

func c11Files(image Image) []string {
	var out []string
	for _, f := range image.Files() {
		p := f.Path()
		if f.IsImport() {
			p += "(import)"
		}
		out = append(out, p)
	}
	return out
}

func c11SubsetsUpTo2(universe []string) [][]string {
	out := [][]string{nil}
	for i := range universe {
		out = append(out, []string{universe[i]})
	}
	for i := range universe {
		for j := range universe {
			if i != j {
				out = append(out, []string{universe[i], universe[j]})
			}
		}
	}
	return out
}

// the documented selection
func c11Selected(image Image, paths []string, excludes []string, f ImageFile) bool {
	if len(paths) == 0 {
		if len(excludes) == 0 || f.IsImport() {
			return false
		}
		for _, e := range excludes {
			if c11AncOrSelf(e, f.Path()) {
				return false
			}
		}
		return true
	}
	for _, p := range paths {
		named := strings.HasSuffix(p, ".proto") && image.GetFile(p) != nil
		if named {
			if p == f.Path() {
				return true
			}
			continue
		}
		if !c11AncOrSelf(p, f.Path()) {
			continue
		}
		cancelled := false
		for _, e := range excludes {
			if c11AncOrSelf(e, f.Path()) && c11AncOrSelf(p, e) {
				cancelled = true
			}
		}
		if !cancelled {
			return true
		}
	}
	return false
}

// checkSelection compares a successful result with the documented one.
func (r *c11Run) checkSelection(what string, image Image, selected map[string]bool, result Image) {
	// closure of the selected files under the imports the image can resolve
	want := map[string]bool{}
	var visit func(p string)
	visit = func(p string) {
		if want[p] {
			return
		}
		f := image.GetFile(p)
		if f == nil {
			return
		}
		want[p] = true
		for _, dep := range f.FileDescriptorProto().GetDependency() {
			visit(dep)
		}
	}
	for p := range selected {
		visit(p)
	}
	got := c11Files(result)
	position := map[string]int{}
	for k, f := range result.Files() {
		if _, dup := position[f.Path()]; dup {
			r.fail("each-path-once unique", "%s = %v: %q twice", what, got, f.Path())
			return
		}
		position[f.Path()] = k
	}
	for p := range want {
		if _, ok := position[p]; !ok {
			tag := "imports-first visited-done newly-seen-done"
			if selected[p] {
				tag = "selected-are-included selected-included named-file-selected file-skipped exclude-only-selected decision all-ancestors"
			}
			r.fail(tag, "%s = %v: %q is missing (selected: %v; the result must hold the selected files and their imports)", what, got, p, selected[p])
		}
	}
	for k, f := range result.Files() {
		if !want[f.Path()] {
			r.fail("non-imports-are-the-selected from-image new-were-unseen only-ancestors decision", "%s = %v: %q is neither selected nor imported by a selected file", what, got, f.Path())
			continue
		}
		if f.IsImport() == selected[f.Path()] {
			r.fail("non-imports-are-the-selected flags exclude-only-selected file-skipped decision remaining only-ancestors all-ancestors", "%s = %v: %q has IsImport()=%v but selected=%v", what, got, f.Path(), f.IsImport(), selected[f.Path()])
		}
		if in := image.GetFile(f.Path()); in == nil || !proto.Equal(in.FileDescriptorProto(), f.FileDescriptorProto()) {
			r.fail("from-image", "%s = %v: the descriptor of %q is not the one of the input image", what, got, f.Path())
		}
		for _, dep := range f.FileDescriptorProto().GetDependency() {
			if image.GetFile(dep) == nil {
				continue
			}
			if j, ok := position[dep]; !ok || j >= k {
				r.fail("imports-first ordered", "%s = %v: %q is not placed after its import %q", what, got, f.Path(), dep)
			}
		}
	}
}

func (r *c11Run) familySelections(ctx context.Context, withSources bool) {
	for _, w := range c11Workspaces() {
		w := w
		image, err := w.build(ctx, nil, nil)
		if err != nil {
			fmt.Printf("VERIF-REPLAY generator problem %s: %v\n", w.name, err)
			continue
		}
		in := c11Files(image)
		subsets := c11SubsetsUpTo2(c11Universe(w.name))
		for _, paths := range subsets {
			for _, excludes := range subsets {
				for _, allowNotExist := range []bool{true, false} {
					r.checked++
					var result Image
					var err error
					name := "ImageWithOnlyPaths"
					if allowNotExist {
						name = "ImageWithOnlyPathsAllowNotExist"
						result, err = ImageWithOnlyPathsAllowNotExist(image, paths, excludes)
					} else {
						result, err = ImageWithOnlyPaths(image, paths, excludes)
					}
					what := fmt.Sprintf("%s(image %v, --path %v, --exclude-path %v)", name, in, paths, excludes)
					if len(paths) == 0 && len(excludes) == 0 {
						// nothing is selected: an image holds at least one file
						if err == nil {
							r.fail("nothing-given-rejected nothing-selected", "%s = %v: no error although nothing is selected", what, c11Files(result))
						}
						continue
					}
					common := false
					for _, p := range paths {
						for _, e := range excludes {
							if p == e {
								common = true
							}
						}
					}
					if common {
						if err == nil {
							r.fail("same-path-and-exclude-rejected path-and-exclude-disjoint", "%s = %v: no error although a value is both a --path and an --exclude-path", what, c11Files(result))
						}
						continue
					}
					selected := map[string]bool{}
					for _, f := range image.Files() {
						if c11Selected(image, paths, excludes, f) {
							selected[f.Path()] = true
						}
					}
					matchesNothing := ""
					for _, v := range append(append([]string{}, paths...), excludes...) {
						any := false
						for _, f := range image.Files() {
							if c11AncOrSelf(v, f.Path()) {
								any = true
							}
						}
						if !any {
							matchesNothing = v
						}
					}
					switch {
					case len(selected) == 0:
						if err == nil {
							r.fail("nothing-selected empty-rejected decision", "%s = %v: no file is selected, want an error", what, c11Files(result))
						}
						continue
					case !allowNotExist && matchesNothing != "":
						if err == nil {
							r.fail("all-matched", "%s = %v: %q matches no file of the image, want an error", what, c11Files(result), matchesNothing)
						}
						continue
					case !allowNotExist:
						// a --path whose files are all excluded: not specified, accept an error
						if err != nil {
							// every directory-like --path must select a file through itself
							everyPathSelects := true
							for _, p := range paths {
								if strings.HasSuffix(p, ".proto") && image.GetFile(p) != nil {
									continue
								}
								any := false
								for _, f := range image.Files() {
									if c11Selected(image, []string{p}, excludes, f) {
										any = true
									}
								}
								if !any {
									everyPathSelects = false
								}
							}
							if everyPathSelects {
								r.fail("all-matched", "%s: error %q although every --path and --exclude-path value matches a file of the image and %d files are selected", what, err.Error(), len(selected))
							}
							continue
						}
					default:
						if err != nil {
							r.fail("selected-are-included all-matched", "%s: error %q although %d files are selected", what, err.Error(), len(selected))
							continue
						}
					}
					r.checkSelection(what, image, selected, result)
				}
			}
		}
		if !withSources || len(w.modules) != 1 {
			continue
		}
		// the same selection applied to the sources (scope of the property: no --path inside an --exclude-path;
		// values that exist in the module)
		moduleHas := func(v string) bool {
			for p := range w.modules[0] {
				if c11AncOrSelf(v, p) {
					return true
				}
			}
			return false
		}
		for _, paths := range subsets {
			for _, excludes := range subsets {
				if len(paths) == 0 && len(excludes) == 0 {
					continue
				}
				inScope := true
				for _, v := range append(append([]string{}, paths...), excludes...) {
					if !moduleHas(v) {
						inScope = false
					}
				}
				for _, p := range paths {
					for _, e := range excludes {
						if c11AncOrSelf(e, p) {
							inScope = false
						}
					}
				}
				if !inScope || (len(paths)+len(excludes) == 4 && (len(paths[0])+len(paths[1])+len(excludes[0])+len(excludes[1]))%3 != 0) {
					continue
				}
				r.checked++
				fromSources, errSources := w.build(ctx, paths, excludes)
				// (AllowNotExist: whether a --path all of whose files are excluded "exists" is not specified;
				// the image-level check rejects e.g. --path a --path a/b --exclude-path a/b/y.proto, the sources build)
				fromImage, errImage := ImageWithOnlyPathsAllowNotExist(image, paths, excludes)
				what := fmt.Sprintf("workspace %s, --path %v --exclude-path %v", w.name, paths, excludes)
				if (errSources == nil) != (errImage == nil) {
					r.fail("non-imports-are-the-selected selected-are-included decision", "%s: build from the sources: err=%v; ImageWithOnlyPathsAllowNotExist on the built image %v: err=%v", what, errSources, in, errImage)
					continue
				}
				if errSources != nil {
					continue
				}
				a, b := c11Files(fromSources), c11Files(fromImage)
				sort.Strings(a)
				sort.Strings(b)
				if fmt.Sprint(a) != fmt.Sprint(b) {
					r.fail("non-imports-are-the-selected selected-are-included exclude-only-selected file-skipped decision flags", "%s: build from the sources gives %v, ImageWithOnlyPathsAllowNotExist on the built image %v gives %v", what, a, in, b)
				}
			}
		}
	}
}

// ---- shouldExcludeFile directly

func (r *c11Run) familyShouldExclude() {
	universe := []string{"a", "a/b", "a/b/c", "a/b/c/f.proto", "d"}
	var subsets [][]string
	for m := 0; m < 1<<len(universe); m++ {
		var s []string
		for i, u := range universe {
			if m&(1<<i) != 0 {
				s = append(s, u)
			}
		}
		subsets = append(subsets, s)
	}
	for _, ps := range subsets {
		for _, es := range subsets {
			r.checked++
			pathMap := map[string]struct{}{}
			for _, p := range ps {
				pathMap[p] = struct{}{}
			}
			excludeMap := map[string]struct{}{}
			for _, e := range es {
				excludeMap[e] = struct{}{}
			}
			var remaining []string
			for _, p := range ps {
				cancelled := false
				for _, e := range es {
					if c11AncOrSelf(p, e) {
						cancelled = true
					}
				}
				if !cancelled {
					remaining = append(remaining, p)
				}
			}
			got := shouldExcludeFile(pathMap, excludeMap)
			var gotRemaining []string
			for p := range pathMap {
				gotRemaining = append(gotRemaining, p)
			}
			sort.Strings(gotRemaining)
			sort.Strings(remaining)
			if got != (len(remaining) == 0) {
				r.fail("decision", "shouldExcludeFile(matching --path values %v, matching --exclude-path values %v) = %v; the --path values not cancelled by an exclude at or below them are %v", ps, es, got, remaining)
			} else if fmt.Sprint(gotRemaining) != fmt.Sprint(remaining) {
				r.fail("remaining", "shouldExcludeFile(matching --path values %v, matching --exclude-path values %v) leaves %v in the path map, want %v", ps, es, gotRemaining, remaining)
			}
			if len(excludeMap) != len(es) {
				r.fail("remaining", "shouldExcludeFile(%v, %v) changed the exclude map", ps, es)
			}
		}
	}
}

// ---- the closure walk on hand-made images

func c11HandImage(n int, edges [][2]int, importFlags int) (Image, []ImageFile, error) {
	names := []string{"m/c.proto", "a.proto", "m/b.proto", "z/d.proto", "e.proto"}
	deps := map[int][]string{}
	for _, e := range edges {
		deps[e[0]] = append(deps[e[0]], names[e[1]])
	}
	files := make([]ImageFile, n)
	for i := 0; i < n; i++ {
		fd := &descriptorpb.FileDescriptorProto{
			Name:       proto.String(names[i]),
			Syntax:     proto.String("proto3"),
			Package:    proto.String("p"),
			Dependency: deps[i],
		}
		if i == 0 {
			fd.Dependency = append(fd.Dependency, "not/in/image.proto")
		}
		f, err := NewImageFile(fd, nil, uuid.Nil, "", "", importFlags&(1<<i) != 0, false, nil)
		if err != nil {
			return nil, nil, err
		}
		files[i] = f
	}
	// dependencies first: edges always point from a lower to a higher index
	ordered := make([]ImageFile, 0, n)
	for i := n - 1; i >= 0; i-- {
		ordered = append(ordered, files[i])
	}
	image, err := NewImage(ordered)
	return image, files, err
}

func (r *c11Run) familyClosure() {
	graphs := [][][2]int{
		{},
		{{0, 1}, {1, 2}, {2, 3}},
		{{0, 1}, {0, 2}, {1, 3}, {2, 3}},
		{{0, 3}, {1, 3}, {2, 3}},
		{{0, 1}, {0, 2}, {0, 3}, {1, 2}},
	}
	for _, edges := range graphs {
		for _, importFlags := range []int{0, 0b1010, 0b1111} {
			image, files, err := c11HandImage(4, edges, importFlags)
			if err != nil {
				fmt.Printf("VERIF-REPLAY generator problem: %v\n", err)
				return
			}
			var edgeNames []string
			for _, e := range edges {
				edgeNames = append(edgeNames, files[e[0]].Path()+"->"+files[e[1]].Path())
			}
			for mask := 1; mask < 1<<4; mask++ {
				for _, reverse := range []bool{false, true} {
					r.checked++
					nonImportPaths := map[string]struct{}{}
					selected := map[string]bool{}
					var nonImportFiles []ImageFile
					for i := 0; i < 4; i++ {
						k := i
						if reverse {
							k = 3 - i
						}
						if mask&(1<<k) != 0 {
							nonImportPaths[files[k].Path()] = struct{}{}
							selected[files[k].Path()] = true
							nonImportFiles = append(nonImportFiles, image.GetFile(files[k].Path()))
						}
					}
					var names []string
					for _, f := range nonImportFiles {
						names = append(names, f.Path())
					}
					what := fmt.Sprintf("getImageWithImports(image %v with imports [%s], selected %v)", c11Files(image), strings.Join(edgeNames, " "), names)
					result, err := getImageWithImports(image, nonImportPaths, nonImportFiles)
					if err != nil {
						r.fail("selected-included", "%s: error %v", what, err)
						continue
					}
					r.checkSelection(what, image, selected, result)
					// the single step
					seen := map[string]struct{}{}
					var acc []ImageFile
					for _, f := range nonImportFiles {
						before := len(acc)
						acc = addFileWithImports(acc, image, nonImportPaths, seen, f)
						found := false
						for _, g := range acc {
							if g.Path() == f.Path() {
								found = true
							}
						}
						if !found || len(acc) < before {
							r.fail("visited-done prefix-kept", "addFileWithImports(%d accumulated files, image %v with imports [%s], file %q): the file is not in the result", before, c11Files(image), strings.Join(edgeNames, " "), f.Path())
						}
					}
					if accImage, err := NewImage(acc); err == nil {
						r.checkSelection(strings.Replace(what, "getImageWithImports", "addFileWithImports over", 1), image, selected, accImage)
					}
				}
			}
			// nothing selected
			r.checked++
			if _, err := getImageWithImports(image, map[string]struct{}{}, nil); err == nil {
				r.fail("nothing-selected empty-rejected", "getImageWithImports(image %v, nothing selected): no error", c11Files(image))
			}
		}
	}
	// NewImage keeps the order given and rejects the empty list
	image, files, err := c11HandImage(4, [][2]int{{0, 1}}, 0)
	if err == nil {
		r.checked += 2
		given := []ImageFile{files[2], files[0], files[3], files[1]}
		kept, err := NewImage(given)
		if err != nil {
			r.fail("order-kept", "NewImage(%v): error %v", c11Files(image), err)
		} else {
			for k, f := range kept.Files() {
				if f != given[k] {
					r.fail("order-kept", "NewImage([m/b.proto m/c.proto z/d.proto a.proto]) = %v: the order given is not kept", c11Files(kept))
					break
				}
			}
		}
		if _, err := NewImage(nil); err == nil {
			r.fail("empty-rejected", "NewImage(no files): no error")
		}
	}
}

// ---- checkExcludePathsExistInImage directly

func (r *c11Run) familyExcludesExist(ctx context.Context) {
	w := c11Workspaces()[0]
	image, err := w.build(ctx, nil, nil)
	if err != nil {
		return
	}
	for _, excludes := range c11SubsetsUpTo2([]string{"a", "a/b", "a/b/y.proto", "nonexistent", "a/b/nonexistent.proto", "google", "top.proto", "to"}) {
		r.checked++
		missing := ""
		for _, e := range excludes {
			any := false
			for _, f := range image.Files() {
				if c11AncOrSelf(e, f.Path()) {
					any = true
				}
			}
			if !any {
				missing = e
			}
		}
		err := checkExcludePathsExistInImage(image, excludes)
		if (err == nil) != (missing == "") {
			r.fail("all-matched", "checkExcludePathsExistInImage(image %v, --exclude-path %v): err=%v; value matching no file: %q", c11Files(image), excludes, err, missing)
		}
	}
}

// ---- stripBufExtensionField

type c11Record struct {
	name  string
	num   protowire.Number
	bytes []byte
}

func c11Records() []c11Record {
	var out []c11Record
	for _, num := range []protowire.Number{1, 8041, 8042, 8043, 100000} {
		out = append(out,
			c11Record{fmt.Sprintf("%d:varint(300)", num), num, protowire.AppendVarint(protowire.AppendTag(nil, num, protowire.VarintType), 300)},
			c11Record{fmt.Sprintf("%d:bytes(\"ab\")", num), num, protowire.AppendBytes(protowire.AppendTag(nil, num, protowire.BytesType), []byte("ab"))},
		)
	}
	out = append(out,
		c11Record{"8042:fixed32", 8042, protowire.AppendFixed32(protowire.AppendTag(nil, 8042, protowire.Fixed32Type), 7)},
		c11Record{"8042:fixed64", 8042, protowire.AppendFixed64(protowire.AppendTag(nil, 8042, protowire.Fixed64Type), 7)},
		c11Record{"2:fixed64", 2, protowire.AppendFixed64(protowire.AppendTag(nil, 2, protowire.Fixed64Type), 9)},
		// a record of another field whose payload contains the bytes of an 8042 tag
		c11Record{"3:bytes(<tag 8042>)", 3, protowire.AppendBytes(protowire.AppendTag(nil, 3, protowire.BytesType), protowire.AppendTag(nil, 8042, protowire.VarintType))},
		c11Record{"8042:bytes(<record of field 1>)", 8042, protowire.AppendBytes(protowire.AppendTag(nil, 8042, protowire.BytesType), protowire.AppendVarint(protowire.AppendTag(nil, 1, protowire.VarintType), 1))},
		c11Record{"8042:group{1:varint}", 8042, protowire.AppendTag(protowire.AppendVarint(protowire.AppendTag(protowire.AppendTag(nil, 8042, protowire.StartGroupType), 1, protowire.VarintType), 5), 8042, protowire.EndGroupType)},
	)
	return out
}

func (r *c11Run) familyStrip() {
	records := c11Records()
	var sequences [][]int
	sequences = append(sequences, nil)
	for i := range records {
		sequences = append(sequences, []int{i})
		for j := range records {
			sequences = append(sequences, []int{i, j})
		}
	}
	// triples around the stripped field
	for i := range records {
		for j := range records {
			for k := range records {
				if records[i].num == 8042 || records[j].num == 8042 || records[k].num == 8042 {
					if (i+j+k)%3 == 0 {
						sequences = append(sequences, []int{i, j, k})
					}
				}
			}
		}
	}
	for _, seq := range sequences {
		r.checked++
		var in, want []byte
		var names []string
		for _, i := range seq {
			in = append(in, records[i].bytes...)
			names = append(names, records[i].name)
			if records[i].num != 8042 {
				want = append(want, records[i].bytes...)
			}
		}
		original := append([]byte{}, in...)
		got := stripBufExtensionField(protoreflect.RawFields(in))
		if !bytes.Equal(in, original) {
			r.fail("stripped-bytes", "stripBufExtensionField(records [%s]) modified its input", strings.Join(names, ", "))
		}
		if !bytes.Equal(got, want) {
			r.fail("stripped-len stripped-bytes", "stripBufExtensionField(records [%s] = % x) = % x; want every record of field 8042 removed and the others kept: % x", strings.Join(names, ", "), original, []byte(got), want)
		}
		// truncated input: not a sequence of well-formed records, returned unchanged
		if len(in) > 1 {
			cut := append([]byte{}, original[:len(original)-1]...)
			gotCut := stripBufExtensionField(protoreflect.RawFields(cut))
			if !bytes.Equal(gotCut, original[:len(original)-1]) {
				r.fail("malformed-unchanged", "stripBufExtensionField(records [%s] with the last byte cut off = % x) = % x; malformed bytes must be returned unchanged", strings.Join(names, ", "), original[:len(original)-1], []byte(gotCut))
			}
		}
	}
	// through the written image: unknown fields of a descriptor lose only field 8042
	fd := &descriptorpb.FileDescriptorProto{Name: proto.String("a.proto"), Syntax: proto.String("proto3")}
	keep := records[0].bytes
	var strip []byte
	for _, rec := range records {
		if rec.num == 8042 && strings.HasSuffix(rec.name, "varint(300)") {
			strip = rec.bytes
		}
	}
	fd.ProtoReflect().SetUnknown(append(append(append([]byte{}, keep...), strip...), keep...))
	if f, err := NewImageFile(fd, nil, uuid.Nil, "", "", false, false, nil); err == nil {
		if image, err := NewImage([]ImageFile{f}); err == nil {
			r.checked++
			if protoImage, err := ImageToProtoImage(image); err == nil && len(protoImage.GetFile()) == 1 {
				got := []byte(protoImage.GetFile()[0].ProtoReflect().GetUnknown())
				if want := append(append([]byte{}, keep...), keep...); !bytes.Equal(got, want) {
					r.fail("stripped-bytes stripped-len", "ImageToProtoImage of a file whose unknown fields are [1:varint(300), 8042:varint(300), 1:varint(300)]: unknown fields of the written file = % x, want % x", got, want)
				}
			}
		}
	}
}

// ---- the normalpath helpers

func (r *c11Run) familyNormalpath() {
	keys := []string{".", "a", "a/b", "a/b/c.proto", "ab", "a/bc", "d"}
	paths := []string{"a", "a/b", "a/b/c.proto", "a/b/c.proto/x", "ab/c", "a/bc", "d/e/f", "x", "a/b/c"}
	for m := 0; m < 1<<len(keys); m++ {
		set := map[string]struct{}{}
		var names []string
		for i, k := range keys {
			if m&(1<<i) != 0 {
				set[k] = struct{}{}
				names = append(names, k)
			}
		}
		for _, p := range paths {
			r.checked++
			var want []string
			for _, k := range names {
				if c11AncOrSelf(k, p) {
					want = append(want, k)
				}
			}
			sort.Strings(want)
			got := normalpath.MapAllEqualOrContainingPathMap(set, p, normalpath.Relative)
			var gotKeys []string
			for k := range got {
				gotKeys = append(gotKeys, k)
			}
			sort.Strings(gotKeys)
			if fmt.Sprint(gotKeys) != fmt.Sprint(want) {
				r.fail("only-ancestors all-ancestors", "normalpath.MapAllEqualOrContainingPathMap(%v, %q, Relative) = %v; the members that equal the path or are a directory above it are %v", names, p, gotKeys, want)
			}
			if len(set) == 0 && got != nil {
				r.fail("empty-nil", "normalpath.MapAllEqualOrContainingPathMap(empty map, %q, Relative) = %v, want nil", p, got)
			}
			if len(set) != len(names) {
				r.fail("input-untouched", "normalpath.MapAllEqualOrContainingPathMap(%v, %q, Relative) changed its input map", names, p)
			}
			if has := normalpath.MapHasEqualOrContainingPath(set, p, normalpath.Relative); has != (len(want) > 0) {
				r.fail("MapHasEqualOrContainingPath", "normalpath.MapHasEqualOrContainingPath(%v, %q, Relative) = %v; members that equal or contain the path: %v", names, p, has, want)
			}
		}
	}
	// ValidatePathsNormalizedValidatedUnique
	cases := []struct {
		paths []string
		ok    bool
	}{
		{nil, true},
		{[]string{"a", "a/b", "c.proto"}, true},
		{[]string{"a", "b", "a"}, false},
		{[]string{"a", ""}, false},
		{[]string{"a/", "b"}, false},
		{[]string{"./a"}, false},
		{[]string{"a//b"}, false},
		{[]string{"../a"}, false},
		{[]string{"/a"}, false},
		{[]string{"a", "a/../b"}, false},
	}
	for _, c := range cases {
		r.checked++
		err := normalpath.ValidatePathsNormalizedValidatedUnique(c.paths)
		if (err == nil) != c.ok {
			r.fail("all-valid unique", "normalpath.ValidatePathsNormalizedValidatedUnique(%q): err=%v, want ok=%v (normalized, relative, non-empty, unique)", c.paths, err, c.ok)
		}
	}
}

// ---- every encoding, written and read back (the way bufctl writes and reads an image file)

const c11OptionsProto = `syntax = "proto3";
package n;
import "google/protobuf/descriptor.proto";
import public "n/pub.proto";
message First {
  string f = 1;
  message Inner {
    extend google.protobuf.MessageOptions {
      string deep = 50012;
    }
  }
}
message Scope {
  extend google.protobuf.FieldOptions {
    string label = 50010;
  }
  string s = 1 [(n.Scope.label) = "scoped"];
}
extend google.protobuf.MessageOptions {
  string top = 50011;
}
message Use {
  option (n.top) = "toplevel";
  option (n.First.Inner.deep) = "deep";
  string u = 1 [(n.Scope.label) = "used"];
  n.Pub p = 2;
}
`

var c11YAMLNoted bool

func c11Canonical(image Image) (string, error) {
	protoImage, err := ImageToProtoImage(image)
	if err != nil {
		return "", err
	}
	data, err := protoencoding.NewJSONMarshaler(image.Resolver()).Marshal(protoImage)
	return string(data), err
}

func (r *c11Run) familyEncodings(ctx context.Context) {
	w := c11Workspace{name: "options", modules: []map[string]string{{
		"n/n.proto":    c11OptionsProto,
		"n/pub.proto":  c11Proto("n", "Pub", nil, []string{"string"}),
		"n/user.proto": "package n;\nimport \"n/n.proto\";\nimport \"n/pub.proto\";\nmessage User {\n  optional Use use = 1;\n}\n",
	}}}
	for _, paths := range [][]string{nil, {"n/user.proto"}} {
		image, err := w.build(ctx, paths, nil)
		if err != nil {
			fmt.Printf("VERIF-REPLAY generator problem: %v\n", err)
			return
		}
		want, err := c11Canonical(image)
		if err != nil {
			fmt.Printf("VERIF-REPLAY generator problem: %v\n", err)
			return
		}
		for _, probe := range []string{`"[n.top]":"toplevel"`, `"[n.Scope.label]":"scoped"`, `"[n.Scope.label]":"used"`, `"[n.First.Inner.deep]":"deep"`} {
			if !strings.Contains(strings.ReplaceAll(want, " ", ""), probe) {
				r.fail("encodings", "image built from {n/n.proto: top-level extend n.top, nested extend n.Scope.label, doubly nested extend n.First.Inner.deep, all used}: rendered as JSON with the image's own resolver the option value %s is missing", probe)
			}
		}
		protoImage, err := ImageToProtoImage(image)
		if err != nil {
			r.fail("encodings", "ImageToProtoImage: %v", err)
			return
		}
		// the written files carry the fields of the built descriptors
		for k, protoFile := range protoImage.GetFile() {
			if k >= len(image.Files()) {
				break
			}
			fd := image.Files()[k].FileDescriptorProto()
			r.checked++
			written := fmt.Sprintf("name=%s package=%s syntax=%s dependency=%v public_dependency=%v weak_dependency=%v messages=%d enums=%d services=%d extensions=%d source-locations=%d",
				protoFile.GetName(), protoFile.GetPackage(), protoFile.GetSyntax(), protoFile.GetDependency(), protoFile.GetPublicDependency(), protoFile.GetWeakDependency(),
				len(protoFile.GetMessageType()), len(protoFile.GetEnumType()), len(protoFile.GetService()), len(protoFile.GetExtension()), len(protoFile.GetSourceCodeInfo().GetLocation()))
			built := fmt.Sprintf("name=%s package=%s syntax=%s dependency=%v public_dependency=%v weak_dependency=%v messages=%d enums=%d services=%d extensions=%d source-locations=%d",
				fd.GetName(), fd.GetPackage(), fd.GetSyntax(), fd.GetDependency(), fd.GetPublicDependency(), fd.GetWeakDependency(),
				len(fd.GetMessageType()), len(fd.GetEnumType()), len(fd.GetService()), len(fd.GetExtension()), len(fd.GetSourceCodeInfo().GetLocation()))
			if written != built {
				r.fail("encodings", "image built from the sources {n/n.proto (import public n/pub.proto; custom options), n/pub.proto, n/user.proto} targets %v: the written image file (ImageToProtoImage) has {%s}, the built descriptor {%s}", paths, written, built)
			}
		}
		type encoding struct {
			name      string
			marshal   protoencoding.Marshaler
			unmarshal func(resolver protoencoding.Resolver) protoencoding.Unmarshaler
		}
		encodings := []encoding{
			{"binpb", protoencoding.NewWireMarshaler(), nil},
			{"json", protoencoding.NewJSONMarshaler(image.Resolver()), func(res protoencoding.Resolver) protoencoding.Unmarshaler {
				return protoencoding.NewJSONUnmarshaler(res)
			}},
			{"txtpb", protoencoding.NewTxtpbMarshaler(image.Resolver()), func(res protoencoding.Resolver) protoencoding.Unmarshaler {
				return protoencoding.NewTxtpbUnmarshaler(res)
			}},
			{"yaml", protoencoding.NewYAMLMarshaler(image.Resolver(), protoencoding.YAMLMarshalerWithIndent()), func(res protoencoding.Resolver) protoencoding.Unmarshaler {
				return protoencoding.NewYAMLUnmarshaler(res)
			}},
		}
		for _, enc := range encodings {
			r.checked++
			what := fmt.Sprintf("image built from the sources {n/n.proto (custom options declared by a top-level extend, an extend nested in message Scope and one nested in First.Inner, all used; import public n/pub.proto), n/pub.proto, n/user.proto (no syntax line)} targets %v, written as %s and read back", paths, enc.name)
			data, err := enc.marshal.Marshal(protoImage)
			if err != nil {
				r.fail("encodings", "%s: marshal error %v", what, err)
				continue
			}
			back := &imagev1.Image{}
			if enc.unmarshal == nil {
				err = protoencoding.NewWireUnmarshaler(nil).Unmarshal(data, back)
			} else {
				// two passes: first without a resolver, to obtain one from the image itself
				first := &imagev1.Image{}
				if err = enc.unmarshal(nil).Unmarshal(data, first); err == nil {
					var resolver protoencoding.Resolver
					if resolver, err = protoencoding.NewResolver(first.GetFile()...); err == nil {
						err = enc.unmarshal(resolver).Unmarshal(data, back)
					}
				}
			}
			if err != nil && enc.name == "yaml" && strings.Contains(err.Error(), "unknown field \"[") {
				// Pre-existing defect of the pinned tree (reported separately): the resolver-less first pass
				// of the YAML reader rejects extension keys, so a YAML image that uses a custom option does
				// not read back at all. Not attributed to the obligation under replay; the text is checked instead.
				if !c11YAMLNoted {
					c11YAMLNoted = true
					fmt.Printf("VERIF-REPLAY known-defect yaml image with custom options does not read back (%v)\n", strings.SplitN(err.Error(), "\n", 2)[0])
				}
				text := strings.ReplaceAll(strings.ReplaceAll(string(data), "'", ""), "\"", "")
				for _, probe := range []string{"[n.top]: toplevel", "[n.Scope.label]: scoped", "[n.Scope.label]: used", "[n.First.Inner.deep]: deep"} {
					if !strings.Contains(text, probe) {
						r.fail("encodings", "%s: the YAML text lacks the option value `%s`", strings.TrimSuffix(what, " and read back"), probe)
					}
				}
				continue
			}
			if err != nil {
				r.fail("encodings", "%s: read error %v", what, err)
				continue
			}
			readImage, err := NewImageForProto(back)
			if err != nil {
				r.fail("encodings", "%s: NewImageForProto: %v", what, err)
				continue
			}
			got, err := c11Canonical(readImage)
			if err != nil {
				r.fail("encodings", "%s: %v", what, err)
				continue
			}
			if got != want {
				detail := ""
				for _, probe := range []string{`"[n.top]":"toplevel"`, `"[n.Scope.label]":"scoped"`, `"[n.Scope.label]":"used"`, `"[n.First.Inner.deep]":"deep"`, `"publicDependency"`, `"isSyntaxUnspecified":true`} {
					a, b := strings.Count(strings.ReplaceAll(want, " ", ""), probe), strings.Count(strings.ReplaceAll(got, " ", ""), probe)
					if a != b {
						detail += fmt.Sprintf(" %s occurs %d times in the original, %d times after the round trip;", probe, a, b)
					}
				}
				r.fail("encodings", "%s differs from the original:%s (JSON renderings have %d and %d bytes)", what, detail, len(want), len(got))
				continue
			}
			// and file by file
			if len(readImage.Files()) != len(image.Files()) {
				r.fail("encodings", "%s has %v, the original %v", what, c11Files(readImage), c11Files(image))
				continue
			}
			for k, f := range image.Files() {
				g := readImage.Files()[k]
				if f.Path() != g.Path() || f.IsImport() != g.IsImport() || f.IsSyntaxUnspecified() != g.IsSyntaxUnspecified() || fmt.Sprint(f.UnusedDependencyIndexes()) != fmt.Sprint(g.UnusedDependencyIndexes()) {
					r.fail("encodings", "%s: file #%d is %s import=%v no-syntax=%v unused=%v, originally %s import=%v no-syntax=%v unused=%v", what, k, g.Path(), g.IsImport(), g.IsSyntaxUnspecified(), g.UnusedDependencyIndexes(), f.Path(), f.IsImport(), f.IsSyntaxUnspecified(), f.UnusedDependencyIndexes())
				}
			}
		}
	}
}

func TestVerifReplayC11(t *testing.T) {
	fn := os.Getenv("VERIF_REPLAY_FUNC")
	obligation := os.Getenv("VERIF_REPLAY_OBLIGATION")
	ctx := context.Background()
	r := &c11Run{}
	switch fn {
	case "imageWithOnlyPaths", "ImageWithOnlyPaths", "ImageWithOnlyPathsAllowNotExist", "getIsTargetFileForPathUncached":
		r.familySelections(ctx, true)
	case "checkExcludePathsExistInImage":
		r.familyExcludesExist(ctx)
		r.familySelections(ctx, false)
	case "shouldExcludeFile":
		r.familyShouldExclude()
		r.familySelections(ctx, true)
	case "addFileWithImports", "getImageWithImports", "NewImage", "ImageFileWithIsImport":
		r.familyClosure()
		r.familySelections(ctx, false)
	case "stripBufExtensionField", "fileDescriptorProtoToProtoImageFile", "imageFileToProtoImageFile":
		r.familyStrip()
		r.familyEncodings(ctx)
	case "findExtension", "FindExtensionByNumber", "FindExtensionByName", "FindDescriptorByName", "FindFileByPath", "FindMessageByName", "FindEnumByName", "newResolverForFiles", "Resolver",
		"NewImageForProto", "ImageToProtoImage", "reparseImageProto", "imageToProtoImage":
		r.familyEncodings(ctx)
	case "MapAllEqualOrContainingPathMap", "MapHasEqualOrContainingPath", "EqualsOrContainsPath":
		r.familyNormalpath()
		r.familySelections(ctx, false)
	case "ValidatePathsNormalizedValidatedUnique":
		r.familyNormalpath()
	default:
		fmt.Printf("VERIF-REPLAY no harness for %q\n", fn)
		return
	}
	label := ""
	if i := strings.LastIndex(obligation, "["); i >= 0 {
		label = strings.TrimSuffix(obligation[i+1:], "]")
	}
	sort.SliceStable(r.failures, func(a, b int) bool {
		ma := label != "" && strings.Contains(" "+r.failures[a].tag+" ", " "+label+" ")
		mb := label != "" && strings.Contains(" "+r.failures[b].tag+" ", " "+label+" ")
		return ma && !mb
	})
	printed := map[string]bool{}
	count := 0
	for _, f := range r.failures {
		if count >= 5 {
			break
		}
		key := f.text
		if i := strings.Index(key, ": "); i >= 0 {
			key = key[:i]
		}
		if printed[key] {
			continue
		}
		printed[key] = true
		fmt.Printf("VERIF-REPLAY FAILING-INPUT %s\n", f.text)
		count++
	}
	fmt.Printf("VERIF-REPLAY %s: checked %d inputs, %d deviations from the documented behaviour\n", fn, r.checked, len(r.failures))
	_ = errors.New
}
