package bufprotoplugin

// Replay / bounded contract runs for the C17 (and C13) obligations of the response writer of package
// bufprotoplugin (injected with go test -overlay, never written into /repo): writeWithPrefixAndLineEnding,
// writeInsertionPoint, leadingWhitespace, applyInsertionPoint, (*responseWriter).WriteResponse.
//
// Oracles (independent of the code under test, written from the doc comments / plugin.proto):
//   writeWithPrefixAndLineEnding: every line of the source appears, in order, as prefix + line + newline.
//   writeInsertionPoint: target lines unchanged and in order, joined by "\n"; in front of every line containing
//     "@@protoc_insertion_point(NAME)" the inserted lines, each indented like that line and ended by "\n"; no line
//     with the marker => error.
//   leadingWhitespace: the longest prefix consisting of white space runes.
//   WriteResponse / applyInsertionPoint: only names carried by the response are handed to the buckets, plain files
//     to the write bucket, insertion point targets read from the insertion point read bucket and rewritten under
//     the same name; no read bucket => error; a failing Put is reported.

import (
	"context"
	"errors"
	"fmt"
	"io"
	"os"
	"sort"
	"strings"
	"testing"
	"unicode"
	"unicode/utf8"

	"bytes"

	"github.com/bufbuild/buf/private/pkg/storage"
	"google.golang.org/protobuf/proto"
	"google.golang.org/protobuf/types/pluginpb"
)

func vw17Lines(s string) []string {
	// bufio.ScanLines semantics: "\n"-separated, one trailing "\r" dropped, no empty last token
	if s == "" {
		return nil
	}
	parts := strings.Split(s, "\n")
	if parts[len(parts)-1] == "" {
		parts = parts[:len(parts)-1]
	}
	for i, p := range parts {
		parts[i] = strings.TrimSuffix(p, "\r")
	}
	return parts
}

func vw17Show(s string) string {
	if len(s) > 120 {
		return fmt.Sprintf("%q...(%d bytes)", s[:40], len(s))
	}
	return fmt.Sprintf("%q", s)
}

func vw17WsOracle(s string) string {
	n := 0
	for n < len(s) {
		r, size := utf8.DecodeRuneInString(s[n:])
		if !unicode.IsSpace(r) {
			break
		}
		n += size
	}
	return s[:n]
}

func vw17IPOracle(target, name, content string) (string, bool) {
	marker := "@@protoc_insertion_point(" + name + ")"
	var out []string
	found := false
	for _, l := range vw17Lines(target) {
		if strings.Contains(l, marker) {
			found = true
			ws := vw17WsOracle(l)
			ins := ""
			for _, c := range vw17Lines(content) {
				ins += ws + c + "\n"
			}
			out = append(out, ins+l)
		} else {
			out = append(out, l)
		}
	}
	return strings.Join(out, "\n"), found
}

// ---- recording buckets

type vw17Log struct{ events []string }

type vw17Bucket struct {
	name    string
	log     *vw17Log
	files   map[string]string
	failPut string
}

type vw17Info struct{ path string }

func (i vw17Info) Path() string         { return i.path }
func (i vw17Info) ExternalPath() string { return i.path }
func (i vw17Info) LocalPath() string    { return "" }

type vw17ReadObj struct {
	vw17Info
	*strings.Reader
}

func (vw17ReadObj) Close() error { return nil }

type vw17WriteObj struct {
	b    *vw17Bucket
	path string
	buf  bytes.Buffer
}

func (w *vw17WriteObj) Write(p []byte) (int, error)  { return w.buf.Write(p) }
func (w *vw17WriteObj) SetExternalPath(string) error { return nil }
func (w *vw17WriteObj) SetLocalPath(string) error    { return nil }
func (w *vw17WriteObj) Close() error {
	w.b.files[w.path] = w.buf.String()
	return nil
}

func (b *vw17Bucket) Get(ctx context.Context, path string) (storage.ReadObjectCloser, error) {
	b.log.events = append(b.log.events, b.name+".Get("+path+")")
	c, ok := b.files[path]
	if !ok {
		return nil, &os.PathError{Op: "read", Path: path, Err: os.ErrNotExist}
	}
	return vw17ReadObj{vw17Info{path}, strings.NewReader(c)}, nil
}
func (b *vw17Bucket) Stat(ctx context.Context, path string) (storage.ObjectInfo, error) {
	b.log.events = append(b.log.events, b.name+".Stat("+path+")")
	if _, ok := b.files[path]; !ok {
		return nil, &os.PathError{Op: "stat", Path: path, Err: os.ErrNotExist}
	}
	return vw17Info{path}, nil
}
func (b *vw17Bucket) Walk(ctx context.Context, prefix string, f func(storage.ObjectInfo) error) error {
	b.log.events = append(b.log.events, b.name+".Walk("+prefix+")")
	return nil
}
func (b *vw17Bucket) Put(ctx context.Context, path string, options ...storage.PutOption) (storage.WriteObjectCloser, error) {
	b.log.events = append(b.log.events, b.name+".Put("+path+")")
	if path == b.failPut {
		return nil, errors.New("injected Put failure")
	}
	return &vw17WriteObj{b: b, path: path}, nil
}
func (b *vw17Bucket) Delete(ctx context.Context, path string) error {
	b.log.events = append(b.log.events, b.name+".Delete("+path+")")
	return nil
}
func (b *vw17Bucket) DeleteAll(ctx context.Context, prefix string) error {
	b.log.events = append(b.log.events, b.name+".DeleteAll("+prefix+")")
	return nil
}
func (b *vw17Bucket) SetExternalAndLocalPathsSupported() bool { return false }

type vw17Failing struct{ io.Reader }

func TestVerifReplayC17Writer(t *testing.T) {
	fn := os.Getenv("VERIF_REPLAY_FUNC")
	found, tried := 0, 0
	report := func(format string, args ...any) {
		if found < 4 {
			fmt.Printf("VERIF-REPLAY FAILING-INPUT "+format+"\n", args...)
		}
		found++
	}
	long := strings.Repeat("x", 70*1024)
	lineChoices := []string{"", "a", "  b", "\tc d", long}
	switch fn {
	case "writeWithPrefixAndLineEnding":
		var contents []string
		for _, a := range lineChoices {
			contents = append(contents, a, a+"\n")
			for _, b := range lineChoices {
				contents = append(contents, a+"\n"+b, a+"\n"+b+"\n", a+"\r\n"+b)
				for _, c := range lineChoices[:4] {
					contents = append(contents, a+"\n"+b+"\n"+c+"\n")
				}
			}
		}
		for _, content := range contents {
			for _, prefix := range []string{"", "  ", "\t"} {
				tried++
				dst := bytes.NewBufferString("head")
				writeWithPrefixAndLineEnding(dst, strings.NewReader(content), []byte(prefix), []byte("\n"))
				want := "head"
				for _, l := range vw17Lines(content) {
					want += prefix + l + "\n"
				}
				if got := dst.String(); got != want {
					report("writeWithPrefixAndLineEnding(dst, content %s (%d lines), prefix %q, newline \"\\n\") wrote %d bytes, want %d: every line of the content must be written (prefix + line + newline); got %s", vw17Show(content), len(vw17Lines(content)), prefix, len(got)-4, len(want)-4, vw17Show(got[4:]))
				}
			}
		}
	case "writeInsertionPoint":
		targets := []string{
			"", "x", "x\n", "// @@protoc_insertion_point(p)", "a\n  // @@protoc_insertion_point(p)\nb\n", "\t# @@protoc_insertion_point(p)\n\t# @@protoc_insertion_point(p)\n",
			"a\n// @@protoc_insertion_point(q)\nb", "a\r\n // @@protoc_insertion_point(p)\r\nb\r\n", "\u205F // @@protoc_insertion_point(p)\nz", "@@protoc_insertion_point(p", "a\n\n// @@protoc_insertion_point(p)\n\n",
		}
		contents := []string{"", "i1", "i1\n", "i1\ni2\n", "  i1\n\ni3", long, "i1\n" + long + "\nlast\n"}
		for _, target := range targets {
			for _, content := range contents {
				for _, name := range []string{"p", "q", ""} {
					tried++
					file := &pluginpb.CodeGeneratorResponse_File{Name: proto.String("t.txt"), InsertionPoint: proto.String(name), Content: proto.String(content)}
					got, err := writeInsertionPoint(context.Background(), file, strings.NewReader(target))
					want, ok := vw17IPOracle(target, name, content)
					switch {
					case !ok && err == nil:
						report("writeInsertionPoint(insertion point %q, content %s, target %s) = %s, nil although no target line contains the marker", name, vw17Show(content), vw17Show(target), vw17Show(string(got)))
					case ok && err != nil:
						report("writeInsertionPoint(insertion point %q, content %s, target %s) fails (%v) although the marker is present", name, vw17Show(content), vw17Show(target), err)
					case ok && string(got) != want:
						report("writeInsertionPoint(insertion point %q, content %s (%d lines), target %s) = %s, want %s: the inserted content must appear completely, indented, above every marker line, all other lines unchanged", name, vw17Show(content), len(vw17Lines(content)), vw17Show(target), vw17Show(string(got)), vw17Show(want))
					}
				}
			}
		}
	case "leadingWhitespace":
		alphabet := []string{" ", "\t", "a", "\u00a0", "\u205f", "\xff", "\xe2\x81", "\n"}
		var gen func(prefix string, n int)
		gen = func(prefix string, n int) {
			tried++
			got := string(leadingWhitespace([]byte(prefix)))
			if want := vw17WsOracle(prefix); got != want {
				report("leadingWhitespace(%q) = %q, want %q", prefix, got, want)
			}
			if n == 0 {
				return
			}
			for _, a := range alphabet {
				gen(prefix+a, n-1)
			}
		}
		gen("", 4)
	case "applyInsertionPoint", "WriteResponse":
		type fileSpec struct {
			name, ip, content string
		}
		pool := []fileSpec{
			{"a.txt", "", "A\n// @@protoc_insertion_point(p)\n"}, {"b.txt", "", "B"}, {"a.txt", "p", "ins"}, {"c.txt", "p", "ins"},
			{"a.txt", "zz", "ins"}, {"../x.txt", "", "X"}, {"dir/a.txt", "", "D"},
		}
		var lists [][]fileSpec
		for _, a := range pool {
			lists = append(lists, []fileSpec{a})
			for _, b := range pool {
				lists = append(lists, []fileSpec{a, b})
			}
		}
		for _, list := range lists {
			for _, mode := range []string{"same-bucket", "no-read-bucket", "other-read-bucket", "put-fails"} {
				tried++
				log := &vw17Log{}
				wb := &vw17Bucket{name: "write", log: log, files: map[string]string{}}
				rb := wb
				var options []WriteResponseOption
				switch mode {
				case "same-bucket":
					options = append(options, WriteResponseWithInsertionPointReadBucket(wb))
				case "other-read-bucket":
					rb = &vw17Bucket{name: "read", log: log, files: map[string]string{"a.txt": "R\n@@protoc_insertion_point(p)"}}
					options = append(options, WriteResponseWithInsertionPointReadBucket(rb))
				case "put-fails":
					wb.failPut = list[len(list)-1].name
					options = append(options, WriteResponseWithInsertionPointReadBucket(wb))
				}
				resp := &pluginpb.CodeGeneratorResponse{}
				names := map[string]bool{}
				var desc []string
				hasIP := false
				for _, f := range list {
					file := &pluginpb.CodeGeneratorResponse_File{Name: proto.String(f.name), Content: proto.String(f.content)}
					if f.ip != "" {
						file.InsertionPoint = proto.String(f.ip)
						hasIP = true
					}
					resp.File = append(resp.File, file)
					names[f.name] = true
					desc = append(desc, fmt.Sprintf("{%s ip=%q}", f.name, f.ip))
				}
				err := newResponseWriter(nil).WriteResponse(context.Background(), wb, resp, options...)
				in := fmt.Sprintf("WriteResponse(files [%s], %s)", strings.Join(desc, " "), mode)
				for _, e := range log.events {
					path := e[strings.Index(e, "(")+1 : len(e)-1]
					if !names[path] {
						report("%s: bucket call %s with a name that is not a file name of the response", in, e)
					}
					if strings.HasPrefix(e, "read.Put") || strings.HasPrefix(e, "read.Delete") {
						report("%s: %s: the insertion point read bucket is written", in, e)
					}
					if mode == "other-read-bucket" && strings.HasPrefix(e, "write.Get") {
						report("%s: %s: an insertion point target is read from the write bucket although a read bucket was given", in, e)
					}
				}
				if mode == "no-read-bucket" && hasIP && err == nil {
					report("%s = nil although insertion points are not supported without a read bucket", in)
				}
				if mode == "put-fails" && err == nil {
					puts := 0
					for _, e := range log.events {
						if e == "write.Put("+wb.failPut+")" {
							puts++
						}
					}
					if puts > 0 {
						report("%s = nil although Put(%s) failed", in, wb.failPut)
					}
				}
				if err == nil {
					var keys []string
					for k := range wb.files {
						keys = append(keys, k)
					}
					sort.Strings(keys)
					for _, f := range list {
						if f.ip == "" {
							if _, ok := wb.files[f.name]; !ok {
								report("%s = nil but %s was not written (bucket holds %v)", in, f.name, keys)
							}
						}
					}
				}
				_ = rb
			}
		}
	default:
		fmt.Printf("VERIF-REPLAY no harness for %q\n", fn)
		return
	}
	if found == 0 {
		fmt.Printf("VERIF-REPLAY no failing input found for %s (%d inputs)\n", fn, tried)
	} else {
		fmt.Printf("VERIF-REPLAY %d failing inputs in total for %s (%d tried)\n", found, fn, tried)
	}
}
