package protoencoding

// Replay for C11 obligations of package protoencoding (go test -overlay): a descriptor whose message options carry
// a custom option (an extension) is written in each text encoding with a resolver that knows the extension and
// read back WITHOUT a resolver - the first pass of bufctl's two-pass image read (bootstrapResolver). That pass
// must skip the extension key; a decoder that rejects it makes the written image unreadable.

import (
	"fmt"
	"os"
	"strings"
	"testing"

	"google.golang.org/protobuf/proto"
	"google.golang.org/protobuf/reflect/protodesc"
	"google.golang.org/protobuf/reflect/protoreflect"
	"google.golang.org/protobuf/types/descriptorpb"
	"google.golang.org/protobuf/types/dynamicpb"
)

func TestVerifReplayC11(t *testing.T) {
	obl := os.Getenv("VERIF_REPLAY_OBLIGATION")
	// n/n.proto: extend google.protobuf.MessageOptions { string top = 50011; } message Use { option (n.top) = "toplevel"; }
	extFile := &descriptorpb.FileDescriptorProto{
		Name:       proto.String("n/n.proto"),
		Package:    proto.String("n"),
		Syntax:     proto.String("proto3"),
		Dependency: []string{"google/protobuf/descriptor.proto"},
		Extension: []*descriptorpb.FieldDescriptorProto{{
			Name:     proto.String("top"),
			Number:   proto.Int32(50011),
			Type:     descriptorpb.FieldDescriptorProto_TYPE_STRING.Enum(),
			Label:    descriptorpb.FieldDescriptorProto_LABEL_OPTIONAL.Enum(),
			Extendee: proto.String(".google.protobuf.MessageOptions"),
			JsonName: proto.String("top"),
		}},
		MessageType: []*descriptorpb.DescriptorProto{{Name: proto.String("Use")}},
	}
	descriptorFile := protodesc.ToFileDescriptorProto(descriptorpb.File_google_protobuf_descriptor_proto)
	files, err := protodesc.NewFiles(&descriptorpb.FileDescriptorSet{File: []*descriptorpb.FileDescriptorProto{descriptorFile, extFile}})
	if err != nil {
		fmt.Printf("VERIF-REPLAY setup: %v\n", err)
		return
	}
	extDesc, err := files.FindDescriptorByName("n.top")
	if err != nil {
		fmt.Printf("VERIF-REPLAY setup: %v\n", err)
		return
	}
	extType := dynamicpb.NewExtensionType(extDesc.(protoreflect.ExtensionDescriptor))
	options := &descriptorpb.MessageOptions{}
	proto.SetExtension(options, extType, "toplevel")
	message := &descriptorpb.FileDescriptorSet{File: []*descriptorpb.FileDescriptorProto{{
		Name:        proto.String("n/n.proto"),
		MessageType: []*descriptorpb.DescriptorProto{{Name: proto.String("Use"), Options: options}},
	}}}
	resolver, err := NewResolver(descriptorFile, extFile)
	if err != nil {
		fmt.Printf("VERIF-REPLAY setup: %v\n", err)
		return
	}
	type codec struct {
		name      string
		marshal   Marshaler
		unmarshal Unmarshaler
	}
	codecs := []codec{
		{"json", NewJSONMarshaler(resolver), NewJSONUnmarshaler(nil)},
		{"txtpb", NewTxtpbMarshaler(resolver), NewTxtpbUnmarshaler(nil)},
		{"yaml", NewYAMLMarshaler(resolver), NewYAMLUnmarshaler(nil)},
	}
	found := 0
	for _, c := range codecs {
		if !strings.Contains(strings.ToLower(obl), c.name) {
			continue
		}
		data, err := c.marshal.Marshal(message)
		if err != nil {
			fmt.Printf("VERIF-REPLAY %s marshal: %v\n", c.name, err)
			continue
		}
		back := &descriptorpb.FileDescriptorSet{}
		if err := c.unmarshal.Unmarshal(data, back); err != nil {
			fmt.Printf("VERIF-REPLAY FAILING-INPUT a descriptor set whose message option (n.top) = \"toplevel\" is a custom option, written as %s (%q), is rejected by the resolver-less %s decoder that the two-pass image read starts with: %v\n", c.name, string(data), c.name, err)
			found++
			continue
		}
		if len(back.GetFile()) != 1 || back.GetFile()[0].GetName() != "n/n.proto" {
			fmt.Printf("VERIF-REPLAY FAILING-INPUT %s read-back lost the file: %v\n", c.name, back)
			found++
		}
	}
	if found == 0 {
		fmt.Printf("VERIF-REPLAY no failing input for %q\n", obl)
	}
}
