package lint

// Replay harness for the C20 obligations of `buf lint` (lint.run; injected by gocv with `go test -overlay`; never
// written into /repo). Author ca-R4. The REAL command function is run (real controller and lint client, no network,
// captured stdout/stderr, cache and home in a temporary directory) on small source directories, each with a buf.yaml
// that enables the single rule MESSAGE_PASCAL_CASE:
//
//	clean     message Good {}                       -> no annotation
//	one       message bad_name {} (a.proto:3:9)     -> one annotation
//	two       two badly named messages in two files -> two annotations
//	broken    a syntax error                        -> the build fails
//
// for the error formats text, json, msvs. Documented: the command returns nil exactly when there is nothing to report
// (stdout empty); with lint annotations it prints one record per annotation on stdout and returns
// bufctl.ErrFileAnnotation (errors.Is; exit code 100); a compile failure is bufctl.ErrFileAnnotation as well.

import (
	"bytes"
	"context"
	"errors"
	"fmt"
	"log/slog"
	"os"
	"path/filepath"
	"sort"
	"strings"
	"testing"

	"github.com/bufbuild/buf/private/buf/bufctl"
	"github.com/bufbuild/buf/private/pkg/app"
	"github.com/bufbuild/buf/private/pkg/app/appext"
)

type vr4Env struct {
	dir            string
	stdout, stderr *bytes.Buffer
	container      appext.Container
}

func vr4Setup(t *testing.T, name string, files map[string]string) *vr4Env {
	base := t.TempDir()
	dir := filepath.Join(base, name)
	for n, content := range files {
		p := filepath.Join(dir, filepath.FromSlash(n))
		if err := os.MkdirAll(filepath.Dir(p), 0o755); err != nil {
			t.Fatal(err)
		}
		if err := os.WriteFile(p, []byte(content), 0o644); err != nil {
			t.Fatal(err)
		}
	}
	env := &vr4Env{dir: dir, stdout: &bytes.Buffer{}, stderr: &bytes.Buffer{}}
	appContainer := app.NewContainer(
		map[string]string{"HOME": filepath.Join(base, "home"), "BUF_CACHE_DIR": filepath.Join(base, "cache"), "BUF_CONFIG_DIR": filepath.Join(base, "config")},
		strings.NewReader(""), env.stdout, env.stderr, dir,
	)
	nameContainer, err := appext.NewNameContainer(appContainer, "buf")
	if err != nil {
		t.Fatal(err)
	}
	env.container = appext.NewContainer(nameContainer, slog.New(slog.NewTextHandler(&bytes.Buffer{}, nil)))
	return env
}

func vr4LinesWith(out, fragment string) int {
	n := 0
	for _, line := range strings.Split(out, "\n") {
		if strings.Contains(line, fragment) {
			n++
		}
	}
	return n
}

func vr4Names(files map[string]string) []string {
	var names []string
	for n := range files {
		names = append(names, n)
	}
	sort.Strings(names)
	return names
}

const (
	vr4Yaml   = "version: v2\nlint:\n  use:\n    - MESSAGE_PASCAL_CASE\n"
	vr4Good   = "syntax = \"proto3\";\npackage p;\nmessage Good {}\n"
	vr4Bad    = "syntax = \"proto3\";\npackage p;\nmessage bad_name {}\n"
	vr4Bad2   = "syntax = \"proto3\";\npackage p;\n\nmessage other_bad {}\n"
	vr4Syntax = "syntax = \"proto3\";\npackage p;\nmessage Broken {\n  int32 = 1;\n}\n"
)

func TestVerifReplayC20(t *testing.T) {
	fn := os.Getenv("VERIF_REPLAY_FUNC")
	if fn != "run" {
		fmt.Printf("VERIF-REPLAY no harness for %q\n", fn)
		return
	}
	found := 0
	report := func(format string, a ...any) {
		if found < 4 {
			fmt.Printf("VERIF-REPLAY FAILING-INPUT "+format+"\n", a...)
		}
		found++
	}
	ctx := context.Background()
	tried := 0
	for _, s := range []struct {
		name    string
		files   map[string]string
		records []string // a fragment that identifies each expected record (the message name)
		broken  bool
	}{
		{name: "clean", files: map[string]string{"buf.yaml": vr4Yaml, "a.proto": vr4Good}},
		{name: "one", files: map[string]string{"buf.yaml": vr4Yaml, "a.proto": vr4Bad}, records: []string{"bad_name"}},
		{name: "two", files: map[string]string{"buf.yaml": vr4Yaml, "a.proto": vr4Bad, "b.proto": vr4Bad2, "c.proto": vr4Good}, records: []string{"bad_name", "other_bad"}},
		{name: "broken", files: map[string]string{"buf.yaml": vr4Yaml, "a.proto": vr4Good, "x.proto": vr4Syntax}, broken: true},
	} {
		for _, format := range []string{"text", "json", "msvs"} {
			tried++
			env := vr4Setup(t, s.name, s.files)
			flags := newFlags()
			flags.ErrorFormat = format
			input := fmt.Sprintf("buf lint <dir %q %v, rule MESSAGE_PASCAL_CASE> --error-format=%s", s.name, vr4Names(s.files), format)
			err := run(ctx, env.container, flags)
			stdout := env.stdout.String()
			lines := 0
			if strings.TrimSpace(stdout) != "" {
				lines = len(strings.Split(strings.TrimSuffix(stdout, "\n"), "\n"))
			}
			switch {
			case s.broken:
				if !errors.Is(err, bufctl.ErrFileAnnotation) || app.GetExitCode(err) != 100 {
					report("%s (syntax error at x.proto:4:9) returns %v (exit code %d); documented: bufctl.ErrFileAnnotation (exit code 100)", input, err, app.GetExitCode(err))
				} else if !strings.Contains(stdout+env.stderr.String(), "x.proto") {
					report("%s (syntax error at x.proto:4:9) printed nothing about x.proto (stdout %q, stderr %q)", input, stdout, env.stderr.String())
				}
			case len(s.records) == 0:
				if err != nil || lines != 0 {
					report("%s returns %v and printed %q; documented: nothing to report, nil", input, err, stdout)
				}
			default:
				switch {
				case err == nil:
					report("%s printed %d records (%q) and returns nil; documented: annotations make the command fail with bufctl.ErrFileAnnotation (exit code 100)", input, lines, stdout)
				case !errors.Is(err, bufctl.ErrFileAnnotation) || app.GetExitCode(err) != 100:
					report("%s returns %q (exit code %d); documented: bufctl.ErrFileAnnotation (exit code 100)", input, err, app.GetExitCode(err))
				case lines != len(s.records):
					report("%s printed %d records (%q); documented: one per annotation, %d", input, lines, stdout, len(s.records))
				default:
					for _, r := range s.records {
						if n := vr4LinesWith(stdout, r); n != 1 {
							report("%s: stdout %q does not hold exactly one record about message %s", input, stdout, r)
							break
						}
					}
				}
			}
		}
	}
	if found == 0 {
		fmt.Printf("VERIF-REPLAY no failing input found for %s (%d command runs)\n", fn, tried)
	}
}
