package filelock

// Replay / bounded contract run for the r4h obligations of the filelock package (C09, multi-process clause), injected
// with go test -overlay.
//
//   - lockForFunc / lock / rlock / Lock / RLock: the try-lock function is replaced by every combination of answers
//     (locked, error); real flock(2) locks are taken in a temp dir for the positive cases. Oracle: never (nil, nil); an
//     Unlocker only when the try-lock answered (true, nil), exactly one try; the lock file is the requested one; the
//     try-lock runs under a deadline iff the timeout is non-zero; the defaults are the documented ones.
//   - validatePath / locker.Lock / locker.RLock / newLocker: a catalogue of paths against an independent oracle of "valid
//     relative path in normal form"; refused paths create nothing; accepted paths lock <root>/<path>; a missing root or a
//     root that is a file is refused.

import (
	"context"
	"errors"
	"fmt"
	"os"
	"path/filepath"
	"strings"
	"testing"
	"time"

	"github.com/gofrs/flock"
)

func r4hValidRel(p string) bool {
	if p == "" || strings.HasPrefix(p, "/") {
		return false
	}
	if p == "." {
		return true
	}
	for _, c := range strings.Split(p, "/") {
		if c == "" || c == "." || c == ".." {
			return false
		}
	}
	return true
}

func TestVerifReplayR4hFilelock(t *testing.T) {
	found := 0
	fail := func(format string, args ...any) {
		found++
		fmt.Printf("VERIF-REPLAY FAILING-INPUT "+format+"\n", args...)
	}
	ctx := context.Background()
	dir := t.TempDir()
	// a defective locker may resolve lock paths against the working directory: never let that be the package directory
	if wd, err := os.Getwd(); err == nil {
		if os.Chdir(dir) == nil {
			defer os.Chdir(wd)
		}
	}
	// ---- lockForFunc with every try-lock answer
	tryErr := errors.New("try-lock failed")
	for _, locked := range []bool{false, true} {
		for _, e := range []error{nil, tryErr} {
			for _, timeout := range []time.Duration{0, 50 * time.Millisecond, -1} {
				calls := 0
				var sawDeadline bool
				var sawDelay time.Duration
				var sawPath string
				try := func(f *flock.Flock, c context.Context, d time.Duration) (bool, error) {
					calls++
					_, sawDeadline = c.Deadline()
					sawDelay = d
					sawPath = f.Path()
					return locked, e
				}
				file := filepath.Join(dir, fmt.Sprintf("a%v%v%d", locked, e != nil, timeout), "x.lock")
				var opts []LockOption
				if timeout >= 0 {
					opts = append(opts, LockWithTimeout(timeout), LockWithRetryDelay(7*time.Millisecond))
				}
				u, err := lockForFunc(ctx, file, try, opts...)
				desc := fmt.Sprintf("lockForFunc with try-lock answering (%v, %v), timeout option %v", locked, e, timeout)
				if (u == nil) == (err == nil) {
					fail("%s: returned (%v, %v): exactly one of Unlocker / error must be nil", desc, u, err)
				}
				if err == nil && !(locked && e == nil) {
					fail("%s: an Unlocker is returned although the lock was not taken", desc)
				}
				if locked && e == nil && err != nil {
					fail("%s: the lock was taken but an error is returned: %v", desc, err)
				}
				if calls != 1 {
					fail("%s: %d try-lock calls, want 1", desc, calls)
				}
				if sawPath != file {
					fail("%s: lock object for %q, want %q", desc, sawPath, file)
				}
				if _, serr := os.Stat(filepath.Dir(file)); serr != nil {
					fail("%s: the directory of the lock file was not created", desc)
				}
				wantDeadline := timeout != 0
				if sawDeadline != wantDeadline {
					fail("%s: try-lock ran with deadline=%v, want %v", desc, sawDeadline, wantDeadline)
				}
				wantDelay := 7 * time.Millisecond
				if timeout < 0 {
					wantDelay = DefaultLockRetryDelay
				}
				if sawDelay != wantDelay {
					fail("%s: retry delay %v handed to try-lock, want %v", desc, sawDelay, wantDelay)
				}
			}
		}
	}
	// ---- real locks: exclusive excludes, shared shares, a held lock makes Lock give up with an error
	real := filepath.Join(dir, "real", "m.lock")
	u1, err := Lock(ctx, real)
	if err != nil || u1 == nil {
		fail("Lock(%q) on a free file: (%v, %v)", real, u1, err)
	} else {
		u2, err2 := Lock(ctx, real, LockWithTimeout(60*time.Millisecond), LockWithRetryDelay(10*time.Millisecond))
		if err2 == nil || u2 != nil {
			fail("second exclusive Lock(%q) while the first is held: (%v, %v), want (nil, error)", real, u2, err2)
		}
		u3, err3 := RLock(ctx, real, LockWithTimeout(60*time.Millisecond), LockWithRetryDelay(10*time.Millisecond))
		if err3 == nil || u3 != nil {
			fail("RLock(%q) while an exclusive lock is held: (%v, %v), want (nil, error)", real, u3, err3)
		}
		_ = u1.Unlock()
		r1, e1 := RLock(ctx, real)
		r2, e2 := RLock(ctx, real, LockWithTimeout(60*time.Millisecond), LockWithRetryDelay(10*time.Millisecond))
		if e1 != nil || e2 != nil || r1 == nil || r2 == nil {
			fail("two shared RLock(%q): (%v, %v) and (%v, %v), want both to succeed", real, r1, e1, r2, e2)
		}
		if r1 != nil {
			_ = r1.Unlock()
		}
		if r2 != nil {
			_ = r2.Unlock()
		}
	}
	// ---- validatePath / locker
	root := filepath.Join(dir, "root")
	_ = os.MkdirAll(root, 0755)
	l, err := newLocker(root)
	if err != nil || l == nil {
		fail("newLocker(%q) on an existing directory: %v", root, err)
		return
	}
	rootShared := filepath.Join(dir, "rootshared")
	_ = os.MkdirAll(rootShared, 0755)
	lShared, err := newLocker(rootShared)
	if err != nil || lShared == nil {
		fail("newLocker(%q) on an existing directory: %v", rootShared, err)
		return
	}
	if l.lockTimeout != DefaultLockTimeout || l.lockRetryDelay != DefaultLockRetryDelay {
		fail("newLocker without options: timeout %v delay %v, want the documented defaults", l.lockTimeout, l.lockRetryDelay)
	}
	for _, p := range []string{"a", "a/b.lock", "b5/buf.build/acme/x/0123.lock", ".", "", "/abs", "../up", "a/../b", "a/./b", "a//b", "a/", "./a", "..", "a/..", "a\x00b"} {
		verr := validatePath(p)
		if (verr == nil) != r4hValidRel(p) {
			fail("validatePath(%q) = %v, but valid-relative-normal-form(%q) = %v", p, verr, p, r4hValidRel(p))
		}
		for _, shared := range []bool{false, true} {
			before := r4hTree(dir)
			var u Unlocker
			var lerr error
			useRoot := root
			if shared {
				useRoot = rootShared
				u, lerr = lShared.RLock(ctx, p)
			} else {
				u, lerr = l.Lock(ctx, p)
			}
			what := "Lock"
			if shared {
				what = "RLock"
			}
			if (u == nil) == (lerr == nil) {
				fail("locker.%s(%q) returned (%v, %v): exactly one must be nil", what, p, u, lerr)
			}
			if !r4hValidRel(p) {
				if lerr == nil {
					fail("locker.%s(%q): a path that is not a valid relative path in normal form is accepted", what, p)
				}
				if after := r4hTree(dir); after != before {
					fail("locker.%s(%q): refused path, but the file tree changed: %s -> %s", what, p, before, after)
				}
			} else if lerr == nil && p != "." {
				if _, serr := os.Stat(filepath.Join(useRoot, p)); serr != nil {
					fail("locker.%s(%q) succeeded but %s/%s does not exist (lock file not under the root)", what, p, useRoot, p)
				}
			}
			if u != nil {
				_ = u.Unlock()
			}
		}
	}
	if l2, err := newLocker(filepath.Join(dir, "missing")); err == nil || l2 != nil {
		fail("newLocker on a missing root: (%v, %v), want (nil, error)", l2, err)
	}
	filePath := filepath.Join(dir, "afile")
	_ = os.WriteFile(filePath, []byte("x"), 0644)
	if l3, err := newLocker(filePath); err == nil || l3 != nil {
		fail("newLocker on a root that is a regular file: (%v, %v), want (nil, error)", l3, err)
	}
	if found == 0 {
		fmt.Println("VERIF-REPLAY no failing input found in the r4h filelock catalogue")
	}
}

func r4hTree(dir string) string {
	var names []string
	_ = filepath.Walk(dir, func(p string, _ os.FileInfo, err error) error {
		if err == nil {
			names = append(names, strings.TrimPrefix(p, dir))
		}
		return nil
	})
	return strings.Join(names, ",")
}
