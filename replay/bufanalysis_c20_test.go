package bufanalysis

// Replay / bounded contract run for C20/C02 obligations of package bufanalysis (go test -overlay): every
// format must render the same file, position and message of the same annotation; the comparison must
// be the documented lexicographic order.

import (
	"bytes"
	"encoding/json"
	"encoding/xml"
	"fmt"
	"os"
	"strconv"
	"strings"
	"testing"
)

type vaInfo struct{ p string }

func (i vaInfo) Path() string         { return i.p }
func (i vaInfo) ExternalPath() string { return i.p }

func vaAtLeast1(i int) int {
	if i < 1 {
		return 1
	}
	return i
}

func TestVerifReplayC20(t *testing.T) {
	fn := os.Getenv("VERIF_REPLAY_FUNC")
	found := 0
	report := func(format string, a ...any) {
		if found < 5 {
			fmt.Printf("VERIF-REPLAY FAILING-INPUT "+format+"\n", a...)
		}
		found++
	}
	var anns []FileAnnotation
	for _, path := range []string{"", "a.proto", "dir/report.proto", "x/top.proto"} {
		for _, line := range []int{0, 3} {
			for _, col := range []int{0, 7} {
				for _, msg := range []string{"", "msg with \"quote\"", "m", "two\nlines", "first line\n::error file=other.proto,line=1::injected", "100% \r\n done"} {
					for _, plugin := range []string{"", "plug"} {
						var fi FileInfo
						if path != "" {
							fi = vaInfo{path}
						}
						anns = append(anns, newFileAnnotation(fi, line, col, line+3-len(msg)%2, col+2, "TYPE", msg, plugin))
					}
				}
			}
		}
	}
	for _, a := range anns {
		path := "<input>"
		if a.FileInfo() != nil {
			path = a.FileInfo().ExternalPath()
		}
		msg := a.Message()
		if msg == "" {
			msg = a.Type()
		}
		suffix := ""
		if a.PluginName() != "" {
			suffix = " (" + a.PluginName() + ")"
		}
		line, col := strconv.Itoa(vaAtLeast1(a.StartLine())), strconv.Itoa(vaAtLeast1(a.StartColumn()))
		desc := fmt.Sprintf("annotation{path=%q line=%d col=%d msg=%q plugin=%q}", path, a.StartLine(), a.StartColumn(), a.Message(), a.PluginName())
		if want := path + ":" + line + ":" + col + ":" + msg + suffix; a.String() != want {
			report("%s: text format %q, want %q", desc, a.String(), want)
		}
		buf := bytes.NewBuffer(nil)
		_ = printFileAnnotationAsMSVS(buf, a)
		if want := path + "(" + line + "," + col + ") : error " + a.Type() + " : " + msg + suffix; buf.String() != want {
			report("%s: msvs format %q, want %q", desc, buf.String(), want)
		}
		buf.Reset()
		_ = printFileAnnotationAsGithubActions(buf, a)
		pos := ""
		if a.StartLine() > 0 {
			pos = ",line=" + strconv.Itoa(a.StartLine())
			if a.StartColumn() > 0 {
				pos += ",col=" + strconv.Itoa(a.StartColumn())
			}
			if a.EndLine() > 0 {
				pos += ",endLine=" + strconv.Itoa(a.EndLine())
				if a.EndColumn() > 0 {
					pos += ",endColumn=" + strconv.Itoa(a.EndColumn())
				}
			}
		}
		// github-actions: path, message and plugin name are data of a workflow command (escapeData of actions/toolkit)
		ghaSuffix := ""
		if a.PluginName() != "" {
			ghaSuffix = " (" + vaGhaEscape(a.PluginName()) + ")"
		}
		if want := "::error file=" + vaGhaEscape(path) + pos + "::" + vaGhaEscape(a.Message()) + ghaSuffix; buf.String() != want {
			report("%s: github-actions format %q, want %q", desc, buf.String(), want)
		}
		// a record is ONE workflow command on ONE line, whatever the message text
		// (printFileAnnotationAsGithubActions#post[one-line-per-record])
		if n := strings.Count(buf.String(), "\n"); n != 0 {
			report("%s: the github-actions record spans %d lines: %q", desc, n+1, buf.String())
		}
		lineBuf := bytes.NewBuffer(nil)
		_ = printAsGithubActions(lineBuf, []FileAnnotation{a})
		if lines := strings.Split(strings.TrimSuffix(lineBuf.String(), "\n"), "\n"); len(lines) != 1 {
			commands := 0
			for _, l := range lines {
				if strings.HasPrefix(l, "::") {
					commands++
				}
			}
			report("%s: --error-format=github-actions prints 1 annotation as %d lines holding %d workflow commands: %q", desc, len(lines), commands, lineBuf.String())
		}
		buf.Reset()
		_ = printFileAnnotationAsJSON(buf, a)
		var ext externalFileAnnotation
		if err := json.Unmarshal(buf.Bytes(), &ext); err != nil {
			report("%s: json record does not parse: %v", desc, err)
		} else {
			jp := ext.Path
			if jp == "" {
				jp = "<input>"
			}
			if jp != path || ext.StartLine != vaAtLeast1(a.StartLine()) || ext.StartColumn != vaAtLeast1(a.StartColumn()) || ext.Message != a.Message() || ext.Type != a.Type() || ext.Plugin != a.PluginName() {
				report("%s: json record %s disagrees with the annotation", desc, buf.String())
			}
		}
		// junit: the suite is named after the same path (minus .proto)
		buf.Reset()
		_ = printAsJUnit(buf, []FileAnnotation{a})
		var suites struct {
			Suites []struct {
				Name string `xml:"name,attr"`
			} `xml:"testsuite"`
		}
		if err := xml.Unmarshal(buf.Bytes(), &suites); err != nil || len(suites.Suites) != 1 {
			report("%s: junit output is not one well-formed suite: %v", desc, err)
		} else if want := strings.TrimSuffix(path, ".proto"); suites.Suites[0].Name != want {
			report("%s: junit names the suite %q, the other formats print %q", desc, suites.Suites[0].Name, want)
		}
	}
	// the comparison is the documented lexicographic order (antisymmetric, consistent with the keys)
	for i, a := range anns {
		for j, b := range anns {
			if i%7 != 0 || j%5 != 0 {
				continue
			}
			c1, c2 := fileAnnotationCompareTo(a, b), fileAnnotationCompareTo(b, a)
			if want := vaDocCompare(a, b); (c1 < 0) != (want < 0) || (c1 > 0) != (want > 0) {
				report("fileAnnotationCompareTo(%v, %v) = %d, the documented order (path, start line, start column, type, message, end line, end column) gives %d", a, b, c1, want)
			}
			if (c1 < 0) != (c2 > 0) || (c1 == 0) != (c2 == 0) {
				report("fileAnnotationCompareTo is not antisymmetric on %v / %v: %d, %d", a, b, c1, c2)
			}
		}
	}
	if found == 0 {
		fmt.Printf("VERIF-REPLAY no failing input found for %s (%d annotations, all formats)\n", fn, len(anns))
	}
}

func vaGhaEscape(s string) string {
	s = strings.ReplaceAll(s, "%", "%25")
	s = strings.ReplaceAll(s, "\r", "%0D")
	return strings.ReplaceAll(s, "\n", "%0A")
}

func vaDocCompare(a, b FileAnnotation) int {
	cmpS := func(x, y string) int { return strings.Compare(x, y) }
	cmpI := func(x, y int) int {
		if x < y {
			return -1
		}
		if x > y {
			return 1
		}
		return 0
	}
	ap, bp := "", ""
	ah, bh := 0, 0
	if a.FileInfo() != nil {
		ap, ah = a.FileInfo().ExternalPath(), 1
	}
	if b.FileInfo() != nil {
		bp, bh = b.FileInfo().ExternalPath(), 1
	}
	for _, c := range []int{cmpI(ah, bh), cmpS(ap, bp), cmpI(a.StartLine(), b.StartLine()), cmpI(a.StartColumn(), b.StartColumn()),
		cmpS(a.Type(), b.Type()), cmpS(a.Message(), b.Message()), cmpI(a.EndLine(), b.EndLine()), cmpI(a.EndColumn(), b.EndColumn())} {
		if c != 0 {
			return c
		}
	}
	return 0
}
