package bufcas

// Replay / bounded contract run for C08 obligations of package bufcas (injected with go test -overlay).

import (
	"fmt"
	"os"
	"strings"
	"testing"

	"github.com/bufbuild/buf/private/pkg/normalpath"
)

func TestVerifReplayC08(t *testing.T) {
	fn := os.Getenv("VERIF_REPLAY_FUNC")
	found := 0
	report := func(format string, a ...any) {
		if found < 40 {
			fmt.Printf("VERIF-REPLAY FAILING-INPUT "+format+"\n", a...)
		}
		found++
	}
	digest, err := NewDigestForContent(strings.NewReader("content"))
	if err != nil {
		t.Fatal(err)
	}
	var paths []string
	var rec func(prefix string)
	rec = func(prefix string) {
		if prefix != "" {
			if n, err := normalpath.NormalizeAndValidate(prefix); err == nil && n == prefix && n != "." {
				paths = append(paths, prefix)
			}
		}
		if len(prefix) == 5 {
			return
		}
		for _, c := range "a /.\n" {
			rec(prefix + string(c))
		}
	}
	rec("")
	switch fn {
	case "ParseFileNode", "String", "newManifest", "getAndValidateManifestPathToFileNode", "validateFileNodeParameters", "newFileNode":
		for _, p := range paths {
			node, err := NewFileNode(p, digest)
			if err != nil {
				continue // not accepted as a module path in the first place
			}
			if !strings.Contains(p, "\n") {
				back, err := ParseFileNode(node.String())
				if err != nil {
					report("file node with path %q: String() = %q does not parse back: %v", p, node.String(), err)
				} else if back.Path() != p || !DigestEqual(back.Digest(), digest) {
					report("file node with path %q parses back to path %q", p, back.Path())
				}
			}
			m, err := NewManifest([]FileNode{node})
			if err != nil {
				report("NewManifest rejects the single valid node %q: %v", p, err)
				continue
			}
			m2, err := ParseManifest(m.String())
			if err != nil {
				report("manifest of the single file %q: canonical text %q does not parse back: %v", p, m.String(), err)
			} else if m2.String() != m.String() || len(m2.FileNodes()) != 1 || m2.FileNodes()[0].Path() != p {
				report("manifest of the single file %q parses back to a different manifest %q", p, m2.String())
			}
		}
		// order and duplicates
		for i := 0; i+1 < len(paths) && i < 400; i++ {
			a, _ := NewFileNode(paths[i], digest)
			b, _ := NewFileNode(paths[i+1], digest)
			if a == nil || b == nil {
				continue
			}
			m1, e1 := NewManifest([]FileNode{a, b})
			m2, e2 := NewManifest([]FileNode{b, a})
			if e1 != nil || e2 != nil {
				report("NewManifest rejects two distinct valid nodes %q, %q", paths[i], paths[i+1])
				continue
			}
			if m1.String() != m2.String() {
				report("manifest text depends on the order of the nodes %q, %q", paths[i], paths[i+1])
			}
			if _, err := NewManifest([]FileNode{a, a}); err == nil {
				report("NewManifest accepts the duplicate path %q", paths[i])
			}
		}
	default:
		fmt.Printf("VERIF-REPLAY no harness for %q\n", fn)
		return
	}
	if found == 0 {
		fmt.Printf("VERIF-REPLAY no failing input found for %s (bounded enumeration over %d paths)\n", fn, len(paths))
	}
}
