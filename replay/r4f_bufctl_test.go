package bufctl

// Replay harness (ca-r4f) for the C20 obligation bufctl.validateFileAnnotationErrorFormat. Documented: the controller accepts
// the empty format and the five listed names text, json, msvs, junit, github-actions; anything else is an invalid-argument error.

import (
	"fmt"
	"os"
	"testing"
)

func TestVerifReplayC20R4f(t *testing.T) {
	fn := os.Getenv("VERIF_REPLAY_FUNC")
	if fn != "validateFileAnnotationErrorFormat" {
		fmt.Printf("VERIF-REPLAY no harness for %q\n", fn)
		return
	}
	found, tried := 0, 0
	for format, want := range map[string]bool{"": true, "text": true, "json": true, "msvs": true, "junit": true, "github-actions": true,
		"gcc": false, "xml": false, "TEXT": false, " text": false, "jsonx": false, "<\"é\n\">": false} {
		tried++
		if err := validateFileAnnotationErrorFormat(format); (err == nil) != want {
			if found < 4 {
				fmt.Printf("VERIF-REPLAY FAILING-INPUT validateFileAnnotationErrorFormat(%q) = %v; documented: accepted exactly for \"\" and text, json, msvs, junit, github-actions\n", format, err)
			}
			found++
		}
	}
	if found == 0 {
		fmt.Printf("VERIF-REPLAY no failing input found for %s (%d inputs)\n", fn, tried)
	}
}
