package bufmodule

// Replay / bounded contract run for the ca-r4b obligations of package bufmodule (C08): module digest construction and
// parsing, file types, the b4 digest and the dependency digests fed into b5 (injected with go test -overlay).

import (
	"bytes"
	"context"
	"encoding/hex"
	"fmt"
	"os"
	"strings"
	"testing"

	"github.com/bufbuild/buf/private/bufpkg/bufcas"
	"github.com/bufbuild/buf/private/pkg/storage"
	"github.com/bufbuild/buf/private/pkg/storage/storagemem"
)

func TestVerifReplayC08R4b(t *testing.T) {
	fn := os.Getenv("VERIF_REPLAY_FUNC")
	found := 0
	report := func(format string, a ...any) {
		if found < 40 {
			fmt.Printf("VERIF-REPLAY FAILING-INPUT "+format+"\n", a...)
		}
		found++
	}
	ctx := context.Background()
	cas := func(s string) bufcas.Digest {
		d, err := bufcas.NewDigestForContent(strings.NewReader(s))
		if err != nil {
			t.Fatal(err)
		}
		return d
	}
	switch fn {
	case "NewDigest", "newDigest", "String", "Type", "Value", "ParseDigest", "ParseDigestType":
		names := map[DigestType]string{DigestTypeB4: "shake256", DigestTypeB5: "b5"}
		for _, content := range []string{"", "a", "b"} {
			c := cas(content)
			for _, dt := range []DigestType{0, DigestTypeB4, DigestTypeB5, 3} {
				d, err := NewDigest(dt, c)
				if (err == nil) != (dt == DigestTypeB4 || dt == DigestTypeB5) {
					report("NewDigest(DigestType(%d), shake256 digest): err = %v", int(dt), err)
				}
				if err != nil {
					continue
				}
				want := names[dt] + ":" + hex.EncodeToString(c.Value())
				if d.Type() != dt || !bytes.Equal(d.Value(), c.Value()) || d.String() != want {
					report("NewDigest(%v, digest of %q): type %v string %q, want type %v string %q", dt, content, d.Type(), d.String(), dt, want)
				}
				if nd := newDigest(dt, c); nd.String() != want {
					report("newDigest(%v, digest of %q).String() = %q, want %q", dt, content, nd.String(), want)
				}
				back, err := ParseDigest(want)
				if err != nil || back.Type() != dt || !bytes.Equal(back.Value(), c.Value()) || back.String() != want {
					report("ParseDigest(%q) = %v, %v: does not reverse Digest.String() of a %v digest", want, back, err, dt)
				}
				pt, err := ParseDigestType(dt.String())
				if err != nil || pt != dt {
					report("ParseDigestType(%q) = %v, %v, want %v", dt.String(), pt, err, dt)
				}
			}
			h := hex.EncodeToString(c.Value())
			for _, s := range []string{"", "b5", "b5:", ":" + h, "b6:" + h, "b5:" + h[:126], "b5:" + h + "00", "b5:" + h[:127] + "g", "b5;" + h, "b5:" + h[:127] + "G", " b5:" + h} {
				if d, err := ParseDigest(s); err == nil || d != nil {
					report("ParseDigest(%q) accepted (digest %v): not of the form type:128-hex", s, d)
				}
			}
		}
		for _, s := range []string{"", "B5", "b4", "shake-256", "1", "2"} {
			if dt, err := ParseDigestType(s); err == nil {
				report("ParseDigestType(%q) = %v accepted", s, dt)
			}
		}
	case "ParseFileType", "IsValidModuleFilePath":
		for ft, name := range map[FileType]string{FileTypeProto: "proto", FileTypeDoc: "doc", FileTypeLicense: "license"} {
			if ft.String() != name {
				report("FileType(%d).String() = %q, want %q", int(ft), ft.String(), name)
			}
			if got, err := ParseFileType(name); err != nil || got != ft {
				report("ParseFileType(%q) = %v, %v, want %v", name, got, err, ft)
			}
		}
		for _, s := range []string{"", "Proto", "docs", "LICENSE", "1"} {
			if got, err := ParseFileType(s); err == nil {
				report("ParseFileType(%q) = %v accepted", s, got)
			}
		}
		for p, want := range map[string]bool{"a.proto": true, "d/a.proto": true, "LICENSE": true, "buf.md": true, "README.md": true, "README.markdown": true,
			"d/LICENSE": false, "d/buf.md": false, "a.txt": false, "buf.yaml": false, "": false, "LICENSE.md": false} {
			if got := IsValidModuleFilePath(p); got != want {
				report("IsValidModuleFilePath(%q) = %v, want %v", p, got, want)
			}
		}
	case "getB4Digest":
		yaml, _ := NewObjectData("buf.yaml", []byte("version: v1\n"))
		lock, _ := NewObjectData("buf.lock", []byte("version: v1\ndeps: []\n"))
		files := map[string]string{"a.proto": "syntax = \"proto3\";\n", "LICENSE": "l", "buf.md": "doc", "skip.txt": "x"}
		bucket := storagemem.NewReadWriteBucket()
		for p, c := range files {
			if err := storage.PutPath(ctx, bucket, p, []byte(c)); err != nil {
				t.Fatal(err)
			}
		}
		for _, side := range [][]ObjectData{{nil, nil}, {yaml, nil}, {nil, lock}, {yaml, lock}} {
			got, err := getB4Digest(ctx, bucket, side[0], side[1])
			if err != nil {
				report("getB4Digest(yaml %v, lock %v): %v", side[0] != nil, side[1] != nil, err)
				continue
			}
			// the published construction: manifest over the module files plus the present side files under their names
			var nodes []bufcas.FileNode
			for p, c := range files {
				if p == "skip.txt" {
					continue
				}
				n, _ := bufcas.NewFileNode(p, cas(c))
				nodes = append(nodes, n)
			}
			for _, od := range side {
				if od != nil {
					n, _ := bufcas.NewFileNode(od.Name(), cas(string(od.Data())))
					nodes = append(nodes, n)
				}
			}
			m, _ := bufcas.NewManifest(nodes)
			md, _ := bufcas.ManifestToDigest(m)
			if got.Type() != DigestTypeB4 || !bytes.Equal(got.Value(), md.Value()) {
				report("getB4Digest(yaml %v, lock %v) = %v, want the b4 digest %s of the manifest of module files + present side files", side[0] != nil, side[1] != nil, got, hex.EncodeToString(md.Value())[:16])
			}
		}
	default:
		fmt.Printf("VERIF-REPLAY no harness for %q\n", fn)
		return
	}
	if found == 0 {
		fmt.Printf("VERIF-REPLAY no failing input found for %s (bounded run)\n", fn)
	}
}
