package bufcheckserverhandle

// Replay / bounded contract run for C05 obligations of package bufcheckserverhandle (go test -overlay).

import (
	"fmt"
	"os"
	"strings"
	"testing"
)

// the documented predicate: some line is non-empty and starts with none of the excludes
func vdDocumented(excludes []string, comment string) bool {
	for _, line := range strings.Split(comment, "\n") {
		line = strings.TrimSpace(line)
		if line == "" {
			continue
		}
		excluded := false
		for _, e := range excludes {
			if strings.HasPrefix(line, e) {
				excluded = true
			}
		}
		if !excluded {
			return true
		}
	}
	return false
}

func TestVerifReplayC05(t *testing.T) {
	fn := os.Getenv("VERIF_REPLAY_FUNC")
	found := 0
	report := func(format string, a ...any) {
		if found < 5 {
			fmt.Printf("VERIF-REPLAY FAILING-INPUT "+format+"\n", a...)
		}
		found++
	}
	switch fn {
	case "validLeadingComment", "handleLintCommentNamedDescriptor":
		excludeSets := [][]string{nil, {"a"}, {"buf:lint:ignore"}, {"a", "b"}, {"b", "a"}, {"a", "ab"}}
		var comments []string
		lines := []string{"", "a foo", "b foo", "Hello", " ", "ab"}
		for _, l1 := range lines {
			comments = append(comments, l1)
			for _, l2 := range lines {
				comments = append(comments, l1+"\n"+l2)
			}
		}
		for _, ex := range excludeSets {
			for _, c := range comments {
				if got, want := validLeadingComment(ex, c), vdDocumented(ex, c); got != want {
					report("validLeadingComment(%q, %q) = %v, documented: %v (a comment counts iff some non-empty line starts with none of the excludes)", ex, c, got, want)
				}
			}
		}
	default:
		fmt.Printf("VERIF-REPLAY no harness for %q\n", fn)
		return
	}
	if found == 0 {
		fmt.Printf("VERIF-REPLAY no failing input found for %s (bounded enumeration)\n", fn)
	}
}
