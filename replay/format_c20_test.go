package format

// Replay harness for the C20 obligations of `buf format` (format.run; injected by gocv with `go test -overlay`; never
// written into /repo). Author ca-R4. The REAL command function is run (real controller, no network, captured
// stdout/stderr, cache and home in a temporary directory) on a directory whose single file is either already in
// canonical format or not, for every combination of --exit-code, --diff (-d) and --write (-w).
// Documented ("--exit-code: exit with a non-zero status code (100) if files were not already formatted"): the command
// returns bufctl.ErrFileAnnotation (exit code 100) exactly when --exit-code is given and the file was not formatted -
// whatever the other flags - and nil otherwise; without -w the file on disk is untouched; with -w it is rewritten so
// that a second run with --exit-code finds nothing to do; -d prints a diff exactly when the file was not formatted.

import (
	"bytes"
	"context"
	"errors"
	"fmt"
	"log/slog"
	"os"
	"path/filepath"
	"sort"
	"strings"
	"testing"

	"github.com/bufbuild/buf/private/buf/bufctl"
	"github.com/bufbuild/buf/private/pkg/app"
	"github.com/bufbuild/buf/private/pkg/app/appext"
)

type vr4Env struct {
	dir            string
	stdout, stderr *bytes.Buffer
	container      appext.Container
}

func vr4Setup(t *testing.T, name string, files map[string]string) *vr4Env {
	base := t.TempDir()
	dir := filepath.Join(base, name)
	for n, content := range files {
		p := filepath.Join(dir, filepath.FromSlash(n))
		if err := os.MkdirAll(filepath.Dir(p), 0o755); err != nil {
			t.Fatal(err)
		}
		if err := os.WriteFile(p, []byte(content), 0o644); err != nil {
			t.Fatal(err)
		}
	}
	env := &vr4Env{dir: dir, stdout: &bytes.Buffer{}, stderr: &bytes.Buffer{}}
	appContainer := app.NewContainer(
		map[string]string{"HOME": filepath.Join(base, "home"), "BUF_CACHE_DIR": filepath.Join(base, "cache"), "BUF_CONFIG_DIR": filepath.Join(base, "config")},
		strings.NewReader(""), env.stdout, env.stderr, dir,
	)
	nameContainer, err := appext.NewNameContainer(appContainer, "buf")
	if err != nil {
		t.Fatal(err)
	}
	env.container = appext.NewContainer(nameContainer, slog.New(slog.NewTextHandler(&bytes.Buffer{}, nil)))
	return env
}

func vr4Names(files map[string]string) []string {
	var names []string
	for n := range files {
		names = append(names, n)
	}
	sort.Strings(names)
	return names
}

const (
	vr4Formatted   = "syntax = \"proto3\";\n\npackage p;\n\nmessage A {}\n"
	vr4Unformatted = "syntax = \"proto3\";\npackage p;\nmessage   A {   }\n"
)

func TestVerifReplayC20(t *testing.T) {
	fn := os.Getenv("VERIF_REPLAY_FUNC")
	if fn != "run" {
		fmt.Printf("VERIF-REPLAY no harness for %q\n", fn)
		return
	}
	found := 0
	report := func(format string, a ...any) {
		if found < 4 {
			fmt.Printf("VERIF-REPLAY FAILING-INPUT "+format+"\n", a...)
		}
		found++
	}
	ctx := context.Background()
	tried := 0
	// the generator's assumption: the "formatted" text is a fixed point of the formatter
	{
		env := vr4Setup(t, "probe", map[string]string{"a.proto": vr4Formatted})
		flags := newFlags()
		flags.Output, flags.ErrorFormat, flags.ExitCode = "-", "text", true
		if err := run(ctx, env.container, flags); err != nil {
			fmt.Printf("VERIF-REPLAY generator problem: the canonical text is not accepted as formatted: %v\n", err)
			return
		}
	}
	for _, unformatted := range []bool{false, true} {
		for _, exitCode := range []bool{false, true} {
			for _, diff := range []bool{false, true} {
				for _, write := range []bool{false, true} {
					tried++
					content := vr4Formatted
					if unformatted {
						content = vr4Unformatted
					}
					env := vr4Setup(t, "src", map[string]string{"a.proto": content})
					flags := newFlags()
					flags.Output, flags.ErrorFormat = "-", "text"
					flags.ExitCode, flags.Diff, flags.Write = exitCode, diff, write
					input := fmt.Sprintf("buf format <dir with a.proto = %q> --exit-code=%v --diff=%v --write=%v", content, exitCode, diff, write)
					err := run(ctx, env.container, flags)
					after, _ := os.ReadFile(filepath.Join(env.dir, "a.proto"))
					wantFail := exitCode && unformatted
					switch {
					case wantFail && (!errors.Is(err, bufctl.ErrFileAnnotation) || app.GetExitCode(err) != 100):
						report("%s returns %v (exit code %d); documented: --exit-code gives status 100 when a file was not already formatted", input, err, app.GetExitCode(err))
						continue
					case !wantFail && err != nil:
						report("%s returns %q (exit code %d); documented: success", input, err, app.GetExitCode(err))
						continue
					case !write && string(after) != content:
						report("%s changed the file on disk to %q although -w was not given", input, after)
						continue
					case diff && (env.stdout.Len() > 0) != unformatted && !write:
						report("%s printed %q; documented: a diff exactly when the file was not formatted", input, env.stdout.String())
						continue
					}
					if write {
						again := vr4Setup(t, "again", map[string]string{"a.proto": string(after)})
						flags2 := newFlags()
						flags2.Output, flags2.ErrorFormat, flags2.ExitCode = "-", "text", true
						if err := run(ctx, again.container, flags2); err != nil {
							report("%s left a.proto = %q, which a second run with --exit-code still finds unformatted (%v); documented: -w rewrites the file in place", input, after, err)
						}
					}
				}
			}
		}
	}
	if found == 0 {
		fmt.Printf("VERIF-REPLAY no failing input found for %s (%d command runs)\n", fn, tried)
	}
}
