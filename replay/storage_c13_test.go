package storage

// Replay / bounded contract run for the mapped-view obligations (C13, C14) of package storage
// (injected with go test -overlay). A recording delegate observes every path a prefix-mapped view hands
// down; each must be a valid relative path inside the mapped prefix, and must be the mapped validated path.

import (
	"context"
	"fmt"
	"os"
	"strings"
	"testing"
)

type vrBucket struct{ seen []string }

func (b *vrBucket) note(op, p string) { b.seen = append(b.seen, op+" "+p) }
func (b *vrBucket) Get(ctx context.Context, path string) (ReadObjectCloser, error) {
	b.note("Get", path)
	return nil, &os.PathError{Op: "get", Path: path, Err: os.ErrNotExist}
}
func (b *vrBucket) Stat(ctx context.Context, path string) (ObjectInfo, error) {
	b.note("Stat", path)
	return nil, &os.PathError{Op: "stat", Path: path, Err: os.ErrNotExist}
}
func (b *vrBucket) Walk(ctx context.Context, prefix string, f func(ObjectInfo) error) error {
	b.note("Walk", prefix)
	return nil
}
func (b *vrBucket) Put(ctx context.Context, path string, _ ...PutOption) (WriteObjectCloser, error) {
	b.note("Put", path)
	return nil, fmt.Errorf("recording bucket")
}
func (b *vrBucket) Delete(ctx context.Context, path string) error { b.note("Delete", path); return nil }
func (b *vrBucket) DeleteAll(ctx context.Context, prefix string) error {
	b.note("DeleteAll", prefix)
	return nil
}
func (b *vrBucket) SetExternalAndLocalPathsSupported() bool { return false }

func vrValid(s string) bool {
	if s == "." {
		return true
	}
	if s == "" {
		return false
	}
	for _, c := range strings.Split(s, "/") {
		if c == "" || c == "." || c == ".." {
			return false
		}
	}
	return true
}

func TestVerifReplayC13(t *testing.T) {
	fn := os.Getenv("VERIF_REPLAY_FUNC")
	ctx := context.Background()
	found := 0
	report := func(format string, a ...any) {
		if found < 5 {
			fmt.Printf("VERIF-REPLAY FAILING-INPUT "+format+"\n", a...)
		}
		found++
	}
	var inputs []string
	var rec func(p string)
	rec = func(p string) {
		inputs = append(inputs, p)
		if len(p) == 6 {
			return
		}
		for _, c := range "a./" {
			rec(p + string(c))
		}
	}
	rec("")
	for _, prefix := range []string{"m/a", "m", "."} {
		for _, in := range inputs {
			d := &vrBucket{}
			r := MapReadBucket(d, MapOnPrefix(prefix))
			w := MapWriteBucket(d, MapOnPrefix(prefix))
			switch fn {
			case "Get":
				_, _ = r.Get(ctx, in)
			case "Stat":
				_, _ = r.Stat(ctx, in)
			case "Walk":
				_ = r.Walk(ctx, in, func(ObjectInfo) error { return nil })
			case "Put":
				_, _ = w.Put(ctx, in)
			case "Delete":
				_ = w.Delete(ctx, in)
			case "DeleteAll":
				_ = w.DeleteAll(ctx, in)
			case "getFullPath":
				_, _ = r.Get(ctx, in)
				_ = w.Delete(ctx, in)
			default:
				fmt.Printf("VERIF-REPLAY no harness for %q\n", fn)
				return
			}
			for _, s := range d.seen {
				p := s[strings.Index(s, " ")+1:]
				inside := prefix == "." || p == prefix || strings.HasPrefix(p, prefix+"/")
				if !vrValid(p) || !inside {
					report("view on prefix %q, %s(%q): the delegate received %s, which is outside the view's root", prefix, fn, in, s)
				}
			}
		}
	}
	if found == 0 {
		fmt.Printf("VERIF-REPLAY no failing input found for %s (all strings over {a . /} up to length 6, three prefixes)\n", fn)
	}
}
