package storage

// Replay / model-based run for the C14 obligations of package storage (combinators), injected with go test -overlay.
//
// Every combinator is built over trivially correct map-backed leaf buckets and compared with the view the
// documentation promises, computed independently as a map path -> (bytes, external path, duplicate?):
//
//	union (MultiReadBucket)    a path in exactly one member is that object; in two members it is REPORTED
//	                           (IsExistsMultipleLocations, not not-exist) by Get, Stat and by a Walk that covers it
//	overlay                    first member wins, every path once
//	filter + matchers          exactly the matching paths (ext, base, equal, equal-or-contained, contained, or/and/not)
//	strip                      same objects, external path == path
//	map (prefix, chain)        exactly the objects under the prefix, named relative to it; writes land under the prefix
//	nop                        empty
//
// and depth-2 compositions of these. For every view: Get/Stat on every spelling in a probe list (equivalent
// spellings denote the same object, invalid paths are rejected, absent paths are not-exist) and Walk on every
// probe prefix (path-wise prefix, a prefix equal to a file walks that file, "" and "." walk everything, each
// object exactly once). Mapped read-write views are also driven through all operation sequences of length <= 2
// (put / delete / delete-all) against the model.

import (
	"context"
	"errors"
	"fmt"
	"io"
	"io/fs"
	"os"
	"path"
	"sort"
	"strings"
	"testing"
)

// ----- independent path model -----

func vr14Norm(p string) (string, bool) {
	if strings.HasPrefix(p, "/") {
		return "", false
	}
	c := path.Clean(p) // "" -> "."
	if c == ".." || strings.HasPrefix(c, "../") {
		return "", false
	}
	return c, true
}

func vr14Under(prefix, p string) bool {
	return prefix == "." || p == prefix || strings.HasPrefix(p, prefix+"/")
}

// ----- leaf bucket: a map -----

type vr14Obj struct {
	data string
	ext  string
	dup  bool
}

type vr14Info struct{ p, ext string }

func (i vr14Info) Path() string         { return i.p }
func (i vr14Info) ExternalPath() string { return i.ext }
func (i vr14Info) LocalPath() string    { return "" }

type vr14Reader struct {
	vr14Info
	r *strings.Reader
}

func (r *vr14Reader) Read(p []byte) (int, error) { return r.r.Read(p) }
func (r *vr14Reader) Close() error               { return nil }

type vr14Leaf struct {
	name  string
	files map[string]vr14Obj
}

func (b *vr14Leaf) Get(_ context.Context, p string) (ReadObjectCloser, error) {
	n, ok := vr14Norm(p)
	if !ok {
		return nil, fmt.Errorf("invalid path %q", p)
	}
	o, ok := b.files[n]
	if !ok {
		return nil, &fs.PathError{Op: "read", Path: n, Err: fs.ErrNotExist}
	}
	return &vr14Reader{vr14Info{n, o.ext}, strings.NewReader(o.data)}, nil
}

func (b *vr14Leaf) Stat(_ context.Context, p string) (ObjectInfo, error) {
	n, ok := vr14Norm(p)
	if !ok {
		return nil, fmt.Errorf("invalid path %q", p)
	}
	o, ok := b.files[n]
	if !ok {
		return nil, &fs.PathError{Op: "stat", Path: n, Err: fs.ErrNotExist}
	}
	return vr14Info{n, o.ext}, nil
}

func (b *vr14Leaf) Walk(_ context.Context, prefix string, f func(ObjectInfo) error) error {
	n, ok := vr14Norm(prefix)
	if !ok {
		return fmt.Errorf("invalid prefix %q", prefix)
	}
	var paths []string
	for p := range b.files {
		if vr14Under(n, p) {
			paths = append(paths, p)
		}
	}
	sort.Strings(paths)
	for _, p := range paths {
		if err := f(vr14Info{p, b.files[p].ext}); err != nil {
			return err
		}
	}
	return nil
}

type vr14Writer struct {
	b   *vr14Leaf
	p   string
	buf strings.Builder
}

func (w *vr14Writer) Write(p []byte) (int, error)  { return w.buf.Write(p) }
func (w *vr14Writer) SetExternalPath(string) error { return errors.New("unsupported") }
func (w *vr14Writer) SetLocalPath(string) error    { return errors.New("unsupported") }
func (w *vr14Writer) Close() error {
	w.b.files[w.p] = vr14Obj{data: w.buf.String(), ext: w.b.name + ":" + w.p}
	return nil
}

func (b *vr14Leaf) Put(_ context.Context, p string, _ ...PutOption) (WriteObjectCloser, error) {
	n, ok := vr14Norm(p)
	if !ok || n == "." {
		return nil, fmt.Errorf("invalid path %q", p)
	}
	return &vr14Writer{b: b, p: n}, nil
}

func (b *vr14Leaf) Delete(_ context.Context, p string) error {
	n, ok := vr14Norm(p)
	if !ok {
		return fmt.Errorf("invalid path %q", p)
	}
	if _, ok := b.files[n]; !ok {
		return &fs.PathError{Op: "delete", Path: n, Err: fs.ErrNotExist}
	}
	delete(b.files, n)
	return nil
}

func (b *vr14Leaf) DeleteAll(_ context.Context, prefix string) error {
	n, ok := vr14Norm(prefix)
	if !ok {
		return fmt.Errorf("invalid prefix %q", prefix)
	}
	for p := range b.files {
		if vr14Under(n, p) {
			delete(b.files, p)
		}
	}
	return nil
}

func (b *vr14Leaf) SetExternalAndLocalPathsSupported() bool { return false }

func vr14NewLeaf(name string, sameExternal bool, paths ...string) *vr14Leaf {
	l := &vr14Leaf{name: name, files: map[string]vr14Obj{}}
	for _, p := range paths {
		ext := name + ":" + p
		if sameExternal {
			ext = p
		}
		l.files[p] = vr14Obj{data: name + " has " + p, ext: ext}
	}
	return l
}

// ----- expression tree: builds the real combinator and the documented view -----

type vr14Node struct {
	desc  string
	build func() ReadBucket
	view  func() map[string]vr14Obj
}

func vr14LeafNode(l *vr14Leaf) *vr14Node {
	var paths []string
	for p := range l.files {
		paths = append(paths, p)
	}
	sort.Strings(paths)
	return &vr14Node{
		desc:  fmt.Sprintf("%s%v", l.name, paths),
		build: func() ReadBucket { return l },
		view: func() map[string]vr14Obj {
			out := map[string]vr14Obj{}
			for p, o := range l.files {
				out[p] = o
			}
			return out
		},
	}
}

func vr14Descs(children []*vr14Node) string {
	var ds []string
	for _, c := range children {
		ds = append(ds, c.desc)
	}
	return strings.Join(ds, ", ")
}

func vr14Multi(overlay bool, children ...*vr14Node) *vr14Node {
	name := "union"
	if overlay {
		name = "overlay"
	}
	return &vr14Node{
		desc: name + "(" + vr14Descs(children) + ")",
		build: func() ReadBucket {
			var bs []ReadBucket
			for _, c := range children {
				bs = append(bs, c.build())
			}
			if overlay {
				return OverlayReadBucket(bs...)
			}
			return MultiReadBucket(bs...)
		},
		view: func() map[string]vr14Obj {
			out := map[string]vr14Obj{}
			for _, c := range children {
				for p, o := range c.view() {
					if prev, ok := out[p]; ok {
						if !overlay {
							prev.dup = true
							out[p] = prev
						}
						continue
					}
					out[p] = o
				}
			}
			return out
		},
	}
}

type vr14Matcher struct {
	desc  string
	m     func() Matcher
	match func(p string) bool
}

func vr14Matchers() []vr14Matcher {
	base := []vr14Matcher{
		{`ext(".x")`, func() Matcher { return MatchPathExt(".x") }, func(p string) bool { return path.Ext(p) == ".x" }},
		{`base("f.x")`, func() Matcher { return MatchPathBase("f.x") }, func(p string) bool { return path.Base(p) == "f.x" }},
		{`equal("a/f.x")`, func() Matcher { return MatchPathEqual("a/f.x") }, func(p string) bool { return p == "a/f.x" }},
		{`equalOrContained("a")`, func() Matcher { return MatchPathEqualOrContained("a") }, func(p string) bool { return vr14Under("a", p) }},
		{`equalOrContained("a/f.x")`, func() Matcher { return MatchPathEqualOrContained("a/f.x") }, func(p string) bool { return vr14Under("a/f.x", p) }},
		{`contained("a")`, func() Matcher { return MatchPathContained("a") }, func(p string) bool { return p != "a" && vr14Under("a", p) }},
		{`contained(".")`, func() Matcher { return MatchPathContained(".") }, func(p string) bool { return p != "." }},
	}
	out := append([]vr14Matcher{}, base...)
	for i, a := range base {
		a := a
		out = append(out, vr14Matcher{"not(" + a.desc + ")", func() Matcher { return MatchNot(a.m()) }, func(p string) bool { return !a.match(p) }})
		for _, b := range base[i+1:] {
			b := b
			out = append(out,
				vr14Matcher{"or(" + a.desc + ", " + b.desc + ")", func() Matcher { return MatchOr(a.m(), b.m()) }, func(p string) bool { return a.match(p) || b.match(p) }},
				vr14Matcher{"and(" + a.desc + ", " + b.desc + ")", func() Matcher { return MatchAnd(a.m(), b.m()) }, func(p string) bool { return a.match(p) && b.match(p) }},
			)
		}
	}
	out = append(out,
		vr14Matcher{"or()", func() Matcher { return MatchOr() }, func(string) bool { return false }},
		vr14Matcher{"and()", func() Matcher { return MatchAnd() }, func(string) bool { return true }},
		vr14Matcher{`or(equal("b"), equal("ab"), ext(".x"))`, func() Matcher { return MatchOr(MatchPathEqual("b"), MatchPathEqual("ab"), MatchPathExt(".x")) }, func(p string) bool { return p == "b" || p == "ab" || path.Ext(p) == ".x" }},
		vr14Matcher{`and(not(equal("b")), not(ext(".x")), contained("."))`, func() Matcher {
			return MatchAnd(MatchNot(MatchPathEqual("b")), MatchNot(MatchPathExt(".x")), MatchPathContained("."))
		}, func(p string) bool { return p != "b" && path.Ext(p) != ".x" && p != "." }},
	)
	return out
}

func vr14Filter(child *vr14Node, ms ...vr14Matcher) *vr14Node {
	var ds []string
	for _, m := range ms {
		ds = append(ds, m.desc)
	}
	return &vr14Node{
		desc: "filter(" + child.desc + "; " + strings.Join(ds, ", ") + ")",
		build: func() ReadBucket {
			var matchers []Matcher
			for _, m := range ms {
				matchers = append(matchers, m.m())
			}
			return FilterReadBucket(child.build(), matchers...)
		},
		view: func() map[string]vr14Obj {
			out := map[string]vr14Obj{}
			for p, o := range child.view() {
				keep := true
				for _, m := range ms {
					keep = keep && m.match(p)
				}
				if keep {
					out[p] = o
				}
			}
			return out
		},
	}
}

func vr14Strip(child *vr14Node) *vr14Node {
	return &vr14Node{
		desc:  "strip(" + child.desc + ")",
		build: func() ReadBucket { return StripReadBucketExternalPaths(child.build()) },
		view: func() map[string]vr14Obj {
			out := map[string]vr14Obj{}
			for p, o := range child.view() {
				o.ext = p
				out[p] = o
			}
			return out
		},
	}
}

func vr14Map(child *vr14Node, prefixes ...string) *vr14Node {
	full := path.Join(prefixes...)
	if len(prefixes) == 0 {
		full = "."
	}
	return &vr14Node{
		desc: fmt.Sprintf("map(%s; prefixes %q)", child.desc, prefixes),
		build: func() ReadBucket {
			var mappers []Mapper
			for _, p := range prefixes {
				mappers = append(mappers, MapOnPrefix(p))
			}
			return MapReadBucket(child.build(), mappers...)
		},
		view: func() map[string]vr14Obj {
			out := map[string]vr14Obj{}
			for p, o := range child.view() {
				if full == "." {
					out[p] = o
				} else if strings.HasPrefix(p, full+"/") {
					out[strings.TrimPrefix(p, full+"/")] = o
				}
			}
			return out
		},
	}
}

// ----- comparison -----

var vr14Noted bool

// the object's path is not the normalized path but the caller's own (equivalent) spelling of it
func vr14Spelled(got, norm, asked string) bool {
	return got != norm && got == asked
}

type vr14 struct{ found int }

func (v *vr14) report(format string, a ...any) {
	if v.found < 4 {
		fmt.Printf("VERIF-REPLAY FAILING-INPUT "+format+"\n", a...)
	}
	v.found++
}

var vr14Probes = []string{
	"", ".", "a", "a/", "./a", "a/.", "a/f.x", "./a/f.x", "a//f.x", "a/g/../f.x", "a/f.x/", "a/g", "a/g/h.y", "ab", "a.x", "a-b", "a-b/c",
	"b", "b/f.x", "c", "f.x", "g", "g/h.y", "h.y", "m", "m/a", "m/a/f.x", "zz", "a/f", "a/f.x/z", "/a", "..", "../a", "a/../..", "a/../../b",
}

func vr14Check(ctx context.Context, v *vr14, n *vr14Node) int {
	b := n.build()
	view := n.view()
	tried := 0
	for _, q := range vr14Probes {
		tried++
		norm, valid := vr14Norm(q)
		info, statErr := b.Stat(ctx, q)
		obj, getErr := b.Get(ctx, q)
		var data string
		if getErr == nil {
			d, _ := io.ReadAll(obj)
			data = string(d)
			_ = obj.Close()
		}
		want, in := view[norm]
		switch {
		case !valid:
			if statErr == nil || getErr == nil {
				v.report("%s: Stat/Get(%q) succeed on a path that is not a valid relative path (stat err %v, get err %v)", n.desc, q, statErr, getErr)
			}
		case !in:
			if statErr == nil || getErr == nil {
				v.report("%s: Stat/Get(%q) find an object, but the bucket has none at %q (stat err %v, get err %v, data %q)", n.desc, q, norm, statErr, getErr, data)
			} else if norm != "." && (!IsNotExist(statErr) || !IsNotExist(getErr)) {
				v.report("%s: Stat/Get(%q): the path is absent, the errors must satisfy IsNotExist (stat: %v, get: %v)", n.desc, q, statErr, getErr)
			}
		case want.dup:
			if statErr == nil || getErr == nil {
				v.report("%s: Stat/Get(%q) hide that %q is present in two members of the union (stat err %v, get err %v, data %q)", n.desc, q, norm, statErr, getErr, data)
			} else if !IsExistsMultipleLocations(statErr) || !IsExistsMultipleLocations(getErr) || IsNotExist(statErr) || IsNotExist(getErr) {
				v.report("%s: Stat/Get(%q): %q is present in two members, which must be reported as multiple locations (stat: %v, get: %v)", n.desc, q, norm, statErr, getErr)
			}
		default:
			if statErr != nil || getErr != nil {
				v.report("%s: Stat/Get(%q) fail although the bucket has %q (stat: %v, get: %v)", n.desc, q, norm, statErr, getErr)
			} else if vr14Spelled(info.Path(), norm, q) || vr14Spelled(obj.Path(), norm, q) {
				// documented ("this path will always be normalized") but not part of any C14 obligation: a mapped view
				// echoes the caller's spelling in ObjectInfo.Path(); noted once, not reported as a failing input
				if !vr14Noted {
					vr14Noted = true
					fmt.Printf("VERIF-REPLAY note: %s: Stat/Get(%q) hand out an object whose Path() is the unnormalized spelling %q (model: %q)\n", n.desc, q, info.Path(), norm)
				}
				if data != want.data {
					v.report("%s: Get(%q) has data %q; the model has %q", n.desc, q, data, want.data)
				}
			} else if info.Path() != norm || obj.Path() != norm || data != want.data || info.ExternalPath() != want.ext || obj.ExternalPath() != want.ext {
				v.report("%s: Stat/Get(%q) = path %q/%q external %q/%q data %q; the model has path %q external %q data %q", n.desc, q, info.Path(), obj.Path(), info.ExternalPath(), obj.ExternalPath(), data, norm, want.ext, want.data)
			}
		}
		// Walk with q as prefix
		var got []string
		walkErr := b.Walk(ctx, q, func(i ObjectInfo) error {
			got = append(got, i.Path()+" ("+i.ExternalPath()+")")
			return nil
		})
		if !valid {
			if walkErr == nil {
				v.report("%s: Walk(%q) succeeds on a prefix that is not a valid relative path (visited %v)", n.desc, q, got)
			}
			continue
		}
		var wantPaths []string
		dup := ""
		for p, o := range view {
			if vr14Under(norm, p) {
				wantPaths = append(wantPaths, p+" ("+o.ext+")")
				if o.dup {
					dup = p
				}
			}
		}
		sort.Strings(wantPaths)
		sort.Strings(got)
		if dup != "" {
			if walkErr == nil {
				v.report("%s: Walk(%q) returns nil and visits %v although %q is present in two members of the union (a duplicate must be reported, not hidden)", n.desc, q, got, dup)
			} else if !IsExistsMultipleLocations(walkErr) {
				v.report("%s: Walk(%q): %q is present in two members, the error must be a multiple-locations error: %v", n.desc, q, dup, walkErr)
			}
			continue
		}
		if walkErr != nil {
			v.report("%s: Walk(%q) fails: %v", n.desc, q, walkErr)
		} else if fmt.Sprint(got) != fmt.Sprint(wantPaths) {
			v.report("%s: Walk(%q) visits %v; the objects path-wise under %q are %v", n.desc, q, got, norm, wantPaths)
		}
	}
	return tried
}

// ----- families -----

func vr14Leaves() (l1, l2, l3, l2same, l1same *vr14Leaf) {
	l1 = vr14NewLeaf("L1", false, "a/f.x", "a/g/h.y", "ab", "a.x", "b", "m/a/f.x")
	l2 = vr14NewLeaf("L2", false, "a/f.x", "c", "a-b/c", "m/a/k")
	l3 = vr14NewLeaf("L3", false, "g/h.y", "zz")
	l2same = vr14NewLeaf("L2s", true, "a/f.x", "c")
	l1same = vr14NewLeaf("L1s", true, "a/f.x", "b")
	return
}

func vr14FamilyMulti(ctx context.Context, v *vr14) int {
	l1, l2, l3, l2same, l1same := vr14Leaves()
	empty := vr14NewLeaf("E", false)
	tried := 0
	for _, overlay := range []bool{false, true} {
		for _, n := range []*vr14Node{
			vr14Multi(overlay),
			vr14Multi(overlay, vr14LeafNode(l1)),
			vr14Multi(overlay, vr14LeafNode(l1), vr14LeafNode(l3)),
			vr14Multi(overlay, vr14LeafNode(l3), vr14LeafNode(l1)),
			vr14Multi(overlay, vr14LeafNode(l1), vr14LeafNode(l2)),
			vr14Multi(overlay, vr14LeafNode(l2), vr14LeafNode(l1)),
			vr14Multi(overlay, vr14LeafNode(l3), vr14LeafNode(l1), vr14LeafNode(l2)),
			vr14Multi(overlay, vr14LeafNode(l1), vr14LeafNode(empty), vr14LeafNode(l2)),
			vr14Multi(overlay, vr14LeafNode(l1same), vr14LeafNode(l2same)),
			vr14Multi(overlay, vr14Strip(vr14LeafNode(l1)), vr14Strip(vr14LeafNode(l2))),
			vr14Multi(overlay, vr14LeafNode(l1), vr14LeafNode(l1)),
			vr14Multi(overlay, vr14Map(vr14LeafNode(l1), "m"), vr14LeafNode(l2)),
			vr14Multi(overlay, vr14Filter(vr14LeafNode(l1), vr14Matchers()[0]), vr14Filter(vr14LeafNode(l2), vr14Matchers()[0])),
			vr14Filter(vr14Multi(overlay, vr14LeafNode(l1), vr14LeafNode(l2)), vr14Matchers()[3]),
			vr14Map(vr14Multi(overlay, vr14LeafNode(l1), vr14LeafNode(l2)), "m", "a"),
			vr14Strip(vr14Multi(overlay, vr14LeafNode(l1), vr14LeafNode(l3))),
		} {
			tried += vr14Check(ctx, v, n)
		}
	}
	return tried
}

func vr14FamilyFilter(ctx context.Context, v *vr14) int {
	l1, l2, _, _, _ := vr14Leaves()
	tried := 0
	ms := vr14Matchers()
	// truth tables of the matchers themselves
	for _, m := range ms {
		real := m.m()
		for _, q := range vr14Probes {
			if n, ok := vr14Norm(q); ok && n == q {
				tried++
				if got, want := real.MatchPath(q), m.match(q); got != want {
					v.report("matcher %s: MatchPath(%q) = %v, documented %v", m.desc, q, got, want)
				}
			}
		}
	}
	for _, m := range ms {
		tried += vr14Check(ctx, v, vr14Filter(vr14LeafNode(l1), m))
	}
	tried += vr14Check(ctx, v, vr14Filter(vr14LeafNode(l1)))
	tried += vr14Check(ctx, v, vr14Filter(vr14LeafNode(l1), ms[0], ms[3]))
	tried += vr14Check(ctx, v, vr14Filter(vr14Filter(vr14LeafNode(l1), ms[3]), ms[0]))
	tried += vr14Check(ctx, v, vr14Filter(vr14Map(vr14LeafNode(l1), "m"), ms[3]))
	tried += vr14Check(ctx, v, vr14Map(vr14Filter(vr14LeafNode(l1), ms[0]), "m"))
	tried += vr14Check(ctx, v, vr14Strip(vr14Filter(vr14LeafNode(l2), ms[3])))
	return tried
}

func vr14FamilyStrip(ctx context.Context, v *vr14) int {
	l1, l2, _, _, l1same := vr14Leaves()
	tried := 0
	for _, n := range []*vr14Node{
		vr14Strip(vr14LeafNode(l1)), vr14Strip(vr14LeafNode(l1same)), vr14Strip(vr14Strip(vr14LeafNode(l2))),
		vr14Strip(vr14Map(vr14LeafNode(l1), "m")), vr14Map(vr14Strip(vr14LeafNode(l1)), "m"),
		vr14Strip(vr14Filter(vr14LeafNode(l1), vr14Matchers()[0])),
	} {
		tried += vr14Check(ctx, v, n)
	}
	// identity clause: an object whose external path already equals its path is handed through unchanged
	in := vr14Info{"a/f.x", "a/f.x"}
	if out := stripObjectInfoExternalPath(in); out != ObjectInfo(in) {
		v.report("stripObjectInfoExternalPath(path a/f.x, external a/f.x) returns a different object %v", out)
	}
	if out := stripObjectInfoExternalPath(vr14Info{"a/f.x", "L:a/f.x"}); out.Path() != "a/f.x" || out.ExternalPath() != "a/f.x" {
		v.report("stripObjectInfoExternalPath(path a/f.x, external L:a/f.x) = path %q external %q", out.Path(), out.ExternalPath())
	}
	return tried + 2
}

func vr14FamilyNop(ctx context.Context, v *vr14) int {
	tried := vr14Check(ctx, v, vr14Multi(false))
	tried += vr14Check(ctx, v, vr14Multi(true))
	tried += vr14Check(ctx, v, vr14Strip(vr14Multi(false)))
	return tried
}

func vr14FamilyMap(ctx context.Context, v *vr14) int {
	l1, l2, _, _, _ := vr14Leaves()
	tried := 0
	for _, prefixes := range [][]string{{}, {"m"}, {"m", "a"}, {"m/a"}, {"a"}, {"a", "g"}, {"zz"}, {"a-b"}, {"m", "a", "g"}} {
		tried += vr14Check(ctx, v, vr14Map(vr14LeafNode(l1), prefixes...))
		tried += vr14Check(ctx, v, vr14Map(vr14LeafNode(l2), prefixes...))
	}
	tried += vr14Check(ctx, v, vr14Map(vr14Map(vr14LeafNode(l1), "m"), "a"))
	// mapper algebra on its own
	for _, prefixes := range [][]string{{}, {"m"}, {"m", "a"}, {"m/a", "g"}, {"a", "b", "c"}} {
		var mappers []Mapper
		for _, p := range prefixes {
			mappers = append(mappers, MapOnPrefix(p))
		}
		mapper := MapChain(mappers...)
		full := path.Join(prefixes...)
		for _, q := range []string{"x", "x/y", "a", "m", "m/a"} {
			tried++
			want := path.Join(full, q)
			got, ok := mapper.MapPath(q)
			if !ok || got != want {
				v.report("MapChain(prefixes %q).MapPath(%q) = %q, %v; documented %q, true", prefixes, q, got, ok, want)
				continue
			}
			back, ok, err := mapper.UnmapFullPath(got)
			if err != nil || !ok || back != q {
				v.report("MapChain(prefixes %q).UnmapFullPath(%q) = %q, %v, %v; MapPath(%q) gave that full path", prefixes, got, back, ok, err, q)
			}
		}
		if len(prefixes) > 0 {
			for _, outside := range []string{"zz/x", full + "x/y", "x"} {
				tried++
				if back, ok, err := mapper.UnmapFullPath(outside); ok && err == nil {
					v.report("MapChain(prefixes %q).UnmapFullPath(%q) = %q, true although the path is not under %q", prefixes, outside, back, full)
				}
			}
		}
	}
	// operation sequences through a mapped read-write view
	type op struct {
		kind, arg, data string
	}
	var ops []op
	for _, p := range []string{"f.x", "g/h.y", "g.y", "./f.x"} {
		ops = append(ops, op{"put", p, "one"}, op{"put", p, ""}, op{"delete", p, ""})
	}
	for _, p := range []string{"", ".", "g", "f.x", "f", "zz"} {
		ops = append(ops, op{"deleteAll", p, ""})
	}
	var seqs [][]op
	for _, a := range ops {
		seqs = append(seqs, []op{a})
		for _, b := range ops {
			seqs = append(seqs, []op{a, b})
		}
	}
	for _, prefixes := range [][]string{{"m"}, {"m", "a"}} {
		full := path.Join(prefixes...)
		for _, seq := range seqs {
			tried++
			leaf := vr14NewLeaf("D", false, "m/a/f.x", "m/a/g/h.y", "m/k", "m/ab", "ma", "b")
			var mappers []Mapper
			for _, p := range prefixes {
				mappers = append(mappers, MapOnPrefix(p))
			}
			rw := MapReadWriteBucket(leaf, mappers...)
			model := map[string]vr14Obj{}
			outside := map[string]vr14Obj{}
			for p, o := range leaf.files {
				if strings.HasPrefix(p, full+"/") {
					model[strings.TrimPrefix(p, full+"/")] = o
				} else {
					outside[p] = o
				}
			}
			var trace []string
			bad := false
			for _, o := range seq {
				n, _ := vr14Norm(o.arg)
				var err error
				wantErr := false
				switch o.kind {
				case "put":
					trace = append(trace, fmt.Sprintf("Put(%q, %q)", o.arg, o.data))
					var w WriteObjectCloser
					if w, err = rw.Put(ctx, o.arg); err == nil {
						_, _ = w.Write([]byte(o.data))
						err = w.Close()
					}
					model[n] = vr14Obj{data: o.data, ext: "D:" + path.Join(full, n)}
				case "delete":
					trace = append(trace, fmt.Sprintf("Delete(%q)", o.arg))
					err = rw.Delete(ctx, o.arg)
					if _, ok := model[n]; !ok {
						wantErr = true
					}
					delete(model, n)
				case "deleteAll":
					trace = append(trace, fmt.Sprintf("DeleteAll(%q)", o.arg))
					err = rw.DeleteAll(ctx, o.arg)
					for p := range model {
						if vr14Under(n, p) {
							delete(model, p)
						}
					}
				}
				if wantErr != (err != nil) || (wantErr && !IsNotExist(err)) {
					v.report("view on prefixes %q of D[m/a/f.x m/a/g/h.y m/k m/ab ma b], %s: the last operation returns %v (a not-exist error is expected exactly when the path is absent)", prefixes, strings.Join(trace, "; "), err)
					bad = true
					break
				}
			}
			if bad {
				continue
			}
			node := &vr14Node{
				desc:  fmt.Sprintf("view on prefixes %q of D[m/a/f.x m/a/g/h.y m/k m/ab ma b] after %s", prefixes, strings.Join(trace, "; ")),
				build: func() ReadBucket { return rw },
				view:  func() map[string]vr14Obj { return model },
			}
			before := v.found
			vr14Check(ctx, v, node)
			if v.found != before {
				continue
			}
			for p, o := range outside {
				if got, ok := leaf.files[p]; !ok || got != o {
					v.report("%s: the object %q outside the view's root was changed or removed", node.desc, p)
				}
			}
			for p := range leaf.files {
				if _, ok := outside[p]; !ok && !strings.HasPrefix(p, full+"/") {
					v.report("%s: the object %q was created outside the view's root", node.desc, p)
				}
			}
		}
	}
	return tried
}

func TestVerifReplayC14(t *testing.T) {
	fn := os.Getenv("VERIF_REPLAY_FUNC")
	obl := os.Getenv("VERIF_REPLAY_OBLIGATION")
	ctx := context.Background()
	v := &vr14{}
	tried := 0
	has := func(subs ...string) bool {
		for _, s := range subs {
			if strings.Contains(obl, s) || fn == s {
				return true
			}
		}
		return false
	}
	switch {
	case has("multiReadBucket", "MultiReadBucket", "OverlayReadBucket", "NewErrExistsMultipleLocations", "IsExistsMultipleLocations", "getObjectInfoAndDelegateIndex"):
		tried += vr14FamilyMulti(ctx, v)
	case has("filterReadBucketCloser", "FilterReadBucket", "Matcher", "MatchPath", "MatchAnd", "MatchOr", "MatchNot"):
		tried += vr14FamilyFilter(ctx, v)
	case has("stripReadBucket", "newStripReadBucket", "stripObjectInfoExternalPath", "stripReadObjectCloserExternalPath", "StripReadBucketExternalPaths"):
		tried += vr14FamilyStrip(ctx, v)
	case has("nopReadBucket"):
		tried += vr14FamilyNop(ctx, v)
	case has("Mapper", "mapReadBucketCloser", "mapWriteBucketCloser", "MapReadBucket", "MapWriteBucket", "MapReadWriteBucket", "MapOnPrefix", "MapChain", "mapFunc", "UnmapFullPath", "MapPath"):
		tried += vr14FamilyMap(ctx, v)
	case has("IsNotExist", "Get", "Stat", "Walk", "Put", "Delete", "DeleteAll"):
		tried += vr14FamilyMulti(ctx, v)
		tried += vr14FamilyFilter(ctx, v)
		tried += vr14FamilyStrip(ctx, v)
		tried += vr14FamilyNop(ctx, v)
		tried += vr14FamilyMap(ctx, v)
	default:
		fmt.Printf("VERIF-REPLAY no harness for %q\n", fn)
		return
	}
	if v.found == 0 {
		fmt.Printf("VERIF-REPLAY no failing input found for %s (%d probes against the map model)\n", fn, tried)
	} else {
		fmt.Printf("VERIF-REPLAY %d failing probes in total for %s (%d tried)\n", v.found, fn, tried)
	}
}
