package bufcheck_test

// Replay harness for property C05 "Lint reports exactly the style violations that are present"
// (go test -overlay, injected as zz_verif_replay_test.go into private/bufpkg/bufcheck).
//
// A workspace that is clean by construction is linted through the real bufcheck client; then one
// violation is planted by a textual edit and the annotations must be exactly the expected ones
// (rule ID, file, line, column) - alone (lint.use = [RULE]) and together with the categories
// (no annotation of an unrelated rule).  Expected positions are computed from anchor texts in the
// planted sources (name of the element, option / import / package statement, type reference ...),
// following each rule's Purpose text and the expectations documented in the package's lint_test.go.

import (
	"context"
	"errors"
	"fmt"
	"io"
	"log/slog"
	"os"
	"sort"
	"strings"
	"sync"
	"testing"
	"time"

	"github.com/bufbuild/buf/private/buf/buftarget"
	"github.com/bufbuild/buf/private/buf/bufworkspace"
	"github.com/bufbuild/buf/private/bufpkg/bufanalysis"
	"github.com/bufbuild/buf/private/bufpkg/bufcheck"
	"github.com/bufbuild/buf/private/bufpkg/bufimage"
	"github.com/bufbuild/buf/private/bufpkg/bufmodule"
	"github.com/bufbuild/buf/private/bufpkg/bufplugin"
	"github.com/bufbuild/buf/private/pkg/storage"
	"github.com/bufbuild/buf/private/pkg/storage/storagemem"
	"github.com/bufbuild/buf/private/pkg/wasm"
)

// ---------------------------------------------------------------------------------------------
// running lint

type c05Ann struct {
	rule, path     string
	sl, sc, el, ec int
	msg            string
}

// key: "RULE path:line:col"; annotations without location (0:0 or 1:1) are "RULE path:-".
func (a c05Ann) key() string {
	if a.sl <= 1 && a.sc <= 1 {
		return a.rule + " " + a.path + ":-"
	}
	return fmt.Sprintf("%s %s:%d:%d", a.rule, a.path, a.sl, a.sc)
}

type c05LintError struct{ err error }

func (e *c05LintError) Error() string { return e.err.Error() }

// c05RunLint builds an in-memory workspace and lints it. An error of type *c05LintError comes from the
// lint call itself (not a set of annotations); any other error is a setup problem (config / compile).
func c05RunLint(files map[string]string, bufYAML string) ([]c05Ann, error) {
	ctx, cancel := context.WithTimeout(context.Background(), 30*time.Second)
	defer cancel()
	logger := slog.New(slog.NewTextHandler(io.Discard, nil))
	bucket := storagemem.NewReadWriteBucket()
	if err := storage.PutPath(ctx, bucket, "buf.yaml", []byte(bufYAML)); err != nil {
		return nil, err
	}
	for path, data := range files {
		if err := storage.PutPath(ctx, bucket, path, []byte(data)); err != nil {
			return nil, err
		}
	}
	targeting, err := buftarget.NewBucketTargeting(ctx, logger, bucket, ".", nil, nil, buftarget.TerminateAtControllingWorkspace)
	if err != nil {
		return nil, fmt.Errorf("targeting: %w", err)
	}
	ws, err := bufworkspace.NewWorkspaceProvider(logger, bufmodule.NopGraphProvider, bufmodule.NopModuleDataProvider, bufmodule.NopCommitProvider, bufplugin.NopPluginKeyProvider).GetWorkspaceForBucket(ctx, bucket, targeting)
	if err != nil {
		return nil, fmt.Errorf("workspace: %w", err)
	}
	opaqueID, err := testGetRootOpaqueID(ws, ".")
	if err != nil {
		return nil, err
	}
	img, err := bufimage.BuildImage(ctx, logger, bufmodule.ModuleSetToModuleReadBucketWithOnlyProtoFiles(ws))
	if err != nil {
		return nil, fmt.Errorf("build: %w", err)
	}
	client, err := bufcheck.NewClient(logger, bufcheck.NewLocalRunnerProvider(wasm.UnimplementedRuntime, bufplugin.NopPluginKeyProvider, bufplugin.NopPluginDataProvider))
	if err != nil {
		return nil, err
	}
	err = client.Lint(ctx, ws.GetLintConfigForOpaqueID(opaqueID), img, bufcheck.WithPluginConfigs(ws.PluginConfigs()...))
	if err == nil {
		return nil, nil
	}
	var set bufanalysis.FileAnnotationSet
	if !errors.As(err, &set) {
		return nil, &c05LintError{err}
	}
	var out []c05Ann
	for _, a := range set.FileAnnotations() {
		path := ""
		if a.FileInfo() != nil {
			path = a.FileInfo().Path()
		}
		out = append(out, c05Ann{a.Type(), path, a.StartLine(), a.StartColumn(), a.EndLine(), a.EndColumn(), a.Message()})
	}
	return out, nil
}

func c05YAML(version string, use []string, opts string) string {
	var b strings.Builder
	b.WriteString("version: " + version + "\nlint:\n  use:\n")
	for _, u := range use {
		b.WriteString("    - " + u + "\n")
	}
	b.WriteString(opts)
	return b.String()
}

// ---------------------------------------------------------------------------------------------
// the clean workspace: satisfies STANDARD/DEFAULT, COMMENTS and UNARY_RPC by construction

const c05PetProto = `// Messages of the pet package.
syntax = "proto3";

package acme.pet.v1;

import "acme/pet/v1/pet_kind.proto";
import "acme/store/v1/store.proto";

// Pet is a pet.
message Pet {
  // Tag is a nested message.
  message Tag {
    // Color is a doubly nested enum.
    enum Color {
      // No colour given.
      COLOR_UNSPECIFIED = 0;
      // Red.
      COLOR_RED = 1;
    }
    // Label of the tag.
    string label = 1;
    // Colour of the tag.
    Color tag_color = 2;
  }
  // Status is a nested enum.
  enum Status {
    // Not known.
    STATUS_UNSPECIFIED = 0;
    // Alive and well.
    STATUS_ACTIVE = 1;
  }
  // Name of the pet.
  string pet_name = 1;
  // What animal it is.
  PetKind kind = 2;
  // Status of the pet.
  Status pet_status = 3;
  // Tags of the pet.
  repeated Tag tags = 4;
  // Free-form labels.
  map<string, string> labels = 5;
  // Who owns the pet.
  oneof owner_ref {
    // A person.
    string owner_id = 6;
    // A store.
    acme.store.v1.Store store = 7;
  }
  // Optional nickname.
  optional string nick_name = 8;
}
`

const c05PetKindProto = `syntax = "proto3";

package acme.pet.v1;

// PetKind says what animal a pet is.
enum PetKind {
  // Not known.
  PET_KIND_UNSPECIFIED = 0;
  // A dog.
  PET_KIND_DOG = 1;
  // A cat.
  PET_KIND_CAT = 2;
}
`

const c05PetServiceProto = `syntax = "proto3";

package acme.pet.v1;

import "acme/pet/v1/pet.proto";

// PetService manages pets.
service PetService {
  // GetPet fetches a pet.
  rpc GetPet(GetPetRequest) returns (GetPetResponse);
  // PutPet stores a pet.
  rpc PutPet(PutPetRequest) returns (PutPetResponse);
}

// PetAdminService is a second service in the same file.
service PetAdminService {
  // DeletePet removes a pet.
  rpc DeletePet(PetAdminServiceDeletePetRequest) returns (PetAdminServiceDeletePetResponse);
}

// GetPetRequest asks for a pet.
message GetPetRequest {
  // Name of the pet.
  string pet_name = 1;
}

// GetPetResponse carries a pet.
message GetPetResponse {
  // The pet.
  Pet pet = 1;
}

// PutPetRequest carries a pet.
message PutPetRequest {
  // The pet.
  Pet pet = 1;
}

// PutPetResponse is empty.
message PutPetResponse {}

// PetAdminServiceDeletePetRequest names a pet.
message PetAdminServiceDeletePetRequest {
  // Name of the pet.
  string pet_name = 1;
}

// PetAdminServiceDeletePetResponse is empty.
message PetAdminServiceDeletePetResponse {}
`

const c05StoreProto = `syntax = "proto3";

package acme.store.v1;

// Store sells pets.
message Store {
  // Name of the store.
  string store_name = 1;
  // Kind of the store.
  StoreKind store_kind = 2;
}

// StoreKind is the kind of a store.
enum StoreKind {
  // Not known.
  STORE_KIND_UNSPECIFIED = 0;
  // Online shop.
  STORE_KIND_ONLINE = 1;
}

// StoreService lists stores.
service StoreService {
  // ListStores lists the stores.
  rpc ListStores(ListStoresRequest) returns (ListStoresResponse);
}

// ListStoresRequest is empty.
message ListStoresRequest {}

// ListStoresResponse carries stores.
message ListStoresResponse {
  // The stores.
  repeated Store stores = 1;
}
`

const (
	c05Pet     = "acme/pet/v1/pet.proto"
	c05Kind    = "acme/pet/v1/pet_kind.proto"
	c05Service = "acme/pet/v1/pet_service.proto"
	c05Store   = "acme/store/v1/store.proto"
)

func c05CleanFiles() map[string]string {
	return map[string]string{
		c05Pet:     c05PetProto,
		c05Kind:    c05PetKindProto,
		c05Service: c05PetServiceProto,
		c05Store:   c05StoreProto,
	}
}

// ---------------------------------------------------------------------------------------------
// cases

type c05Exp struct {
	rule   string // "" = the case's rule
	path   string
	anchor string // text in the planted file at which the annotation starts; "" = annotation without location
	nth    int    // which occurrence of anchor
	after  bool   // the annotation starts right after the anchor text
}

type c05Case struct {
	rules    []string // rules under test
	desc     []string // the planted edits
	files    map[string]string
	opts     string   // extra lines of the lint section of buf.yaml
	versions []string // nil = every config version that has the rule
	expect   []c05Exp
	allowed  []string // rules that may legitimately fire as a consequence in the category run
	noCat    bool     // no category run
	asSet    bool     // compare as sets (rule documents duplicates)
	tag      string   // "opt" = rule option / config reading case
	bad      string   // harness construction problem
}

func (c *c05Case) rule() string { return c.rules[0] }

// workspace edit helpers (record what they do)
func (c *c05Case) sub(path, old, new string) *c05Case {
	content, ok := c.files[path]
	if !ok || !strings.Contains(content, old) {
		c.bad = fmt.Sprintf("edit: %q not found in %s", old, path)
		return c
	}
	c.files[path] = strings.Replace(content, old, new, 1)
	c.desc = append(c.desc, fmt.Sprintf("%s: %q -> %q", path, old, new))
	return c
}

func (c *c05Case) subAll(path, old, new string) *c05Case {
	content, ok := c.files[path]
	if !ok || !strings.Contains(content, old) {
		c.bad = fmt.Sprintf("edit: %q not found in %s", old, path)
		return c
	}
	c.files[path] = strings.ReplaceAll(content, old, new)
	c.desc = append(c.desc, fmt.Sprintf("%s: all %q -> %q", path, old, new))
	return c
}

// quiet variant for collateral reference updates
func (c *c05Case) fix(path, old, new string) *c05Case {
	n := len(c.desc)
	c.subAll(path, old, new)
	c.desc = c.desc[:n]
	return c
}

func (c *c05Case) add(path, content string) *c05Case {
	c.files[path] = content
	c.desc = append(c.desc, fmt.Sprintf("new file %s: %s", path, c05Compact(content)))
	return c
}

func (c *c05Case) move(from, to string) *c05Case {
	content, ok := c.files[from]
	if !ok {
		c.bad = "move: no file " + from
		return c
	}
	delete(c.files, from)
	c.files[to] = content
	c.desc = append(c.desc, fmt.Sprintf("file %s moved to %s", from, to))
	return c
}

func (c *c05Case) option(opts string) *c05Case      { c.opts += opts; c.tag = "opt"; return c }
func (c *c05Case) only(versions ...string) *c05Case { c.versions = versions; return c }
func (c *c05Case) allow(rules ...string) *c05Case   { c.allowed = append(c.allowed, rules...); return c }
func (c *c05Case) set() *c05Case                    { c.asSet = true; return c }
func (c *c05Case) nocat() *c05Case                  { c.noCat = true; return c }
func (c *c05Case) also(rules ...string) *c05Case    { c.rules = append(c.rules, rules...); return c }

func (c *c05Case) at(path, anchor string) *c05Case {
	c.expect = append(c.expect, c05Exp{path: path, anchor: anchor})
	return c
}
func (c *c05Case) atN(path, anchor string, nth int) *c05Case {
	c.expect = append(c.expect, c05Exp{path: path, anchor: anchor, nth: nth})
	return c
}
func (c *c05Case) atAfter(path, anchor string) *c05Case {
	c.expect = append(c.expect, c05Exp{path: path, anchor: anchor, after: true})
	return c
}
func (c *c05Case) atRule(rule, path, anchor string) *c05Case {
	c.expect = append(c.expect, c05Exp{rule: rule, path: path, anchor: anchor})
	return c
}
func (c *c05Case) noLoc(path string) *c05Case {
	c.expect = append(c.expect, c05Exp{path: path})
	return c
}

func c05New(rule string) *c05Case {
	return &c05Case{rules: []string{rule}, files: c05CleanFiles()}
}

func c05Empty(rule string) *c05Case {
	return &c05Case{rules: []string{rule}, files: map[string]string{}}
}

// expected keys of a case
func (c *c05Case) expectedKeys() ([]string, error) {
	var keys []string
	for _, e := range c.expect {
		rule := e.rule
		if rule == "" {
			rule = c.rule()
		}
		if e.anchor == "" {
			keys = append(keys, rule+" "+e.path+":-")
			continue
		}
		content, ok := c.files[e.path]
		if !ok {
			return nil, fmt.Errorf("expectation: no file %s", e.path)
		}
		off, from := -1, 0
		for i := 0; i <= e.nth; i++ {
			j := strings.Index(content[from:], e.anchor)
			if j < 0 {
				return nil, fmt.Errorf("expectation: anchor %q (#%d) not in %s", e.anchor, e.nth, e.path)
			}
			off = from + j
			from = off + 1
		}
		if e.after {
			off += len(e.anchor)
		}
		line := 1 + strings.Count(content[:off], "\n")
		col := off - strings.LastIndex(content[:off], "\n")
		a := c05Ann{rule: rule, path: e.path, sl: line, sc: col}
		keys = append(keys, a.key())
	}
	sort.Strings(keys)
	return keys, nil
}

// ---------------------------------------------------------------------------------------------
// rule tables (from bufcheckserver.go: which config version has which rule / category)

var c05AllVersions = []string{"v1beta1", "v1", "v2"}

var c05RuleVersions = map[string][]string{
	"FIELD_NO_DESCRIPTOR":               {"v1beta1"},
	"FIELD_NOT_REQUIRED":                {"v2"},
	"IMPORT_USED":                       {"v1", "v2"},
	"SYNTAX_SPECIFIED":                  {"v1", "v2"},
	"PROTOVALIDATE":                     {"v1", "v2"},
	"PACKAGE_NO_IMPORT_CYCLE":           {"v1", "v2"},
	"STABLE_PACKAGE_NO_IMPORT_UNSTABLE": {"v2"},
}

func c05VersionsOf(rules []string) []string {
	var out []string
	for _, v := range c05AllVersions {
		ok := true
		for _, r := range rules {
			if vs, limited := c05RuleVersions[r]; limited && !c05Has(vs, v) {
				ok = false
			}
		}
		if ok {
			out = append(out, v)
		}
	}
	return out
}

func c05Has(list []string, s string) bool {
	for _, x := range list {
		if x == s {
			return true
		}
	}
	return false
}

func c05Categories(version string) []string {
	switch version {
	case "v2":
		return []string{"STANDARD", "COMMENTS", "UNARY_RPC"}
	case "v1":
		return []string{"DEFAULT", "COMMENTS", "UNARY_RPC"}
	default:
		return []string{"DEFAULT", "COMMENTS", "UNARY_RPC", "OTHER"}
	}
}

// rules that are in no category of the version and have to be named
func c05Uncategorized(version, rule string) bool {
	switch rule {
	case "STABLE_PACKAGE_NO_IMPORT_UNSTABLE":
		return true
	case "PACKAGE_NO_IMPORT_CYCLE":
		return version == "v1"
	}
	return false
}

// ---------------------------------------------------------------------------------------------
// checking

type c05Failure struct {
	c    *c05Case // nil: the clean workspace
	cfg  string
	text string
}

type c05Checker struct {
	mu       sync.Mutex
	failures []c05Failure
	passes   map[*c05Case][]string
	light    bool // many cases: category runs for the newest config version only
	problems []string
	runs     int
}

func (k *c05Checker) fail(c *c05Case, cfg string, format string, a ...any) {
	k.mu.Lock()
	defer k.mu.Unlock()
	k.failures = append(k.failures, c05Failure{c, cfg, strings.ReplaceAll(fmt.Sprintf(format, a...), "\n", "\\n")})
}

func (k *c05Checker) problem(format string, a ...any) {
	k.mu.Lock()
	defer k.mu.Unlock()
	k.problems = append(k.problems, strings.ReplaceAll(fmt.Sprintf(format, a...), "\n", "\\n"))
}

// one line per failing case: its first failing configuration, the others are named
func (k *c05Checker) lines() []string {
	sort.SliceStable(k.failures, func(i, j int) bool { return k.failures[i].cfg < k.failures[j].cfg })
	var order []*c05Case
	byCase := map[*c05Case][]c05Failure{}
	for _, f := range k.failures {
		if _, ok := byCase[f.c]; !ok {
			order = append(order, f.c)
		}
		byCase[f.c] = append(byCase[f.c], f)
	}
	var lines []string
	for _, c := range order {
		fs := byCase[c]
		line := fs[0].text
		if len(fs) > 1 {
			var cfgs []string
			for _, f := range fs[1:] {
				cfgs = append(cfgs, f.cfg)
			}
			line += " [fails likewise with: " + strings.Join(cfgs, ", ") + "]"
		}
		if ps := k.passes[c]; c != nil && len(ps) > 0 {
			sort.Strings(ps)
			line += " [as expected with: " + strings.Join(ps, ", ") + "]"
		}
		lines = append(lines, line)
	}
	sort.SliceStable(lines, func(i, j int) bool { return len(lines[i]) < len(lines[j]) })
	return lines
}

func c05Keys(anns []c05Ann, keep func(c05Ann) bool, asSet bool) []string {
	var keys []string
	seen := map[string]bool{}
	for _, a := range anns {
		if keep != nil && !keep(a) {
			continue
		}
		k := a.key()
		if asSet && seen[k] {
			continue
		}
		seen[k] = true
		keys = append(keys, k)
	}
	sort.Strings(keys)
	return keys
}

func c05Show(keys []string) string {
	if len(keys) == 0 {
		return "{}"
	}
	return "{" + strings.Join(keys, "; ") + "}"
}

// source text on one line, without the syntax line, blank lines and comment lines
func c05Compact(content string) string {
	var keep []string
	for _, line := range strings.Split(content, "\n") {
		line = strings.TrimSpace(line)
		if line == "" || strings.HasPrefix(line, "//") || strings.HasPrefix(line, "syntax = \"proto3\"") {
			continue
		}
		keep = append(keep, line)
	}
	out := strings.Join(keep, " ")
	if len(out) > 240 {
		out = out[:240] + "..."
	}
	return "`" + out + "`"
}

func c05OneLine(s string) string {
	return strings.ReplaceAll(strings.TrimSpace(s), "\n", " | ")
}

func (k *c05Checker) check(c *c05Case) {
	if c.bad != "" {
		k.problem("case %v: %s", c.rules, c.bad)
		return
	}
	want, err := c.expectedKeys()
	if err != nil {
		k.problem("case %v %v: %v", c.rules, c.desc, err)
		return
	}
	if c.asSet {
		var uniq []string
		for i, x := range want {
			if i == 0 || want[i-1] != x {
				uniq = append(uniq, x)
			}
		}
		want = uniq
	}
	versions := c.versions
	if versions == nil {
		versions = c05VersionsOf(c.rules)
	}
	planted := strings.Join(c.desc, "; ")
	if planted == "" {
		planted = "nothing (clean workspace)"
	}
	for _, version := range versions {
		// (i) only the rules under test
		yaml := c05YAML(version, c.rules, c.opts)
		k.run(c, version, yaml, planted, want, false)
		// (ii) with the categories
		if c.noCat || version == "v1beta1" || (k.light && version != versions[len(versions)-1]) {
			continue
		}
		use := c05Categories(version)
		for _, r := range c.rules {
			if c05Uncategorized(version, r) {
				use = append(use, r)
			}
		}
		k.run(c, version, c05YAML(version, use, c.opts), planted, want, true)
	}
}

func (k *c05Checker) run(c *c05Case, version, yaml, planted string, want []string, categories bool) {
	k.mu.Lock()
	k.runs++
	k.mu.Unlock()
	cfg := version + " rule alone"
	if categories {
		cfg = version + " with categories"
	}
	anns, err := c05RunLint(c.files, yaml)
	if err != nil {
		var lintErr *c05LintError
		if errors.As(err, &lintErr) {
			k.fail(c, cfg, "planted: %s; buf.yaml: %s; expected annotations %s; lint failed instead: %v", planted, c05OneLine(yaml), c05Show(want), err)
		} else {
			k.problem("case %v (%s) %s: %v", c.rules, version, planted, err)
		}
		return
	}
	got := c05Keys(anns, func(a c05Ann) bool { return c05Has(c.rules, a.rule) }, c.asSet)
	if strings.Join(got, "\n") != strings.Join(want, "\n") {
		k.fail(c, cfg, "planted: %s; buf.yaml: %s; expected %s; observed %s", planted, c05OneLine(yaml), c05Show(want), c05Show(got))
		return
	}
	failed := false
	defer func() {
		if !failed {
			k.mu.Lock()
			if k.passes == nil {
				k.passes = map[*c05Case][]string{}
			}
			k.passes[c] = append(k.passes[c], cfg)
			k.mu.Unlock()
		}
	}()
	if categories {
		other := c05Keys(anns, func(a c05Ann) bool { return !c05Has(c.rules, a.rule) && !c05Has(c.allowed, a.rule) }, true)
		if len(other) > 0 {
			failed = true
			k.fail(c, cfg, "planted: %s; buf.yaml: %s; expected only %s; unrelated rules also fired: %s", planted, c05OneLine(yaml), c05Show(want), c05Show(other))
		}
	}
}

// ---------------------------------------------------------------------------------------------
// catalogue

func c05Catalogue() []*c05Case {
	var cs []*c05Case
	add := func(c ...*c05Case) { cs = append(cs, c...) }
	c05CatNames(add)
	c05CatEnums(add)
	c05CatFields(add)
	c05CatFilesPackages(add)
	c05CatImports(add)
	c05CatSameOption(add)
	c05CatRPC(add)
	c05CatOptions(add)
	c05CatComments(add)
	c05CatProtovalidate(add)
	return cs
}

// ---------------------------------------------------------------------------------------------
// dispatch

// handleLintRPCRequestStandardName -> RPC_REQUEST_STANDARD_NAME
func c05RuleOfHandler(fn string) string {
	name := strings.TrimPrefix(strings.TrimPrefix(fn, "handleLint"), "HandleLint")
	var b strings.Builder
	rs := []rune(name)
	for i, r := range rs {
		upper := r >= 'A' && r <= 'Z'
		if i > 0 && upper {
			prevLower := !(rs[i-1] >= 'A' && rs[i-1] <= 'Z')
			nextLower := i+1 < len(rs) && !(rs[i+1] >= 'A' && rs[i+1] <= 'Z')
			if prevLower || nextLower {
				b.WriteByte('_')
			}
		}
		b.WriteString(strings.ToUpper(string(r)))
	}
	return b.String()
}

func c05RulesForFunc(fn string, all []string) (rules []string, optOnly bool, ok bool) {
	withPrefix := func(p string) []string {
		var out []string
		for _, r := range all {
			if strings.HasPrefix(r, p) {
				out = append(out, r)
			}
		}
		return out
	}
	switch fn {
	case "handleLintPackageSameOptionValue":
		return []string{"PACKAGE_SAME_CSHARP_NAMESPACE", "PACKAGE_SAME_GO_PACKAGE", "PACKAGE_SAME_JAVA_MULTIPLE_FILES", "PACKAGE_SAME_JAVA_PACKAGE", "PACKAGE_SAME_PHP_NAMESPACE", "PACKAGE_SAME_RUBY_PACKAGE", "PACKAGE_SAME_SWIFT_PREFIX"}, false, true
	case "handleLintCommentNamedDescriptor", "validLeadingComment":
		return withPrefix("COMMENT_"), false, true
	case "fieldToLowerSnakeCase":
		return []string{"FIELD_LOWER_SNAKE_CASE", "ONEOF_LOWER_SNAKE_CASE"}, false, true
	case "fieldToUpperSnakeCase":
		return []string{"ENUM_VALUE_UPPER_SNAKE_CASE", "ENUM_VALUE_PREFIX"}, false, true
	case "getImportCycleIfExists":
		return []string{"PACKAGE_NO_IMPORT_CYCLE"}, false, true
	case "Base", "Ext":
		return []string{"FILE_LOWER_SNAKE_CASE"}, false, true
	case "Dir":
		return []string{"PACKAGE_DIRECTORY_MATCH", "PACKAGE_SAME_DIRECTORY", "DIRECTORY_SAME_PACKAGE"}, false, true
	case "all":
		return all, false, true
	// bufcheckserverutil iteration helpers
	case "NewLintFilesRuleHandler", "NewLintFileRuleHandler", "NewRuleHandler":
		return all, false, true
	case "NewLintPackageToFilesRuleHandler":
		return withPrefix("PACKAGE_SAME_"), false, true
	case "NewLintDirPathToFilesRuleHandler":
		return []string{"DIRECTORY_SAME_PACKAGE"}, false, true
	case "NewLintFileImportRuleHandler":
		return withPrefix("IMPORT_"), false, true
	case "NewLintEnumRuleHandler":
		return append(withPrefix("ENUM_"), "COMMENT_ENUM", "COMMENT_ENUM_VALUE"), false, true
	case "NewLintEnumValueRuleHandler":
		return append(withPrefix("ENUM_VALUE_"), "ENUM_ZERO_VALUE_SUFFIX", "COMMENT_ENUM_VALUE"), false, true
	case "NewLintMessageRuleHandler":
		return []string{"MESSAGE_PASCAL_CASE", "COMMENT_MESSAGE", "ONEOF_LOWER_SNAKE_CASE", "COMMENT_ONEOF"}, false, true
	case "NewLintFieldRuleHandler":
		return append(withPrefix("FIELD_"), "COMMENT_FIELD"), false, true
	case "NewLintOneofRuleHandler":
		return []string{"ONEOF_LOWER_SNAKE_CASE", "COMMENT_ONEOF"}, false, true
	case "NewLintServiceRuleHandler":
		return append(withPrefix("SERVICE_"), "COMMENT_SERVICE", "RPC_PASCAL_CASE", "COMMENT_RPC"), false, true
	case "NewLintMethodRuleHandler":
		return append(withPrefix("RPC_"), "COMMENT_RPC"), false, true
	}
	if strings.HasPrefix(fn, "handleLint") || strings.HasPrefix(fn, "HandleLint") {
		rule := c05RuleOfHandler(fn)
		if c05Has(all, rule) {
			return []string{rule}, false, true
		}
		return nil, false, false
	}
	// package bufconfig: the readers of the lint section and the LintConfig accessors
	lower := strings.ToLower(fn)
	if strings.Contains(lower, "lintconfig") || strings.Contains(lower, "externallint") {
		return nil, true, true
	}
	switch fn {
	case "EnumZeroValueSuffix", "RPCAllowSameRequestResponse", "RPCAllowGoogleProtobufEmptyRequests", "RPCAllowGoogleProtobufEmptyResponses", "ServiceSuffix", "AllowCommentIgnores":
		return nil, true, true
	}
	return nil, false, false
}

func TestVerifReplayC05(t *testing.T) {
	fn := os.Getenv("VERIF_REPLAY_FUNC")
	start := time.Now()
	catalogue := c05Catalogue()
	var all []string
	for _, c := range catalogue {
		for _, r := range c.rules {
			if !c05Has(all, r) {
				all = append(all, r)
			}
		}
	}
	sort.Strings(all)
	rules, optOnly, ok := c05RulesForFunc(fn, all)
	if !ok {
		fmt.Printf("VERIF-REPLAY no harness for %q\n", fn)
		return
	}
	var selected []*c05Case
	for _, c := range catalogue {
		if optOnly {
			if c.tag == "opt" {
				selected = append(selected, c)
			}
			continue
		}
		for _, r := range c.rules {
			if c05Has(rules, r) {
				selected = append(selected, c)
				break
			}
		}
	}
	if optOnly {
		for _, c := range selected {
			for _, r := range c.rules {
				if !c05Has(rules, r) {
					rules = append(rules, r)
				}
			}
		}
	}
	// the clean workspace: nothing for each selected rule alone, nothing for the categories
	for _, r := range rules {
		selected = append(selected, c05New(r).nocat())
	}
	k := &c05Checker{}
	for _, version := range c05AllVersions {
		sets := [][]string{c05Categories(version)}
		if version == "v2" {
			sets = append(sets, []string{"MINIMAL"}, []string{"BASIC"})
		}
		for _, use := range sets {
			yaml := c05YAML(version, use, "")
			anns, err := c05RunLint(c05CleanFiles(), yaml)
			k.runs++
			if err != nil {
				k.problem("clean workspace (%s): %v", version, err)
				continue
			}
			// with a handler named, only its rules are this invocation's business
			got := c05Keys(anns, func(a c05Ann) bool { return c05Has(rules, a.rule) }, true)
			if len(got) > 0 {
				k.fail(nil, version+" "+strings.Join(use, "+"), "planted: nothing (clean workspace: packages acme.pet.v1 in acme/pet/v1/{pet,pet_kind,pet_service}.proto and acme.store.v1 in acme/store/v1/store.proto, every element commented, standard names); buf.yaml: %s; expected {}; observed %s", c05OneLine(yaml), c05Show(got))
			}
		}
	}
	k.light = len(selected) > 40
	var wg sync.WaitGroup
	work := make(chan *c05Case)
	for i := 0; i < 8; i++ {
		wg.Add(1)
		go func() {
			defer wg.Done()
			for c := range work {
				k.check(c)
			}
		}()
	}
	for _, c := range selected {
		work <- c
	}
	close(work)
	wg.Wait()
	lines := k.lines()
	for i, f := range lines {
		if i >= 5 && os.Getenv("VERIF_REPLAY_C05_ALL") == "" {
			break
		}
		fmt.Printf("VERIF-REPLAY FAILING-INPUT %s\n", f)
	}
	for i, p := range k.problems {
		if i >= 10 {
			break
		}
		fmt.Printf("VERIF-REPLAY harness-problem %s\n", p)
	}
	fmt.Printf("VERIF-REPLAY checked %d cases (%d lint runs, rules %s) for %q in %s, %d failing\n", len(selected), k.runs, strings.Join(rules, ","), fn, time.Since(start).Round(time.Millisecond), len(lines))
}

// ---------------------------------------------------------------------------------------------
// catalogue: element names in the wrong case (annotation at the NAME of the element)

func c05CatNames(add func(...*c05Case)) {
	// MESSAGE_PASCAL_CASE: top level, nested, doubly nested, second package, second file
	add(
		c05New("MESSAGE_PASCAL_CASE").
			sub(c05Pet, "// Pet is a pet.\n", "// Extra is extra.\nmessage pet_extra {}\n\n// Pet is a pet.\n").
			at(c05Pet, "pet_extra"),
		c05New("MESSAGE_PASCAL_CASE").
			sub(c05Pet, "message Tag {", "message tag {").fix(c05Pet, "repeated Tag tags", "repeated tag tags").
			at(c05Pet, "tag {"),
		c05New("MESSAGE_PASCAL_CASE").
			sub(c05Pet, "    // Label of the tag.\n", "    // Inner is doubly nested.\n    message innerMost {}\n    // Label of the tag.\n").
			at(c05Pet, "innerMost"),
		c05New("MESSAGE_PASCAL_CASE").
			sub(c05Store, "message Store {", "message store {").fix(c05Store, "repeated Store stores", "repeated store stores").fix(c05Pet, "acme.store.v1.Store store", "acme.store.v1.store store").
			at(c05Store, "store {"),
		c05New("MESSAGE_PASCAL_CASE").
			sub(c05Service, "message PutPetResponse {}", "message Put_Pet_Response {}").fix(c05Service, "(PutPetResponse)", "(Put_Pet_Response)").
			at(c05Service, "Put_Pet_Response {}").allow("RPC_RESPONSE_STANDARD_NAME"),
	)
	// ENUM_PASCAL_CASE: top level, nested, doubly nested, second package
	add(
		c05New("ENUM_PASCAL_CASE").
			sub(c05Kind, "enum PetKind {", "enum pet_kind {").fix(c05Pet, "PetKind kind", "pet_kind kind").
			at(c05Kind, "pet_kind {"),
		c05New("ENUM_PASCAL_CASE").
			sub(c05Kind, "enum PetKind {", "enum petKind {").fix(c05Pet, "PetKind kind", "petKind kind").
			at(c05Kind, "petKind {"),
		c05New("ENUM_PASCAL_CASE").
			sub(c05Pet, "enum Status {", "enum status {").fix(c05Pet, "Status pet_status", "status pet_status").
			at(c05Pet, "status {"),
		c05New("ENUM_PASCAL_CASE").
			sub(c05Pet, "enum Color {", "enum color {").fix(c05Pet, "Color tag_color", "color tag_color").
			at(c05Pet, "color {"),
		c05New("ENUM_PASCAL_CASE").
			sub(c05Store, "enum StoreKind {", "enum Store_kind {").fix(c05Store, "StoreKind store_kind", "Store_kind store_kind").
			at(c05Store, "Store_kind {"),
	)
	// SERVICE_PASCAL_CASE
	add(
		c05New("SERVICE_PASCAL_CASE").
			sub(c05Service, "service PetService {", "service petService {").
			at(c05Service, "petService {"),
		c05New("SERVICE_PASCAL_CASE").
			sub(c05Service, "service PetAdminService {", "service pet_admin_Service {").
			at(c05Service, "pet_admin_Service {").allow("RPC_REQUEST_STANDARD_NAME", "RPC_RESPONSE_STANDARD_NAME"),
		c05New("SERVICE_PASCAL_CASE").
			sub(c05Store, "service StoreService {", "service store_Service {").
			at(c05Store, "store_Service {"),
	)
	// SERVICE_SUFFIX (default suffix "Service")
	add(
		c05New("SERVICE_SUFFIX").
			sub(c05Service, "service PetService {", "service PetApi {").
			at(c05Service, "PetApi {"),
		c05New("SERVICE_SUFFIX").
			sub(c05Service, "service PetAdminService {", "service PetAdminServices {").
			at(c05Service, "PetAdminServices {").allow("RPC_REQUEST_STANDARD_NAME", "RPC_RESPONSE_STANDARD_NAME"),
		c05New("SERVICE_SUFFIX").
			sub(c05Store, "service StoreService {", "service Storeservice {").
			at(c05Store, "Storeservice {"),
		c05New("SERVICE_SUFFIX").
			sub(c05Store, "service StoreService {", "service Stores {").
			at(c05Store, "Stores {"),
	)
	// RPC_PASCAL_CASE: first / second RPC, second service, second package
	add(
		c05New("RPC_PASCAL_CASE").
			sub(c05Service, "rpc GetPet(", "rpc getPet(").
			at(c05Service, "getPet(").allow("RPC_REQUEST_STANDARD_NAME", "RPC_RESPONSE_STANDARD_NAME"),
		c05New("RPC_PASCAL_CASE").
			sub(c05Service, "rpc PutPet(", "rpc put_pet(").
			at(c05Service, "put_pet(").allow("RPC_REQUEST_STANDARD_NAME", "RPC_RESPONSE_STANDARD_NAME"),
		c05New("RPC_PASCAL_CASE").
			sub(c05Service, "rpc DeletePet(", "rpc deletePet(").
			at(c05Service, "deletePet(").allow("RPC_REQUEST_STANDARD_NAME", "RPC_RESPONSE_STANDARD_NAME"),
		c05New("RPC_PASCAL_CASE").
			sub(c05Store, "rpc ListStores(", "rpc List_Stores(").
			at(c05Store, "List_Stores(").allow("RPC_REQUEST_STANDARD_NAME", "RPC_RESPONSE_STANDARD_NAME"),
	)
	// ONEOF_LOWER_SNAKE_CASE: in a top-level and in a nested message; the synthetic oneof of a proto3 optional field is not an element of the source
	add(
		c05New("ONEOF_LOWER_SNAKE_CASE").
			sub(c05Pet, "oneof owner_ref {", "oneof ownerRef {").
			at(c05Pet, "ownerRef {"),
		c05New("ONEOF_LOWER_SNAKE_CASE").
			sub(c05Pet, "oneof owner_ref {", "oneof Owner_Ref {").
			at(c05Pet, "Owner_Ref {"),
		c05New("ONEOF_LOWER_SNAKE_CASE").
			sub(c05Pet, "    // Label of the tag.\n", "    // A choice.\n    oneof ExtraChoice {\n      // First.\n      string extra_a = 3;\n    }\n    // Label of the tag.\n").
			at(c05Pet, "ExtraChoice {"),
		c05New("ONEOF_LOWER_SNAKE_CASE").
			sub(c05Pet, "oneof owner_ref {", "oneof owner_ref_ {").
			at(c05Pet, "owner_ref_ {"),
		c05New("ONEOF_LOWER_SNAKE_CASE").
			sub(c05Pet, "oneof owner_ref {", "oneof _owner_ref {").
			at(c05Pet, "_owner_ref {"),
		c05New("ONEOF_LOWER_SNAKE_CASE").
			sub(c05Pet, "oneof owner_ref {", "oneof owner_ref2 {"),
		c05New("ONEOF_LOWER_SNAKE_CASE").also("FIELD_LOWER_SNAKE_CASE").
			sub(c05Pet, "optional string nick_name = 8;", "optional string nickName = 8;").
			atRule("FIELD_LOWER_SNAKE_CASE", c05Pet, "nickName"),
	)
}

// ---------------------------------------------------------------------------------------------
// catalogue: enums and enum values

const c05LegacyProto = `syntax = "proto2";

package acme.pet.v1;

// LegacyKind is a proto2 enum.
enum LegacyKind {
  // Not known.
  LEGACY_KIND_UNSPECIFIED = 0;
  // First.
  LEGACY_KIND_ONE = 1;
}

// LegacyPet is a proto2 message.
message LegacyPet {
  // LegacyState is a nested proto2 enum.
  enum LegacyState {
    // Not known.
    LEGACY_STATE_UNSPECIFIED = 0;
    // Second.
    LEGACY_STATE_TWO = 2;
  }
  // Name of the pet.
  optional string pet_name = 1;
  // Id of the pet.
  optional string pet_id = 2;
  // Inner is nested.
  message Inner {
    // Code.
    optional int32 code = 1;
  }
}
`

const c05Legacy = "acme/pet/v1/legacy.proto"

func c05NewLegacy(rule string) *c05Case {
	c := c05New(rule)
	c.files[c05Legacy] = c05LegacyProto
	return c
}

func c05CatEnums(add func(...*c05Case)) {
	// ENUM_VALUE_UPPER_SNAKE_CASE (annotation at the value name)
	add(
		c05New("ENUM_VALUE_UPPER_SNAKE_CASE").
			sub(c05Kind, "PET_KIND_DOG = 1;", "PET_KIND_dog = 1;").
			at(c05Kind, "PET_KIND_dog"),
		c05New("ENUM_VALUE_UPPER_SNAKE_CASE").
			sub(c05Kind, "PET_KIND_CAT = 2;", "PET_KIND_Cat = 2;").
			at(c05Kind, "PET_KIND_Cat"),
		c05New("ENUM_VALUE_UPPER_SNAKE_CASE").
			sub(c05Pet, "COLOR_RED = 1;", "COLOR_Red = 1;").
			at(c05Pet, "COLOR_Red"),
		c05New("ENUM_VALUE_UPPER_SNAKE_CASE").
			sub(c05Pet, "STATUS_ACTIVE = 1;", "STATUS_isActive = 1;").
			at(c05Pet, "STATUS_isActive"),
		c05New("ENUM_VALUE_UPPER_SNAKE_CASE").
			sub(c05Kind, "PET_KIND_DOG = 1;", "PET_KIND_DOG_ = 1;").
			at(c05Kind, "PET_KIND_DOG_ = 1"),
		c05New("ENUM_VALUE_UPPER_SNAKE_CASE").
			sub(c05Kind, "PET_KIND_DOG = 1;", "PET_KIND_DOG2 = 1;").sub(c05Kind, "PET_KIND_CAT = 2;", "PET_KIND_CAT_2 = 2;"),
		c05New("ENUM_VALUE_UPPER_SNAKE_CASE").
			sub(c05Store, "STORE_KIND_ONLINE = 1;", "STORE_KIND_online = 1;").
			at(c05Store, "STORE_KIND_online"),
	)
	// ENUM_VALUE_PREFIX: ENUM_NAME_UPPER_SNAKE_CASE + "_"
	add(
		c05New("ENUM_VALUE_PREFIX").
			sub(c05Kind, "PET_KIND_CAT = 2;", "KIND_CAT = 2;").
			at(c05Kind, "KIND_CAT = 2"),
		c05New("ENUM_VALUE_PREFIX").
			sub(c05Kind, "PET_KIND_DOG = 1;", "PET_KINDDOG = 1;").
			at(c05Kind, "PET_KINDDOG"),
		c05New("ENUM_VALUE_PREFIX").
			sub(c05Kind, "PET_KIND_DOG = 1;", "PETKIND_DOG = 1;").
			at(c05Kind, "PETKIND_DOG"),
		c05New("ENUM_VALUE_PREFIX").
			sub(c05Pet, "COLOR_RED = 1;", "RED = 1;").
			at(c05Pet, "RED = 1"),
		c05New("ENUM_VALUE_PREFIX").
			sub(c05Pet, "STATUS_ACTIVE = 1;", "PET_STATUS_ACTIVE = 1;").
			at(c05Pet, "PET_STATUS_ACTIVE"),
		c05New("ENUM_VALUE_PREFIX").
			sub(c05Store, "STORE_KIND_UNSPECIFIED = 0;", "KIND_UNSPECIFIED = 0;").
			at(c05Store, "KIND_UNSPECIFIED"),
	)
	// ENUM_ZERO_VALUE_SUFFIX (default "_UNSPECIFIED"); only the zero value is concerned
	add(
		c05New("ENUM_ZERO_VALUE_SUFFIX").
			sub(c05Kind, "PET_KIND_UNSPECIFIED = 0;", "PET_KIND_UNKNOWN = 0;").
			at(c05Kind, "PET_KIND_UNKNOWN"),
		c05New("ENUM_ZERO_VALUE_SUFFIX").
			sub(c05Pet, "COLOR_UNSPECIFIED = 0;", "COLOR_NONE = 0;").
			at(c05Pet, "COLOR_NONE"),
		c05New("ENUM_ZERO_VALUE_SUFFIX").
			sub(c05Pet, "STATUS_UNSPECIFIED = 0;", "STATUS_UNSPECIFIED_VALUE = 0;").
			at(c05Pet, "STATUS_UNSPECIFIED_VALUE"),
		c05New("ENUM_ZERO_VALUE_SUFFIX").
			sub(c05Store, "STORE_KIND_UNSPECIFIED = 0;", "STORE_KIND_ZERO = 0;").
			at(c05Store, "STORE_KIND_ZERO"),
		// the suffix includes the underscore
		c05New("ENUM_ZERO_VALUE_SUFFIX").
			sub(c05Kind, "PET_KIND_UNSPECIFIED = 0;", "PET_KIND_NOTUNSPECIFIED = 0;").
			at(c05Kind, "PET_KIND_NOTUNSPECIFIED"),
		// a non-zero value that carries the suffix is fine
		c05New("ENUM_ZERO_VALUE_SUFFIX").
			sub(c05Kind, "PET_KIND_CAT = 2;", "PET_KIND_CAT_UNSPECIFIED = 2;"),
		// proto2: the zero value is not the first one
		c05NewLegacy("ENUM_ZERO_VALUE_SUFFIX").
			sub(c05Legacy, "  // Not known.\n  LEGACY_KIND_UNSPECIFIED = 0;\n  // First.\n  LEGACY_KIND_ONE = 1;\n", "  // First.\n  LEGACY_KIND_ONE = 1;\n  // Zero.\n  LEGACY_KIND_ZERO = 0;\n").
			at(c05Legacy, "LEGACY_KIND_ZERO").allow("ENUM_FIRST_VALUE_ZERO"),
	)
	// ENUM_FIRST_VALUE_ZERO (annotation at the number of the first value); needs proto2
	add(
		c05NewLegacy("ENUM_FIRST_VALUE_ZERO"),
		c05NewLegacy("ENUM_FIRST_VALUE_ZERO").
			sub(c05Legacy, "  // Not known.\n  LEGACY_KIND_UNSPECIFIED = 0;\n  // First.\n  LEGACY_KIND_ONE = 1;\n", "  // First.\n  LEGACY_KIND_ONE = 1;\n  // Not known.\n  LEGACY_KIND_UNSPECIFIED = 0;\n").
			atAfter(c05Legacy, "LEGACY_KIND_ONE = "),
		c05NewLegacy("ENUM_FIRST_VALUE_ZERO").
			sub(c05Legacy, "    // Not known.\n    LEGACY_STATE_UNSPECIFIED = 0;\n    // Second.\n    LEGACY_STATE_TWO = 2;\n", "    // Second.\n    LEGACY_STATE_TWO = 2;\n    // Not known.\n    LEGACY_STATE_UNSPECIFIED = 0;\n").
			atAfter(c05Legacy, "LEGACY_STATE_TWO = "),
		c05NewLegacy("ENUM_FIRST_VALUE_ZERO").
			sub(c05Legacy, "  // Not known.\n  LEGACY_KIND_UNSPECIFIED = 0;\n", "").
			atAfter(c05Legacy, "LEGACY_KIND_ONE = "),
	)
	// ENUM_NO_ALLOW_ALIAS (annotation at the option statement)
	add(
		c05New("ENUM_NO_ALLOW_ALIAS").
			sub(c05Kind, "enum PetKind {\n", "enum PetKind {\n  option allow_alias = true;\n").
			sub(c05Kind, "  // A cat.\n", "  // A puppy is a dog.\n  PET_KIND_PUPPY = 1;\n  // A cat.\n").
			at(c05Kind, "option allow_alias"),
		c05New("ENUM_NO_ALLOW_ALIAS").
			sub(c05Pet, "  enum Status {\n", "  enum Status {\n    option allow_alias = true;\n").
			sub(c05Pet, "    // Alive and well.\n", "    // Same as active.\n    STATUS_ALIVE = 1;\n    // Alive and well.\n").
			at(c05Pet, "option allow_alias"),
		c05New("ENUM_NO_ALLOW_ALIAS").
			sub(c05Pet, "    enum Color {\n", "    enum Color {\n      option allow_alias = true;\n").
			sub(c05Pet, "      // Red.\n", "      // Crimson is red.\n      COLOR_CRIMSON = 1;\n      // Red.\n").
			at(c05Pet, "option allow_alias"),
	)
}

// ---------------------------------------------------------------------------------------------
// catalogue: fields

func c05CatFields(add func(...*c05Case)) {
	// FIELD_LOWER_SNAKE_CASE (annotation at the field name)
	add(
		c05New("FIELD_LOWER_SNAKE_CASE").
			sub(c05Pet, "string pet_name = 1;", "string petName = 1;").
			at(c05Pet, "petName"),
		c05New("FIELD_LOWER_SNAKE_CASE").
			sub(c05Pet, "string label = 1;", "string Label = 1;").
			at(c05Pet, "Label = 1"),
		c05New("FIELD_LOWER_SNAKE_CASE").
			sub(c05Pet, "string owner_id = 6;", "string ownerId = 6;").
			at(c05Pet, "ownerId"),
		c05New("FIELD_LOWER_SNAKE_CASE").
			sub(c05Pet, "map<string, string> labels = 5;", "map<string, string> petLabels = 5;").
			at(c05Pet, "petLabels"),
		c05New("FIELD_LOWER_SNAKE_CASE").
			sub(c05Pet, "repeated Tag tags = 4;", "repeated Tag Tags = 4;").
			at(c05Pet, "Tags = 4"),
		c05New("FIELD_LOWER_SNAKE_CASE").
			sub(c05Service, "string pet_name = 1;", "string PET_NAME = 1;").
			at(c05Service, "PET_NAME"),
		c05New("FIELD_LOWER_SNAKE_CASE").
			sub(c05Store, "string store_name = 1;", "string store_Name = 1;").
			at(c05Store, "store_Name"),
		c05NewLegacy("FIELD_LOWER_SNAKE_CASE").
			sub(c05Legacy, "optional int32 code = 1;", "optional int32 errorCode = 1;").
			at(c05Legacy, "errorCode"),
		// leading / trailing underscores are not lower_snake_case; digits are fine
		c05New("FIELD_LOWER_SNAKE_CASE").
			sub(c05Pet, "string pet_name = 1;", "string pet_name_ = 1;").
			at(c05Pet, "pet_name_ = 1"),
		c05New("FIELD_LOWER_SNAKE_CASE").
			sub(c05Pet, "string label = 1;", "string _label = 1;").
			at(c05Pet, "_label = 1"),
		c05New("FIELD_LOWER_SNAKE_CASE").
			sub(c05Pet, "string pet_name = 1;", "string pet_name2 = 1;").sub(c05Pet, "string label = 1;", "string label_2 = 1;"),
		// extension fields are fields
		c05NewLegacy("FIELD_LOWER_SNAKE_CASE").
			sub(c05Legacy, "  optional string pet_id = 2;\n", "  optional string pet_id = 2;\n  extensions 100 to 199;\n").
			sub(c05Legacy, "// LegacyPet is a proto2 message.\n", "extend LegacyPet {\n  // An extension.\n  optional string extName = 100;\n}\n\n// LegacyPet is a proto2 message.\n").
			at(c05Legacy, "extName"),
	)
	// FIELD_NOT_REQUIRED (v2 only; annotation at the field name)
	add(
		c05NewLegacy("FIELD_NOT_REQUIRED"),
		c05NewLegacy("FIELD_NOT_REQUIRED").
			sub(c05Legacy, "optional string pet_id = 2;", "required string pet_id = 2;").
			at(c05Legacy, "pet_id"),
		c05NewLegacy("FIELD_NOT_REQUIRED").
			sub(c05Legacy, "optional int32 code = 1;", "required int32 code = 1;").
			at(c05Legacy, "code = 1"),
		c05NewLegacy("FIELD_NOT_REQUIRED").
			sub(c05Legacy, "optional string pet_name = 1;", "required string pet_name = 1;").
			sub(c05Legacy, "optional string pet_id = 2;", "required string pet_id = 2;").
			at(c05Legacy, "pet_name").at(c05Legacy, "pet_id"),
	)
	// FIELD_NO_DESCRIPTOR (v1beta1 only): any capitalization of "descriptor" with prefix/suffix underscores
	add(
		c05New("FIELD_NO_DESCRIPTOR").
			sub(c05Pet, "string label = 1;", "string descriptor = 1;").
			at(c05Pet, "descriptor = 1"),
		c05New("FIELD_NO_DESCRIPTOR").
			sub(c05Pet, "string pet_name = 1;", "string _Descriptor_ = 1;").
			at(c05Pet, "_Descriptor_").allow("FIELD_LOWER_SNAKE_CASE"),
		c05New("FIELD_NO_DESCRIPTOR").
			sub(c05Store, "string store_name = 1;", "string DESCRIPTOR = 1;").
			at(c05Store, "DESCRIPTOR").allow("FIELD_LOWER_SNAKE_CASE"),
		// a field that merely contains the word is fine
		c05New("FIELD_NO_DESCRIPTOR").
			sub(c05Pet, "string label = 1;", "string pet_descriptor = 1;"),
	)
}

// ---------------------------------------------------------------------------------------------
// catalogue: file names, packages, directories

func c05Shop(dir, pkg, name string) (string, string) {
	return dir + "/" + name, "syntax = \"proto3\";\n\npackage " + pkg + ";\n\n// Shop is a shop.\nmessage Shop {}\n"
}

func c05CatFilesPackages(add func(...*c05Case)) {
	// FILE_LOWER_SNAKE_CASE (annotation without location on the file); only the base name counts
	add(
		c05New("FILE_LOWER_SNAKE_CASE").
			move(c05Kind, "acme/pet/v1/PetKind.proto").fix(c05Pet, "acme/pet/v1/pet_kind.proto", "acme/pet/v1/PetKind.proto").
			noLoc("acme/pet/v1/PetKind.proto"),
		c05New("FILE_LOWER_SNAKE_CASE").
			move(c05Store, "acme/store/v1/storeInfo.proto").fix(c05Pet, "acme/store/v1/store.proto", "acme/store/v1/storeInfo.proto").
			noLoc("acme/store/v1/storeInfo.proto"),
		c05New("FILE_LOWER_SNAKE_CASE").
			move(c05Service, "acme/pet/v1/Pet_Service.proto").
			noLoc("acme/pet/v1/Pet_Service.proto"),
		c05New("FILE_LOWER_SNAKE_CASE").
			move(c05Kind, "acme/pet/v1/pet_kind_.proto").fix(c05Pet, "acme/pet/v1/pet_kind.proto", "acme/pet/v1/pet_kind_.proto").
			noLoc("acme/pet/v1/pet_kind_.proto"),
		// the directory is not part of the file name
		c05New("FILE_LOWER_SNAKE_CASE").
			add(c05Shop("acme/Shop_Dir/v1", "acme.shopdir.v1", "shop_info.proto")).nocat(),
	)
	// PACKAGE_DEFINED (annotation without location)
	add(
		c05New("PACKAGE_DEFINED").
			add("nopkg.proto", "syntax = \"proto3\";\n\n// Loose is in no package.\nmessage Loose {}\n").
			noLoc("nopkg.proto"),
		c05New("PACKAGE_DEFINED").
			add("nopkg.proto", "syntax = \"proto3\";\n\n// Loose is in no package.\nmessage Loose {}\n").
			add("misc/nopkg_too.proto", "syntax = \"proto3\";\n\n// Looser is in no package.\nmessage Looser {}\n").
			noLoc("nopkg.proto").noLoc("misc/nopkg_too.proto").allow("PACKAGE_SAME_DIRECTORY"),
	)
	// PACKAGE_DIRECTORY_MATCH (annotation at the package statement)
	add(
		c05New("PACKAGE_DIRECTORY_MATCH").
			move(c05Store, "acme/shop/v1/store.proto").fix(c05Pet, "acme/store/v1/store.proto", "acme/shop/v1/store.proto").
			at("acme/shop/v1/store.proto", "package acme.store.v1;"),
		c05New("PACKAGE_DIRECTORY_MATCH").
			add(c05Shop("acme/shop", "acme.shop.v1", "shop.proto")).
			at("acme/shop/shop.proto", "package acme.shop.v1;"),
		c05New("PACKAGE_DIRECTORY_MATCH").
			add("shop.proto", "syntax = \"proto3\";\n\npackage acme.shop.v1;\n\n// Shop is a shop.\nmessage Shop {}\n").
			at("shop.proto", "package acme.shop.v1;"),
		c05New("PACKAGE_DIRECTORY_MATCH").
			add(c05Shop("acme/shop/v1/extra", "acme.shop.v1", "shop.proto")).
			at("acme/shop/v1/extra/shop.proto", "package acme.shop.v1;"),
		c05New("PACKAGE_DIRECTORY_MATCH").
			add(c05Shop("v1/shop/acme", "acme.shop.v1", "shop.proto")).
			at("v1/shop/acme/shop.proto", "package acme.shop.v1;"),
	)
	// PACKAGE_SAME_DIRECTORY: every file of the package is reported (at its package statement)
	add(
		c05New("PACKAGE_SAME_DIRECTORY").
			move(c05Kind, "acme/pet/v1/sub/pet_kind.proto").fix(c05Pet, "acme/pet/v1/pet_kind.proto", "acme/pet/v1/sub/pet_kind.proto").
			at(c05Pet, "package acme.pet.v1;").at(c05Service, "package acme.pet.v1;").at("acme/pet/v1/sub/pet_kind.proto", "package acme.pet.v1;").
			allow("PACKAGE_DIRECTORY_MATCH"),
		c05New("PACKAGE_SAME_DIRECTORY").
			add(c05Shop("acme/shop/v1", "acme.store.v1", "shop.proto")).
			at(c05Store, "package acme.store.v1;").at("acme/shop/v1/shop.proto", "package acme.store.v1;").
			allow("PACKAGE_DIRECTORY_MATCH"),
	)
	// DIRECTORY_SAME_PACKAGE: every file of the directory is reported
	add(
		c05New("DIRECTORY_SAME_PACKAGE").
			add(c05Shop("acme/pet/v1", "acme.shop.v1", "shop.proto")).
			at(c05Pet, "package acme.pet.v1;").at(c05Kind, "package acme.pet.v1;").at(c05Service, "package acme.pet.v1;").at("acme/pet/v1/shop.proto", "package acme.shop.v1;").
			allow("PACKAGE_DIRECTORY_MATCH"),
		c05New("DIRECTORY_SAME_PACKAGE").
			add(c05Shop("acme/store/v1", "acme.store.v1beta1", "shop.proto")).
			at(c05Store, "package acme.store.v1;").at("acme/store/v1/shop.proto", "package acme.store.v1beta1;").
			allow("PACKAGE_DIRECTORY_MATCH"),
		c05New("DIRECTORY_SAME_PACKAGE").
			add("acme/store/v1/nopkg.proto", "syntax = \"proto3\";\n\n// Loose is in no package.\nmessage Loose {}\n").
			at(c05Store, "package acme.store.v1;").noLoc("acme/store/v1/nopkg.proto").
			allow("PACKAGE_DEFINED", "PACKAGE_DIRECTORY_MATCH"),
	)
	// PACKAGE_LOWER_SNAKE_CASE (annotation at the package statement)
	add(
		c05New("PACKAGE_LOWER_SNAKE_CASE").
			add(c05Shop("acme/Shop/v1", "acme.Shop.v1", "shop.proto")).
			at("acme/Shop/v1/shop.proto", "package acme.Shop.v1;"),
		c05New("PACKAGE_LOWER_SNAKE_CASE").
			add(c05Shop("acme/petFood/v1", "acme.petFood.v1", "shop.proto")).
			at("acme/petFood/v1/shop.proto", "package acme.petFood.v1;"),
		c05New("PACKAGE_LOWER_SNAKE_CASE").
			add(c05Shop("ACME/shop/v1", "ACME.shop.v1", "shop.proto")).
			at("ACME/shop/v1/shop.proto", "package ACME.shop.v1;"),
		c05New("PACKAGE_LOWER_SNAKE_CASE").
			add(c05Shop("acme/pet_food/v1", "acme.pet_food.v1", "shop.proto")),
	)
	// PACKAGE_VERSION_SUFFIX: last component v\d+, v\d+test.*, v\d+(alpha|beta)\d+, v\d+p\d+(alpha|beta)\d+, numbers >= 1
	bad := c05New("PACKAGE_VERSION_SUFFIX")
	for _, last := range []string{"v0", "v1alpha0", "v0beta1", "vv1", "v1gamma1", "version1", "v1p0beta1", "v1rc1"} {
		bad.add(c05Shop("acme/shop/"+last, "acme.shop."+last, "shop.proto")).at("acme/shop/"+last+"/shop.proto", "package acme.shop."+last+";")
	}
	good := c05New("PACKAGE_VERSION_SUFFIX")
	for _, last := range []string{"v2", "v12", "v2beta1", "v1alpha3", "v1test", "v1testing", "v1p1alpha1", "v3p2beta12"} {
		good.add(c05Shop("acme/shop/"+last, "acme.shop."+last, "shop.proto"))
	}
	add(
		bad, good,
		c05New("PACKAGE_VERSION_SUFFIX").
			add(c05Shop("acme/shop", "acme.shop", "shop.proto")).
			at("acme/shop/shop.proto", "package acme.shop;"),
		c05New("PACKAGE_VERSION_SUFFIX").
			add(c05Shop("acme/v1/shop", "acme.v1.shop", "shop.proto")).
			at("acme/v1/shop/shop.proto", "package acme.v1.shop;"),
		c05New("PACKAGE_VERSION_SUFFIX").
			add(c05Shop("shop", "shop", "shop.proto")).
			at("shop/shop.proto", "package shop;"),
	)
	// SYNTAX_SPECIFIED (annotation without location)
	add(
		c05NewLegacy("SYNTAX_SPECIFIED"),
		c05NewLegacy("SYNTAX_SPECIFIED").
			sub(c05Legacy, "syntax = \"proto2\";\n\n", "").
			noLoc(c05Legacy),
		c05New("SYNTAX_SPECIFIED").
			add("acme/shop/v1/shop.proto", "package acme.shop.v1;\n\n// Shop is a shop.\nmessage Shop {}\n").
			noLoc("acme/shop/v1/shop.proto"),
	)
}

// ---------------------------------------------------------------------------------------------
// catalogue: imports

func c05CatImports(add func(...*c05Case)) {
	// IMPORT_USED (annotation at the import statement)
	add(
		c05New("IMPORT_USED").
			sub(c05Service, "import \"acme/pet/v1/pet.proto\";\n", "import \"acme/pet/v1/pet.proto\";\nimport \"acme/pet/v1/pet_kind.proto\";\n").
			at(c05Service, "import \"acme/pet/v1/pet_kind.proto\";"),
		c05New("IMPORT_USED").
			sub(c05Store, "package acme.store.v1;\n", "package acme.store.v1;\n\nimport \"google/protobuf/empty.proto\";\n").
			at(c05Store, "import \"google/protobuf/empty.proto\";"),
		c05New("IMPORT_USED").
			sub(c05Pet, "    // A store.\n    acme.store.v1.Store store = 7;\n", "").
			at(c05Pet, "import \"acme/store/v1/store.proto\";"),
		c05New("IMPORT_USED").
			sub(c05Kind, "package acme.pet.v1;\n", "package acme.pet.v1;\n\nimport \"acme/store/v1/store.proto\";\nimport \"google/protobuf/any.proto\";\n").
			at(c05Kind, "import \"acme/store/v1/store.proto\";").at(c05Kind, "import \"google/protobuf/any.proto\";"),
	)
	// IMPORT_NO_PUBLIC (annotation at the import statement)
	add(
		c05New("IMPORT_NO_PUBLIC").
			sub(c05Pet, "import \"acme/pet/v1/pet_kind.proto\";", "import public \"acme/pet/v1/pet_kind.proto\";").
			at(c05Pet, "import public \"acme/pet/v1/pet_kind.proto\";"),
		c05New("IMPORT_NO_PUBLIC").
			sub(c05Pet, "import \"acme/store/v1/store.proto\";", "import public \"acme/store/v1/store.proto\";").
			at(c05Pet, "import public \"acme/store/v1/store.proto\";"),
		c05New("IMPORT_NO_PUBLIC").
			sub(c05Service, "import \"acme/pet/v1/pet.proto\";", "import public \"acme/pet/v1/pet.proto\";").
			at(c05Service, "import public \"acme/pet/v1/pet.proto\";"),
	)
	// PACKAGE_NO_IMPORT_CYCLE: the packages import each other through different files; the imports that close the cycle are reported
	add(
		c05New("PACKAGE_NO_IMPORT_CYCLE").
			sub(c05Store, "package acme.store.v1;\n", "package acme.store.v1;\n\nimport \"acme/pet/v1/pet_kind.proto\";\n").
			sub(c05Store, "  // Kind of the store.\n", "  // Favourite animal.\n  acme.pet.v1.PetKind favourite = 3;\n  // Kind of the store.\n").
			at(c05Pet, "import \"acme/store/v1/store.proto\";").at(c05Store, "import \"acme/pet/v1/pet_kind.proto\";"),
		c05New("PACKAGE_NO_IMPORT_CYCLE").
			add("acme/a/v1/a1.proto", "syntax = \"proto3\";\n\npackage acme.a.v1;\n\nimport \"acme/b/v1/b1.proto\";\n\n// A1 uses B1.\nmessage A1 {\n  // B.\n  acme.b.v1.B1 b = 1;\n}\n").
			add("acme/a/v1/a2.proto", "syntax = \"proto3\";\n\npackage acme.a.v1;\n\n// A2 is a leaf.\nmessage A2 {}\n").
			add("acme/b/v1/b1.proto", "syntax = \"proto3\";\n\npackage acme.b.v1;\n\nimport \"acme/c/v1/c1.proto\";\n\n// B1 uses C1.\nmessage B1 {\n  // C.\n  acme.c.v1.C1 c = 1;\n}\n").
			add("acme/c/v1/c1.proto", "syntax = \"proto3\";\n\npackage acme.c.v1;\n\nimport \"acme/a/v1/a2.proto\";\n\n// C1 uses A2.\nmessage C1 {\n  // A.\n  acme.a.v1.A2 a = 1;\n}\n").
			at("acme/a/v1/a1.proto", "import \"acme/b/v1/b1.proto\";").at("acme/b/v1/b1.proto", "import \"acme/c/v1/c1.proto\";").at("acme/c/v1/c1.proto", "import \"acme/a/v1/a2.proto\";"),
	)
	// STABLE_PACKAGE_NO_IMPORT_UNSTABLE (v2, in no category)
	draft := "syntax = \"proto3\";\n\npackage acme.store.v1beta1;\n\n// Draft is unstable.\nmessage Draft {}\n"
	add(
		c05New("STABLE_PACKAGE_NO_IMPORT_UNSTABLE").
			add("acme/store/v1beta1/draft.proto", draft).
			sub(c05Pet, "import \"acme/store/v1/store.proto\";\n", "import \"acme/store/v1/store.proto\";\nimport \"acme/store/v1beta1/draft.proto\";\n").
			sub(c05Pet, "  // Optional nickname.\n", "  // A draft.\n  acme.store.v1beta1.Draft draft = 9;\n  // Optional nickname.\n").
			at(c05Pet, "import \"acme/store/v1beta1/draft.proto\";"),
		c05New("STABLE_PACKAGE_NO_IMPORT_UNSTABLE").
			add("acme/store/v1alpha2/draft.proto", strings.ReplaceAll(draft, "v1beta1", "v1alpha2")).
			sub(c05Store, "package acme.store.v1;\n", "package acme.store.v1;\n\nimport \"acme/store/v1alpha2/draft.proto\";\n").
			sub(c05Store, "  // Kind of the store.\n", "  // A draft.\n  acme.store.v1alpha2.Draft draft = 3;\n  // Kind of the store.\n").
			at(c05Store, "import \"acme/store/v1alpha2/draft.proto\";"),
		// unstable may import stable and unstable
		c05New("STABLE_PACKAGE_NO_IMPORT_UNSTABLE").
			add("acme/store/v1beta1/draft.proto", "syntax = \"proto3\";\n\npackage acme.store.v1beta1;\n\nimport \"acme/store/v1/store.proto\";\nimport \"acme/store/v1alpha1/sketch.proto\";\n\n// Draft is unstable.\nmessage Draft {\n  // Store.\n  acme.store.v1.Store store = 1;\n  // Sketch.\n  acme.store.v1alpha1.Sketch sketch = 2;\n}\n").
			add("acme/store/v1alpha1/sketch.proto", "syntax = \"proto3\";\n\npackage acme.store.v1alpha1;\n\n// Sketch is unstable.\nmessage Sketch {}\n"),
	)
}

// ---------------------------------------------------------------------------------------------
// catalogue: PACKAGE_SAME_<option>: all files of a package have the same value for the option; an absent
// option differs from any written value (for java_multiple_files also from an explicit false)

func c05CatSameOption(add func(...*c05Case)) {
	petFiles := []string{c05Pet, c05Kind, c05Service}
	// combos: one entry per file of acme.pet.v1; "" = option not written
	plant := func(rule, option string, values []string, storeValue string) *c05Case {
		c := c05New(rule)
		distinct := map[string]bool{}
		for i, v := range values {
			distinct[v] = true
			if v != "" {
				c.sub(petFiles[i], "package acme.pet.v1;\n", "package acme.pet.v1;\n\noption "+option+" = "+v+";\n")
			}
		}
		if storeValue != "" {
			c.sub(c05Store, "package acme.store.v1;\n", "package acme.store.v1;\n\noption "+option+" = "+storeValue+";\n")
		}
		if len(c.desc) == 0 {
			c.desc = append(c.desc, "option "+option+" written in no file")
		}
		if len(distinct) > 1 {
			for i, v := range values {
				if v == "" {
					c.noLoc(petFiles[i])
				} else {
					c.at(petFiles[i], "option "+option)
				}
			}
		}
		return c
	}
	for _, o := range []struct{ rule, option string }{
		{"PACKAGE_SAME_GO_PACKAGE", "go_package"},
		{"PACKAGE_SAME_JAVA_PACKAGE", "java_package"},
		{"PACKAGE_SAME_CSHARP_NAMESPACE", "csharp_namespace"},
		{"PACKAGE_SAME_PHP_NAMESPACE", "php_namespace"},
		{"PACKAGE_SAME_RUBY_PACKAGE", "ruby_package"},
		{"PACKAGE_SAME_SWIFT_PREFIX", "swift_prefix"},
	} {
		x, y, z := `"acme.pet.x"`, `"acme.pet.y"`, `"acme.store.z"`
		add(
			plant(o.rule, o.option, []string{"", "", ""}, z),
			plant(o.rule, o.option, []string{x, x, x}, z),
			plant(o.rule, o.option, []string{x, x, y}, ""),
			plant(o.rule, o.option, []string{x, y, x}, x),
			plant(o.rule, o.option, []string{y, x, x}, ""),
			plant(o.rule, o.option, []string{x, "", x}, ""),
			plant(o.rule, o.option, []string{"", "", y}, y),
			plant(o.rule, o.option, []string{x, "", ""}, ""),
		)
	}
	jmf := func(values ...string) *c05Case {
		return plant("PACKAGE_SAME_JAVA_MULTIPLE_FILES", "java_multiple_files", values, "")
	}
	add(
		jmf("", "", ""), jmf("true", "true", "true"), jmf("false", "false", "false"),
		plant("PACKAGE_SAME_JAVA_MULTIPLE_FILES", "java_multiple_files", []string{"true", "true", "true"}, "false"),
		jmf("true", "false", "true"), jmf("true", "true", "false"), jmf("false", "true", "true"),
		jmf("true", "", "true"), jmf("", "", "true"), jmf("true", "", ""),
		jmf("false", "", "false"), jmf("", "false", ""), jmf("false", "", ""), jmf("", "", "false"), jmf("false", "false", ""),
	)
}

// ---------------------------------------------------------------------------------------------
// catalogue: RPCs

func c05CatRPC(add func(...*c05Case)) {
	// RPC_NO_CLIENT_STREAMING / RPC_NO_SERVER_STREAMING (annotation at the RPC)
	add(
		c05New("RPC_NO_CLIENT_STREAMING").
			sub(c05Service, "rpc PutPet(PutPetRequest)", "rpc PutPet(stream PutPetRequest)").
			at(c05Service, "rpc PutPet("),
		c05New("RPC_NO_CLIENT_STREAMING").
			sub(c05Service, "rpc DeletePet(PetAdminServiceDeletePetRequest)", "rpc DeletePet(stream PetAdminServiceDeletePetRequest)").
			at(c05Service, "rpc DeletePet("),
		c05New("RPC_NO_CLIENT_STREAMING").
			sub(c05Store, "rpc ListStores(ListStoresRequest)", "rpc ListStores(stream ListStoresRequest)").
			at(c05Store, "rpc ListStores("),
		c05New("RPC_NO_SERVER_STREAMING").
			sub(c05Service, "returns (GetPetResponse)", "returns (stream GetPetResponse)").
			at(c05Service, "rpc GetPet("),
		c05New("RPC_NO_SERVER_STREAMING").
			sub(c05Service, "returns (PutPetResponse)", "returns (stream PutPetResponse)").
			at(c05Service, "rpc PutPet("),
		c05New("RPC_NO_SERVER_STREAMING").
			sub(c05Store, "returns (ListStoresResponse)", "returns (stream ListStoresResponse)").
			at(c05Store, "rpc ListStores("),
		c05New("RPC_NO_CLIENT_STREAMING").also("RPC_NO_SERVER_STREAMING").
			sub(c05Service, "rpc PutPet(PutPetRequest) returns (PutPetResponse)", "rpc PutPet(stream PutPetRequest) returns (stream PutPetResponse)").
			at(c05Service, "rpc PutPet(").atRule("RPC_NO_SERVER_STREAMING", c05Service, "rpc PutPet("),
		// a server-streaming RPC is not client streaming and vice versa
		c05New("RPC_NO_CLIENT_STREAMING").
			sub(c05Service, "returns (GetPetResponse)", "returns (stream GetPetResponse)").allow("RPC_NO_SERVER_STREAMING"),
		c05New("RPC_NO_SERVER_STREAMING").
			sub(c05Service, "rpc PutPet(PutPetRequest)", "rpc PutPet(stream PutPetRequest)").allow("RPC_NO_CLIENT_STREAMING"),
	)
	// RPC_REQUEST_STANDARD_NAME: RPCNameRequest or ServiceNameRPCNameRequest (annotation at the request type reference)
	add(
		c05New("RPC_REQUEST_STANDARD_NAME").
			subAll(c05Service, "GetPetRequest", "GetPetReq").
			at(c05Service, "GetPetReq)"),
		c05New("RPC_REQUEST_STANDARD_NAME").
			subAll(c05Service, "PutPetRequest", "PetRequest").
			atAfter(c05Service, "rpc PutPet("),
		c05New("RPC_REQUEST_STANDARD_NAME").
			subAll(c05Service, "PetAdminServiceDeletePetRequest", "AdminDeletePetRequest").
			at(c05Service, "AdminDeletePetRequest)"),
		c05New("RPC_REQUEST_STANDARD_NAME").
			subAll(c05Store, "ListStoresRequest", "ListStoresRequestMessage").
			at(c05Store, "ListStoresRequestMessage)"),
		c05New("RPC_REQUEST_STANDARD_NAME").
			sub(c05Service, "rpc GetPet(GetPetRequest)", "rpc GetPet(acme.store.v1.Store)").fix(c05Service, "import \"acme/pet/v1/pet.proto\";\n", "import \"acme/pet/v1/pet.proto\";\nimport \"acme/store/v1/store.proto\";\n").
			at(c05Service, "acme.store.v1.Store)"),
		// qualified references to standard names are fine, so is the service-prefixed form
		c05New("RPC_REQUEST_STANDARD_NAME").also("RPC_RESPONSE_STANDARD_NAME").
			sub(c05Service, "rpc GetPet(GetPetRequest) returns (GetPetResponse)", "rpc GetPet(acme.pet.v1.GetPetRequest) returns (.acme.pet.v1.GetPetResponse)"),
		c05New("RPC_REQUEST_STANDARD_NAME").also("RPC_RESPONSE_STANDARD_NAME").
			subAll(c05Service, "GetPetRequest", "PetServiceGetPetRequest").subAll(c05Service, "GetPetResponse", "PetServiceGetPetResponse"),
	)
	// RPC_RESPONSE_STANDARD_NAME
	add(
		c05New("RPC_RESPONSE_STANDARD_NAME").
			subAll(c05Service, "GetPetResponse", "GetPetResp").
			at(c05Service, "GetPetResp)"),
		c05New("RPC_RESPONSE_STANDARD_NAME").
			subAll(c05Service, "PutPetResponse", "PutPetResult").
			at(c05Service, "PutPetResult)"),
		c05New("RPC_RESPONSE_STANDARD_NAME").
			subAll(c05Service, "PetAdminServiceDeletePetResponse", "PetAdminDeletePetResponse").
			at(c05Service, "PetAdminDeletePetResponse)"),
		c05New("RPC_RESPONSE_STANDARD_NAME").
			subAll(c05Store, "ListStoresResponse", "StoresResponse").
			at(c05Store, "StoresResponse)"),
		c05New("RPC_RESPONSE_STANDARD_NAME").
			sub(c05Service, "returns (GetPetResponse)", "returns (Pet)").
			at(c05Service, "Pet);"),
	)
	// RPC_REQUEST_RESPONSE_UNIQUE: request and response types are used in one RPC only (every RPC involved is reported, at the RPC)
	add(
		c05New("RPC_REQUEST_RESPONSE_UNIQUE").set().
			sub(c05Service, "rpc PutPet(PutPetRequest)", "rpc PutPet(GetPetRequest)").
			at(c05Service, "rpc GetPet(").at(c05Service, "rpc PutPet(").allow("RPC_REQUEST_STANDARD_NAME"),
		c05New("RPC_REQUEST_RESPONSE_UNIQUE").set().
			sub(c05Service, "returns (PetAdminServiceDeletePetResponse)", "returns (PutPetResponse)").
			at(c05Service, "rpc PutPet(").at(c05Service, "rpc DeletePet(").allow("RPC_RESPONSE_STANDARD_NAME"),
		c05New("RPC_REQUEST_RESPONSE_UNIQUE").set().
			sub(c05Service, "rpc PutPet(PutPetRequest) returns (PutPetResponse)", "rpc PutPet(PutPetRequest) returns (PutPetRequest)").
			at(c05Service, "rpc PutPet(").allow("RPC_RESPONSE_STANDARD_NAME"),
		c05New("RPC_REQUEST_RESPONSE_UNIQUE").set().
			sub(c05Service, "rpc PutPet(PutPetRequest) returns (PutPetResponse)", "rpc PutPet(PutPetRequest) returns (GetPetRequest)").
			at(c05Service, "rpc GetPet(").at(c05Service, "rpc PutPet(").allow("RPC_RESPONSE_STANDARD_NAME"),
		c05New("RPC_REQUEST_RESPONSE_UNIQUE").set().
			add("acme/pet/v1/pet_search_service.proto", "syntax = \"proto3\";\n\npackage acme.pet.v1;\n\nimport \"acme/pet/v1/pet_service.proto\";\n\n// PetSearchService searches.\nservice PetSearchService {\n  // SearchPet searches.\n  rpc SearchPet(SearchPetRequest) returns (GetPetResponse);\n}\n\n// SearchPetRequest is empty.\nmessage SearchPetRequest {}\n").
			at(c05Service, "rpc GetPet(").at("acme/pet/v1/pet_search_service.proto", "rpc SearchPet(").allow("RPC_RESPONSE_STANDARD_NAME"),
		c05New("RPC_REQUEST_RESPONSE_UNIQUE").set().
			sub(c05Service, "import \"acme/pet/v1/pet.proto\";\n", "import \"acme/pet/v1/pet.proto\";\nimport \"google/protobuf/empty.proto\";\n").
			sub(c05Service, "rpc GetPet(GetPetRequest)", "rpc GetPet(google.protobuf.Empty)").
			sub(c05Service, "rpc PutPet(PutPetRequest) returns (PutPetResponse)", "rpc PutPet(PutPetRequest) returns (google.protobuf.Empty)").
			at(c05Service, "rpc GetPet(").at(c05Service, "rpc PutPet(").allow("RPC_REQUEST_STANDARD_NAME", "RPC_RESPONSE_STANDARD_NAME"),
	)
}

// ---------------------------------------------------------------------------------------------
// catalogue: rule options read from buf.yaml (every config version): custom suffixes, allow_* flags, comment ignores

func c05CatOptions(add func(...*c05Case)) {
	// enum_zero_value_suffix: _NONE
	add(
		c05New("ENUM_ZERO_VALUE_SUFFIX").option("  enum_zero_value_suffix: _NONE\n").
			at(c05Kind, "PET_KIND_UNSPECIFIED").at(c05Pet, "COLOR_UNSPECIFIED").at(c05Pet, "STATUS_UNSPECIFIED").at(c05Store, "STORE_KIND_UNSPECIFIED"),
		c05New("ENUM_ZERO_VALUE_SUFFIX").option("  enum_zero_value_suffix: _NONE\n").
			sub(c05Kind, "PET_KIND_UNSPECIFIED", "PET_KIND_NONE").sub(c05Pet, "COLOR_UNSPECIFIED", "COLOR_NONE").sub(c05Pet, "STATUS_UNSPECIFIED", "STATUS_NONE").sub(c05Store, "STORE_KIND_UNSPECIFIED", "STORE_KIND_NONE"),
		c05New("ENUM_ZERO_VALUE_SUFFIX").option("  enum_zero_value_suffix: _NONE\n").
			sub(c05Kind, "PET_KIND_UNSPECIFIED", "PET_KIND_NONE").sub(c05Pet, "COLOR_UNSPECIFIED", "COLOR_NONE").sub(c05Pet, "STATUS_UNSPECIFIED", "STATUS_NONE").
			at(c05Store, "STORE_KIND_UNSPECIFIED"),
	)
	// service_suffix: API
	add(
		c05New("SERVICE_SUFFIX").option("  service_suffix: API\n").
			at(c05Service, "PetService {").at(c05Service, "PetAdminService {").at(c05Store, "StoreService {"),
		c05New("SERVICE_SUFFIX").option("  service_suffix: API\n").
			sub(c05Service, "service PetService {", "service PetAPI {").subAll(c05Service, "PetAdminService", "PetAdminAPI").sub(c05Store, "service StoreService {", "service StoreAPI {"),
		c05New("SERVICE_SUFFIX").option("  service_suffix: API\n").
			sub(c05Service, "service PetService {", "service PetAPI {").sub(c05Store, "service StoreService {", "service StoreAPI {").
			at(c05Service, "PetAdminService {"),
	)
	// rpc_allow_same_request_response
	add(
		c05New("RPC_REQUEST_RESPONSE_UNIQUE").set().option("  rpc_allow_same_request_response: true\n").
			sub(c05Service, "rpc PutPet(PutPetRequest) returns (PutPetResponse)", "rpc PutPet(PutPetRequest) returns (PutPetRequest)").
			allow("RPC_RESPONSE_STANDARD_NAME"),
		// the flag does not allow reuse across RPCs
		c05New("RPC_REQUEST_RESPONSE_UNIQUE").set().option("  rpc_allow_same_request_response: true\n").
			sub(c05Service, "rpc PutPet(PutPetRequest)", "rpc PutPet(GetPetRequest)").
			at(c05Service, "rpc GetPet(").at(c05Service, "rpc PutPet(").allow("RPC_REQUEST_STANDARD_NAME"),
	)
	// rpc_allow_google_protobuf_empty_requests / _responses
	empty := func(opts string) *c05Case {
		c := c05New("RPC_REQUEST_STANDARD_NAME").also("RPC_RESPONSE_STANDARD_NAME", "RPC_REQUEST_RESPONSE_UNIQUE").set()
		if opts != "" {
			c.option(opts)
		} else {
			c.tag = "opt"
		}
		c.fix(c05Service, "import \"acme/pet/v1/pet.proto\";\n", "import \"acme/pet/v1/pet.proto\";\nimport \"google/protobuf/empty.proto\";\n")
		return c
	}
	const (
		allowReq  = "  rpc_allow_google_protobuf_empty_requests: true\n"
		allowResp = "  rpc_allow_google_protobuf_empty_responses: true\n"
		reqStd    = "RPC_REQUEST_STANDARD_NAME"
		respStd   = "RPC_RESPONSE_STANDARD_NAME"
		unique    = "RPC_REQUEST_RESPONSE_UNIQUE"
	)
	emptyReq1 := func(c *c05Case) *c05Case {
		return c.sub(c05Service, "rpc GetPet(GetPetRequest)", "rpc GetPet(google.protobuf.Empty)")
	}
	emptyReq2 := func(c *c05Case) *c05Case {
		return c.sub(c05Service, "rpc PutPet(PutPetRequest)", "rpc PutPet(google.protobuf.Empty)")
	}
	emptyResp1 := func(c *c05Case) *c05Case {
		return c.sub(c05Service, "returns (GetPetResponse)", "returns (google.protobuf.Empty)")
	}
	emptyResp2 := func(c *c05Case) *c05Case {
		return c.sub(c05Service, "returns (PutPetResponse)", "returns (google.protobuf.Empty)")
	}
	add(
		// no flag: Empty is an ordinary non-standard name
		emptyReq1(empty("")).atRule(reqStd, c05Service, "google.protobuf.Empty)"),
		emptyResp1(empty("")).atRule(respStd, c05Service, "google.protobuf.Empty)"),
		// requests allowed
		emptyReq1(empty(allowReq)),
		emptyReq2(emptyReq1(empty(allowReq))),
		emptyResp1(empty(allowReq)).atRule(respStd, c05Service, "google.protobuf.Empty)"),
		emptyResp2(emptyResp1(empty(allowReq))).
			atRule(respStd, c05Service, "google.protobuf.Empty)").atRule(respStd, c05Service, "google.protobuf.Empty);\n  // PutPet").atRule(respStd, c05Service, "google.protobuf.Empty);\n}").
			atRule(unique, c05Service, "rpc GetPet(").atRule(unique, c05Service, "rpc PutPet("),
		// responses allowed
		emptyResp1(empty(allowResp)),
		emptyResp2(emptyResp1(empty(allowResp))),
		emptyReq1(empty(allowResp)).atRule(reqStd, c05Service, "google.protobuf.Empty)"),
		emptyReq2(emptyReq1(empty(allowResp))).
			atRule(reqStd, c05Service, "google.protobuf.Empty) returns (GetPetResponse").atRule(reqStd, c05Service, "google.protobuf.Empty) returns (PutPetResponse").
			atRule(unique, c05Service, "rpc GetPet(").atRule(unique, c05Service, "rpc PutPet("),
		// both allowed
		emptyResp2(emptyReq2(emptyResp1(emptyReq1(empty(allowReq+allowResp))))),
	)
	// comment ignores: v1beta1/v1 allow_comment_ignores (default off), v2 disallow_comment_ignores (default on)
	ignored := func() *c05Case {
		return c05New("ENUM_PASCAL_CASE").
			sub(c05Kind, "// PetKind says what animal a pet is.\nenum PetKind {", "// PetKind says what animal a pet is.\n// buf:lint:ignore ENUM_PASCAL_CASE\nenum pet_kind {").fix(c05Pet, "PetKind kind", "pet_kind kind")
	}
	add(
		ignored().only("v2").option(""),
		ignored().only("v2").option("  disallow_comment_ignores: true\n").at(c05Kind, "pet_kind {"),
		ignored().only("v2").option("  disallow_comment_ignores: false\n"),
		ignored().only("v1beta1", "v1").option("").at(c05Kind, "pet_kind {"),
		ignored().only("v1beta1", "v1").option("  allow_comment_ignores: true\n"),
		ignored().only("v1beta1", "v1").option("  allow_comment_ignores: false\n").at(c05Kind, "pet_kind {"),
	)
}

// ---------------------------------------------------------------------------------------------
// catalogue: COMMENT_*: a leading comment with a non-empty line is required (annotation at the element)

func c05CatComments(add func(...*c05Case)) {
	type el struct {
		rule, path, comment, anchor string
	}
	els := []el{
		{"COMMENT_ENUM", c05Kind, "// PetKind says what animal a pet is.\n", "enum PetKind {"},
		{"COMMENT_ENUM", c05Pet, "  // Status is a nested enum.\n", "enum Status {"},
		{"COMMENT_ENUM", c05Pet, "    // Color is a doubly nested enum.\n", "enum Color {"},
		{"COMMENT_ENUM", c05Store, "// StoreKind is the kind of a store.\n", "enum StoreKind {"},
		{"COMMENT_ENUM_VALUE", c05Kind, "  // Not known.\n", "PET_KIND_UNSPECIFIED = 0;"},
		{"COMMENT_ENUM_VALUE", c05Kind, "  // A cat.\n", "PET_KIND_CAT = 2;"},
		{"COMMENT_ENUM_VALUE", c05Pet, "      // Red.\n", "COLOR_RED = 1;"},
		{"COMMENT_ENUM_VALUE", c05Pet, "    // Alive and well.\n", "STATUS_ACTIVE = 1;"},
		{"COMMENT_ENUM_VALUE", c05Store, "  // Online shop.\n", "STORE_KIND_ONLINE = 1;"},
		{"COMMENT_MESSAGE", c05Pet, "// Pet is a pet.\n", "message Pet {"},
		{"COMMENT_MESSAGE", c05Pet, "  // Tag is a nested message.\n", "message Tag {"},
		{"COMMENT_MESSAGE", c05Service, "// PutPetResponse is empty.\n", "message PutPetResponse {}"},
		{"COMMENT_MESSAGE", c05Store, "// Store sells pets.\n", "message Store {"},
		{"COMMENT_FIELD", c05Pet, "  // Name of the pet.\n", "string pet_name = 1;"},
		{"COMMENT_FIELD", c05Pet, "    // Colour of the tag.\n", "Color tag_color = 2;"},
		{"COMMENT_FIELD", c05Pet, "  // Tags of the pet.\n", "repeated Tag tags = 4;"},
		{"COMMENT_FIELD", c05Pet, "  // Free-form labels.\n", "map<string, string> labels = 5;"},
		{"COMMENT_FIELD", c05Pet, "    // A store.\n", "acme.store.v1.Store store = 7;"},
		{"COMMENT_FIELD", c05Pet, "  // Optional nickname.\n", "optional string nick_name = 8;"},
		{"COMMENT_FIELD", c05Service, "  // The pet.\n", "Pet pet = 1;"},
		{"COMMENT_FIELD", c05Store, "  // The stores.\n", "repeated Store stores = 1;"},
		{"COMMENT_ONEOF", c05Pet, "  // Who owns the pet.\n", "oneof owner_ref {"},
		{"COMMENT_SERVICE", c05Service, "// PetService manages pets.\n", "service PetService {"},
		{"COMMENT_SERVICE", c05Service, "// PetAdminService is a second service in the same file.\n", "service PetAdminService {"},
		{"COMMENT_SERVICE", c05Store, "// StoreService lists stores.\n", "service StoreService {"},
		{"COMMENT_RPC", c05Service, "  // GetPet fetches a pet.\n", "rpc GetPet("},
		{"COMMENT_RPC", c05Service, "  // PutPet stores a pet.\n", "rpc PutPet("},
		{"COMMENT_RPC", c05Service, "  // DeletePet removes a pet.\n", "rpc DeletePet("},
		{"COMMENT_RPC", c05Store, "  // ListStores lists the stores.\n", "rpc ListStores("},
	}
	indent := func(comment string) string { return comment[:len(comment)-len(strings.TrimLeft(comment, " "))] }
	for i, e := range els {
		// the comment is removed
		add(c05New(e.rule).sub(e.path, e.comment+indent(e.comment)+e.anchor, indent(e.comment)+e.anchor).at(e.path, e.anchor))
		switch i % 4 {
		case 0: // an empty comment is no comment
			add(c05New(e.rule).sub(e.path, e.comment+indent(e.comment)+e.anchor, indent(e.comment)+"//\n"+indent(e.comment)+e.anchor).at(e.path, e.anchor))
		case 1: // only a lint-ignore directive (for some other rule) is no documentation
			add(c05New(e.rule).sub(e.path, e.comment+indent(e.comment)+e.anchor, indent(e.comment)+"// buf:lint:ignore FILE_LOWER_SNAKE_CASE\n"+indent(e.comment)+e.anchor).at(e.path, e.anchor))
		case 2: // a block comment is a comment; a directive plus text is a comment
			add(c05New(e.rule).sub(e.path, e.comment+indent(e.comment)+e.anchor, indent(e.comment)+"/* Block comment. */\n"+indent(e.comment)+e.anchor))
			add(c05New(e.rule).sub(e.path, e.comment+indent(e.comment)+e.anchor, indent(e.comment)+"// buf:lint:ignore FILE_LOWER_SNAKE_CASE\n"+indent(e.comment)+"// Some words.\n"+indent(e.comment)+e.anchor))
		case 3: // a comment detached by a blank line does not document the element
			add(c05New(e.rule).sub(e.path, e.comment+indent(e.comment)+e.anchor, e.comment+"\n"+indent(e.comment)+e.anchor).at(e.path, e.anchor))
		}
	}
	// only a trailing comment: the documentation comment is the leading one
	add(
		c05New("COMMENT_FIELD").sub(c05Pet, "  // Name of the pet.\n  string pet_name = 1;", "  string pet_name = 1; // Name of the pet.").at(c05Pet, "string pet_name = 1;"),
		c05New("COMMENT_ENUM_VALUE").sub(c05Kind, "  // A dog.\n  PET_KIND_DOG = 1;", "  PET_KIND_DOG = 1; // A dog.").at(c05Kind, "PET_KIND_DOG = 1;"),
		c05New("COMMENT_RPC").sub(c05Service, "  // PutPet stores a pet.\n  rpc PutPet(PutPetRequest) returns (PutPetResponse);", "  rpc PutPet(PutPetRequest) returns (PutPetResponse); // PutPet stores a pet.").at(c05Service, "rpc PutPet("),
	)
}

// ---------------------------------------------------------------------------------------------
// catalogue: PROTOVALIDATE (needs buf/validate/validate.proto, taken from the package's testdata)

func c05CatProtovalidate(add func(...*c05Case)) {
	data, err := os.ReadFile("testdata/lint/protovalidate/vendor/protovalidate/buf/validate/validate.proto")
	if err != nil {
		return
	}
	mk := func() *c05Case {
		c := c05New("PROTOVALIDATE")
		c.files["buf/validate/validate.proto"] = string(data)
		c.opts = "  ignore:\n    - buf\n"
		c.fix(c05Store, "package acme.store.v1;\n", "package acme.store.v1;\n\nimport \"buf/validate/validate.proto\";\n")
		return c
	}
	add(
		// valid rules
		mk().sub(c05Store, "string store_name = 1;", "string store_name = 1 [(buf.validate.field).string.min_len = 1, (buf.validate.field).string.max_len = 30];"),
		// contradictory bounds: both rules are reported
		mk().sub(c05Store, "string store_name = 1;", "string store_name = 1 [(buf.validate.field).string.min_len = 5, (buf.validate.field).string.max_len = 3];").
			at(c05Store, "(buf.validate.field).string.min_len").at(c05Store, "(buf.validate.field).string.max_len"),
		// rules of the wrong type for the field
		mk().sub(c05Store, "string store_name = 1;", "string store_name = 1 [(buf.validate.field).int64.gt = 1];").
			at(c05Store, "(buf.validate.field).int64.gt"),
		// a CEL expression that does not compile
		mk().sub(c05Store, "string store_name = 1;", "string store_name = 1 [(buf.validate.field).cel = {id: \"store.name\", message: \"bad\", expression: \"this.foo(\"}];").
			at(c05Store, "(buf.validate.field).cel"),
	)
}
