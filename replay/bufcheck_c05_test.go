package bufcheck_test

import (
	"context"
	"errors"
	"fmt"
	"os"
	"sort"
	"strings"
	"testing"
	"time"

	"github.com/bufbuild/buf/private/buf/buftarget"
	"github.com/bufbuild/buf/private/buf/bufworkspace"
	"github.com/bufbuild/buf/private/bufpkg/bufanalysis"
	"github.com/bufbuild/buf/private/bufpkg/bufcheck"
	"github.com/bufbuild/buf/private/bufpkg/bufimage"
	"github.com/bufbuild/buf/private/bufpkg/bufmodule"
	"github.com/bufbuild/buf/private/bufpkg/bufplugin"
	"github.com/bufbuild/buf/private/pkg/slogtestext"
	"github.com/bufbuild/buf/private/pkg/storage"
	"github.com/bufbuild/buf/private/pkg/storage/storagemem"
	"github.com/bufbuild/buf/private/pkg/wasm"
)

type c05Ann struct {
	rule, path     string
	sl, sc, el, ec int
	msg            string
}

func c05RunLint(t *testing.T, files map[string]string, bufYAML string) ([]c05Ann, error) {
	ctx, cancel := context.WithTimeout(context.Background(), 20*time.Second)
	defer cancel()
	logger := slogtestext.NewLogger(t)
	bucket := storagemem.NewReadWriteBucket()
	if err := storage.PutPath(ctx, bucket, "buf.yaml", []byte(bufYAML)); err != nil {
		return nil, err
	}
	for path, data := range files {
		if err := storage.PutPath(ctx, bucket, path, []byte(data)); err != nil {
			return nil, err
		}
	}
	targeting, err := buftarget.NewBucketTargeting(ctx, logger, bucket, ".", nil, nil, buftarget.TerminateAtControllingWorkspace)
	if err != nil {
		return nil, fmt.Errorf("targeting: %w", err)
	}
	ws, err := bufworkspace.NewWorkspaceProvider(logger, bufmodule.NopGraphProvider, bufmodule.NopModuleDataProvider, bufmodule.NopCommitProvider, bufplugin.NopPluginKeyProvider).GetWorkspaceForBucket(ctx, bucket, targeting)
	if err != nil {
		return nil, fmt.Errorf("workspace: %w", err)
	}
	opaqueID, err := testGetRootOpaqueID(ws, ".")
	if err != nil {
		return nil, err
	}
	img, err := bufimage.BuildImage(ctx, logger, bufmodule.ModuleSetToModuleReadBucketWithOnlyProtoFiles(ws))
	if err != nil {
		return nil, fmt.Errorf("build: %w", err)
	}
	client, err := bufcheck.NewClient(logger, bufcheck.NewLocalRunnerProvider(wasm.UnimplementedRuntime, bufplugin.NopPluginKeyProvider, bufplugin.NopPluginDataProvider))
	if err != nil {
		return nil, err
	}
	err = client.Lint(ctx, ws.GetLintConfigForOpaqueID(opaqueID), img, bufcheck.WithPluginConfigs(ws.PluginConfigs()...))
	if err == nil {
		return nil, nil
	}
	var set bufanalysis.FileAnnotationSet
	if !errors.As(err, &set) {
		return nil, fmt.Errorf("lint: %w", err)
	}
	var out []c05Ann
	for _, a := range set.FileAnnotations() {
		path := ""
		if a.FileInfo() != nil {
			path = a.FileInfo().Path()
		}
		out = append(out, c05Ann{a.Type(), path, a.StartLine(), a.StartColumn(), a.EndLine(), a.EndColumn(), a.Message()})
	}
	sort.Slice(out, func(i, j int) bool {
		return fmt.Sprint(out[i]) < fmt.Sprint(out[j])
	})
	return out, nil
}

func TestVerifReplayC05(t *testing.T) {
	fn := os.Getenv("VERIF_REPLAY_FUNC")
	_ = fn
	_ = strings.Contains
	start := time.Now()
	anns, err := c05RunLint(t, map[string]string{
		"acme/pet/v1/pet.proto": "syntax = \"proto3\";\npackage acme.pet.v1;\nmessage pet { string Name = 1; }\n",
	}, "version: v2\nlint:\n  use:\n    - STANDARD\n    - COMMENTS\n")
	fmt.Printf("VERIF-REPLAY dbg %v %v %v\n", anns, err, time.Since(start))
	start = time.Now()
	anns, err = c05RunLint(t, map[string]string{
		"acme/pet/v1/pet.proto": "syntax = \"proto3\";\npackage acme.pet.v1;\nmessage pet { string Name = 1; }\n",
	}, "version: v1beta1\nlint:\n  use:\n    - DEFAULT\n    - COMMENTS\n")
	fmt.Printf("VERIF-REPLAY dbg %v %v %v\n", anns, err, time.Since(start))
}
